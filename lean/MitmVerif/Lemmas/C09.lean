/-
  C09 — invariants of the task-system model (Model/C09.lean) and their preservation by every label.
-/
import MitmVerif.Model.C09
namespace MitmVerif.C09

/-- every server_connect has exactly one outcome, every server_connected its server_disconnected -/
def Settled (c : Conn) : Prop := c.nSC ≤ 1 ∧ c.nSD + c.nSE = c.nSC ∧ c.nSX = c.nSD

/-- the hook counters and the transports entry of an attempt are determined by where its task is -/
def ConnInv (c : Conn) : Prop :=
  match c.pc with
  | .created | .started => c.nSC = 0 ∧ c.nSD = 0 ∧ c.nSE = 0 ∧ c.nSX = 0 ∧ c.entry = true
  | .inSC | .preSem | .inSem | .semCancelled | .semWoken | .inConn | .preSE _ | .preSD =>
    c.nSC = 1 ∧ c.nSD = 0 ∧ c.nSE = 0 ∧ c.nSX = 0 ∧ c.entry = true
  | .inSE _ | .preEvErr _ => c.nSC = 1 ∧ c.nSD = 0 ∧ c.nSE = 1 ∧ c.nSX = 0 ∧ c.entry = true
  | .inSD | .preEvOk | .inRead | .preEvData | .afterData | .preEvClosed | .preClose | .preSX =>
    c.nSC = 1 ∧ c.nSD = 1 ∧ c.nSE = 0 ∧ c.nSX = 0 ∧ c.entry = true
  | .inSX => c.nSC = 1 ∧ c.nSD = 1 ∧ c.nSE = 0 ∧ c.nSX = 1 ∧ c.entry = false
  | .preRel | .finishing | .done => Settled c

theorem ConnInv.bounds {c : Conn} (h : ConnInv c) :
    c.nSC ≤ 1 ∧ c.nSD + c.nSE ≤ c.nSC ∧ c.nSX ≤ c.nSD := by
  unfold ConnInv at h
  split at h <;> (try unfold Settled at h) <;> omega

theorem ConnInv.settled_of_noentry {c : Conn} (h : ConnInv c) (he : c.entry = false) : Settled c := by
  unfold ConnInv at h
  split at h <;> (try unfold Settled) <;> (try exact h) <;> simp_all

theorem ConnInv.settled_of_done {c : Conn} (h : ConnInv c) (hd : c.pc = .done) : Settled c := by
  unfold ConnInv at h; rw [hd] at h; exact h

theorem ConnInv.noopen_of_noentry {c : Conn} (h : ConnInv c) (he : c.entry = false) : wopen c.pc = false := by
  unfold ConnInv at h
  split at h <;> simp_all [wopen]

theorem wopen_holding (pc : PC) (h : wopen pc = true) : holding pc = true := by
  cases pc <;> simp_all [wopen, holding]

theorem newConn_inv (k : Nat) (a : Option Nat) (l : Bool) : ConnInv (newConn k a l) := by
  simp [ConnInv, newConn]

/-- what one action of an open_connection task preserves -/
theorem stepS_inv {c c' : Conn} {a : Act} {free : Bool} {cmds : List Cmd}
    (hi : ConnInv c) (h : stepS c a free = some (c', cmds)) :
    ConnInv c' ∧ (c'.entry = true → c.entry = true) ∧ c'.cbs = c.cbs := by
  unfold stepS at h
  split at h <;> (try split at h) <;>
    simp only [Option.some.injEq, Prod.mk.injEq, reduceCtorEq] at h <;>
    (try (obtain ⟨rfl, rfl⟩ := h)) <;>
    simp_all [ConnInv, Settled, holding, Mode.held] <;>
    (try (split <;> simp_all [ConnInv, Settled, holding, Mode.held]))

/-! ### applying the layer's commands -/

theorem applyCmds_spec : ∀ (cmds : List Cmd) (s s' : St), applyCmds s cmds = some s' →
    (∃ new, s'.conns = s.conns ++ new ∧ (∀ c ∈ new, ∃ k a, c = newConn k a (isLate s.hpc)) ∧
      (s'.lateOpen = false → s.lateOpen = false ∧ (isLate s.hpc = true → new = []))) ∧
    s'.hpc = s.hpc ∧ s'.cpc = s.cpc ∧ s'.centry = s.centry ∧ s'.cwopen = s.cwopen ∧
    s'.nCC = s.nCC ∧ s'.nCD = s.nCD ∧ s'.size = s.size ∧ s'.ccbs = s.ccbs ∧ s'.hcount = s.hcount ∧
    s'.semv = s.semv ∧ s'.waiters = s.waiters := by
  intro cmds
  induction cmds with
  | nil => intro s s' h; simp [applyCmds] at h; subst h; exact ⟨⟨[], by simp⟩, rfl, rfl, rfl, rfl, rfl, rfl, rfl, rfl, rfl, rfl, rfl⟩
  | cons c cs ih =>
    intro s s' h
    simp only [applyCmds] at h
    cases hc : applyCmd s c with
    | none => simp [hc] at h
    | some s1 =>
      simp only [hc] at h
      obtain ⟨⟨new, hn1, hn2, hn3⟩, h1, h2, h3, h4, h5, h6, h7, h8, h9, h10, h11⟩ := ih s1 s' h
      cases c with
      | spawn =>
        simp [applyCmd] at hc; subst hc
        exact ⟨⟨new, by simpa using hn1, hn2, by simpa using hn3⟩, by simpa using h1, by simpa using h2,
          by simpa using h3, by simpa using h4, by simpa using h5, by simpa using h6, by simpa using h7, by simpa using h8, by simpa using h9, by simpa using h10, by simpa using h11⟩
      | opn key addr =>
        simp only [applyCmd] at hc
        split at hc
        · simp only [Option.some.injEq] at hc; subst hc
          refine ⟨⟨newConn key addr (isLate s.hpc) :: new, by simpa using hn1, ?_, ?_⟩, by simpa using h1, by simpa using h2,
            by simpa using h3, by simpa using h4, by simpa using h5, by simpa using h6, by simpa using h7, by simpa using h8, by simpa using h9, by simpa using h10, by simpa using h11⟩
          · intro c hc
            rcases List.mem_cons.mp hc with rfl | hc
            · exact ⟨key, addr, rfl⟩
            · exact hn2 c hc
          · intro hl
            have := hn3 hl
            simp only [Bool.or_eq_false_iff] at this
            obtain ⟨⟨ha, hb⟩, _⟩ := this
            exact ⟨ha, by intro hx; simp [hx] at hb⟩
        · simp at hc

/-! ### the global invariant -/

def hasWait (c : Conn) : Bool := c.cbs.contains .waitH

/-- a task's pending done-callbacks: release_transport first, asyncio.wait's callback behind it; the entry can
    only be in transports while release_transport has not run -/
def CbInv (c : Conn) : Prop :=
  (c.cbs = [.release] ∨ c.cbs = [.release, .waitH] ∨ c.cbs = [.waitH] ∨ c.cbs = []) ∧
  (c.entry = true → c.cbs = [.release] ∨ c.cbs = [.release, .waitH])

theorem newConn_cb (k : Nat) (a : Option Nat) (l : Bool) : CbInv (newConn k a l) ∧ hasWait (newConn k a l) = false := by
  simp [CbInv, newConn, hasWait]

/-- the client connection handler's callbacks -/
def cwait (s : St) : Nat := if s.ccbs.contains .waitH then 1 else 0

/-- handle_client has not created the client handler task yet -/
def preC : HPC → Bool
  | .h0 | .inCC | .killClose | .preStart => true
  | _ => false

/-- handle_client is past `await asyncio.wait([handler])` (or never created the handler: kill path) -/
def postC : HPC → Bool
  | .preCD | .inCD | .final | .returned => true
  | _ => false

def CInv (s : St) : Prop :=
  (s.ccbs = [] ∨ s.ccbs = [.release, .waitH] ∨ s.ccbs = [.waitH]) ∧
  (s.cpc ≠ .absent → s.centry = true → s.ccbs = [.release, .waitH]) ∧
  (s.hpc = .waitC → s.cpc ≠ .absent) ∧
  (s.cpc = .absent → s.ccbs = []) ∧
  (preC s.hpc = true → s.cpc = .absent) ∧
  (postC s.hpc = true → cwait s = 0)

def HInv (s : St) : Prop :=
  (s.centry = false → s.cwopen = false) ∧
  match s.hpc with
  | .h0 => s.nCC = 0 ∧ s.nCD = 0
  | .inCC | .killClose | .preStart | .waitC => s.nCC = 1 ∧ s.nCD = 0
  | .preCD => s.nCC = 1 ∧ s.nCD = 0 ∧ s.centry = false
  | .inCD | .final | .returned => s.nCC = 1 ∧ s.nCD = 1 ∧ s.centry = false

structure Inv (s : St) : Prop where
  conn : ∀ c ∈ s.conns, ConnInv c
  h : HInv s
  cb : ∀ c ∈ s.conns, CbInv c
  cl : CInv s
  wait : s.hcount = s.conns.countP hasWait + cwait s
  nowait : isLate s.hpc = false → ∀ c ∈ s.conns, hasWait c = false
  fin : s.hpc = .final → s.lateOpen = false → ∀ c ∈ s.conns, c.entry = true → hasWait c = true
  ret : s.hpc = .returned → s.lateOpen = false → ∀ c ∈ s.conns, c.entry = false

theorem init_inv (n : Nat) : Inv (init n) := by
  constructor <;> simp [init, HInv, CInv, cwait, preC, postC]

theorem holdsAt_new (a k : Nat) (ad : Option Nat) (l : Bool) : holdsAt a (newConn k ad l) = false := by
  simp [holdsAt, newConn, holding]

theorem Inv.apply {s s' : St} {cmds : List Cmd} (hi : Inv s) (h : applyCmds s cmds = some s') : Inv s' := by
  obtain ⟨⟨new, hn1, hn2, hn3⟩, h1, h2, h3, h4, h5, h6, h7, h8, h9, _, _⟩ := applyCmds_spec cmds s s' h
  have hwcount : new.countP hasWait = 0 := by
    rw [List.countP_eq_zero]
    intro c hc
    obtain ⟨k, ad, rfl⟩ := hn2 c hc
    simp [(newConn_cb k ad _).2]
  constructor
  · intro c hc
    rw [hn1] at hc
    rcases List.mem_append.mp hc with hc | hc
    · exact hi.conn c hc
    · obtain ⟨k, a, rfl⟩ := hn2 c hc; exact newConn_inv k a _
  · have := hi.h
    unfold HInv at this ⊢
    rw [h1, h3, h4, h5, h6]; exact this
  · intro c hc
    rw [hn1] at hc
    rcases List.mem_append.mp hc with hc | hc
    · exact hi.cb c hc
    · obtain ⟨k, a, rfl⟩ := hn2 c hc; exact (newConn_cb k a _).1
  · have := hi.cl
    unfold CInv cwait at this ⊢
    rw [h1, h2, h3, h8]; exact this
  · rw [h9, hn1, List.countP_append, hwcount]
    have := hi.wait
    simp only [cwait, h8] at this ⊢
    omega
  · intro hl c hc
    rw [h1] at hl
    rw [hn1] at hc
    rcases List.mem_append.mp hc with hc | hc
    · exact hi.nowait hl c hc
    · obtain ⟨k, a, rfl⟩ := hn2 c hc; exact (newConn_cb k a _).2
  · intro hw hl c hc he
    obtain ⟨hl0, hnew⟩ := hn3 hl
    rw [h1] at hw
    have : new = [] := hnew (by simp [hw, isLate])
    rw [hn1, this, List.append_nil] at hc
    exact hi.fin hw hl0 c hc he
  · intro hr hl c hc
    obtain ⟨hl0, hnew⟩ := hn3 hl
    rw [h1] at hr
    have : new = [] := hnew (by simp [hr, isLate])
    rw [hn1, this, List.append_nil] at hc
    exact hi.ret hr hl0 c hc

/-- replacing one task's state: membership -/
theorem mem_set_cases {l : List Conn} {i : Nat} {c' d : Conn} (h : d ∈ l.set i c') : d = c' ∨ d ∈ l := by
  rcases List.mem_or_eq_of_mem_set h with h | h
  · exact Or.inr h
  · exact Or.inl h

theorem mem_of_getElem? {l : List Conn} {i : Nat} {c : Conn} (h : l[i]? = some c) : c ∈ l :=
  List.mem_of_getElem? h

/-- replacing the state of task `i` (an action of the task, or one of its callbacks) preserves the invariant -/
theorem Inv.set {s : St} {i : Nat} {c c' : Conn} {n : Nat}
    (hi : Inv s) (hc : s.conns[i]? = some c)
    (h1 : ConnInv c') (h3 : c'.entry = true → c.entry = true)
    (h5 : CbInv c') (h6 : hasWait c' = true → hasWait c = true)
    (h7 : c'.entry = true → hasWait c = true → hasWait c' = true)
    (h8 : n + (if hasWait c = true then 1 else 0) = s.hcount + (if hasWait c' = true then 1 else 0)) :
    Inv { s with conns := s.conns.set i c', hcount := n } := by
  have hlt : i < s.conns.length := by
    rcases Nat.lt_or_ge i s.conns.length with h | h
    · exact h
    · simp [List.getElem?_eq_none h] at hc
  have hci : s.conns[i] = c := by
    have := List.getElem?_eq_getElem hlt
    rw [this] at hc; exact Option.some.inj hc
  have hmem : c ∈ s.conns := by rw [← hci]; exact List.getElem_mem hlt
  constructor
  · intro d hd
    rcases mem_set_cases hd with rfl | hd
    · exact h1
    · exact hi.conn d hd
  · exact hi.h
  · intro d hd
    rcases mem_set_cases hd with rfl | hd
    · exact h5
    · exact hi.cb d hd
  · exact hi.cl
  · show n = (s.conns.set i c').countP hasWait + cwait s
    rw [List.countP_set hlt, hci]
    have hw := hi.wait
    have hpos : hasWait c = true → 0 < s.conns.countP hasWait := fun h => List.countP_pos_iff.mpr ⟨c, hmem, h⟩
    by_cases hx : hasWait c = true <;> by_cases hy : hasWait c' = true <;> simp only [hx, hy, if_true, if_false] at h8 ⊢
    · have := hpos hx; omega
    · have := hpos hx; simp at h8 ⊢; omega
    · simp at h8 ⊢; omega
    · simp at h8 ⊢; omega
  · intro hl d hd
    rcases mem_set_cases hd with rfl | hd
    · cases hw : hasWait d with
      | false => rfl
      | true => have := hi.nowait hl c hmem; rw [h6 hw] at this; simp at this
    · exact hi.nowait hl d hd
  · intro hw hl d hd he
    rcases mem_set_cases hd with rfl | hd
    · exact h7 he (hi.fin hw hl c hmem (h3 he))
    · exact hi.fin hw hl d hd he
  · intro hr hl d hd
    rcases mem_set_cases hd with rfl | hd
    · have := hi.ret hr hl c hmem
      cases he : d.entry with
      | false => rfl
      | true => rw [h3 he] at this; simp at this
    · exact hi.ret hr hl d hd

/-- registering asyncio.wait's callback on every task that still has an entry -/
theorem regWait_count : ∀ (l : List Conn), (∀ c ∈ l, hasWait c = false) →
    (l.map regWait).countP hasWait = l.countP (·.entry) := by
  intro l
  induction l with
  | nil => intro _; rfl
  | cons d ds ih =>
    intro h
    have hd := h d List.mem_cons_self
    have := ih (fun c hc => h c (List.mem_cons_of_mem _ hc))
    simp only [List.map_cons, List.countP_cons, this]
    congr 1
    unfold regWait
    cases he : d.entry <;> simp_all [hasWait]

theorem regWait_inv {c : Conn} (h1 : ConnInv c) (h2 : CbInv c) (h3 : hasWait c = false) :
    ConnInv (regWait c) ∧ CbInv (regWait c) ∧ (regWait c).entry = c.entry ∧
    (∀ a, holdsAt a (regWait c) = holdsAt a c) ∧ ((regWait c).entry = true → hasWait (regWait c) = true) := by
  by_cases he : c.entry = true
  · have hr : regWait c = { c with cbs := c.cbs ++ [.waitH] } := by simp [regWait, he]
    rw [hr]
    refine ⟨h1, ?_, rfl, fun _ => rfl, fun _ => by simp [hasWait]⟩
    unfold CbInv at h2 ⊢
    have h22 := h2.2 he
    simp only [hasWait] at h3
    rcases h22 with h | h
    · simp [h]
    · simp [h] at h3
  · have hr : regWait c = c := by simp [regWait, he]
    rw [hr]
    exact ⟨h1, h2, rfl, fun _ => rfl, fun h => absurd h he⟩

/-- the semaphore's own fields are not mentioned by the lifecycle invariant -/
theorem Inv.semfields {s : St} (hi : Inv s) (f : Nat → Nat) (g : Nat → List Nat) :
    Inv { s with semv := f, waiters := g } :=
  ⟨hi.conn, hi.h, hi.cb, hi.cl, hi.wait, hi.nowait, hi.fin, hi.ret⟩

theorem firstWaiting_spec : ∀ (conns : List Conn) (w : List Nat) (j : Nat), firstWaiting conns w = some j →
    j ∈ w ∧ ∃ d, conns[j]? = some d ∧ d.pc = .inSem := by
  intro conns w
  induction w with
  | nil => intro j h; simp [firstWaiting] at h
  | cons k ks ih =>
    intro j h
    simp only [firstWaiting] at h
    split at h
    · rename_i d hd
      split at h
      · rename_i hpc
        simp only [Option.some.injEq] at h; subst h
        exact ⟨List.mem_cons_self, d, hd, hpc⟩
      · obtain ⟨h1, h2⟩ := ih j h
        exact ⟨List.mem_cons_of_mem _ h1, h2⟩
    · obtain ⟨h1, h2⟩ := ih j h
      exact ⟨List.mem_cons_of_mem _ h1, h2⟩

/-- handing a slot to a queued waiter does not touch the lifecycle invariant -/
theorem Inv.wake {s : St} (hi : Inv s) (ad : Nat) : Inv (wakeNext s ad) := by
  unfold wakeNext
  split
  · exact hi
  · split
    · exact hi
    · rename_i j hj
      obtain ⟨_, d, hd, hpc⟩ := firstWaiting_spec _ _ _ hj
      simp only [hd]
      have hmem := mem_of_getElem? hd
      have hci := hi.conn d hmem
      have hcb := hi.cb d hmem
      have := Inv.set (n := s.hcount) (c' := { d with pc := .semWoken }) hi hd
        (by unfold ConnInv at hci ⊢; simp only [hpc] at hci; exact hci) (fun h => h)
        hcb (fun h => h) (fun _ h => h) rfl
      exact Inv.semfields this _ _

theorem Inv.semEffect {s : St} (hi : Inv s) (i : Nat) (c : Conn) (a : Act) : Inv (semEffect s i c a) := by
  unfold MitmVerif.C09.semEffect
  split
  · exact hi
  · split
    · exact Inv.semfields hi _ _
    · exact Inv.semfields hi _ _
    · exact Inv.wake (Inv.semfields hi _ _) _
    · exact Inv.semfields hi _ _
    · exact Inv.wake (Inv.semfields hi _ _) _
    · exact Inv.wake (Inv.semfields hi _ _) _
    · exact hi

theorem stepC_nonabsent {pc pc' : CPC} {a : Act} {cmds : List Cmd} {b : Bool}
    (h : stepC pc a = some (pc', cmds, b)) : pc ≠ .absent ∧ pc' ≠ .absent := by
  unfold stepC at h
  split at h <;> simp only [Option.some.injEq, Prod.mk.injEq, reduceCtorEq] at h <;>
    (try (obtain ⟨rfl, _, _⟩ := h)) <;> simp_all

/-- every label preserves the invariant -/
theorem Inv.preserved {s s' : St} {l : Label} (hi : Inv s) (h : step s l = some s') : Inv s' := by
  cases l with
  | act t a =>
    cases t with
    | H =>
      simp only [step] at h
      unfold stepH at h
      have hh := hi.h
      have hcl := hi.cl
      split at h
      · -- h0, hook cc
        simp only [Option.some.injEq] at h; subst h
        exact ⟨hi.conn, by unfold HInv at hh ⊢; simp_all, hi.cb, by unfold CInv cwait at hcl ⊢; simp_all [preC, postC, cwait],
          hi.wait, fun _ => hi.nowait (by simp_all [isLate]), by intro hw; simp at hw, by intro hr; simp at hr⟩
      · simp only [Option.some.injEq] at h; subst h
        exact ⟨hi.conn, by unfold HInv at hh ⊢; simp_all, hi.cb, by unfold CInv cwait at hcl ⊢; simp_all [preC, postC, cwait],
          hi.wait, fun _ => hi.nowait (by simp_all [isLate]), by intro hw; simp at hw, by intro hr; simp at hr⟩
      · simp only [Option.some.injEq] at h; subst h
        exact ⟨hi.conn, by unfold HInv at hh ⊢; simp_all, hi.cb, by unfold CInv cwait at hcl ⊢; simp_all [preC, postC, cwait],
          hi.wait, fun _ => hi.nowait (by simp_all [isLate]), by intro hw; simp at hw, by intro hr; simp at hr⟩
      · -- killClose, wclose
        simp only [Option.some.injEq] at h; subst h
        exact ⟨hi.conn, by unfold HInv at hh ⊢; simp_all, hi.cb, by unfold CInv cwait at hcl ⊢; simp_all [preC, postC, cwait],
          hi.wait, fun _ => hi.nowait (by simp_all [isLate]), by intro hw; simp at hw, by intro hr; simp at hr⟩
      · -- preStart, ev start: create the client handler task, wait for it
        refine Inv.apply (?_ : Inv _) h
        have hnw := hi.nowait (by simp_all [isLate])
        refine ⟨hi.conn, by unfold HInv at hh ⊢; simp_all, hi.cb, by unfold CInv cwait at hcl ⊢; simp_all [preC, postC, cwait], ?_,
          fun _ => hnw, by intro hw; simp at hw, by intro hr; simp at hr⟩
        show 1 = s.conns.countP hasWait + _
        have : s.conns.countP hasWait = 0 := by
          rw [List.countP_eq_zero]; intro c hc; simp [hnw c hc]
        simp [this, cwait]
      · -- waitC, hook cd: asyncio.wait([handler]) has returned
        split at h
        · rename_i hzero
          simp only [Option.some.injEq] at h; subst h
          have hw := hi.wait
          have hce : s.centry = false := by
            unfold CInv at hcl
            obtain ⟨hshape, hown, hpres, _, _, _⟩ := hcl
            cases hcen : s.centry with
            | false => rfl
            | true =>
              have := hown (hpres (by assumption)) hcen
              simp [cwait, this, hzero] at hw
          exact ⟨hi.conn, by unfold HInv at hh ⊢; simp_all, hi.cb, by unfold CInv cwait at hcl ⊢; simp_all [preC, postC, cwait],
            hi.wait, fun _ => hi.nowait (by simp_all [isLate]), by intro hw; simp at hw, by intro hr; simp at hr⟩
        · simp at h
      · simp only [Option.some.injEq] at h; subst h
        exact ⟨hi.conn, by unfold HInv at hh ⊢; simp_all, hi.cb, by unfold CInv cwait at hcl ⊢; simp_all [preC, postC, cwait],
          hi.wait, fun _ => hi.nowait (by simp_all [isLate]), by intro hw; simp at hw, by intro hr; simp at hr⟩
      · -- inCD, hookret: register asyncio.wait's callback on every task that still has an entry
        simp only [Option.some.injEq] at h; subst h
        have hnw := hi.nowait (by simp_all [isLate])
        have hreg : ∀ d ∈ s.conns, _ := fun d hd => regWait_inv (hi.conn d hd) (hi.cb d hd) (hnw d hd)
        refine ⟨?_, by unfold HInv at hh ⊢; simp_all, ?_, by unfold CInv cwait at hcl ⊢; simp_all [preC, postC, cwait], ?_,
          by intro hl; simp [isLate] at hl, ?_, by intro hr; simp at hr⟩
        · intro c hc
          obtain ⟨d, hd, rfl⟩ := List.mem_map.mp hc
          exact (hreg d hd).1
        · intro c hc
          obtain ⟨d, hd, rfl⟩ := List.mem_map.mp hc
          exact (hreg d hd).2.1
        · show s.conns.countP (·.entry) = (s.conns.map regWait).countP hasWait + cwait s
          rw [regWait_count s.conns hnw]
          have hw := hi.wait
          have hz : s.conns.countP hasWait = 0 := by
            rw [List.countP_eq_zero]; intro c hc; simp [hnw c hc]
          -- the client handler has been waited for already: its callbacks are gone
          have : cwait s = 0 := by
            unfold CInv at hcl
            exact hcl.2.2.2.2.2 (by simp_all [postC])
          omega
        · intro _ _ c hc he
          obtain ⟨d, hd, rfl⟩ := List.mem_map.mp hc
          exact (hreg d hd).2.2.2.2 he
      · -- final, fin: asyncio.wait has counted down to zero
        split at h
        · rename_i hzero
          simp only [Option.some.injEq] at h; subst h
          refine ⟨hi.conn, by unfold HInv at hh ⊢; simp_all, hi.cb, by unfold CInv cwait at hcl ⊢; simp_all [preC, postC, cwait],
            hi.wait, by intro hl; simp [isLate] at hl, by intro hw; simp at hw, ?_⟩
          intro _ hl c hc
          cases he : c.entry with
          | false => rfl
          | true =>
            have hwc := hi.fin (by assumption) hl c hc he
            have : 0 < s.conns.countP hasWait := List.countP_pos_iff.mpr ⟨c, hc, hwc⟩
            have hw := hi.wait
            omega
        · simp at h
      · simp at h
    | C =>
      simp only [step] at h
      have hh := hi.h
      have hcl := hi.cl
      split at h
      · rename_i pc cmds closed hsc
        have hna := stepC_nonabsent hsc
        split at h
        · refine Inv.apply (?_ : Inv _) h
          refine ⟨hi.conn, ?_, hi.cb, ?_, hi.wait, hi.nowait, hi.fin, hi.ret⟩
          · unfold HInv at hh ⊢; simp only at hh ⊢
            refine ⟨by simp, ?_⟩
            have h2 := hh.2
            split <;> simp_all
          · have hpre : preC s.hpc = false := by
              cases hp : preC s.hpc with
              | false => rfl
              | true => unfold CInv at hcl; exact absurd (hcl.2.2.2.2.1 hp) hna.1
            unfold CInv cwait at hcl ⊢; simp only at hcl ⊢
            exact ⟨hcl.1, by intro _ hc; simp at hc, fun _ => hna.2, fun hab => absurd hab hna.2,
              by intro hp; simp [hpre] at hp, hcl.2.2.2.2.2⟩
        · refine Inv.apply (?_ : Inv _) h
          refine ⟨hi.conn, hh, hi.cb, ?_, hi.wait, hi.nowait, hi.fin, hi.ret⟩
          have hpre : preC s.hpc = false := by
            cases hp : preC s.hpc with
            | false => rfl
            | true => unfold CInv at hcl; exact absurd (hcl.2.2.2.2.1 hp) hna.1
          unfold CInv cwait at hcl ⊢; simp only at hcl ⊢
          exact ⟨hcl.1, fun _ hc => hcl.2.1 hna.1 hc, fun _ => hna.2, fun hab => absurd hab hna.2,
            by intro hp; simp [hpre] at hp, hcl.2.2.2.2.2⟩
      · simp at h
    | S i =>
      simp only [step] at h
      split at h
      · rename_i c hc
        split at h
        · rename_i c' cmds hs
          have hmem := mem_of_getElem? hc
          obtain ⟨h1, h3, h5⟩ := stepS_inv (hi.conn c hmem) hs
          have hcb := hi.cb c hmem
          refine Inv.apply (Inv.semEffect (Inv.set (n := s.hcount) hi hc h1 h3 ?_ ?_ ?_ ?_) i c a) h
          · unfold CbInv at hcb ⊢; rw [h5]; exact ⟨hcb.1, fun he => hcb.2 (h3 he)⟩
          · simp [hasWait, h5]
          · simp [hasWait, h5]
          · simp [hasWait, h5]
        · simp at h
      · simp at h
    | K i =>
      simp only [step] at h
      split at h
      · split at h
        · refine Inv.apply (?_ : Inv _) h
          exact ⟨hi.conn, hi.h, hi.cb, hi.cl, hi.wait, hi.nowait, hi.fin, hi.ret⟩
        · simp at h
      · simp at h
  | cb t =>
    cases t with
    | H => simp [step] at h
    | K i => simp [step] at h
    | C =>
      simp only [step] at h
      have hh := hi.h
      have hcl := hi.cl
      have hw := hi.wait
      split at h
      · rename_i hdone
        have hna : s.cpc ≠ .absent := by rw [hdone]; simp
        split at h
        · -- release_transport of the client handler
          rename_i rest hcb
          have hrest : rest = [.waitH] := by
            unfold CInv at hcl; rcases hcl.1 with h | h | h <;> simp_all
          subst hrest
          split at h
          · simp only [Option.some.injEq] at h; subst h
            refine ⟨hi.conn, ?_, hi.cb, ?_, ?_, hi.nowait, hi.fin, hi.ret⟩
            · unfold HInv at hh ⊢; simp only at hh ⊢
              refine ⟨by simp, ?_⟩
              have h2 := hh.2
              split <;> simp_all
            · unfold CInv cwait at hcl ⊢; simp only at hcl ⊢
              simp_all
            · show s.hcount = s.conns.countP hasWait + _
              simp only [cwait, hcb] at hw ⊢; simpa using hw
          · simp only [Option.some.injEq] at h; subst h
            rename_i hcen
            refine ⟨hi.conn, hh, hi.cb, ?_, ?_, hi.nowait, hi.fin, hi.ret⟩
            · unfold CInv cwait at hcl ⊢; simp only at hcl ⊢
              simp_all
            · show s.hcount = s.conns.countP hasWait + _
              simp only [cwait, hcb] at hw ⊢; simpa using hw
        · -- asyncio.wait([handler])'s completion callback
          rename_i rest hcb
          have hrest : rest = [] := by
            unfold CInv at hcl; rcases hcl.1 with h | h | h <;> simp_all
          subst hrest
          have hcen : s.centry = false := by
            cases hc : s.centry with
            | false => rfl
            | true => unfold CInv at hcl; have := hcl.2.1 hna hc; simp [hcb] at this
          simp only [Option.some.injEq] at h; subst h
          refine ⟨hi.conn, hh, hi.cb, ?_, ?_, hi.nowait, hi.fin, hi.ret⟩
          · unfold CInv cwait at hcl ⊢; simp only at hcl ⊢
            simp_all
          · show s.hcount - 1 = s.conns.countP hasWait + _
            simp only [cwait, hcb] at hw ⊢; simp at hw ⊢; omega
        · simp at h
      · simp at h
    | S i =>
      simp only [step] at h
      split at h
      · rename_i c hc
        have hmem := mem_of_getElem? hc
        have hci := hi.conn c hmem
        have hcb := hi.cb c hmem
        split at h
        · rename_i hdone
          have hsett : ∀ (x : Conn), x.pc = .done → x.nSC = c.nSC → x.nSD = c.nSD → x.nSE = c.nSE → x.nSX = c.nSX → ConnInv x := by
            intro x hx e1 e2 e3 e4
            unfold ConnInv at hci ⊢
            simp only [hdone] at hci; simp only [hx]
            unfold Settled at hci ⊢; rw [e1, e2, e3, e4]; exact hci
          split at h
          · -- release_transport
            rename_i rest hcbs
            simp only [Option.some.injEq] at h; subst h
            have hrest : rest = [] ∨ rest = [.waitH] := by
              unfold CbInv at hcb; rcases hcb.1 with h | h | h | h <;> simp_all
            refine Inv.set (n := s.hcount) hi hc (hsett _ hdone rfl rfl rfl rfl) (by simp)
              ?_ ?_ (by simp) ?_
            · unfold CbInv; rcases hrest with h | h <;> simp [h]
            · rcases hrest with h | h <;> simp [hasWait, h, hcbs]
            · rcases hrest with h | h <;> simp [hasWait, h, hcbs]
          · -- asyncio.wait's completion callback
            rename_i rest hcbs
            simp only [Option.some.injEq] at h; subst h
            have hrest : rest = [] := by
              unfold CbInv at hcb; rcases hcb.1 with h | h | h | h <;> simp_all
            subst hrest
            have hent : c.entry = false := by
              cases he : c.entry with
              | false => rfl
              | true => unfold CbInv at hcb; rcases hcb.2 he with h | h <;> simp [hcbs] at h
            have hwc : hasWait c = true := by simp [hasWait, hcbs]
            have hpos : 0 < s.conns.countP hasWait := List.countP_pos_iff.mpr ⟨c, hmem, hwc⟩
            have hw := hi.wait
            refine Inv.set (n := s.hcount - 1) hi hc (hsett _ hdone rfl rfl rfl rfl) (by simp)
              ?_ (by simp [hasWait]) (by simp [hent]) ?_
            · unfold CbInv; simp [hent]
            · simp [hasWait, hcbs]; omega
          · simp at h
        · simp at h
      · simp at h

theorem Inv.preservedRun : ∀ (ls : List Label) (s s' : St), Inv s → run s ls = some s' → Inv s' := by
  intro ls
  induction ls with
  | nil => intro s s' hi h; simp [run] at h; subst h; exact hi
  | cons l ls ih =>
    intro s s' hi h
    simp only [run] at h
    cases hs : step s l with
    | none => simp [hs] at h
    | some s1 =>
      simp only [hs] at h
      exact ih s1 s' (Inv.preserved hi hs) h

theorem wakeNext_size (s : St) (ad : Nat) : (wakeNext s ad).size = s.size := by
  unfold wakeNext
  split
  · rfl
  · split
    · rfl
    · split <;> rfl

theorem semEffect_size (s : St) (i : Nat) (c : Conn) (a : Act) : (semEffect s i c a).size = s.size := by
  unfold semEffect
  split
  · rfl
  · split <;> (try rfl) <;> (rw [wakeNext_size])

theorem size_step {s s' : St} {l : Label} (h : step s l = some s') : s'.size = s.size := by
  cases l with
  | act t a =>
    cases t with
    | H =>
      simp only [step] at h
      unfold stepH at h
      split at h <;> (try split at h) <;> (try (simp only [Option.some.injEq] at h; subst h; rfl)) <;>
        (try (simp at h; done)) <;> (try exact (applyCmds_spec _ _ _ h).2.2.2.2.2.2.2.1)
    | C =>
      simp only [step] at h
      split at h
      · split at h <;> exact (applyCmds_spec _ _ _ h).2.2.2.2.2.2.2.1
      · simp at h
    | S i =>
      simp only [step] at h
      split at h
      · split at h
        · exact ((applyCmds_spec _ _ _ h).2.2.2.2.2.2.2.1).trans (semEffect_size _ _ _ _)
        · simp at h
      · simp at h
    | K i =>
      simp only [step] at h
      split at h
      · split at h
        · exact (applyCmds_spec _ _ _ h).2.2.2.2.2.2.2.1
        · simp at h
      · simp at h
  | cb t =>
    cases t with
    | H => simp [step] at h
    | K i => simp [step] at h
    | C =>
      simp only [step] at h
      split at h
      · split at h
        · split at h <;> (simp only [Option.some.injEq] at h; subst h; rfl)
        · simp only [Option.some.injEq] at h; subst h; rfl
        · simp at h
      · simp at h
    | S i =>
      simp only [step] at h
      split at h
      · split at h
        · split at h
          · simp only [Option.some.injEq] at h; subst h; rfl
          · simp only [Option.some.injEq] at h; subst h; rfl
          · simp at h
        · simp at h
      · simp at h

theorem size_run : ∀ (ls : List Label) (s s' : St), run s ls = some s' → s'.size = s.size := by
  intro ls
  induction ls with
  | nil => intro s s' h; simp [run] at h; subst h; rfl
  | cons l ls ih =>
    intro s s' h
    simp only [run] at h
    cases hs : step s l with
    | none => simp [hs] at h
    | some s1 =>
      simp only [hs] at h
      rw [ih s1 s' h, size_step hs]

theorem Reach.inv {n : Nat} {s : St} (h : Reach n s) : Inv s ∧ s.size = n := by
  obtain ⟨ls, hl⟩ := h
  exact ⟨Inv.preservedRun ls _ _ (init_inv n) hl, by rw [size_run ls _ _ hl]; rfl⟩

end MitmVerif.C09
