/-
  C09 — invariants of the task-system model (Model/C09.lean) and their preservation by every label.
-/
import MitmVerif.Model.C09
namespace MitmVerif.C09

/-- every server_connect has exactly one outcome, every server_connected its server_disconnected -/
def Settled (c : Conn) : Prop := c.nSC ≤ 1 ∧ c.nSD + c.nSE = c.nSC ∧ c.nSX = c.nSD

/-- the hook counters and the transports entry of an attempt are determined by where its task is -/
def ConnInv (c : Conn) : Prop :=
  match c.pc with
  | .created | .started => c.nSC = 0 ∧ c.nSD = 0 ∧ c.nSE = 0 ∧ c.nSX = 0 ∧ c.entry = true
  | .inSC | .preSem | .inSem | .inConn | .preSE _ | .preSD =>
    c.nSC = 1 ∧ c.nSD = 0 ∧ c.nSE = 0 ∧ c.nSX = 0 ∧ c.entry = true
  | .inSE _ | .preEvErr _ => c.nSC = 1 ∧ c.nSD = 0 ∧ c.nSE = 1 ∧ c.nSX = 0 ∧ c.entry = true
  | .inSD | .preEvOk | .inRead | .preEvData | .afterData | .preEvClosed | .preClose | .preSX =>
    c.nSC = 1 ∧ c.nSD = 1 ∧ c.nSE = 0 ∧ c.nSX = 0 ∧ c.entry = true
  | .inSX => c.nSC = 1 ∧ c.nSD = 1 ∧ c.nSE = 0 ∧ c.nSX = 1 ∧ c.entry = false
  | .preRel | .finishing | .done => Settled c

theorem ConnInv.bounds {c : Conn} (h : ConnInv c) :
    c.nSC ≤ 1 ∧ c.nSD + c.nSE ≤ c.nSC ∧ c.nSX ≤ c.nSD := by
  unfold ConnInv at h
  split at h <;> (try unfold Settled at h) <;> omega

theorem ConnInv.settled_of_noentry {c : Conn} (h : ConnInv c) (he : c.entry = false) : Settled c := by
  unfold ConnInv at h
  split at h <;> (try unfold Settled) <;> (try exact h) <;> simp_all

theorem ConnInv.settled_of_done {c : Conn} (h : ConnInv c) (hd : c.pc = .done) : Settled c := by
  unfold ConnInv at h; rw [hd] at h; exact h

theorem ConnInv.noopen_of_noentry {c : Conn} (h : ConnInv c) (he : c.entry = false) : wopen c.pc = false := by
  unfold ConnInv at h
  split at h <;> simp_all [wopen]

theorem wopen_holding (pc : PC) (h : wopen pc = true) : holding pc = true := by
  cases pc <;> simp_all [wopen, holding]

theorem newConn_inv (k : Nat) (a : Option Nat) : ConnInv (newConn k a) := by
  simp [ConnInv, newConn]

/-- what one action of an open_connection task preserves -/
theorem stepS_inv {c c' : Conn} {a : Act} {free : Bool} {cmds : List Cmd}
    (hi : ConnInv c) (h : stepS c a free = some (c', cmds)) :
    ConnInv c' ∧ c'.addr = c.addr ∧ (c'.entry = true → c.entry = true) ∧
    (holding c'.pc = true → holding c.pc = true ∨ free = true) := by
  unfold stepS at h
  split at h <;> (try split at h) <;>
    simp only [Option.some.injEq, Prod.mk.injEq, reduceCtorEq] at h <;>
    (try (obtain ⟨rfl, rfl⟩ := h)) <;>
    simp_all [ConnInv, Settled, holding, Mode.held] <;>
    (try (split <;> simp_all [ConnInv, Settled, holding, Mode.held]))

/-! ### applying the layer's commands -/

theorem applyCmds_spec : ∀ (cmds : List Cmd) (s s' : St), applyCmds s cmds = some s' →
    (∃ new, s'.conns = s.conns ++ new ∧ (∀ c ∈ new, ∃ k a, c = newConn k a) ∧
      (s'.lateOpen = false → s.lateOpen = false ∧ (isLate s.hpc = true → new = []))) ∧
    s'.hpc = s.hpc ∧ s'.cpc = s.cpc ∧ s'.centry = s.centry ∧ s'.cwopen = s.cwopen ∧
    s'.nCC = s.nCC ∧ s'.nCD = s.nCD ∧ s'.size = s.size := by
  intro cmds
  induction cmds with
  | nil => intro s s' h; simp [applyCmds] at h; subst h; exact ⟨⟨[], by simp⟩, rfl, rfl, rfl, rfl, rfl, rfl, rfl⟩
  | cons c cs ih =>
    intro s s' h
    simp only [applyCmds] at h
    cases hc : applyCmd s c with
    | none => simp [hc] at h
    | some s1 =>
      simp only [hc] at h
      obtain ⟨⟨new, hn1, hn2, hn3⟩, h1, h2, h3, h4, h5, h6, h7⟩ := ih s1 s' h
      cases c with
      | spawn =>
        simp [applyCmd] at hc; subst hc
        exact ⟨⟨new, by simpa using hn1, hn2, by simpa using hn3⟩, by simpa using h1, by simpa using h2,
          by simpa using h3, by simpa using h4, by simpa using h5, by simpa using h6, by simpa using h7⟩
      | opn key addr =>
        simp only [applyCmd] at hc
        split at hc
        · simp only [Option.some.injEq] at hc; subst hc
          refine ⟨⟨newConn key addr :: new, by simpa using hn1, ?_, ?_⟩, by simpa using h1, by simpa using h2,
            by simpa using h3, by simpa using h4, by simpa using h5, by simpa using h6, by simpa using h7⟩
          · intro c hc
            rcases List.mem_cons.mp hc with rfl | hc
            · exact ⟨key, addr, rfl⟩
            · exact hn2 c hc
          · intro hl
            have := hn3 hl
            simp only [Bool.or_eq_false_iff] at this
            obtain ⟨⟨ha, hb⟩, _⟩ := this
            exact ⟨ha, by intro hx; simp [hx] at hb⟩
        · simp at hc

/-! ### the global invariant -/

def HInv (s : St) : Prop :=
  (s.centry = false → s.cwopen = false) ∧
  match s.hpc with
  | .h0 => s.nCC = 0 ∧ s.nCD = 0
  | .inCC | .killClose | .preStart | .waitC => s.nCC = 1 ∧ s.nCD = 0
  | .preCD => s.nCC = 1 ∧ s.nCD = 0 ∧ s.centry = false
  | .inCD | .final _ | .returned => s.nCC = 1 ∧ s.nCD = 1 ∧ s.centry = false

structure Inv (s : St) : Prop where
  conn : ∀ c ∈ s.conns, ConnInv c
  sem : ∀ a, s.conns.countP (holdsAt a) ≤ s.size
  h : HInv s
  fin : ∀ w, s.hpc = .final w → s.lateOpen = false → ∀ i c, s.conns[i]? = some c → c.entry = true → i ∈ w
  ret : s.hpc = .returned → s.lateOpen = false → ∀ c ∈ s.conns, c.entry = false

theorem init_inv (n : Nat) : Inv (init n) := by
  constructor <;> simp [init, HInv]

theorem holdsAt_new (a k : Nat) (ad : Option Nat) : holdsAt a (newConn k ad) = false := by
  simp [holdsAt, newConn, holding]

theorem Inv.apply {s s' : St} {cmds : List Cmd} (hi : Inv s) (h : applyCmds s cmds = some s') : Inv s' := by
  obtain ⟨⟨new, hn1, hn2, hn3⟩, h1, h2, h3, h4, h5, h6, h7⟩ := applyCmds_spec cmds s s' h
  have hcount : ∀ a, new.countP (holdsAt a) = 0 := by
    intro a
    rw [List.countP_eq_zero]
    intro c hc
    obtain ⟨k, ad, rfl⟩ := hn2 c hc
    simp [holdsAt_new]
  constructor
  · intro c hc
    rw [hn1] at hc
    rcases List.mem_append.mp hc with hc | hc
    · exact hi.conn c hc
    · obtain ⟨k, a, rfl⟩ := hn2 c hc; exact newConn_inv k a
  · intro a
    rw [hn1, List.countP_append, hcount a, h7]
    simpa using hi.sem a
  · have := hi.h
    unfold HInv at this ⊢
    rw [h1, h3, h4, h5, h6]; exact this
  · intro w hw hl i c hc he
    obtain ⟨hl0, hnew⟩ := hn3 hl
    rw [h1] at hw
    have : new = [] := hnew (by simp [hw, isLate])
    rw [hn1, this, List.append_nil] at hc
    exact hi.fin w hw hl0 i c hc he
  · intro hr hl c hc
    obtain ⟨hl0, hnew⟩ := hn3 hl
    rw [h1] at hr
    have : new = [] := hnew (by simp [hr, isLate])
    rw [hn1, this, List.append_nil] at hc
    exact hi.ret hr hl0 c hc

theorem entryIdx_mem : ∀ (conns : List Conn) (k i : Nat) (c : Conn),
    conns[i]? = some c → c.entry = true → (i + k) ∈ entryIdx conns k := by
  intro conns
  induction conns with
  | nil => intro k i c h; simp at h
  | cons d ds ih =>
    intro k i c h he
    cases i with
    | zero =>
      simp at h; subst h
      simp [entryIdx, he]
    | succ j =>
      simp at h
      have := ih (k + 1) j c h he
      simp only [entryIdx]
      split
      · exact List.mem_cons_of_mem _ (by have e : j + 1 + k = j + (k + 1) := by omega
                                         rw [e]; exact this)
      · have e : j + 1 + k = j + (k + 1) := by omega
        rw [e]; exact this

/-- replacing one task's state: membership -/
theorem mem_set_cases {l : List Conn} {i : Nat} {c' d : Conn} (h : d ∈ l.set i c') : d = c' ∨ d ∈ l := by
  rcases List.mem_or_eq_of_mem_set h with h | h
  · exact Or.inr h
  · exact Or.inl h

/-- an action of open_connection task `i` preserves the invariant (before the layer's commands are applied) -/
theorem Inv.set {s : St} {i : Nat} {c c' : Conn}
    (hi : Inv s) (hc : s.conns[i]? = some c)
    (h1 : ConnInv c') (h2 : c'.addr = c.addr) (h3 : c'.entry = true → c.entry = true)
    (h4 : holding c'.pc = true → holding c.pc = true ∨ semFree s c = true) :
    Inv { s with conns := s.conns.set i c' } := by
  have hlt : i < s.conns.length := by
    rcases Nat.lt_or_ge i s.conns.length with h | h
    · exact h
    · simp [List.getElem?_eq_none h] at hc
  have hci : s.conns[i] = c := by
    have := List.getElem?_eq_getElem hlt
    rw [this] at hc; exact Option.some.inj hc
  have hmem : c ∈ s.conns := by rw [← hci]; exact List.getElem_mem hlt
  constructor
  · intro d hd
    rcases mem_set_cases hd with rfl | hd
    · exact h1
    · exact hi.conn d hd
  · intro a'
    show (s.conns.set i c').countP (holdsAt a') ≤ s.size
    rw [List.countP_set hlt, hci]
    have hs := hi.sem a'
    by_cases hn : holdsAt a' c' = true
    · by_cases ho : holdsAt a' c = true
      · simp only [hn, ho, if_true]
        have : 0 < s.conns.countP (holdsAt a') := List.countP_pos_iff.mpr ⟨c, hmem, ho⟩
        omega
      · -- the task acquired the semaphore in this action
        simp only [holdsAt, Bool.and_eq_true, beq_iff_eq] at hn
        obtain ⟨hh, ha⟩ := hn
        have hfree : semFree s c = true := by
          rcases h4 hh with h | h
          · exfalso; apply ho; simp [holdsAt, h, ← h2, ha]
          · exact h
        rw [h2] at ha
        simp only [semFree, ha, decide_eq_true_eq] at hfree
        simp only [holdsAt, hh, ← h2 ▸ ha, Bool.true_and] at *
        simp_all
        omega
    · simp only [hn]
      simp only [Bool.false_eq_true, if_false, Nat.add_zero]
      omega
  · exact hi.h
  · intro w hw hl j d hd he
    by_cases hij : i = j
    · subst hij
      simp [hlt] at hd
      subst hd
      exact hi.fin w hw hl i c hc (h3 he)
    · simp [hij] at hd
      exact hi.fin w hw hl j d hd he
  · intro hr hl d hd
    rcases mem_set_cases hd with rfl | hd
    · have := hi.ret hr hl c hmem
      cases he : d.entry with
      | false => rfl
      | true => rw [h3 he] at this; simp at this
    · exact hi.ret hr hl d hd

theorem mem_of_getElem? {l : List Conn} {i : Nat} {c : Conn} (h : l[i]? = some c) : c ∈ l :=
  List.mem_of_getElem? h

/-- every label preserves the invariant -/
theorem Inv.preserved {s s' : St} {l : Label} (hi : Inv s) (h : step s l = some s') : Inv s' := by
  cases l with
  | act t a =>
    cases t with
    | H =>
      simp only [step] at h
      unfold stepH at h
      have hh := hi.h
      split at h
      · -- h0, hook cc
        simp only [Option.some.injEq] at h; subst h
        refine ⟨hi.conn, hi.sem, ?_, ?_, ?_⟩
        · unfold HInv at hh ⊢; simp_all
        · intro w hw; simp at hw
        · intro hr; simp at hr
      · simp only [Option.some.injEq] at h; subst h
        refine ⟨hi.conn, hi.sem, ?_, ?_, ?_⟩
        · unfold HInv at hh ⊢; simp_all
        · intro w hw; simp at hw
        · intro hr; simp at hr
      · simp only [Option.some.injEq] at h; subst h
        refine ⟨hi.conn, hi.sem, ?_, ?_, ?_⟩
        · unfold HInv at hh ⊢; simp_all
        · intro w hw; simp at hw
        · intro hr; simp at hr
      · simp only [Option.some.injEq] at h; subst h
        refine ⟨hi.conn, hi.sem, ?_, ?_, ?_⟩
        · unfold HInv at hh ⊢; simp_all
        · intro w hw; simp at hw
        · intro hr; simp at hr
      · -- preStart, ev start
        refine Inv.apply (s := { s with hpc := .waitC, cpc := .created }) ⟨hi.conn, hi.sem, ?_, ?_, ?_⟩ h
        · unfold HInv at hh ⊢; simp_all
        · intro w hw; simp at hw
        · intro hr; simp at hr
      · split at h
        · simp only [Option.some.injEq] at h; subst h
          refine ⟨hi.conn, hi.sem, ?_, ?_, ?_⟩
          · unfold HInv at hh ⊢; simp_all
          · intro w hw; simp at hw
          · intro hr; simp at hr
        · simp at h
      · simp only [Option.some.injEq] at h; subst h
        refine ⟨hi.conn, hi.sem, ?_, ?_, ?_⟩
        · unfold HInv at hh ⊢; simp_all
        · intro w hw; simp at hw
        · intro hr; simp at hr
      · -- inCD, hookret: collect the transports to wait for
        simp only [Option.some.injEq] at h; subst h
        refine ⟨hi.conn, hi.sem, ?_, ?_, ?_⟩
        · unfold HInv at hh ⊢; simp_all
        · intro w hw hl i c hc he
          simp only [HPC.final.injEq] at hw; subst hw
          have := entryIdx_mem s.conns 0 i c hc he
          simpa using this
        · intro hr; simp at hr
      · -- final w, fin
        split at h
        · rename_i w _ hall
          simp only [Option.some.injEq] at h; subst h
          refine ⟨hi.conn, hi.sem, ?_, ?_, ?_⟩
          · unfold HInv at hh ⊢; simp_all
          · intro w hw; simp at hw
          · intro _ hl c hc
            obtain ⟨i, hlt, hci⟩ := List.mem_iff_getElem.mp hc
            have hc' : s.conns[i]? = some c := by rw [List.getElem?_eq_getElem hlt, hci]
            cases he : c.entry with
            | false => rfl
            | true =>
              have hw := hi.fin w (by assumption) hl i c hc' he
              have := List.all_eq_true.mp hall i hw
              simp [settledAt, hc', he] at this
        · simp at h
      · simp at h
    | C =>
      simp only [step] at h
      have hh := hi.h
      split at h
      · split at h
        · refine Inv.apply (?_ : Inv _) h
          refine ⟨hi.conn, hi.sem, ?_, ?_, ?_⟩
          · unfold HInv at hh ⊢; simp only at hh ⊢
            refine ⟨by simp, ?_⟩
            have h2 := hh.2
            split <;> simp_all
          · intro w hw hl; exact hi.fin w hw hl
          · intro hr hl; exact hi.ret hr hl
        · refine Inv.apply (?_ : Inv _) h
          refine ⟨hi.conn, hi.sem, ?_, ?_, ?_⟩
          · exact hh
          · intro w hw hl; exact hi.fin w hw hl
          · intro hr hl; exact hi.ret hr hl
      · simp at h
    | S i =>
      simp only [step] at h
      split at h
      · rename_i c hc
        split at h
        · rename_i c' cmds hs
          obtain ⟨h1, h2, h3, h4⟩ := stepS_inv (hi.conn c (mem_of_getElem? hc)) hs
          exact Inv.apply (Inv.set hi hc h1 h2 h3 h4) h
        · simp at h
      · simp at h
    | K i =>
      simp only [step] at h
      split at h
      · split at h
        · refine Inv.apply (?_ : Inv _) h
          refine ⟨hi.conn, hi.sem, hi.h, ?_, ?_⟩
          · intro w hw hl; exact hi.fin w hw hl
          · intro hr hl; exact hi.ret hr hl
        · simp at h
      · simp at h
  | forget t =>
    cases t with
    | H => simp [step] at h
    | K i => simp [step] at h
    | C =>
      simp only [step] at h
      have hh := hi.h
      split at h
      · simp only [Option.some.injEq] at h; subst h
        refine ⟨hi.conn, hi.sem, ?_, ?_, ?_⟩
        · unfold HInv at hh ⊢; simp only at hh ⊢
          refine ⟨by simp, ?_⟩
          have h2 := hh.2
          split <;> simp_all
        · intro w hw hl; exact hi.fin w hw hl
        · intro hr hl; exact hi.ret hr hl
      · simp at h
    | S i =>
      simp only [step] at h
      split at h
      · rename_i c hc
        split at h
        · rename_i hcond
          simp only [Option.some.injEq] at h; subst h
          have hci := hi.conn c (mem_of_getElem? hc)
          refine Inv.set hi hc ?_ rfl (by simp) (by simp [hcond.1, holding])
          unfold ConnInv at hci ⊢
          simp only [hcond.1] at hci ⊢
          exact hci
        · simp at h
      · simp at h

theorem Inv.preservedRun : ∀ (ls : List Label) (s s' : St), Inv s → run s ls = some s' → Inv s' := by
  intro ls
  induction ls with
  | nil => intro s s' hi h; simp [run] at h; subst h; exact hi
  | cons l ls ih =>
    intro s s' hi h
    simp only [run] at h
    cases hs : step s l with
    | none => simp [hs] at h
    | some s1 =>
      simp only [hs] at h
      exact ih s1 s' (Inv.preserved hi hs) h

theorem size_step {s s' : St} {l : Label} (h : step s l = some s') : s'.size = s.size := by
  cases l with
  | act t a =>
    cases t with
    | H =>
      simp only [step] at h
      unfold stepH at h
      split at h <;> (try split at h) <;> (try (simp only [Option.some.injEq] at h; subst h; rfl)) <;>
        (try (simp at h; done)) <;> (try exact (applyCmds_spec _ _ _ h).2.2.2.2.2.2.2)
    | C =>
      simp only [step] at h
      split at h
      · split at h <;> exact (applyCmds_spec _ _ _ h).2.2.2.2.2.2.2
      · simp at h
    | S i =>
      simp only [step] at h
      split at h
      · split at h
        · exact (applyCmds_spec _ _ _ h).2.2.2.2.2.2.2
        · simp at h
      · simp at h
    | K i =>
      simp only [step] at h
      split at h
      · split at h
        · exact (applyCmds_spec _ _ _ h).2.2.2.2.2.2.2
        · simp at h
      · simp at h
  | forget t =>
    cases t with
    | H => simp [step] at h
    | K i => simp [step] at h
    | C => simp only [step] at h; split at h <;> simp at h; subst h; rfl
    | S i =>
      simp only [step] at h
      split at h
      · split at h <;> simp at h; subst h; rfl
      · simp at h

theorem size_run : ∀ (ls : List Label) (s s' : St), run s ls = some s' → s'.size = s.size := by
  intro ls
  induction ls with
  | nil => intro s s' h; simp [run] at h; subst h; rfl
  | cons l ls ih =>
    intro s s' h
    simp only [run] at h
    cases hs : step s l with
    | none => simp [hs] at h
    | some s1 =>
      simp only [hs] at h
      rw [ih s1 s' h, size_step hs]

theorem Reach.inv {n : Nat} {s : St} (h : Reach n s) : Inv s ∧ s.size = n := by
  obtain ⟨ls, hl⟩ := h
  exact ⟨Inv.preservedRun ls _ _ (init_inv n) hl, by rw [size_run ls _ _ hl]; rfl⟩

end MitmVerif.C09
