/-
  C09 — what can remain in transports when handle_client returns, WITHOUT the hypothesis on the layer: only entries
  of connections the layer asked for after handle_client had collected the transports to wait for (`late`).
-/
import MitmVerif.Lemmas.C09
namespace MitmVerif.C09

structure LateInv (s : St) : Prop where
  fin2 : s.hpc = .final → ∀ c ∈ s.conns, c.entry = true → c.late = false → hasWait c = true
  ret2 : s.hpc = .returned → ∀ c ∈ s.conns, c.entry = true → c.late = true
  flag : ∀ c ∈ s.conns, c.late = true → s.lateOpen = true

theorem init_late (n : Nat) : LateInv (init n) := by
  constructor <;> simp [init]

/-- the task states of `s'` come from those of `s` without touching `late`, without creating entries, and
    without losing asyncio.wait's callback on a task that still has its entry -/
def Refines (s s' : St) : Prop :=
  s'.hpc = s.hpc ∧ s'.lateOpen = s.lateOpen ∧ ∀ c' ∈ s'.conns, ∃ c ∈ s.conns, c'.late = c.late ∧ (c'.entry = true → c.entry = true) ∧
    (c'.entry = true → hasWait c = true → hasWait c' = true)

theorem Refines.rfl' (s : St) : Refines s s := ⟨rfl, rfl, fun c hc => ⟨c, hc, rfl, id, fun _ h => h⟩⟩

theorem Refines.trans {s s' s'' : St} (h1 : Refines s s') (h2 : Refines s' s'') : Refines s s'' := by
  refine ⟨h2.1.trans h1.1, h2.2.1.trans h1.2.1, ?_⟩
  intro c'' hc''
  obtain ⟨c', hc', a1, a2, a3⟩ := h2.2.2 c'' hc''
  obtain ⟨c, hc, b1, b2, b3⟩ := h1.2.2 c' hc'
  exact ⟨c, hc, a1.trans b1, fun h => b2 (a2 h), fun h hw => a3 h (b3 (a2 h) hw)⟩

theorem LateInv.refine {s s' : St} (hi : LateInv s) (hr : Refines s s') : LateInv s' := by
  constructor
  · intro hf c' hc' he hl
    obtain ⟨c, hc, a1, a2, a3⟩ := hr.2.2 c' hc'
    exact a3 he (hi.fin2 (hr.1 ▸ hf) c hc (a2 he) (a1 ▸ hl))
  · intro hf c' hc' he
    obtain ⟨c, hc, a1, a2, _⟩ := hr.2.2 c' hc'
    rw [a1]; exact hi.ret2 (hr.1 ▸ hf) c hc (a2 he)
  · intro c' hc' hl
    obtain ⟨c, hc, a1, _, _⟩ := hr.2.2 c' hc'
    rw [hr.2.1]; exact hi.flag c hc (a1 ▸ hl)

/-- replacing task `i`'s state by one with the same `late`, no new entry, and the wait callback kept -/
theorem Refines.set {s : St} {i : Nat} {c c' : Conn} (hc : s.conns[i]? = some c)
    (h1 : c'.late = c.late) (h2 : c'.entry = true → c.entry = true)
    (h3 : c'.entry = true → hasWait c = true → hasWait c' = true) (s' : St)
    (hs : s'.hpc = s.hpc) (hlo : s'.lateOpen = s.lateOpen) (hconns : s'.conns = s.conns.set i c') : Refines s s' := by
  refine ⟨hs, hlo, ?_⟩
  intro d hd
  rw [hconns] at hd
  rcases mem_set_cases hd with rfl | hd
  · exact ⟨c, mem_of_getElem? hc, h1, h2, h3⟩
  · exact ⟨d, hd, rfl, id, fun _ h => h⟩

theorem Refines.wake (s : St) (ad : Nat) : Refines s (wakeNext s ad) := by
  unfold wakeNext
  split
  · exact Refines.rfl' s
  · split
    · exact Refines.rfl' s
    · rename_i j hj
      obtain ⟨_, d, hd, _⟩ := firstWaiting_spec _ _ _ hj
      simp only [hd]
      exact Refines.set (c' := { d with pc := .semWoken }) hd rfl id (fun _ h => h) _ rfl rfl rfl

theorem Refines.semEffect (s : St) (i : Nat) (c : Conn) (a : Act) : Refines s (semEffect s i c a) := by
  have fields : ∀ (f : Nat → Nat) (g : Nat → List Nat), Refines s { s with semv := f, waiters := g } :=
    fun f g => ⟨rfl, rfl, fun c hc => ⟨c, hc, rfl, id, fun _ h => h⟩⟩
  unfold MitmVerif.C09.semEffect
  split
  · exact Refines.rfl' s
  · split
    · exact fields _ _
    · exact fields _ _
    · exact (fields _ _).trans (Refines.wake _ _)
    · exact fields _ _
    · exact (fields _ _).trans (Refines.wake _ _)
    · exact (fields _ _).trans (Refines.wake _ _)
    · exact Refines.rfl' s

/-- the layer's commands: what is opened while handle_client waits (or after it returned) is marked late -/
theorem LateInv.apply {s s' : St} {cmds : List Cmd} (hi : LateInv s) (h : applyCmds s cmds = some s') : LateInv s' := by
  obtain ⟨⟨new, hn1, hn2, hn3⟩, h1, _⟩ := applyCmds_spec cmds s s' h
  refine ⟨?_, ?_, ?_⟩
  rotate_left 2
  · intro c hc hl
    cases hlo : s'.lateOpen with
    | true => rfl
    | false =>
      obtain ⟨hl0, hnew⟩ := hn3 hlo
      rw [hn1] at hc
      rcases List.mem_append.mp hc with hc | hc
      · have := hi.flag c hc hl; rw [hl0] at this; simp at this
      · obtain ⟨k, a, rfl⟩ := hn2 c hc
        have hlate : isLate s.hpc = true := by simpa [newConn] using hl
        rw [hnew hlate] at hc; simp at hc
  · intro hf c hc he hl
    rw [h1] at hf
    rw [hn1] at hc
    rcases List.mem_append.mp hc with hc | hc
    · exact hi.fin2 hf c hc he hl
    · obtain ⟨k, a, rfl⟩ := hn2 c hc
      simp [newConn, hf, isLate] at hl
  · intro hf c hc he
    rw [h1] at hf
    rw [hn1] at hc
    rcases List.mem_append.mp hc with hc | hc
    · exact hi.ret2 hf c hc he
    · obtain ⟨k, a, rfl⟩ := hn2 c hc
      simp [newConn, hf, isLate]

theorem stepS_late {c c' : Conn} {a : Act} {ok : Bool} {cmds : List Cmd}
    (h : stepS c a ok = some (c', cmds)) : c'.late = c.late := by
  unfold stepS at h
  split at h <;> (try split at h) <;>
    simp only [Option.some.injEq, Prod.mk.injEq, reduceCtorEq] at h <;>
    (try (obtain ⟨rfl, rfl⟩ := h)) <;> simp_all

/-- every label preserves it (the lifecycle invariant `Inv` of the state before the label is used) -/
theorem LateInv.preserved {s s' : St} {l : Label} (hinv : Inv s) (hi : LateInv s) (h : step s l = some s') :
    LateInv s' := by
  cases l with
  | act t a =>
    cases t with
    | H =>
      simp only [step] at h
      unfold stepH at h
      split at h
      · simp only [Option.some.injEq] at h; subst h
        exact ⟨fun hf => by simp at hf, fun hf => by simp at hf, hi.flag⟩
      · simp only [Option.some.injEq] at h; subst h
        exact ⟨fun hf => by simp at hf, fun hf => by simp at hf, hi.flag⟩
      · simp only [Option.some.injEq] at h; subst h
        exact ⟨fun hf => by simp at hf, fun hf => by simp at hf, hi.flag⟩
      · simp only [Option.some.injEq] at h; subst h
        exact ⟨fun hf => by simp at hf, fun hf => by simp at hf, hi.flag⟩
      · refine LateInv.apply (?_ : LateInv _) h
        exact ⟨fun hf => by simp at hf, fun hf => by simp at hf, hi.flag⟩
      · split at h
        · simp only [Option.some.injEq] at h; subst h
          exact ⟨fun hf => by simp at hf, fun hf => by simp at hf, hi.flag⟩
        · simp at h
      · simp only [Option.some.injEq] at h; subst h
        exact ⟨fun hf => by simp at hf, fun hf => by simp at hf, hi.flag⟩
      · -- inCD, hookret: every task that still has an entry gets asyncio.wait's callback
        rename_i hpc
        simp only [Option.some.injEq] at h; subst h
        have hnw := hinv.nowait (by simp [hpc, isLate])
        refine ⟨?_, fun hf => by simp at hf, ?_⟩
        rotate_left
        · intro c hc hl
          obtain ⟨d, hd, rfl⟩ := List.mem_map.mp hc
          have : (regWait d).late = d.late := by unfold regWait; split <;> rfl
          exact hi.flag d hd (this ▸ hl)
        intro _ c hc he _
        obtain ⟨d, hd, rfl⟩ := List.mem_map.mp hc
        exact (regWait_inv (hinv.conn d hd) (hinv.cb d hd) (hnw d hd)).2.2.2.2 he
      · -- final, fin: the wait counted down to zero, so nothing it waited for has an entry any more
        split at h
        · rename_i hpc hzero
          simp only [Option.some.injEq] at h; subst h
          refine ⟨fun hf => by simp at hf, ?_, hi.flag⟩
          intro _ c hc he
          cases hl : c.late with
          | true => rfl
          | false =>
            have hw := hi.fin2 hpc c hc he hl
            have : 0 < s.conns.countP hasWait := List.countP_pos_iff.mpr ⟨c, hc, hw⟩
            have := hinv.wait
            omega
        · simp at h
      · simp at h
    | C =>
      simp only [step] at h
      split at h
      · split at h <;> (refine LateInv.apply (?_ : LateInv _) h; exact ⟨hi.fin2, hi.ret2, hi.flag⟩)
      · simp at h
    | S i =>
      simp only [step] at h
      split at h
      · rename_i c hc
        split at h
        · rename_i c' cmds hs
          obtain ⟨_, h3, h5⟩ := stepS_inv (hinv.conn c (mem_of_getElem? hc)) hs
          refine LateInv.apply (?_ : LateInv _) h
          refine hi.refine ((Refines.set hc (stepS_late hs) h3 ?_ { s with conns := s.conns.set i c' } rfl rfl rfl).trans
            (Refines.semEffect _ i c a))
          intro _ hw; simpa [hasWait, h5] using hw
        · simp at h
      · simp at h
    | K i =>
      simp only [step] at h
      split at h
      · split at h
        · refine LateInv.apply (?_ : LateInv _) h; exact ⟨hi.fin2, hi.ret2, hi.flag⟩
        · simp at h
      · simp at h
  | cb t =>
    cases t with
    | H => simp [step] at h
    | K i => simp [step] at h
    | C =>
      simp only [step] at h
      split at h
      · split at h
        · split at h <;> (simp only [Option.some.injEq] at h; subst h; exact ⟨hi.fin2, hi.ret2, hi.flag⟩)
        · simp only [Option.some.injEq] at h; subst h; exact ⟨hi.fin2, hi.ret2, hi.flag⟩
        · simp at h
      · simp at h
    | S i =>
      simp only [step] at h
      split at h
      · rename_i c hc
        have hcb := hinv.cb c (mem_of_getElem? hc)
        split at h
        · split at h
          · rename_i rest hcbs
            simp only [Option.some.injEq] at h; subst h
            exact hi.refine (Refines.set (c' := { c with cbs := rest, entry := false }) hc rfl (by simp) (by simp) _ rfl rfl rfl)
          · rename_i rest hcbs
            simp only [Option.some.injEq] at h; subst h
            refine hi.refine (Refines.set (c' := { c with cbs := rest }) hc rfl id ?_ _ rfl rfl rfl)
            -- the completion callback runs last: release_transport has run, the entry is gone
            intro he
            unfold CbInv at hcb
            rcases hcb.2 he with h' | h' <;> simp [hcbs] at h'
          · simp at h
        · simp at h
      · simp at h

theorem LateInv.preservedRun : ∀ (ls : List Label) (s s' : St), Inv s → LateInv s → run s ls = some s' → LateInv s' := by
  intro ls
  induction ls with
  | nil => intro s s' _ hi h; simp [run] at h; subst h; exact hi
  | cons l ls ih =>
    intro s s' hinv hi h
    simp only [run] at h
    cases hs : step s l with
    | none => simp [hs] at h
    | some s1 =>
      simp only [hs] at h
      exact ih s1 s' (Inv.preserved hinv hs) (LateInv.preserved hinv hi hs) h

theorem Reach.late {n : Nat} {s : St} (h : Reach n s) : LateInv s := by
  obtain ⟨ls, hl⟩ := h
  exact LateInv.preservedRun ls _ _ (init_inv n) (init_late n) hl

end MitmVerif.C09
