/-
  C09 — the per-address semaphore (asyncio.Semaphore transcribed in Model/C09.lean): counter + holders +
  handed-over waiters is constant, for every schedule including cancellations of queued waiters.
-/
import MitmVerif.Lemmas.C09
namespace MitmVerif.C09

/-- slots of address `a` accounted to task `x`: it holds one, or a releaser has handed it one -/
def fl (a : Nat) (x : Conn) : Nat := (if holdsAt a x then 1 else 0) + (if wokenAt a x then 1 else 0)

structure SemInv (s : St) : Prop where
  cnt : ∀ a, s.semv a + s.conns.countP (holdsAt a) + s.conns.countP (wokenAt a) = s.size
  wl : ∀ a, ∀ j ∈ s.waiters a, ∃ d, s.conns[j]? = some d ∧ d.addr = some a

theorem init_sem (n : Nat) : SemInv (init n) := by
  constructor <;> simp [init]

theorem SemInv.congr {s s' : St} (hi : SemInv s) (h1 : s'.conns = s.conns) (h2 : s'.semv = s.semv)
    (h3 : s'.waiters = s.waiters) (h4 : s'.size = s.size) : SemInv s' := by
  constructor
  · intro a; rw [h1, h2, h4]; exact hi.cnt a
  · intro a j hj; rw [h3] at hj; rw [h1]; exact hi.wl a j hj

theorem count_set {p : Conn → Bool} {l : List Conn} {i : Nat} {c c' : Conn} (h : l[i]? = some c) :
    (l.set i c').countP p + (if p c = true then 1 else 0) = l.countP p + (if p c' = true then 1 else 0) := by
  have hlt : i < l.length := by
    rcases Nat.lt_or_ge i l.length with h' | h'
    · exact h'
    · simp [List.getElem?_eq_none h'] at h
  have hci : l[i] = c := by
    have := List.getElem?_eq_getElem hlt
    rw [this] at h; exact Option.some.inj h
  have hmem : c ∈ l := by rw [← hci]; exact List.getElem_mem hlt
  rw [List.countP_set hlt, hci]
  have hpos : p c = true → 0 < l.countP p := fun h => List.countP_pos_iff.mpr ⟨c, hmem, h⟩
  by_cases hx : p c = true <;> by_cases hy : p c' = true <;> simp only [hx, hy, if_true, if_false]
  · have := hpos hx; omega
  · have := hpos hx; simp; omega
  · simp
  · simp

/-- task `i` changes state, the counter and the queue change with it: the accounts stay balanced if they are
    balanced locally -/
theorem SemInv.update {s : St} {i : Nat} {c c' : Conn} {v' : Nat → Nat} {w' : Nat → List Nat}
    (hi : SemInv s) (hc : s.conns[i]? = some c) (haddr : c'.addr = c.addr ∨ c.addr = none)
    (hcnt : ∀ a, v' a + fl a c' = s.semv a + fl a c)
    (hwl : ∀ a j, j ∈ w' a → j ∈ s.waiters a ∨ (j = i ∧ c.addr = some a)) :
    SemInv { s with conns := s.conns.set i c', semv := v', waiters := w' } := by
  have hlt : i < s.conns.length := by
    rcases Nat.lt_or_ge i s.conns.length with h' | h'
    · exact h'
    · simp [List.getElem?_eq_none h'] at hc
  constructor
  · intro a
    show v' a + (s.conns.set i c').countP (holdsAt a) + (s.conns.set i c').countP (wokenAt a) = s.size
    have h1 := count_set (p := holdsAt a) (c' := c') hc
    have h2 := count_set (p := wokenAt a) (c' := c') hc
    have h3 := hi.cnt a
    have h4 := hcnt a
    simp only [fl] at h4
    omega
  · intro a j hj
    show ∃ d, (s.conns.set i c')[j]? = some d ∧ d.addr = some a
    rcases hwl a j hj with h | ⟨rfl, h⟩
    · obtain ⟨d, hd, hda⟩ := hi.wl a j h
      by_cases hij : i = j
      · subst hij
        rw [hc] at hd; cases hd
        rcases haddr with haddr | haddr
        · exact ⟨c', by simp [hlt], by rw [haddr]; exact hda⟩
        · rw [haddr] at hda; simp at hda
      · exact ⟨d, by simp [hij, hd], hda⟩
    · rcases haddr with haddr | haddr
      · exact ⟨c', by simp [hlt], by rw [haddr]; exact h⟩
      · rw [haddr] at h; simp at h

/-- `_wake_up_next`: the slot moves from the counter to the woken waiter -/
theorem SemInv.wake {s : St} (hi : SemInv s) (ad : Nat) : SemInv (wakeNext s ad) := by
  unfold wakeNext
  split
  · exact hi
  · rename_i hv
    split
    · exact hi
    · rename_i j hj
      obtain ⟨hjw, d, hd, hpc⟩ := firstWaiting_spec _ _ _ hj
      obtain ⟨d', hd', hda⟩ := hi.wl ad j hjw
      rw [hd] at hd'; cases hd'
      simp only [hd]
      refine (SemInv.update (c' := { d with pc := .semWoken }) (v' := upd s.semv ad (s.semv ad - 1))
        (w' := s.waiters) hi hd (Or.inl rfl) ?_ (fun a j h => Or.inl h)).congr rfl rfl rfl rfl
      intro a
      by_cases ha : a = ad
      · subst ha
        simp [upd, fl, holdsAt, wokenAt, hpc, holding, hda]
        omega
      · have hne : ¬ (some ad = some a) := by intro h; exact ha (Option.some.inj h).symm
        have ha' : ¬ ad = a := fun h => ha h.symm
        simp [upd, ha, ha', fl, holdsAt, wokenAt, hpc, holding, hda, hne]

/-- the six (pc, action) pairs that touch the semaphore -/
def isSemAct : PC → Act → Bool
  | .preSem, .semwait | .preSem, .semacq | .semWoken, .semacq | .semCancelled, .semcancel
  | .semWoken, .semcancel | .preRel, .semrel => true
  | _, _ => false

theorem semEffect_plain (s : St) (i : Nat) (c : Conn) (a : Act) (h : isSemAct c.pc a = false) :
    semEffect s i c a = s := by
  unfold semEffect
  split
  · rfl
  · split <;> simp_all [isSemAct]

theorem stepS_plain {c c' : Conn} {a : Act} {ok : Bool} {cmds : List Cmd}
    (h : stepS c a ok = some (c', cmds)) :
    (c'.addr = c.addr ∨ (c.addr = none ∧ isSemAct c.pc a = false ∧ holding c'.pc = false ∧ c'.pc ≠ PC.semWoken)) ∧
    (isSemAct c.pc a = false →
      holding c'.pc = holding c.pc ∧ (c'.pc = PC.semWoken ↔ c.pc = PC.semWoken)) := by
  unfold stepS at h
  split at h <;> (try split at h) <;>
    simp only [Option.some.injEq, Prod.mk.injEq, reduceCtorEq] at h <;>
    (try (obtain ⟨rfl, rfl⟩ := h)) <;>
    (try (cases hca : c.addr <;> simp_all [isSemAct, holding, Mode.held] <;> done)) <;>
    simp_all [isSemAct, holding, Mode.held]

theorem fl_eq {a : Nat} {c c' : Conn}
    (h1 : c'.addr = c.addr ∨ (holding c'.pc = false ∧ c'.pc ≠ PC.semWoken))
    (h2 : holding c'.pc = holding c.pc)
    (h3 : c'.pc = PC.semWoken ↔ c.pc = PC.semWoken) : fl a c' = fl a c := by
  have h4 : (c'.pc == PC.semWoken) = (c.pc == PC.semWoken) := by
    rw [Bool.eq_iff_iff]; simp [h3]
  rcases h1 with h1 | ⟨h5, h6⟩
  · simp [fl, holdsAt, wokenAt, h1, h2, h4]
  · have h7 : (c'.pc == PC.semWoken) = false := by simpa using h6
    have h8 : (c.pc == PC.semWoken) = false := by rw [← h4]; exact h7
    have h9 : holding c.pc = false := by rw [← h2]; exact h5
    simp [fl, holdsAt, wokenAt, h5, h7, h8, h9]

/-- an action of an open_connection task keeps the semaphore accounts balanced -/
theorem SemInv.stepS {s : St} {i : Nat} {c c' : Conn} {a : Act} {cmds : List Cmd}
    (hi : SemInv s) (hc : s.conns[i]? = some c) (h : stepS c a (semGuard s c a) = some (c', cmds)) :
    SemInv (semEffect { s with conns := s.conns.set i c' } i c a) := by
  obtain ⟨haddr0, hplain⟩ := stepS_plain h
  have hupd : c'.addr = c.addr ∨ c.addr = none := by
    rcases haddr0 with h | h
    · exact Or.inl h
    · exact Or.inr h.1
  have hfl : c'.addr = c.addr ∨ (holding c'.pc = false ∧ c'.pc ≠ PC.semWoken) := by
    rcases haddr0 with h | h
    · exact Or.inl h
    · exact Or.inr ⟨h.2.2.1, h.2.2.2⟩
  cases hsem : isSemAct c.pc a with
  | false =>
    rw [semEffect_plain _ _ _ _ hsem]
    obtain ⟨h2, h3⟩ := hplain hsem
    exact (SemInv.update (v' := s.semv) (w' := s.waiters) hi hc hupd
      (fun a => by rw [fl_eq hfl h2 h3]) (fun a j h => Or.inl h)).congr rfl rfl rfl rfl
  | true =>
    have haddr : c'.addr = c.addr := by
      rcases haddr0 with h | h
      · exact h
      · rw [hsem] at h; simp at h
    cases had : c.addr with
    | none =>
      -- no address: the task never reaches the semaphore
      have : semEffect { s with conns := s.conns.set i c' } i c a = { s with conns := s.conns.set i c' } := by
        simp [semEffect, had]
      rw [this]
      refine (SemInv.update (v' := s.semv) (w' := s.waiters) hi hc (Or.inl haddr) ?_ (fun a j h => Or.inl h)).congr rfl rfl rfl rfl
      intro a'
      simp [fl, holdsAt, wokenAt, haddr, had]
    | some ad =>
      have hne : ∀ a', a' ≠ ad → ¬ (some ad = some a') := fun a' h h' => h (Option.some.inj h').symm
      cases hpc : c.pc <;> cases a <;> simp [isSemAct, hpc] at hsem
      · -- preSem, semwait: queue
        simp [MitmVerif.C09.stepS, hpc] at h
        obtain ⟨_, rfl, rfl⟩ := h
        simp only [semEffect, had, hpc]
        refine (SemInv.update (c' := { c with pc := .inSem, addr := some ad }) (v' := s.semv)
          (w' := upd s.waiters ad (s.waiters ad ++ [i])) hi hc (Or.inl had.symm) ?_ ?_).congr rfl rfl rfl rfl
        · intro a'; simp [fl, holdsAt, wokenAt, hpc, holding]
        · intro a' j hj
          by_cases ha : a' = ad
          · subst ha
            simp only [upd, if_true, List.mem_append, List.mem_singleton] at hj
            rcases hj with hj | hj
            · exact Or.inl hj
            · exact Or.inr ⟨hj, had⟩
          · simp only [upd, ha, if_false] at hj; exact Or.inl hj
      · -- preSem, semacq: not locked, take a slot
        simp [MitmVerif.C09.stepS, hpc] at h
        obtain ⟨hg, rfl, rfl⟩ := h
        have hv : s.semv ad ≠ 0 := by
          simp [semGuard, had, hpc, locked] at hg
          exact hg.1
        simp only [semEffect, had, hpc]
        refine (SemInv.update (c' := { c with pc := .inConn, addr := some ad }) (v' := upd s.semv ad (s.semv ad - 1))
          (w' := s.waiters) hi hc (Or.inl had.symm) ?_ (fun a j h => Or.inl h)).congr rfl rfl rfl rfl
        intro a'
        by_cases ha : a' = ad
        · subst ha; simp [upd, fl, holdsAt, wokenAt, hpc, holding, had]; omega
        · have ha' : ¬ ad = a' := fun h => ha h.symm
          simp [upd, ha, ha', fl, holdsAt, wokenAt, hpc, holding, had]
      · -- semCancelled, semcancel: leave the queue, the counter is not touched
        simp [MitmVerif.C09.stepS, hpc] at h
        obtain ⟨rfl, rfl⟩ := h
        simp only [semEffect, had, hpc]
        refine (SemInv.update (c' := { c with pc := .preSE .canc, addr := some ad }) (v' := s.semv)
          (w' := upd s.waiters ad ((s.waiters ad).erase i)) hi hc (Or.inl had.symm) ?_ ?_).congr rfl rfl rfl rfl
        · intro a'; simp [fl, holdsAt, wokenAt, hpc, holding, Mode.held]
        · intro a' j hj
          by_cases ha : a' = ad
          · subst ha; simp only [upd, if_true] at hj; exact Or.inl (List.mem_of_mem_erase hj)
          · simp only [upd, ha, if_false] at hj; exact Or.inl hj
      · -- semWoken, semacq: resumed with the slot
        simp [MitmVerif.C09.stepS, hpc] at h
        obtain ⟨rfl, rfl⟩ := h
        simp only [semEffect, had, hpc]
        refine SemInv.wake ((SemInv.update (c' := { c with pc := .inConn, addr := some ad }) (v' := s.semv)
          (w' := upd s.waiters ad ((s.waiters ad).erase i)) hi hc (Or.inl had.symm) ?_ ?_).congr rfl rfl rfl rfl) ad
        · intro a'; simp [fl, holdsAt, wokenAt, hpc, holding, had]
        · intro a' j hj
          by_cases ha : a' = ad
          · subst ha; simp only [upd, if_true] at hj; exact Or.inl (List.mem_of_mem_erase hj)
          · simp only [upd, ha, if_false] at hj; exact Or.inl hj
      · -- semWoken, semcancel: cancelled after the hand-off: the slot goes back
        simp [MitmVerif.C09.stepS, hpc] at h
        obtain ⟨rfl, rfl⟩ := h
        simp only [semEffect, had, hpc]
        refine SemInv.wake ((SemInv.update (c' := { c with pc := .preSE .canc, addr := some ad }) (v' := upd s.semv ad (s.semv ad + 1))
          (w' := upd s.waiters ad ((s.waiters ad).erase i)) hi hc (Or.inl had.symm) ?_ ?_).congr rfl rfl rfl rfl) ad
        · intro a'
          by_cases ha : a' = ad
          · subst ha; simp [upd, fl, holdsAt, wokenAt, hpc, holding, had, Mode.held]
          · have ha' : ¬ ad = a' := fun h => ha h.symm
            simp [upd, ha, ha', fl, holdsAt, wokenAt, hpc, holding, had, hne a' ha, Mode.held]
        · intro a' j hj
          by_cases ha : a' = ad
          · subst ha; simp only [upd, if_true] at hj; exact Or.inl (List.mem_of_mem_erase hj)
          · simp only [upd, ha, if_false] at hj; exact Or.inl hj
      · -- preRel, semrel: release
        simp [MitmVerif.C09.stepS, hpc] at h
        obtain ⟨rfl, rfl⟩ := h
        simp only [semEffect, had, hpc]
        refine SemInv.wake ((SemInv.update (c' := { c with pc := .finishing, addr := some ad }) (v' := upd s.semv ad (s.semv ad + 1))
          (w' := s.waiters) hi hc (Or.inl had.symm) ?_ (fun a j h => Or.inl h)).congr rfl rfl rfl rfl) ad
        intro a'
        by_cases ha : a' = ad
        · subst ha; simp [upd, fl, holdsAt, wokenAt, hpc, holding, had]
        · have ha' : ¬ ad = a' := fun h => ha h.symm
          simp [upd, ha, ha', fl, holdsAt, wokenAt, hpc, holding, had]

theorem SemInv.apply {s s' : St} {cmds : List Cmd} (hi : SemInv s) (h : applyCmds s cmds = some s') : SemInv s' := by
  obtain ⟨⟨new, hn1, hn2, _⟩, _, _, _, _, _, _, h7, _, _, h10, h11⟩ := applyCmds_spec cmds s s' h
  have hz : ∀ (p : Nat → Conn → Bool) (a : Nat), (p = holdsAt ∨ p = wokenAt) → new.countP (p a) = 0 := by
    intro p a hp
    rw [List.countP_eq_zero]
    intro c hc
    obtain ⟨k, ad, rfl⟩ := hn2 c hc
    rcases hp with rfl | rfl <;> simp [holdsAt, wokenAt, newConn, holding]
  constructor
  · intro a
    rw [hn1, h10, h7, List.countP_append, List.countP_append, hz holdsAt a (Or.inl rfl), hz wokenAt a (Or.inr rfl)]
    simpa using hi.cnt a
  · intro a j hj
    rw [h11] at hj
    obtain ⟨d, hd, hda⟩ := hi.wl a j hj
    refine ⟨d, ?_, hda⟩
    rw [hn1]
    have hlt : j < s.conns.length := by
      rcases Nat.lt_or_ge j s.conns.length with h' | h'
      · exact h'
      · simp [List.getElem?_eq_none h'] at hd
    rw [List.getElem?_append_left hlt]; exact hd

theorem regWait_flags (d : Conn) (a : Nat) :
    holdsAt a (regWait d) = holdsAt a d ∧ wokenAt a (regWait d) = wokenAt a d ∧ (regWait d).addr = d.addr := by
  unfold regWait; split <;> simp [holdsAt, wokenAt]

/-- every label keeps the semaphore accounts balanced -/
theorem SemInv.preserved {s s' : St} {l : Label} (hi : SemInv s) (h : step s l = some s') : SemInv s' := by
  cases l with
  | act t a =>
    cases t with
    | H =>
      simp only [step] at h
      unfold stepH at h
      split at h
      · simp only [Option.some.injEq] at h; subst h; exact hi.congr rfl rfl rfl rfl
      · simp only [Option.some.injEq] at h; subst h; exact hi.congr rfl rfl rfl rfl
      · simp only [Option.some.injEq] at h; subst h; exact hi.congr rfl rfl rfl rfl
      · simp only [Option.some.injEq] at h; subst h; exact hi.congr rfl rfl rfl rfl
      · (refine SemInv.apply (?_ : SemInv _) h; exact hi.congr rfl rfl rfl rfl)
      · split at h
        · simp only [Option.some.injEq] at h; subst h; exact hi.congr rfl rfl rfl rfl
        · simp at h
      · simp only [Option.some.injEq] at h; subst h; exact hi.congr rfl rfl rfl rfl
      · -- asyncio.wait registration: task states are untouched
        simp only [Option.some.injEq] at h; subst h
        constructor
        · intro a
          show s.semv a + (s.conns.map regWait).countP (holdsAt a) + (s.conns.map regWait).countP (wokenAt a) = s.size
          have e1 : (s.conns.map regWait).countP (holdsAt a) = s.conns.countP (holdsAt a) := by
            rw [List.countP_map]; apply List.countP_congr; intro d _; simp [(regWait_flags d a).1]
          have e2 : (s.conns.map regWait).countP (wokenAt a) = s.conns.countP (wokenAt a) := by
            rw [List.countP_map]; apply List.countP_congr; intro d _; simp [(regWait_flags d a).2.1]
          rw [e1, e2]; exact hi.cnt a
        · intro a j hj
          obtain ⟨d, hd, hda⟩ := hi.wl a j hj
          exact ⟨regWait d, by simp [List.getElem?_map, hd], by rw [(regWait_flags d a).2.2]; exact hda⟩
      · split at h
        · simp only [Option.some.injEq] at h; subst h; exact hi.congr rfl rfl rfl rfl
        · simp at h
      · simp at h
    | C =>
      simp only [step] at h
      split at h
      · split at h <;> (refine SemInv.apply (?_ : SemInv _) h; exact hi.congr rfl rfl rfl rfl)
      · simp at h
    | S i =>
      simp only [step] at h
      split at h
      · rename_i c hc
        split at h
        · rename_i c' cmds hs
          exact SemInv.apply (SemInv.stepS hi hc hs) h
        · simp at h
      · simp at h
    | K i =>
      simp only [step] at h
      split at h
      · split at h
        · (refine SemInv.apply (?_ : SemInv _) h; exact hi.congr rfl rfl rfl rfl)
        · simp at h
      · simp at h
  | cb t =>
    cases t with
    | H => simp [step] at h
    | K i => simp [step] at h
    | C =>
      simp only [step] at h
      split at h
      · split at h
        · split at h <;> (simp only [Option.some.injEq] at h; subst h; exact hi.congr rfl rfl rfl rfl)
        · simp only [Option.some.injEq] at h; subst h; exact hi.congr rfl rfl rfl rfl
        · simp at h
      · simp at h
    | S i =>
      simp only [step] at h
      split at h
      · rename_i c hc
        split at h
        · split at h
          · rename_i rest _
            simp only [Option.some.injEq] at h; subst h
            exact (SemInv.update (c' := { c with cbs := rest, entry := false }) (v' := s.semv) (w' := s.waiters) hi hc (Or.inl rfl)
              (fun a => by simp [fl, holdsAt, wokenAt]) (fun a j h => Or.inl h)).congr rfl rfl rfl rfl
          · rename_i rest _
            simp only [Option.some.injEq] at h; subst h
            exact (SemInv.update (c' := { c with cbs := rest }) (v' := s.semv) (w' := s.waiters) hi hc (Or.inl rfl)
              (fun a => by simp [fl, holdsAt, wokenAt]) (fun a j h => Or.inl h)).congr rfl rfl rfl rfl
          · simp at h
        · simp at h
      · simp at h

theorem SemInv.preservedRun : ∀ (ls : List Label) (s s' : St), SemInv s → run s ls = some s' → SemInv s' := by
  intro ls
  induction ls with
  | nil => intro s s' hi h; simp [run] at h; subst h; exact hi
  | cons l ls ih =>
    intro s s' hi h
    simp only [run] at h
    cases hs : step s l with
    | none => simp [hs] at h
    | some s1 =>
      simp only [hs] at h
      exact ih s1 s' (SemInv.preserved hi hs) h

theorem Reach.sem {n : Nat} {s : St} (h : Reach n s) : SemInv s := by
  obtain ⟨ls, hl⟩ := h
  exact SemInv.preservedRun ls _ _ (init_sem n) hl

end MitmVerif.C09
