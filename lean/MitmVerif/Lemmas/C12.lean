/-
  C12 — helper lemmas: the deletion relation `Del p x y` (y is x with some bytes satisfying p removed),
  shown for `dedent` and `pyStrip`, and what it preserves (markup characters, `ampsOk`).
-/
import MitmVerif.Model.C12
namespace MitmVerif.C12
open MitmVerif

/-- `Del p x y`: `y` is `x` with some bytes that satisfy `p` deleted -/
inductive Del (p : UInt8 → Bool) : Bytes → Bytes → Prop
  | nil : Del p [] []
  | keep (c : UInt8) {x y : Bytes} : Del p x y → Del p (c :: x) (c :: y)
  | drop (c : UInt8) {x y : Bytes} : p c = true → Del p x y → Del p (c :: x) y

namespace Del
variable {p : UInt8 → Bool}

theorem refl : ∀ x : Bytes, Del p x x
  | [] => .nil
  | c :: x => .keep c (refl x)

theorem append {x y x' y' : Bytes} (h : Del p x y) (h' : Del p x' y') : Del p (x ++ x') (y ++ y') := by
  induction h with
  | nil => simpa using h'
  | keep c _ ih => exact .keep c ih
  | drop c hc _ ih => exact .drop c hc ih

theorem trans {x y z : Bytes} (h1 : Del p x y) (h2 : Del p y z) : Del p x z := by
  induction h1 generalizing z with
  | nil => exact h2
  | keep c _ ih =>
    cases h2 with
    | keep _ h2' => exact .keep c (ih h2')
    | drop _ hc h2' => exact .drop c hc (ih h2')
  | drop c hc _ ih => exact .drop c hc (ih h2)

theorem all_nil : ∀ {x : Bytes}, (∀ c ∈ x, p c = true) → Del p x []
  | [], _ => .nil
  | c :: x, h => .drop c (h c (by simp)) (all_nil (fun d hd => h d (by simp [hd])))

theorem dropWhile (q : UInt8 → Bool) (hq : ∀ c, q c = true → p c = true) :
    ∀ x : Bytes, Del p x (x.dropWhile q)
  | [] => .nil
  | c :: x => by
    by_cases h : q c = true
    · simp only [List.dropWhile_cons, h, if_true]
      exact .drop c (hq c h) (dropWhile q hq x)
    · simp only [List.dropWhile_cons, h]
      exact refl _

theorem reverse {x y : Bytes} (h : Del p x y) : Del p x.reverse y.reverse := by
  induction h with
  | nil => exact .nil
  | keep c _ ih => simp only [List.reverse_cons]; exact append ih (refl [c])
  | drop c hc _ ih =>
    simp only [List.reverse_cons]
    have : Del p [c] [] := .drop c hc .nil
    simpa using append ih this

/-- deleted bytes are never `q`-bytes ⇒ the `q`-bytes are untouched -/
theorem filter_eq {x y : Bytes} (q : UInt8 → Bool) (hpq : ∀ c, p c = true → q c = false)
    (h : Del p x y) : y.filter q = x.filter q := by
  induction h with
  | nil => rfl
  | keep c _ ih => simp [List.filter_cons, ih]
  | drop c hc _ ih => simp [hpq c hc, ih]

theorem isPrefixOf {e : Bytes} : ∀ {x y : Bytes}, (∀ c ∈ e, p c = false) → e.isPrefixOf x = true →
    Del p x y → e.isPrefixOf y = true := by
  induction e with
  | nil => intro x y _ _ _; simp
  | cons a e ih =>
    intro x y he hx h
    cases h with
    | nil => simp at hx
    | keep c h' =>
      simp only [List.isPrefixOf_cons_cons, Bool.and_eq_true] at hx ⊢
      exact ⟨hx.1, ih (fun d hd => he d (by simp [hd])) hx.2 h'⟩
    | drop c hc h' =>
      simp only [List.isPrefixOf_cons_cons, Bool.and_eq_true, beq_iff_eq] at hx
      have := he a (by simp)
      rw [hx.1] at this
      rw [this] at hc; cases hc

end Del

/-! ### splitNl / joinNl -/

theorem splitNl_ne_nil : ∀ t : Bytes, splitNl t ≠ []
  | [] => by simp [splitNl]
  | c :: cs => by
    unfold splitNl
    split
    · simp
    · split <;> simp

theorem joinNl_cons_cons (c : UInt8) (l : Bytes) (ls : List Bytes) :
    joinNl ((c :: l) :: ls) = c :: joinNl (l :: ls) := by
  cases ls <;> simp [joinNl]

theorem joinNl_splitNl : ∀ t : Bytes, joinNl (splitNl t) = t
  | [] => by simp [splitNl, joinNl]
  | c :: cs => by
    have ih := joinNl_splitNl cs
    have hne := splitNl_ne_nil cs
    unfold splitNl
    split
    · next h =>
      cases hs : splitNl cs with
      | nil => exact absurd hs hne
      | cons l ls => rw [hs] at ih; simp [joinNl, ih, h]
    · cases hs : splitNl cs with
      | nil => exact absurd hs hne
      | cons l ls => rw [hs] at ih; simp [joinNl_cons_cons, ih]

theorem Del.joinNl_map {p : UInt8 → Bool} (f : Bytes → Bytes) (hf : ∀ l, Del p l (f l)) :
    ∀ ls : List Bytes, Del p (joinNl ls) (joinNl (ls.map f))
  | [] => .nil
  | [l] => by simpa [joinNl] using hf l
  | l :: l' :: ls => by
    have ih := Del.joinNl_map f hf (l' :: ls)
    simp only [joinNl, List.map_cons] at ih ⊢
    exact Del.append (hf l) (.keep 0x0a ih)

/-! ### dedent / pyStrip only delete white space -/

theorem isBlank_isSpace (c : UInt8) (h : isBlank c = true) : isSpace c = true := by
  simp only [isBlank, Bool.or_eq_true, decide_eq_true_eq] at h
  rcases h with h | h <;> subst h <;> decide

theorem mem_commonPrefix : ∀ (a b : Bytes) (c : UInt8), c ∈ commonPrefix a b → c ∈ a
  | [], _, c, h => by simp [commonPrefix] at h
  | _ :: _, [], c, h => by simp [commonPrefix] at h
  | x :: as, y :: bs, c, h => by
    unfold commonPrefix at h
    split at h
    · simp only [List.mem_cons] at h ⊢
      rcases h with h | h
      · exact Or.inl h
      · exact Or.inr (mem_commonPrefix as bs c h)
    · simp at h

theorem indentOf_blank : ∀ (l : Bytes), ∀ c ∈ indentOf l, isBlank c = true
  | [], c, hc => by simp [indentOf] at hc
  | b :: l, c, hc => by
    unfold indentOf at hc
    rw [List.takeWhile_cons] at hc
    split at hc
    · next hb =>
      simp only [List.mem_cons] at hc
      rcases hc with rfl | hc
      · exact hb
      · exact indentOf_blank l c hc
    · simp at hc

private theorem foldl_margin_blank : ∀ (ls : List Bytes) (acc : Option Bytes),
    (∀ m, acc = some m → ∀ c ∈ m, isBlank c = true) →
    ∀ m, ls.foldl marginStep acc = some m → ∀ c ∈ m, isBlank c = true
  | [], acc, h => by simpa using h
  | l :: ls, acc, h => by
    simp only [List.foldl_cons]
    apply foldl_margin_blank ls
    intro m hm c hc
    cases acc with
    | none =>
      simp only [marginStep, Option.some.injEq] at hm; subst hm
      exact indentOf_blank l c hc
    | some m0 =>
      simp only [marginStep, Option.some.injEq] at hm; subst hm
      exact h m0 rfl c (mem_commonPrefix _ _ c hc)

theorem margin_blank (ls : List Bytes) : ∀ c ∈ margin ls, isBlank c = true := by
  intro c hc
  unfold margin at hc
  cases hf : (ls.filter hasText).foldl marginStep none with
  | none => rw [hf] at hc; simp at hc
  | some m =>
    rw [hf] at hc
    exact foldl_margin_blank _ none (by simp) m hf c hc

theorem Del.stripPre {p : UInt8 → Bool} (m l : Bytes) (hm : ∀ c ∈ m, p c = true) : Del p l (stripPre m l) := by
  unfold C12.stripPre
  split
  · next h =>
    obtain ⟨r, hr⟩ := List.isPrefixOf_iff_prefix.mp h
    subst hr
    simp only [List.drop_left]
    simpa using Del.append (Del.all_nil hm) (Del.refl r)
  · exact Del.refl l

theorem Del.blankOut (l : Bytes) : Del isSpace l (blankOut l) := by
  unfold C12.blankOut
  split
  · next h =>
    apply Del.all_nil
    intro c hc
    exact isBlank_isSpace c (List.all_eq_true.mp h c hc)
  · exact Del.refl l

/-- `textwrap.dedent` only deletes white space -/
theorem Del.dedent (t : Bytes) : Del isSpace t (dedent t) := by
  unfold C12.dedent
  simp only [List.map_map]
  have h := Del.joinNl_map (p := isSpace)
    (C12.stripPre (margin (List.map C12.blankOut (splitNl t))) ∘ C12.blankOut)
    (fun l => Del.trans (Del.blankOut l)
      (Del.stripPre _ _ (fun c hc => isBlank_isSpace c (margin_blank _ c hc)))) (splitNl t)
  rw [joinNl_splitNl] at h
  exact h

/-- `str.strip` only deletes white space -/
theorem Del.pyStrip (t : Bytes) : Del isSpace t (pyStrip t) := by
  unfold C12.pyStrip
  have h1 := Del.dropWhile (p := isSpace) isSpace (fun _ h => h) t
  have h2 := Del.dropWhile (p := isSpace) isSpace (fun _ h => h) (t.dropWhile isSpace).reverse
  have h3 := Del.reverse h2
  simp only [List.reverse_reverse] at h3
  exact Del.trans h1 h3

/-! ### `ampsOk` -/

theorem isPrefixOf_append_right {e : Bytes} : ∀ {x : Bytes} (z : Bytes), e.isPrefixOf x = true →
    e.isPrefixOf (x ++ z) = true := by
  induction e with
  | nil => intro x z _; simp
  | cons a e ih =>
    intro x z h
    cases x with
    | nil => simp at h
    | cons b x =>
      simp only [List.cons_append, List.isPrefixOf_cons_cons, Bool.and_eq_true] at h ⊢
      exact ⟨h.1, ih z h.2⟩

theorem entityAt_append (x z : Bytes) (h : entityAt x = true) : entityAt (x ++ z) = true := by
  simp only [entityAt, List.any_eq_true] at h ⊢
  obtain ⟨e, he, hp⟩ := h
  exact ⟨e, he, isPrefixOf_append_right z hp⟩

theorem ampsOk_append : ∀ (a b : Bytes), ampsOk a = true → ampsOk b = true → ampsOk (a ++ b) = true
  | [], b, _, hb => by simpa using hb
  | c :: a, b, ha, hb => by
    simp only [ampsOk, List.cons_append, Bool.and_eq_true, Bool.or_eq_true] at ha ⊢
    refine ⟨?_, ampsOk_append a b ha.2 hb⟩
    rcases ha.1 with h | h
    · exact Or.inl h
    · exact Or.inr (entityAt_append a b h)

theorem ampsOk_of_noAmp : ∀ (l : Bytes), (∀ c ∈ l, c ≠ 0x26) → ampsOk l = true
  | [], _ => rfl
  | c :: l, h => by
    simp only [ampsOk, Bool.and_eq_true, Bool.or_eq_true]
    refine ⟨Or.inl ?_, ampsOk_of_noAmp l (fun d hd => h d (by simp [hd]))⟩
    have := h c (by simp)
    simpa using this

private theorem entity_chars_not_space : ∀ e ∈ entities, ∀ c ∈ e.1, isSpace c = false := by decide

theorem Del.entityAt {x y : Bytes} (hx : entityAt x = true) (h : Del isSpace x y) : entityAt y = true := by
  simp only [C12.entityAt, List.any_eq_true] at hx ⊢
  obtain ⟨e, he, hp⟩ := hx
  exact ⟨e, he, Del.isPrefixOf (entity_chars_not_space e he) hp h⟩

/-- deleting white space keeps every `&` followed by its entity -/
theorem Del.ampsOk {x y : Bytes} (h : Del isSpace x y) : ampsOk x = true → ampsOk y = true := by
  induction h with
  | nil => intro h; exact h
  | @keep c x y h' ih =>
    intro hx
    simp only [C12.ampsOk, Bool.and_eq_true, Bool.or_eq_true] at hx ⊢
    refine ⟨?_, ih hx.2⟩
    rcases hx.1 with h1 | h1
    · exact Or.inl h1
    · exact Or.inr (Del.entityAt h1 h')
  | drop c _ _ ih =>
    intro hx
    simp only [C12.ampsOk, Bool.and_eq_true] at hx
    exact ih hx.2

end MitmVerif.C12
