/-
  C14 — helper lemmas about the model (loops against the law, what the building blocks leave untouched).
  Shared by Props/C14.lean and Props/C15.lean.
-/
import MitmVerif.Model.C14
namespace MitmVerif.C14.Lemmas
open MitmVerif MitmVerif.C14

variable {K : Codec}

/-! ### field projections of the small state updates -/

@[simp] theorem addRouted_side (s : St K) (e : CEv) : (addRouted s e).side = s.side := rfl
@[simp] theorem addRouted_st (s : St K) (e : CEv) : (addRouted s e).st = s.st := rfl
@[simp] theorem addRouted_replyTo (s : St K) (e : CEv) : (addRouted s e).replyTo = s.replyTo := rfl
@[simp] theorem addRouted_queue (s : St K) (e : CEv) : (addRouted s e).queue = s.queue := rfl
@[simp] theorem addRouted_tls (s : St K) (e : CEv) : (addRouted s e).tls = s.tls := rfl
@[simp] theorem addRouted_helloParsed (s : St K) (e : CEv) : (addRouted s e).helloParsed = s.helloParsed := rfl
@[simp] theorem addRouted_recvBuf (s : St K) (e : CEv) : (addRouted s e).recvBuf = s.recvBuf := rfl
@[simp] theorem addRouted_errored (s : St K) (e : CEv) : (addRouted s e).errored = s.errored := rfl
@[simp] theorem addRouted_crashed (s : St K) (e : CEv) : (addRouted s e).crashed = s.crashed := rfl
@[simp] theorem addRouted_toChild (s : St K) (e : CEv) : (addRouted s e).toChild = s.toChild := rfl
@[simp] theorem addRouted_routed (s : St K) (e : CEv) : (addRouted s e).routed = s.routed ++ [e] := rfl
@[simp] theorem addRouted_up (s : St K) (e : CEv) : (addRouted s e).up = s.up := rfl
@[simp] theorem addRouted_accepted (s : St K) (e : CEv) : (addRouted s e).accepted = s.accepted := rfl
@[simp] theorem addRouted_rxError (s : St K) (e : CEv) : (addRouted s e).rxError = s.rxError := rfl
@[simp] theorem enqueue_side (s : St K) (e : CEv) : (enqueue s e).side = s.side := rfl
@[simp] theorem enqueue_st (s : St K) (e : CEv) : (enqueue s e).st = s.st := rfl
@[simp] theorem enqueue_replyTo (s : St K) (e : CEv) : (enqueue s e).replyTo = s.replyTo := rfl
@[simp] theorem enqueue_queue (s : St K) (e : CEv) : (enqueue s e).queue = s.queue ++ [e] := rfl
@[simp] theorem enqueue_tls (s : St K) (e : CEv) : (enqueue s e).tls = s.tls := rfl
@[simp] theorem enqueue_helloParsed (s : St K) (e : CEv) : (enqueue s e).helloParsed = s.helloParsed := rfl
@[simp] theorem enqueue_recvBuf (s : St K) (e : CEv) : (enqueue s e).recvBuf = s.recvBuf := rfl
@[simp] theorem enqueue_errored (s : St K) (e : CEv) : (enqueue s e).errored = s.errored := rfl
@[simp] theorem enqueue_crashed (s : St K) (e : CEv) : (enqueue s e).crashed = s.crashed := rfl
@[simp] theorem enqueue_toChild (s : St K) (e : CEv) : (enqueue s e).toChild = s.toChild := rfl
@[simp] theorem enqueue_routed (s : St K) (e : CEv) : (enqueue s e).routed = s.routed := rfl
@[simp] theorem enqueue_up (s : St K) (e : CEv) : (enqueue s e).up = s.up := rfl
@[simp] theorem enqueue_accepted (s : St K) (e : CEv) : (enqueue s e).accepted = s.accepted := rfl
@[simp] theorem enqueue_rxError (s : St K) (e : CEv) : (enqueue s e).rxError = s.rxError := rfl
@[simp] theorem setSt_side (s : St K) (v : TState) : (setSt s v).side = s.side := rfl
@[simp] theorem setSt_st (s : St K) (v : TState) : (setSt s v).st = v := rfl
@[simp] theorem setSt_replyTo (s : St K) (v : TState) : (setSt s v).replyTo = s.replyTo := rfl
@[simp] theorem setSt_queue (s : St K) (v : TState) : (setSt s v).queue = s.queue := rfl
@[simp] theorem setSt_tls (s : St K) (v : TState) : (setSt s v).tls = s.tls := rfl
@[simp] theorem setSt_helloParsed (s : St K) (v : TState) : (setSt s v).helloParsed = s.helloParsed := rfl
@[simp] theorem setSt_recvBuf (s : St K) (v : TState) : (setSt s v).recvBuf = s.recvBuf := rfl
@[simp] theorem setSt_errored (s : St K) (v : TState) : (setSt s v).errored = s.errored := rfl
@[simp] theorem setSt_crashed (s : St K) (v : TState) : (setSt s v).crashed = s.crashed := rfl
@[simp] theorem setSt_toChild (s : St K) (v : TState) : (setSt s v).toChild = s.toChild := rfl
@[simp] theorem setSt_routed (s : St K) (v : TState) : (setSt s v).routed = s.routed := rfl
@[simp] theorem setSt_up (s : St K) (v : TState) : (setSt s v).up = s.up := rfl
@[simp] theorem setSt_accepted (s : St K) (v : TState) : (setSt s v).accepted = s.accepted := rfl
@[simp] theorem setSt_rxError (s : St K) (v : TState) : (setSt s v).rxError = s.rxError := rfl
@[simp] theorem emit_side (s : St K) (u : List Up) : (emit s u).side = s.side := rfl
@[simp] theorem emit_st (s : St K) (u : List Up) : (emit s u).st = s.st := rfl
@[simp] theorem emit_replyTo (s : St K) (u : List Up) : (emit s u).replyTo = s.replyTo := rfl
@[simp] theorem emit_queue (s : St K) (u : List Up) : (emit s u).queue = s.queue := rfl
@[simp] theorem emit_tls (s : St K) (u : List Up) : (emit s u).tls = s.tls := rfl
@[simp] theorem emit_helloParsed (s : St K) (u : List Up) : (emit s u).helloParsed = s.helloParsed := rfl
@[simp] theorem emit_recvBuf (s : St K) (u : List Up) : (emit s u).recvBuf = s.recvBuf := rfl
@[simp] theorem emit_errored (s : St K) (u : List Up) : (emit s u).errored = s.errored := rfl
@[simp] theorem emit_crashed (s : St K) (u : List Up) : (emit s u).crashed = s.crashed := rfl
@[simp] theorem emit_toChild (s : St K) (u : List Up) : (emit s u).toChild = s.toChild := rfl
@[simp] theorem emit_routed (s : St K) (u : List Up) : (emit s u).routed = s.routed := rfl
@[simp] theorem emit_up (s : St K) (u : List Up) : (emit s u).up = s.up ++ u := rfl
@[simp] theorem emit_accepted (s : St K) (u : List Up) : (emit s u).accepted = s.accepted := rfl
@[simp] theorem emit_rxError (s : St K) (u : List Up) : (emit s u).rxError = s.rxError := rfl

@[simp] theorem clearReply_side (s : St K) : (clearReply s).side = s.side := rfl
@[simp] theorem clearReply_st (s : St K) : (clearReply s).st = s.st := rfl
@[simp] theorem clearReply_replyTo (s : St K) : (clearReply s).replyTo = false := rfl
@[simp] theorem clearReply_queue (s : St K) : (clearReply s).queue = s.queue := rfl
@[simp] theorem clearReply_tls (s : St K) : (clearReply s).tls = s.tls := rfl
@[simp] theorem clearReply_helloParsed (s : St K) : (clearReply s).helloParsed = s.helloParsed := rfl
@[simp] theorem clearReply_recvBuf (s : St K) : (clearReply s).recvBuf = s.recvBuf := rfl
@[simp] theorem clearReply_errored (s : St K) : (clearReply s).errored = s.errored := rfl
@[simp] theorem clearReply_crashed (s : St K) : (clearReply s).crashed = s.crashed := rfl
@[simp] theorem clearReply_toChild (s : St K) : (clearReply s).toChild = s.toChild := rfl
@[simp] theorem clearReply_routed (s : St K) : (clearReply s).routed = s.routed := rfl
@[simp] theorem clearReply_up (s : St K) : (clearReply s).up = s.up := rfl
@[simp] theorem clearReply_accepted (s : St K) : (clearReply s).accepted = s.accepted := rfl
@[simp] theorem clearReply_rxError (s : St K) : (clearReply s).rxError = s.rxError := rfl
@[simp] theorem clearQueue_side (s : St K) : (clearQueue s).side = s.side := rfl
@[simp] theorem clearQueue_st (s : St K) : (clearQueue s).st = s.st := rfl
@[simp] theorem clearQueue_replyTo (s : St K) : (clearQueue s).replyTo = s.replyTo := rfl
@[simp] theorem clearQueue_queue (s : St K) : (clearQueue s).queue = [] := rfl
@[simp] theorem clearQueue_tls (s : St K) : (clearQueue s).tls = s.tls := rfl
@[simp] theorem clearQueue_helloParsed (s : St K) : (clearQueue s).helloParsed = s.helloParsed := rfl
@[simp] theorem clearQueue_recvBuf (s : St K) : (clearQueue s).recvBuf = s.recvBuf := rfl
@[simp] theorem clearQueue_errored (s : St K) : (clearQueue s).errored = s.errored := rfl
@[simp] theorem clearQueue_crashed (s : St K) : (clearQueue s).crashed = s.crashed := rfl
@[simp] theorem clearQueue_toChild (s : St K) : (clearQueue s).toChild = s.toChild := rfl
@[simp] theorem clearQueue_routed (s : St K) : (clearQueue s).routed = s.routed := rfl
@[simp] theorem clearQueue_up (s : St K) : (clearQueue s).up = s.up := rfl
@[simp] theorem clearQueue_accepted (s : St K) : (clearQueue s).accepted = s.accepted := rfl
@[simp] theorem clearQueue_rxError (s : St K) : (clearQueue s).rxError = s.rxError := rfl

/-! ### the two loops against the law -/

theorem recvLoop_spec (L : Laws K) : ∀ (fuel : Nat) (c : K.σ) (acc : Bytes), K.inPending c < fuel →
    ∃ P, (recvLoop K fuel c acc).1 = acc ++ P
      ∧ L.fed (recvLoop K fuel c acc).2.2 = L.fed c
      ∧ L.sent (recvLoop K fuel c acc).2.2 = L.sent c ∧ L.emitted (recvLoop K fuel c acc).2.2 = L.emitted c
      ∧ L.taken (recvLoop K fuel c acc).2.2 = L.taken c + P.length
      ∧ (∃ rest, (L.dec (L.fed c)).1.drop (L.taken c) = P ++ rest)
      ∧ (recvLoop K fuel c acc).2.1 ≠ .fuel
      ∧ ((recvLoop K fuel c acc).2.1 = .want →
            L.taken c + P.length = (L.dec (L.fed c)).1.length ∧ (L.dec (L.fed c)).2 = false)
      ∧ ((recvLoop K fuel c acc).2.1 = .closed →
            L.taken c + P.length = (L.dec (L.fed c)).1.length ∧ (L.dec (L.fed c)).2 = true) := by
  intro fuel
  induction fuel with
  | zero => intro c acc h; omega
  | succ n ih =>
    intro c acc hfuel
    have hin := L.recv_in c
    have hout := L.recv_out c
    cases hr : K.recv c with
    | mk r c' =>
      have h1 : (K.recv c).1 = r := by rw [hr]
      have h2 : (K.recv c).2 = c' := by rw [hr]
      rw [h2] at hin hout
      cases r with
      | data d =>
        obtain ⟨htk, ⟨rest, hrest⟩, hlt⟩ := L.recv_data c d h1
        rw [h2] at htk hlt
        obtain ⟨P, hp1, hp2, hp3, hp4, hp5, ⟨rest', hp6⟩, hp7, hp8, hp9⟩ := ih c' (acc ++ d) (by omega)
        have hdrop : (L.dec (L.fed c)).1.drop (L.taken c) = (d ++ P) ++ rest' := by
          have : (L.dec (L.fed c)).1.drop (L.taken c + d.length) = rest := by
            rw [← List.drop_drop, hrest]; simp
          rw [hin, htk, this] at hp6
          rw [hrest, hp6]; simp
        refine ⟨d ++ P, ?_, ?_, ?_, ?_, ?_, ⟨rest', hdrop⟩, ?_, ?_, ?_⟩
        · simp only [recvLoop, hr]; rw [hp1]; simp
        · simp only [recvLoop, hr]; rw [hp2, hin]
        · simp only [recvLoop, hr]; rw [hp3, hout.1]
        · simp only [recvLoop, hr]; rw [hp4, hout.2]
        · simp only [recvLoop, hr]; rw [hp5, htk]; simp; omega
        · simp only [recvLoop, hr]; exact hp7
        · simp only [recvLoop, hr]; intro he
          have := hp8 he; rw [hin, htk] at this; simp only [List.length_append]; exact ⟨by omega, this.2⟩
        · simp only [recvLoop, hr]; intro he
          have := hp9 he; rw [hin, htk] at this; simp only [List.length_append]; exact ⟨by omega, this.2⟩
      | wantRead =>
        have hnd := L.recv_nodata c (by intro d hd; rw [h1] at hd; cases hd)
        have hw := L.recv_want c h1
        rw [h2] at hnd
        refine ⟨[], ?_, ?_, ?_, ?_, ?_, ⟨_, by simp; rfl⟩, ?_, ?_, ?_⟩ <;> simp [recvLoop, hr, hin, hout, hnd, hw]
      | zeroReturn =>
        have hnd := L.recv_nodata c (by intro d hd; rw [h1] at hd; cases hd)
        have hw := L.recv_zero c h1
        rw [h2] at hnd
        refine ⟨[], ?_, ?_, ?_, ?_, ?_, ⟨_, by simp; rfl⟩, ?_, ?_, ?_⟩ <;> simp [recvLoop, hr, hin, hout, hnd, hw]
      | error =>
        have hnd := L.recv_nodata c (by intro d hd; rw [h1] at hd; cases hd)
        rw [h2] at hnd
        refine ⟨[], ?_, ?_, ?_, ?_, ?_, ⟨_, by simp; rfl⟩, ?_, ?_, ?_⟩ <;> simp [recvLoop, hr, hin, hout, hnd]

theorem outLoop_spec (L : Laws K) : ∀ (fuel : Nat) (c : K.σ) (acc : List Bytes), K.outPending c < fuel →
    ∃ chunks, (outLoop K fuel c acc).1 = acc ++ chunks
      ∧ L.emitted (outLoop K fuel c acc).2 = L.emitted c ++ chunks.flatten
      ∧ L.sent (outLoop K fuel c acc).2 = L.sent c
      ∧ L.fed (outLoop K fuel c acc).2 = L.fed c ∧ L.taken (outLoop K fuel c acc).2 = L.taken c
      ∧ L.enc (L.emitted (outLoop K fuel c acc).2) = L.sent (outLoop K fuel c acc).2 := by
  intro fuel
  induction fuel with
  | zero => intro c acc h; omega
  | succ n ih =>
    intro c acc hfuel
    have hin := L.out_in c
    cases hr : K.out c with
    | mk r c' =>
      have h1 : (K.out c).1 = r := by rw [hr]
      have h2 : (K.out c).2 = c' := by rw [hr]
      rw [h2] at hin
      cases r with
      | some ch =>
        obtain ⟨he, hs, hlt⟩ := L.out_some c ch h1
        rw [h2] at he hs hlt
        obtain ⟨chunks, q1, q2, q3, q4, q5, q6⟩ := ih c' (acc ++ [ch]) (by omega)
        refine ⟨ch :: chunks, ?_, ?_, ?_, ?_, ?_, ?_⟩
        · simp only [outLoop, hr]; rw [q1]; simp
        · simp only [outLoop, hr]; rw [q2, he]; simp
        · simp only [outLoop, hr]; rw [q3, hs]
        · simp only [outLoop, hr]; rw [q4, hin.1]
        · simp only [outLoop, hr]; rw [q5, hin.2]
        · simp only [outLoop, hr]; exact q6
      | none =>
        obtain ⟨he, hs, henc⟩ := L.out_none c h1
        rw [h2] at he hs
        refine ⟨[], ?_, ?_, ?_, ?_, ?_, ?_⟩ <;> simp [outLoop, hr, he, hs, hin, henc]

/-! ### what the building blocks do to the ghost fields -/

theorem cipherOf_append (a b : List Up) : cipherOf (a ++ b) = cipherOf a ++ cipherOf b := by
  induction a with
  | nil => simp [cipherOf]
  | cons x xs ih => cases x <;> simp [cipherOf, ih]

theorem cipherOf_sends (l : List Bytes) : cipherOf (l.map Up.send) = l.flatten := by
  induction l with
  | nil => simp [cipherOf]
  | cons x xs ih => simp [cipherOf, ih]

theorem plainOf_append (a b : List CEv) : plainOf (a ++ b) = plainOf a ++ plainOf b := by
  induction a with
  | nil => simp [plainOf]
  | cons x xs ih => cases x <;> simp [plainOf, ih]

/-- the part of the state `interact` / `_handle_command` never touch -/
def frame (s : St K) : List CEv × List CEv × List CEv × Bool × Bool × Side :=
  (s.toChild, s.routed, s.queue, s.errored, s.rxError, s.side)

theorem frame_interact (s : St K) : frame (interact s) = frame s := by
  unfold interact; split <;> simp [frame, emit]

theorem frame_handleCmd (s : St K) (c : CCmd) : frame (handleCmd s c) = frame s := by
  cases c with
  | send d =>
    simp only [handleCmd]; split
    · simp [frame]
    · rw [frame_interact]; simp [frame]
  | close => simp [handleCmd, frame, emit]
  | open_ => simp [handleCmd, frame, emit]
  | other n => simp [handleCmd, frame, emit]

theorem frame_handleCmds (cs : List CCmd) : ∀ s : St K, frame (handleCmds s cs) = frame s := by
  induction cs with
  | nil => intro s; rfl
  | cons c cs ih => intro s; simp only [handleCmds, List.foldl_cons] at *; rw [ih, frame_handleCmd]

/-- "not about to queue": `tunnel_state is ESTABLISHING` only together with `command_to_reply_to` -/
def direct (s : St K) : Prop := s.st = .establishing → s.replyTo = true

theorem direct_interact (s : St K) (h : direct s) : direct (interact s) := by
  unfold interact; split <;> simpa [direct, emit] using h

theorem direct_handleCmd (s : St K) (c : CCmd) (h : direct s) : direct (handleCmd s c) := by
  cases c with
  | send d =>
    simp only [handleCmd]; split
    · simpa [direct] using h
    · apply direct_interact; simpa [direct] using h
  | close => simpa [handleCmd, direct, emit] using h
  | open_ => simp [handleCmd, direct, emit]
  | other n => simpa [handleCmd, direct, emit] using h

theorem direct_handleCmds (cs : List CCmd) : ∀ s : St K, direct s → direct (handleCmds s cs) := by
  induction cs with
  | nil => intro s h; exact h
  | cons c cs ih => intro s h; simp only [handleCmds, List.foldl_cons] at *; exact ih _ (direct_handleCmd s c h)

theorem deliver_spec (child : Child) (s : St K) (e : CEv) (hd : direct s) :
    (deliver child s e).toChild = s.toChild ++ [e] ∧ (deliver child s e).errored = s.errored
    ∧ (deliver child s e).queue = s.queue ∧ direct (deliver child s e) := by
  unfold deliver
  have hf := frame_handleCmds (child s.toChild e) ({ s with toChild := s.toChild ++ [e] } : St K)
  simp only [frame, Prod.mk.injEq] at hf
  refine ⟨hf.1, hf.2.2.2.1, hf.2.2.1, direct_handleCmds _ _ (by simpa [direct] using hd)⟩

theorem queueing_false_of_direct (s : St K) (hd : direct s) : queueing s = false := by
  unfold queueing
  cases hst : s.st <;> simp [isEst]
  exact hd hst

theorem eventToChild_direct (child : Child) (s : St K) (e : CEv) (hd : direct s) (he : s.errored = false) :
    (eventToChild child s e).toChild = s.toChild ++ [e] ∧ (eventToChild child s e).errored = false
    ∧ (eventToChild child s e).queue = s.queue ∧ direct (eventToChild child s e) := by
  have hd' : direct (addRouted s e) := by simpa [direct] using hd
  have hspec := deliver_spec child (addRouted s e) e hd'
  unfold eventToChild etcCore
  rw [if_neg (by simp [he]), queueing_false_of_direct _ hd']
  simp only [Bool.false_eq_true, if_false]
  refine ⟨hspec.1, ?_, hspec.2.2.1, hspec.2.2.2⟩
  rw [hspec.2.1]; exact he

theorem etcCore_direct (child : Child) (s : St K) (e : CEv) (hd : direct s) (he : s.errored = false) :
    etcCore child s e = deliver child s e := by
  unfold etcCore
  rw [if_neg (by simp [he]), queueing_false_of_direct _ hd]; simp

end MitmVerif.C14.Lemmas
