/-
  C14 — whole-history invariants of the tunnel/TLS model (Model/C14.lean):
  * `QG`  : routed events = handled ++ stored (++ swallowed after a failed client handshake); the store is non-empty only while
            queueing — for every history, no law needed;
  * crash monotonicity (`crashed` models an exception of the real code; once set it stays);
  * `TG`  : the TLS engine's ghost observers against the layer's ghost fields (inbound bytes, plaintext handed to
            `event_to_child`, emitted ciphertext, accepted payloads), relative to `Laws`.
-/
import MitmVerif.Lemmas.C14
namespace MitmVerif.C14.Hist
open MitmVerif MitmVerif.C14 MitmVerif.C14.Lemmas

variable {K : Codec}

/-! ### part 1: the queue discipline -/

def qframe (s : St K) : List CEv × List CEv × List CEv × Bool × TState × Bool :=
  (s.toChild, s.routed, s.queue, s.errored, s.st, s.replyTo)

structure QG (s : St K) : Prop where
  q1 : ∃ t, s.routed = s.toChild ++ s.queue ++ t ∧ (s.errored = false → t = [])
  q2 : queueing s = false → s.queue = []

theorem QG_congr {s s' : St K} (h : qframe s' = qframe s) (g : QG s) : QG s' := by
  simp only [qframe, Prod.mk.injEq] at h
  obtain ⟨h1, h2, h3, h4, h5, h6⟩ := h
  refine ⟨?_, ?_⟩
  · rw [h1, h2, h3, h4]; exact g.q1
  · intro hq; rw [h3]; apply g.q2; simpa [queueing, h5, h6] using hq

theorem QG_congr' {s : St K} (g : QG s) {s' : St K} (h : qframe s' = qframe s) : QG s' := QG_congr h g

theorem qframe_interact (s : St K) : qframe (interact s) = qframe s := by
  unfold interact; split <;> simp [qframe, emit]

theorem qframe_emit (s : St K) (u : List Up) : qframe (emit s u) = qframe s := rfl

theorem queueing_interact (s : St K) : queueing (interact s) = queueing s := by
  have := qframe_interact s
  simp only [qframe, Prod.mk.injEq] at this
  simp only [queueing, this.2.2.2.2.1, this.2.2.2.2.2]

/-- `_handle_command` leaves the child-facing lists alone; it can only leave the queueing state -/
theorem handleCmd_q (s : St K) (c : CCmd) (hq : queueing s = false) :
    (handleCmd s c).toChild = s.toChild ∧ (handleCmd s c).routed = s.routed ∧ (handleCmd s c).queue = s.queue
    ∧ (handleCmd s c).errored = s.errored ∧ queueing (handleCmd s c) = false := by
  have hf := frame_handleCmd s c
  simp only [frame, Prod.mk.injEq] at hf
  refine ⟨hf.1, hf.2.1, hf.2.2.1, hf.2.2.2.1, ?_⟩
  cases c with
  | send d =>
    simp only [handleCmd]; split
    · simpa [queueing] using hq
    · rw [queueing_interact]; simpa [queueing] using hq
  | close => simpa [handleCmd, queueing, emit] using hq
  | open_ => simp [handleCmd, queueing, emit, isEst]
  | other n => simpa [handleCmd, queueing, emit] using hq

theorem handleCmds_q (cs : List CCmd) : ∀ (s : St K), queueing s = false →
    (handleCmds s cs).toChild = s.toChild ∧ (handleCmds s cs).routed = s.routed ∧ (handleCmds s cs).queue = s.queue
    ∧ (handleCmds s cs).errored = s.errored ∧ queueing (handleCmds s cs) = false := by
  induction cs with
  | nil => intro s hq; exact ⟨rfl, rfl, rfl, rfl, hq⟩
  | cons c cs ih =>
    intro s hq
    obtain ⟨a1, a2, a3, a4, a5⟩ := handleCmd_q s c hq
    obtain ⟨b1, b2, b3, b4, b5⟩ := ih (handleCmd s c) a5
    simp only [handleCmds, List.foldl_cons] at *
    exact ⟨b1.trans a1, b2.trans a2, b3.trans a3, b4.trans a4, b5⟩

theorem deliver_q (child : Child) (s : St K) (e : CEv) (hq : queueing s = false) :
    (deliver child s e).toChild = s.toChild ++ [e] ∧ (deliver child s e).routed = s.routed
    ∧ (deliver child s e).queue = s.queue ∧ (deliver child s e).errored = s.errored
    ∧ queueing (deliver child s e) = false := by
  unfold deliver
  exact handleCmds_q _ ({ s with toChild := s.toChild ++ [e] } : St K) (by simpa [queueing] using hq)

theorem QG_etc (child : Child) (s : St K) (e : CEv) (g : QG s) : QG (eventToChild child s e) := by
  obtain ⟨t, ht, hte⟩ := g.q1
  unfold eventToChild etcCore
  by_cases he : s.errored = true
  · rw [if_pos (by simpa using he)]
    refine ⟨⟨t ++ [e], by simp [ht], by simp [he]⟩, fun hq => by simpa using g.q2 (by simpa [queueing] using hq)⟩
  · have he' : s.errored = false := by simpa using he
    rw [if_neg (by simp [he'])]
    have ht0 := hte he'
    subst ht0
    by_cases hq : queueing s = true
    · rw [if_pos (by simpa [queueing] using hq)]
      refine ⟨⟨[], by simp [ht], fun _ => rfl⟩, fun hq' => ?_⟩
      have : queueing s = false := by simpa [queueing] using hq'
      rw [this] at hq; cases hq
    · have hq' : queueing s = false := by simpa using hq
      rw [if_neg (by simp [queueing] at hq' ⊢; simpa [queueing] using hq')]
      have hqn := g.q2 hq'
      obtain ⟨d1, d2, d3, d4, d5⟩ := deliver_q child (addRouted s e) e (by simpa [queueing] using hq')
      refine ⟨⟨[], ?_, fun _ => rfl⟩, fun _ => ?_⟩
      · rw [d1, d2, d3]; simp [ht, hqn]
      · rw [d3]; simpa using hqn

theorem etc_queue_nil (child : Child) (s : St K) (e : CEv) (hq : queueing s = false) (hn : s.queue = []) :
    (eventToChild child s e).queue = [] := by
  unfold eventToChild etcCore
  by_cases he : s.errored = true
  · rw [if_pos (by simpa using he)]; simpa using hn
  · rw [if_neg (by simpa using he), if_neg (by simpa [queueing] using hq)]
    rw [(deliver_q child (addRouted s e) e (by simpa [queueing] using hq)).2.2.1]; simpa using hn

theorem QG_receiveData (child : Child) (s : St K) (d : Bytes) (g : QG s) : QG (receiveData child s d) := by
  unfold receiveData
  split
  · exact QG_congr' g rfl
  · rename_i c hc
    generalize recvLoop K (K.inPending (feedIf c d) + 1) (feedIf c d) [] = r
    have g3 : QG (interact (if (r.2.1 == RecvEnd.err) = true then emit (afterRecv s r.2.2 r.2.1) [Up.log 1]
        else afterRecv s r.2.2 r.2.1)) := by
      apply QG_congr' g
      rw [qframe_interact]; split <;> rfl
    simp only []
    split <;> split <;> first | exact g3 | exact QG_etc _ _ _ g3 | exact QG_etc _ _ _ (QG_etc _ _ _ g3)

theorem QG_startTls (env : Env K) (s : St K) (g : QG s) : QG (startTls env s).1 := by
  unfold startTls
  split
  · exact QG_congr' g rfl
  · split <;> exact QG_congr' g rfl

theorem QG_hsTls (child : Child) (s : St K) (d : Bytes) (g : QG s) : QG (hsTls child s d).1 := by
  unfold hsTls
  split
  · exact QG_congr' g rfl
  · split
    · exact QG_congr' g (by rw [qframe_interact]; rfl)
    · exact QG_congr' g rfl
    · dsimp only []
      apply QG_receiveData
      exact QG_congr' g rfl

theorem QG_recvHandshake (env : Env K) (child : Child) (s : St K) (d : Bytes) (g : QG s) :
    QG (recvHandshake env child s d).1 := by
  unfold recvHandshake
  split
  · exact QG_hsTls _ _ _ g
  · split
    · exact QG_hsTls _ _ _ g
    · simp only []
      split
      · exact QG_congr' g rfl
      · exact QG_congr' g rfl
      · have g1 : QG (if env.serverFirst = true then
            emit (emit { s with recvBuf := s.recvBuf ++ d, helloParsed := true } [Up.hook 1]) [Up.openServer]
            else emit { s with recvBuf := s.recvBuf ++ d, helloParsed := true } [Up.hook 1]) := by
          split <;> exact QG_congr' g rfl
        have g2 := QG_startTls env _ g1
        split
        · rename_i s' hs'; rw [hs'] at g2; exact g2
        · rename_i s' hs'; rw [hs'] at g2
          exact QG_hsTls child _ (s.recvBuf ++ d) (QG_congr' g2 rfl)

theorem QG_onHandshakeError (s : St K) (g : QG s) : QG (onHandshakeError s) := by
  unfold onHandshakeError
  obtain ⟨t, ht, _⟩ := g.q1
  simp only []
  split
  · exact ⟨⟨t, by simpa using ht, by simp⟩, fun hq => by simpa using g.q2 (by simpa [queueing] using hq)⟩
  · exact QG_congr' g rfl

theorem foldl_etcCore_errored (child : Child) (q : List CEv) : ∀ t : St K, t.errored = true →
    q.foldl (etcCore child) t = t := by
  induction q with
  | nil => intro t _; rfl
  | cons e q ih =>
    intro t ht
    simp only [List.foldl_cons]
    have : etcCore child t e = t := by unfold etcCore; rw [if_pos (by simpa using ht)]
    rw [this]; exact ih t ht

theorem foldl_etcCore_deliver (child : Child) (q : List CEv) : ∀ t : St K, t.errored = false → queueing t = false →
    (q.foldl (etcCore child) t).toChild = t.toChild ++ q ∧ (q.foldl (etcCore child) t).routed = t.routed
    ∧ (q.foldl (etcCore child) t).errored = false := by
  induction q with
  | nil => intro t ht _; simp [ht]
  | cons e q ih =>
    intro t ht hq
    obtain ⟨d1, d2, _, d4, d5⟩ := deliver_q child t e hq
    have : etcCore child t e = deliver child t e := by
      unfold etcCore; rw [if_neg (by simp [ht]), if_neg (by simpa [queueing] using hq)]
    simp only [List.foldl_cons, this]
    obtain ⟨i1, i2, i3⟩ := ih (deliver child t e) (by rw [d4]; exact ht) d5
    exact ⟨by rw [i1, d1]; simp, by rw [i2, d2], i3⟩

theorem QG_handshakeFinished (child : Child) (s : St K) (err : Bool) (g : QG s) :
    QG (handshakeFinished child s err) ∧ (handshakeFinished child s err).queue = [] := by
  have hqt : queueing (setSt s (if err then .closed else .open_)) = false := by cases err <;> simp [queueing, isEst]
  unfold handshakeFinished
  simp only []
  by_cases hr : s.replyTo = true
  · rw [if_pos hr]
    have hqs : queueing s = false := by simp [queueing, hr]
    have hn := g.q2 hqs
    have gt : QG (setSt s (if err then .closed else .open_)) :=
      ⟨by simpa using g.q1, fun _ => by simpa using hn⟩
    have ge := QG_etc child _ (.opened err) gt
    have hqn := etc_queue_nil child _ (.opened err) hqt (by simpa using hn)
    refine ⟨⟨by simpa using ge.q1, fun _ => by simpa using hqn⟩, by simpa using hqn⟩
  · rw [if_neg hr]
    obtain ⟨t, ht, hte⟩ := g.q1
    refine ⟨⟨?_, fun _ => by simp⟩, by simp⟩
    by_cases he : s.errored = true
    · rw [foldl_etcCore_errored child s.queue _ (by simpa using he)]
      exact ⟨s.queue ++ t, by simp [ht], by simp [he]⟩
    · have he' : s.errored = false := by simpa using he
      obtain ⟨f1, f2, f3⟩ := foldl_etcCore_deliver child s.queue (setSt s (if err then .closed else .open_)) (by simpa using he') hqt
      have := hte he'; subst this
      exact ⟨[], by simp [f1, f2, ht], fun _ => rfl⟩

theorem QG_startHandshake (env : Env K) (child : Child) (s : St K) (g : QG s) : QG (startHandshake env child s) := by
  unfold startHandshake
  split
  · exact g
  · have g2 := QG_startTls env s g
    split
    · rename_i s' hs'; rw [hs'] at g2; exact g2
    · rename_i s' hs'; rw [hs'] at g2; exact QG_hsTls _ _ _ g2

theorem QG_hsData (env : Env K) (child : Child) (s : St K) (d : Bytes) (g : QG s) : QG (hsData env child s d) := by
  unfold hsData
  have g1 := QG_recvHandshake env child s d g
  generalize recvHandshake env child s d = r at g1
  obtain ⟨s1, dn, er⟩ := r
  simp only [] at g1 ⊢
  have g2 : QG (if er = true then onHandshakeError s1 else s1) := by
    split
    · exact QG_onHandshakeError _ g1
    · exact g1
  split
  · exact (QG_handshakeFinished child _ er g2).1
  · exact g2

theorem QG_handle (env : Env K) (child : Child) (s : St K) (ev : Ev) (g : QG s) : QG (handle env child s ev) := by
  cases ev with
  | start connOpen =>
    simp only [handle]
    apply QG_etc
    split
    · apply QG_startHandshake
      refine ⟨by simpa using g.q1, fun hq => ?_⟩
      by_cases hqs : queueing s = false
      · simpa using g.q2 hqs
      · -- was queueing already: ESTABLISHING without reply command, nothing changes
        have : queueing s = true := by simpa using hqs
        simp only [queueing, Bool.and_eq_true, Bool.not_eq_true'] at this
        simp [queueing, isEst, this.2] at hq
    · exact g
  | data d =>
    simp only [handle]
    have g' : QG s := g
    split
    · exact QG_hsData _ _ _ _ g'
    · exact QG_receiveData _ _ _ g'
  | closeEv =>
    simp only [handle]
    -- the state before `tunnel_state = CLOSED` satisfies QG and has an empty store
    suffices h : ∀ t : St K, QG t → t.queue = [] → QG ({ t with st := .closed } : St K) by
      by_cases h1 : s.st = .open_
      · simp only [h1, if_true]
        have hq : queueing s = false := by simp [queueing, h1, isEst]
        have hn := g.q2 hq
        split
        · split
          · exact h _ g hn
          · exact h _ (QG_etc _ _ _ g) (etc_queue_nil _ _ _ hq hn)
        · exact h _ (QG_congr' g (by simp [qframe, h1])) hn
      · simp only [h1, if_false]
        by_cases h2 : s.st = .establishing
        · simp only [h2, if_true]
          have := QG_handshakeFinished child _ true (QG_onHandshakeError s g)
          exact h _ this.1 this.2
        · simp only [h2, if_false]
          have hq : queueing s = false := by
            cases hs : s.st <;> simp_all [queueing, isEst]
          exact h _ g (g.q2 hq)
    intro t gt hn
    exact ⟨by simpa using gt.q1, fun _ => by simpa using hn⟩
  | other n => exact QG_etc _ _ _ g
  | openReply err =>
    simp only [handle]
    by_cases hr : s.replyTo = true
    · simp only [hr, Bool.not_true, Bool.false_eq_true, if_false]
      have hq : queueing s = false := by simp [queueing, hr]
      split
      · have ge := QG_etc child s (.opened true) g
        have hn := etc_queue_nil child s (.opened true) hq (g.q2 hq)
        exact ⟨by simpa using ge.q1, fun _ => by simpa using hn⟩
      · exact QG_startHandshake _ _ _ g
    · have : s.replyTo = false := by simpa using hr
      simp [this]; exact g

theorem QG_run (env : Env K) (child : Child) (evs : List Ev) : ∀ s : St K, QG s → QG (run env child s evs) := by
  induction evs with
  | nil => intro s g; exact g
  | cons e evs ih => intro s g; simp only [run, List.foldl_cons] at *; exact ih _ (QG_handle env child s e g)

theorem QG_init (sd : Side) : QG ({ side := sd } : St K) := ⟨⟨[], rfl, fun _ => rfl⟩, fun _ => rfl⟩

/-! ### part 2: `crashed` is monotone -/

theorem interact_mono (s : St K) (h : s.crashed = true) : (interact s).crashed = true := by
  unfold interact; split <;> simp [emit, h]

theorem handleCmd_mono (s : St K) (c : CCmd) (h : s.crashed = true) : (handleCmd s c).crashed = true := by
  cases c with
  | send d =>
    simp only [handleCmd]; split
    · rfl
    · apply interact_mono; exact h
  | close => simpa [handleCmd, emit] using h
  | open_ => simpa [handleCmd, emit] using h
  | other n => simpa [handleCmd, emit] using h

theorem handleCmds_mono (cs : List CCmd) : ∀ s : St K, s.crashed = true → (handleCmds s cs).crashed = true := by
  induction cs with
  | nil => intro s h; exact h
  | cons c cs ih => intro s h; simp only [handleCmds, List.foldl_cons] at *; exact ih _ (handleCmd_mono s c h)

theorem deliver_mono (child : Child) (s : St K) (e : CEv) (h : s.crashed = true) : (deliver child s e).crashed = true := by
  unfold deliver; exact handleCmds_mono _ _ h

theorem etcCore_mono (child : Child) (s : St K) (e : CEv) (h : s.crashed = true) : (etcCore child s e).crashed = true := by
  unfold etcCore
  split
  · exact h
  · split
    · simpa using h
    · exact deliver_mono _ _ _ h

theorem etc_mono (child : Child) (s : St K) (e : CEv) (h : s.crashed = true) : (eventToChild child s e).crashed = true := by
  unfold eventToChild; exact etcCore_mono _ _ _ (by simpa using h)

theorem receiveData_mono (child : Child) (s : St K) (d : Bytes) (h : s.crashed = true) :
    (receiveData child s d).crashed = true := by
  unfold receiveData
  split
  · rfl
  · rename_i c hc
    generalize recvLoop K (K.inPending (feedIf c d) + 1) (feedIf c d) [] = r
    have h3 : (interact (if (r.2.1 == RecvEnd.err) = true then emit (afterRecv s r.2.2 r.2.1) [Up.log 1]
        else afterRecv s r.2.2 r.2.1)).crashed = true := by
      apply interact_mono; split <;> simpa [afterRecv] using h
    simp only []
    split <;> split <;> first | exact h3 | exact etc_mono _ _ _ h3 | exact etc_mono _ _ _ (etc_mono _ _ _ h3)

theorem startTls_mono (env : Env K) (s : St K) (h : s.crashed = true) : (startTls env s).1.crashed = true := by
  unfold startTls
  split
  · rfl
  · split <;> simpa [emit] using h

theorem hsTls_mono (child : Child) (s : St K) (d : Bytes) (h : s.crashed = true) : (hsTls child s d).1.crashed = true := by
  unfold hsTls
  split
  · rfl
  · split
    · exact interact_mono _ (by simpa using h)
    · simpa using h
    · dsimp only []
      exact receiveData_mono _ _ _ (by simpa [emit] using h)

theorem recvHandshake_mono (env : Env K) (child : Child) (s : St K) (d : Bytes) (h : s.crashed = true) :
    (recvHandshake env child s d).1.crashed = true := by
  unfold recvHandshake
  split
  · exact hsTls_mono _ _ _ h
  · split
    · exact hsTls_mono _ _ _ h
    · simp only []
      split
      · simpa using h
      · simpa using h
      · have g1 : (if env.serverFirst = true then
            emit (emit { s with recvBuf := s.recvBuf ++ d, helloParsed := true } [Up.hook 1]) [Up.openServer]
            else emit { s with recvBuf := s.recvBuf ++ d, helloParsed := true } [Up.hook 1]).crashed = true := by
          split <;> simpa [emit] using h
        have g2 := startTls_mono env _ g1
        split
        · rename_i s' hs'; rw [hs'] at g2; exact g2
        · rename_i s' hs'; rw [hs'] at g2
          exact hsTls_mono child _ (s.recvBuf ++ d) (by simpa using g2)

theorem onHandshakeError_mono (s : St K) (h : s.crashed = true) : (onHandshakeError s).crashed = true := by
  unfold onHandshakeError; simp only []; split <;> simpa [emit] using h

theorem foldl_etcCore_mono (child : Child) (q : List CEv) : ∀ t : St K, t.crashed = true →
    (q.foldl (etcCore child) t).crashed = true := by
  induction q with
  | nil => intro t h; exact h
  | cons e q ih => intro t h; simp only [List.foldl_cons]; exact ih _ (etcCore_mono _ _ _ h)

theorem handshakeFinished_mono (child : Child) (s : St K) (err : Bool) (h : s.crashed = true) :
    (handshakeFinished child s err).crashed = true := by
  unfold handshakeFinished
  simp only []
  split
  · simpa using etc_mono child (setSt s (if err then .closed else .open_)) (.opened err) (by simpa using h)
  · simpa using foldl_etcCore_mono child s.queue (setSt s (if err then .closed else .open_)) (by simpa using h)

theorem startHandshake_mono (env : Env K) (child : Child) (s : St K) (h : s.crashed = true) :
    (startHandshake env child s).crashed = true := by
  unfold startHandshake
  split
  · exact h
  · have g2 := startTls_mono env s h
    split
    · rename_i s' hs'; rw [hs'] at g2; exact g2
    · rename_i s' hs'; rw [hs'] at g2; exact hsTls_mono _ _ _ g2

theorem hsData_mono (env : Env K) (child : Child) (s : St K) (d : Bytes) (h : s.crashed = true) :
    (hsData env child s d).crashed = true := by
  unfold hsData
  have g1 := recvHandshake_mono env child s d h
  generalize recvHandshake env child s d = r at g1
  obtain ⟨s1, dn, er⟩ := r
  simp only [] at g1 ⊢
  have g2 : (if er = true then onHandshakeError s1 else s1).crashed = true := by
    split
    · exact onHandshakeError_mono _ g1
    · exact g1
  split
  · exact handshakeFinished_mono child _ er g2
  · exact g2

theorem handle_mono (env : Env K) (child : Child) (s : St K) (ev : Ev) (h : s.crashed = true) :
    (handle env child s ev).crashed = true := by
  cases ev with
  | start connOpen =>
    simp only [handle]
    apply etc_mono
    split
    · exact startHandshake_mono _ _ _ (by simpa using h)
    · exact h
  | data d =>
    simp only [handle]
    split
    · exact hsData_mono _ _ _ _ (by simpa using h)
    · exact receiveData_mono _ _ _ (by simpa using h)
  | closeEv =>
    simp only [handle]
    split
    · split
      · split
        · simpa using h
        · simpa using etc_mono child s .closed h
      · rfl
    · split
      · simpa using handshakeFinished_mono child _ true (onHandshakeError_mono s h)
      · simpa using h
  | other n => exact etc_mono _ _ _ h
  | openReply err =>
    simp only [handle]
    split
    · exact h
    · split
      · simpa using etc_mono child s (.opened true) h
      · exact startHandshake_mono _ _ _ h

theorem run_mono (env : Env K) (child : Child) (evs : List Ev) : ∀ s : St K, s.crashed = true →
    (run env child s evs).crashed = true := by
  induction evs with
  | nil => intro s h; exact h
  | cons e evs ih => intro s h; simp only [run, List.foldl_cons] at *; exact ih _ (handle_mono env child s e h)

/-! ### part 3: the TLS engine's ghost observers against the layer's ghost fields -/

/-- a connection object as the tls_start hook hands it over: nothing fed, read, written or emitted yet -/
def Fresh (L : Laws K) (c : K.σ) : Prop := L.fed c = [] ∧ L.taken c = 0 ∧ L.sent c = [] ∧ L.emitted c = []

/-- `b`: all bytes received on the tunnel connection so far; `o`: plaintext already taken out of the engine but not yet
    passed to `event_to_child` (non-empty only in the middle of `receive_data`); `fl`: everything written has been flushed
    (false only between `sendall` and `tls_interact`) -/
structure TG (L : Laws K) (fl : Bool) (b o : Bytes) (s : St K) : Prop where
  tn : s.tls = none → (s.side = .server → b = []) ∧ (s.side = .client → s.recvBuf = b) ∧ plainOf s.routed = [] ∧ o = []
        ∧ cipherOf s.up = [] ∧ s.accepted = []
  ts : ∀ c, s.tls = some c → L.fed c = b ∧ plainOf s.routed ++ o = (L.dec b).1.take (L.taken c)
        ∧ L.taken c ≤ (L.dec b).1.length ∧ cipherOf s.up = L.emitted c ∧ s.accepted = L.sent c
        ∧ (fl = true → L.enc (L.emitted c) = L.sent c) ∧ (s.side = .client → s.helloParsed = true)

def TGf (L : Laws K) (fl : Bool) (b o : Bytes) (s : St K) : Prop := s.crashed = true ∨ TG L fl b o s
abbrev TGc (L : Laws K) (b o : Bytes) (s : St K) : Prop := TGf L true b o s

def tframe (s : St K) : Option K.σ × List CEv × List Up × Bytes × Bytes × Side × Bool :=
  (s.tls, s.routed, s.up, s.accepted, s.recvBuf, s.side, s.helloParsed)

theorem TG_congr {L : Laws K} {fl : Bool} {b o : Bytes} {s : St K} (g : TG L fl b o s) {s' : St K} (h : tframe s' = tframe s) :
    TG L fl b o s' := by
  simp only [tframe, Prod.mk.injEq] at h
  obtain ⟨h1, h2, h3, h4, h5, h6, h7⟩ := h
  refine ⟨?_, ?_⟩
  · intro hn; rw [h2, h3, h4, h5, h6]; exact g.tn (by rw [← h1]; exact hn)
  · intro c hc; rw [h2, h3, h4, h6, h7]; exact g.ts c (by rw [← h1]; exact hc)

theorem TGc_congr {L : Laws K} {fl : Bool} {b o : Bytes} {s : St K} (g : TGf L fl b o s) {s' : St K} (h : tframe s' = tframe s)
    (hc : s'.crashed = s.crashed) : TGf L fl b o s' := by
  rcases g with g | g
  · left; rw [hc]; exact g
  · right; exact TG_congr g h

theorem cipherOf_nonsend (u : List Up) (us : List Up) (h : cipherOf us = []) : cipherOf (u ++ us) = cipherOf u := by
  rw [cipherOf_append, h]; simp

/-- emitting hooks / logs / close / open commands does not touch the ciphertext stream -/
theorem TGc_emit {L : Laws K} {fl : Bool} {b o : Bytes} {s : St K} (g : TGf L fl b o s) (us : List Up) (h : cipherOf us = []) :
    TGf L fl b o (emit s us) := by
  rcases g with g | g
  · left; simpa using g
  · right
    refine ⟨?_, ?_⟩
    · intro hn
      have := g.tn (by simpa using hn)
      simpa [cipherOf_nonsend _ _ h] using this
    · intro c hc
      have := g.ts c (by simpa using hc)
      simpa [cipherOf_nonsend _ _ h] using this

/-- `tls_interact` forwards everything the engine produced and leaves nothing unflushed -/
theorem TGc_interact {L : Laws K} {fl : Bool} {b o : Bytes} {s : St K} (g : TGf L fl b o s) : TGc L b o (interact s) := by
  rcases g with g | g
  · left; exact interact_mono _ g
  · unfold interact
    split
    · left; rfl
    · rename_i c hc
      right
      obtain ⟨f1, f2, f3, f4, f5, _, f7⟩ := g.ts c hc
      obtain ⟨chunks, q1, q2, q3, q4, q5, q6⟩ := outLoop_spec L (K.outPending c + 1) c [] (by omega)
      simp only [List.nil_append] at q1
      refine ⟨fun hn => by simp [emit] at hn, ?_⟩
      intro c' hc'
      simp only [emit, Option.some.injEq] at hc'
      subst hc'
      simp only [emit]
      refine ⟨by rw [q4, f1], by rw [q5]; exact f2, by rw [q5]; exact f3, ?_, by rw [q3]; exact f5, fun _ => q6, f7⟩
      rw [cipherOf_append, cipherOf_sends, q1, q2, f4]

theorem TGc_handleCmd {L : Laws K} {b o : Bytes} {s : St K} (g : TGc L b o s) (c : CCmd) : TGc L b o (handleCmd s c) := by
  cases c with
  | send d =>
    rcases g with g | g
    · left; exact handleCmd_mono _ _ g
    · simp only [handleCmd]
      split
      · left; rfl
      · rename_i c hc
        apply TGc_interact (fl := false)
        right
        obtain ⟨f1, f2, f3, f4, f5, _, f7⟩ := g.ts c hc
        obtain ⟨hse, hss⟩ := L.send_out c d
        obtain ⟨hsf, hst⟩ := L.send_in c d
        refine ⟨fun hn => by simp at hn, ?_⟩
        intro c' hc'
        simp only [Option.some.injEq] at hc'
        subst hc'
        refine ⟨by rw [hsf, f1], by rw [hst]; exact f2, by rw [hst]; exact f3, by rw [hse]; exact f4, ?_, by simp, f7⟩
        rw [hss, f5]
  | close => exact TGc_emit g _ rfl
  | open_ =>
    simp only [handleCmd]
    exact TGc_emit (s := { s with replyTo := true, st := .establishing }) (TGc_congr g rfl rfl) [.openTunnel] rfl
  | other n => exact TGc_emit g _ rfl

theorem TGc_handleCmds {L : Laws K} {b o : Bytes} (cs : List CCmd) : ∀ {s : St K}, TGc L b o s → TGc L b o (handleCmds s cs) := by
  induction cs with
  | nil => intro s g; exact g
  | cons c cs ih => intro s g; simp only [handleCmds, List.foldl_cons] at *; exact ih (TGc_handleCmd g c)

theorem TGc_deliver {L : Laws K} {b o : Bytes} {s : St K} (child : Child) (e : CEv) (g : TGc L b o s) :
    TGc L b o (deliver child s e) := by
  unfold deliver
  exact TGc_handleCmds _ (TGc_congr g rfl rfl)

theorem TGc_etcCore {L : Laws K} {b o : Bytes} {s : St K} (child : Child) (e : CEv) (g : TGc L b o s) :
    TGc L b o (etcCore child s e) := by
  unfold etcCore
  split
  · exact g
  · split
    · exact TGc_congr g rfl rfl
    · exact TGc_deliver child e g

/-- passing an event to `event_to_child` settles the plaintext it carries -/
theorem TGc_etc {L : Laws K} {b o o' : Bytes} {s : St K} (child : Child) (e : CEv) (g : TGc L b o s)
    (ho : plainOf [e] ++ o' = o) : TGc L b o' (eventToChild child s e) := by
  unfold eventToChild
  apply TGc_etcCore
  rcases g with g | g
  · left; simpa using g
  · right
    refine ⟨?_, ?_⟩
    · intro hn
      obtain ⟨t1, t2, t3, t4, t5, t6⟩ := g.tn (by simpa using hn)
      subst ho
      have h1 : plainOf [e] = [] := (List.append_eq_nil_iff.mp t4).1
      have h2 : o' = [] := (List.append_eq_nil_iff.mp t4).2
      refine ⟨t1, by simpa using t2, ?_, h2, by simpa using t5, by simpa using t6⟩
      simp [plainOf_append, t3, h1]
    · intro c hc
      obtain ⟨f1, f2, f3, f4, f5, f6⟩ := g.ts c (by simpa using hc)
      subst ho
      refine ⟨f1, ?_, f3, by simpa using f4, by simpa using f5, f6⟩
      rw [← f2]; simp [plainOf_append]

theorem take_add_of_drop {α : Type} (X P rest : List α) (n : Nat) (h : X.drop n = P ++ rest) :
    X.take (n + P.length) = X.take n ++ P ∧ n + P.length ≤ X.length ∨ (P = [] ∧ X.take (n + P.length) = X.take n ++ P) := by
  have h1 : X.take (n + P.length) = X.take n ++ (X.drop n).take P.length := by
    rw [List.take_add]
  rw [h] at h1
  simp at h1
  by_cases hP : P = []
  · right; exact ⟨hP, h1⟩
  · left
    refine ⟨h1, ?_⟩
    have := congrArg List.length h
    simp at this
    have : 0 < P.length := List.length_pos_iff.mpr hP
    omega

/-- feeding more ciphertext: what was decodable stays decodable (`dec_mono`) -/
theorem TG_feed {L : Laws K} {b : Bytes} {s : St K} {c : K.σ} (g : TG L true b [] s) (hc : s.tls = some c) (d : Bytes) :
    L.fed (feedIf c d) = b ++ d ∧ L.taken (feedIf c d) = L.taken c
    ∧ plainOf s.routed = (L.dec (b ++ d)).1.take (L.taken c) ∧ L.taken c ≤ (L.dec (b ++ d)).1.length
    ∧ L.emitted (feedIf c d) = L.emitted c ∧ L.sent (feedIf c d) = L.sent c := by
  obtain ⟨f1, f2, f3, _, _, _⟩ := g.ts c hc
  obtain ⟨t, ht⟩ := L.dec_mono b d
  have hfed : L.fed (feedIf c d) = b ++ d ∧ L.taken (feedIf c d) = L.taken c
      ∧ L.emitted (feedIf c d) = L.emitted c ∧ L.sent (feedIf c d) = L.sent c := by
    unfold feedIf
    by_cases hde : d.isEmpty = true
    · have : d = [] := by simpa using hde
      subst this; simp [f1]
    · simp only [hde, Bool.false_eq_true, if_false]; exact ⟨by rw [L.feed_fed, f1], L.feed_taken c d, (L.feed_out c d).2, (L.feed_out c d).1⟩
  refine ⟨hfed.1, hfed.2.1, ?_, ?_, hfed.2.2.1, hfed.2.2.2⟩
  · rw [ht, List.take_append_of_le_length f3]; simpa using f2
  · rw [ht]; simp; omega

theorem TGc_receiveData {L : Laws K} {b : Bytes} {s : St K} (child : Child) (d : Bytes) (g : TGc L b [] s) :
    TGc L (b ++ d) [] (receiveData child s d) := by
  rcases g with g | g
  · left; exact receiveData_mono _ _ _ g
  · unfold receiveData
    split
    · left; rfl
    · rename_i c hc
      obtain ⟨f1, f2, f3, f4, f5, f6⟩ := g.ts c hc
      obtain ⟨e1, e2, e3, e4, e5, e6⟩ := TG_feed g hc d
      obtain ⟨P, hp1, hp2, hp3, hp4, hp5, ⟨rest, hp6⟩, _, _, _⟩ :=
        recvLoop_spec L (K.inPending (feedIf c d) + 1) (feedIf c d) [] (by omega)
      simp only [List.nil_append] at hp1
      rw [e1, e2] at hp6
      generalize hr : recvLoop K (K.inPending (feedIf c d) + 1) (feedIf c d) [] = r at hp1 hp2 hp3 hp4 hp5
      -- state right after the loop: `P` is owed to the child
      have g1 : TGc L (b ++ d) P (afterRecv s r.2.2 r.2.1) := by
        right
        refine ⟨fun hn => by simp [afterRecv] at hn, ?_⟩
        intro c' hc'
        simp only [afterRecv, Option.some.injEq] at hc'
        subst hc'
        have htk : (L.dec (b ++ d)).1.take (L.taken c + P.length) = (L.dec (b ++ d)).1.take (L.taken c) ++ P
            ∧ L.taken c + P.length ≤ (L.dec (b ++ d)).1.length := by
          rcases take_add_of_drop _ P rest (L.taken c) hp6 with h | h
          · exact h
          · exact ⟨h.2, by rw [h.1]; simpa using e4⟩
        refine ⟨by rw [hp2, e1], ?_, by rw [hp5, e2]; exact htk.2, ?_, ?_, fun _ => ?_, f6.2⟩
        · simp only [afterRecv]; rw [hp5, e2, htk.1, e3]
        · simp only [afterRecv]; rw [hp4, e5]; exact f4
        · simp only [afterRecv]; rw [hp3, e6]; exact f5
        · rw [hp4, hp3, e5, e6]; exact f6.1 rfl
      have g3 : TGc L (b ++ d) P (interact (if (r.2.1 == RecvEnd.err) = true then emit (afterRecv s r.2.2 r.2.1) [Up.log 1]
          else afterRecv s r.2.2 r.2.1)) := by
        apply TGc_interact
        split
        · exact TGc_emit g1 _ rfl
        · exact g1
      simp only []
      rw [hp1]
      have g4 : TGc L (b ++ d) [] (if P.isEmpty = true then
            interact (if (r.2.1 == RecvEnd.err) = true then emit (afterRecv s r.2.2 r.2.1) [Up.log 1] else afterRecv s r.2.2 r.2.1)
          else eventToChild child (interact (if (r.2.1 == RecvEnd.err) = true then emit (afterRecv s r.2.2 r.2.1) [Up.log 1]
            else afterRecv s r.2.2 r.2.1)) (.data P)) := by
        split
        · rename_i hP
          have : P = [] := by simpa using hP
          subst this; exact g3
        · exact TGc_etc child (.data P) g3 (by simp [plainOf])
      split
      · exact TGc_etc child .closed g4 (by simp [plainOf])
      · exact g4

theorem TGc_startTls {L : Laws K} {b : Bytes} {s : St K} (env : Env K) (hfresh : ∀ c, env.mkTls = some c → Fresh L c)
    (hhp : s.side = .client → s.helloParsed = true) (g : TGc L b [] s) :
    ((startTls env s).2 = false → TGc L b [] (startTls env s).1)
    ∧ ((startTls env s).2 = true → (startTls env s).1.crashed = true ∨
        (TG L true [] [] (startTls env s).1 ∧ (s.side = .server → b = [])
          ∧ (s.side = .client → s.recvBuf = b) ∧ (startTls env s).1.side = s.side
          ∧ (startTls env s).1.recvBuf = s.recvBuf ∧ (startTls env s).1.tls.isSome = true)) := by
  rcases g with g | g
  · have := startTls_mono env s g
    exact ⟨fun _ => Or.inl this, fun _ => Or.inl this⟩
  · unfold startTls
    by_cases hs : s.tls.isSome = true
    · simp only [hs, if_true]
      exact ⟨fun _ => Or.inl rfl, fun h => by simp at h⟩
    · simp only [hs, Bool.false_eq_true, if_false]
      have hn : s.tls = none := by simpa using hs
      obtain ⟨t1, t2, t3, _, t5, t6⟩ := g.tn hn
      cases hm : env.mkTls with
      | none =>
        simp only []
        refine ⟨fun _ => ?_, fun h => by simp at h⟩
        exact TGc_emit (TGc_emit (Or.inr g) [.hook 0] rfl) [.log 0, .close] rfl
      | some c0 =>
        simp only []
        refine ⟨fun h => by simp at h, fun _ => Or.inr ⟨?_, t1, t2, rfl, rfl, rfl⟩⟩
        obtain ⟨r1, r2, r3, r4⟩ := hfresh c0 hm
        refine ⟨fun h => by simp at h, ?_⟩
        intro c hc
        simp only [Option.some.injEq] at hc
        subst hc
        refine ⟨r1, by simp [emit, t3, r2], by simp [r2], ?_, by simp [emit, t6, r3], fun _ => by rw [r4, r3]; exact L.enc_nil, by simpa [emit] using hhp⟩
        simp [emit, cipherOf_nonsend _ [Up.hook 0] rfl, t5, r4]

theorem TGc_hsTls {L : Laws K} {b : Bytes} {s : St K} (child : Child) (d : Bytes) (g : TGc L b [] s) :
    TGc L (b ++ d) [] (hsTls child s d).1 := by
  rcases g with g | g
  · left; exact hsTls_mono _ _ _ g
  · unfold hsTls
    split
    · left; rfl
    · rename_i c hc
      obtain ⟨f1, f2, f3, f4, f5, f6⟩ := g.ts c hc
      obtain ⟨e1, e2, e3, e4, e5, e6⟩ := TG_feed g hc d
      obtain ⟨h1, h2⟩ := L.hs_in (feedIf c d)
      obtain ⟨h3, h4⟩ := L.hs_out (feedIf c d)
      have core : ∀ c2, c2 = (K.handshake (feedIf c d)).2 → TG L true (b ++ d) [] ({ s with tls := some c2 } : St K) := by
        intro c2 hc2
        subst hc2
        refine ⟨fun hn => by simp at hn, ?_⟩
        intro c' hc'
        simp only [Option.some.injEq] at hc'
        subst hc'
        refine ⟨by rw [h1, e1], by rw [h2, e2]; simpa using e3, by rw [h2, e2]; exact e4, by rw [h4, e5]; exact f4,
          by rw [h3, e6]; exact f5, fun _ => by rw [h4, h3, e5, e6]; exact f6.1 rfl, f6.2⟩
      cases hh : K.handshake (feedIf c d) with
      | mk r c2 =>
        have hc2 : c2 = (K.handshake (feedIf c d)).2 := by rw [hh]
        cases r with
        | wantRead => exact TGc_interact (Or.inr (core c2 hc2))
        | error => exact Or.inr (core c2 hc2)
        | done =>
          dsimp only []
          have := TGc_receiveData child [] (TGc_emit (Or.inr (core c2 hc2)) [.hook 2] rfl)
          simpa using this

theorem TGc_startHandshake {L : Laws K} {b : Bytes} {s : St K} (env : Env K) (child : Child)
    (hfresh : ∀ c, env.mkTls = some c → Fresh L c) (g : TGc L b [] s) : TGc L b [] (startHandshake env child s) := by
  unfold startHandshake
  split
  · exact g
  · rename_i hside
    obtain ⟨a1, a2⟩ := TGc_startTls env hfresh (by simp [hside]) g
    split
    · rename_i s' hs'; rw [hs'] at a1; exact a1 rfl
    · rename_i s' hs'; rw [hs'] at a2
      rcases a2 rfl with hc | ⟨g', hb, _, _, _, _⟩
      · left; exact hsTls_mono _ _ _ hc
      · have hb0 := hb hside; subst hb0
        simpa using TGc_hsTls child [] (Or.inr g')

theorem TGc_recvHandshake {L : Laws K} {b : Bytes} {s : St K} (env : Env K) (child : Child) (d : Bytes)
    (hfresh : ∀ c, env.mkTls = some c → Fresh L c) (g : TGc L b [] s) :
    TGc L (b ++ d) [] (recvHandshake env child s d).1 := by
  rcases g with g | g
  · left; exact recvHandshake_mono _ _ _ _ g
  · unfold recvHandshake
    split
    · exact TGc_hsTls child d (Or.inr g)
    · rename_i hside
      split
      · exact TGc_hsTls child d (Or.inr g)
      · rename_i hhp
        have hn : s.tls = none := by
          cases ht : s.tls with
          | none => rfl
          | some c => exact absurd ((g.ts c ht).2.2.2.2.2.2 hside) hhp
        obtain ⟨t1, t2, t3, t4, t5, t6⟩ := g.tn hn
        have hbuf : s.recvBuf ++ d = b ++ d := by rw [t2 hside]
        -- the buffer grew: the invariant for the longer inbound stream
        have gb : ∀ hpv : Bool, TG L true (b ++ d) [] ({ s with recvBuf := s.recvBuf ++ d, helloParsed := hpv } : St K) := by
          intro hpv
          refine ⟨fun _ => ⟨fun h => by simp [hside] at h, fun _ => hbuf, t3, rfl, t5, t6⟩, ?_⟩
          intro c hc; simp [hn] at hc
        simp only []
        split
        · exact Or.inr (TG_congr (gb s.helloParsed) rfl)
        · exact Or.inr (TG_congr (gb s.helloParsed) rfl)
        · have g1 : TGc L (b ++ d) [] (if env.serverFirst = true then
              emit (emit { s with recvBuf := s.recvBuf ++ d, helloParsed := true } [Up.hook 1]) [Up.openServer]
              else emit { s with recvBuf := s.recvBuf ++ d, helloParsed := true } [Up.hook 1]) := by
            split
            · exact TGc_emit (TGc_emit (Or.inr (gb true)) _ rfl) _ rfl
            · exact TGc_emit (Or.inr (gb true)) _ rfl
          obtain ⟨a1, a2⟩ := TGc_startTls env hfresh (by intro _; split <;> rfl) g1
          split
          · rename_i s' hs'; rw [hs'] at a1; exact a1 rfl
          · rename_i s' hs'; rw [hs'] at a2
            rcases a2 rfl with hc | ⟨g', _, hrb, hsd, hrb2, hsome⟩
            · left; exact hsTls_mono _ _ _ (by simpa using hc)
            · have g'' : TG L true [] [] ({ s' with recvBuf := [] } : St K) := by
                refine ⟨fun hn' => ?_, fun c hc => g'.ts c hc⟩
                simp only [] at hn'
                rw [hn'] at hsome; cases hsome
              have := TGc_hsTls child (s.recvBuf ++ d) (Or.inr g'')
              rw [hbuf] at this ⊢
              simpa using this

theorem TGc_onHandshakeError {L : Laws K} {b : Bytes} {s : St K} (g : TGc L b [] s) : TGc L b [] (onHandshakeError s) := by
  unfold onHandshakeError
  simp only []
  split
  · exact TGc_congr (TGc_emit g [.log 2, .hook 3, .close] rfl) rfl rfl
  · exact TGc_emit g _ rfl

theorem TGc_foldl_etcCore {L : Laws K} {b : Bytes} (child : Child) (q : List CEv) : ∀ {t : St K}, TGc L b [] t →
    TGc L b [] (q.foldl (etcCore child) t) := by
  induction q with
  | nil => intro t g; exact g
  | cons e q ih => intro t g; simp only [List.foldl_cons]; exact ih (TGc_etcCore child e g)

theorem TGc_handshakeFinished {L : Laws K} {b : Bytes} {s : St K} (child : Child) (err : Bool) (g : TGc L b [] s) :
    TGc L b [] (handshakeFinished child s err) := by
  unfold handshakeFinished
  simp only []
  split
  · exact TGc_congr (TGc_etc child (.opened err) (TGc_congr (s' := setSt s (if err then .closed else .open_)) g rfl rfl)
      (by simp [plainOf])) rfl rfl
  · exact TGc_congr (TGc_foldl_etcCore child s.queue (TGc_congr (s' := setSt s (if err then .closed else .open_)) g rfl rfl)) rfl rfl

theorem TGc_hsData {L : Laws K} {b : Bytes} {s : St K} (env : Env K) (child : Child) (d : Bytes)
    (hfresh : ∀ c, env.mkTls = some c → Fresh L c) (g : TGc L b [] s) : TGc L (b ++ d) [] (hsData env child s d) := by
  unfold hsData
  have g1 := TGc_recvHandshake env child d hfresh g
  generalize recvHandshake env child s d = r at g1
  obtain ⟨s1, dn, er⟩ := r
  simp only [] at g1 ⊢
  have g2 : TGc L (b ++ d) [] (if er = true then onHandshakeError s1 else s1) := by
    split
    · exact TGc_onHandshakeError g1
    · exact g1
  split
  · exact TGc_handshakeFinished child er g2
  · exact g2

def dataOfEv : Ev → Bytes
  | .data d => d
  | _ => []

theorem TGc_handle {L : Laws K} {b : Bytes} {s : St K} (env : Env K) (child : Child) (ev : Ev)
    (hfresh : ∀ c, env.mkTls = some c → Fresh L c) (g : TGc L b [] s) :
    TGc L (b ++ dataOfEv ev) [] (handle env child s ev) := by
  cases ev with
  | start connOpen =>
    simp only [handle, dataOfEv, List.append_nil]
    refine TGc_etc (o := []) child .start ?_ (by simp [plainOf])
    split
    · exact TGc_startHandshake env child hfresh (TGc_congr g rfl rfl)
    · exact g
  | data d =>
    simp only [handle, dataOfEv]
    split
    · exact TGc_hsData env child d hfresh (TGc_congr g rfl rfl)
    · exact TGc_receiveData child d (TGc_congr g rfl rfl)
  | closeEv =>
    simp only [handle, dataOfEv, List.append_nil]
    suffices h : ∀ t : St K, TGc L b [] t → TGc L b [] ({ t with st := .closed } : St K) by
      apply h
      split
      · split
        · split
          · exact g
          · exact TGc_etc child .closed g (by simp [plainOf])
        · left; rfl
      · split
        · exact TGc_handshakeFinished child true (TGc_onHandshakeError g)
        · exact g
    intro t gt; exact TGc_congr gt rfl rfl
  | other n =>
    simp only [handle, dataOfEv, List.append_nil]
    exact TGc_etc child (.other n) g (by simp [plainOf])
  | openReply err =>
    simp only [handle, dataOfEv, List.append_nil]
    split
    · exact g
    · split
      · exact TGc_congr (TGc_etc child (.opened true) g (by simp [plainOf])) rfl rfl
      · exact TGc_startHandshake env child hfresh g

def dataOf (evs : List Ev) : Bytes := (evs.map dataOfEv).flatten

theorem TGc_run {L : Laws K} (env : Env K) (child : Child) (hfresh : ∀ c, env.mkTls = some c → Fresh L c)
    (evs : List Ev) : ∀ {b : Bytes} {s : St K}, TGc L b [] s → TGc L (b ++ dataOf evs) [] (run env child s evs) := by
  induction evs with
  | nil => intro b s g; simpa [run, dataOf] using g
  | cons e evs ih =>
    intro b s g
    have := ih (TGc_handle env child e hfresh g)
    simpa [run, dataOf, List.append_assoc] using this

theorem TG_init (L : Laws K) (sd : Side) : TG L true [] [] ({ side := sd } : St K) := by
  refine ⟨fun _ => ⟨fun _ => rfl, fun _ => rfl, rfl, rfl, rfl, rfl⟩, fun c hc => by simp at hc⟩

/-! ### the command list only grows -/

theorem up_interact (s : St K) : ∃ more, (interact s).up = s.up ++ more := by
  unfold interact
  split
  · exact ⟨[], by simp⟩
  · exact ⟨_, rfl⟩

theorem up_handleCmd (s : St K) (c : CCmd) : ∃ more, (handleCmd s c).up = s.up ++ more := by
  cases c with
  | send d =>
    simp only [handleCmd]
    split
    · exact ⟨[], by simp⟩
    · exact up_interact _
  | close => exact ⟨_, rfl⟩
  | open_ => exact ⟨_, rfl⟩
  | other n => exact ⟨_, rfl⟩

theorem up_handleCmds (cs : List CCmd) : ∀ s : St K, ∃ more, (handleCmds s cs).up = s.up ++ more := by
  induction cs with
  | nil => intro s; exact ⟨[], by simp [handleCmds]⟩
  | cons c cs ih =>
    intro s
    obtain ⟨m1, h1⟩ := up_handleCmd s c
    obtain ⟨m2, h2⟩ := ih (handleCmd s c)
    exact ⟨m1 ++ m2, by simp only [handleCmds, List.foldl_cons] at *; rw [h2, h1]; simp⟩

theorem up_etcCore (child : Child) (s : St K) (e : CEv) : ∃ more, (etcCore child s e).up = s.up ++ more := by
  unfold etcCore
  split
  · exact ⟨[], by simp⟩
  · split
    · exact ⟨[], by simp⟩
    · unfold deliver; exact up_handleCmds _ _

theorem up_foldl_etcCore (child : Child) (q : List CEv) : ∀ t : St K, ∃ more, (q.foldl (etcCore child) t).up = t.up ++ more := by
  induction q with
  | nil => intro t; exact ⟨[], by simp⟩
  | cons e q ih =>
    intro t
    obtain ⟨m1, h1⟩ := up_etcCore child t e
    obtain ⟨m2, h2⟩ := ih (etcCore child t e)
    exact ⟨m1 ++ m2, by simp only [List.foldl_cons]; rw [h2, h1]; simp⟩

end MitmVerif.C14.Hist