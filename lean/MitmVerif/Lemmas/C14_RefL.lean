/-
  C14 — the framed reference codec (Model/C14_RefL.lean) satisfies the stream-faithfulness law: `refCodec`, `refLaws`.
-/
import MitmVerif.Model.C14_RefL
namespace MitmVerif.C14.RefL
open MitmVerif MitmVerif.C14

/-! ### framing -/

theorem frameAll_append (a b : Bytes) : ∀ fs, frameAll fs (a ++ b) =
    ((frameAll (frameAll fs a).1 b).1, (frameAll fs a).2 ++ (frameAll (frameAll fs a).1 b).2) := by
  induction a with
  | nil => intro fs; simp [frameAll]
  | cons x xs ih => intro fs; simp only [List.cons_append, frameAll]; rw [ih]; simp [List.append_assoc]

theorem frameAll_cons (fs : FS) (b : UInt8) (r : Bytes) :
    frameAll fs (b :: r) = ((frameAll (frameByte fs b).1 r).1, (frameByte fs b).2 ++ (frameAll (frameByte fs b).1 r).2) := rfl

theorem frame_payload (ty : UInt8) : ∀ (q p : Bytes) (need : Nat), q ≠ [] → q.length = need →
    frameAll (.pay ty need p) q = (.hdr [], [(ty, p.reverse ++ q)]) := by
  intro q
  induction q with
  | nil => intro p need h; exact absurd rfl h
  | cons b r ih =>
    intro p need _ hlen
    simp only [List.length_cons] at hlen
    cases r with
    | nil =>
      simp only [List.length_nil] at hlen
      have : need ≤ 1 := by omega
      simp [frameAll, frameByte, this]
    | cons b2 r2 =>
      have hne : ¬ (need ≤ 1) := by simp only [List.length_cons] at hlen; omega
      have := ih (b :: p) (need - 1) (by simp) (by simp only [List.length_cons] at hlen ⊢; omega)
      rw [frameAll_cons]
      simp only [frameByte, hne, if_false]
      rw [this]; simp

theorem frame_encode (r : Rec) (h : r.2.length < 65536) : frameAll .init (encode r) = (.init, [r]) := by
  obtain ⟨ty, p⟩ := r
  simp only at h
  have h1 : (UInt8.ofNat (p.length / 256)).toNat = p.length / 256 := by
    simp [UInt8.toNat_ofNat]; omega
  have h2 : (UInt8.ofNat (p.length % 256)).toNat = p.length % 256 := by
    simp [UInt8.toNat_ofNat]
  have hn : (UInt8.ofNat (p.length / 256)).toNat * 256 + (UInt8.ofNat (p.length % 256)).toNat = p.length := by
    rw [h1, h2]; omega
  cases p with
  | nil => simp [encode, frameAll, frameByte, FS.init]
  | cons b q =>
    have hlen : (b :: q).length ≠ 0 := by simp
    have := frame_payload ty (b :: q) [] (b :: q).length (by simp) rfl
    simp only [List.reverse_nil, List.nil_append] at this
    simp only [encode, FS.init]
    rw [frameAll_cons, frameAll_cons, frameAll_cons]
    simp only [frameByte, List.nil_append, List.cons_append, hn, hlen, if_false]
    rw [this]

/-! ### the record semantics -/

theorem semAll_append (m : Sem) (a b : List Rec) : semAll m (a ++ b) = semAll (semAll m a) b := by
  simp [semAll, List.foldl_append]

theorem stepRec_dead (m : Sem) (r : Rec) (h : (m.failed || m.closed) = true) : stepRec m r = m := by
  simp [stepRec, h]

theorem semAll_dead (rs : List Rec) : ∀ m : Sem, (m.failed || m.closed) = true → semAll m rs = m := by
  induction rs with
  | nil => intro m _; rfl
  | cons r rs ih => intro m h; simp only [semAll, List.foldl_cons] at *; rw [stepRec_dead m r h]; exact ih m h

theorem stepRec_plain (m : Sem) (r : Rec) : ∃ t, (stepRec m r).plain = m.plain ++ t := by
  unfold stepRec
  split
  · exact ⟨[], by simp⟩
  · split
    · split
      · split <;> exact ⟨[], by simp⟩
      · split <;> exact ⟨[], by simp⟩
    · split
      · exact ⟨r.2, rfl⟩
      · split
        · exact ⟨[], by simp⟩
        · split <;> exact ⟨[], by simp⟩

theorem semAll_plain (rs : List Rec) : ∀ m : Sem, ∃ t, (semAll m rs).plain = m.plain ++ t := by
  induction rs with
  | nil => intro m; exact ⟨[], by simp [semAll]⟩
  | cons r rs ih =>
    intro m
    obtain ⟨t1, h1⟩ := stepRec_plain m r
    obtain ⟨t2, h2⟩ := ih (stepRec m r)
    exact ⟨t1 ++ t2, by simp only [semAll, List.foldl_cons] at *; rw [h2, h1]; simp⟩

theorem appOf_append (a b : List Rec) : appOf (a ++ b) = appOf a ++ appOf b := by
  induction a with
  | nil => simp [appOf]
  | cons x xs ih => simp [appOf, ih]

theorem appOf_chunkRecs : ∀ (fuel : Nat) (d : Bytes), d.length < fuel → appOf (chunkRecs fuel d) = d
    ∧ ∀ r ∈ chunkRecs fuel d, r.2.length < 65536 := by
  intro fuel
  induction fuel with
  | zero => intro d h; omega
  | succ n ih =>
    intro d h
    unfold chunkRecs
    by_cases hd : d.isEmpty = true
    · have : d = [] := by simpa using hd
      subst this; simp [appOf]
    · simp only [hd, Bool.false_eq_true, if_false]
      have hne : d ≠ [] := by simpa using hd
      have hpos : 0 < d.length := List.length_pos_iff.mpr hne
      obtain ⟨i1, i2⟩ := ih (d.drop 16384) (by simp only [List.length_drop]; omega)
      refine ⟨by simp [appOf, i1], ?_⟩
      intro r hr
      simp only [List.mem_cons] at hr
      rcases hr with hr | hr
      · subst hr; simp only [List.length_take]; omega
      · exact i2 r hr

/-! ### one record step -/

theorem stepRec_pre_plain (m : Sem) (r : Rec) (h : m.est = false) : (stepRec m r).plain = m.plain := by
  unfold stepRec
  split
  · rfl
  · simp only [h, Bool.not_false, if_true]
    split
    · split <;> rfl
    · split <;> rfl

theorem stepRec_est (m : Sem) (r : Rec) (he : m.est = true) (hf : m.failed = false) (hc : m.closed = false) :
    (stepRec m r).est = true ∧ (stepRec m r).plain = m.plain ++ (if r.1 = 0x17 then r.2 else []) := by
  unfold stepRec
  simp only [hf, hc, he, Bool.or_self, Bool.false_eq_true, if_false, Bool.not_true]
  split
  · exact ⟨rfl, rfl⟩
  · split
    · exact ⟨rfl, by simp⟩
    · split
      · exact ⟨he, by simp⟩
      · exact ⟨rfl, by simp⟩

/-! ### the two loops -/

theorem hsGo_spec : ∀ (rs c : List Rec) (m : Sem), m.est = false → semAll {} c = m →
    (hsGo m rs c).2.2.2 ++ (hsGo m rs c).2.2.1 = c ++ rs
    ∧ semAll {} (hsGo m rs c).2.2.2 = (hsGo m rs c).2.1
    ∧ (hsGo m rs c).2.1.plain = m.plain := by
  intro rs
  induction rs with
  | nil => intro c m _ hs; simp [hsGo, hs]
  | cons r rs ih =>
    intro c m he hs
    have hstep : semAll {} (c ++ [r]) = stepRec m r := by rw [semAll_append, hs]; rfl
    have hpl := stepRec_pre_plain m r he
    unfold hsGo
    simp only []
    split
    · exact ⟨by simp, hstep, hpl⟩
    · split
      · exact ⟨by simp, hstep, hpl⟩
      · rename_i hne _
        obtain ⟨a1, a2, a3⟩ := ih (c ++ [r]) (stepRec m r) (by simpa using hne) hstep
        exact ⟨by rw [a1]; simp, a2, by rw [a3, hpl]⟩

theorem recvGo_spec : ∀ (rs c : List Rec) (m : Sem), m.est = true → m.failed = false → m.closed = false → semAll {} c = m →
    (recvGo m rs c).2.2.2 ++ (recvGo m rs c).2.2.1 = c ++ rs
    ∧ semAll {} (recvGo m rs c).2.2.2 = (recvGo m rs c).2.1
    ∧ (∀ d, (recvGo m rs c).1 = .data d → d ≠ [] ∧ (recvGo m rs c).2.1.plain = m.plain ++ d
          ∧ (recvGo m rs c).2.2.1.length < rs.length)
    ∧ ((∀ d, (recvGo m rs c).1 ≠ .data d) → (recvGo m rs c).2.1.plain = m.plain)
    ∧ ((recvGo m rs c).1 = .wantRead → (recvGo m rs c).2.2.1 = [] ∧ (recvGo m rs c).2.1.closed = false)
    ∧ ((recvGo m rs c).1 = .zeroReturn → (recvGo m rs c).2.1.closed = true) := by
  intro rs
  induction rs with
  | nil => intro c m _ _ hc hs; simp [recvGo, hs, hc]
  | cons r rs ih =>
    intro c m he hf hc hs
    have hstep : semAll {} (c ++ [r]) = stepRec m r := by rw [semAll_append, hs]; rfl
    obtain ⟨se, sp⟩ := stepRec_est m r he hf hc
    -- facts about the single step, by the kind of record
    have hfail_plain : (stepRec m r).failed = true → (stepRec m r).plain = m.plain := by
      intro hfail
      rw [sp]
      unfold stepRec at hfail
      simp only [hf, hc, he, Bool.or_self, Bool.false_eq_true, if_false, Bool.not_true] at hfail
      split at hfail
      · simp [hf] at hfail
      · rename_i h17; simp [h17]
    have hclosed_plain : (stepRec m r).closed = true → (stepRec m r).plain = m.plain := by
      intro hcl
      rw [sp]
      unfold stepRec at hcl
      simp only [hf, hc, he, Bool.or_self, Bool.false_eq_true, if_false, Bool.not_true] at hcl
      split at hcl
      · simp [hc] at hcl
      · rename_i h17; simp [h17]
    unfold recvGo
    simp only []
    by_cases h1 : (stepRec m r).failed = true
    · rw [if_pos h1]
      refine ⟨by simp, hstep, ?_, ?_, ?_, ?_⟩
      · intro d h; cases h
      · intro _; exact hfail_plain h1
      · intro h; cases h
      · intro h; cases h
    · rw [if_neg h1]
      by_cases h2 : (stepRec m r).closed = true
      · rw [if_pos h2]
        refine ⟨by simp, hstep, ?_, ?_, ?_, ?_⟩
        · intro d h; cases h
        · intro _; exact hclosed_plain h2
        · intro h; cases h
        · intro _; exact h2
      · rw [if_neg h2]
        by_cases h3 : (decide (r.1 = 0x17) && !r.2.isEmpty) = true
        · rw [if_pos h3]
          simp only [Bool.and_eq_true, decide_eq_true_eq, Bool.not_eq_true'] at h3
          refine ⟨by simp, hstep, ?_, ?_, ?_, ?_⟩
          · intro d h
            simp only [RecvRes.data.injEq] at h
            subst h
            refine ⟨?_, ?_, ?_⟩
            · intro h0; rw [h0] at h3; simp at h3
            · rw [sp]; simp [h3.1]
            · simp
          · intro h; exact absurd rfl (h r.2)
          · intro h; cases h
          · intro h; cases h
        · rw [if_neg h3]
          have hpl : (stepRec m r).plain = m.plain := by
            rw [sp]
            by_cases h17 : r.1 = 0x17
            · simp only [h17, if_true]
              simp only [h17, decide_true, Bool.true_and, Bool.not_eq_true', Bool.not_eq_false'] at h3
              have : r.2 = [] := by simpa using h3
              rw [this]; simp
            · simp [h17]
          obtain ⟨a1, a2, a3, a4, a5, a6⟩ := ih (c ++ [r]) (stepRec m r) se (by simpa using h1) (by simpa using h2) hstep
          refine ⟨by rw [a1]; simp, a2, ?_, ?_, a5, a6⟩
          · intro d h
            obtain ⟨b1, b2, b3⟩ := a3 d h
            exact ⟨b1, by rw [b2, hpl], by simp only [List.length_cons]; omega⟩
          · intro h; rw [a4 h, hpl]

/-! ### the operations keep the consistency invariant -/

theorem inv_init (c : Bool) : Inv ({ client := c } : G) :=
  ⟨rfl, rfl, rfl, rfl, fun r h => by simp at h⟩

theorem inv_feed (g : G) (x : Bytes) (h : Inv g) : Inv (feed g x) := by
  refine ⟨?_, h.sem, h.eframe, h.app, h.small⟩
  simp only [feed]
  rw [frameAll_append, h.frame]
  simp [List.append_assoc]

theorem appOf_hs (q : List Rec) (b : UInt8) : appOf (q ++ [(0x16, [b])]) = appOf q := by
  rw [appOf_append]; simp [appOf]

theorem inv_pushHs (g : G) (b : UInt8) (h : Inv g) : Inv (pushHs g b) := by
  refine ⟨h.frame, h.sem, h.eframe, ?_, ?_⟩
  · simp only [pushHs]; rw [appOf_hs]; exact h.app
  · intro r hr
    simp only [pushHs, List.mem_append, List.mem_singleton] at hr
    rcases hr with hr | hr
    · exact h.small r hr
    · subst hr; simp

theorem inv_setLoop (g : G) (m : Sem) (rs c : List Rec) (h : Inv g) (h1 : c ++ rs = g.consumed ++ g.inRecs)
    (h2 : semAll {} c = m) : Inv (setLoop g m rs c) := by
  refine ⟨?_, h2, h.eframe, h.app, h.small⟩
  simp only [setLoop]; rw [h1]; exact h.frame

theorem inv_hello (g : G) (h : Inv g) :
    Inv (if (g.client && !g.helloSent) = true then pushHs { g with helloSent := true } 0 else g) := by
  split
  · exact inv_pushHs _ 0 ⟨h.frame, h.sem, h.eframe, h.app, h.small⟩
  · exact h

/-- the optional ClientHello only touches the output queue -/
theorem hello_same (g : G) : ∀ g1, g1 = (if (g.client && !g.helloSent) = true then pushHs { g with helloSent := true } 0 else g) →
    g1.m = g.m ∧ g1.inRecs = g.inRecs ∧ g1.consumed = g.consumed ∧ g1.fed = g.fed ∧ g1.sent = g.sent ∧ g1.emitted = g.emitted := by
  intro g1 hg1; subst hg1; split <;> exact ⟨rfl, rfl, rfl, rfl, rfl, rfl⟩

theorem inv_handshake (g : G) (h : Inv g) : Inv (handshake g).2 := by
  unfold handshake
  split
  · exact h
  · split
    · exact h
    · rename_i hnf hne
      have hest : g.m.est = false := by simpa using hne
      have h1 := inv_hello g h
      generalize hg1 : (if (g.client && !g.helloSent) = true then pushHs { g with helloSent := true } 0 else g) = g1 at h1
      have hm1 := hello_same g g1 hg1.symm
      obtain ⟨a1, a2, _⟩ := hsGo_spec g1.inRecs g1.consumed g1.m (by rw [hm1.1]; exact hest) h1.sem
      have h2 := inv_setLoop g1 _ _ _ h1 a1 a2
      simp only []
      split
      · exact inv_pushHs _ 1 h2
      · exact h2

theorem inv_recv (g : G) (h : Inv g) : Inv (recv g).2 := by
  unfold recv
  split
  · exact h
  · split
    · exact h
    · rename_i h1 h2
      simp only [Bool.or_eq_true, Bool.not_eq_true', not_or, Bool.not_eq_true, Bool.not_eq_false] at h1
      obtain ⟨a1, a2, _⟩ := recvGo_spec g.inRecs g.consumed g.m h1.2 h1.1 (by simpa using h2) h.sem
      exact inv_setLoop g _ _ _ h a1 a2

theorem inv_send (g : G) (d : Bytes) (h : Inv g) : Inv (send g d).2 := by
  unfold send
  split
  · exact h
  · obtain ⟨c1, c2⟩ := appOf_chunkRecs (d.length + 1) d (by omega)
    refine ⟨h.frame, h.sem, h.eframe, ?_, ?_⟩
    · simp only []; rw [appOf_append, c1, ← List.append_assoc, h.app]
    · intro r hr
      simp only [List.mem_append] at hr
      rcases hr with hr | hr
      · exact h.small r hr
      · exact c2 r hr

theorem inv_out (g : G) (h : Inv g) : Inv (out g).2 := by
  unfold out
  split
  · exact h
  · rename_i r rs hq
    have hsm : r.2.length < 65536 := h.small r (by rw [hq]; simp)
    refine ⟨h.frame, h.sem, ?_, ?_, ?_⟩
    · simp only []
      rw [frameAll_append, h.eframe]
      simp only []
      rw [frame_encode r hsm]
    · simp only []
      rw [appOf_append, ← h.app, hq]
      simp [appOf, List.append_assoc]
    · intro r' hr'; exact h.small r' (by rw [hq]; simp [hr'])

/-! ### the codec over consistent states, and its laws -/

abbrev S := { g : G // Inv g }

def refCodec : Codec where
  σ := S
  feed := fun s x => ⟨feed s.1 x, inv_feed s.1 x s.2⟩
  recv := fun s => ((recv s.1).1, ⟨(recv s.1).2, inv_recv s.1 s.2⟩)
  send := fun s d => ((send s.1 d).1, ⟨(send s.1 d).2, inv_send s.1 d s.2⟩)
  out := fun s => ((out s.1).1, ⟨(out s.1).2, inv_out s.1 s.2⟩)
  handshake := fun s => ((handshake s.1).1, ⟨(handshake s.1).2, inv_handshake s.1 s.2⟩)
  gotShutdown := fun s => s.1.m.closed
  inPending := fun s => s.1.inRecs.length
  outPending := fun s => s.1.outq.length

/-- the connection object a tls_start hook would hand over -/
def refInit (client : Bool) : S := ⟨{ client := client }, inv_init client⟩

/-- the session's reading of everything fed, in terms of the current state -/
theorem dec_of_inv (g : G) (h : Inv g) : dec g.fed = ((semAll g.m g.inRecs).plain, (semAll g.m g.inRecs).closed) := by
  unfold dec
  simp only [h.frame]
  rw [semAll_append, h.sem]

theorem recv_facts (g : G) (h : Inv g) :
    (recv g).2.fed = g.fed ∧ (recv g).2.sent = g.sent ∧ (recv g).2.emitted = g.emitted
    ∧ (∀ d, (recv g).1 = .data d → (recv g).2.m.plain = g.m.plain ++ d ∧ d ≠ []
          ∧ (∃ t, (semAll g.m g.inRecs).plain = g.m.plain ++ d ++ t) ∧ (recv g).2.inRecs.length < g.inRecs.length)
    ∧ ((∀ d, (recv g).1 ≠ .data d) → (recv g).2.m.plain = g.m.plain)
    ∧ ((recv g).1 = .wantRead → (semAll g.m g.inRecs).plain = g.m.plain ∧ (semAll g.m g.inRecs).closed = false)
    ∧ ((recv g).1 = .zeroReturn → (semAll g.m g.inRecs).plain = g.m.plain ∧ (semAll g.m g.inRecs).closed = true) := by
  unfold recv
  by_cases h1 : (g.m.failed || !g.m.est) = true
  · rw [if_pos h1]
    refine ⟨rfl, rfl, rfl, ?_, ?_, ?_, ?_⟩
    · intro d hd; cases hd
    · intro _; rfl
    · intro hd; cases hd
    · intro hd; cases hd
  · rw [if_neg h1]
    simp only [Bool.or_eq_true, Bool.not_eq_true', not_or, Bool.not_eq_true, Bool.not_eq_false] at h1
    by_cases h2 : g.m.closed = true
    · rw [if_pos h2]
      refine ⟨rfl, rfl, rfl, ?_, ?_, ?_, ?_⟩
      · intro d hd; cases hd
      · intro _; rfl
      · intro hd; cases hd
      · intro _
        rw [semAll_dead g.inRecs g.m (by simp [h2])]
        exact ⟨rfl, h2⟩
    · rw [if_neg h2]
      have hc : g.m.closed = false := by simpa using h2
      obtain ⟨a1, a2, a3, a4, a5, a6⟩ := recvGo_spec g.inRecs g.consumed g.m h1.2 h1.1 hc h.sem
      -- what is left to read continues from the new session state
      have hcont : semAll g.m g.inRecs = semAll (recvGo g.m g.inRecs g.consumed).2.1 (recvGo g.m g.inRecs g.consumed).2.2.1 := by
        have := congrArg (semAll {}) a1
        rw [semAll_append, semAll_append, a2, h.sem] at this
        exact this.symm
      refine ⟨rfl, rfl, rfl, ?_, ?_, ?_, ?_⟩
      · intro d hd
        obtain ⟨b1, b2, b3⟩ := a3 d hd
        obtain ⟨t, ht⟩ := semAll_plain (recvGo g.m g.inRecs g.consumed).2.2.1 (recvGo g.m g.inRecs g.consumed).2.1
        exact ⟨b2, b1, ⟨t, by rw [hcont, ht, b2]⟩, b3⟩
      · intro hd; exact a4 hd
      · intro hd
        obtain ⟨c1, c2⟩ := a5 hd
        rw [hcont, c1]
        exact ⟨a4 (by intro d hdd; rw [hd] at hdd; cases hdd), c2⟩
      · intro hd
        have hcl := a6 hd
        rw [hcont, semAll_dead _ _ (by simp [hcl])]
        exact ⟨a4 (by intro d hdd; rw [hd] at hdd; cases hdd), hcl⟩

theorem handshake_facts (g : G) (h : Inv g) :
    (handshake g).2.fed = g.fed ∧ (handshake g).2.m.plain = g.m.plain ∧ (handshake g).2.sent = g.sent
    ∧ (handshake g).2.emitted = g.emitted := by
  unfold handshake
  split
  · exact ⟨rfl, rfl, rfl, rfl⟩
  · split
    · exact ⟨rfl, rfl, rfl, rfl⟩
    · rename_i hnf hne
      have hest : g.m.est = false := by simpa using hne
      have h1 := inv_hello g h
      generalize hg1 : (if (g.client && !g.helloSent) = true then pushHs { g with helloSent := true } 0 else g) = g1 at h1
      obtain ⟨m1, _, _, m4, m5, m6⟩ := hello_same g g1 hg1.symm
      obtain ⟨_, _, a3⟩ := hsGo_spec g1.inRecs g1.consumed g1.m (by rw [m1]; exact hest) h1.sem
      simp only []
      split <;> exact ⟨m4, by simp only [pushHs, setLoop]; rw [a3, m1], m5, m6⟩

def refLaws : Laws refCodec where
  fed := fun s => s.1.fed
  taken := fun s => s.1.m.plain.length
  sent := fun s => s.1.sent
  emitted := fun s => s.1.emitted
  dec := dec
  enc := enc
  dec_mono := by
    intro a b
    unfold dec
    simp only []
    rw [frameAll_append]
    simp only []
    rw [semAll_append]
    exact semAll_plain _ _
  enc_nil := rfl
  feed_fed := fun _ _ => rfl
  feed_taken := fun _ _ => rfl
  feed_out := fun _ _ => ⟨rfl, rfl⟩
  recv_in := fun s => (recv_facts s.1 s.2).1
  recv_out := fun s => ⟨(recv_facts s.1 s.2).2.1, (recv_facts s.1 s.2).2.2.1⟩
  recv_data := by
    intro s d hd
    obtain ⟨_, _, _, f4, _, _, _⟩ := recv_facts s.1 s.2
    obtain ⟨b1, _, ⟨t, ht⟩, b4⟩ := f4 d hd
    refine ⟨by show (recv s.1).2.m.plain.length = _; rw [b1]; simp, ⟨t, ?_⟩, b4⟩
    show (dec s.1.fed).1.drop s.1.m.plain.length = d ++ t
    rw [dec_of_inv s.1 s.2]
    simp only []
    rw [ht, List.append_assoc, List.drop_left]
  recv_nodata := by
    intro s hnd
    obtain ⟨_, _, _, _, f5, _, _⟩ := recv_facts s.1 s.2
    show (recv s.1).2.m.plain.length = _
    rw [f5 hnd]
  recv_want := by
    intro s hw
    obtain ⟨_, _, _, _, _, f6, _⟩ := recv_facts s.1 s.2
    obtain ⟨c1, c2⟩ := f6 hw
    show s.1.m.plain.length = (dec s.1.fed).1.length ∧ (dec s.1.fed).2 = false
    rw [dec_of_inv s.1 s.2]
    exact ⟨by simp only []; rw [c1], c2⟩
  recv_zero := by
    intro s hz
    obtain ⟨_, _, _, _, _, _, f7⟩ := recv_facts s.1 s.2
    obtain ⟨c1, c2⟩ := f7 hz
    show s.1.m.plain.length = (dec s.1.fed).1.length ∧ (dec s.1.fed).2 = true
    rw [dec_of_inv s.1 s.2]
    exact ⟨by simp only []; rw [c1], c2⟩
  send_in := by
    intro s d
    show (send s.1 d).2.fed = s.1.fed ∧ (send s.1 d).2.m.plain.length = s.1.m.plain.length
    unfold send; split <;> exact ⟨rfl, rfl⟩
  send_out := by
    intro s d
    show (send s.1 d).2.emitted = s.1.emitted ∧ (send s.1 d).2.sent = (if (send s.1 d).1 then s.1.sent ++ d else s.1.sent)
    unfold send; split <;> simp
  out_in := by
    intro s
    show (out s.1).2.fed = s.1.fed ∧ (out s.1).2.m.plain.length = s.1.m.plain.length
    unfold out; split <;> exact ⟨rfl, rfl⟩
  out_some := by
    intro s c hc
    show (out s.1).2.emitted = s.1.emitted ++ c ∧ (out s.1).2.sent = s.1.sent ∧ (out s.1).2.outq.length < s.1.outq.length
    have hc' : (out s.1).1 = some c := hc
    unfold out at hc' ⊢
    split at hc'
    · cases hc'
    · rename_i r rs hq
      simp only [Option.some.injEq] at hc'
      subst hc'
      simp [hq]
  out_none := by
    intro s hn
    show (out s.1).2.emitted = s.1.emitted ∧ (out s.1).2.sent = s.1.sent ∧ enc s.1.emitted = s.1.sent
    have hn' : (out s.1).1 = none := hn
    unfold out at hn' ⊢
    split at hn'
    · rename_i hq
      refine ⟨by simp [hq], by simp [hq], ?_⟩
      unfold enc
      rw [s.2.eframe]
      have := s.2.app
      rw [hq] at this
      simpa [appOf] using this
    · cases hn'
  hs_in := fun s => ⟨(handshake_facts s.1 s.2).1, by
    show (handshake s.1).2.m.plain.length = _
    rw [(handshake_facts s.1 s.2).2.1]⟩
  hs_out := fun s => ⟨(handshake_facts s.1 s.2).2.2.1, (handshake_facts s.1 s.2).2.2.2⟩

/-- the object the hook hands over is fresh -/
theorem refInit_fresh (client : Bool) :
    refLaws.fed (refInit client) = [] ∧ refLaws.taken (refInit client) = 0 ∧ refLaws.sent (refInit client) = []
    ∧ refLaws.emitted (refInit client) = [] := ⟨rfl, rfl, rfl, rfl⟩

end MitmVerif.C14.RefL
