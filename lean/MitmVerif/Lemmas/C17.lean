/-
  C17 — helper lemmas: association-list facts, the store invariant and its preservation.
-/
import MitmVerif.Model.C17
namespace MitmVerif.C17

variable {org crl : Option Bytes}

/-! ### dict lemmas -/

theorem filter_and_le {α : Type} (P Q : α → Bool) (l : List α) :
    (l.filter (fun p => P p && Q p)).length ≤ (l.filter P).length := by
  induction l with
  | nil => simp
  | cons p l ih =>
    cases hp : P p <;> cases hq : Q p <;> simp [List.filter, hp, hq] <;> omega

theorem filter_and_lt {α : Type} (P Q : α → Bool) (l : List α) (x : α) (hx : x ∈ l) (hP : P x = true)
    (hQ : Q x = false) : (l.filter (fun p => P p && Q p)).length + 1 ≤ (l.filter P).length := by
  induction l with
  | nil => simp at hx
  | cons p l ih =>
    rcases List.mem_cons.mp hx with h1 | h1
    · subst h1
      have := filter_and_le P Q l
      simp [List.filter, hP, hQ]; omega
    · have := ih h1
      cases hp : P p <;> cases hq : Q p <;> simp [List.filter, hp, hq] <;> omega

theorem lookup_mem {k : Key} {e : Entry} {m : List (Key × Entry)} (h : lookup k m = some e) : (k, e) ∈ m := by
  induction m with
  | nil => simp [lookup] at h
  | cons p rest ih =>
    obtain ⟨k', e'⟩ := p
    simp only [lookup] at h
    split at h
    · rename_i hk; simp at h; subst hk; subst h; simp
    · exact List.mem_cons_of_mem _ (ih h)

theorem lookup_none_not_mem {k : Key} {m : List (Key × Entry)} (h : lookup k m = none) (e : Entry) : (k, e) ∉ m := by
  induction m with
  | nil => simp
  | cons p rest ih =>
    obtain ⟨k', e'⟩ := p
    simp only [lookup] at h
    split at h
    · simp at h
    · rename_i hk
      intro hm
      rcases List.mem_cons.mp hm with h1 | h1
      · simp at h1; exact hk h1.1.symm
      · exact ih h h1

/-- filtering keeps the first match when the first match passes the filter -/
theorem lookup_filter_of_pass {k : Key} {v : Entry} {m : List (Key × Entry)} (P : Key × Entry → Bool)
    (h : lookup k m = some v) (hp : P (k, v) = true) : lookup k (m.filter P) = some v := by
  induction m with
  | nil => simp [lookup] at h
  | cons p rest ih =>
    obtain ⟨k', e'⟩ := p
    simp only [lookup] at h
    by_cases hk : k' = k
    · subst hk
      simp at h; subst h
      simp [List.filter, hp, lookup]
    · simp only [hk, if_false] at h
      simp only [List.filter]
      split
      · simp [lookup, hk, ih h]
      · exact ih h

/-- filtering does not change a lookup when every pair under that key passes -/
theorem lookup_filter_of_all {k : Key} {m : List (Key × Entry)} (P : Key × Entry → Bool)
    (hp : ∀ v, (k, v) ∈ m → P (k, v) = true) : lookup k (m.filter P) = lookup k m := by
  induction m with
  | nil => simp [lookup]
  | cons p rest ih =>
    obtain ⟨k', e'⟩ := p
    have ih' := ih (fun v hv => hp v (List.mem_cons_of_mem _ hv))
    by_cases hk : k' = k
    · subst hk
      have := hp e' (by simp)
      simp [List.filter, this, lookup]
    · simp only [List.filter]
      split
      · simp [lookup, hk, ih']
      · simp [lookup, hk, ih']

theorem lookup_setKey (k k0 : Key) (e : Entry) (m : List (Key × Entry)) :
    lookup k (setKey k0 e m) = if k = k0 then some e else lookup k m := by
  unfold setKey
  by_cases hk : k = k0
  · subst hk; simp [lookup]
  · have hk' : ¬ k0 = k := fun h => hk h.symm
    simp only [lookup, hk, hk', if_false]
    apply lookup_filter_of_all
    intro v _
    simpa using hk

theorem mem_setKey {k k0 : Key} {v e : Entry} {m : List (Key × Entry)} :
    (k, v) ∈ setKey k0 e m ↔ (k = k0 ∧ v = e) ∨ ((k, v) ∈ m ∧ k ≠ k0) := by
  unfold setKey
  simp [List.mem_filter]

theorem setKey_of_lookup_none {k0 : Key} {e : Entry} {m : List (Key × Entry)} (h : lookup k0 m = none) :
    setKey k0 e m = (k0, e) :: m := by
  unfold setKey
  congr 1
  apply List.filter_eq_self.mpr
  intro p hp
  obtain ⟨k, v⟩ := p
  simp only [decide_eq_true_eq]
  intro hk
  subst hk
  exact lookup_none_not_mem h v hp

theorem firstHit_some {m : List (Key × Entry)} {ks : List Key} {e : Entry} (h : firstHit m ks = some e) :
    ∃ k ∈ ks, lookup k m = some e := by
  induction ks with
  | nil => simp [firstHit] at h
  | cons k ks ih =>
    simp only [firstHit] at h
    split at h
    · rename_i e' he; simp at h; subst h; exact ⟨k, by simp, he⟩
    · obtain ⟨k', hk', hl⟩ := ih h; exact ⟨k', List.mem_cons_of_mem _ hk', hl⟩

theorem firstHit_none {m : List (Key × Entry)} {ks : List Key} (h : firstHit m ks = none) :
    ∀ k ∈ ks, lookup k m = none := by
  induction ks with
  | nil => simp
  | cons k ks ih =>
    simp only [firstHit] at h
    split at h
    · simp at h
    · rename_i hk
      intro k' hk'
      rcases List.mem_cons.mp hk' with h1 | h1
      · subst h1; exact hk
      · exact ih h k' h1

theorem firstHit_append (m : List (Key × Entry)) (a b : List Key) :
    firstHit m (a ++ b) = match firstHit m a with | some e => some e | none => firstHit m b := by
  induction a with
  | nil => simp [firstHit]
  | cons k ks ih =>
    simp only [List.cons_append, firstHit]
    split <;> simp [ih]

theorem firstHit_congr {m m' : List (Key × Entry)} {ks : List Key}
    (h : ∀ k ∈ ks, lookup k m = lookup k m') : firstHit m ks = firstHit m' ks := by
  induction ks with
  | nil => simp [firstHit]
  | cons k ks ih =>
    simp only [firstHit]
    rw [h k (by simp), ih (fun k' hk' => h k' (List.mem_cons_of_mem _ hk'))]

/-! ### asterisk_forms -/

/-- the store's wildcard rule: `n` is the name itself, or `*.` followed by what comes after one of its dots -/
def Wild (n c : Bytes) : Prop := n = c ∨ ∃ p suf, c = p ++ dot :: suf ∧ n = star :: dot :: suf

theorem mem_stars_iff (n c : Bytes) : n ∈ stars c ↔ ∃ p suf, c = p ++ dot :: suf ∧ n = star :: dot :: suf := by
  induction c with
  | nil => simp [stars]
  | cons x rest ih =>
    simp only [stars]
    constructor
    · intro h
      by_cases hx : x = dot
      · simp only [hx, if_true] at h
        rcases List.mem_cons.mp h with h1 | h1
        · exact ⟨[], rest, by simp [hx], h1⟩
        · obtain ⟨p, suf, hc, hn⟩ := ih.mp h1
          exact ⟨dot :: p, suf, by simp [hx, hc], hn⟩
      · simp only [hx, if_false] at h
        obtain ⟨p, suf, hc, hn⟩ := ih.mp h
        exact ⟨x :: p, suf, by simp [hc], hn⟩
    · rintro ⟨p, suf, hc, hn⟩
      cases p with
      | nil =>
        simp at hc
        obtain ⟨hx, hr⟩ := hc
        subst hx; subst hr
        simp [hn]
      | cons y p' =>
        simp at hc
        obtain ⟨_, hr⟩ := hc
        have : n ∈ stars rest := ih.mpr ⟨p', suf, hr, hn⟩
        split
        · exact List.mem_cons_of_mem _ this
        · exact this

theorem mem_formsStr_iff (n c : Bytes) : n ∈ formsStr c ↔ Wild n c := by
  simp [formsStr, Wild, mem_stars_iff]

/-! ### the invariant -/

/-- everything that holds of a reachable store except the capacity bound -/
structure Inv0 (s : Store) : Prop where
  /-- name keys hold custom entries; a generated key holds the generated entry made for exactly that key,
      and that entry is still in the expire queue -/
  certs_ok : ∀ k e, (k, e) ∈ s.certs →
    match k with
    | .name _ => e.custom = true
    | .gen cn sans => e.custom = false ∧ e.cn = cn ∧ e.sans = sans ∧ e ∈ s.queue
  /-- every queued entry is generated, has an id below the counter and is served under its own key -/
  queue_ok : ∀ e ∈ s.queue, e.custom = false ∧ e.id < s.next ∧ lookup (.gen e.cn e.sans) s.certs = some e
  /-- the queue is in creation order -/
  sorted : s.queue.Pairwise (fun a b => a.id < b.id)
  /-- no more generated keys than queued entries -/
  count : genKeyCount s ≤ s.queue.length

def Inv (cap : Nat) (s : Store) : Prop := Inv0 s ∧ s.queue.length ≤ cap

theorem inv0_empty : Inv0 Store.empty := by
  constructor <;> simp [Store.empty, genKeyCount]

theorem inv_empty (cap : Nat) : Inv cap Store.empty := ⟨inv0_empty, by simp [Store.empty]⟩

/-- registering a custom entry under one name keeps the invariant -/
theorem inv0_setName {s : Store} (h : Inv0 s) (n : Bytes) (e : Entry) (he : e.custom = true) :
    Inv0 { s with certs := setKey (.name n) e s.certs } := by
  constructor
  · intro k v hkv
    rcases mem_setKey.mp hkv with ⟨hk, hv⟩ | ⟨hm, _⟩
    · subst hk; subst hv; exact he
    · exact h.certs_ok k v hm
  · intro q hq
    obtain ⟨h1, h2, h3⟩ := h.queue_ok q hq
    refine ⟨h1, h2, ?_⟩
    simp only [lookup_setKey]
    simp [h3]
  · exact h.sorted
  · have hc := h.count
    have : genKeyCount { s with certs := setKey (.name n) e s.certs } = genKeyCount s := by
      unfold genKeyCount setKey
      simp only [List.filter, he, Bool.not_true]
      congr 1
      rw [List.filter_filter]
      apply List.filter_congr
      intro p hp
      obtain ⟨k, v⟩ := p
      by_cases hv : v.custom = true
      · simp [hv]
      · have hk := h.certs_ok k v hp
        cases k with
        | name n' => simp [hk] at hv
        | gen cn sans => simp
    simp only [this]; exact hc

theorem inv0_setAll {s : Store} (h : Inv0 s) (e : Entry) (he : e.custom = true) (ns : List Bytes) :
    Inv0 { s with certs := setAll e s.certs ns } := by
  induction ns generalizing s with
  | nil => simpa [setAll] using h
  | cons n ns ih =>
    simp only [setAll]
    exact ih (s := { s with certs := setKey (.name n) e s.certs }) (inv0_setName h n e he)

/-- a fresh generated entry is stored under its (unused) key and appended to the queue -/
theorem inv0_push {s : Store} (h : Inv0 s) (cn : Option Bytes) (sans : List San) (org crl : Option Bytes)
    (hnone : lookup (.gen cn sans) s.certs = none) :
    Inv0 { certs := setKey (.gen cn sans) ⟨false, s.next, cn, sans, org, crl⟩ s.certs,
           queue := s.queue ++ [⟨false, s.next, cn, sans, org, crl⟩], next := s.next + 1 } := by
  constructor
  · intro k v hkv
    rcases mem_setKey.mp hkv with ⟨hk, hv⟩ | ⟨hm, _⟩
    · subst hk; subst hv; simp
    · have := h.certs_ok k v hm
      cases k with
      | name n => exact this
      | gen c ss => exact ⟨this.1, this.2.1, this.2.2.1, List.mem_append_left _ this.2.2.2⟩
  · intro q hq
    rcases List.mem_append.mp hq with hq | hq
    · obtain ⟨h1, h2, h3⟩ := h.queue_ok q hq
      refine ⟨h1, by simp only; omega, ?_⟩
      simp only [lookup_setKey]
      split
      · rename_i heq
        rw [heq, hnone] at h3; simp at h3
      · exact h3
    · simp at hq; subst hq
      simp [lookup_setKey]
  · rw [List.pairwise_append]
    refine ⟨h.sorted, by simp, ?_⟩
    intro a ha b hb
    simp at hb; subst hb
    exact (h.queue_ok a ha).2.1
  · have hc := h.count
    rw [setKey_of_lookup_none hnone]
    simp only [genKeyCount, List.filter, Bool.not_false, List.length_cons, List.length_append, List.length_nil] at hc ⊢
    omega

/-- `expire` drops the oldest entry and everything stored for it -/
theorem inv0_pop {m : List (Key × Entry)} {d : Entry} {rest : List Entry} {n : Nat}
    (h : Inv0 { certs := m, queue := d :: rest, next := n }) :
    Inv0 { certs := m.filter (fun p => decide (p.2 ≠ d)), queue := rest, next := n } := by
  have hsorted := h.sorted
  simp only [List.pairwise_cons] at hsorted
  have hne : ∀ q ∈ rest, q ≠ d := by
    intro q hq heq; subst heq
    exact Nat.lt_irrefl _ (hsorted.1 q hq)
  constructor
  · intro k v hkv
    simp only [List.mem_filter, decide_eq_true_eq] at hkv
    have := h.certs_ok k v hkv.1
    cases k with
    | name n => exact this
    | gen c ss =>
      refine ⟨this.1, this.2.1, this.2.2.1, ?_⟩
      rcases List.mem_cons.mp this.2.2.2 with h1 | h1
      · exact absurd h1 hkv.2
      · exact h1
  · intro q hq
    obtain ⟨h1, h2, h3⟩ := h.queue_ok q (List.mem_cons_of_mem _ hq)
    refine ⟨h1, h2, ?_⟩
    exact lookup_filter_of_pass _ h3 (by simpa using hne q hq)
  · exact hsorted.2
  · have hc := h.count
    obtain ⟨hd1, _, hd3⟩ := h.queue_ok d (by simp)
    have hmem := lookup_mem hd3
    simp only [genKeyCount, List.length_cons] at hc ⊢
    rw [List.filter_filter]
    -- one generated pair (the one holding `d`) disappears
    have := filter_and_lt (fun p : Key × Entry => !p.2.custom) (fun p => decide (p.2 ≠ d)) m _ hmem
      (by simp [hd1]) (by simp)
    omega

theorem inv_getCert {cap : Nat} {s : Store} (h : Inv cap s) (ok : Bool) (cn : Option Bytes) (sans : List San) :
    Inv cap (getCert cap ok s cn sans org crl).1 := by
  unfold getCert
  split
  · exact h
  · rename_i hnone
    split
    · have hg : lookup (.gen cn sans) s.certs = none :=
        firstHit_none hnone _ (by simp [potentialKeys])
      have hpush := inv0_push h.1 cn sans org crl hg
      simp only [expire]
      split
      · rename_i heq; simp at heq
      · rename_i d rest heq
        split
        · rename_i hlen
          rw [heq] at hpush
          refine ⟨inv0_pop hpush, ?_⟩
          have : (s.queue ++ [(⟨false, s.next, cn, sans, org, crl⟩ : Entry)]).length = (d :: rest).length := by rw [heq]
          have hq := h.2
          simp at this ⊢; omega
        · rename_i hlen
          rw [heq] at hpush
          exact ⟨hpush, by simpa using Nat.le_of_not_lt hlen⟩
    · exact h

theorem inv_addCert {cap : Nat} {s : Store} (h : Inv cap s) (id : Nat) (cn : Option Bytes) (sans : List San)
    (names : List Bytes) : Inv cap (addCert s id cn sans names) := by
  unfold addCert
  exact ⟨inv0_setAll h.1 _ rfl _, h.2⟩

theorem inv_step {cap : Nat} {s : Store} (h : Inv cap s) (op : Op) : Inv cap (step cap s op).1 := by
  cases op with
  | get ok cn sans org crl => exact inv_getCert h ok cn sans
  | add id cn sans names => exact inv_addCert h id cn sans names

theorem inv_run {cap : Nat} {s : Store} (h : Inv cap s) (ops : List Op) : Inv cap (run cap s ops) := by
  induction ops generalizing s with
  | nil => exact h
  | cons op ops ih => exact ih (inv_step h op)

/-! ### case analysis of get_cert -/

def freshEntry (s : Store) (cn : Option Bytes) (sans : List San) (org crl : Option Bytes) : Entry := ⟨false, s.next, cn, sans, org, crl⟩

theorem getCert_cases (cap : Nat) (ok : Bool) (s : Store) (cn : Option Bytes) (sans : List San) (org crl : Option Bytes) :
    (∃ e, firstHit s.certs (potentialKeys cn sans) = some e ∧ getCert cap ok s cn sans org crl = (s, .hit e)) ∨
    (firstHit s.certs (potentialKeys cn sans) = none ∧ ok = false ∧ getCert cap ok s cn sans org crl = (s, .err)) ∨
    (firstHit s.certs (potentialKeys cn sans) = none ∧ ok = true ∧
      ∃ d rest, s.queue ++ [freshEntry s cn sans org crl] = d :: rest ∧
        ((cap < rest.length + 1 ∧ getCert cap ok s cn sans org crl =
            ({ certs := (setKey (.gen cn sans) (freshEntry s cn sans org crl) s.certs).filter (fun p => decide (p.2 ≠ d)),
               queue := rest, next := s.next + 1 }, .fresh (freshEntry s cn sans org crl))) ∨
         (rest.length + 1 ≤ cap ∧ getCert cap ok s cn sans org crl =
            ({ certs := setKey (.gen cn sans) (freshEntry s cn sans org crl) s.certs,
               queue := d :: rest, next := s.next + 1 }, .fresh (freshEntry s cn sans org crl))))) := by
  unfold getCert freshEntry
  cases hf : firstHit s.certs (potentialKeys cn sans) with
  | some e => left; exact ⟨e, rfl, rfl⟩
  | none =>
    right
    cases ok with
    | false => left; simp
    | true =>
      right
      refine ⟨rfl, rfl, ?_⟩
      cases hq : s.queue ++ [(⟨false, s.next, cn, sans, org, crl⟩ : Entry)] with
      | nil => simp at hq
      | cons d rest =>
        refine ⟨d, rest, rfl, ?_⟩
        by_cases hlen : cap < rest.length + 1
        · left; refine ⟨hlen, ?_⟩
          simp [expire, hq, hlen]
        · right; refine ⟨by omega, ?_⟩
          simp [expire, hq, hlen]

/-! ### registrations -/

/-- `e` is a custom certificate that some `add_cert` of the history registered under the name `n` -/
def Registered (ops : List Op) (n : Bytes) (e : Entry) : Prop :=
  ∃ id cn sans names, Op.add id cn sans names ∈ ops ∧ e = ⟨true, id, cn, sans, none, none⟩ ∧ n ∈ addKeys cn sans names

theorem mem_setAll {k : Key} {v e : Entry} {m : List (Key × Entry)} {ns : List Bytes}
    (h : (k, v) ∈ setAll e m ns) : (k, v) ∈ m ∨ (v = e ∧ ∃ n ∈ ns, k = .name n) := by
  induction ns generalizing m with
  | nil => left; simpa [setAll] using h
  | cons n ns ih =>
    simp only [setAll] at h
    rcases ih h with h1 | ⟨hv, n', hn', hk⟩
    · rcases mem_setKey.mp h1 with ⟨hk, hv⟩ | ⟨hm, _⟩
      · right; exact ⟨hv, n, by simp, hk⟩
      · left; exact hm
    · right; exact ⟨hv, n', List.mem_cons_of_mem _ hn', hk⟩

theorem name_mem_getCert {cap : Nat} {ok : Bool} {s : Store} {cn : Option Bytes} {sans : List San} {n : Bytes}
    {e : Entry} (h : (Key.name n, e) ∈ (getCert cap ok s cn sans org crl).1.certs) : (Key.name n, e) ∈ s.certs := by
  rcases getCert_cases cap ok s cn sans org crl with ⟨e', _, hg⟩ | ⟨_, _, hg⟩ | ⟨_, _, d, rest, _, ⟨_, hg⟩ | ⟨_, hg⟩⟩
  · rw [hg] at h; exact h
  · rw [hg] at h; exact h
  · rw [hg] at h
    simp only [List.mem_filter] at h
    rcases mem_setKey.mp h.1 with ⟨hk, _⟩ | ⟨hm, _⟩
    · cases hk
    · exact hm
  · rw [hg] at h
    rcases mem_setKey.mp h with ⟨hk, _⟩ | ⟨hm, _⟩
    · cases hk
    · exact hm

theorem name_mem_step {cap : Nat} {s : Store} {op : Op} {n : Bytes} {e : Entry}
    (h : (Key.name n, e) ∈ (step cap s op).1.certs) : (Key.name n, e) ∈ s.certs ∨ Registered [op] n e := by
  cases op with
  | get ok cn sans org crl => left; exact name_mem_getCert h
  | add id cn sans names =>
    simp only [step, addCert] at h
    rcases mem_setAll h with h1 | ⟨hv, n', hn', hk⟩
    · left; exact h1
    · right
      cases hk
      exact ⟨id, cn, sans, names, by simp, hv, hn'⟩

theorem reg_run (cap : Nat) (ops : List Op) : ∀ (s : Store) (P : Bytes → Entry → Prop),
    (∀ n e, (Key.name n, e) ∈ s.certs → P n e) →
    ∀ n e, (Key.name n, e) ∈ (run cap s ops).certs → P n e ∨ Registered ops n e := by
  induction ops with
  | nil => intro s P h n e hm; left; exact h n e hm
  | cons op ops ih =>
    intro s P h n e hm
    simp only [run] at hm
    have := ih (step cap s op).1 (fun n e => P n e ∨ Registered [op] n e)
      (fun n e hme => by
        rcases name_mem_step hme with h1 | h1
        · left; exact h n e h1
        · right; exact h1) n e hm
    rcases this with (h1 | ⟨id, cn, sans, names, hop, he, hn⟩) | ⟨id, cn, sans, names, hop, he, hn⟩
    · left; exact h1
    · right; exact ⟨id, cn, sans, names, by simp at hop; simp [hop], he, hn⟩
    · right; exact ⟨id, cn, sans, names, List.mem_cons_of_mem _ hop, he, hn⟩

/-! ### get_cert never touches the name keys -/

theorem lookup_name_getCert {cap : Nat} {s : Store} (h : Inv cap s) (ok : Bool) (cn : Option Bytes)
    (sans : List San) (n : Bytes) :
    lookup (.name n) (getCert cap ok s cn sans org crl).1.certs = lookup (.name n) s.certs := by
  rcases getCert_cases cap ok s cn sans org crl with ⟨e', _, hg⟩ | ⟨_, _, hg⟩ | ⟨hnone, _, d, rest, hq, ⟨_, hg⟩ | ⟨_, hg⟩⟩
  · rw [hg]
  · rw [hg]
  · rw [hg]
    have hgk : lookup (.gen cn sans) s.certs = none := firstHit_none hnone _ (by simp [potentialKeys])
    have hpush := inv0_push h.1 cn sans org crl hgk
    show lookup (.name n) ((setKey (.gen cn sans) (freshEntry s cn sans org crl) s.certs).filter
      (fun p => decide (p.2 ≠ d))) = _
    rw [lookup_filter_of_all]
    · simp [lookup_setKey]
    · intro v hv
      have hc : v.custom = true := hpush.certs_ok (.name n) v hv
      have hd : d.custom = false := (hpush.queue_ok d (by
        show d ∈ s.queue ++ [freshEntry s cn sans org crl]
        rw [hq]; simp)).1
      simp only [decide_eq_true_eq]
      intro heq; rw [heq, hd] at hc; cases hc
  · rw [hg]
    simp [lookup_setKey]

def Op.isGet : Op → Bool
  | .get _ _ _ _ _ => true
  | .add _ _ _ _ => false

theorem lookup_name_run {cap : Nat} (mid : List Op) (hmid : ∀ op ∈ mid, op.isGet = true) :
    ∀ {s : Store}, Inv cap s → ∀ n, lookup (.name n) (run cap s mid).certs = lookup (.name n) s.certs := by
  induction mid with
  | nil => intro s _ n; rfl
  | cons op ops ih =>
    intro s h n
    simp only [run]
    rw [ih (fun o ho => hmid o (List.mem_cons_of_mem _ ho)) (inv_step h op)]
    cases op with
    | get ok cn sans org crl => exact lookup_name_getCert h ok cn sans n
    | add id cn sans names => have := hmid _ (List.mem_cons_self ..); simp [Op.isGet] at this

/-! ### the expire queue is the tail of the creation log -/

structure Fifo (cap : Nat) (hist : List Entry) (s : Store) : Prop where
  split : ∃ ev, hist = ev ++ s.queue ∧ (ev = [] ∨ s.queue.length = cap)
  ids : hist.map (·.id) = List.range s.next
  gen : ∀ e ∈ hist, e.custom = false

theorem fifo_step {cap : Nat} {hist : List Entry} {s : Store} (hi : Inv cap s) (h : Fifo cap hist s) (op : Op) :
    Fifo cap (hist ++ gens cap s [op]) (step cap s op).1 := by
  cases op with
  | add id cn sans names =>
    simp only [gens, step, addCert, List.append_nil]
    exact ⟨h.split, h.ids, h.gen⟩
  | get ok cn sans org crl =>
    simp only [gens, step]
    rcases getCert_cases cap ok s cn sans org crl with ⟨e', _, hg⟩ | ⟨_, _, hg⟩ | ⟨hnone, _, d, rest, hq, ⟨hlen, hg⟩ | ⟨hlen, hg⟩⟩
    · rw [hg]; simpa using h
    · rw [hg]; simpa using h
    · rw [hg]
      obtain ⟨ev, hev, _⟩ := h.split
      have hl : (s.queue ++ [freshEntry s cn sans org crl]).length = (d :: rest).length := by rw [hq]
      have hcap := hi.2
      simp at hl
      refine ⟨⟨ev ++ [d], ?_, ?_⟩, ?_, ?_⟩
      · simp only [hev, List.append_assoc, hq]; simp
      · right; show rest.length = cap; omega
      · simp [h.ids, List.range_succ, freshEntry]
      · intro e he; simp at he
        rcases he with he | he
        · exact h.gen e he
        · subst he; rfl
    · rw [hg]
      obtain ⟨ev, hev, hor⟩ := h.split
      have hl : (s.queue ++ [freshEntry s cn sans org crl]).length = (d :: rest).length := by rw [hq]
      simp at hl
      refine ⟨⟨ev, ?_, ?_⟩, ?_, ?_⟩
      · simp only [hev, List.append_assoc, hq]
      · rcases hor with h1 | h1
        · left; exact h1
        · exfalso; omega
      · simp [h.ids, List.range_succ, freshEntry]
      · intro e he; simp at he
        rcases he with he | he
        · exact h.gen e he
        · subst he; rfl

theorem gens_cons (cap : Nat) (s : Store) (op : Op) (ops : List Op) :
    gens cap s (op :: ops) = gens cap s [op] ++ gens cap (step cap s op).1 ops := by
  simp only [gens]
  split <;> simp

theorem fifo_run {cap : Nat} (ops : List Op) : ∀ {hist : List Entry} {s : Store}, Inv cap s → Fifo cap hist s →
    Fifo cap (hist ++ gens cap s ops) (run cap s ops) := by
  induction ops with
  | nil => intro hist s _ h; simpa [gens, run] using h
  | cons op ops ih =>
    intro hist s hi h
    rw [gens_cons, ← List.append_assoc]
    exact ih (inv_step hi op) (fifo_step hi h op)

theorem fifo_empty (cap : Nat) : Fifo cap [] Store.empty :=
  ⟨⟨[], by simp [Store.empty], Or.inl rfl⟩, by simp [Store.empty], by simp⟩

/-! ### where a generated entry's organization / crl_url come from -/

/-- `e` was generated by a `get_cert` of the history asking for exactly `e`'s names, organization and crl_url -/
def GeneratedBy (ops : List Op) (e : Entry) : Prop :=
  ∃ ok, Op.get ok e.cn e.sans e.org e.crl ∈ ops

theorem queue_mem_getCert {cap : Nat} {ok : Bool} {s : Store} {cn : Option Bytes} {sans : List San} {e : Entry}
    (h : e ∈ (getCert cap ok s cn sans org crl).1.queue) : e ∈ s.queue ∨ e = freshEntry s cn sans org crl := by
  rcases getCert_cases cap ok s cn sans org crl with ⟨e', _, hg⟩ | ⟨_, _, hg⟩ | ⟨_, _, d, rest, hq, ⟨_, hg⟩ | ⟨_, hg⟩⟩
  · rw [hg] at h; left; exact h
  · rw [hg] at h; left; exact h
  · rw [hg] at h
    have : e ∈ s.queue ++ [freshEntry s cn sans org crl] := by rw [hq]; exact List.mem_cons_of_mem _ h
    simpa using this
  · rw [hg] at h
    have : e ∈ s.queue ++ [freshEntry s cn sans org crl] := by rw [hq]; exact h
    simpa using this

theorem gen_run (cap : Nat) (ops : List Op) : ∀ (s : Store) (P : Entry → Prop), (∀ e ∈ s.queue, P e) →
    ∀ e ∈ (run cap s ops).queue, P e ∨ GeneratedBy ops e := by
  induction ops with
  | nil => intro s P h e he; left; exact h e he
  | cons op ops ih =>
    intro s P h e he
    simp only [run] at he
    have hstep : ∀ x ∈ (step cap s op).1.queue, P x ∨ GeneratedBy [op] x := by
      intro x hx
      cases op with
      | add id cn sans names => left; exact h x hx
      | get ok cn sans org crl =>
        rcases queue_mem_getCert hx with h1 | h1
        · left; exact h x h1
        · right; subst h1; exact ⟨ok, by simp [freshEntry]⟩
    rcases ih (step cap s op).1 (fun x => P x ∨ GeneratedBy [op] x) hstep e he with (h1 | ⟨ok, hm⟩) | ⟨ok, hm⟩
    · left; exact h1
    · right; simp at hm; exact ⟨ok, by simp [hm]⟩
    · right; exact ⟨ok, List.mem_cons_of_mem _ hm⟩

end MitmVerif.C17
