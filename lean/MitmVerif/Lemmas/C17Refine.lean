/-
  C17 — the store refines an abstract "registrations + bounded FIFO cache keyed by (cn, sans)".
-/
import MitmVerif.Lemmas.C17
namespace MitmVerif.C17

variable {org crl : Option Bytes}

/-- the abstract store: what is registered under each name, and the generated certificates in creation order
    (each carries its own key `(cn, sans)`); nothing else -/
structure Abs where
  custom : Bytes → Option Entry
  cache : List Entry
  next : Nat

def Abs.empty : Abs := ⟨fun _ => none, [], 0⟩

def firstSome (f : Bytes → Option Entry) : List Bytes → Option Entry
  | [] => none
  | n :: ns => match f n with
    | some e => some e
    | none => firstSome f ns

def cacheFind (cn : Option Bytes) (sans : List San) (c : List Entry) : Option Entry :=
  c.find? (fun e => decide (e.cn = cn ∧ e.sans = sans))

/-- abstract get_cert: first registered potential name, else the cache, else generate + FIFO-evict -/
def absGet (cap : Nat) (ok : Bool) (a : Abs) (cn : Option Bytes) (sans : List San)
    (org crl : Option Bytes) : Abs × Res :=
  match firstSome a.custom (potentialNames cn sans) with
  | some e => (a, .hit e)
  | none =>
    match cacheFind cn sans a.cache with
    | some e => (a, .hit e)
    | none =>
      if ok then
        ({ a with cache := if cap < (a.cache ++ [(⟨false, a.next, cn, sans, org, crl⟩ : Entry)]).length
                            then (a.cache ++ [(⟨false, a.next, cn, sans, org, crl⟩ : Entry)]).tail
                            else a.cache ++ [(⟨false, a.next, cn, sans, org, crl⟩ : Entry)],
                  next := a.next + 1 }, .fresh ⟨false, a.next, cn, sans, org, crl⟩)
      else (a, .err)

def absAdd (a : Abs) (id : Nat) (cn : Option Bytes) (sans : List San) (names : List Bytes) : Abs :=
  { a with custom := fun n => if n ∈ addKeys cn sans names then some ⟨true, id, cn, sans, none, none⟩ else a.custom n }

def absStep (cap : Nat) (a : Abs) : Op → Abs × Option Res
  | .get ok cn sans org crl => let r := absGet cap ok a cn sans org crl; (r.1, some r.2)
  | .add id cn sans names => (absAdd a id cn sans names, none)

/-- everything observable: the result of every operation of a history -/
def trace (cap : Nat) (s : Store) : List Op → List (Option Res)
  | [] => []
  | op :: ops => (step cap s op).2 :: trace cap (step cap s op).1 ops

def absTrace (cap : Nat) (a : Abs) : List Op → List (Option Res)
  | [] => []
  | op :: ops => (absStep cap a op).2 :: absTrace cap (absStep cap a op).1 ops

def absRun (cap : Nat) (a : Abs) : List Op → Abs
  | [] => a
  | op :: ops => absRun cap (absStep cap a op).1 ops

/-- the refinement relation -/
structure Refines (cap : Nat) (s : Store) (a : Abs) : Prop where
  inv : Inv cap s
  names : ∀ n, lookup (.name n) s.certs = a.custom n
  cache : a.cache = s.queue
  next : a.next = s.next

theorem refines_empty (cap : Nat) : Refines cap Store.empty Abs.empty :=
  ⟨inv_empty cap, by intro n; simp [Store.empty, Abs.empty, lookup], rfl, rfl⟩

theorem firstHit_names {m : List (Key × Entry)} {f : Bytes → Option Entry}
    (h : ∀ n, lookup (.name n) m = f n) (ns : List Bytes) :
    firstHit m (ns.map Key.name) = firstSome f ns := by
  induction ns with
  | nil => rfl
  | cons n ns ih =>
    simp only [List.map_cons, firstHit, firstSome, h n]
    cases f n with
    | some e => rfl
    | none => exact ih

theorem lookup_gen_eq_cacheFind {cap : Nat} {s : Store} (h : Inv cap s) (cn : Option Bytes) (sans : List San) :
    lookup (.gen cn sans) s.certs = cacheFind cn sans s.queue := by
  unfold cacheFind
  cases hf : s.queue.find? (fun e => decide (e.cn = cn ∧ e.sans = sans)) with
  | some e' =>
    have hp := List.find?_some hf
    have hm := List.mem_of_find?_eq_some hf
    simp only [decide_eq_true_eq] at hp
    have := (h.1.queue_ok e' hm).2.2
    rw [hp.1, hp.2] at this
    exact this
  | none =>
    cases hl : lookup (.gen cn sans) s.certs with
    | none => rfl
    | some e =>
      have hc := h.1.certs_ok _ _ (lookup_mem hl)
      have := List.find?_eq_none.mp hf e hc.2.2.2
      simp [hc.2.1, hc.2.2.1] at this

theorem lookup_setAll (e : Entry) (n : Bytes) (ns : List Bytes) : ∀ (m : List (Key × Entry)),
    lookup (.name n) (setAll e m ns) = if n ∈ ns then some e else lookup (.name n) m := by
  induction ns with
  | nil => intro m; simp [setAll]
  | cons n0 ns ih =>
    intro m
    simp only [setAll, ih, lookup_setKey, List.mem_cons]
    by_cases h1 : n ∈ ns
    · simp [h1]
    · by_cases h2 : n = n0
      · simp [h2]
      · simp [h1, h2]

/-- **one step of the real store = one step of the abstract store** -/
theorem refines_step {cap : Nat} {s : Store} {a : Abs} (h : Refines cap s a) (op : Op) :
    (step cap s op).2 = (absStep cap a op).2 ∧ Refines cap (step cap s op).1 (absStep cap a op).1 := by
  cases op with
  | add id cn sans names =>
    refine ⟨rfl, ?_⟩
    simp only [step, absStep, addCert, absAdd]
    refine ⟨inv_addCert h.inv id cn sans names, ?_, h.cache, h.next⟩
    intro n
    simp only [lookup_setAll, h.names]
  | get ok cn sans org crl =>
    simp only [step, absStep]
    have hnm := firstHit_names h.names (potentialNames cn sans)
    have hgen := lookup_gen_eq_cacheFind h.inv cn sans
    have hfirst : firstHit s.certs (potentialKeys cn sans) =
        match firstSome a.custom (potentialNames cn sans) with
        | some e => some e
        | none => cacheFind cn sans a.cache := by
      simp only [potentialKeys, firstHit_append, hnm, firstHit, h.cache, hgen]
      cases firstSome a.custom (potentialNames cn sans) with
      | some e => rfl
      | none => simp only; cases cacheFind cn sans s.queue <;> rfl
    have hinv' := inv_getCert (org := org) (crl := crl) h.inv ok cn sans
    have hnames' : ∀ n, lookup (.name n) (getCert cap ok s cn sans org crl).1.certs = a.custom n := by
      intro n; rw [lookup_name_getCert h.inv]; exact h.names n
    rcases getCert_cases cap ok s cn sans org crl with ⟨e, hf, hg⟩ | ⟨hf, hok, hg⟩ | ⟨hf, hok, d, rest, hq, ⟨hlen, hg⟩ | ⟨hlen, hg⟩⟩
    · -- hit
      rw [hfirst] at hf
      have habs : absGet cap ok a cn sans org crl = (a, .hit e) := by
        unfold absGet
        cases h1 : firstSome a.custom (potentialNames cn sans) with
        | some e1 => simp only [h1] at hf; simp at hf; rw [hf]
        | none => simp only [h1] at hf; simp only; rw [hf]
      rw [hg, habs]
      exact ⟨rfl, h⟩
    · -- dummy_cert raised
      rw [hfirst] at hf
      have habs : absGet cap ok a cn sans org crl = (a, .err) := by
        unfold absGet
        cases h1 : firstSome a.custom (potentialNames cn sans) with
        | some e1 => simp [h1] at hf
        | none => simp only [h1] at hf; simp only; rw [hf]; simp [hok]
      rw [hg, habs]
      exact ⟨rfl, h⟩
    · -- generated, oldest evicted
      rw [hfirst] at hf
      have hq' : a.cache ++ [(⟨false, a.next, cn, sans, org, crl⟩ : Entry)] = d :: rest := by
        rw [h.cache, h.next]; exact hq
      have habs : absGet cap ok a cn sans org crl =
          ({ a with cache := rest, next := a.next + 1 }, .fresh ⟨false, a.next, cn, sans, org, crl⟩) := by
        unfold absGet
        cases h1 : firstSome a.custom (potentialNames cn sans) with
        | some e1 => simp [h1] at hf
        | none =>
          simp only [h1] at hf; simp only; rw [hf]
          simp only [hok, if_true, hq', List.length_cons, hlen, List.tail_cons]
      have hg' := hg
      rw [hg] at hinv' hnames'
      rw [hg, habs]
      refine ⟨by simp [freshEntry, h.next], hinv', hnames', rfl, by simp [h.next]⟩
    · -- generated, nothing evicted
      rw [hfirst] at hf
      have hq' : a.cache ++ [(⟨false, a.next, cn, sans, org, crl⟩ : Entry)] = d :: rest := by
        rw [h.cache, h.next]; exact hq
      have habs : absGet cap ok a cn sans org crl =
          ({ a with cache := d :: rest, next := a.next + 1 }, .fresh ⟨false, a.next, cn, sans, org, crl⟩) := by
        unfold absGet
        cases h1 : firstSome a.custom (potentialNames cn sans) with
        | some e1 => simp [h1] at hf
        | none =>
          simp only [h1] at hf; simp only; rw [hf]
          have : ¬ cap < rest.length + 1 := by omega
          simp only [hok, if_true, hq', List.length_cons, this, if_false]
      rw [hg] at hinv' hnames'
      rw [hg, habs]
      refine ⟨by simp [freshEntry, h.next], hinv', hnames', rfl, by simp [h.next]⟩

theorem refines_trace {cap : Nat} (ops : List Op) : ∀ {s : Store} {a : Abs}, Refines cap s a →
    trace cap s ops = absTrace cap a ops ∧ Refines cap (run cap s ops) (absRun cap a ops) := by
  induction ops with
  | nil => intro s a h; exact ⟨rfl, h⟩
  | cons op ops ih =>
    intro s a h
    obtain ⟨h1, h2⟩ := refines_step h op
    obtain ⟨h3, h4⟩ := ih h2
    exact ⟨by simp only [trace, absTrace, h1, h3], h4⟩

/-- the abstract cache never exceeds the capacity (directly, on the abstract machine) -/
theorem abs_cache_le (cap : Nat) (ops : List Op) : ∀ (a : Abs), a.cache.length ≤ cap →
    (absRun cap a ops).cache.length ≤ cap := by
  induction ops with
  | nil => intro a h; exact h
  | cons op ops ih =>
    intro a h
    apply ih
    cases op with
    | add id cn sans names => exact h
    | get ok cn sans org crl =>
      simp only [absStep, absGet]
      split
      · exact h
      · split
        · exact h
        · split
          · simp only
            split
            · rename_i hlt; simp at hlt ⊢; omega
            · rename_i hlt; simpa using Nat.le_of_not_lt hlt
          · exact h

/-! ### operations that cannot disturb the answer to a request -/

/-- `op` cannot change what the request `(cn, sans)` is answered with by way of a registration: it is a `get_cert`, or an
    `add_cert` none of whose registered names is a potential key of the request -/
def Op.undisturbing (cn : Option Bytes) (sans : List San) : Op → Prop
  | .get _ _ _ _ _ => True
  | .add _ cn' sans' names => ∀ n ∈ addKeys cn' sans' names, n ∉ potentialNames cn sans

theorem lookup_potential_run {cap : Nat} {cn : Option Bytes} {sans : List San} (mid : List Op)
    (hmid : ∀ op ∈ mid, Op.undisturbing cn sans op) :
    ∀ {s : Store}, Inv cap s → ∀ n ∈ potentialNames cn sans,
      lookup (.name n) (run cap s mid).certs = lookup (.name n) s.certs := by
  induction mid with
  | nil => intro s _ n _; rfl
  | cons op ops ih =>
    intro s h n hn
    simp only [run]
    rw [ih (fun o ho => hmid o (List.mem_cons_of_mem _ ho)) (inv_step h op) n hn]
    cases op with
    | get ok c ss o cr => exact lookup_name_getCert h ok c ss n
    | add id c ss names =>
      have hu := hmid _ (List.mem_cons_self ..)
      simp only [Op.undisturbing] at hu
      simp only [step, addCert, lookup_setAll]
      have : ¬ n ∈ addKeys c ss names := fun hm => hu n hm hn
      simp [this]

end MitmVerif.C17
