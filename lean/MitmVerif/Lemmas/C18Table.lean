/-
  C18 — the kernel passes over the regenerated table (kept in their own module: they are the expensive part and only
  change when Gen/C18.lean or the model changes).
-/
import MitmVerif.Model.C18
namespace MitmVerif.C18
open MitmVerif

def passChunk (i : Nat) : List (Cfg × Nat) := ((configsC.zip Gen.C18.rows).drop (8 * i)).take 8

theorem tablePass0 : rowsOk (passChunk 0) = true := by decide +kernel
theorem tablePass1 : rowsOk (passChunk 1) = true := by decide +kernel
theorem tablePass2 : rowsOk (passChunk 2) = true := by decide +kernel
theorem tablePass3 : rowsOk (passChunk 3) = true := by decide +kernel

theorem chunksCover : configsC.zip Gen.C18.rows = passChunk 0 ++ passChunk 1 ++ passChunk 2 ++ passChunk 3 ∧
    Gen.C18.rows.length = configsC.length := by decide +kernel

end MitmVerif.C18
