/-
  C19 — helper lemmas about the byte scanners of Model/C19.lean (core Lean only).
-/
import MitmVerif.Model.C19
namespace MitmVerif.C19
open MitmVerif

/-! ## startsCI -/

theorem startsCI_append_true (lit d q : Bytes) (h : startsCI lit d = true) : startsCI lit (d ++ q) = true := by
  induction lit generalizing d with
  | nil => simp [startsCI]
  | cons p ps ih =>
    cases d with
    | nil => simp [startsCI] at h
    | cons x xs =>
      simp only [startsCI, Bool.and_eq_true, decide_eq_true_eq, List.cons_append] at h ⊢
      exact ⟨h.1, ih xs h.2⟩

/-- if appending bytes turns a failed literal match into a success, the data was a proper prefix of the literal -/
theorem startsCI_append_flip (lit d q : Bytes) (h0 : startsCI lit d = false) (h1 : startsCI lit (d ++ q) = true) :
    ∀ b ∈ d, asciiLowerB b ∈ lit := by
  induction lit generalizing d with
  | nil => simp [startsCI] at h0
  | cons p ps ih =>
    cases d with
    | nil => intro b hb; cases hb
    | cons x xs =>
      simp only [startsCI, List.cons_append, Bool.and_eq_true, decide_eq_true_eq] at h1
      simp only [startsCI, Bool.and_eq_false_iff, decide_eq_false_iff_not] at h0
      intro b hb
      rcases List.mem_cons.mp hb with rfl | hb
      · exact List.mem_cons.mpr (Or.inl h1.1)
      · rcases h0 with h0 | h0
        · exact absurd h1.1 h0
        · exact List.mem_cons_of_mem _ (ih xs h0 h1.2 b hb)

theorem lf_not_in_hostLit : asciiLowerB LF ∉ hostLit := by decide
theorem lf_not_in_httpLit : asciiLowerB LF ∉ httpLit := by decide

/-! ## findHttp / expected -/

theorem findHttp_append_true (d q : Bytes) (h : findHttp d = true) : findHttp (d ++ q) = true := by
  induction d with
  | nil => simp [findHttp] at h
  | cons b tl ih =>
    simp only [findHttp, List.cons_append] at h ⊢
    by_cases hs : startsCI httpLit (b :: tl) = true
    · have := startsCI_append_true httpLit (b :: tl) q hs
      simp only [List.cons_append] at this
      simp [this]
    · simp only [hs] at h
      by_cases hb : b = LF
      · simp [hb] at h
      · simp only [hb, if_false] at h
        simp [hb, ih h]

theorem findHttp_append_false (d q : Bytes) (hlf : LF ∈ d) (h : findHttp d = false) : findHttp (d ++ q) = false := by
  induction d with
  | nil => cases hlf
  | cons b tl ih =>
    simp only [findHttp, List.cons_append] at h ⊢
    by_cases hs : startsCI httpLit (b :: tl) = true
    · simp [hs] at h
    · have hs0 : startsCI httpLit (b :: tl) = false := by simpa using hs
      have hs' : startsCI httpLit (b :: (tl ++ q)) = false := by
        cases hq : startsCI httpLit (b :: (tl ++ q)) with
        | false => rfl
        | true =>
          have := startsCI_append_flip httpLit (b :: tl) q hs0 (by simpa using hq) LF hlf
          exact absurd this lf_not_in_httpLit
      simp only [hs0] at h
      by_cases hb : b = LF
      · subst hb; simp [hs']
      · simp only [hb, if_false] at h
        have : LF ∈ tl := by
          rcases List.mem_cons.mp hlf with e | e
          · exact absurd e.symm hb
          · exact e
        simp [hs', hb, ih this h]

theorem expected_append_true (p q : Bytes) (h : expected p = true) : expected (p ++ q) = true := by
  match p, h with
  | a :: b :: c :: x :: tl, h =>
    simp only [expected, Bool.and_eq_true, List.cons_append] at h ⊢
    exact ⟨h.1, findHttp_append_true tl q h.2⟩

/-- the bytes seen so far may still grow into a request line that the first regex accepts -/
def reqLinePending (p : Bytes) : Bool := expected p == false && !p.contains LF && (p.take 3).all isAlpha

private theorem alpha_ne_lf (y : UInt8) (hy : isAlpha y = true) : y ≠ LF := by
  intro e; subst e; simp [isAlpha, LF] at hy

private theorem alpha_lf : isAlpha LF = false := by simp [isAlpha, LF]

theorem expected_append_false (p q : Bytes) (h : expected p = false) (hp : reqLinePending p = false) :
    expected (p ++ q) = false := by
  have hp' : LF ∈ p ∨ (p.take 3).all isAlpha = false := by
    simp only [reqLinePending, h, BEq.rfl, Bool.true_and, Bool.and_eq_false_iff, Bool.not_eq_false',
      List.contains_eq_mem, decide_eq_true_eq] at hp
    exact hp
  clear hp
  -- the first three bytes of `p ++ q` that come from `p` are alphabetic whenever `expected (p ++ q)`
  cases he : expected (p ++ q) with
  | false => rfl
  | true =>
    exfalso
    match p, h, hp', he with
    | [], _, hp', _ => simp at hp'
    | [a], _, hp', he =>
      match q, he with
      | y :: z :: w :: ws, he =>
        simp only [expected, List.cons_append, List.nil_append, Bool.and_eq_true] at he
        rcases hp' with hp' | hp'
        · simp only [List.mem_cons, List.mem_nil_iff, or_false] at hp'
          subst hp'; simp [alpha_lf] at he
        · simp [he.1.1.1.1] at hp'
    | [a, b], _, hp', he =>
      match q, he with
      | z :: w :: ws, he =>
        simp only [expected, List.cons_append, List.nil_append, Bool.and_eq_true] at he
        rcases hp' with hp' | hp'
        · simp only [List.mem_cons, List.mem_nil_iff, or_false] at hp'
          rcases hp' with e | e <;> subst e <;> simp [alpha_lf] at he
        · simp [he.1.1.1.1, he.1.1.1.2] at hp'
    | [a, b, c], _, hp', he =>
      match q, he with
      | w :: ws, he =>
        simp only [expected, List.cons_append, List.nil_append, Bool.and_eq_true] at he
        rcases hp' with hp' | hp'
        · simp only [List.mem_cons, List.mem_nil_iff, or_false] at hp'
          rcases hp' with e | e | e <;> subst e <;> simp [alpha_lf] at he
        · simp [he.1.1.1.1, he.1.1.1.2, he.1.1.2] at hp'
    | a :: b :: c :: x :: tl, h, hp', he =>
      simp only [expected, List.cons_append, Bool.and_eq_true] at he
      obtain ⟨⟨⟨⟨ha, hb⟩, hc⟩, hx⟩, hf⟩ := he
      have hx' : x ≠ LF := by simpa using hx
      simp only [expected, ha, hb, hc, hx, Bool.true_and] at h
      rcases hp' with hp' | hp'
      · have : LF ∈ tl := by
          simp only [List.mem_cons] at hp'
          rcases hp' with e | e | e | e | e
          · exact absurd e.symm (alpha_ne_lf a ha)
          · exact absurd e.symm (alpha_ne_lf b hb)
          · exact absurd e.symm (alpha_ne_lf c hc)
          · exact absurd e.symm hx'
          · exact e
        rw [findHttp_append_false tl q this h] at hf
        cases hf
      · simp [ha, hb, hc] at hp'

end MitmVerif.C19
