/-
  C19 — helper lemmas about the byte scanners of Model/C19.lean (core Lean only).
-/
import MitmVerif.Model.C19
import MitmVerif.Props.C13
set_option linter.unusedSimpArgs false
namespace MitmVerif.C19
open MitmVerif

/-! ## startsCI -/

theorem startsCI_append_true (lit d q : Bytes) (h : startsCI lit d = true) : startsCI lit (d ++ q) = true := by
  induction lit generalizing d with
  | nil => simp [startsCI]
  | cons p ps ih =>
    cases d with
    | nil => simp [startsCI] at h
    | cons x xs =>
      simp only [startsCI, Bool.and_eq_true, decide_eq_true_eq, List.cons_append] at h ⊢
      exact ⟨h.1, ih xs h.2⟩

/-- if appending bytes turns a failed literal match into a success, the data was a proper prefix of the literal -/
theorem startsCI_append_flip (lit d q : Bytes) (h0 : startsCI lit d = false) (h1 : startsCI lit (d ++ q) = true) :
    ∀ b ∈ d, asciiLowerB b ∈ lit := by
  induction lit generalizing d with
  | nil => simp [startsCI] at h0
  | cons p ps ih =>
    cases d with
    | nil => intro b hb; cases hb
    | cons x xs =>
      simp only [startsCI, List.cons_append, Bool.and_eq_true, decide_eq_true_eq] at h1
      simp only [startsCI, Bool.and_eq_false_iff, decide_eq_false_iff_not] at h0
      intro b hb
      rcases List.mem_cons.mp hb with rfl | hb
      · exact List.mem_cons.mpr (Or.inl h1.1)
      · rcases h0 with h0 | h0
        · exact absurd h1.1 h0
        · exact List.mem_cons_of_mem _ (ih xs h0 h1.2 b hb)

theorem lf_not_in_hostLit : asciiLowerB LF ∉ hostLit := by decide
theorem lf_not_in_httpLit : asciiLowerB LF ∉ httpLit := by decide

/-! ## findHttp / expected -/

theorem findHttp_append_true (d q : Bytes) (h : findHttp d = true) : findHttp (d ++ q) = true := by
  induction d with
  | nil => simp [findHttp] at h
  | cons b tl ih =>
    simp only [findHttp, List.cons_append] at h ⊢
    by_cases hs : startsCI httpLit (b :: tl) = true
    · have := startsCI_append_true httpLit (b :: tl) q hs
      simp only [List.cons_append] at this
      simp [this]
    · simp only [hs] at h
      by_cases hb : b = LF
      · simp [hb] at h
      · simp only [hb, if_false] at h
        simp [hb, ih h]

theorem findHttp_append_false (d q : Bytes) (hlf : LF ∈ d) (h : findHttp d = false) : findHttp (d ++ q) = false := by
  induction d with
  | nil => cases hlf
  | cons b tl ih =>
    simp only [findHttp, List.cons_append] at h ⊢
    by_cases hs : startsCI httpLit (b :: tl) = true
    · simp [hs] at h
    · have hs0 : startsCI httpLit (b :: tl) = false := by simpa using hs
      have hs' : startsCI httpLit (b :: (tl ++ q)) = false := by
        cases hq : startsCI httpLit (b :: (tl ++ q)) with
        | false => rfl
        | true =>
          have := startsCI_append_flip httpLit (b :: tl) q hs0 (by simpa using hq) LF hlf
          exact absurd this lf_not_in_httpLit
      simp only [hs0] at h
      by_cases hb : b = LF
      · subst hb; simp [hs']
      · simp only [hb, if_false] at h
        have : LF ∈ tl := by
          rcases List.mem_cons.mp hlf with e | e
          · exact absurd e.symm hb
          · exact e
        simp [hs', hb, ih this h]

theorem expected_append_true (p q : Bytes) (h : expected p = true) : expected (p ++ q) = true := by
  match p, h with
  | a :: b :: c :: x :: tl, h =>
    simp only [expected, Bool.and_eq_true, List.cons_append] at h ⊢
    exact ⟨h.1, findHttp_append_true tl q h.2⟩

/-- the bytes seen so far may still grow into a request line that the first regex accepts -/
def reqLinePending (p : Bytes) : Bool := expected p == false && !p.contains LF && (p.take 3).all isAlpha

private theorem alpha_ne_lf (y : UInt8) (hy : isAlpha y = true) : y ≠ LF := by
  intro e; subst e; simp [isAlpha, LF] at hy

private theorem alpha_lf : isAlpha LF = false := by simp [isAlpha, LF]

theorem expected_append_false (p q : Bytes) (h : expected p = false) (hp : reqLinePending p = false) :
    expected (p ++ q) = false := by
  have hp' : LF ∈ p ∨ (p.take 3).all isAlpha = false := by
    simp only [reqLinePending, h, BEq.rfl, Bool.true_and, Bool.and_eq_false_iff, Bool.not_eq_false',
      List.contains_eq_mem, decide_eq_true_eq] at hp
    exact hp
  clear hp
  -- the first three bytes of `p ++ q` that come from `p` are alphabetic whenever `expected (p ++ q)`
  cases he : expected (p ++ q) with
  | false => rfl
  | true =>
    exfalso
    match p, h, hp', he with
    | [], _, hp', _ => simp at hp'
    | [a], _, hp', he =>
      match q, he with
      | y :: z :: w :: ws, he =>
        simp only [expected, List.cons_append, List.nil_append, Bool.and_eq_true] at he
        rcases hp' with hp' | hp'
        · simp only [List.mem_cons, List.mem_nil_iff, or_false] at hp'
          subst hp'; simp [alpha_lf] at he
        · simp [he.1.1.1.1] at hp'
    | [a, b], _, hp', he =>
      match q, he with
      | z :: w :: ws, he =>
        simp only [expected, List.cons_append, List.nil_append, Bool.and_eq_true] at he
        rcases hp' with hp' | hp'
        · simp only [List.mem_cons, List.mem_nil_iff, or_false] at hp'
          rcases hp' with e | e <;> subst e <;> simp [alpha_lf] at he
        · simp [he.1.1.1.1, he.1.1.1.2] at hp'
    | [a, b, c], _, hp', he =>
      match q, he with
      | w :: ws, he =>
        simp only [expected, List.cons_append, List.nil_append, Bool.and_eq_true] at he
        rcases hp' with hp' | hp'
        · simp only [List.mem_cons, List.mem_nil_iff, or_false] at hp'
          rcases hp' with e | e | e <;> subst e <;> simp [alpha_lf] at he
        · simp [he.1.1.1.1, he.1.1.1.2, he.1.1.2] at hp'
    | a :: b :: c :: x :: tl, h, hp', he =>
      simp only [expected, List.cons_append, Bool.and_eq_true] at he
      obtain ⟨⟨⟨⟨ha, hb⟩, hc⟩, hx⟩, hf⟩ := he
      have hx' : x ≠ LF := by simpa using hx
      simp only [expected, ha, hb, hc, hx, Bool.true_and] at h
      rcases hp' with hp' | hp'
      · have : LF ∈ tl := by
          simp only [List.mem_cons] at hp'
          rcases hp' with e | e | e | e | e
          · exact absurd e.symm (alpha_ne_lf a ha)
          · exact absurd e.symm (alpha_ne_lf b hb)
          · exact absurd e.symm (alpha_ne_lf c hc)
          · exact absurd e.symm hx'
          · exact e
        rw [findHttp_append_false tl q this h] at hf
        cases hf
      · simp [ha, hb, hc] at hp'

/-! ## the Host group and the header scan -/

theorem startsCI_length (lit d : Bytes) (h : startsCI lit d = true) : lit.length ≤ d.length := by
  induction lit generalizing d with
  | nil => simp
  | cons p ps ih =>
    cases d with
    | nil => simp [startsCI] at h
    | cons x xs =>
      simp only [startsCI, Bool.and_eq_true] at h
      simpa using ih xs h.2

theorem lineUpToLF_append_some (d q l : Bytes) (h : lineUpToLF d = some l) : lineUpToLF (d ++ q) = some l := by
  induction d generalizing l with
  | nil => simp [lineUpToLF] at h
  | cons b tl ih =>
    simp only [lineUpToLF, List.cons_append] at h ⊢
    by_cases hb : b = LF
    · simpa [hb] using h
    · simp only [hb, if_false] at h ⊢
      cases ht : lineUpToLF tl with
      | none => simp [ht] at h
      | some l' => simp [ht] at h; simp [ih l' ht, h]

theorem lineUpToLF_none (d : Bytes) (h : lineUpToLF d = none) : LF ∉ d := by
  induction d with
  | nil => simp
  | cons b tl ih =>
    simp only [lineUpToLF] at h
    by_cases hb : b = LF
    · simp [hb] at h
    · simp only [hb, if_false, Option.map_eq_none_iff] at h
      intro hm
      rcases List.mem_cons.mp hm with e | e
      · exact hb e.symm
      · exact ih h e

theorem ows_ne_lf (b : UInt8) (h : isOWS b = true) : b ≠ LF := by
  intro e; subst e; simp [isOWS, LF] at h

theorem stripL_append_of_ne (d q : Bytes) (h : stripL d ≠ []) : stripL (d ++ q) = stripL d ++ q := by
  induction d with
  | nil => simp [stripL] at h
  | cons b tl ih =>
    simp only [stripL, List.cons_append, List.dropWhile_cons] at h ⊢
    by_cases hb : isOWS b = true
    · simp only [hb, if_true] at h ⊢
      exact ih h
    · simp [hb]

theorem lf_not_mem_of_stripL (d : Bytes) (h : LF ∉ stripL d) : LF ∉ d := by
  induction d with
  | nil => simp
  | cons b tl ih =>
    simp only [stripL, List.dropWhile_cons] at h
    by_cases hb : isOWS b = true
    · simp only [hb, if_true] at h
      intro hm
      rcases List.mem_cons.mp hm with e | e
      · exact ows_ne_lf b hb e.symm
      · exact ih h e
    · simpa [hb] using h

theorem hostGroup_append_some (rest q v : Bytes) (h : hostGroup rest = some v) : hostGroup (rest ++ q) = some v := by
  unfold hostGroup at h ⊢
  by_cases hs : startsCI hostLit rest = true
  · have hlen : 5 ≤ rest.length := by simpa [hostLit] using startsCI_length hostLit rest hs
    simp only [hs, if_true] at h
    rw [startsCI_append_true hostLit rest q hs]
    simp only [if_true]
    cases hl : lineUpToLF (stripL (List.drop 5 rest)) with
    | none => simp [hl] at h
    | some l =>
      have hne : stripL (List.drop 5 rest) ≠ [] := by
        intro e; rw [e] at hl; simp [lineUpToLF] at hl
      rw [List.drop_append_of_le_length hlen, stripL_append_of_ne _ q hne, lineUpToLF_append_some _ q l hl]
      simpa [hl] using h
  · simp [hs] at h

theorem host_take_no_lf (rest : Bytes) (hs : startsCI hostLit rest = true) : LF ∉ rest.take 5 := by
  intro e
  match rest, hs, e with
  | [], hs, _ => simp [startsCI, hostLit] at hs
  | [_], hs, _ => simp [startsCI, hostLit] at hs
  | [_, _], hs, _ => simp [startsCI, hostLit] at hs
  | [_, _, _], hs, _ => simp [startsCI, hostLit] at hs
  | [_, _, _, _], hs, _ => simp [startsCI, hostLit] at hs
  | a :: b :: c :: d :: f :: r, hs, e =>
    simp only [startsCI, hostLit, Bool.and_eq_true, decide_eq_true_eq] at hs
    simp only [List.take, List.mem_cons, List.mem_nil_iff, or_false] at e
    rcases e with e | e | e | e | e <;> subst e <;> simp [asciiLowerB, LF] at hs

/-- if more bytes make the Host group match where it did not before, the line was not finished: no LF yet -/
theorem hostGroup_append_flip (rest q : Bytes) (h0 : hostGroup rest = none) (h1 : hostGroup (rest ++ q) ≠ none) :
    LF ∉ rest := by
  by_cases hs : startsCI hostLit rest = true
  · cases hl : lineUpToLF (stripL (List.drop 5 rest)) with
    | none =>
      have h5 : LF ∉ List.drop 5 rest := lf_not_mem_of_stripL _ (lineUpToLF_none _ hl)
      intro hm
      rw [← List.take_append_drop 5 rest] at hm
      rcases List.mem_append.mp hm with e | e
      · exact host_take_no_lf rest hs e
      · exact h5 e
    | some l =>
      exfalso
      simp [hostGroup, hs, hl] at h0
  · have hs0 : startsCI hostLit rest = false := by simpa using hs
    cases hq : startsCI hostLit (rest ++ q) with
    | false => exfalso; apply h1; simp [hostGroup, hq]
    | true =>
      intro hm
      exact lf_not_in_hostLit (startsCI_append_flip hostLit rest q hs0 hq LF hm)

theorem scan_no_lf (d : Bytes) (h : LF ∉ d) : scan d = .needMore := by
  induction d with
  | nil => rfl
  | cons a tl ih =>
    have ha : a ≠ LF := fun e => h (by simp [e])
    have htl : LF ∉ tl := fun hm => h (List.mem_cons_of_mem _ hm)
    simp [scan, ha, ih htl]

/-- a blank line stays a blank line, and is never a Host field -/
theorem startsEOL_append (tl q : Bytes) (h : startsEOL tl = true) :
    startsEOL (tl ++ q) = true ∧ hostGroup (tl ++ q) = none := by
  match tl, h with
  | [a], h =>
    simp only [startsEOL, Bool.or_eq_true, decide_eq_true_eq, Bool.and_eq_true] at h
    rcases h with h | h
    · subst h; cases q <;> simp [startsEOL, hostGroup, startsCI, hostLit, asciiLowerB, LF]
    · simp at h
  | a :: b :: r, h =>
    simp only [startsEOL, Bool.or_eq_true, decide_eq_true_eq, Bool.and_eq_true] at h
    rcases h with h | h
    · subst h; simp [startsEOL, hostGroup, startsCI, hostLit, asciiLowerB, LF]
    · obtain ⟨h1, h2⟩ := h; subst h1; subst h2
      simp [startsEOL, hostGroup, startsCI, hostLit, asciiLowerB, LF, CR]

/-- **prefix stability of the header scan**: a match found in the data so far is the match in any extension -/
theorem scan_append (p q : Bytes) (r : Option Bytes) (h : scan p = .ok r) : scan (p ++ q) = .ok r := by
  induction p with
  | nil => simp [scan] at h
  | cons a tl ih =>
    simp only [scan, List.cons_append] at h ⊢
    by_cases ha : a = LF
    · simp only [ha, if_true] at h ⊢
      cases hg : hostGroup tl with
      | some v =>
        simp only [hg] at h
        simp only [hostGroup_append_some tl q v hg]
        exact h
      | none =>
        simp only [hg] at h
        by_cases hc : startsEOL tl = true
        · simp only [hc, if_true] at h
          obtain ⟨h1, h2⟩ := startsEOL_append tl q hc
          simp only [h1, h2, if_true]
          exact h
        · simp only [hc] at h
          have hlf : LF ∈ tl := by
            apply Classical.byContradiction
            intro hn
            rw [scan_no_lf tl hn] at h
            cases h
          have hg' : hostGroup (tl ++ q) = none := by
            cases hq : hostGroup (tl ++ q) with
            | none => rfl
            | some v => exact absurd hlf (hostGroup_append_flip tl q hg (by simp [hq]))
          have hc' : startsEOL (tl ++ q) = false := by
            match tl, hc, hlf with
            | [x], hc, hlf =>
              simp only [List.mem_cons, List.mem_nil_iff, or_false] at hlf
              subst hlf
              simp [startsEOL] at hc
            | x :: y :: r', hc, _ => simpa [startsEOL] using hc
          simp only [hg', hc']
          exact ih h
    · simp only [ha, if_false] at h ⊢
      exact ih h

theorem hostHeader_append (tcp : Bool) (p q ds : Bytes) (r : Option Bytes) (hp : reqLinePending p = false)
    (h : hostHeader tcp p ds = .ok r) : hostHeader tcp (p ++ q) ds = .ok r := by
  unfold hostHeader at h ⊢
  by_cases h1 : (!tcp || !ds.isEmpty) = true
  · simpa [h1] using h
  · simp only [h1] at h ⊢
    by_cases he : expected p = true
    · simp only [he, if_true] at h
      simp only [expected_append_true p q he, if_true]
      exact scan_append p q r h
    · have he0 : expected p = false := by simpa using he
      simp only [he0] at h
      simp only [expected_append_false p q he0 hp]
      exact h

/-! ## the scanner on well-formed heads = the RFC field syntax -/

/-- what `scan` does when it stands right behind a line terminator -/
def atLine (rest : Bytes) : Res (Option Bytes) :=
  match hostGroup rest with
  | some v => .ok (if v.isEmpty then none else some v)
  | none => if startsEOL rest then .ok none else scan rest

theorem scan_skip (l rest : Bytes) (h : LF ∉ l) : scan (l ++ LF :: rest) = atLine rest := by
  induction l with
  | nil =>
    show scan (LF :: rest) = atLine rest
    rw [scan]
    rfl
  | cons a tl ih =>
    have ha : a ≠ LF := fun e => h (by simp [e])
    have ht : LF ∉ tl := fun hm => h (List.mem_cons_of_mem _ hm)
    simp only [List.cons_append, scan, ha, if_false]
    exact ih ht

/-- the same behind either terminator: a CR in front of the LF is absorbed -/
theorem scan_skip_eol (lf : Bool) (l rest : Bytes) (h : LF ∉ l) : scan (l ++ (eol lf ++ rest)) = atLine rest := by
  cases lf with
  | true => simpa [eol] using scan_skip l rest h
  | false =>
    have h' : LF ∉ l ++ [CR] := by
      intro hm
      rcases List.mem_append.mp hm with e | e
      · exact h e
      · simp [CR, LF] at e
    have := scan_skip (l ++ [CR]) rest h'
    simpa [eol, List.append_assoc] using this

theorem stripL_ows_append (o r : Bytes) (h : ∀ b ∈ o, isOWS b = true) : stripL (o ++ r) = stripL r := by
  induction o with
  | nil => rfl
  | cons a tl ih =>
    have ha : isOWS a = true := h a (by simp)
    simp only [stripL, List.cons_append, List.dropWhile_cons, ha, if_true]
    exact ih (fun b hb => h b (List.mem_cons_of_mem _ hb))

theorem lineUpToLF_exact (l rest : Bytes) (h : LF ∉ l) : lineUpToLF (l ++ LF :: rest) = some l := by
  induction l with
  | nil => simp [lineUpToLF]
  | cons a tl ih =>
    have ha : a ≠ LF := fun e => h (by simp [e])
    have ht : LF ∉ tl := fun hm => h (List.mem_cons_of_mem _ hm)
    simp [lineUpToLF, ha, ih ht]

theorem chopCR_snoc (l : Bytes) : chopCR (l ++ [CR]) = l := by
  simp [chopCR]

theorem getLast?_mem (x : Bytes) (c : UInt8) (h : x.getLast? = some c) : c ∈ x := by
  induction x with
  | nil => simp at h
  | cons a tl ih =>
    cases tl with
    | nil => simp at h; simp [h]
    | cons b t =>
      rw [List.getLast?_cons_cons] at h
      exact List.mem_cons_of_mem _ (ih h)

theorem chopCR_id (x : Bytes) (h : CR ∉ x) : chopCR x = x := by
  unfold chopCR
  cases hl : x.getLast? with
  | none => rfl
  | some c =>
    have : c ≠ CR := fun e => h (e ▸ getLast?_mem x c hl)
    simp [this]

theorem stripR_value (v o : Bytes) (ho : ∀ b ∈ o, isOWS b = true)
    (hv : ∀ b, v.getLast? = some b → isOWS b = false) : stripR (v ++ o) = v := by
  unfold stripR
  rw [List.reverse_append]
  have ho' : ∀ b ∈ o.reverse, isOWS b = true := fun b hb => ho b (List.mem_reverse.mp hb)
  have := stripL_ows_append o.reverse v.reverse ho'
  unfold stripL at this
  rw [this]
  cases hr : v.reverse with
  | nil =>
    have : v = [] := by simpa using hr
    simp [this]
  | cons x xs =>
    have hx : v.getLast? = some x := by
      rw [← List.head?_reverse, hr]; rfl
    have := hv x hx
    simp only [List.dropWhile_cons, this]
    rw [← hr]; simp

theorem tchar_facts (b : UInt8) (h : isTchar b = true) : b ≠ CR ∧ b ≠ LF ∧ b ≠ colon := by
  have key : ∀ n : Fin 256, isTchar (UInt8.ofNat n.val) = true →
      UInt8.ofNat n.val ≠ CR ∧ UInt8.ofNat n.val ≠ LF ∧ UInt8.ofNat n.val ≠ colon := by decide +kernel
  have := key ⟨b.toNat, UInt8.toNat_lt b⟩
  simp only [UInt8.ofNat_toNat] at this
  exact this h

theorem ows_facts (b : UInt8) (h : isOWS b = true) : b ≠ CR ∧ b ≠ LF := by
  simp only [isOWS, Bool.or_eq_true, decide_eq_true_eq] at h
  rcases h with h | h <;> subst h <;> decide

theorem body_no_cr (f : Field) (hw : f.WF) : CR ∉ f.body := by
  obtain ⟨_, hn, h1, h2, hv, _, _⟩ := hw
  intro hm
  simp only [Field.body, List.mem_append, List.mem_cons] at hm
  rcases hm with hm | hm | (hm | hm) | hm
  · exact (tchar_facts _ (hn _ hm)).1 rfl
  · exact absurd hm (by decide)
  · exact (ows_facts _ (h1 _ hm)).1 rfl
  · exact (hv _ hm).1 rfl
  · exact (ows_facts _ (h2 _ hm)).1 rfl

theorem body_no_lf (f : Field) (hw : f.WF) : LF ∉ f.body := by
  obtain ⟨_, hn, h1, h2, hv, _, _⟩ := hw
  intro hm
  simp only [Field.body, List.mem_append, List.mem_cons] at hm
  rcases hm with hm | hm | (hm | hm) | hm
  · exact (tchar_facts _ (hn _ hm)).2.1 rfl
  · exact absurd hm (by decide)
  · exact (ows_facts _ (h1 _ hm)).2 rfl
  · exact (hv _ hm).2 rfl
  · exact (ows_facts _ (h2 _ hm)).2 rfl

theorem lowerB_colon : asciiLowerB colon = colon := by decide

theorem lowerB_ne_colon (b : UInt8) (h : b ≠ colon) : asciiLowerB b ≠ colon := by
  have key : ∀ n : Fin 256, UInt8.ofNat n.val ≠ colon → asciiLowerB (UInt8.ofNat n.val) ≠ colon := by decide +kernel
  have := key ⟨b.toNat, UInt8.toNat_lt b⟩
  simp only [UInt8.ofNat_toNat] at this
  exact this h

/-- a token followed by a colon starts with `host:` (case-insensitively) exactly when the token is `host` -/
theorem startsCI_host_name (n r : Bytes) (hn : ∀ b ∈ n, isTchar b = true) :
    startsCI hostLit (n ++ colon :: r) = isHostName n := by
  have nc : ∀ b ∈ n, asciiLowerB b ≠ colon := fun b hb => lowerB_ne_colon b (tchar_facts b (hn b hb)).2.2
  have c58 : asciiLowerB 58 = 58 := by decide
  match n, nc with
  | [], _ => simp [startsCI, hostLit, isHostName, colon, c58]
  | [a], _ => simp [startsCI, hostLit, isHostName, colon, c58]
  | [a, b], _ => simp [startsCI, hostLit, isHostName, colon, c58]
  | [a, b, c], _ => simp [startsCI, hostLit, isHostName, colon, c58]
  | [a, b, c, d], _ => simp [startsCI, hostLit, isHostName, colon, c58]
  | a :: b :: c :: d :: e :: t, nc =>
    have he : asciiLowerB e ≠ 58 := nc e (by simp)
    simp [startsCI, hostLit, isHostName, he]

theorem hostGroup_other (f : Field) (hw : f.WF) (hn : isHostName f.name = false) (z : Bytes) :
    hostGroup (f.body ++ z) = none := by
  have hs : startsCI hostLit (f.body ++ z) = false := by
    have := startsCI_host_name f.name (f.ows1 ++ f.value ++ f.ows2 ++ z) hw.2.1
    rw [hn] at this
    simpa [Field.body] using this
  simp [hostGroup, hs]

theorem startsEOL_cons_ne (a : UInt8) (l : Bytes) (h1 : a ≠ LF) (h2 : a ≠ CR) : startsEOL (a :: l) = false := by
  simp [startsEOL, h1, h2]

theorem startsEOL_field (f : Field) (hw : f.WF) (z : Bytes) : startsEOL (f.body ++ z) = false := by
  obtain ⟨hne, hn, _⟩ := hw
  cases hname : f.name with
  | nil => exact absurd hname hne
  | cons a t =>
    have ha := tchar_facts a (hn a (by simp [hname]))
    simp only [Field.body, hname, List.cons_append]
    exact startsEOL_cons_ne a _ ha.2.1 ha.1

theorem hostGroup_host (f : Field) (hw : f.WF) (hn : isHostName f.name = true) (lf : Bool) (z : Bytes) :
    hostGroup (f.body ++ (eol lf ++ z)) = some f.value := by
  obtain ⟨_, hname, h1, h2, hv, hhead, hlast⟩ := hw
  have hs := startsCI_host_name f.name (f.ows1 ++ f.value ++ f.ows2 ++ (eol lf ++ z)) hname
  have hlen : f.name.length = 4 := by
    simp only [isHostName, Bool.and_eq_true, beq_iff_eq] at hn
    exact hn.2
  have hdrop : List.drop 5 (f.body ++ (eol lf ++ z)) = f.ows1 ++ (f.value ++ (f.ows2 ++ (eol lf ++ z))) := by
    match hnm : f.name, hlen with
    | [a, b, c, d], _ => simp [Field.body, hnm]
  unfold hostGroup
  have hs' : startsCI hostLit (f.body ++ (eol lf ++ z)) = true := by
    simp only [Field.body, List.append_assoc, List.cons_append] at hs ⊢
    rw [hs, hn]
  rw [hs', hdrop, if_pos rfl, stripL_ows_append _ _ h1]
  have heol : stripL (eol lf ++ z) = eol lf ++ z := by
    cases lf <;> simp [eol, stripL, isOWS, CR, LF]
  cases hval : f.value with
  | nil =>
    simp only [List.nil_append]
    rw [stripL_ows_append _ _ h2, heol]
    cases lf <;> simp [eol, lineUpToLF, CR, LF, chopCR, stripR]
  | cons v0 vs =>
    have hv0 : isOWS v0 = false := hhead v0 (by simp [hval])
    have hst : stripL (v0 :: vs ++ (f.ows2 ++ (eol lf ++ z))) = v0 :: vs ++ (f.ows2 ++ (eol lf ++ z)) := by
      simp [stripL, hv0]
    rw [hst]
    have hnocrlf : CR ∉ (v0 :: vs) ++ f.ows2 ∧ LF ∉ (v0 :: vs) ++ f.ows2 := by
      constructor <;> intro hm <;> rcases List.mem_append.mp hm with e | e
      · exact (hv _ (by rw [hval]; exact e)).1 rfl
      · exact (ows_facts _ (h2 _ e)).1 rfl
      · exact (hv _ (by rw [hval]; exact e)).2 rfl
      · exact (ows_facts _ (h2 _ e)).2 rfl
    cases lf with
    | true =>
      have hline : v0 :: vs ++ (f.ows2 ++ (eol true ++ z)) = ((v0 :: vs) ++ f.ows2) ++ LF :: z := by simp [eol]
      rw [hline, lineUpToLF_exact _ _ hnocrlf.2]
      show some (stripR (chopCR (v0 :: vs ++ f.ows2))) = some (v0 :: vs)
      rw [chopCR_id _ hnocrlf.1, stripR_value (v0 :: vs) f.ows2 h2 (by rw [← hval]; exact hlast)]
    | false =>
      have hline : v0 :: vs ++ (f.ows2 ++ (eol false ++ z)) = ((v0 :: vs) ++ f.ows2 ++ [CR]) ++ LF :: z := by simp [eol]
      have hnolf : LF ∉ (v0 :: vs) ++ f.ows2 ++ [CR] := by
        intro hm
        rcases List.mem_append.mp hm with e | e
        · exact hnocrlf.2 e
        · simp [CR, LF] at e
      rw [hline, lineUpToLF_exact _ _ hnolf]
      show some (stripR (chopCR (v0 :: vs ++ f.ows2 ++ [CR]))) = some (v0 :: vs)
      rw [chopCR_snoc, stripR_value (v0 :: vs) f.ows2 h2 (by rw [← hval]; exact hlast)]

/-- the scan standing behind a line terminator in front of well-formed field lines — each ended by CRLF or by a bare LF,
    in any mixture — and the blank line reads the FIRST Host field -/
theorem atLine_fields (fs : List (Field × Bool)) (hw : ∀ p ∈ fs, p.1.WF) (endLf : Bool) (z : Bytes) :
    atLine (fs.flatMap (fun p => p.1.body ++ eol p.2) ++ (eol endLf ++ z)) = .ok (specHost (fs.map (·.1))) := by
  induction fs with
  | nil =>
    cases endLf <;> simp [atLine, eol, hostGroup, startsCI, hostLit, asciiLowerB, CR, LF, startsEOL, specHost]
  | cons p fs ih =>
    obtain ⟨f, lf⟩ := p
    have hf : f.WF := hw (f, lf) (by simp)
    have hrest : ∀ g ∈ fs, g.1.WF := fun g hg => hw g (List.mem_cons_of_mem _ hg)
    simp only [List.flatMap_cons, List.append_assoc, List.map_cons]
    cases hn : isHostName f.name with
    | true =>
      simp only [atLine, hostGroup_host f hf hn lf, specHost, hn, if_true]
    | false =>
      simp only [atLine, hostGroup_other f hf hn, startsEOL_field f hf, specHost, hn]
      rw [scan_skip_eol lf _ _ (body_no_lf f hf)]
      simpa [List.append_assoc] using ih hrest

/-! ## structured request lines -/

theorem findHttp_skip (l r : Bytes) (h : LF ∉ l) : findHttp (l ++ httpVer ++ r) = true := by
  induction l with
  | nil => simp [findHttp, httpVer, startsCI, httpLit, asciiLowerB]
  | cons b tl ih =>
    have hb : b ≠ LF := fun e => h (by simp [e])
    have ht : LF ∉ tl := fun hm => h (List.mem_cons_of_mem _ hm)
    simp only [List.cons_append, findHttp]
    split
    · rfl
    · have := ih ht
      simp only [List.append_assoc] at this ⊢
      simp [hb, this]

/-- a request line whose method is a token starting with three letters is recognised by the first regex -/
theorem expected_of_request_line (a b c : UInt8) (m target r : Bytes)
    (ha : isAlpha a = true) (hb : isAlpha b = true) (hc : isAlpha c = true)
    (hm : ∀ x ∈ m, isTchar x = true) (ht : ∀ x ∈ target, x ≠ CR ∧ x ≠ LF) :
    expected (requestLine (a :: b :: c :: m) target ++ r) = true := by
  have hnl : LF ∉ m ++ 0x20 :: (target ++ [0x20]) := by
    intro hmem
    simp only [List.mem_append, List.mem_cons, List.mem_nil_iff, or_false] at hmem
    rcases hmem with h | h | h | h
    · exact (tchar_facts _ (hm _ h)).2.1 rfl
    · exact absurd h (by decide)
    · exact (ht _ h).2 rfl
    · exact absurd h (by decide)
  have hform : requestLine (a :: b :: c :: m) target ++ r
      = a :: b :: c :: ((m ++ 0x20 :: (target ++ [0x20])) ++ httpVer ++ r) := by
    simp [requestLine, List.append_assoc]
  rw [hform]
  cases hl : m ++ 0x20 :: (target ++ [0x20]) with
  | nil => simp at hl
  | cons x tl =>
    rw [hl] at hnl
    have hx : x ≠ LF := fun e => hnl (by simp [e])
    have htl : LF ∉ tl := fun hmem => hnl (List.mem_cons_of_mem _ hmem)
    simp only [List.cons_append, expected, ha, hb, hc, Bool.true_and, Bool.and_eq_true, bne_iff_ne, ne_eq]
    exact ⟨hx, findHttp_skip tl r htl⟩

theorem requestLine_no_cr (method target : Bytes) (hm : ∀ x ∈ method, isTchar x = true)
    (ht : ∀ x ∈ target, x ≠ CR ∧ x ≠ LF) : CR ∉ requestLine method target := by
  intro hmem
  simp only [requestLine, httpVer, List.mem_append, List.mem_cons, List.mem_nil_iff, or_false] at hmem
  rcases hmem with h | h | h | h
  · exact (tchar_facts _ (hm _ h)).1 rfl
  · exact absurd h (by decide)
  · exact (ht _ h).1 rfl
  · revert h; decide

theorem requestLine_no_lf (method target : Bytes) (hm : ∀ x ∈ method, isTchar x = true)
    (ht : ∀ x ∈ target, x ≠ CR ∧ x ≠ LF) : LF ∉ requestLine method target := by
  intro hmem
  simp only [requestLine, httpVer, List.mem_append, List.mem_cons, List.mem_nil_iff, or_false] at hmem
  rcases hmem with h | h | h | h
  · exact (tchar_facts _ (hm _ h)).2.1 rfl
  · exact absurd h (by decide)
  · exact (ht _ h).2 rfl
  · revert h; decide

/-! ## ClientHello extraction and the verdict under more bytes (TCP) -/

theorem startsLike_append (dtls : Bool) (p q : Bytes) (h : 3 ≤ p.length) :
    C13.startsLike dtls (p ++ q) = C13.startsLike dtls p := by
  match p, h with
  | a :: b :: c :: r, _ => simp [C13.startsLike]

theorem clientHello_append_tcp {Pat : Type} (E : Env Pat) (port : Option Nat) (p q : Bytes) (r : Option Bytes)
    (h3 : 3 ≤ p.length) (h : clientHello E true port p = .ok r) : clientHello E true port (p ++ q) = .ok r := by
  unfold clientHello at h ⊢
  simp only [if_true] at h ⊢
  rw [startsLike_append false p q h3]
  by_cases hs : C13.startsLike false p = true
  · simp only [hs, if_true] at h ⊢
    have hne : C13.parse false p ≠ .incomplete := by
      intro e; rw [e] at h; cases h
    rw [MitmVerif.Props.C13.prefix_stable false p q hne]
    exact h
  · simpa [hs] using h

/-- what the property statement exempts ("the documented minimum needed to recognise TLS") and what it does not
    (F-C19b: the bytes so far end inside the request line) -/
def earlyPrefix (p : Bytes) : Bool := decide (p.length < 3) || reqLinePending p

theorem candidates_append_tcp {Pat : Type} (E : Env Pat) (c : Cfg Pat) (p q ds : Bytes) (hs : List Bytes)
    (htcp : c.tcp = true) (hp : earlyPrefix p = false)
    (h : candidates E c p ds = .ok hs) : candidates E c (p ++ q) ds = .ok hs := by
  simp only [earlyPrefix, Bool.or_eq_false_iff, decide_eq_false_iff_not, Nat.not_lt] at hp
  unfold candidates at h ⊢
  cases ha : c.address with
  | none => simpa [ha] using h
  | some hp' =>
    obtain ⟨host, port⟩ := hp'
    simp only [ha] at h ⊢
    cases hh : hostHeader c.tcp p ds with
    | needMore => simp [hh] at h
    | ok v =>
      rw [hostHeader_append c.tcp p q ds v hp.2 hh]
      simp only [hh] at h
      rw [htcp] at h ⊢
      cases hc : clientHello E true (some port) p with
      | needMore => simp [hc] at h
      | ok s =>
        rw [clientHello_append_tcp E (some port) p q s hp.1 hc]
        simpa [hc] using h

/-- **the verdict is final**: once `_ignore_connection` answers on a prefix that is neither shorter than three
    bytes nor ends inside the request line, every extension of that prefix gets the same answer -/
theorem ignoreConnection_append_tcp {Pat : Type} (E : Env Pat) (c : Cfg Pat) (p q ds : Bytes) (b : Bool)
    (htcp : c.tcp = true) (hp : earlyPrefix p = false)
    (h : ignoreConnection E c p ds = .ok b) : ignoreConnection E c (p ++ q) ds = .ok b := by
  unfold ignoreConnection at h ⊢
  by_cases h1 : (c.ignorePats.isEmpty && c.allowPats.isEmpty) = true
  · simpa [h1] using h
  · simp only [h1] at h ⊢
    by_cases h2 : exempt c = true
    · simpa [h2] using h
    · simp only [h2] at h ⊢
      cases hc : candidates E c p ds with
      | needMore => simp [hc] at h
      | ok hs =>
        rw [candidates_append_tcp E c p q ds hs htcp hp hc]
        simpa [hc] using h

/-! ## segment-by-segment asking (NextLayer._ask after every DataReceived) -/

/-- ask after every segment with everything received so far; the first answer other than needMore stands -/
def askSegs {β : Type} (f : Bytes → Res β) : Bytes → List Bytes → Res β
  | _, [] => .needMore
  | acc, s :: ss =>
    match f (acc ++ s) with
    | .needMore => askSegs f (acc ++ s) ss
    | r => r

/-- the accumulated bytes at which the first answer is given -/
def decidingPrefix {β : Type} (f : Bytes → Res β) : Bytes → List Bytes → Option Bytes
  | _, [] => none
  | acc, s :: ss =>
    match f (acc ++ s) with
    | .needMore => decidingPrefix f (acc ++ s) ss
    | _ => some (acc ++ s)

theorem askSegs_eq {β : Type} (f : Bytes → Res β) (acc : Bytes) (segs : List Bytes) (p : Bytes)
    (h : decidingPrefix f acc segs = some p) :
    askSegs f acc segs = f p ∧ ∃ q, acc ++ segs.flatten = p ++ q := by
  induction segs generalizing acc with
  | nil => simp [decidingPrefix] at h
  | cons s ss ih =>
    simp only [decidingPrefix, askSegs] at h ⊢
    cases hf : f (acc ++ s) with
    | needMore =>
      simp only [hf] at h
      obtain ⟨h1, q, h2⟩ := ih (acc ++ s) h
      exact ⟨h1, q, by simpa [List.append_assoc] using h2⟩
    | ok b =>
      simp only [hf] at h
      cases h
      exact ⟨hf.symm, ss.flatten, by simp [List.append_assoc]⟩

theorem askSegs_needMore {β : Type} (f : Bytes → Res β) (acc : Bytes) (segs : List Bytes) (hne : segs ≠ [])
    (h : askSegs f acc segs = .needMore) : f (acc ++ segs.flatten) = .needMore := by
  induction segs generalizing acc with
  | nil => exact absurd rfl hne
  | cons s ss ih =>
    simp only [askSegs] at h
    cases hf : f (acc ++ s) with
    | ok b => simp [hf] at h
    | needMore =>
      simp only [hf] at h
      cases ss with
      | nil => simpa using hf
      | cons t ts =>
        have := ih (acc ++ s) (by simp) h
        simpa [List.append_assoc] using this

theorem decidingPrefix_none {β : Type} (f : Bytes → Res β) (acc : Bytes) (segs : List Bytes)
    (h : decidingPrefix f acc segs = none) : askSegs f acc segs = .needMore := by
  induction segs generalizing acc with
  | nil => rfl
  | cons s ss ih =>
    simp only [decidingPrefix, askSegs] at h ⊢
    cases hf : f (acc ++ s) with
    | ok b => simp [hf] at h
    | needMore => simp only [hf] at h ⊢; exact ih _ h

/-! ## the connection: buffering, replay, relay -/

theorem recvFrom_append (b : Bool) (h1 h2 : List Ev) : recvFrom b (h1 ++ h2) = recvFrom b h1 ++ recvFrom b h2 := by
  induction h1 with
  | nil => rfl
  | cons e es ih =>
    cases e <;> cases b <;> simp [recvFrom, ih]

theorem sentTo_append (b : Bool) (o1 o2 : List Out) : sentTo b (o1 ++ o2) = sentTo b o1 ++ sentTo b o2 := by
  induction o1 with
  | nil => rfl
  | cons o os ih =>
    cases o with
    | send t d => by_cases h : t = b <;> simp [sentTo, h, ih]
    | _ => simp [sentTo, ih]

theorem hooks_append (o1 o2 : List Out) : hooks (o1 ++ o2) = hooks o1 ++ hooks o2 := by
  induction o1 with
  | nil => rfl
  | cons o os ih => cases o <;> simp [hooks, ih]

/-- fields that the relay never touches -/
structure SameCfg (s t : Sess) : Prop where
  queue : t.queue = s.queue
  stack : t.stack = s.stack
  flow : t.flow = s.flow
  tcp : t.tcp = s.tcp

theorem relayEv_spec (s : Sess) (e : Ev) (hp : s.phase = .relay) :
    ((relayEv s e).phase = .relay ∨ (relayEv s e).phase = .done) ∧ SameCfg s (relayEv s e) ∧
    (∀ b, sentTo b (relayEv s e).out = sentTo b s.out ++ recvFrom b [e]) ∧
    (s.flow = false → hooks (relayEv s e).out = hooks s.out) := by
  cases e with
  | dataC d =>
    refine ⟨Or.inl (by simp [relayEv, Sess.emit, hp]), ⟨rfl, rfl, rfl, rfl⟩, ?_, ?_⟩
    · intro b; cases b <;> cases hf : s.flow <;> simp [relayEv, Sess.emit, sentTo_append, sentTo, recvFrom, hf]
    · intro hf; simp [relayEv, Sess.emit, hooks_append, hooks, hf]
  | dataS d =>
    refine ⟨Or.inl (by simp [relayEv, Sess.emit, hp]), ⟨rfl, rfl, rfl, rfl⟩, ?_, ?_⟩
    · intro b; cases b <;> cases hf : s.flow <;> simp [relayEv, Sess.emit, sentTo_append, sentTo, recvFrom, hf]
    · intro hf; simp [relayEv, Sess.emit, hooks_append, hooks, hf]
  | closeC =>
    simp only [relayEv]
    split
    · split
      · refine ⟨Or.inr rfl, ⟨rfl, rfl, rfl, rfl⟩, ?_, ?_⟩
        · intro b
          simp only [Sess.emit, sentTo_append, recvFrom, List.append_nil]
          cases s.server.closed <;> cases s.client.closed <;> cases s.flow <;> simp [sentTo]
        · intro hf
          simp only [Sess.emit, hooks_append, hf]
          cases s.server.closed <;> cases s.client.closed <;> simp [hooks]
      · refine ⟨Or.inl hp, ⟨rfl, rfl, rfl, rfl⟩, ?_, ?_⟩
        · intro b
          simp only [Sess.emit, sentTo_append, recvFrom, List.append_nil]
          cases s.server.canWrite <;> simp [sentTo]
        · intro _
          simp only [Sess.emit, hooks_append]
          cases s.server.canWrite <;> simp [hooks]
    · refine ⟨Or.inr rfl, ⟨rfl, rfl, rfl, rfl⟩, ?_, ?_⟩
      · intro b
        simp only [Sess.emit, sentTo_append, recvFrom, List.append_nil]
        cases s.flow <;> simp [sentTo]
      · intro hf
        simp [Sess.emit, hooks_append, hf, hooks]
  | closeS =>
    simp only [relayEv]
    split
    · split
      · refine ⟨Or.inr rfl, ⟨rfl, rfl, rfl, rfl⟩, ?_, ?_⟩
        · intro b
          simp only [Sess.emit, sentTo_append, recvFrom, List.append_nil]
          cases s.server.closed <;> cases s.client.closed <;> cases s.flow <;> simp [sentTo]
        · intro hf
          simp only [Sess.emit, hooks_append, hf]
          cases s.server.closed <;> cases s.client.closed <;> simp [hooks]
      · refine ⟨Or.inl hp, ⟨rfl, rfl, rfl, rfl⟩, ?_, ?_⟩
        · intro b
          simp only [Sess.emit, sentTo_append, recvFrom, List.append_nil]
          cases s.client.canWrite <;> simp [sentTo]
        · intro _
          simp only [Sess.emit, hooks_append]
          cases s.client.canWrite <;> simp [hooks]
    · refine ⟨Or.inr rfl, ⟨rfl, rfl, rfl, rfl⟩, ?_, ?_⟩
      · intro b
        simp only [Sess.emit, sentTo_append, recvFrom, List.append_nil]
        cases s.flow <;> simp [sentTo]
      · intro hf
        simp [Sess.emit, hooks_append, hf, hooks]
  | connOk => exact ⟨Or.inl hp, ⟨rfl, rfl, rfl, rfl⟩, fun b => by simp [relayEv, recvFrom], fun _ => rfl⟩
  | connErr => exact ⟨Or.inl hp, ⟨rfl, rfl, rfl, rfl⟩, fun b => by simp [relayEv, recvFrom], fun _ => rfl⟩

theorem relayAll_spec (s : Sess) (evs : List Ev) (hp : s.phase = .relay) :
    ((relayAll s evs).phase = .relay ∨ (relayAll s evs).phase = .done) ∧ SameCfg s (relayAll s evs) ∧
    ((relayAll s evs).phase = .relay → ∀ b, sentTo b (relayAll s evs).out = sentTo b s.out ++ recvFrom b evs) ∧
    (s.flow = false → hooks (relayAll s evs).out = hooks s.out) := by
  induction evs generalizing s with
  | nil => exact ⟨Or.inl hp, ⟨rfl, rfl, rfl, rfl⟩, fun _ b => by simp [relayAll, recvFrom], fun _ => rfl⟩
  | cons e es ih =>
    simp only [relayAll, hp, if_true]
    obtain ⟨hph, hsame, hsent, hhook⟩ := relayEv_spec s e hp
    rcases hph with hph | hph
    · obtain ⟨h1, h2, h3, h4⟩ := ih (relayEv s e) hph
      refine ⟨h1, ⟨h2.queue.trans hsame.queue, h2.stack.trans hsame.stack, h2.flow.trans hsame.flow,
        h2.tcp.trans hsame.tcp⟩, ?_, ?_⟩
      · intro hr b
        rw [h3 hr b, hsent b]
        have : recvFrom b (e :: es) = recvFrom b [e] ++ recvFrom b es := recvFrom_append b [e] es
        rw [this, List.append_assoc]
      · intro hf
        rw [h4 (by rw [hsame.flow]; exact hf), hhook hf]
    · have hstop : relayAll (relayEv s e) es = relayEv s e := by
        cases es with
        | nil => rfl
        | cons x xs => simp [relayAll, hph]
      rw [hstop]
      refine ⟨Or.inr hph, hsame, ?_, hhook⟩
      intro hr; rw [hph] at hr; cases hr

/-- the relay layer is the whole stack; `flow` says whether it was created with `ignore = False` -/
def relayStack (s : Sess) : Prop :=
  ∃ ig, (s.stack = [LK.tcp ig] ∨ s.stack = [LK.udp ig]) ∧ s.flow = !ig

/-- the invariant of the connection model along any event history `hist` -/
def Inv (s : Sess) (hist : List Ev) : Prop :=
  match s.phase with
  | .undecided => s.out = [] ∧ s.stack = [] ∧ (∀ b, recvFrom b s.queue = recvFrom b hist) ∧
      s.dc = recvFrom true hist ∧ s.ds = recvFrom false hist
  | .connecting => relayStack s ∧ (s.flow = false → hooks s.out = []) ∧
      ∀ b, sentTo b s.out = [] ∧ recvFrom b s.queue = recvFrom b hist
  | .relay => relayStack s ∧ (s.flow = false → hooks s.out = []) ∧ ∀ b, sentTo b s.out = recvFrom b hist
  | .done => relayStack s ∧ (s.flow = false → hooks s.out = [])
  | .failed => relayStack s ∧ (s.flow = false → hooks s.out = []) ∧ ∀ b, sentTo b s.out = []
  | .intercepted => ∀ ig, s.stack ≠ [LK.tcp ig] ∧ s.stack ≠ [LK.udp ig]
  | .aborted => s.stack = [] ∧ ∀ b, sentTo b s.out = []

theorem noteEv_same (s : Sess) (e : Ev) :
    (noteEv s e).phase = s.phase ∧ (noteEv s e).out = s.out ∧ (noteEv s e).queue = s.queue ∧
    (noteEv s e).dc = s.dc ∧ (noteEv s e).ds = s.ds ∧ (noteEv s e).stack = s.stack ∧ (noteEv s e).flow = s.flow ∧
    (noteEv s e).connected = s.connected := by
  cases e <;> simp [noteEv]

theorem relayAll_inv (s0 : Sess) (q hist : List Ev) (hp : s0.phase = .relay) (hst : relayStack s0)
    (hhk : s0.flow = false → hooks s0.out = []) (hsent : ∀ b, sentTo b s0.out = [])
    (hq : ∀ b, recvFrom b q = recvFrom b hist) : Inv (relayAll s0 q) hist := by
  obtain ⟨h1, h2, h3, h4⟩ := relayAll_spec s0 q hp
  have hrs : relayStack (relayAll s0 q) := by
    obtain ⟨ig, hs, hf⟩ := hst
    exact ⟨ig, by rw [h2.stack]; exact hs, by rw [h2.flow]; exact hf⟩
  have hhk' : (relayAll s0 q).flow = false → hooks (relayAll s0 q).out = [] := by
    intro hf
    rw [h2.flow] at hf
    rw [h4 hf]
    exact hhk hf
  rcases h1 with h1 | h1
  · unfold Inv; rw [h1]
    refine ⟨hrs, hhk', ?_⟩
    intro b
    rw [h3 h1 b, hsent b, ← hq b]
    rfl
  · unfold Inv; rw [h1]
    exact ⟨hrs, hhk'⟩

theorem startRelay_inv (s : Sess) (hist : List Ev) (hout : s.out = []) (hst : relayStack s)
    (hq : ∀ b, recvFrom b s.queue = recvFrom b hist) : Inv (startRelay s s.queue) hist := by
  unfold startRelay
  simp only [Sess.emit, hout, List.nil_append]
  split
  · apply relayAll_inv _ _ _ rfl
    · obtain ⟨ig, h1, h2⟩ := hst
      exact ⟨ig, h1, h2⟩
    · intro hf
      simp only at hf
      simp [hf, hooks]
    · intro b
      show sentTo b (if s.flow = true then [Out.hook 0] else []) = []
      cases s.flow <;> simp [sentTo]
    · exact hq
  · unfold Inv
    refine ⟨?_, ?_, ?_⟩
    · obtain ⟨ig, h1, h2⟩ := hst
      exact ⟨ig, h1, h2⟩
    · intro hf
      simp only at hf
      simp [hf, hooks]
    · intro b
      refine ⟨?_, hq b⟩
      show sentTo b ((if s.flow = true then [Out.hook 0] else []) ++ [Out.openServer]) = []
      cases s.flow <;> simp [sentTo]

theorem askNL_inv {Pat : Type} (E : Env Pat) (c : NCfg Pat) (s : Sess) (hist : List Ev)
    (hp : s.phase = .undecided) (hI : Inv s hist) : Inv (askNL E c s) hist := by
  unfold Inv at hI
  rw [hp] at hI
  obtain ⟨hout, hstk, hq, hdc, hds⟩ := hI
  unfold askNL
  cases hn : nextLayer E c s.dc s.ds with
  | needMore =>
    unfold Inv; simp only [hp]
    exact ⟨hout, hstk, hq, hdc, hds⟩
  | ok st =>
    simp only
    split
    · rename_i ig
      have := startRelay_inv { s with stack := [LK.tcp ig], flow := !ig } hist hout ⟨ig, Or.inl rfl, rfl⟩ hq
      exact this
    · rename_i ig
      have := startRelay_inv { s with stack := [LK.udp ig], flow := !ig } hist hout ⟨ig, Or.inr rfl, rfl⟩ hq
      exact this
    · rename_i h1 h2
      unfold Inv
      simp only
      intro ig
      exact ⟨fun e => h1 ig e, fun e => h2 ig e⟩

theorem step_inv {Pat : Type} (E : Env Pat) (c : NCfg Pat) (s : Sess) (hist : List Ev) (e : Ev)
    (hI : Inv s hist) : Inv (step E c s e) (hist ++ [e]) := by
  obtain ⟨nph, nout, nq, ndc, nds, nstk, nflow, nconn⟩ := noteEv_same s e
  unfold step
  simp only [nph]
  cases hp : s.phase with
  | undecided =>
    unfold Inv at hI; rw [hp] at hI
    obtain ⟨hout, hstk, hq, hdc, hds⟩ := hI
    cases e with
    | dataC d =>
      apply askNL_inv E c _ _ (by simp [nph, hp])
      unfold Inv; simp only [nph, hp, nout, nstk, nq, ndc, nds]
      refine ⟨hout, hstk, ?_, ?_, ?_⟩
      · intro b; rw [recvFrom_append, recvFrom_append, hq b]
      · rw [recvFrom_append, hdc]; simp [recvFrom]
      · rw [recvFrom_append, hds]; simp [recvFrom]
    | dataS d =>
      apply askNL_inv E c _ _ (by simp [nph, hp])
      unfold Inv; simp only [nph, hp, nout, nstk, nq, ndc, nds]
      refine ⟨hout, hstk, ?_, ?_, ?_⟩
      · intro b; rw [recvFrom_append, recvFrom_append, hq b]
      · rw [recvFrom_append, hdc]; simp [recvFrom]
      · rw [recvFrom_append, hds]; simp [recvFrom]
    | closeC =>
      unfold Inv; simp only [Sess.emit, nstk, nout, hout]
      exact ⟨hstk, fun b => by simp [sentTo]⟩
    | closeS =>
      unfold Inv; simp only [nph, hp, nout, nstk, nq, ndc, nds]
      refine ⟨hout, hstk, ?_, ?_, ?_⟩
      · intro b; rw [recvFrom_append, recvFrom_append, hq b]
      · rw [recvFrom_append, hdc]; simp [recvFrom]
      · rw [recvFrom_append, hds]; simp [recvFrom]
    | connOk =>
      unfold Inv; simp only [nph, hp, nout, nstk, nq, ndc, nds]
      refine ⟨hout, hstk, ?_, ?_, ?_⟩
      · intro b; rw [recvFrom_append, hq b]; simp [recvFrom]
      · rw [recvFrom_append, hdc]; simp [recvFrom]
      · rw [recvFrom_append, hds]; simp [recvFrom]
    | connErr =>
      unfold Inv; simp only [nph, hp, nout, nstk, nq, ndc, nds]
      refine ⟨hout, hstk, ?_, ?_, ?_⟩
      · intro b; rw [recvFrom_append, hq b]; simp [recvFrom]
      · rw [recvFrom_append, hdc]; simp [recvFrom]
      · rw [recvFrom_append, hds]; simp [recvFrom]
  | connecting =>
    unfold Inv at hI; rw [hp] at hI
    obtain ⟨hst, hhk, hq⟩ := hI
    have hst' : relayStack (noteEv s e) := by
      obtain ⟨ig, h1, h2⟩ := hst
      exact ⟨ig, by rw [nstk]; exact h1, by rw [nflow]; exact h2⟩
    cases e with
    | connOk =>
      simp only
      apply relayAll_inv _ _ _ rfl
      · obtain ⟨ig, h1, h2⟩ := hst'
        exact ⟨ig, h1, h2⟩
      · intro hf
        simp only [nout]
        exact hhk (by simpa [nflow] using hf)
      · intro b
        simp only [nout]
        exact (hq b).1
      · intro b
        rw [nq, (hq b).2, recvFrom_append]
        simp [recvFrom]
    | connErr =>
      unfold Inv
      simp only [Sess.emit, nout, nstk, nflow]
      refine ⟨?_, ?_, ?_⟩
      · obtain ⟨ig, h1, h2⟩ := hst
        exact ⟨ig, h1, h2⟩
      · intro hf
        rw [hooks_append, hhk hf]
        cases hcl : (noteEv s Ev.connErr).client.closed <;> simp [hf, hooks, hcl]
      · intro b
        rw [sentTo_append, (hq b).1]
        cases hcl : (noteEv s Ev.connErr).client.closed <;> cases s.flow <;> simp [sentTo, hcl]
    | dataC d =>
      unfold Inv; simp only [nph, hp, nout, nq]
      refine ⟨hst', by simpa [nflow] using hhk, ?_⟩
      intro b
      refine ⟨(hq b).1, ?_⟩
      rw [recvFrom_append, recvFrom_append, (hq b).2]
    | dataS d =>
      unfold Inv; simp only [nph, hp, nout, nq]
      refine ⟨hst', by simpa [nflow] using hhk, ?_⟩
      intro b
      refine ⟨(hq b).1, ?_⟩
      rw [recvFrom_append, recvFrom_append, (hq b).2]
    | closeC =>
      unfold Inv; simp only [nph, hp, nout, nq]
      refine ⟨hst', by simpa [nflow] using hhk, ?_⟩
      intro b
      refine ⟨(hq b).1, ?_⟩
      rw [recvFrom_append, recvFrom_append, (hq b).2]
    | closeS =>
      unfold Inv; simp only [nph, hp, nout, nq]
      refine ⟨hst', by simpa [nflow] using hhk, ?_⟩
      intro b
      refine ⟨(hq b).1, ?_⟩
      rw [recvFrom_append, recvFrom_append, (hq b).2]
  | relay =>
    unfold Inv at hI; rw [hp] at hI
    obtain ⟨hst, hhk, hs⟩ := hI
    simp only
    obtain ⟨h1, h2, h3, h4⟩ := relayEv_spec (noteEv s e) e (by rw [nph, hp])
    have hrs : relayStack (relayEv (noteEv s e) e) := by
      obtain ⟨ig, hs', hf⟩ := hst
      exact ⟨ig, by rw [h2.stack, nstk]; exact hs', by rw [h2.flow, nflow]; exact hf⟩
    have hhk' : (relayEv (noteEv s e) e).flow = false → hooks (relayEv (noteEv s e) e).out = [] := by
      intro hf
      rw [h2.flow] at hf
      rw [h4 hf, nout]
      exact hhk (by rw [← nflow]; exact hf)
    rcases h1 with h1 | h1
    · unfold Inv; rw [h1]
      refine ⟨hrs, hhk', ?_⟩
      intro b
      rw [h3 b, nout, hs b, recvFrom_append]
    · unfold Inv; rw [h1]
      exact ⟨hrs, hhk'⟩
  | done =>
    unfold Inv at hI ⊢; rw [hp] at hI
    simp only [nph, hp, nstk, nflow, nout]
    obtain ⟨⟨ig, h1, h2⟩, h3⟩ := hI
    exact ⟨⟨ig, by rw [nstk]; exact h1, by rw [nflow]; exact h2⟩, h3⟩
  | failed =>
    unfold Inv at hI ⊢; rw [hp] at hI
    simp only [nph, hp, nstk, nflow, nout]
    obtain ⟨⟨ig, h1, h2⟩, h3, h4⟩ := hI
    exact ⟨⟨ig, by rw [nstk]; exact h1, by rw [nflow]; exact h2⟩, h3, h4⟩
  | intercepted =>
    unfold Inv at hI ⊢; rw [hp] at hI
    simp only [nph, hp, nstk]
    exact hI
  | aborted =>
    unfold Inv at hI ⊢; rw [hp] at hI
    simp only [nph, hp, nstk, nout]
    exact hI

theorem run_inv {Pat : Type} (E : Env Pat) (c : NCfg Pat) (s : Sess) (hist evs : List Ev)
    (hI : Inv s hist) : Inv (run E c s evs) (hist ++ evs) := by
  induction evs generalizing s hist with
  | nil => simpa [run] using hI
  | cons e es ih =>
    have := ih (step E c s e) (hist ++ [e]) (step_inv E c s hist e hI)
    simpa [run, List.append_assoc] using this

theorem init_inv (tcp connected : Bool) : Inv (Sess.init tcp connected) [] := by
  unfold Inv Sess.init
  simp [recvFrom]

/-! ## the first flight through the connection model: the session decides exactly where `_next_layer` answers -/

/-- every queued event is client data -/
def QD (s : Sess) : Prop := ∀ e ∈ s.queue, ∃ d, e = Ev.dataC d

theorem relayAll_dataC (s : Sess) (q : List Ev) (hp : s.phase = .relay) (hq : ∀ e ∈ q, ∃ d, e = Ev.dataC d) :
    (relayAll s q).phase = .relay := by
  induction q generalizing s with
  | nil => simpa [relayAll] using hp
  | cons e es ih =>
    obtain ⟨d, rfl⟩ := hq e (by simp)
    simp only [relayAll, hp, if_true]
    apply ih
    · simp [relayEv, Sess.emit, hp]
    · intro e he; exact hq e (List.mem_cons_of_mem _ he)

theorem startRelay_first (s : Sess) (hq : QD s) :
    (startRelay s s.queue).stack = s.stack ∧
    (((startRelay s s.queue).phase = .relay) ∨ ((startRelay s s.queue).phase = .connecting ∧ QD (startRelay s s.queue))) := by
  cases hc : s.connected with
  | true =>
    have : startRelay s s.queue
        = relayAll { s.emit (if s.flow = true then [Out.hook 0] else []) with phase := Phase.relay, queue := [] } s.queue := by
      simp [startRelay, Sess.emit, hc]
    rw [this]
    exact ⟨(relayAll_spec _ s.queue rfl).2.1.stack, Or.inl (relayAll_dataC _ s.queue rfl hq)⟩
  | false =>
    have : startRelay s s.queue
        = { (s.emit (if s.flow = true then [Out.hook 0] else [])).emit [Out.openServer] with phase := Phase.connecting, queue := s.queue } := by
      simp [startRelay, Sess.emit, hc]
    rw [this]
    exact ⟨rfl, Or.inr ⟨rfl, hq⟩⟩

/-- after the decision more client data changes neither the stack nor the kind of phase -/
theorem step_dataC_decided {Pat : Type} (E : Env Pat) (c : NCfg Pat) (s : Sess) (d : Bytes)
    (hp : s.phase = .relay ∨ (s.phase = .connecting ∧ QD s) ∨ s.phase = .intercepted) :
    (step E c s (.dataC d)).stack = s.stack ∧
    ((step E c s (.dataC d)).phase = .relay ∨ ((step E c s (.dataC d)).phase = .connecting ∧ QD (step E c s (.dataC d))) ∨
      (step E c s (.dataC d)).phase = .intercepted) := by
  rcases hp with hp | ⟨hp, hq⟩ | hp
  · simp [step, noteEv, hp, relayEv, Sess.emit]
  · refine ⟨by simp [step, noteEv, hp], Or.inr (Or.inl ⟨by simp [step, noteEv, hp], ?_⟩)⟩
    intro e he
    simp only [step, noteEv, hp, List.mem_append, List.mem_cons, List.mem_nil_iff, or_false] at he
    rcases he with he | he
    · exact hq e he
    · exact ⟨d, he⟩
  · simp [step, noteEv, hp]

theorem run_dataC_decided {Pat : Type} (E : Env Pat) (c : NCfg Pat) (s : Sess) (segs : List Bytes)
    (hp : s.phase = .relay ∨ (s.phase = .connecting ∧ QD s) ∨ s.phase = .intercepted) :
    (run E c s (segs.map Ev.dataC)).stack = s.stack ∧
    ((run E c s (segs.map Ev.dataC)).phase = .relay ∨ (run E c s (segs.map Ev.dataC)).phase = .connecting ∨
      (run E c s (segs.map Ev.dataC)).phase = .intercepted) := by
  induction segs generalizing s with
  | nil => rcases hp with h | ⟨h, _⟩ | h <;> simp [run, h]
  | cons d ds ih =>
    obtain ⟨h1, h2⟩ := step_dataC_decided E c s d hp
    have := ih (step E c s (.dataC d)) h2
    simp only [List.map_cons, run, List.foldl_cons] at this ⊢
    exact ⟨this.1.trans h1, this.2⟩

/-- **the session asks like `askSegs`**: feeding the first flight segment by segment, the connection model stays undecided
    exactly as long as `_next_layer` says NeedsMoreData on the accumulated bytes, and then instantiates exactly the stack
    `_next_layer` returns there -/
theorem session_asks {Pat : Type} (E : Env Pat) (c : NCfg Pat) (s0 : Sess) (segs : List Bytes)
    (hp : s0.phase = .undecided) (hds : s0.ds = []) (hq : QD s0) :
    match askSegs (fun d => nextLayer E c d []) s0.dc segs with
    | .needMore => (run E c s0 (segs.map Ev.dataC)).phase = .undecided ∧
        (run E c s0 (segs.map Ev.dataC)).dc = s0.dc ++ segs.flatten
    | .ok st => (run E c s0 (segs.map Ev.dataC)).stack = st ∧
        ((run E c s0 (segs.map Ev.dataC)).phase = .relay ∨ (run E c s0 (segs.map Ev.dataC)).phase = .connecting ∨
          (run E c s0 (segs.map Ev.dataC)).phase = .intercepted) := by
  induction segs generalizing s0 with
  | nil => simp [askSegs, run, hp]
  | cons d ds ih =>
    simp only [askSegs, List.map_cons, run, List.foldl_cons, List.flatten_cons]
    have hstep : step E c s0 (.dataC d)
        = askNL E c { s0 with queue := s0.queue ++ [Ev.dataC d], dc := s0.dc ++ d } := by
      simp [step, noteEv, hp]
    have hq1 : QD { s0 with queue := s0.queue ++ [Ev.dataC d], dc := s0.dc ++ d } := by
      intro e he
      simp only [List.mem_append, List.mem_cons, List.mem_nil_iff, or_false] at he
      rcases he with he | he
      · exact hq e he
      · exact ⟨d, he⟩
    cases hn : nextLayer E c (s0.dc ++ d) [] with
    | needMore =>
      have hs1 : step E c s0 (.dataC d) = { s0 with queue := s0.queue ++ [Ev.dataC d], dc := s0.dc ++ d } := by
        rw [hstep]; simp [askNL, hds, hn]
      have := ih { s0 with queue := s0.queue ++ [Ev.dataC d], dc := s0.dc ++ d } hp hds hq1
      simp only [run] at this
      rw [hs1]
      simpa [List.append_assoc] using this
    | ok st =>
      simp only
      have hdec : (step E c s0 (.dataC d)).stack = st ∧
          ((step E c s0 (.dataC d)).phase = .relay ∨ ((step E c s0 (.dataC d)).phase = .connecting ∧ QD (step E c s0 (.dataC d))) ∨
            (step E c s0 (.dataC d)).phase = .intercepted) := by
        have hn' : nextLayer E c (s0.dc ++ d) s0.ds = .ok st := by rw [hds]; exact hn
        rw [hstep]
        unfold askNL
        simp only [hn']
        split
        · rename_i ig
          obtain ⟨h1, h2⟩ := startRelay_first { s0 with queue := s0.queue ++ [Ev.dataC d], dc := s0.dc ++ d, stack := [LK.tcp ig], flow := !ig } hq1
          exact ⟨h1, by rcases h2 with h | h; exact Or.inl h; exact Or.inr (Or.inl h)⟩
        · rename_i ig
          obtain ⟨h1, h2⟩ := startRelay_first { s0 with queue := s0.queue ++ [Ev.dataC d], dc := s0.dc ++ d, stack := [LK.udp ig], flow := !ig } hq1
          exact ⟨h1, by rcases h2 with h | h; exact Or.inl h; exact Or.inr (Or.inl h)⟩
        · exact ⟨rfl, Or.inr (Or.inr rfl)⟩
      obtain ⟨h1, h2⟩ := run_dataC_decided E c (step E c s0 (.dataC d)) ds hdec.2
      simp only [run] at h1 h2
      exact ⟨h1.trans hdec.1, h2⟩

/-- an "ignore" answer of the verdict asked segment by segment is a relay stack asked segment by segment -/
theorem askSegs_ignore_relay {Pat : Type} (E : Env Pat) (c : NCfg Pat) (acc : Bytes) (segs : List Bytes)
    (h : askSegs (fun d => ignoreConnection E c.toCfg d []) acc segs = .ok true) :
    askSegs (fun d => nextLayer E c d []) acc segs = .ok [relayLayer c.tcp (!c.showIgnored)] := by
  induction segs generalizing acc with
  | nil => simp [askSegs] at h
  | cons s ss ih =>
    simp only [askSegs] at h ⊢
    cases hf : ignoreConnection E c.toCfg (acc ++ s) [] with
    | needMore =>
      simp only [hf] at h
      simp only [nextLayer, hf]
      exact ih (acc ++ s) h
    | ok b =>
      simp only [hf] at h
      cases h
      simp [nextLayer, hf]

/-- a "not excluded" answer asked segment by segment is an intercepting stack asked segment by segment -/
theorem askSegs_notignore {Pat : Type} (E : Env Pat) (c : NCfg Pat) (acc : Bytes) (segs : List Bytes)
    (h : askSegs (fun d => ignoreConnection E c.toCfg d []) acc segs = .ok false) :
    ∃ p, askSegs (fun d => nextLayer E c d []) acc segs = .ok (intercept E c p []) := by
  induction segs generalizing acc with
  | nil => simp [askSegs] at h
  | cons s ss ih =>
    simp only [askSegs] at h ⊢
    cases hf : ignoreConnection E c.toCfg (acc ++ s) [] with
    | needMore =>
      simp only [hf] at h
      simp only [nextLayer, hf]
      exact ih (acc ++ s) h
    | ok b =>
      simp only [hf] at h
      cases h
      exact ⟨acc ++ s, by simp [nextLayer, hf]⟩

/-! ## for EVERY history, admissible or not: what is sent is a prefix of what was received -/

/-- nothing invented, altered, reordered or duplicated -/
def Inv3 (s : Sess) (hist : List Ev) : Prop := ∀ b, ∃ t, sentTo b s.out ++ t = recvFrom b hist

theorem relayAll_prefix (s : Sess) (q : List Ev) (hp : s.phase = .relay) :
    ∃ q1 q2, q = q1 ++ q2 ∧ ∀ b, sentTo b (relayAll s q).out = sentTo b s.out ++ recvFrom b q1 := by
  induction q generalizing s with
  | nil => exact ⟨[], [], rfl, fun b => by simp [relayAll, recvFrom]⟩
  | cons e es ih =>
    simp only [relayAll, hp, if_true]
    obtain ⟨hph, _, hsent, _⟩ := relayEv_spec s e hp
    rcases hph with hph | hph
    · obtain ⟨q1, q2, hq, h⟩ := ih (relayEv s e) hph
      refine ⟨e :: q1, q2, by simp [hq], ?_⟩
      intro b
      rw [h b, hsent b]
      have : recvFrom b (e :: q1) = recvFrom b [e] ++ recvFrom b q1 := recvFrom_append b [e] q1
      rw [this, List.append_assoc]
    · have hstop : relayAll (relayEv s e) es = relayEv s e := by
        cases es with
        | nil => rfl
        | cons x xs => simp [relayAll, hph]
      rw [hstop]
      exact ⟨[e], es, rfl, hsent⟩

theorem inv3_of_nil (s : Sess) (hist : List Ev) (h : ∀ b, sentTo b s.out = []) : Inv3 s hist :=
  fun b => ⟨recvFrom b hist, by rw [h b]; rfl⟩

theorem relayAll_inv3 (s0 : Sess) (q hist : List Ev) (hp : s0.phase = .relay) (hsent : ∀ b, sentTo b s0.out = [])
    (hq : ∀ b, recvFrom b q = recvFrom b hist) : Inv3 (relayAll s0 q) hist := by
  obtain ⟨q1, q2, hqq, h⟩ := relayAll_prefix s0 q hp
  intro b
  refine ⟨recvFrom b q2, ?_⟩
  rw [h b, hsent b, ← hq b, hqq, recvFrom_append]
  rfl

theorem startRelay_inv3 (s : Sess) (hist : List Ev) (hout : s.out = [])
    (hq : ∀ b, recvFrom b s.queue = recvFrom b hist) : Inv3 (startRelay s s.queue) hist := by
  cases hc : s.connected with
  | true =>
    have : startRelay s s.queue
        = relayAll { s.emit (if s.flow = true then [Out.hook 0] else []) with phase := Phase.relay, queue := [] } s.queue := by
      simp [startRelay, Sess.emit, hc]
    rw [this]
    apply relayAll_inv3 _ _ _ rfl _ hq
    intro b
    show sentTo b (s.out ++ if s.flow = true then [Out.hook 0] else []) = []
    rw [hout]; cases s.flow <;> simp [sentTo]
  | false =>
    have : startRelay s s.queue
        = { (s.emit (if s.flow = true then [Out.hook 0] else [])).emit [Out.openServer] with phase := Phase.connecting, queue := s.queue } := by
      simp [startRelay, Sess.emit, hc]
    rw [this]
    apply inv3_of_nil
    intro b
    show sentTo b ((s.out ++ if s.flow = true then [Out.hook 0] else []) ++ [Out.openServer]) = []
    rw [hout]; cases s.flow <;> simp [sentTo]

theorem askNL_inv3 {Pat : Type} (E : Env Pat) (c : NCfg Pat) (s : Sess) (hist : List Ev) (hout : s.out = [])
    (hq : ∀ b, recvFrom b s.queue = recvFrom b hist) : Inv3 (askNL E c s) hist := by
  unfold askNL
  cases nextLayer E c s.dc s.ds with
  | needMore => exact inv3_of_nil _ _ (fun b => by rw [hout]; rfl)
  | ok st =>
    simp only
    split
    · rename_i ig
      exact startRelay_inv3 { s with stack := [LK.tcp ig], flow := !ig } hist hout hq
    · rename_i ig
      exact startRelay_inv3 { s with stack := [LK.udp ig], flow := !ig } hist hout hq
    · exact inv3_of_nil _ _ (fun b => by show sentTo b s.out = []; rw [hout]; rfl)

theorem inv3_extend (s t : Sess) (hist : List Ev) (e : Ev) (h : Inv3 s hist) (hout : t.out = s.out) :
    Inv3 t (hist ++ [e]) := by
  intro b
  obtain ⟨x, hx⟩ := h b
  exact ⟨x ++ recvFrom b [e], by rw [hout, ← List.append_assoc, hx, recvFrom_append]⟩

theorem step_inv3 {Pat : Type} (E : Env Pat) (c : NCfg Pat) (s : Sess) (hist : List Ev) (e : Ev)
    (hI : Inv s hist) (h3 : Inv3 s hist) : Inv3 (step E c s e) (hist ++ [e]) := by
  obtain ⟨nph, nout, nq, ndc, nds, nstk, nflow, nconn⟩ := noteEv_same s e
  unfold step
  simp only [nph]
  cases hp : s.phase with
  | undecided =>
    unfold MitmVerif.C19.Inv at hI; rw [hp] at hI
    obtain ⟨hout, _, hq, _, _⟩ := hI
    have hq' : ∀ b, recvFrom b ((noteEv s e).queue ++ [e]) = recvFrom b (hist ++ [e]) := by
      intro b; rw [nq, recvFrom_append, recvFrom_append, hq b]
    cases e with
    | dataC d => exact askNL_inv3 E c _ _ (by simp [nout, hout]) hq'
    | dataS d => exact askNL_inv3 E c _ _ (by simp [nout, hout]) hq'
    | closeC => exact inv3_of_nil _ _ (fun b => by simp [Sess.emit, nout, hout, sentTo])
    | closeS => exact inv3_of_nil _ _ (fun b => by simp [nout, hout, sentTo])
    | connOk => exact inv3_of_nil _ _ (fun b => by simp [nout, hout, sentTo])
    | connErr => exact inv3_of_nil _ _ (fun b => by simp [nout, hout, sentTo])
  | connecting =>
    unfold MitmVerif.C19.Inv at hI; rw [hp] at hI
    obtain ⟨_, _, hq⟩ := hI
    cases e with
    | connOk =>
      simp only
      apply relayAll_inv3 _ _ _ rfl
      · intro b; simp only [nout]; exact (hq b).1
      · intro b; rw [nq, (hq b).2, recvFrom_append]; simp [recvFrom]
    | connErr =>
      apply inv3_of_nil
      intro b
      simp only [Sess.emit, nout, nflow, sentTo_append, (hq b).1]
      cases s.flow <;> cases (noteEv s Ev.connErr).client.closed <;> simp [sentTo]
    | dataC d => exact inv3_of_nil _ _ (fun b => by simp only [nout]; exact (hq b).1)
    | dataS d => exact inv3_of_nil _ _ (fun b => by simp only [nout]; exact (hq b).1)
    | closeC => exact inv3_of_nil _ _ (fun b => by simp only [nout]; exact (hq b).1)
    | closeS => exact inv3_of_nil _ _ (fun b => by simp only [nout]; exact (hq b).1)
  | relay =>
    unfold MitmVerif.C19.Inv at hI; rw [hp] at hI
    obtain ⟨_, _, hs⟩ := hI
    simp only
    obtain ⟨_, _, h3', _⟩ := relayEv_spec (noteEv s e) e (by rw [nph, hp])
    intro b
    exact ⟨[], by rw [List.append_nil, h3' b, nout, hs b, recvFrom_append]⟩
  | done => exact inv3_extend s _ hist e h3 nout
  | failed => exact inv3_extend s _ hist e h3 nout
  | intercepted => exact inv3_extend s _ hist e h3 nout
  | aborted => exact inv3_extend s _ hist e h3 nout

theorem run_inv3 {Pat : Type} (E : Env Pat) (c : NCfg Pat) (s : Sess) (hist evs : List Ev)
    (hI : Inv s hist) (h3 : Inv3 s hist) : Inv3 (run E c s evs) (hist ++ evs) := by
  induction evs generalizing s hist with
  | nil => simpa [run] using h3
  | cons e es ih =>
    have := ih (step E c s e) (hist ++ [e]) (step_inv E c s hist e hI) (step_inv3 E c s hist e hI h3)
    simpa [run, List.append_assoc] using this

/-! ## through the closing events: admissible histories -/

/-- what the environment (server.py's read loops) can deliver in state `s`: data and EOF only from a connection that is
    still readable, a connect result only while one is awaited. For UDP, an association that ends before the relay is
    active leaves nowhere to relay to (`UDPLayer.done` swallows later datagrams, code and model alike): such histories
    are outside the stream-equality theorem. -/
def Adm (s : Sess) : Ev → Prop
  | .dataC _ => s.client.canRead = true
  | .dataS _ => s.server.canRead = true
  | .closeC => s.client.canRead = true ∧ (s.tcp = true ∨ s.phase ≠ .connecting)
  | .closeS => s.server.canRead = true ∧ (s.tcp = true ∨ s.phase ≠ .undecided)
  | .connOk => s.phase = .connecting
  | .connErr => s.phase = .connecting

def AdmRun {Pat : Type} (E : Env Pat) (c : NCfg Pat) : Sess → List Ev → Prop
  | _, [] => True
  | s, e :: es => Adm s e ∧ AdmRun E c (step E c s e) es

/-- under which the replay of buffered events cannot finish the relay -/
def Guard (s : Sess) (q : List Ev) : Prop :=
  (s.tcp = true ∧ s.client.canRead = true ∧ Ev.closeC ∉ q) ∨
  (s.tcp = true ∧ s.server.canRead = true ∧ Ev.closeS ∉ q) ∨
  (s.tcp = false ∧ Ev.closeC ∉ q ∧ Ev.closeS ∉ q)

theorem relayEv_tcp (s : Sess) (e : Ev) : (relayEv s e).tcp = s.tcp := by
  cases e <;> simp only [relayEv, Sess.emit] <;> (repeat' split) <;> rfl

theorem relayEv_guard (s : Sess) (e : Ev) (q : List Ev) (hp : s.phase = .relay) (hg : Guard s (e :: q)) :
    (relayEv s e).phase = .relay ∧ Guard (relayEv s e) q := by
  rcases hg with ⟨ht, hr, hn⟩ | ⟨ht, hr, hn⟩ | ⟨ht, hn1, hn2⟩
  · have hq : Ev.closeC ∉ q := fun h => hn (List.mem_cons_of_mem _ h)
    cases e with
    | dataC d => exact ⟨by simp [relayEv, Sess.emit, hp], Or.inl ⟨ht, hr, hq⟩⟩
    | dataS d => exact ⟨by simp [relayEv, Sess.emit, hp], Or.inl ⟨ht, hr, hq⟩⟩
    | closeC => exact absurd (List.mem_cons_self) hn
    | closeS =>
      simp only [relayEv, ht, if_true, hr, Bool.not_true, Bool.false_and, Bool.false_eq_true, if_false]
      exact ⟨hp, Or.inl ⟨ht, by simp [applyClose, hr], hq⟩⟩
    | connOk => exact ⟨hp, Or.inl ⟨ht, hr, hq⟩⟩
    | connErr => exact ⟨hp, Or.inl ⟨ht, hr, hq⟩⟩
  · have hq : Ev.closeS ∉ q := fun h => hn (List.mem_cons_of_mem _ h)
    cases e with
    | dataC d => exact ⟨by simp [relayEv, Sess.emit, hp], Or.inr (Or.inl ⟨ht, hr, hq⟩)⟩
    | dataS d => exact ⟨by simp [relayEv, Sess.emit, hp], Or.inr (Or.inl ⟨ht, hr, hq⟩)⟩
    | closeS => exact absurd (List.mem_cons_self) hn
    | closeC =>
      simp only [relayEv, ht, if_true, hr, Bool.not_true, Bool.and_false, Bool.false_eq_true, if_false]
      exact ⟨hp, Or.inr (Or.inl ⟨ht, by simp [applyClose, hr], hq⟩)⟩
    | connOk => exact ⟨hp, Or.inr (Or.inl ⟨ht, hr, hq⟩)⟩
    | connErr => exact ⟨hp, Or.inr (Or.inl ⟨ht, hr, hq⟩)⟩
  · have hq1 : Ev.closeC ∉ q := fun h => hn1 (List.mem_cons_of_mem _ h)
    have hq2 : Ev.closeS ∉ q := fun h => hn2 (List.mem_cons_of_mem _ h)
    cases e with
    | dataC d => exact ⟨by simp [relayEv, Sess.emit, hp], Or.inr (Or.inr ⟨ht, hq1, hq2⟩)⟩
    | dataS d => exact ⟨by simp [relayEv, Sess.emit, hp], Or.inr (Or.inr ⟨ht, hq1, hq2⟩)⟩
    | closeC => exact absurd (List.mem_cons_self) hn1
    | closeS => exact absurd (List.mem_cons_self) hn2
    | connOk => exact ⟨hp, Or.inr (Or.inr ⟨ht, hq1, hq2⟩)⟩
    | connErr => exact ⟨hp, Or.inr (Or.inr ⟨ht, hq1, hq2⟩)⟩

/-- a guarded replay never finishes the relay: every buffered event is handed on -/
theorem relayAll_guard (s : Sess) (q : List Ev) (hp : s.phase = .relay) (hg : Guard s q) :
    (relayAll s q).phase = .relay := by
  induction q generalizing s with
  | nil => simpa [relayAll] using hp
  | cons e es ih =>
    simp only [relayAll, hp, if_true]
    obtain ⟨h1, h2⟩ := relayEv_guard s e es hp hg
    exact ih _ h1 h2

/-- the relay finishes only when nothing can be read any more -/
theorem relayEv_done (s : Sess) (e : Ev) (hp : s.phase = .relay) (hd : (relayEv s e).phase = .done)
    (hc : e = .closeC → s.tcp = false → s.client.canRead = false)
    (hs : e = .closeS → s.tcp = false → s.server.canRead = false) :
    (relayEv s e).client.canRead = false ∧ (relayEv s e).server.canRead = false := by
  cases e with
  | dataC d => simp [relayEv, Sess.emit, hp] at hd
  | dataS d => simp [relayEv, Sess.emit, hp] at hd
  | connOk => simp [relayEv, hp] at hd
  | connErr => simp [relayEv, hp] at hd
  | closeC =>
    cases ht : s.tcp with
    | true =>
      simp only [relayEv, ht, if_true] at hd ⊢
      split at hd
      · rename_i h; simp [h]
      · simp [Sess.emit, hp] at hd
    | false =>
      have := hc rfl ht
      simp [relayEv, ht, Sess.emit, this]
  | closeS =>
    cases ht : s.tcp with
    | true =>
      simp only [relayEv, ht, if_true] at hd ⊢
      split at hd
      · rename_i h; simp [h]
      · simp [Sess.emit, hp] at hd
    | false =>
      have := hs rfl ht
      simp [relayEv, ht, Sess.emit, this]

theorem noteEv_tcp (s : Sess) (e : Ev) : (noteEv s e).tcp = s.tcp := by cases e <;> rfl

/-- the part of the invariant that needs admissibility -/
def Inv2 (s : Sess) (hist : List Ev) : Prop :=
  match s.phase with
  | .undecided => s.client.canRead = true ∧ Ev.closeC ∉ s.queue ∧
      (s.connected = false → s.server.canRead = false ∧ Ev.closeS ∉ s.queue) ∧
      (s.tcp = false → Ev.closeS ∉ s.queue)
  | .connecting => s.connected = false ∧ s.server.canRead = false ∧ Ev.closeS ∉ s.queue ∧
      (s.tcp = false → Ev.closeC ∉ s.queue)
  | .done => s.client.canRead = false ∧ s.server.canRead = false ∧ ∀ b, sentTo b s.out = recvFrom b hist
  | _ => True

theorem relayAll_cfg (s : Sess) (q : List Ev) (hp : s.phase = .relay) :
    (relayAll s q).tcp = s.tcp := (relayAll_spec s q hp).2.1.tcp

theorem inv2_of_relay (t : Sess) (hist : List Ev) (h : t.phase = .relay) : Inv2 t hist := by
  unfold Inv2; rw [h]; trivial

theorem startRelay_inv2 (s : Sess) (hist : List Ev) (hp : s.phase = .undecided) (h2 : Inv2 s hist) :
    Inv2 (startRelay s s.queue) hist := by
  unfold Inv2 at h2; rw [hp] at h2
  obtain ⟨hcr, hncc, hconn, hudp⟩ := h2
  cases hc : s.connected with
  | true =>
    have : startRelay s s.queue
        = relayAll { s.emit (if s.flow = true then [Out.hook 0] else []) with phase := Phase.relay, queue := [] } s.queue := by
      simp [startRelay, Sess.emit, hc]
    rw [this]
    apply inv2_of_relay
    apply relayAll_guard _ _ rfl
    cases ht : s.tcp with
    | true => exact Or.inl ⟨ht, hcr, hncc⟩
    | false => exact Or.inr (Or.inr ⟨ht, hncc, hudp ht⟩)
  | false =>
    have : startRelay s s.queue
        = { (s.emit (if s.flow = true then [Out.hook 0] else [])).emit [Out.openServer] with phase := Phase.connecting, queue := s.queue } := by
      simp [startRelay, Sess.emit, hc]
    rw [this]
    unfold Inv2
    exact ⟨hc, (hconn hc).1, (hconn hc).2, fun _ => hncc⟩

theorem askNL_inv2 {Pat : Type} (E : Env Pat) (c : NCfg Pat) (s : Sess) (hist : List Ev)
    (hp : s.phase = .undecided) (h2 : Inv2 s hist) : Inv2 (askNL E c s) hist := by
  unfold askNL
  cases hn : nextLayer E c s.dc s.ds with
  | needMore => exact h2
  | ok st =>
    simp only
    split
    · rename_i ig
      apply startRelay_inv2 { s with stack := [LK.tcp ig], flow := !ig } hist hp
      unfold Inv2 at h2 ⊢; rw [hp] at h2; simpa [hp] using h2
    · rename_i ig
      apply startRelay_inv2 { s with stack := [LK.udp ig], flow := !ig } hist hp
      unfold Inv2 at h2 ⊢; rw [hp] at h2; simpa [hp] using h2
    · unfold Inv2; trivial

theorem step_inv2 {Pat : Type} (E : Env Pat) (c : NCfg Pat) (s : Sess) (hist : List Ev) (e : Ev)
    (hI : Inv s hist) (h2 : Inv2 s hist) (ha : Adm s e) : Inv2 (step E c s e) (hist ++ [e]) := by
  obtain ⟨nph, nout, nq, ndc, nds, nstk, nflow, nconn⟩ := noteEv_same s e
  have ntcp := noteEv_tcp s e
  unfold step
  simp only [nph]
  cases hp : s.phase with
  | undecided =>
    unfold Inv2 at h2; rw [hp] at h2
    obtain ⟨hcr, hncc, hconn, hudp⟩ := h2
    cases e with
    | dataC d =>
      apply askNL_inv2 E c _ _ (by simp [nph, hp])
      unfold Inv2; simp only [nph, hp, nq, nconn, ntcp]
      refine ⟨by simpa [noteEv] using hcr, by simpa using hncc, ?_, ?_⟩
      · intro h; exact ⟨by simpa [noteEv] using (hconn h).1, by simpa using (hconn h).2⟩
      · intro h; simpa using hudp h
    | dataS d =>
      apply askNL_inv2 E c _ _ (by simp [nph, hp])
      unfold Inv2; simp only [nph, hp, nq, nconn, ntcp]
      refine ⟨by simpa [noteEv] using hcr, by simpa using hncc, ?_, ?_⟩
      · intro h; exact ⟨by simpa [noteEv] using (hconn h).1, by simpa using (hconn h).2⟩
      · intro h; simpa using hudp h
    | closeC => unfold Inv2; trivial
    | closeS =>
      simp only [Adm, hp] at ha
      unfold Inv2; simp only [nph, hp, nq, nconn, ntcp]
      refine ⟨by simpa [noteEv] using hcr, by simpa using hncc, ?_, ?_⟩
      · intro h; rw [(hconn h).1] at ha; exact absurd ha.1 (by simp)
      · intro h; rcases ha.2 with h' | h'
        · rw [h] at h'; cases h'
        · exact absurd rfl h'
    | connOk => simp only [Adm, hp] at ha; cases ha
    | connErr => simp only [Adm, hp] at ha; cases ha
  | connecting =>
    unfold Inv2 at h2; rw [hp] at h2
    obtain ⟨hconn, hsr, hncs, hudp⟩ := h2
    cases e with
    | connOk =>
      simp only
      apply inv2_of_relay
      apply relayAll_guard _ _ rfl
      rw [nq]
      cases ht : s.tcp with
      | true => exact Or.inr (Or.inl ⟨by rw [← ht]; exact ntcp, rfl, hncs⟩)
      | false => exact Or.inr (Or.inr ⟨by rw [← ht]; exact ntcp, hudp ht, hncs⟩)
    | connErr => unfold Inv2; trivial
    | dataC d =>
      unfold Inv2; simp only [nph, hp, nq, nconn, ntcp]
      exact ⟨hconn, by simpa [noteEv] using hsr, by simpa using hncs, fun h => by simpa using hudp h⟩
    | dataS d =>
      simp only [Adm] at ha; rw [hsr] at ha; cases ha
    | closeC =>
      simp only [Adm, hp] at ha
      unfold Inv2; simp only [nph, hp, nq, nconn, ntcp]
      refine ⟨hconn, by simpa [noteEv] using hsr, by simpa using hncs, ?_⟩
      intro h; rcases ha.2 with h' | h'
      · rw [h] at h'; cases h'
      · exact absurd rfl h'
    | closeS =>
      simp only [Adm] at ha; rw [hsr] at ha; exact absurd ha.1 (by simp)
  | relay =>
    simp only
    unfold MitmVerif.C19.Inv at hI; rw [hp] at hI
    obtain ⟨_, _, hs⟩ := hI
    obtain ⟨h1, _, h3, _⟩ := relayEv_spec (noteEv s e) e (by rw [nph, hp])
    rcases h1 with h1 | h1
    · unfold Inv2; rw [h1]; trivial
    · have hd := relayEv_done (noteEv s e) e (by rw [nph, hp]) h1
        (by intro he ht; subst he; rw [ntcp] at ht; simp [noteEv, ht])
        (by intro he ht; subst he; rw [ntcp] at ht; simp [noteEv, ht])
      unfold Inv2; rw [h1]
      refine ⟨hd.1, hd.2, ?_⟩
      intro b
      rw [h3 b, nout, hs b, recvFrom_append]
  | done =>
    unfold Inv2 at h2; rw [hp] at h2
    obtain ⟨hc, hsv, hs⟩ := h2
    cases e with
    | dataC d => simp only [Adm] at ha; rw [hc] at ha; cases ha
    | dataS d => simp only [Adm] at ha; rw [hsv] at ha; cases ha
    | closeC => simp only [Adm] at ha; rw [hc] at ha; exact absurd ha.1 (by simp)
    | closeS => simp only [Adm] at ha; rw [hsv] at ha; exact absurd ha.1 (by simp)
    | connOk => simp only [Adm, hp] at ha; cases ha
    | connErr => simp only [Adm, hp] at ha; cases ha
  | failed => unfold Inv2; simp only [nph, hp]
  | intercepted => unfold Inv2; simp only [nph, hp]
  | aborted => unfold Inv2; simp only [nph, hp]

theorem run_inv2 {Pat : Type} (E : Env Pat) (c : NCfg Pat) (s : Sess) (hist evs : List Ev)
    (hI : Inv s hist) (h2 : Inv2 s hist) (ha : AdmRun E c s evs) :
    Inv (run E c s evs) (hist ++ evs) ∧ Inv2 (run E c s evs) (hist ++ evs) := by
  induction evs generalizing s hist with
  | nil => simpa [run] using ⟨hI, h2⟩
  | cons e es ih =>
    obtain ⟨ha1, ha2⟩ := ha
    have := ih (step E c s e) (hist ++ [e]) (step_inv E c s hist e hI) (step_inv2 E c s hist e hI h2 ha1) ha2
    simpa [run, List.append_assoc] using this

theorem init_inv2 (tcp connected : Bool) : Inv2 (Sess.init tcp connected) [] := by
  unfold Inv2 Sess.init
  simp

/-! ## datagram transports -/

theorem startsLike_length (dtls : Bool) (p : Bytes) (h : C13.startsLike dtls p = true) : 3 ≤ p.length := by
  match p, h with
  | a :: b :: c :: r, _ => simp

theorem startsLikeQuic_of_dtls (d : Bytes) (port : Option Nat) (h : C13.startsLike true d = true) :
    startsLikeQuic d port = false := by
  unfold startsLikeQuic
  split
  · rfl
  · simp [h]

theorem clientHello_append_dtls {Pat : Type} (E : Env Pat) (port : Option Nat) (p q : Bytes) (r : Option Bytes)
    (hd : C13.startsLike true p = true) (h : clientHello E false port p = .ok r) :
    clientHello E false port (p ++ q) = .ok r := by
  have h3 := startsLike_length true p hd
  have hd' : C13.startsLike true (p ++ q) = true := by rw [startsLike_append true p q h3]; exact hd
  unfold clientHello at h ⊢
  simp only [Bool.false_eq_true, if_false, startsLikeQuic_of_dtls p port hd, startsLikeQuic_of_dtls (p ++ q) port hd',
    hd, hd', if_true] at h ⊢
  have hne : C13.parse true p ≠ .incomplete := by
    intro e; rw [e] at h; cases h
  rw [MitmVerif.Props.C13.prefix_stable true p q hne]
  exact h

theorem ignoreConnection_append_dtls {Pat : Type} (E : Env Pat) (c : Cfg Pat) (p q ds : Bytes) (b : Bool)
    (hudp : c.tcp = false) (hd : C13.startsLike true p = true)
    (h : ignoreConnection E c p ds = .ok b) : ignoreConnection E c (p ++ q) ds = .ok b := by
  unfold ignoreConnection at h ⊢
  by_cases h1 : (c.ignorePats.isEmpty && c.allowPats.isEmpty) = true
  · simpa [h1] using h
  · simp only [h1] at h ⊢
    by_cases h2 : exempt c = true
    · simpa [h2] using h
    · simp only [h2] at h ⊢
      have hc : ∀ hs, candidates E c p ds = .ok hs → candidates E c (p ++ q) ds = .ok hs := by
        intro hs hcand
        unfold candidates at hcand ⊢
        cases ha : c.address with
        | none => simpa [ha] using hcand
        | some hp' =>
          obtain ⟨host, port⟩ := hp'
          simp only [ha, hudp, hostHeader, Bool.not_false, Bool.true_or, if_true] at hcand ⊢
          cases hch : clientHello E false (some port) p with
          | needMore => simp [hch] at hcand
          | ok sni =>
            rw [clientHello_append_dtls E (some port) p q sni hd hch]
            simpa [hch] using hcand
      cases hcs : candidates E c p ds with
      | needMore => simp [hcs] at h
      | ok hs =>
        rw [hc hs hcs]
        simpa [hcs] using h

/-- datagrams (or segments) after the deciding one are never consulted -/
theorem askSegs_append {β : Type} (f : Bytes → Res β) (acc : Bytes) (segs more : List Bytes) (p : Bytes)
    (h : decidingPrefix f acc segs = some p) : askSegs f acc (segs ++ more) = f p := by
  induction segs generalizing acc with
  | nil => simp [decidingPrefix] at h
  | cons s ss ih =>
    simp only [decidingPrefix, askSegs, List.cons_append] at h ⊢
    cases hf : f (acc ++ s) with
    | needMore => simp only [hf] at h ⊢; exact ih (acc ++ s) h
    | ok b => simp only [hf] at h ⊢; cases h; exact hf.symm

end MitmVerif.C19
