/-
  C21 — helper lemmas: parser stability under appended bytes, parser inversion (accepted ⇒ wire format) and the
  forward direction, stage-by-stage characterisation of the synchronous machine (`run_shape`), and the simulation
  of the asynchronous machine (`act_settle`, `actAll_settle_init`).
-/
import MitmVerif.Model.C21
namespace MitmVerif.C21

theorem parseGreet_ok_append (m : UInt8) (buf rest x : Bytes)
    (h : parseGreet m buf = .ok rest) : parseGreet m (buf ++ x) = .ok (rest ++ x) := by
  match buf, h with
  | v :: n :: tl, h =>
    simp only [parseGreet, List.cons_append] at h ⊢
    split at h
    · rename_i hv
      simp only [hv, if_true]
      split at h
      · cases h
      · rename_i hl
        have hl' : n.toNat ≤ tl.length := by omega
        split at h
        · rename_i hc
          cases h
          have : ¬ (tl ++ x).length < n.toNat := by simp; omega
          simp only [this, if_false, List.take_append_of_le_length hl', hc, if_true, List.drop_append_of_le_length hl']
        · cases h
    · cases h

theorem parseGreet_bad_append (m : UInt8) (buf x : Bytes)
    (h : parseGreet m buf = .badVersion) : parseGreet m (buf ++ x) = .badVersion := by
  match buf, h with
  | v :: n :: tl, h =>
    simp only [parseGreet, List.cons_append] at h ⊢
    split at h
    · split at h
      · cases h
      · split at h <;> cases h
    · rename_i hv; simp [hv]

theorem parseGreet_noMethod_append (m : UInt8) (buf x : Bytes)
    (h : parseGreet m buf = .noMethod) : parseGreet m (buf ++ x) = .noMethod := by
  match buf, h with
  | v :: n :: tl, h =>
    simp only [parseGreet, List.cons_append] at h ⊢
    split at h
    · rename_i hv
      simp only [hv, if_true]
      split at h
      · cases h
      · rename_i hl
        have hl' : n.toNat ≤ tl.length := by omega
        split at h
        · cases h
        · rename_i hc
          have : ¬ (tl ++ x).length < n.toNat := by simp; omega
          simp only [this, if_false, List.take_append_of_le_length hl', hc]
          simp
    · cases h
theorem headD_drop_append (tl x : Bytes) (n : Nat) (h : n < tl.length) :
    ((tl ++ x).drop n).headD 0 = (tl.drop n).headD 0 := by
  rw [List.drop_append_of_le_length (by omega)]
  have : tl.drop n ≠ [] := by simp; omega
  match hd : tl.drop n with
  | [] => exact absurd hd this
  | a :: r => simp

theorem parseAuth_ok_append (buf u p rest x : Bytes)
    (h : parseAuth buf = .ok u p rest) : parseAuth (buf ++ x) = .ok u p (rest ++ x) := by
  match buf, h with
  | v :: ul :: tl, h =>
    simp only [parseAuth, List.cons_append] at h ⊢
    split at h
    · cases h
    · rename_i h1
      have h1' : ul.toNat < tl.length := by omega
      have hh := headD_drop_append tl x ul.toNat h1'
      split at h
      · cases h
      · rename_i h2
        simp only [hh]
        have a1 : ¬ (tl ++ x).length < ul.toNat + 1 := by simp only [List.length_append]; omega
        have a2 : ¬ (tl ++ x).length < ul.toNat + 1 + ((tl.drop ul.toNat).headD 0).toNat := by
          simp only [List.length_append]; omega
        simp only [a1, a2, if_false]
        injection h with hu hp hr
        subst hu hp hr
        rw [List.take_append_of_le_length (by omega), List.drop_append_of_le_length (by omega),
            List.drop_append_of_le_length (by omega)]
        congr 1
        rw [List.take_append_of_le_length]
        simp only [List.length_drop]; omega

theorem be16_append (tl x : Bytes) (h : 2 ≤ tl.length) : be16 (tl ++ x) = be16 tl := by
  match tl, h with
  | a :: b :: r, _ => simp [be16]

theorem takeAddr_ok_append (atyp : UInt8) (alen : Nat) (tl x : Bytes) (a : UInt8) (ad : Bytes) (p : Nat) (rest : Bytes)
    (h : takeAddr atyp alen tl = .ok a ad p rest) : takeAddr atyp alen (tl ++ x) = .ok a ad p (rest ++ x) := by
  simp only [takeAddr] at h ⊢
  split at h
  · cases h
  · rename_i h1
    have : ¬ (tl ++ x).length < alen + 2 := by simp; omega
    simp only [this, if_false]
    injection h with ha had hp hr
    subst ha had hp hr
    rw [List.take_append_of_le_length (by omega), List.drop_append_of_le_length (by omega),
        List.drop_append_of_le_length (by omega), be16_append]
    simp; omega

theorem takeAddr_not_fail (atyp : UInt8) (alen : Nat) (tl : Bytes) (c : UInt8) : takeAddr atyp alen tl ≠ .fail c := by
  simp only [takeAddr]; split <;> simp

theorem parseConnect_ok_append (buf x : Bytes) (a : UInt8) (ad : Bytes) (p : Nat) (rest : Bytes)
    (h : parseConnect buf = .ok a ad p rest) : parseConnect (buf ++ x) = .ok a ad p (rest ++ x) := by
  match buf, h with
  | v :: c :: r :: t :: l :: tl, h =>
    simp only [parseConnect, List.cons_append] at h ⊢
    split at h
    · rename_i hv
      simp only [hv, and_self, if_true]
      split at h
      · rename_i h1; simp only [h1, if_true]
        exact takeAddr_ok_append _ _ (l :: tl) x _ _ _ _ h
      · rename_i h1; simp only [h1, if_false]
        split at h
        · rename_i h4; simp only [h4, if_true]
          exact takeAddr_ok_append _ _ (l :: tl) x _ _ _ _ h
        · rename_i h4; simp only [h4, if_false]
          split at h
          · rename_i h3; simp only [h3, if_true]
            exact takeAddr_ok_append _ _ tl x _ _ _ _ h
          · cases h
    · cases h

theorem parseConnect_fail_append (buf x : Bytes) (code : UInt8)
    (h : parseConnect buf = .fail code) : parseConnect (buf ++ x) = .fail code := by
  match buf, h with
  | v :: c :: r :: t :: l :: tl, h =>
    simp only [parseConnect, List.cons_append] at h ⊢
    split at h
    · rename_i hv
      simp only [hv, and_self, if_true]
      split at h
      · exact absurd h (takeAddr_not_fail _ _ _ _)
      · rename_i h1; simp only [h1, if_false]
        split at h
        · exact absurd h (takeAddr_not_fail _ _ _ _)
        · rename_i h4; simp only [h4, if_false]
          split at h
          · exact absurd h (takeAddr_not_fail _ _ _ _)
          · rename_i h3; simp only [h3, if_false]; exact h
    · rename_i hv; simp only [hv, if_false]; exact h

theorem feed_done (env : Env) (x : Bytes) : feed env .done x = (.done, []) := by
  simp only [feed]; split <;> rfl

theorem feed_relay (env : Env) (x : Bytes) : feed env .relay x = (.relay, x.map .child) := by
  simp only [feed]; split
  · rename_i h; subst h; rfl
  · rfl

theorem feed_greet_ne (env : Env) (buf d : Bytes) (h : d ≠ []) : feed env (.greet buf) d = syncGreet env (buf ++ d) := by
  simp [feed, h]
theorem feed_auth_ne (env : Env) (buf d : Bytes) (h : d ≠ []) : feed env (.auth buf) d = syncAuth env (buf ++ d) := by
  simp [feed, h]
theorem feed_connect_ne (env : Env) (buf d : Bytes) (h : d ≠ []) : feed env (.connect buf) d = syncConnect env (buf ++ d) := by
  simp [feed, h]

theorem syncConnect_append (env : Env) (buf x : Bytes) :
    syncConnect env (buf ++ x) =
      ((feed env (syncConnect env buf).1 x).1, (syncConnect env buf).2 ++ (feed env (syncConnect env buf).1 x).2) := by
  cases h : parseConnect buf with
  | more =>
    have hs : syncConnect env buf = (.connect buf, []) := by simp [syncConnect, h]
    rw [hs]
    by_cases hx : x = []
    · subst hx; simp [feed, hs]
    · simp [feed, hx]
  | fail c =>
    have h' := parseConnect_fail_append buf x c h
    simp [syncConnect, h, h', feed_done]
  | ok a ad p rest =>
    have h' := parseConnect_ok_append buf x a ad p rest h
    simp only [syncConnect, h, h']
    by_cases he : env.eager = true <;> by_cases hc : env.connOk = true <;>
      simp [he, hc, feed_done, feed_relay, relayStart]

theorem syncAuth_append (env : Env) (buf x : Bytes) :
    syncAuth env (buf ++ x) =
      ((feed env (syncAuth env buf).1 x).1, (syncAuth env buf).2 ++ (feed env (syncAuth env buf).1 x).2) := by
  cases h : parseAuth buf with
  | more =>
    have hs : syncAuth env buf = (.auth buf, []) := by simp [syncAuth, h]
    rw [hs]
    by_cases hx : x = []
    · subst hx; simp [feed, hs]
    · simp [feed, hx]
  | ok u p rest =>
    have h' := parseAuth_ok_append buf u p rest x h
    simp only [syncAuth, h, h']
    by_cases hv : env.valid u p = true
    · simp only [hv, if_true]
      rw [syncConnect_append]
      simp
    · simp [hv, feed_done]

theorem syncGreet_append (env : Env) (buf x : Bytes) :
    syncGreet env (buf ++ x) =
      ((feed env (syncGreet env buf).1 x).1, (syncGreet env buf).2 ++ (feed env (syncGreet env buf).1 x).2) := by
  cases h : parseGreet (needed env) buf with
  | more =>
    have hs : syncGreet env buf = (.greet buf, []) := by simp [syncGreet, h]
    rw [hs]
    by_cases hx : x = []
    · subst hx; simp [feed, hs]
    · simp [feed, hx]
  | badVersion =>
    have h' := parseGreet_bad_append _ buf x h
    simp [syncGreet, h, h', feed_done]
  | noMethod =>
    have h' := parseGreet_noMethod_append _ buf x h
    simp [syncGreet, h, h', feed_done]
  | ok rest =>
    have h' := parseGreet_ok_append _ buf rest x h
    simp only [syncGreet, h, h']
    by_cases ha : env.authOn = true
    · simp only [ha, if_true]; rw [syncAuth_append]; simp
    · simp only [ha]; rw [syncConnect_append]; simp

theorem feed_lawful (env : Env) : (inc env).Lawful := by
  refine ⟨fun s => by simp [inc, feed], fun s a b => ?_⟩
  show feed env s (a ++ b) = ((feed env (feed env s a).1 b).1, (feed env s a).2 ++ (feed env (feed env s a).1 b).2)
  by_cases ha : a = []
  · subst ha; simp [feed]
  by_cases hb : b = []
  · subst hb; simp [feed]
  have hab : a ++ b ≠ [] := by simp [ha]
  cases s with
  | greet buf => rw [feed_greet_ne _ _ _ hab, feed_greet_ne _ _ _ ha, ← List.append_assoc, syncGreet_append]
  | auth buf => rw [feed_auth_ne _ _ _ hab, feed_auth_ne _ _ _ ha, ← List.append_assoc, syncAuth_append]
  | connect buf => rw [feed_connect_ne _ _ _ hab, feed_connect_ne _ _ _ ha, ← List.append_assoc, syncConnect_append]
  | relay => simp [feed_relay]
  | done => simp [feed_done]


/-! ### inversion: what the parsers accept is exactly the wire format -/

theorem takeAddr_inv (atyp : UInt8) (alen : Nat) (tl : Bytes) (a : UInt8) (ad : Bytes) (p : Nat) (rest : Bytes)
    (h : takeAddr atyp alen tl = .ok a ad p rest) :
    a = atyp ∧ ad.length = alen ∧ p < 65536 ∧
      tl = ad ++ [UInt8.ofNat (p / 256), UInt8.ofNat (p % 256)] ++ rest := by
  simp only [takeAddr] at h
  split at h
  · cases h
  · rename_i h1
    injection h with ha had hp hr
    have hlen : 2 ≤ (tl.drop alen).length := by simp only [List.length_drop]; omega
    match hd : tl.drop alen, hlen with
    | x :: y :: r, _ =>
      have hx := x.toNat_lt
      have hy := y.toNat_lt
      rw [hd] at hp
      simp only [be16] at hp
      have hr' : rest = r := by
        rw [← hr, ← List.drop_drop, hd]; rfl
      refine ⟨ha.symm, ?_, by omega, ?_⟩
      · rw [← had]; simp only [List.length_take]; omega
      · have e1 : p / 256 = x.toNat := by omega
        have e2 : p % 256 = y.toNat := by omega
        rw [e1, e2, UInt8.ofNat_toNat, UInt8.ofNat_toNat, hr', ← had]
        have := List.take_append_drop alen tl
        rw [hd] at this
        simpa using this.symm

theorem parseConnect_inv (buf : Bytes) (a : UInt8) (ad : Bytes) (p : Nat) (rest : Bytes)
    (h : parseConnect buf = .ok a ad p rest) :
    ValidDest a ad p ∧ buf = encodeReq a ad p ++ rest := by
  match buf, h with
  | v :: c :: r :: t :: l :: tl, h =>
    simp only [parseConnect] at h
    split at h
    · rename_i hv
      obtain ⟨rfl, rfl, rfl⟩ := hv
      split at h
      · rename_i h1; subst h1
        obtain ⟨rfl, hl, hp, ht⟩ := takeAddr_inv _ _ _ _ _ _ _ h
        refine ⟨⟨Or.inl ⟨rfl, hl⟩, hp⟩, ?_⟩
        simp only [encodeReq]; rw [ht]; simp
      · split at h
        · rename_i h4; subst h4
          obtain ⟨rfl, hl, hp, ht⟩ := takeAddr_inv _ _ _ _ _ _ _ h
          refine ⟨⟨Or.inr (Or.inl ⟨rfl, hl⟩), hp⟩, ?_⟩
          simp only [encodeReq]; rw [ht]; simp
        · split at h
          · rename_i h3; subst h3
            obtain ⟨rfl, hl, hp, ht⟩ := takeAddr_inv _ _ _ _ _ _ _ h
            have hll := l.toNat_lt
            refine ⟨⟨Or.inr (Or.inr ⟨rfl, by omega⟩), hp⟩, ?_⟩
            simp only [encodeReq]; rw [ht, hl, UInt8.ofNat_toNat]; simp
          · cases h
    · cases h

theorem parseConnect_fail_code (buf : Bytes) (c : UInt8) (h : parseConnect buf = .fail c) : c = 7 ∨ c = 8 := by
  match buf, h with
  | v :: cc :: r :: t :: l :: tl, h =>
    simp only [parseConnect] at h
    split at h
    · split at h
      · exact absurd h (takeAddr_not_fail _ _ _ _)
      · split at h
        · exact absurd h (takeAddr_not_fail _ _ _ _)
        · split at h
          · exact absurd h (takeAddr_not_fail _ _ _ _)
          · injection h with h; exact Or.inr h.symm
    · injection h with h; exact Or.inl h.symm

theorem parseGreet_inv (m : UInt8) (buf rest : Bytes) (h : parseGreet m buf = .ok rest) :
    ∃ ms : Bytes, ms.length < 256 ∧ ms.contains m = true ∧ buf = 5 :: UInt8.ofNat ms.length :: ms ++ rest := by
  match buf, h with
  | v :: n :: tl, h =>
    simp only [parseGreet] at h
    split at h
    · rename_i hv; subst hv
      split at h
      · cases h
      · rename_i hl
        split at h
        · rename_i hc
          injection h with hr
          have hn := n.toNat_lt
          refine ⟨tl.take n.toNat, by simp only [List.length_take]; omega, hc, ?_⟩
          have hlen : (tl.take n.toNat).length = n.toNat := by simp only [List.length_take]; omega
          rw [hlen, UInt8.ofNat_toNat, ← hr]
          simp
        · cases h
    · cases h

theorem parseAuth_inv (buf u p rest : Bytes) (h : parseAuth buf = .ok u p rest) :
    ∃ v : UInt8, u.length < 256 ∧ p.length < 256 ∧
      buf = v :: UInt8.ofNat u.length :: u ++ UInt8.ofNat p.length :: p ++ rest := by
  match buf, h with
  | v :: ul :: tl, h =>
    simp only [parseAuth] at h
    split at h
    · cases h
    · rename_i h1
      split at h
      · cases h
      · rename_i h2
        injection h with hu hp hr
        have hul := ul.toNat_lt
        have hne : 1 ≤ (tl.drop ul.toNat).length := by simp only [List.length_drop]; omega
        match hd : tl.drop ul.toNat, hne with
        | pl :: r, _ =>
          rw [hd] at h2 hp hr
          simp only [List.headD_cons] at h2 hp hr
          have hpl := pl.toNat_lt
          have hdr : tl.drop (ul.toNat + 1) = r := by
            rw [← List.drop_drop, hd]; rfl
          have hrl : r.length = tl.length - (ul.toNat + 1) := by rw [← hdr]; simp
          have hulen : u.length = ul.toNat := by rw [← hu]; simp only [List.length_take]; omega
          have hplen : p.length = pl.toNat := by rw [← hp, hdr]; simp only [List.length_take]; omega
          refine ⟨v, by omega, by omega, ?_⟩
          rw [hulen, hplen, UInt8.ofNat_toNat, UInt8.ofNat_toNat]
          have e1 := List.take_append_drop ul.toNat tl
          rw [hd, hu] at e1
          have e2 : rest = r.drop pl.toNat := by
            rw [← hr, ← List.drop_drop, hdr]
          have e3 := List.take_append_drop pl.toNat r
          rw [hdr] at hp
          rw [hp, ← e2] at e3
          rw [← e1, ← e3]; simp


/-! ### forward direction: the wire format is accepted -/

theorem parseGreet_fwd (m : UInt8) (ms rest : Bytes) (hl : ms.length < 256) (hc : ms.contains m = true) :
    parseGreet m (5 :: UInt8.ofNat ms.length :: ms ++ rest) = .ok rest := by
  simp only [List.cons_append, parseGreet, if_true, UInt8.toNat_ofNat_of_lt' hl]
  have h1 : ¬ (ms.length + rest.length < ms.length) := by omega
  have hc' : m ∈ ms := by simpa using hc
  simp [h1, hc']

theorem parseAuth_fwd (v : UInt8) (u p rest : Bytes) (hu : u.length < 256) (hp : p.length < 256) :
    parseAuth (v :: UInt8.ofNat u.length :: u ++ UInt8.ofNat p.length :: p ++ rest) = .ok u p rest := by
  simp only [List.cons_append, parseAuth, UInt8.toNat_ofNat_of_lt' hu, List.append_assoc]
  have a1 : ¬ (u ++ (UInt8.ofNat p.length :: (p ++ rest))).length < u.length + 1 := by
    simp only [List.length_append, List.length_cons]; omega
  have hd : (u ++ (UInt8.ofNat p.length :: (p ++ rest))).drop u.length = UInt8.ofNat p.length :: (p ++ rest) := by simp
  have hd1 : (u ++ (UInt8.ofNat p.length :: (p ++ rest))).drop (u.length + 1) = p ++ rest := by
    rw [← List.drop_drop, hd]; rfl
  have hd2 : (u ++ (UInt8.ofNat p.length :: (p ++ rest))).drop (u.length + 1 + p.length) = rest := by
    rw [← List.drop_drop, hd1]; simp
  simp only [a1, if_false, hd, List.headD_cons, UInt8.toNat_ofNat_of_lt' hp, hd1, hd2]
  have a2 : ¬ (u ++ (UInt8.ofNat p.length :: (p ++ rest))).length < u.length + 1 + p.length := by
    simp only [List.length_append, List.length_cons]; omega
  simp
  omega

theorem takeAddr_fwd (atyp : UInt8) (ad t : Bytes) (p : Nat) (hp : p < 65536) :
    takeAddr atyp ad.length (ad ++ [UInt8.ofNat (p / 256), UInt8.ofNat (p % 256)] ++ t) = .ok atyp ad p t := by
  simp only [takeAddr]
  have a1 : ¬ (ad ++ [UInt8.ofNat (p / 256), UInt8.ofNat (p % 256)] ++ t).length < ad.length + 2 := by
    simp only [List.length_append, List.length_cons, List.length_nil]; omega
  have h1 : p / 256 < 256 := by omega
  have h2 : p % 256 < 256 := by omega
  simp only [a1, if_false, List.append_assoc]
  have hd : (ad ++ ([UInt8.ofNat (p / 256), UInt8.ofNat (p % 256)] ++ t)).drop ad.length =
      UInt8.ofNat (p / 256) :: UInt8.ofNat (p % 256) :: t := by simp
  have hd2 : (ad ++ ([UInt8.ofNat (p / 256), UInt8.ofNat (p % 256)] ++ t)).drop (ad.length + 2) = t := by
    rw [← List.drop_drop, hd]; rfl
  rw [hd, hd2]
  simp only [be16, UInt8.toNat_ofNat_of_lt' h1, UInt8.toNat_ofNat_of_lt' h2]
  have : p / 256 * 256 + p % 256 = p := by omega
  simp [this]

theorem parseConnect_fwd (a : UInt8) (ad : Bytes) (p : Nat) (t : Bytes) (h : ValidDest a ad p) :
    parseConnect (encodeReq a ad p ++ t) = .ok a ad p t := by
  obtain ⟨hk, hp⟩ := h
  rcases hk with ⟨rfl, hl⟩ | ⟨rfl, hl⟩ | ⟨rfl, hl⟩
  · match ad, hl with
    | [b0, b1, b2, b3], _ =>
      have := takeAddr_fwd 1 [b0, b1, b2, b3] t p hp
      simpa [encodeReq, parseConnect] using this
  · have hne : 1 ≤ ad.length := by omega
    match ad, hne with
    | b0 :: r, _ =>
      have := takeAddr_fwd 4 (b0 :: r) t p hp
      rw [hl] at this
      simpa [encodeReq, parseConnect] using this
  · have := takeAddr_fwd 3 ad t p hp
    simp only [encodeReq, if_true, List.cons_append, List.nil_append, parseConnect, and_self]
    simp only [show ¬ ((3 : UInt8) = 1) by decide, show ¬ ((3 : UInt8) = 4) by decide, if_false, if_true,
      UInt8.toNat_ofNat_of_lt' hl]
    simpa using this


/-! ### observation lemmas -/

@[simp] theorem childBytes_append (l1 l2 : List Out) : childBytes (l1 ++ l2) = childBytes l1 ++ childBytes l2 := by
  induction l1 with
  | nil => rfl
  | cons o r ih => cases o <;> simp [childBytes, ih]
@[simp] theorem setAddrs_append (l1 l2 : List Out) : setAddrs (l1 ++ l2) = setAddrs l1 ++ setAddrs l2 := by
  induction l1 with
  | nil => rfl
  | cons o r ih => cases o <;> simp [setAddrs, ih]
@[simp] theorem sends_append (l1 l2 : List Out) : sends (l1 ++ l2) = sends l1 ++ sends l2 := by
  induction l1 with
  | nil => rfl
  | cons o r ih => cases o <;> simp [sends, ih]
@[simp] theorem childBytes_map (t : Bytes) : childBytes (t.map .child) = t := by
  induction t with
  | nil => rfl
  | cons b r ih => simp [childBytes, ih]
@[simp] theorem setAddrs_map (t : Bytes) : setAddrs (t.map .child) = [] := by
  induction t with
  | nil => rfl
  | cons b r ih => simp [setAddrs, ih]
@[simp] theorem sends_map (t : Bytes) : sends (t.map .child) = [] := by
  induction t with
  | nil => rfl
  | cons b r ih => simp [sends, ih]

theorem syncConnect_cases (env : Env) (buf : Bytes) :
    (parseConnect buf = .more ∧ syncConnect env buf = (.connect buf, [])) ∨
    (∃ c, (c = 7 ∨ c = 8) ∧ parseConnect buf = .fail c ∧ syncConnect env buf = (.done, [.send (reply c), .close])) ∨
    (∃ a ad p t, buf = encodeReq a ad p ++ t ∧ ValidDest a ad p ∧ syncConnect env buf = connResult env a ad p t) := by
  cases h : parseConnect buf with
  | more => left; simp [syncConnect, h]
  | fail c => right; left; exact ⟨c, parseConnect_fail_code buf c h, rfl, by simp [syncConnect, h]⟩
  | ok a ad p t =>
    right; right
    obtain ⟨hv, hb⟩ := parseConnect_inv buf a ad p t h
    exact ⟨a, ad, p, t, hb, hv, by simp [syncConnect, h, connResult]⟩

theorem syncConnect_fwd (env : Env) (a : UInt8) (ad : Bytes) (p : Nat) (t : Bytes) (h : ValidDest a ad p) :
    syncConnect env (encodeReq a ad p ++ t) = connResult env a ad p t := by
  simp [syncConnect, parseConnect_fwd a ad p t h, connResult]

/-- observables of the connect stage -/
theorem connResult_obs (env : Env) (a : UInt8) (ad : Bytes) (p : Nat) (t : Bytes) :
    setAddrs (connResult env a ad p t).2 = [(a, ad, p)] ∧
    ((connResult env a ad p t).1 = .relay ∧ (env.eager = true → env.connOk = true) ∧
        childBytes (connResult env a ad p t).2 = t ∧ sends (connResult env a ad p t).2 = [reply 0] ∨
     (connResult env a ad p t).1 = .done ∧ env.eager = true ∧ env.connOk = false ∧
        childBytes (connResult env a ad p t).2 = [] ∧ sends (connResult env a ad p t).2 = [reply 4] ∧
        (connResult env a ad p t).2.getLast? = some .close ∧ Out.childStart ∉ (connResult env a ad p t).2) := by
  unfold connResult
  by_cases he : env.eager = true <;> by_cases hc : env.connOk = true <;>
    simp [he, hc, relayStart, setAddrs, childBytes, sends]


theorem syncAuth_cases (env : Env) (buf : Bytes) :
    (parseAuth buf = .more ∧ syncAuth env buf = (.auth buf, [])) ∨
    (∃ v u p rest, buf = authMsg v u p ++ rest ∧ u.length < 256 ∧ p.length < 256 ∧
      ((env.valid u p = true ∧ syncAuth env buf =
          ((syncConnect env rest).1, [.authHook u p, .send [1, 0]] ++ (syncConnect env rest).2)) ∨
       (env.valid u p = false ∧ syncAuth env buf = (.done, [.authHook u p, .send [1, 1], .close])))) := by
  cases h : parseAuth buf with
  | more => left; simp [syncAuth, h]
  | ok u p rest =>
    right
    obtain ⟨v, hu, hp, hb⟩ := parseAuth_inv buf u p rest h
    refine ⟨v, u, p, rest, by simpa [authMsg] using hb, hu, hp, ?_⟩
    by_cases hv : env.valid u p = true
    · left; exact ⟨hv, by simp [syncAuth, h, hv]⟩
    · right; exact ⟨by simpa using hv, by simp [syncAuth, h, hv]⟩

theorem syncAuth_fwd (env : Env) (v : UInt8) (u p rest : Bytes) (hu : u.length < 256) (hp : p.length < 256)
    (hv : env.valid u p = true) :
    syncAuth env (authMsg v u p ++ rest) =
      ((syncConnect env rest).1, [.authHook u p, .send [1, 0]] ++ (syncConnect env rest).2) := by
  have := parseAuth_fwd v u p rest hu hp
  simp only [authMsg, List.cons_append, List.append_assoc] at this ⊢
  simp [syncAuth, this, hv]

theorem syncGreet_cases (env : Env) (buf : Bytes) :
    (parseGreet (needed env) buf = .more ∧ syncGreet env buf = (.greet buf, [])) ∨
    (parseGreet (needed env) buf = .badVersion ∧ syncGreet env buf = (.done, [.close])) ∨
    (parseGreet (needed env) buf = .noMethod ∧ syncGreet env buf = (.done, [.send (reply 0xFF), .close])) ∨
    (∃ ms rest, buf = greetMsg ms ++ rest ∧ ms.length < 256 ∧ ms.contains (needed env) = true ∧
      ((env.authOn = true ∧ syncGreet env buf = ((syncAuth env rest).1, .send [5, 2] :: (syncAuth env rest).2)) ∨
       (env.authOn = false ∧ syncGreet env buf = ((syncConnect env rest).1, .send [5, 0] :: (syncConnect env rest).2)))) := by
  cases h : parseGreet (needed env) buf with
  | more => left; simp [syncGreet, h]
  | badVersion => right; left; simp [syncGreet, h]
  | noMethod => right; right; left; simp [syncGreet, h]
  | ok rest =>
    right; right; right
    obtain ⟨ms, hl, hc, hb⟩ := parseGreet_inv _ buf rest h
    refine ⟨ms, rest, by simpa [greetMsg] using hb, hl, hc, ?_⟩
    by_cases ha : env.authOn = true
    · left; exact ⟨ha, by simp [syncGreet, h, ha]⟩
    · right; exact ⟨by simpa using ha, by simp [syncGreet, h, ha]⟩

theorem syncGreet_fwd (env : Env) (ms rest : Bytes) (hl : ms.length < 256) (hc : ms.contains (needed env) = true) :
    syncGreet env (greetMsg ms ++ rest) =
      if env.authOn then ((syncAuth env rest).1, .send [5, 2] :: (syncAuth env rest).2)
      else ((syncConnect env rest).1, .send [5, 0] :: (syncConnect env rest).2) := by
  have := parseGreet_fwd (needed env) ms rest hl hc
  simp only [greetMsg, List.cons_append] at this ⊢
  simp [syncGreet, this]

theorem feed_init (env : Env) (input : Bytes) (h : input ≠ []) : feed env init input = syncGreet env input := by
  simp [init, feed, h]

/-- Every run from the initial state is of exactly one of these shapes. -/
theorem run_shape (env : Env) (input : Bytes) :
    let r := feed env init input
    -- (A) no destination yet: nothing reached the child, no address, no success reply
    ((r.1 ≠ .relay ∧ setAddrs r.2 = [] ∧ childBytes r.2 = [] ∧ Out.childStart ∉ r.2 ∧ Out.openServer ∉ r.2 ∧
        reply 0 ∉ sends r.2 ∧ (r.1 = .done → r.2.getLast? = some .close)) ∨
    -- (B) the stream is  greeting [auth] request trailing  and the connect stage ran on exactly that request
     (∃ pre a ad p t o, input = pre ++ encodeReq a ad p ++ t ∧ ValidPre env pre ∧ ValidDest a ad p ∧
        r = ((connResult env a ad p t).1, o ++ (connResult env a ad p t).2) ∧
        setAddrs o = [] ∧ childBytes o = [] ∧ sends o = preSends env ∧ Out.childStart ∉ o ∧ Out.openServer ∉ o)) := by
  intro r
  by_cases hin : input = []
  · left; subst hin; simp [r, feed, init, setAddrs, childBytes, sends]
  have hr : r = syncGreet env input := feed_init env input hin
  rcases syncGreet_cases env input with ⟨_, h⟩ | ⟨_, h⟩ | ⟨_, h⟩ | ⟨ms, rest, hb, hl, hc, h⟩
  · left; rw [hr, h]; simp [setAddrs, childBytes, sends]
  · left; rw [hr, h]; simp [setAddrs, childBytes, sends]
  · left; rw [hr, h]; simp [setAddrs, childBytes, sends, reply]
  · rcases h with ⟨ha, h⟩ | ⟨ha, h⟩
    · -- auth on
      rcases syncAuth_cases env rest with ⟨_, h2⟩ | ⟨v, u, p, rest2, hb2, hu, hp, h2⟩
      · left; rw [hr, h, h2]; simp [setAddrs, childBytes, sends, reply]
      · rcases h2 with ⟨hv, h2⟩ | ⟨hv, h2⟩
        · rcases syncConnect_cases env rest2 with ⟨_, h3⟩ | ⟨c, hc7, _, h3⟩ | ⟨a, ad, pt, t, hb3, hvd, h3⟩
          · left; rw [hr, h, h2, h3]; simp [setAddrs, childBytes, sends, reply]
          · left; rw [hr, h, h2, h3]
            rcases hc7 with rfl | rfl <;> simp [setAddrs, childBytes, sends, reply]
          · right
            refine ⟨greetMsg ms ++ authMsg v u p, a, ad, pt, t, [.send [5, 2], .authHook u p, .send [1, 0]], ?_, ?_, hvd, ?_, ?_⟩
            · rw [hb, hb2, hb3]; simp
            · exact ⟨ms, hl, hc, Or.inr ⟨ha, v, u, p, hu, hp, hv, by simp [greetMsg, authMsg]⟩⟩
            · rw [hr, h, h2, h3]; simp
            · simp [setAddrs, childBytes, sends, preSends, ha]
        · left; rw [hr, h, h2]; simp [setAddrs, childBytes, sends, reply]
    · -- auth off
      rcases syncConnect_cases env rest with ⟨_, h3⟩ | ⟨c, hc7, _, h3⟩ | ⟨a, ad, pt, t, hb3, hvd, h3⟩
      · left; rw [hr, h, h3]; simp [setAddrs, childBytes, sends, reply]
      · left; rw [hr, h, h3]
        rcases hc7 with rfl | rfl <;> simp [setAddrs, childBytes, sends, reply]
      · right
        refine ⟨greetMsg ms, a, ad, pt, t, [.send [5, 0]], ?_, ?_, hvd, ?_, ?_⟩
        · rw [hb, hb3]; simp
        · exact ⟨ms, hl, hc, Or.inl ⟨ha, by simp [greetMsg]⟩⟩
        · rw [hr, h, h3]; simp
        · simp [setAddrs, childBytes, sends, preSends, ha]



/-! ### asynchronous machine -/

/-- writer-style sequencing of (state, outputs) -/
def andThen {σ τ : Type} (r : σ × List Out) (f : σ → τ × List Out) : τ × List Out := ((f r.1).1, r.2 ++ (f r.1).2)
local infixl:55 " >>> " => andThen

theorem andThen_assoc {σ τ υ : Type} (r : σ × List Out) (f : σ → τ × List Out) (g : τ → υ × List Out) :
    (r >>> f) >>> g = r >>> (fun a => f a >>> g) := by simp [andThen, List.append_assoc]
theorem pure_andThen {σ τ : Type} (a : σ) (f : σ → τ × List Out) : ((a, []) >>> f) = f a := by simp [andThen]
theorem andThen_pure {σ : Type} (r : σ × List Out) : (r >>> fun a => (a, [])) = r := by simp [andThen]

theorem andThen_congr {σ τ : Type} (r : σ × List Out) (f g : σ → τ × List Out) (h : f r.1 = g r.1) :
    (r >>> f) = (r >>> g) := by simp [andThen, h]

theorem handleAll_cons (env : Env) (s : AState) (e : In) (es : List In) :
    handleAll env s (e :: es) = handle env s e >>> (handleAll env · es) := rfl
theorem handleAll_append (env : Env) (s : AState) (q q' : List In) :
    handleAll env s (q ++ q') = handleAll env s q >>> (handleAll env · q') := by
  induction q generalizing s with
  | nil => simp [handleAll, andThen]
  | cons e es ih => simp only [List.cons_append, handleAll_cons, ih, andThen_assoc]
theorem handleAll_single (env : Env) (s : AState) (e : In) : handleAll env s [e] = handle env s e := by
  simp [handleAll]
theorem actAll_cons (env : Env) (s : AState) (x : Act) (xs : List Act) :
    actAll env s (x :: xs) = act env s x >>> (actAll env · xs) := rfl
theorem settle_eq (env : Env) (a : AState) : settle env a = complete env a >>> complete env := rfl
theorem settle_fun (env : Env) : settle env = fun a => complete env a >>> complete env := rfl

def IsSettled (a : AState) : Prop := ∃ s, a = .settled s
def L0 (a : AState) : Prop := a = .settled .relay ∨ a = .settled .done
def L1 (a : AState) : Prop :=
  (∃ buf, a = .settled (.connect buf)) ∨ L0 a ∨ ∃ r q, a = .connWait r q

theorem complete_settled (env : Env) (a : AState) (h : IsSettled a) : complete env a = (a, []) := by
  obtain ⟨s, rfl⟩ := h; rfl

theorem handle_done (env : Env) (e : In) : handle env (.settled .done) e = (.settled .done, []) := by
  cases e with
  | data d => simp only [handle]; split <;> rfl
  | close => rfl

theorem handle_authWait (env : Env) (u p r : Bytes) (q : List In) (e : In) :
    handle env (.authWait u p r q) e = (.authWait u p r (q ++ [e]), []) := by cases e <;> rfl
theorem handle_connWait (env : Env) (r : Bytes) (q : List In) (e : In) :
    handle env (.connWait r q) e = (.connWait r (q ++ [e]), []) := by cases e <;> rfl

theorem handle_L0 (env : Env) (a : AState) (e : In) (h : L0 a) : L0 (handle env a e).1 := by
  rcases h with rfl | rfl
  · cases e with
    | data d => simp only [handle]; split <;> exact Or.inl rfl
    | close => exact Or.inl rfl
  · rw [handle_done]; exact Or.inr rfl

theorem handleAll_L0 (env : Env) (a : AState) (q : List In) (h : L0 a) : L0 (handleAll env a q).1 := by
  induction q generalizing a with
  | nil => exact h
  | cons e es ih => exact ih _ (handle_L0 env a e h)

theorem L0_settled {a : AState} (h : L0 a) : IsSettled a := by
  rcases h with rfl | rfl <;> exact ⟨_, rfl⟩

theorem aConnect_L1 (env : Env) (buf : Bytes) : L1 (aConnect env buf).1 := by
  simp only [aConnect]
  split
  · exact Or.inl ⟨_, rfl⟩
  · exact Or.inr (Or.inl (Or.inr rfl))
  · split
    · exact Or.inr (Or.inr ⟨_, _, rfl⟩)
    · exact Or.inr (Or.inl (Or.inl rfl))

theorem handle_L1 (env : Env) (a : AState) (e : In) (h : L1 a) : L1 (handle env a e).1 := by
  rcases h with ⟨buf, rfl⟩ | h | ⟨r, q, rfl⟩
  · cases e with
    | data d =>
      simp only [handle]; split
      · exact Or.inl ⟨_, rfl⟩
      · exact aConnect_L1 env _
    | close => exact Or.inl ⟨_, rfl⟩
  · exact Or.inr (Or.inl (handle_L0 env a e h))
  · rw [handle_connWait]; exact Or.inr (Or.inr ⟨_, _, rfl⟩)

theorem handleAll_L1 (env : Env) (a : AState) (q : List In) (h : L1 a) : L1 (handleAll env a q).1 := by
  induction q generalizing a with
  | nil => exact h
  | cons e es ih => exact ih _ (handle_L1 env a e h)

theorem complete_L1 (env : Env) (a : AState) (h : L1 a) : L0 (complete env a).1 ∨ ∃ buf, (complete env a).1 = .settled (.connect buf) := by
  rcases h with ⟨buf, rfl⟩ | h | ⟨r, q, rfl⟩
  · exact Or.inr ⟨buf, rfl⟩
  · rw [complete_settled env a (L0_settled h)]; exact Or.inl h
  · simp only [complete]
    split
    · exact Or.inl (handleAll_L0 env _ q (Or.inl rfl))
    · exact Or.inl (Or.inr rfl)

theorem complete_L1_settled (env : Env) (a : AState) (h : L1 a) : IsSettled (complete env a).1 := by
  rcases complete_L1 env a h with h | ⟨buf, h⟩
  · exact L0_settled h
  · exact ⟨_, h⟩

theorem complete_L1' (env : Env) (a : AState) : L1 (complete env a).1 ∨ IsSettled (complete env a).1 := by
  cases a with
  | settled s => exact Or.inr ⟨s, rfl⟩
  | authWait u p r q =>
    simp only [complete]
    split
    · exact Or.inl (handleAll_L1 env _ q (aConnect_L1 env r))
    · exact Or.inr ⟨_, rfl⟩
  | connWait r q => exact Or.inr (complete_L1_settled env _ (Or.inr (Or.inr ⟨_, _, rfl⟩)))

/-- two completions always settle -/
theorem settle_settled (env : Env) (a : AState) : IsSettled (settle env a).1 := by
  simp only [settle]
  rcases complete_L1' env a with h | h
  · exact complete_L1_settled env _ h
  · rw [complete_settled env _ h]; exact h

/-- an event that arrives while a command is pending is replayed after the completion: enqueue-then-complete
    equals complete-then-handle -/
theorem complete_enqueue (env : Env) (a : AState) (e : In) (h : ¬ IsSettled a) :
    (handle env a e).2 = [] ∧ complete env (handle env a e).1 = complete env a >>> (handle env · e) := by
  cases a with
  | settled s => exact absurd ⟨s, rfl⟩ h
  | authWait u p r q =>
    rw [handle_authWait]
    refine ⟨rfl, ?_⟩
    simp only [complete]
    by_cases hv : env.valid u p = true
    · simp only [hv, if_true, handleAll_append, handleAll_single]
      simp [andThen, List.append_assoc]
    · simp [hv, andThen, handle_done]
  | connWait r q =>
    rw [handle_connWait]
    refine ⟨rfl, ?_⟩
    simp only [complete]
    by_cases hc : env.connOk = true
    · simp only [hc, if_true, handleAll_append, handleAll_single]
      simp [andThen, List.append_assoc]
    · simp [hc, andThen, handle_done]


def lift (r : SState × List Out) : AState × List Out := (.settled r.1, r.2)

theorem r_complete_idem (env : Env) (r : AState × List Out) (h : L1 r.1 ∨ IsSettled r.1) :
    (r >>> complete env) >>> complete env = r >>> complete env := by
  have hs : IsSettled (complete env r.1).1 := by
    rcases h with h | h
    · exact complete_L1_settled env _ h
    · rw [complete_settled env _ h]; exact h
  simp only [andThen]
  rw [complete_settled env _ hs]; simp

/-- settling first does not change what an action followed by settling gives -/
theorem act_settle (env : Env) (a : AState) (x : Act) :
    act env a x >>> settle env = settle env a >>> (fun a' => act env a' x >>> settle env) := by
  by_cases hs : IsSettled a
  · obtain ⟨s, rfl⟩ := hs
    simp [settle, complete, andThen]
  have hb : L1 (complete env a).1 := by
    cases a with
    | settled s => exact absurd ⟨s, rfl⟩ hs
    | authWait u p r q =>
      simp only [complete]; split
      · exact handleAll_L1 env _ q (aConnect_L1 env r)
      · exact Or.inr (Or.inl (Or.inr rfl))
    | connWait r q =>
      rcases complete_L1 env (.connWait r q) (Or.inr (Or.inr ⟨_, _, rfl⟩)) with h | ⟨b, h⟩
      · exact Or.inr (Or.inl h)
      · exact Or.inl ⟨b, h⟩
  have hset := settle_settled env a
  cases x with
  | complete =>
    -- both sides are `settle a`
    simp only [act]
    have e1 : complete env a >>> settle env = settle env a := by
      rw [settle_fun, ← andThen_assoc]
      exact r_complete_idem env (complete env a) (Or.inl hb)
    rw [e1]
    have e2 : (fun a' => complete env a' >>> settle env) (settle env a).1 = ((settle env a).1, []) := by
      show complete env (settle env a).1 >>> settle env = _
      rw [complete_settled env _ hset, pure_andThen, settle_eq, complete_settled env _ hset, pure_andThen,
        complete_settled env _ hset]
    show settle env a = ((_ : AState × List Out).1, (settle env a).2 ++ (_ : AState × List Out).2)
    rw [e2]; simp
  | ev e =>
    simp only [act]
    obtain ⟨ho, hc⟩ := complete_enqueue env a e hs
    have lhs : handle env a e >>> settle env = (complete env a >>> (handle env · e)) >>> complete env := by
      have : handle env a e = ((handle env a e).1, []) := by rw [← ho]
      rw [this, pure_andThen, settle_eq, hc]
    rw [lhs]
    have key : ∀ b, L1 b → (handle env b e >>> complete env) =
        complete env b >>> (fun a' => handle env a' e >>> (fun a'' => complete env a'' >>> complete env)) := by
      intro b hb
      by_cases hbs : IsSettled b
      · rw [complete_settled env b hbs, pure_andThen, ← andThen_assoc]
        exact (r_complete_idem env (handle env b e) (Or.inl (handle_L1 env b e hb))).symm
      · obtain ⟨ho', hc'⟩ := complete_enqueue env b e hbs
        have : handle env b e = ((handle env b e).1, []) := by rw [← ho']
        rw [this, pure_andThen, hc']
        have h0 : L0 (complete env b).1 := by
          rcases complete_L1 env b hb with h | ⟨buf, h⟩
          · exact h
          · rcases hb with ⟨buf', rfl⟩ | hb | ⟨r, q, rfl⟩
            · exact absurd ⟨_, rfl⟩ hbs
            · exact absurd (L0_settled hb) hbs
            · simp only [complete] at h; split at h
              · have := handleAll_L0 env (.settled .relay) q (Or.inl rfl)
                rw [h] at this; rcases this with h' | h' <;> cases h'
              · cases h
        have h1 : IsSettled (handle env (complete env b).1 e).1 := L0_settled (handle_L0 env _ e h0)
        simp only [andThen]
        rw [complete_settled env _ h1]
        simp [complete_settled env _ h1]
    rw [andThen_assoc, settle_eq, andThen_assoc, settle_fun]
    apply andThen_congr
    exact key _ hb

theorem aConnect_settle (env : Env) (buf : Bytes) : aConnect env buf >>> settle env = lift (syncConnect env buf) := by
  simp only [aConnect, syncConnect]
  cases parseConnect buf with
  | more => simp [andThen, settle, complete, lift]
  | fail c => simp [andThen, settle, complete, lift]
  | ok a ad p rest =>
    by_cases he : env.eager = true <;> by_cases hc : env.connOk = true <;>
      simp [he, hc, andThen, settle, complete, lift, handleAll]

theorem aAuth_settle (env : Env) (buf : Bytes) : aAuth env buf >>> settle env = lift (syncAuth env buf) := by
  simp only [aAuth, syncAuth]
  cases parseAuth buf with
  | more => simp [andThen, settle, complete, lift]
  | ok u p rest =>
    by_cases hv : env.valid u p = true
    · have h1 := aConnect_settle env rest
      have hL := aConnect_L1 env rest
      -- one completion resumes into aConnect, the second is aConnect's own settle (a third is never needed)
      have h2 : aConnect env rest >>> complete env = lift (syncConnect env rest) := by
        rw [← h1, settle_fun, ← andThen_assoc]
        exact (r_complete_idem env (aConnect env rest) (Or.inl hL)).symm
      simp only [andThen, lift, Prod.ext_iff] at h2
      have hc : complete env (.authWait u p rest []) =
          ((aConnect env rest).1, .send [1, 0] :: (aConnect env rest).2) := by
        simp [complete, hv, handleAll]
      simp only [hv, if_true, andThen, settle, hc, lift]
      rw [h2.1, ← h2.2]; simp
    · simp [hv, andThen, settle, complete, lift]

theorem aGreet_settle (env : Env) (buf : Bytes) : aGreet env buf >>> settle env = lift (syncGreet env buf) := by
  simp only [aGreet, syncGreet]
  cases parseGreet (needed env) buf with
  | more => simp [andThen, settle, complete, lift]
  | badVersion => simp [andThen, settle, complete, lift]
  | noMethod => simp [andThen, settle, complete, lift]
  | ok rest =>
    by_cases ha : env.authOn = true
    · have h := aAuth_settle env rest
      simp only [andThen, lift, Prod.ext_iff] at h
      simp [ha, andThen, lift, h.1, h.2]
    · have h := aConnect_settle env rest
      simp only [andThen, lift, Prod.ext_iff] at h
      simp [ha, andThen, lift, h.1, h.2]

/-- a synchronous step = an action on a settled state followed by settling -/
def syncAct (env : Env) (s : SState) : Act → SState × List Out
  | .ev e => syncStep env s e
  | .complete => (s, [])

theorem act_settled (env : Env) (s : SState) (x : Act) :
    act env (.settled s) x >>> settle env = lift (syncAct env s x) := by
  cases x with
  | complete => simp [act, complete, settle, andThen, lift, syncAct]
  | ev e =>
    cases e with
    | close => simp [act, handle, complete, settle, andThen, lift, syncAct, syncStep]
    | data d =>
      by_cases hd : d = []
      · subst hd; simp [act, handle, complete, settle, andThen, lift, syncAct, syncStep, feed]
      · cases s with
        | greet buf =>
          have := aGreet_settle env (buf ++ d)
          simpa [act, handle, hd, syncAct, syncStep, feed] using this
        | auth buf =>
          have := aAuth_settle env (buf ++ d)
          simpa [act, handle, hd, syncAct, syncStep, feed] using this
        | connect buf =>
          have := aConnect_settle env (buf ++ d)
          simpa [act, handle, hd, syncAct, syncStep, feed] using this
        | relay => simp [act, handle, hd, complete, settle, andThen, lift, syncAct, syncStep, feed]
        | done => simp [act, handle, hd, complete, settle, andThen, lift, syncAct, syncStep, feed]

def syncActs (env : Env) (s : SState) : List Act → SState × List Out
  | [] => (s, [])
  | x :: xs => ((syncActs env (syncAct env s x).1 xs).1, (syncAct env s x).2 ++ (syncActs env (syncAct env s x).1 xs).2)

theorem syncActs_eq (env : Env) (s : SState) (acts : List Act) : syncActs env s acts = syncAll env s (insOf acts) := by
  induction acts generalizing s with
  | nil => rfl
  | cons x xs ih =>
    cases x with
    | ev e => simp [syncActs, syncAct, insOf, syncAll, ih]
    | complete => simp [syncActs, syncAct, insOf, ih]

theorem actAll_settle (env : Env) (a : AState) (acts : List Act) :
    actAll env a acts >>> settle env =
      settle env a >>> (fun a' => match a' with
        | .settled s => lift (syncActs env s acts)
        | other => actAll env other acts >>> settle env) := by
  induction acts generalizing a with
  | nil =>
    obtain ⟨s, hs⟩ := settle_settled env a
    simp only [actAll, pure_andThen]
    simp only [andThen, hs, syncActs, lift]
    simp [← hs]
  | cons x xs ih =>
    obtain ⟨s, hs⟩ := settle_settled env a
    rw [actAll_cons, andThen_assoc]
    have h1 : (act env a x >>> fun a1 => actAll env a1 xs >>> settle env) =
        (act env a x >>> settle env) >>> (fun a' => match a' with
          | .settled s => lift (syncActs env s xs)
          | other => actAll env other xs >>> settle env) := by
      rw [andThen_assoc]; apply andThen_congr; exact ih _
    rw [h1, act_settle, andThen_assoc]
    apply andThen_congr
    rw [hs]
    show (act env (.settled s) x >>> settle env) >>> _ = lift (syncActs env s (x :: xs))
    rw [act_settled]
    simp [andThen, lift, syncActs]

/-- **schedule independence**: for every schedule of client events and completions, once everything pending has
    completed, state and emitted commands are those of the synchronous machine on the same client events -/
theorem actAll_settle_init (env : Env) (acts : List Act) :
    actAll env (.settled init) acts >>> settle env = lift (syncAll env init (insOf acts)) := by
  rw [actAll_settle, ← syncActs_eq]
  simp [settle, complete, andThen]


end MitmVerif.C21
