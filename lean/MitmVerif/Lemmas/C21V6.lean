/-
  C21 — the zero-run choice of the IPv6 text (`bestRun`, glibc inet_ntop6) meets RFC 5952 §4.2: checked by the kernel
  on all 256 zero/non-zero patterns of 8 words and lifted to every address (the scan only looks at `w = 0`).
-/
import MitmVerif.Model.C21
namespace MitmVerif.C21

theorem bestRun_spec_bits : ∀ a b c d e f g h : Bool,
    bestRunSpec [a, b, c, d, e, f, g, h]
      (bestRun ([a, b, c, d, e, f, g, h].map fun z => if z then 0 else 1)) = true := by
  decide +kernel

def normWord (w : Nat) : Nat := if w = 0 then 0 else 1

theorem scanRuns_norm (ws : List Nat) (i : Nat) (cur best : Option Run) :
    scanRuns (ws.map normWord) i cur best = scanRuns ws i cur best := by
  induction ws generalizing i cur best with
  | nil => rfl
  | cons w r ih =>
    by_cases hw : w = 0
    · subst hw; simp [scanRuns, normWord, ih]
    · simp [scanRuns, normWord, hw, ih]

theorem bestRun_norm (ws : List Nat) : bestRun (ws.map normWord) = bestRun ws := by
  simp [bestRun, scanRuns_norm]

/-- for every IPv6 address (8 words): the run `textV6` replaces by "::" is the leftmost longest run of at least two
    zero words (RFC 5952 §4.2.2, §4.2.3), and nothing is compressed when there is no such run -/
theorem bestRun_spec (ws : List Nat) (h : ws.length = 8) :
    bestRunSpec (ws.map (· == 0)) (bestRun ws) = true := by
  match ws, h with
  | [w0, w1, w2, w3, w4, w5, w6, w7], _ =>
    have := bestRun_spec_bits (w0 == 0) (w1 == 0) (w2 == 0) (w3 == 0) (w4 == 0) (w5 == 0) (w6 == 0) (w7 == 0)
    have e : ([w0 == 0, w1 == 0, w2 == 0, w3 == 0, w4 == 0, w5 == 0, w6 == 0, w7 == 0].map fun z => if z then 0 else 1) =
        [w0, w1, w2, w3, w4, w5, w6, w7].map normWord := by
      simp [normWord]
    rw [e, bestRun_norm] at this
    simpa using this

theorem words16_length (ad : Bytes) (h : ad.length = 16) : (words16 ad).length = 8 := by
  match ad, h with
  | [_, _, _, _, _, _, _, _, _, _, _, _, _, _, _, _], _ => rfl

end MitmVerif.C21
