/-
  C21 — the IPv6 text reads back to the 16 requested bytes (assembly over the position of the compressed run).
-/
import MitmVerif.Lemmas.C21V6Read
import MitmVerif.Lemmas.C21V6ReadB
import MitmVerif.Lemmas.C21V6ReadC
import MitmVerif.Lemmas.C21V6
set_option linter.unusedSimpArgs false
set_option linter.unusedVariables false
set_option linter.unusedSectionVars false
namespace MitmVerif.C21
open MitmVerif

theorem fw_append (acc : Nat) (x y : List Nat) : fw acc (x ++ y) = fw (fw acc x) y := by simp [fw]
theorem fw_zeros (acc k : Nat) : fw acc (List.replicate k 0) = acc * 65536 ^ k := by
  induction k generalizing acc with
  | zero => simp [fw]
  | succ k ih =>
    have : fw acc (List.replicate (k + 1) 0) = fw (acc * 65536 + 0) (List.replicate k 0) := by simp [fw, List.replicate_succ]
    rw [this, ih, Nat.add_zero, Nat.pow_succ, Nat.mul_assoc, Nat.mul_comm 65536]
theorem wordsVal_skip (pre : List Nat) (l : Nat) (post : List Nat) :
    wordsVal (pre ++ List.replicate l 0 ++ post) = fw (fw 0 pre * 65536 ^ l) post := by
  simp only [wordsVal, fw_append, fw_zeros]

theorem zeroRun_get (z : List Bool) (b l i : Nat) (h : isZeroRun z b l = true) (hi : i < l) :
    z.getD (b + i) false = true := by
  simp only [isZeroRun, Bool.and_eq_true, List.all_eq_true, List.mem_range] at h
  exact h.2 i hi

theorem zeroRun_le (z : List Bool) (b l : Nat) (h : isZeroRun z b l = true) : b + l ≤ z.length := by
  simp only [isZeroRun, Bool.and_eq_true, decide_eq_true_eq] at h
  exact h.1

/-- the trailing colon of inet_ntop6 -/
def v6Tail : Option Run → List Char
  | some b => if b.base + b.len = 8 then [':'] else []
  | none => []


section
variable (w0 w1 w2 w3 w4 w5 w6 w7 : Nat)
  (f0 : WF w0) (f1 : WF w1) (f2 : WF w2) (f3 : WF w3) (f4 : WF w4) (f5 : WF w5) (f6 : WF w6) (f7 : WF w7)
include f0 f1 f2 f3 f4 f5 f6 f7

theorem parseIp_words (a b c d : UInt8) (h6 : w6 = a.toNat * 256 + b.toNat) (h7 : w7 = c.toNat * 256 + d.toNat) :
    C22.parseIp (asciiBytes (emitV6 (bestRun [w0, w1, w2, w3, w4, w5, w6, w7]) w5 [a, b, c, d]
        [w0, w1, w2, w3, w4, w5, w6, w7] 0 ++ v6Tail (bestRun [w0, w1, w2, w3, w4, w5, w6, w7]))) =
      some (.v6 (wordsVal [w0, w1, w2, w3, w4, w5, w6, w7]) none) := by
  have hs := bestRun_spec [w0, w1, w2, w3, w4, w5, w6, w7] rfl
  cases hb : bestRun [w0, w1, w2, w3, w4, w5, w6, w7] with
  | none =>
    have := read_none w0 w1 w2 w3 w4 w5 w6 w7 f0 f1 f2 f3 f4 f5 f6 f7 [a, b, c, d]
    simpa [v6Tail] using this
  | some r =>
    obtain ⟨bb, ll⟩ := r
    rw [hb] at hs
    simp only [bestRunSpec, Bool.and_eq_true, decide_eq_true_eq] at hs
    obtain ⟨⟨h2, hz⟩, _⟩ := hs
    have hle := zeroRun_le _ _ _ hz
    simp only [List.map_cons, List.map_nil, List.length_cons, List.length_nil, Nat.reduceAdd] at hle hz
    simp only [v6Tail]
    rcases (by omega : bb = 0 ∨ bb = 1 ∨ bb = 2 ∨ bb = 3 ∨ bb = 4 ∨ bb = 5 ∨ bb = 6) with rfl | rfl | rfl | rfl | rfl | rfl | rfl
    · -- base 0
      rcases (by omega : ll = 2 ∨ ll = 3 ∨ ll = 4 ∨ ll = 5 ∨ ll = 6 ∨ ll = 7 ∨ ll = 8) with rfl | rfl | rfl | rfl | rfl | rfl | rfl
      · -- (0,2)
        have z0 := zeroRun_get _ _ _ 0 hz (by omega)
        have z1 := zeroRun_get _ _ _ 1 hz (by omega)
        simp at z0 z1
        subst z0
        subst z1
        have hv : wordsVal ([] ++ List.replicate 2 0 ++ [w2, w3, w4, w5, w6, w7]) = fw (fw 0 [] * 65536 ^ 2) [w2, w3, w4, w5, w6, w7] := wordsVal_skip _ _ _
        have := read_0_2 _ _ _ _ _ _ _ _ f0 f1 f2 f3 f4 f5 f6 f7 [a, b, c, d]
        simp only [List.append_nil, Nat.reduceAdd, Nat.reduceEqDiff, if_true, if_false] at this ⊢
        rw [this]; exact congrArg (fun n => some (C22.Addr.v6 n none)) hv.symm
      · -- (0,3)
        have z0 := zeroRun_get _ _ _ 0 hz (by omega)
        have z1 := zeroRun_get _ _ _ 1 hz (by omega)
        have z2 := zeroRun_get _ _ _ 2 hz (by omega)
        simp at z0 z1 z2
        subst z0
        subst z1
        subst z2
        have hv : wordsVal ([] ++ List.replicate 3 0 ++ [w3, w4, w5, w6, w7]) = fw (fw 0 [] * 65536 ^ 3) [w3, w4, w5, w6, w7] := wordsVal_skip _ _ _
        have := read_0_3 _ _ _ _ _ _ _ _ f0 f1 f2 f3 f4 f5 f6 f7 [a, b, c, d]
        simp only [List.append_nil, Nat.reduceAdd, Nat.reduceEqDiff, if_true, if_false] at this ⊢
        rw [this]; exact congrArg (fun n => some (C22.Addr.v6 n none)) hv.symm
      · -- (0,4)
        have z0 := zeroRun_get _ _ _ 0 hz (by omega)
        have z1 := zeroRun_get _ _ _ 1 hz (by omega)
        have z2 := zeroRun_get _ _ _ 2 hz (by omega)
        have z3 := zeroRun_get _ _ _ 3 hz (by omega)
        simp at z0 z1 z2 z3
        subst z0
        subst z1
        subst z2
        subst z3
        have hv : wordsVal ([] ++ List.replicate 4 0 ++ [w4, w5, w6, w7]) = fw (fw 0 [] * 65536 ^ 4) [w4, w5, w6, w7] := wordsVal_skip _ _ _
        have := read_0_4 _ _ _ _ _ _ _ _ f0 f1 f2 f3 f4 f5 f6 f7 [a, b, c, d]
        simp only [List.append_nil, Nat.reduceAdd, Nat.reduceEqDiff, if_true, if_false] at this ⊢
        rw [this]; exact congrArg (fun n => some (C22.Addr.v6 n none)) hv.symm
      · -- (0,5)
        have z0 := zeroRun_get _ _ _ 0 hz (by omega)
        have z1 := zeroRun_get _ _ _ 1 hz (by omega)
        have z2 := zeroRun_get _ _ _ 2 hz (by omega)
        have z3 := zeroRun_get _ _ _ 3 hz (by omega)
        have z4 := zeroRun_get _ _ _ 4 hz (by omega)
        simp at z0 z1 z2 z3 z4
        subst z0
        subst z1
        subst z2
        subst z3
        subst z4
        have hv : wordsVal ([] ++ List.replicate 5 0 ++ [w5, w6, w7]) = fw (fw 0 [] * 65536 ^ 5) [w5, w6, w7] := wordsVal_skip _ _ _
        by_cases h5 : w5 = 65535
        · subst h5 h6 h7
          have := read_emb5 a b c d (a.toNat * 256 + b.toNat) (c.toNat * 256 + d.toNat)
          simp only [List.append_nil, Nat.reduceAdd, Nat.reduceEqDiff, if_true, if_false] at this ⊢
          rw [this]; exact congrArg (fun n => some (C22.Addr.v6 n none)) hv.symm
        · have := read_0_5 _ _ _ _ _ _ _ _ f0 f1 f2 f3 f4 f5 f6 f7 [a, b, c, d] h5
          simp only [List.append_nil, Nat.reduceAdd, Nat.reduceEqDiff, if_true, if_false] at this ⊢
          rw [this]; exact congrArg (fun n => some (C22.Addr.v6 n none)) hv.symm
      · -- (0,6)
        have z0 := zeroRun_get _ _ _ 0 hz (by omega)
        have z1 := zeroRun_get _ _ _ 1 hz (by omega)
        have z2 := zeroRun_get _ _ _ 2 hz (by omega)
        have z3 := zeroRun_get _ _ _ 3 hz (by omega)
        have z4 := zeroRun_get _ _ _ 4 hz (by omega)
        have z5 := zeroRun_get _ _ _ 5 hz (by omega)
        simp at z0 z1 z2 z3 z4 z5
        subst z0
        subst z1
        subst z2
        subst z3
        subst z4
        subst z5
        have hv : wordsVal ([] ++ List.replicate 6 0 ++ [w6, w7]) = fw (fw 0 [] * 65536 ^ 6) [w6, w7] := wordsVal_skip _ _ _
        subst h6 h7
        have := read_emb6 a b c d 0 (a.toNat * 256 + b.toNat) (c.toNat * 256 + d.toNat)
        simp only [List.append_nil, Nat.reduceAdd, Nat.reduceEqDiff, if_true, if_false] at this ⊢
        rw [this]; exact congrArg (fun n => some (C22.Addr.v6 n none)) hv.symm
      · -- (0,7)
        have z0 := zeroRun_get _ _ _ 0 hz (by omega)
        have z1 := zeroRun_get _ _ _ 1 hz (by omega)
        have z2 := zeroRun_get _ _ _ 2 hz (by omega)
        have z3 := zeroRun_get _ _ _ 3 hz (by omega)
        have z4 := zeroRun_get _ _ _ 4 hz (by omega)
        have z5 := zeroRun_get _ _ _ 5 hz (by omega)
        have z6 := zeroRun_get _ _ _ 6 hz (by omega)
        simp at z0 z1 z2 z3 z4 z5 z6
        subst z0
        subst z1
        subst z2
        subst z3
        subst z4
        subst z5
        subst z6
        have hv : wordsVal ([] ++ List.replicate 7 0 ++ [w7]) = fw (fw 0 [] * 65536 ^ 7) [w7] := wordsVal_skip _ _ _
        have := read_0_7 _ _ _ _ _ _ _ _ f0 f1 f2 f3 f4 f5 f6 f7 [a, b, c, d]
        simp only [List.append_nil, Nat.reduceAdd, Nat.reduceEqDiff, if_true, if_false] at this ⊢
        rw [this]; exact congrArg (fun n => some (C22.Addr.v6 n none)) hv.symm
      · -- (0,8)
        have z0 := zeroRun_get _ _ _ 0 hz (by omega)
        have z1 := zeroRun_get _ _ _ 1 hz (by omega)
        have z2 := zeroRun_get _ _ _ 2 hz (by omega)
        have z3 := zeroRun_get _ _ _ 3 hz (by omega)
        have z4 := zeroRun_get _ _ _ 4 hz (by omega)
        have z5 := zeroRun_get _ _ _ 5 hz (by omega)
        have z6 := zeroRun_get _ _ _ 6 hz (by omega)
        have z7 := zeroRun_get _ _ _ 7 hz (by omega)
        simp at z0 z1 z2 z3 z4 z5 z6 z7
        subst z0
        subst z1
        subst z2
        subst z3
        subst z4
        subst z5
        subst z6
        subst z7
        have hv : wordsVal ([] ++ List.replicate 8 0 ++ []) = fw (fw 0 [] * 65536 ^ 8) [] := wordsVal_skip _ _ _
        have := read_0_8 _ _ _ _ _ _ _ _ f0 f1 f2 f3 f4 f5 f6 f7 [a, b, c, d]
        simp only [List.append_nil, Nat.reduceAdd, Nat.reduceEqDiff, if_true, if_false] at this ⊢
        rw [this]; exact congrArg (fun n => some (C22.Addr.v6 n none)) hv.symm
    · -- base 1
      rcases (by omega : ll = 2 ∨ ll = 3 ∨ ll = 4 ∨ ll = 5 ∨ ll = 6 ∨ ll = 7) with rfl | rfl | rfl | rfl | rfl | rfl
      · -- (1,2)
        have z1 := zeroRun_get _ _ _ 0 hz (by omega)
        have z2 := zeroRun_get _ _ _ 1 hz (by omega)
        simp at z1 z2
        subst z1
        subst z2
        have hv : wordsVal ([w0] ++ List.replicate 2 0 ++ [w3, w4, w5, w6, w7]) = fw (fw 0 [w0] * 65536 ^ 2) [w3, w4, w5, w6, w7] := wordsVal_skip _ _ _
        have := read_1_2 _ _ _ _ _ _ _ _ f0 f1 f2 f3 f4 f5 f6 f7 [a, b, c, d]
        simp only [List.append_nil, Nat.reduceAdd, Nat.reduceEqDiff, if_true, if_false] at this ⊢
        rw [this]; exact congrArg (fun n => some (C22.Addr.v6 n none)) hv.symm
      · -- (1,3)
        have z1 := zeroRun_get _ _ _ 0 hz (by omega)
        have z2 := zeroRun_get _ _ _ 1 hz (by omega)
        have z3 := zeroRun_get _ _ _ 2 hz (by omega)
        simp at z1 z2 z3
        subst z1
        subst z2
        subst z3
        have hv : wordsVal ([w0] ++ List.replicate 3 0 ++ [w4, w5, w6, w7]) = fw (fw 0 [w0] * 65536 ^ 3) [w4, w5, w6, w7] := wordsVal_skip _ _ _
        have := read_1_3 _ _ _ _ _ _ _ _ f0 f1 f2 f3 f4 f5 f6 f7 [a, b, c, d]
        simp only [List.append_nil, Nat.reduceAdd, Nat.reduceEqDiff, if_true, if_false] at this ⊢
        rw [this]; exact congrArg (fun n => some (C22.Addr.v6 n none)) hv.symm
      · -- (1,4)
        have z1 := zeroRun_get _ _ _ 0 hz (by omega)
        have z2 := zeroRun_get _ _ _ 1 hz (by omega)
        have z3 := zeroRun_get _ _ _ 2 hz (by omega)
        have z4 := zeroRun_get _ _ _ 3 hz (by omega)
        simp at z1 z2 z3 z4
        subst z1
        subst z2
        subst z3
        subst z4
        have hv : wordsVal ([w0] ++ List.replicate 4 0 ++ [w5, w6, w7]) = fw (fw 0 [w0] * 65536 ^ 4) [w5, w6, w7] := wordsVal_skip _ _ _
        have := read_1_4 _ _ _ _ _ _ _ _ f0 f1 f2 f3 f4 f5 f6 f7 [a, b, c, d]
        simp only [List.append_nil, Nat.reduceAdd, Nat.reduceEqDiff, if_true, if_false] at this ⊢
        rw [this]; exact congrArg (fun n => some (C22.Addr.v6 n none)) hv.symm
      · -- (1,5)
        have z1 := zeroRun_get _ _ _ 0 hz (by omega)
        have z2 := zeroRun_get _ _ _ 1 hz (by omega)
        have z3 := zeroRun_get _ _ _ 2 hz (by omega)
        have z4 := zeroRun_get _ _ _ 3 hz (by omega)
        have z5 := zeroRun_get _ _ _ 4 hz (by omega)
        simp at z1 z2 z3 z4 z5
        subst z1
        subst z2
        subst z3
        subst z4
        subst z5
        have hv : wordsVal ([w0] ++ List.replicate 5 0 ++ [w6, w7]) = fw (fw 0 [w0] * 65536 ^ 5) [w6, w7] := wordsVal_skip _ _ _
        have := read_1_5 _ _ _ _ _ _ _ _ f0 f1 f2 f3 f4 f5 f6 f7 [a, b, c, d]
        simp only [List.append_nil, Nat.reduceAdd, Nat.reduceEqDiff, if_true, if_false] at this ⊢
        rw [this]; exact congrArg (fun n => some (C22.Addr.v6 n none)) hv.symm
      · -- (1,6)
        have z1 := zeroRun_get _ _ _ 0 hz (by omega)
        have z2 := zeroRun_get _ _ _ 1 hz (by omega)
        have z3 := zeroRun_get _ _ _ 2 hz (by omega)
        have z4 := zeroRun_get _ _ _ 3 hz (by omega)
        have z5 := zeroRun_get _ _ _ 4 hz (by omega)
        have z6 := zeroRun_get _ _ _ 5 hz (by omega)
        simp at z1 z2 z3 z4 z5 z6
        subst z1
        subst z2
        subst z3
        subst z4
        subst z5
        subst z6
        have hv : wordsVal ([w0] ++ List.replicate 6 0 ++ [w7]) = fw (fw 0 [w0] * 65536 ^ 6) [w7] := wordsVal_skip _ _ _
        have := read_1_6 _ _ _ _ _ _ _ _ f0 f1 f2 f3 f4 f5 f6 f7 [a, b, c, d]
        simp only [List.append_nil, Nat.reduceAdd, Nat.reduceEqDiff, if_true, if_false] at this ⊢
        rw [this]; exact congrArg (fun n => some (C22.Addr.v6 n none)) hv.symm
      · -- (1,7)
        have z1 := zeroRun_get _ _ _ 0 hz (by omega)
        have z2 := zeroRun_get _ _ _ 1 hz (by omega)
        have z3 := zeroRun_get _ _ _ 2 hz (by omega)
        have z4 := zeroRun_get _ _ _ 3 hz (by omega)
        have z5 := zeroRun_get _ _ _ 4 hz (by omega)
        have z6 := zeroRun_get _ _ _ 5 hz (by omega)
        have z7 := zeroRun_get _ _ _ 6 hz (by omega)
        simp at z1 z2 z3 z4 z5 z6 z7
        subst z1
        subst z2
        subst z3
        subst z4
        subst z5
        subst z6
        subst z7
        have hv : wordsVal ([w0] ++ List.replicate 7 0 ++ []) = fw (fw 0 [w0] * 65536 ^ 7) [] := wordsVal_skip _ _ _
        have := read_1_7 _ _ _ _ _ _ _ _ f0 f1 f2 f3 f4 f5 f6 f7 [a, b, c, d]
        simp only [List.append_nil, Nat.reduceAdd, Nat.reduceEqDiff, if_true, if_false] at this ⊢
        rw [this]; exact congrArg (fun n => some (C22.Addr.v6 n none)) hv.symm
    · -- base 2
      rcases (by omega : ll = 2 ∨ ll = 3 ∨ ll = 4 ∨ ll = 5 ∨ ll = 6) with rfl | rfl | rfl | rfl | rfl
      · -- (2,2)
        have z2 := zeroRun_get _ _ _ 0 hz (by omega)
        have z3 := zeroRun_get _ _ _ 1 hz (by omega)
        simp at z2 z3
        subst z2
        subst z3
        have hv : wordsVal ([w0, w1] ++ List.replicate 2 0 ++ [w4, w5, w6, w7]) = fw (fw 0 [w0, w1] * 65536 ^ 2) [w4, w5, w6, w7] := wordsVal_skip _ _ _
        have := read_2_2 _ _ _ _ _ _ _ _ f0 f1 f2 f3 f4 f5 f6 f7 [a, b, c, d]
        simp only [List.append_nil, Nat.reduceAdd, Nat.reduceEqDiff, if_true, if_false] at this ⊢
        rw [this]; exact congrArg (fun n => some (C22.Addr.v6 n none)) hv.symm
      · -- (2,3)
        have z2 := zeroRun_get _ _ _ 0 hz (by omega)
        have z3 := zeroRun_get _ _ _ 1 hz (by omega)
        have z4 := zeroRun_get _ _ _ 2 hz (by omega)
        simp at z2 z3 z4
        subst z2
        subst z3
        subst z4
        have hv : wordsVal ([w0, w1] ++ List.replicate 3 0 ++ [w5, w6, w7]) = fw (fw 0 [w0, w1] * 65536 ^ 3) [w5, w6, w7] := wordsVal_skip _ _ _
        have := read_2_3 _ _ _ _ _ _ _ _ f0 f1 f2 f3 f4 f5 f6 f7 [a, b, c, d]
        simp only [List.append_nil, Nat.reduceAdd, Nat.reduceEqDiff, if_true, if_false] at this ⊢
        rw [this]; exact congrArg (fun n => some (C22.Addr.v6 n none)) hv.symm
      · -- (2,4)
        have z2 := zeroRun_get _ _ _ 0 hz (by omega)
        have z3 := zeroRun_get _ _ _ 1 hz (by omega)
        have z4 := zeroRun_get _ _ _ 2 hz (by omega)
        have z5 := zeroRun_get _ _ _ 3 hz (by omega)
        simp at z2 z3 z4 z5
        subst z2
        subst z3
        subst z4
        subst z5
        have hv : wordsVal ([w0, w1] ++ List.replicate 4 0 ++ [w6, w7]) = fw (fw 0 [w0, w1] * 65536 ^ 4) [w6, w7] := wordsVal_skip _ _ _
        have := read_2_4 _ _ _ _ _ _ _ _ f0 f1 f2 f3 f4 f5 f6 f7 [a, b, c, d]
        simp only [List.append_nil, Nat.reduceAdd, Nat.reduceEqDiff, if_true, if_false] at this ⊢
        rw [this]; exact congrArg (fun n => some (C22.Addr.v6 n none)) hv.symm
      · -- (2,5)
        have z2 := zeroRun_get _ _ _ 0 hz (by omega)
        have z3 := zeroRun_get _ _ _ 1 hz (by omega)
        have z4 := zeroRun_get _ _ _ 2 hz (by omega)
        have z5 := zeroRun_get _ _ _ 3 hz (by omega)
        have z6 := zeroRun_get _ _ _ 4 hz (by omega)
        simp at z2 z3 z4 z5 z6
        subst z2
        subst z3
        subst z4
        subst z5
        subst z6
        have hv : wordsVal ([w0, w1] ++ List.replicate 5 0 ++ [w7]) = fw (fw 0 [w0, w1] * 65536 ^ 5) [w7] := wordsVal_skip _ _ _
        have := read_2_5 _ _ _ _ _ _ _ _ f0 f1 f2 f3 f4 f5 f6 f7 [a, b, c, d]
        simp only [List.append_nil, Nat.reduceAdd, Nat.reduceEqDiff, if_true, if_false] at this ⊢
        rw [this]; exact congrArg (fun n => some (C22.Addr.v6 n none)) hv.symm
      · -- (2,6)
        have z2 := zeroRun_get _ _ _ 0 hz (by omega)
        have z3 := zeroRun_get _ _ _ 1 hz (by omega)
        have z4 := zeroRun_get _ _ _ 2 hz (by omega)
        have z5 := zeroRun_get _ _ _ 3 hz (by omega)
        have z6 := zeroRun_get _ _ _ 4 hz (by omega)
        have z7 := zeroRun_get _ _ _ 5 hz (by omega)
        simp at z2 z3 z4 z5 z6 z7
        subst z2
        subst z3
        subst z4
        subst z5
        subst z6
        subst z7
        have hv : wordsVal ([w0, w1] ++ List.replicate 6 0 ++ []) = fw (fw 0 [w0, w1] * 65536 ^ 6) [] := wordsVal_skip _ _ _
        have := read_2_6 _ _ _ _ _ _ _ _ f0 f1 f2 f3 f4 f5 f6 f7 [a, b, c, d]
        simp only [List.append_nil, Nat.reduceAdd, Nat.reduceEqDiff, if_true, if_false] at this ⊢
        rw [this]; exact congrArg (fun n => some (C22.Addr.v6 n none)) hv.symm
    · -- base 3
      rcases (by omega : ll = 2 ∨ ll = 3 ∨ ll = 4 ∨ ll = 5) with rfl | rfl | rfl | rfl
      · -- (3,2)
        have z3 := zeroRun_get _ _ _ 0 hz (by omega)
        have z4 := zeroRun_get _ _ _ 1 hz (by omega)
        simp at z3 z4
        subst z3
        subst z4
        have hv : wordsVal ([w0, w1, w2] ++ List.replicate 2 0 ++ [w5, w6, w7]) = fw (fw 0 [w0, w1, w2] * 65536 ^ 2) [w5, w6, w7] := wordsVal_skip _ _ _
        have := read_3_2 _ _ _ _ _ _ _ _ f0 f1 f2 f3 f4 f5 f6 f7 [a, b, c, d]
        simp only [List.append_nil, Nat.reduceAdd, Nat.reduceEqDiff, if_true, if_false] at this ⊢
        rw [this]; exact congrArg (fun n => some (C22.Addr.v6 n none)) hv.symm
      · -- (3,3)
        have z3 := zeroRun_get _ _ _ 0 hz (by omega)
        have z4 := zeroRun_get _ _ _ 1 hz (by omega)
        have z5 := zeroRun_get _ _ _ 2 hz (by omega)
        simp at z3 z4 z5
        subst z3
        subst z4
        subst z5
        have hv : wordsVal ([w0, w1, w2] ++ List.replicate 3 0 ++ [w6, w7]) = fw (fw 0 [w0, w1, w2] * 65536 ^ 3) [w6, w7] := wordsVal_skip _ _ _
        have := read_3_3 _ _ _ _ _ _ _ _ f0 f1 f2 f3 f4 f5 f6 f7 [a, b, c, d]
        simp only [List.append_nil, Nat.reduceAdd, Nat.reduceEqDiff, if_true, if_false] at this ⊢
        rw [this]; exact congrArg (fun n => some (C22.Addr.v6 n none)) hv.symm
      · -- (3,4)
        have z3 := zeroRun_get _ _ _ 0 hz (by omega)
        have z4 := zeroRun_get _ _ _ 1 hz (by omega)
        have z5 := zeroRun_get _ _ _ 2 hz (by omega)
        have z6 := zeroRun_get _ _ _ 3 hz (by omega)
        simp at z3 z4 z5 z6
        subst z3
        subst z4
        subst z5
        subst z6
        have hv : wordsVal ([w0, w1, w2] ++ List.replicate 4 0 ++ [w7]) = fw (fw 0 [w0, w1, w2] * 65536 ^ 4) [w7] := wordsVal_skip _ _ _
        have := read_3_4 _ _ _ _ _ _ _ _ f0 f1 f2 f3 f4 f5 f6 f7 [a, b, c, d]
        simp only [List.append_nil, Nat.reduceAdd, Nat.reduceEqDiff, if_true, if_false] at this ⊢
        rw [this]; exact congrArg (fun n => some (C22.Addr.v6 n none)) hv.symm
      · -- (3,5)
        have z3 := zeroRun_get _ _ _ 0 hz (by omega)
        have z4 := zeroRun_get _ _ _ 1 hz (by omega)
        have z5 := zeroRun_get _ _ _ 2 hz (by omega)
        have z6 := zeroRun_get _ _ _ 3 hz (by omega)
        have z7 := zeroRun_get _ _ _ 4 hz (by omega)
        simp at z3 z4 z5 z6 z7
        subst z3
        subst z4
        subst z5
        subst z6
        subst z7
        have hv : wordsVal ([w0, w1, w2] ++ List.replicate 5 0 ++ []) = fw (fw 0 [w0, w1, w2] * 65536 ^ 5) [] := wordsVal_skip _ _ _
        have := read_3_5 _ _ _ _ _ _ _ _ f0 f1 f2 f3 f4 f5 f6 f7 [a, b, c, d]
        simp only [List.append_nil, Nat.reduceAdd, Nat.reduceEqDiff, if_true, if_false] at this ⊢
        rw [this]; exact congrArg (fun n => some (C22.Addr.v6 n none)) hv.symm
    · -- base 4
      rcases (by omega : ll = 2 ∨ ll = 3 ∨ ll = 4) with rfl | rfl | rfl
      · -- (4,2)
        have z4 := zeroRun_get _ _ _ 0 hz (by omega)
        have z5 := zeroRun_get _ _ _ 1 hz (by omega)
        simp at z4 z5
        subst z4
        subst z5
        have hv : wordsVal ([w0, w1, w2, w3] ++ List.replicate 2 0 ++ [w6, w7]) = fw (fw 0 [w0, w1, w2, w3] * 65536 ^ 2) [w6, w7] := wordsVal_skip _ _ _
        have := read_4_2 _ _ _ _ _ _ _ _ f0 f1 f2 f3 f4 f5 f6 f7 [a, b, c, d]
        simp only [List.append_nil, Nat.reduceAdd, Nat.reduceEqDiff, if_true, if_false] at this ⊢
        rw [this]; exact congrArg (fun n => some (C22.Addr.v6 n none)) hv.symm
      · -- (4,3)
        have z4 := zeroRun_get _ _ _ 0 hz (by omega)
        have z5 := zeroRun_get _ _ _ 1 hz (by omega)
        have z6 := zeroRun_get _ _ _ 2 hz (by omega)
        simp at z4 z5 z6
        subst z4
        subst z5
        subst z6
        have hv : wordsVal ([w0, w1, w2, w3] ++ List.replicate 3 0 ++ [w7]) = fw (fw 0 [w0, w1, w2, w3] * 65536 ^ 3) [w7] := wordsVal_skip _ _ _
        have := read_4_3 _ _ _ _ _ _ _ _ f0 f1 f2 f3 f4 f5 f6 f7 [a, b, c, d]
        simp only [List.append_nil, Nat.reduceAdd, Nat.reduceEqDiff, if_true, if_false] at this ⊢
        rw [this]; exact congrArg (fun n => some (C22.Addr.v6 n none)) hv.symm
      · -- (4,4)
        have z4 := zeroRun_get _ _ _ 0 hz (by omega)
        have z5 := zeroRun_get _ _ _ 1 hz (by omega)
        have z6 := zeroRun_get _ _ _ 2 hz (by omega)
        have z7 := zeroRun_get _ _ _ 3 hz (by omega)
        simp at z4 z5 z6 z7
        subst z4
        subst z5
        subst z6
        subst z7
        have hv : wordsVal ([w0, w1, w2, w3] ++ List.replicate 4 0 ++ []) = fw (fw 0 [w0, w1, w2, w3] * 65536 ^ 4) [] := wordsVal_skip _ _ _
        have := read_4_4 _ _ _ _ _ _ _ _ f0 f1 f2 f3 f4 f5 f6 f7 [a, b, c, d]
        simp only [List.append_nil, Nat.reduceAdd, Nat.reduceEqDiff, if_true, if_false] at this ⊢
        rw [this]; exact congrArg (fun n => some (C22.Addr.v6 n none)) hv.symm
    · -- base 5
      rcases (by omega : ll = 2 ∨ ll = 3) with rfl | rfl
      · -- (5,2)
        have z5 := zeroRun_get _ _ _ 0 hz (by omega)
        have z6 := zeroRun_get _ _ _ 1 hz (by omega)
        simp at z5 z6
        subst z5
        subst z6
        have hv : wordsVal ([w0, w1, w2, w3, w4] ++ List.replicate 2 0 ++ [w7]) = fw (fw 0 [w0, w1, w2, w3, w4] * 65536 ^ 2) [w7] := wordsVal_skip _ _ _
        have := read_5_2 _ _ _ _ _ _ _ _ f0 f1 f2 f3 f4 f5 f6 f7 [a, b, c, d]
        simp only [List.append_nil, Nat.reduceAdd, Nat.reduceEqDiff, if_true, if_false] at this ⊢
        rw [this]; exact congrArg (fun n => some (C22.Addr.v6 n none)) hv.symm
      · -- (5,3)
        have z5 := zeroRun_get _ _ _ 0 hz (by omega)
        have z6 := zeroRun_get _ _ _ 1 hz (by omega)
        have z7 := zeroRun_get _ _ _ 2 hz (by omega)
        simp at z5 z6 z7
        subst z5
        subst z6
        subst z7
        have hv : wordsVal ([w0, w1, w2, w3, w4] ++ List.replicate 3 0 ++ []) = fw (fw 0 [w0, w1, w2, w3, w4] * 65536 ^ 3) [] := wordsVal_skip _ _ _
        have := read_5_3 _ _ _ _ _ _ _ _ f0 f1 f2 f3 f4 f5 f6 f7 [a, b, c, d]
        simp only [List.append_nil, Nat.reduceAdd, Nat.reduceEqDiff, if_true, if_false] at this ⊢
        rw [this]; exact congrArg (fun n => some (C22.Addr.v6 n none)) hv.symm
    · -- base 6
      rcases (by omega : ll = 2) with rfl
      · -- (6,2)
        have z6 := zeroRun_get _ _ _ 0 hz (by omega)
        have z7 := zeroRun_get _ _ _ 1 hz (by omega)
        simp at z6 z7
        subst z6
        subst z7
        have hv : wordsVal ([w0, w1, w2, w3, w4, w5] ++ List.replicate 2 0 ++ []) = fw (fw 0 [w0, w1, w2, w3, w4, w5] * 65536 ^ 2) [] := wordsVal_skip _ _ _
        have := read_6_2 _ _ _ _ _ _ _ _ f0 f1 f2 f3 f4 f5 f6 f7 [a, b, c, d]
        simp only [List.append_nil, Nat.reduceAdd, Nat.reduceEqDiff, if_true, if_false] at this ⊢
        rw [this]; exact congrArg (fun n => some (C22.Addr.v6 n none)) hv.symm

end

/-- **the IPv6 text reads back**: for every 16-byte address, CPython's `ipaddress.ip_address` (C22's transcription
    `parseIp`) applied to the text `textV6` produces is the IPv6 address with exactly these 8 words, no scope -/
theorem parseIp_textV6 (ad : Bytes) (h : ad.length = 16) :
    C22.parseIp (asciiBytes (textV6 ad)) = some (.v6 (wordsVal (words16 ad)) none) := by
  match ad, h with
  | [b0, b1, b2, b3, b4, b5, b6, b7, b8, b9, b10, b11, b12, b13, b14, b15], _ =>
    have lt : ∀ x y : UInt8, x.toNat * 256 + y.toNat < 65536 := by
      intro x y; have := x.toNat_lt; have := y.toNat_lt; omega
    have := parseIp_words _ _ _ _ _ _ _ _ (WF_of_lt _ (lt b0 b1)) (WF_of_lt _ (lt b2 b3)) (WF_of_lt _ (lt b4 b5))
      (WF_of_lt _ (lt b6 b7)) (WF_of_lt _ (lt b8 b9)) (WF_of_lt _ (lt b10 b11)) (WF_of_lt _ (lt b12 b13))
      (WF_of_lt _ (lt b14 b15)) b12 b13 b14 b15 rfl rfl
    simp only [textV6, words16, List.getD_cons_succ, List.getD_cons_zero, List.drop_succ_cons, List.drop_zero]
    revert this
    generalize bestRun [b0.toNat * 256 + b1.toNat, b2.toNat * 256 + b3.toNat, b4.toNat * 256 + b5.toNat,
      b6.toNat * 256 + b7.toNat, b8.toNat * 256 + b9.toNat, b10.toNat * 256 + b11.toNat,
      b12.toNat * 256 + b13.toNat, b14.toNat * 256 + b15.toNat] = best
    intro this
    cases best with
    | none => simpa [v6Tail] using this
    | some r => simpa [v6Tail] using this

/-! ### the integer is the 16 bytes, big-endian; and it determines them -/

/-- `int.from_bytes(ad, "big")` -/
def beNat (ad : Bytes) : Nat := ad.foldl (fun a b => a * 256 + b.toNat) 0

theorem beFold_words : ∀ (r : Bytes) (acc : Nat), r.length % 2 = 0 →
    r.foldl (fun a b => a * 256 + b.toNat) acc = fw acc (words16 r)
  | [], acc, _ => rfl
  | [x], _, h => by simp at h
  | x :: y :: r, acc, h => by
    have h' : r.length % 2 = 0 := by simp only [List.length_cons] at h; omega
    have ih := beFold_words r ((acc * 256 + x.toNat) * 256 + y.toNat) h'
    have e : (acc * 256 + x.toNat) * 256 + y.toNat = acc * 65536 + (x.toNat * 256 + y.toNat) := by omega
    simp only [List.foldl_cons, words16, fw] at ih ⊢
    rw [ih, e]

theorem wordsVal_words16 (ad : Bytes) (h : ad.length = 16) : wordsVal (words16 ad) = beNat ad := by
  simp only [wordsVal, beNat]
  exact (beFold_words ad 0 (by omega)).symm

theorem fw_inj : ∀ (ws ws' : List Nat) (acc acc' : Nat), ws.length = ws'.length →
    (∀ w ∈ ws, w < 65536) → (∀ w ∈ ws', w < 65536) → fw acc ws = fw acc' ws' → acc = acc' ∧ ws = ws'
  | [], [], _, _, _, _, _, h => ⟨by simpa [fw] using h, rfl⟩
  | [], _ :: _, _, _, hl, _, _, _ => by simp at hl
  | _ :: _, [], _, _, hl, _, _, _ => by simp at hl
  | w :: r, w' :: r', acc, acc', hl, hb, hb', h => by
    have ih := fw_inj r r' (acc * 65536 + w) (acc' * 65536 + w') (by simpa using hl)
      (fun x hx => hb x (List.mem_cons_of_mem _ hx)) (fun x hx => hb' x (List.mem_cons_of_mem _ hx))
      (by simpa [fw] using h)
    have h1 := hb w (by simp)
    have h2 := hb' w' (by simp)
    obtain ⟨e, er⟩ := ih
    have : acc = acc' ∧ w = w' := by omega
    exact ⟨this.1, by rw [this.2, er]⟩

theorem words16_lt : ∀ (r : Bytes), ∀ w ∈ words16 r, w < 65536
  | [], w, h => by simp [words16] at h
  | [_], w, h => by simp [words16] at h
  | x :: y :: r, w, h => by
    simp only [words16, List.mem_cons] at h
    rcases h with rfl | h
    · have := x.toNat_lt; have := y.toNat_lt; omega
    · exact words16_lt r w h

theorem words16_inj : ∀ (x y : Bytes), x.length = y.length → x.length % 2 = 0 → words16 x = words16 y → x = y
  | [], [], _, _, _ => rfl
  | [], _ :: _, hl, _, _ => by simp at hl
  | _ :: _, [], hl, _, _ => by simp at hl
  | [_], _, _, h2, _ => by simp at h2
  | _ :: _ :: _, [_], hl, _, _ => by simp at hl
  | a :: b :: r, a' :: b' :: r', hl, h2, h => by
    simp only [words16, List.cons.injEq] at h
    have := a.toNat_lt; have := b.toNat_lt; have := a'.toNat_lt; have := b'.toNat_lt
    have hab : a.toNat = a'.toNat ∧ b.toNat = b'.toNat := by omega
    have ih := words16_inj r r' (by simpa using hl) (by simp only [List.length_cons] at h2; omega) h.2
    rw [UInt8.toNat_inj.mp hab.1, UInt8.toNat_inj.mp hab.2, ih]

theorem words16_len (x y : Bytes) (hl : x.length = y.length) : ∀ n, x.length = n → (words16 x).length = (words16 y).length := by
  intro n hn
  induction n using Nat.strongRecOn generalizing x y with
  | _ n ih =>
    match x, y, hl with
    | [], [], _ => rfl
    | [_], [_], _ => rfl
    | a :: b :: r, a' :: b' :: r', hl =>
      simp only [words16, List.length_cons]
      have := ih r.length (by simp only [List.length_cons] at hn; omega) r r' (by simpa using hl) rfl
      omega

end MitmVerif.C21
