/-
  C21 — reading the IPv6 text back with C22's transcription of CPython's `ipaddress` (`C22.parseIp`):
  facts about the pieces (`H w` = "%x" of a word, `D n` = "%u" of a byte), `splitOn` lemmas, and one lemma per
  position of the compressed zero run (generated: 27 plain cases, the two embedded-IPv4 forms, no compression).
-/
import MitmVerif.Model.C21
import MitmVerif.Model.C22
set_option linter.unusedSimpArgs false
set_option linter.unusedVariables false
namespace MitmVerif.C21
open MitmVerif

/-! helpers: C22's reader on the pieces of the text -/

theorem asciiBytes_append (a b : List Char) : asciiBytes (a ++ b) = asciiBytes a ++ asciiBytes b := by
  simp [asciiBytes]
theorem asciiBytes_cons (c : Char) (r : List Char) : asciiBytes (c :: r) = UInt8.ofNat c.toNat :: asciiBytes r := rfl
theorem asciiBytes_nil : asciiBytes [] = [] := rfl

/-- bytes of a hex word -/
def H (w : Nat) : Bytes := asciiBytes (hexWord w)
/-- bytes of a decimal byte -/
def D (n : Nat) : Bytes := asciiBytes (decByte n)

theorem nibble_facts : ∀ n : Fin 16,
    C22.hexVal (UInt8.ofNat (hexChar n.val).toNat) = some n.val ∧
    UInt8.ofNat (hexChar n.val).toNat ≠ 0x3a ∧ UInt8.ofNat (hexChar n.val).toNat ≠ 0x2e ∧
    UInt8.ofNat (hexChar n.val).toNat ≠ 0x25 ∧ UInt8.ofNat (hexChar n.val).toNat ≠ 0x2f := by decide +kernel

theorem H_facts (w : Nat) (hw : w < 65536) :
    C22.parseHextet (H w) = some w ∧ (H w).isEmpty = false ∧ (0x3a : UInt8) ∉ H w ∧ (0x2e : UInt8) ∉ H w ∧
      (0x25 : UInt8) ∉ H w ∧ (0x2f : UInt8) ∉ H w := by
  unfold H hexWord
  have nf : ∀ n, n < 16 → C22.hexVal (UInt8.ofNat (hexChar n).toNat) = some n ∧
      (0x3a : UInt8) ≠ UInt8.ofNat (hexChar n).toNat ∧ (0x2e : UInt8) ≠ UInt8.ofNat (hexChar n).toNat ∧
      (0x25 : UInt8) ≠ UInt8.ofNat (hexChar n).toNat ∧ (0x2f : UInt8) ≠ UInt8.ofNat (hexChar n).toNat := by
    intro n hn
    have := nibble_facts ⟨n, hn⟩
    exact ⟨this.1, this.2.1.symm, this.2.2.1.symm, this.2.2.2.1.symm, this.2.2.2.2.symm⟩
  split
  · rename_i h
    have n0 := nf w (by omega)
    simp [asciiBytes, C22.parseHextet, n0]
  · split
    · have n0 := nf (w / 16) (by omega)
      have n1 := nf (w % 16) (by omega)
      simp [asciiBytes, C22.parseHextet, n0, n1]
      omega
    · split
      · have n0 := nf (w / 256) (by omega)
        have n1 := nf (w / 16 % 16) (by omega)
        have n2 := nf (w % 16) (by omega)
        simp [asciiBytes, C22.parseHextet, n0, n1, n2]
        omega
      · have n0 := nf (w / 4096 % 16) (by omega)
        have n1 := nf (w / 256 % 16) (by omega)
        have n2 := nf (w / 16 % 16) (by omega)
        have n3 := nf (w % 16) (by omega)
        simp [asciiBytes, C22.parseHextet, n0, n1, n2, n3]
        omega


theorem D_facts : ∀ n : Fin 256,
    C22.parseOctet (D n.val) = some n.val ∧ (0x2e : UInt8) ∉ D n.val ∧ (0x3a : UInt8) ∉ D n.val ∧
    (0x25 : UInt8) ∉ D n.val ∧ (0x2f : UInt8) ∉ D n.val ∧ (D n.val).isEmpty = false := by decide +kernel

/-! ### `splitOn` -/

theorem splitOn_ne_nil (sep : UInt8) (t : Bytes) : C22.splitOn sep t ≠ [] := by
  induction t with
  | nil => simp [C22.splitOn]
  | cons c cs ih =>
    simp only [C22.splitOn]
    split
    · simp
    · split <;> simp

theorem splitOn_no_sep (sep : UInt8) (a : Bytes) (h : sep ∉ a) : C22.splitOn sep a = [a] := by
  induction a with
  | nil => rfl
  | cons c cs ih =>
    have hc : c ≠ sep := by intro e; subst e; simp at h
    have hcs : sep ∉ cs := by intro e; exact h (List.mem_cons_of_mem _ e)
    simp [C22.splitOn, ih hcs, hc]

theorem splitOn_sep_cons (sep : UInt8) (b : Bytes) : C22.splitOn sep (sep :: b) = [] :: C22.splitOn sep b := by
  simp only [C22.splitOn]
  split
  · rename_i h; exact absurd h (splitOn_ne_nil sep b)
  · rename_i p ps h; simp [h]

theorem splitOn_append_sep (sep : UInt8) (a b : Bytes) (h : sep ∉ a) :
    C22.splitOn sep (a ++ sep :: b) = a :: C22.splitOn sep b := by
  induction a with
  | nil => exact splitOn_sep_cons sep b
  | cons c cs ih =>
    have hc : c ≠ sep := by intro e; subst e; simp at h
    have hcs : sep ∉ cs := by intro e; exact h (List.mem_cons_of_mem _ e)
    simp [C22.splitOn, ih hcs, hc]

theorem partitionPct_none (t : Bytes) (h : (0x25 : UInt8) ∉ t) : C22.partitionPct t = none := by
  induction t with
  | nil => rfl
  | cons c cs ih =>
    have hc : c ≠ 0x25 := by intro e; subst e; simp at h
    have hcs : (0x25 : UInt8) ∉ cs := by intro e; exact h (List.mem_cons_of_mem _ e)
    simp [C22.partitionPct, hc, ih hcs]

/-- a text without a dot is not an IPv4 address -/
theorem parseV4_none_of_no_dot (t : Bytes) (h : (0x2e : UInt8) ∉ t) : C22.parseV4 t = none := by
  simp only [C22.parseV4, splitOn_no_sep _ t h]
  split
  · rfl
  · split <;> rfl

/-- the dotted quad of four bytes, read by C22's IPv4 reader -/
theorem parseV4_dotted (a b c d : UInt8) :
    C22.parseV4 (D a.toNat ++ 0x2e :: (D b.toNat ++ 0x2e :: (D c.toNat ++ 0x2e :: D d.toNat))) =
      some (((a.toNat * 256 + b.toNat) * 256 + c.toNat) * 256 + d.toNat) := by
  have fa := D_facts ⟨a.toNat, a.toNat_lt⟩
  have fb := D_facts ⟨b.toNat, b.toNat_lt⟩
  have fc := D_facts ⟨c.toNat, c.toNat_lt⟩
  have fd := D_facts ⟨d.toNat, d.toNat_lt⟩
  simp only at fa fb fc fd
  have hs : C22.splitOn 0x2e (D a.toNat ++ 0x2e :: (D b.toNat ++ 0x2e :: (D c.toNat ++ 0x2e :: D d.toNat))) =
      [D a.toNat, D b.toNat, D c.toNat, D d.toNat] := by
    rw [splitOn_append_sep _ _ _ fa.2.1, splitOn_append_sep _ _ _ fb.2.1, splitOn_append_sep _ _ _ fc.2.1,
      splitOn_no_sep _ _ fd.2.1]
  have hne : (D a.toNat ++ 0x2e :: (D b.toNat ++ 0x2e :: (D c.toNat ++ 0x2e :: D d.toNat))).isEmpty = false := by
    cases hda : D a.toNat with
    | nil => rfl
    | cons x r => rfl
  have hsl : (D a.toNat ++ 0x2e :: (D b.toNat ++ 0x2e :: (D c.toNat ++ 0x2e :: D d.toNat))).contains 0x2f = false := by
    simp [fa.2.2.2.2.1, fb.2.2.2.2.1, fc.2.2.2.2.1, fd.2.2.2.2.1]
  simp only [C22.parseV4, hs, hne, hsl, fa.1, fb.1, fc.1, fd.1]
  simp


theorem H_def (w : Nat) : asciiBytes (hexWord w) = H w := rfl

def fw (acc : Nat) (ws : List Nat) : Nat := ws.foldl (fun a w => a * 65536 + w) acc
def wordsVal (ws : List Nat) : Nat := fw 0 ws

/-- bundle of the facts simp needs about one word -/
structure WF (w : Nat) : Prop where
  ph : C22.parseHextet (H w) = some w
  ne : (H w).isEmpty = false
  c3a : ((0x3a : UInt8) ∈ H w) = False
  c2e : ((0x2e : UInt8) ∈ H w) = False
  c25 : ((0x25 : UInt8) ∈ H w) = False
  c2f : ((0x2f : UInt8) ∈ H w) = False

theorem WF_of_lt (w : Nat) (h : w < 65536) : WF w := by
  obtain ⟨a, b, c, d, e, f⟩ := H_facts w h
  exact ⟨a, b, by simpa using c, by simpa using d, by simpa using e, by simpa using f⟩

theorem splitOn_nil (sep : UInt8) : C22.splitOn sep [] = [[]] := rfl
theorem colon_byte : UInt8.ofNat ':'.toNat = 0x3a := by decide
theorem dot_byte : UInt8.ofNat '.'.toNat = 0x2e := by decide

theorem parseIp_of_v6 (t : Bytes) (hdot : (0x2e : UInt8) ∉ t) (hpct : (0x25 : UInt8) ∉ t) (hsl : (0x2f : UInt8) ∉ t) :
    C22.parseIp t = (C22.parseV6Int t).map (C22.Addr.v6 · none) := by
  simp [C22.parseIp, parseV4_none_of_no_dot t hdot, C22.parseV6, hsl, partitionPct_none t hpct]

theorem parseV4_colon_first (rest : Bytes) : C22.parseV4 (0x3a :: rest) = none := by
  have hs : ∃ p ps, C22.splitOn 0x2e (0x3a :: rest) = (0x3a :: p) :: ps := by
    simp only [C22.splitOn]
    split
    · rename_i h; exact absurd h (splitOn_ne_nil _ _)
    · rename_i p ps h; exact ⟨p, ps, by simp⟩
  obtain ⟨p, ps, hs⟩ := hs
  have ho : C22.parseOctet (0x3a :: p) = none := by
    simp [C22.parseOctet, C22.isDigit]
  simp only [C22.parseV4, hs]
  split
  · rfl
  · split
    · rfl
    · split
      · rename_i h; injection h with h1 h2; subst h1; simp [ho]
      · rfl

theorem embedded_value (a b c d : UInt8) :
    (((a.toNat * 256 + b.toNat) * 256 + c.toNat) * 256 + d.toNat) / 65536 = a.toNat * 256 + b.toNat ∧
    (((a.toNat * 256 + b.toNat) * 256 + c.toNat) * 256 + d.toNat) % 65536 = c.toNat * 256 + d.toNat := by
  have := a.toNat_lt; have := b.toNat_lt; have := c.toNat_lt; have := d.toNat_lt
  omega

/-- "::a.b.c.d" -/
theorem read_emb6 (a b c d : UInt8) (w5 w6 w7 : Nat) :
    C22.parseIp (asciiBytes (emitV6 (some ⟨0, 6⟩) w5 [a, b, c, d] [0, 0, 0, 0, 0, 0, w6, w7] 0 ++ [])) =
      some (.v6 (fw (fw 0 [] * 65536 ^ 6) [a.toNat * 256 + b.toNat, c.toNat * 256 + d.toNat]) none) := by
  have fa := D_facts ⟨a.toNat, a.toNat_lt⟩
  have fb := D_facts ⟨b.toNat, b.toNat_lt⟩
  have fc := D_facts ⟨c.toNat, c.toNat_lt⟩
  have fd := D_facts ⟨d.toNat, d.toNat_lt⟩
  simp only at fa fb fc fd
  have ev := embedded_value a b c d
  simp only [emitV6, textV4, asciiBytes_append, asciiBytes_cons, asciiBytes_nil, List.nil_append, List.append_nil,
    Nat.reduceAdd, Nat.reduceLeDiff, Nat.reduceLT, Nat.reduceEqDiff, Nat.zero_le, Nat.le_refl, Nat.lt_irrefl,
    ne_eq, not_true_eq_false, not_false_eq_true, if_true, if_false, List.cons_append, colon_byte, dot_byte,
    true_and, and_true, false_and, and_false, Nat.not_lt_zero, Nat.zero_lt_succ, Nat.lt_add_one,
    reduceCtorEq, or_false, false_or, and_self, List.append_assoc, true_or, or_true]
  change C22.parseIp (58 :: 58 :: (D a.toNat ++ 46 :: (D b.toNat ++ 46 :: (D c.toNat ++ 46 :: D d.toNat)))) = _
  have hv4 := parseV4_dotted a b c d
  have hdot : List.contains (D a.toNat ++ 46 :: (D b.toNat ++ 46 :: (D c.toNat ++ 46 :: D d.toNat))) 46 = true := by simp
  have hcol : (0x3a : UInt8) ∉ D a.toNat ++ 46 :: (D b.toNat ++ 46 :: (D c.toNat ++ 46 :: D d.toNat)) := by
    simp [fa.2.2.1, fb.2.2.1, fc.2.2.1, fd.2.2.1]
  have hpct : (0x25 : UInt8) ∉ (58 :: 58 :: (D a.toNat ++ 46 :: (D b.toNat ++ 46 :: (D c.toNat ++ 46 :: D d.toNat))) : Bytes) := by
    simp [fa.2.2.2.1, fb.2.2.2.1, fc.2.2.2.1, fd.2.2.2.1]
  have hsl : (0x2f : UInt8) ∉ (58 :: 58 :: (D a.toNat ++ 46 :: (D b.toNat ++ 46 :: (D c.toNat ++ 46 :: D d.toNat))) : Bytes) := by
    simp [fa.2.2.2.2.1, fb.2.2.2.2.1, fc.2.2.2.2.1, fd.2.2.2.2.1]
  simp only [C22.parseIp, parseV4_colon_first, C22.parseV6, partitionPct_none _ hpct]
  simp only [List.contains_eq_mem, hsl, decide_false, Bool.false_eq_true, if_false]
  simp only [C22.parseV6Int, C22.v6Parts, splitOn_sep_cons, splitOn_no_sep _ _ hcol]
  simp [hdot, hv4, ev]
  simp [C22.assembleV6, C22.interiorEmpty, List.range_succ, C22.Part.isEmpty]
  simp [C22.assembleSkip, C22.foldParts, C22.Part.val, fw, -Nat.reducePow]

/-- "::ffff:a.b.c.d" -/
theorem read_emb5 (a b c d : UInt8) (w6 w7 : Nat) :
    C22.parseIp (asciiBytes (emitV6 (some ⟨0, 5⟩) 65535 [a, b, c, d] [0, 0, 0, 0, 0, 65535, w6, w7] 0 ++ [])) =
      some (.v6 (fw (fw 0 [] * 65536 ^ 5) [65535, a.toNat * 256 + b.toNat, c.toNat * 256 + d.toNat]) none) := by
  have fa := D_facts ⟨a.toNat, a.toNat_lt⟩
  have fb := D_facts ⟨b.toNat, b.toNat_lt⟩
  have fc := D_facts ⟨c.toNat, c.toNat_lt⟩
  have fd := D_facts ⟨d.toNat, d.toNat_lt⟩
  simp only at fa fb fc fd
  have ff := WF_of_lt 65535 (by decide)
  have ev := embedded_value a b c d
  simp only [emitV6, textV4, asciiBytes_append, asciiBytes_cons, asciiBytes_nil, H_def, List.nil_append, List.append_nil,
    Nat.reduceAdd, Nat.reduceLeDiff, Nat.reduceLT, Nat.reduceEqDiff, Nat.zero_le, Nat.le_refl, Nat.lt_irrefl,
    ne_eq, not_true_eq_false, not_false_eq_true, if_true, if_false, List.cons_append, colon_byte, dot_byte,
    true_and, and_true, false_and, and_false, Nat.not_lt_zero, Nat.zero_lt_succ, Nat.lt_add_one,
    reduceCtorEq, or_false, false_or, and_self, List.append_assoc, true_or, or_true]
  change C22.parseIp (58 :: 58 :: (H 65535 ++ 58 :: (D a.toNat ++ 46 :: (D b.toNat ++ 46 :: (D c.toNat ++ 46 :: D d.toNat))))) = _
  have hv4 := parseV4_dotted a b c d
  have hdot : List.contains (D a.toNat ++ 46 :: (D b.toNat ++ 46 :: (D c.toNat ++ 46 :: D d.toNat))) 46 = true := by simp
  have hcol : (0x3a : UInt8) ∉ D a.toNat ++ 46 :: (D b.toNat ++ 46 :: (D c.toNat ++ 46 :: D d.toNat)) := by
    simp [fa.2.2.1, fb.2.2.1, fc.2.2.1, fd.2.2.1]
  have hpct : (0x25 : UInt8) ∉ (58 :: 58 :: (H 65535 ++ 58 :: (D a.toNat ++ 46 :: (D b.toNat ++ 46 :: (D c.toNat ++ 46 :: D d.toNat)))) : Bytes) := by
    simp [fa.2.2.2.1, fb.2.2.2.1, fc.2.2.2.1, fd.2.2.2.1, ff.c25]
  have hsl : (0x2f : UInt8) ∉ (58 :: 58 :: (H 65535 ++ 58 :: (D a.toNat ++ 46 :: (D b.toNat ++ 46 :: (D c.toNat ++ 46 :: D d.toNat)))) : Bytes) := by
    simp [fa.2.2.2.2.1, fb.2.2.2.2.1, fc.2.2.2.2.1, fd.2.2.2.2.1, ff.c2f]
  have hcf : (0x3a : UInt8) ∉ H 65535 := by simp [ff.c3a]
  simp only [C22.parseIp, parseV4_colon_first, C22.parseV6, partitionPct_none _ hpct]
  simp only [List.contains_eq_mem, hsl, decide_false, Bool.false_eq_true, if_false]
  simp only [C22.parseV6Int, C22.v6Parts, splitOn_sep_cons, splitOn_append_sep _ _ _ hcf, splitOn_no_sep _ _ hcol]
  simp [hdot, hv4, ev]
  simp [C22.assembleV6, C22.interiorEmpty, List.range_succ, C22.Part.isEmpty, ff.ne]
  simp [C22.assembleSkip, C22.foldParts, C22.Part.val, ff.ph, fw, -Nat.reducePow]

section
variable (w0 w1 w2 w3 w4 w5 w6 w7 : Nat)
  (f0 : WF w0) (f1 : WF w1) (f2 : WF w2) (f3 : WF w3) (f4 : WF w4) (f5 : WF w5) (f6 : WF w6) (f7 : WF w7)
include f0 f1 f2 f3 f4 f5 f6 f7

theorem read_none (l4 : Bytes) :
    C22.parseIp (asciiBytes (emitV6 none w5 l4 [w0, w1, w2, w3, w4, w5, w6, w7] 0)) =
      some (.v6 (wordsVal [w0, w1, w2, w3, w4, w5, w6, w7]) none) := by
  simp only [emitV6, asciiBytes_append, asciiBytes_cons, asciiBytes_nil, H_def, List.nil_append, List.append_nil,
    Nat.reduceAdd, ne_eq, Nat.reduceEqDiff, not_true_eq_false, not_false_eq_true, if_true, if_false, List.cons_append,
    colon_byte]
  rw [parseIp_of_v6 _ (by simp [f0.c2e, f1.c2e, f2.c2e, f3.c2e, f4.c2e, f5.c2e, f6.c2e, f7.c2e])
    (by simp [f0.c25, f1.c25, f2.c25, f3.c25, f4.c25, f5.c25, f6.c25, f7.c25])
    (by simp [f0.c2f, f1.c2f, f2.c2f, f3.c2f, f4.c2f, f5.c2f, f6.c2f, f7.c2f])]
  simp [C22.parseV6Int, C22.v6Parts, C22.assembleV6, splitOn_append_sep, splitOn_no_sep, splitOn_sep_cons,
    f0.c3a, f1.c3a, f2.c3a, f3.c3a, f4.c3a, f5.c3a, f6.c3a, f7.c3a,
    f0.c2e, f1.c2e, f2.c2e, f3.c2e, f4.c2e, f5.c2e, f6.c2e, f7.c2e,
    f0.ne, f1.ne, f2.ne, f3.ne, f4.ne, f5.ne, f6.ne, f7.ne,
    f0.ph, f1.ph, f2.ph, f3.ph, f4.ph, f5.ph, f6.ph, f7.ph,
    C22.interiorEmpty, List.range_succ, C22.Part.isEmpty, C22.foldParts, C22.Part.val, wordsVal, fw]

theorem read_0_2 (l4 : Bytes) :
    C22.parseIp (asciiBytes (emitV6 (some ⟨0, 2⟩) w5 l4 [0, 0, w2, w3, w4, w5, w6, w7] 0 ++ [])) =
      some (.v6 (fw (fw 0 [] * 65536 ^ 2) [w2, w3, w4, w5, w6, w7]) none) := by
  simp only [emitV6, asciiBytes_append, asciiBytes_cons, asciiBytes_nil, H_def, List.nil_append, List.append_nil,
    Nat.reduceAdd, Nat.reduceLeDiff, Nat.reduceLT, Nat.reduceEqDiff, Nat.zero_le, Nat.le_refl, Nat.lt_irrefl,
    ne_eq, not_true_eq_false, not_false_eq_true, if_true, if_false, List.cons_append, colon_byte,
    true_and, and_true, false_and, and_false, Nat.not_lt_zero, Nat.zero_lt_succ, Nat.lt_add_one, Nat.not_succ_le_self,
    reduceCtorEq, or_false, false_or, and_self, List.append_assoc, and_self]
  rw [parseIp_of_v6 _ (by simp [f0.c2e, f1.c2e, f2.c2e, f3.c2e, f4.c2e, f5.c2e, f6.c2e, f7.c2e])
    (by simp [f0.c25, f1.c25, f2.c25, f3.c25, f4.c25, f5.c25, f6.c25, f7.c25])
    (by simp [f0.c2f, f1.c2f, f2.c2f, f3.c2f, f4.c2f, f5.c2f, f6.c2f, f7.c2f])]
  simp only [C22.parseV6Int, C22.v6Parts, splitOn_append_sep, splitOn_no_sep, splitOn_sep_cons, splitOn_nil,
    f0.c3a, f1.c3a, f2.c3a, f3.c3a, f4.c3a, f5.c3a, f6.c3a, f7.c3a, not_false_eq_true, List.not_mem_nil]
  simp [f0.c2e, f1.c2e, f2.c2e, f3.c2e, f4.c2e, f5.c2e, f6.c2e, f7.c2e, f0.ne, f1.ne, f2.ne, f3.ne, f4.ne, f5.ne, f6.ne, f7.ne]
  simp [C22.assembleV6, C22.interiorEmpty, List.range_succ, C22.Part.isEmpty,
    f0.ne, f1.ne, f2.ne, f3.ne, f4.ne, f5.ne, f6.ne, f7.ne]
  simp [C22.assembleSkip, C22.foldParts, C22.Part.val, f0.ph, f1.ph, f2.ph, f3.ph, f4.ph, f5.ph, f6.ph, f7.ph, fw, -Nat.reducePow]

theorem read_0_3 (l4 : Bytes) :
    C22.parseIp (asciiBytes (emitV6 (some ⟨0, 3⟩) w5 l4 [0, 0, 0, w3, w4, w5, w6, w7] 0 ++ [])) =
      some (.v6 (fw (fw 0 [] * 65536 ^ 3) [w3, w4, w5, w6, w7]) none) := by
  simp only [emitV6, asciiBytes_append, asciiBytes_cons, asciiBytes_nil, H_def, List.nil_append, List.append_nil,
    Nat.reduceAdd, Nat.reduceLeDiff, Nat.reduceLT, Nat.reduceEqDiff, Nat.zero_le, Nat.le_refl, Nat.lt_irrefl,
    ne_eq, not_true_eq_false, not_false_eq_true, if_true, if_false, List.cons_append, colon_byte,
    true_and, and_true, false_and, and_false, Nat.not_lt_zero, Nat.zero_lt_succ, Nat.lt_add_one, Nat.not_succ_le_self,
    reduceCtorEq, or_false, false_or, and_self, List.append_assoc, and_self]
  rw [parseIp_of_v6 _ (by simp [f0.c2e, f1.c2e, f2.c2e, f3.c2e, f4.c2e, f5.c2e, f6.c2e, f7.c2e])
    (by simp [f0.c25, f1.c25, f2.c25, f3.c25, f4.c25, f5.c25, f6.c25, f7.c25])
    (by simp [f0.c2f, f1.c2f, f2.c2f, f3.c2f, f4.c2f, f5.c2f, f6.c2f, f7.c2f])]
  simp only [C22.parseV6Int, C22.v6Parts, splitOn_append_sep, splitOn_no_sep, splitOn_sep_cons, splitOn_nil,
    f0.c3a, f1.c3a, f2.c3a, f3.c3a, f4.c3a, f5.c3a, f6.c3a, f7.c3a, not_false_eq_true, List.not_mem_nil]
  simp [f0.c2e, f1.c2e, f2.c2e, f3.c2e, f4.c2e, f5.c2e, f6.c2e, f7.c2e, f0.ne, f1.ne, f2.ne, f3.ne, f4.ne, f5.ne, f6.ne, f7.ne]
  simp [C22.assembleV6, C22.interiorEmpty, List.range_succ, C22.Part.isEmpty,
    f0.ne, f1.ne, f2.ne, f3.ne, f4.ne, f5.ne, f6.ne, f7.ne]
  simp [C22.assembleSkip, C22.foldParts, C22.Part.val, f0.ph, f1.ph, f2.ph, f3.ph, f4.ph, f5.ph, f6.ph, f7.ph, fw, -Nat.reducePow]

theorem read_0_4 (l4 : Bytes) :
    C22.parseIp (asciiBytes (emitV6 (some ⟨0, 4⟩) w5 l4 [0, 0, 0, 0, w4, w5, w6, w7] 0 ++ [])) =
      some (.v6 (fw (fw 0 [] * 65536 ^ 4) [w4, w5, w6, w7]) none) := by
  simp only [emitV6, asciiBytes_append, asciiBytes_cons, asciiBytes_nil, H_def, List.nil_append, List.append_nil,
    Nat.reduceAdd, Nat.reduceLeDiff, Nat.reduceLT, Nat.reduceEqDiff, Nat.zero_le, Nat.le_refl, Nat.lt_irrefl,
    ne_eq, not_true_eq_false, not_false_eq_true, if_true, if_false, List.cons_append, colon_byte,
    true_and, and_true, false_and, and_false, Nat.not_lt_zero, Nat.zero_lt_succ, Nat.lt_add_one, Nat.not_succ_le_self,
    reduceCtorEq, or_false, false_or, and_self, List.append_assoc, and_self]
  rw [parseIp_of_v6 _ (by simp [f0.c2e, f1.c2e, f2.c2e, f3.c2e, f4.c2e, f5.c2e, f6.c2e, f7.c2e])
    (by simp [f0.c25, f1.c25, f2.c25, f3.c25, f4.c25, f5.c25, f6.c25, f7.c25])
    (by simp [f0.c2f, f1.c2f, f2.c2f, f3.c2f, f4.c2f, f5.c2f, f6.c2f, f7.c2f])]
  simp only [C22.parseV6Int, C22.v6Parts, splitOn_append_sep, splitOn_no_sep, splitOn_sep_cons, splitOn_nil,
    f0.c3a, f1.c3a, f2.c3a, f3.c3a, f4.c3a, f5.c3a, f6.c3a, f7.c3a, not_false_eq_true, List.not_mem_nil]
  simp [f0.c2e, f1.c2e, f2.c2e, f3.c2e, f4.c2e, f5.c2e, f6.c2e, f7.c2e, f0.ne, f1.ne, f2.ne, f3.ne, f4.ne, f5.ne, f6.ne, f7.ne]
  simp [C22.assembleV6, C22.interiorEmpty, List.range_succ, C22.Part.isEmpty,
    f0.ne, f1.ne, f2.ne, f3.ne, f4.ne, f5.ne, f6.ne, f7.ne]
  simp [C22.assembleSkip, C22.foldParts, C22.Part.val, f0.ph, f1.ph, f2.ph, f3.ph, f4.ph, f5.ph, f6.ph, f7.ph, fw, -Nat.reducePow]

theorem read_0_5 (l4 : Bytes) (hne : ¬ w5 = 65535) :
    C22.parseIp (asciiBytes (emitV6 (some ⟨0, 5⟩) w5 l4 [0, 0, 0, 0, 0, w5, w6, w7] 0 ++ [])) =
      some (.v6 (fw (fw 0 [] * 65536 ^ 5) [w5, w6, w7]) none) := by
  simp only [emitV6, asciiBytes_append, asciiBytes_cons, asciiBytes_nil, H_def, List.nil_append, List.append_nil,
    Nat.reduceAdd, Nat.reduceLeDiff, Nat.reduceLT, Nat.reduceEqDiff, Nat.zero_le, Nat.le_refl, Nat.lt_irrefl,
    ne_eq, not_true_eq_false, not_false_eq_true, if_true, if_false, List.cons_append, colon_byte,
    true_and, and_true, false_and, and_false, Nat.not_lt_zero, Nat.zero_lt_succ, Nat.lt_add_one, Nat.not_succ_le_self,
    reduceCtorEq, or_false, false_or, and_self, List.append_assoc, hne]
  rw [parseIp_of_v6 _ (by simp [f0.c2e, f1.c2e, f2.c2e, f3.c2e, f4.c2e, f5.c2e, f6.c2e, f7.c2e])
    (by simp [f0.c25, f1.c25, f2.c25, f3.c25, f4.c25, f5.c25, f6.c25, f7.c25])
    (by simp [f0.c2f, f1.c2f, f2.c2f, f3.c2f, f4.c2f, f5.c2f, f6.c2f, f7.c2f])]
  simp only [C22.parseV6Int, C22.v6Parts, splitOn_append_sep, splitOn_no_sep, splitOn_sep_cons, splitOn_nil,
    f0.c3a, f1.c3a, f2.c3a, f3.c3a, f4.c3a, f5.c3a, f6.c3a, f7.c3a, not_false_eq_true, List.not_mem_nil]
  simp [f0.c2e, f1.c2e, f2.c2e, f3.c2e, f4.c2e, f5.c2e, f6.c2e, f7.c2e, f0.ne, f1.ne, f2.ne, f3.ne, f4.ne, f5.ne, f6.ne, f7.ne]
  simp [C22.assembleV6, C22.interiorEmpty, List.range_succ, C22.Part.isEmpty,
    f0.ne, f1.ne, f2.ne, f3.ne, f4.ne, f5.ne, f6.ne, f7.ne]
  simp [C22.assembleSkip, C22.foldParts, C22.Part.val, f0.ph, f1.ph, f2.ph, f3.ph, f4.ph, f5.ph, f6.ph, f7.ph, fw, -Nat.reducePow]

theorem read_0_7 (l4 : Bytes) :
    C22.parseIp (asciiBytes (emitV6 (some ⟨0, 7⟩) w5 l4 [0, 0, 0, 0, 0, 0, 0, w7] 0 ++ [])) =
      some (.v6 (fw (fw 0 [] * 65536 ^ 7) [w7]) none) := by
  simp only [emitV6, asciiBytes_append, asciiBytes_cons, asciiBytes_nil, H_def, List.nil_append, List.append_nil,
    Nat.reduceAdd, Nat.reduceLeDiff, Nat.reduceLT, Nat.reduceEqDiff, Nat.zero_le, Nat.le_refl, Nat.lt_irrefl,
    ne_eq, not_true_eq_false, not_false_eq_true, if_true, if_false, List.cons_append, colon_byte,
    true_and, and_true, false_and, and_false, Nat.not_lt_zero, Nat.zero_lt_succ, Nat.lt_add_one, Nat.not_succ_le_self,
    reduceCtorEq, or_false, false_or, and_self, List.append_assoc, and_self]
  rw [parseIp_of_v6 _ (by simp [f0.c2e, f1.c2e, f2.c2e, f3.c2e, f4.c2e, f5.c2e, f6.c2e, f7.c2e])
    (by simp [f0.c25, f1.c25, f2.c25, f3.c25, f4.c25, f5.c25, f6.c25, f7.c25])
    (by simp [f0.c2f, f1.c2f, f2.c2f, f3.c2f, f4.c2f, f5.c2f, f6.c2f, f7.c2f])]
  simp only [C22.parseV6Int, C22.v6Parts, splitOn_append_sep, splitOn_no_sep, splitOn_sep_cons, splitOn_nil,
    f0.c3a, f1.c3a, f2.c3a, f3.c3a, f4.c3a, f5.c3a, f6.c3a, f7.c3a, not_false_eq_true, List.not_mem_nil]
  simp [f0.c2e, f1.c2e, f2.c2e, f3.c2e, f4.c2e, f5.c2e, f6.c2e, f7.c2e, f0.ne, f1.ne, f2.ne, f3.ne, f4.ne, f5.ne, f6.ne, f7.ne]
  simp [C22.assembleV6, C22.interiorEmpty, List.range_succ, C22.Part.isEmpty,
    f0.ne, f1.ne, f2.ne, f3.ne, f4.ne, f5.ne, f6.ne, f7.ne]
  simp [C22.assembleSkip, C22.foldParts, C22.Part.val, f0.ph, f1.ph, f2.ph, f3.ph, f4.ph, f5.ph, f6.ph, f7.ph, fw, -Nat.reducePow]

theorem read_0_8 (l4 : Bytes) :
    C22.parseIp (asciiBytes (emitV6 (some ⟨0, 8⟩) w5 l4 [0, 0, 0, 0, 0, 0, 0, 0] 0 ++ [':'])) =
      some (.v6 (fw (fw 0 [] * 65536 ^ 8) []) none) := by
  simp only [emitV6, asciiBytes_append, asciiBytes_cons, asciiBytes_nil, H_def, List.nil_append, List.append_nil,
    Nat.reduceAdd, Nat.reduceLeDiff, Nat.reduceLT, Nat.reduceEqDiff, Nat.zero_le, Nat.le_refl, Nat.lt_irrefl,
    ne_eq, not_true_eq_false, not_false_eq_true, if_true, if_false, List.cons_append, colon_byte,
    true_and, and_true, false_and, and_false, Nat.not_lt_zero, Nat.zero_lt_succ, Nat.lt_add_one, Nat.not_succ_le_self,
    reduceCtorEq, or_false, false_or, and_self, List.append_assoc, and_self]
  rw [parseIp_of_v6 _ (by simp [f0.c2e, f1.c2e, f2.c2e, f3.c2e, f4.c2e, f5.c2e, f6.c2e, f7.c2e])
    (by simp [f0.c25, f1.c25, f2.c25, f3.c25, f4.c25, f5.c25, f6.c25, f7.c25])
    (by simp [f0.c2f, f1.c2f, f2.c2f, f3.c2f, f4.c2f, f5.c2f, f6.c2f, f7.c2f])]
  simp only [C22.parseV6Int, C22.v6Parts, splitOn_append_sep, splitOn_no_sep, splitOn_sep_cons, splitOn_nil,
    f0.c3a, f1.c3a, f2.c3a, f3.c3a, f4.c3a, f5.c3a, f6.c3a, f7.c3a, not_false_eq_true, List.not_mem_nil]
  simp [f0.c2e, f1.c2e, f2.c2e, f3.c2e, f4.c2e, f5.c2e, f6.c2e, f7.c2e, f0.ne, f1.ne, f2.ne, f3.ne, f4.ne, f5.ne, f6.ne, f7.ne]
  simp [C22.assembleV6, C22.interiorEmpty, List.range_succ, C22.Part.isEmpty,
    f0.ne, f1.ne, f2.ne, f3.ne, f4.ne, f5.ne, f6.ne, f7.ne]
  simp [C22.assembleSkip, C22.foldParts, C22.Part.val, f0.ph, f1.ph, f2.ph, f3.ph, f4.ph, f5.ph, f6.ph, f7.ph, fw, -Nat.reducePow]

theorem read_1_2 (l4 : Bytes) :
    C22.parseIp (asciiBytes (emitV6 (some ⟨1, 2⟩) w5 l4 [w0, 0, 0, w3, w4, w5, w6, w7] 0 ++ [])) =
      some (.v6 (fw (fw 0 [w0] * 65536 ^ 2) [w3, w4, w5, w6, w7]) none) := by
  simp only [emitV6, asciiBytes_append, asciiBytes_cons, asciiBytes_nil, H_def, List.nil_append, List.append_nil,
    Nat.reduceAdd, Nat.reduceLeDiff, Nat.reduceLT, Nat.reduceEqDiff, Nat.zero_le, Nat.le_refl, Nat.lt_irrefl,
    ne_eq, not_true_eq_false, not_false_eq_true, if_true, if_false, List.cons_append, colon_byte,
    true_and, and_true, false_and, and_false, Nat.not_lt_zero, Nat.zero_lt_succ, Nat.lt_add_one, Nat.not_succ_le_self,
    reduceCtorEq, or_false, false_or, and_self, List.append_assoc, and_self]
  rw [parseIp_of_v6 _ (by simp [f0.c2e, f1.c2e, f2.c2e, f3.c2e, f4.c2e, f5.c2e, f6.c2e, f7.c2e])
    (by simp [f0.c25, f1.c25, f2.c25, f3.c25, f4.c25, f5.c25, f6.c25, f7.c25])
    (by simp [f0.c2f, f1.c2f, f2.c2f, f3.c2f, f4.c2f, f5.c2f, f6.c2f, f7.c2f])]
  simp only [C22.parseV6Int, C22.v6Parts, splitOn_append_sep, splitOn_no_sep, splitOn_sep_cons, splitOn_nil,
    f0.c3a, f1.c3a, f2.c3a, f3.c3a, f4.c3a, f5.c3a, f6.c3a, f7.c3a, not_false_eq_true, List.not_mem_nil]
  simp [f0.c2e, f1.c2e, f2.c2e, f3.c2e, f4.c2e, f5.c2e, f6.c2e, f7.c2e, f0.ne, f1.ne, f2.ne, f3.ne, f4.ne, f5.ne, f6.ne, f7.ne]
  simp [C22.assembleV6, C22.interiorEmpty, List.range_succ, C22.Part.isEmpty,
    f0.ne, f1.ne, f2.ne, f3.ne, f4.ne, f5.ne, f6.ne, f7.ne]
  simp [C22.assembleSkip, C22.foldParts, C22.Part.val, f0.ph, f1.ph, f2.ph, f3.ph, f4.ph, f5.ph, f6.ph, f7.ph, fw, -Nat.reducePow]

theorem read_1_3 (l4 : Bytes) :
    C22.parseIp (asciiBytes (emitV6 (some ⟨1, 3⟩) w5 l4 [w0, 0, 0, 0, w4, w5, w6, w7] 0 ++ [])) =
      some (.v6 (fw (fw 0 [w0] * 65536 ^ 3) [w4, w5, w6, w7]) none) := by
  simp only [emitV6, asciiBytes_append, asciiBytes_cons, asciiBytes_nil, H_def, List.nil_append, List.append_nil,
    Nat.reduceAdd, Nat.reduceLeDiff, Nat.reduceLT, Nat.reduceEqDiff, Nat.zero_le, Nat.le_refl, Nat.lt_irrefl,
    ne_eq, not_true_eq_false, not_false_eq_true, if_true, if_false, List.cons_append, colon_byte,
    true_and, and_true, false_and, and_false, Nat.not_lt_zero, Nat.zero_lt_succ, Nat.lt_add_one, Nat.not_succ_le_self,
    reduceCtorEq, or_false, false_or, and_self, List.append_assoc, and_self]
  rw [parseIp_of_v6 _ (by simp [f0.c2e, f1.c2e, f2.c2e, f3.c2e, f4.c2e, f5.c2e, f6.c2e, f7.c2e])
    (by simp [f0.c25, f1.c25, f2.c25, f3.c25, f4.c25, f5.c25, f6.c25, f7.c25])
    (by simp [f0.c2f, f1.c2f, f2.c2f, f3.c2f, f4.c2f, f5.c2f, f6.c2f, f7.c2f])]
  simp only [C22.parseV6Int, C22.v6Parts, splitOn_append_sep, splitOn_no_sep, splitOn_sep_cons, splitOn_nil,
    f0.c3a, f1.c3a, f2.c3a, f3.c3a, f4.c3a, f5.c3a, f6.c3a, f7.c3a, not_false_eq_true, List.not_mem_nil]
  simp [f0.c2e, f1.c2e, f2.c2e, f3.c2e, f4.c2e, f5.c2e, f6.c2e, f7.c2e, f0.ne, f1.ne, f2.ne, f3.ne, f4.ne, f5.ne, f6.ne, f7.ne]
  simp [C22.assembleV6, C22.interiorEmpty, List.range_succ, C22.Part.isEmpty,
    f0.ne, f1.ne, f2.ne, f3.ne, f4.ne, f5.ne, f6.ne, f7.ne]
  simp [C22.assembleSkip, C22.foldParts, C22.Part.val, f0.ph, f1.ph, f2.ph, f3.ph, f4.ph, f5.ph, f6.ph, f7.ph, fw, -Nat.reducePow]

theorem read_1_4 (l4 : Bytes) :
    C22.parseIp (asciiBytes (emitV6 (some ⟨1, 4⟩) w5 l4 [w0, 0, 0, 0, 0, w5, w6, w7] 0 ++ [])) =
      some (.v6 (fw (fw 0 [w0] * 65536 ^ 4) [w5, w6, w7]) none) := by
  simp only [emitV6, asciiBytes_append, asciiBytes_cons, asciiBytes_nil, H_def, List.nil_append, List.append_nil,
    Nat.reduceAdd, Nat.reduceLeDiff, Nat.reduceLT, Nat.reduceEqDiff, Nat.zero_le, Nat.le_refl, Nat.lt_irrefl,
    ne_eq, not_true_eq_false, not_false_eq_true, if_true, if_false, List.cons_append, colon_byte,
    true_and, and_true, false_and, and_false, Nat.not_lt_zero, Nat.zero_lt_succ, Nat.lt_add_one, Nat.not_succ_le_self,
    reduceCtorEq, or_false, false_or, and_self, List.append_assoc, and_self]
  rw [parseIp_of_v6 _ (by simp [f0.c2e, f1.c2e, f2.c2e, f3.c2e, f4.c2e, f5.c2e, f6.c2e, f7.c2e])
    (by simp [f0.c25, f1.c25, f2.c25, f3.c25, f4.c25, f5.c25, f6.c25, f7.c25])
    (by simp [f0.c2f, f1.c2f, f2.c2f, f3.c2f, f4.c2f, f5.c2f, f6.c2f, f7.c2f])]
  simp only [C22.parseV6Int, C22.v6Parts, splitOn_append_sep, splitOn_no_sep, splitOn_sep_cons, splitOn_nil,
    f0.c3a, f1.c3a, f2.c3a, f3.c3a, f4.c3a, f5.c3a, f6.c3a, f7.c3a, not_false_eq_true, List.not_mem_nil]
  simp [f0.c2e, f1.c2e, f2.c2e, f3.c2e, f4.c2e, f5.c2e, f6.c2e, f7.c2e, f0.ne, f1.ne, f2.ne, f3.ne, f4.ne, f5.ne, f6.ne, f7.ne]
  simp [C22.assembleV6, C22.interiorEmpty, List.range_succ, C22.Part.isEmpty,
    f0.ne, f1.ne, f2.ne, f3.ne, f4.ne, f5.ne, f6.ne, f7.ne]
  simp [C22.assembleSkip, C22.foldParts, C22.Part.val, f0.ph, f1.ph, f2.ph, f3.ph, f4.ph, f5.ph, f6.ph, f7.ph, fw, -Nat.reducePow]

theorem read_1_5 (l4 : Bytes) :
    C22.parseIp (asciiBytes (emitV6 (some ⟨1, 5⟩) w5 l4 [w0, 0, 0, 0, 0, 0, w6, w7] 0 ++ [])) =
      some (.v6 (fw (fw 0 [w0] * 65536 ^ 5) [w6, w7]) none) := by
  simp only [emitV6, asciiBytes_append, asciiBytes_cons, asciiBytes_nil, H_def, List.nil_append, List.append_nil,
    Nat.reduceAdd, Nat.reduceLeDiff, Nat.reduceLT, Nat.reduceEqDiff, Nat.zero_le, Nat.le_refl, Nat.lt_irrefl,
    ne_eq, not_true_eq_false, not_false_eq_true, if_true, if_false, List.cons_append, colon_byte,
    true_and, and_true, false_and, and_false, Nat.not_lt_zero, Nat.zero_lt_succ, Nat.lt_add_one, Nat.not_succ_le_self,
    reduceCtorEq, or_false, false_or, and_self, List.append_assoc, and_self]
  rw [parseIp_of_v6 _ (by simp [f0.c2e, f1.c2e, f2.c2e, f3.c2e, f4.c2e, f5.c2e, f6.c2e, f7.c2e])
    (by simp [f0.c25, f1.c25, f2.c25, f3.c25, f4.c25, f5.c25, f6.c25, f7.c25])
    (by simp [f0.c2f, f1.c2f, f2.c2f, f3.c2f, f4.c2f, f5.c2f, f6.c2f, f7.c2f])]
  simp only [C22.parseV6Int, C22.v6Parts, splitOn_append_sep, splitOn_no_sep, splitOn_sep_cons, splitOn_nil,
    f0.c3a, f1.c3a, f2.c3a, f3.c3a, f4.c3a, f5.c3a, f6.c3a, f7.c3a, not_false_eq_true, List.not_mem_nil]
  simp [f0.c2e, f1.c2e, f2.c2e, f3.c2e, f4.c2e, f5.c2e, f6.c2e, f7.c2e, f0.ne, f1.ne, f2.ne, f3.ne, f4.ne, f5.ne, f6.ne, f7.ne]
  simp [C22.assembleV6, C22.interiorEmpty, List.range_succ, C22.Part.isEmpty,
    f0.ne, f1.ne, f2.ne, f3.ne, f4.ne, f5.ne, f6.ne, f7.ne]
  simp [C22.assembleSkip, C22.foldParts, C22.Part.val, f0.ph, f1.ph, f2.ph, f3.ph, f4.ph, f5.ph, f6.ph, f7.ph, fw, -Nat.reducePow]

theorem read_1_6 (l4 : Bytes) :
    C22.parseIp (asciiBytes (emitV6 (some ⟨1, 6⟩) w5 l4 [w0, 0, 0, 0, 0, 0, 0, w7] 0 ++ [])) =
      some (.v6 (fw (fw 0 [w0] * 65536 ^ 6) [w7]) none) := by
  simp only [emitV6, asciiBytes_append, asciiBytes_cons, asciiBytes_nil, H_def, List.nil_append, List.append_nil,
    Nat.reduceAdd, Nat.reduceLeDiff, Nat.reduceLT, Nat.reduceEqDiff, Nat.zero_le, Nat.le_refl, Nat.lt_irrefl,
    ne_eq, not_true_eq_false, not_false_eq_true, if_true, if_false, List.cons_append, colon_byte,
    true_and, and_true, false_and, and_false, Nat.not_lt_zero, Nat.zero_lt_succ, Nat.lt_add_one, Nat.not_succ_le_self,
    reduceCtorEq, or_false, false_or, and_self, List.append_assoc, and_self]
  rw [parseIp_of_v6 _ (by simp [f0.c2e, f1.c2e, f2.c2e, f3.c2e, f4.c2e, f5.c2e, f6.c2e, f7.c2e])
    (by simp [f0.c25, f1.c25, f2.c25, f3.c25, f4.c25, f5.c25, f6.c25, f7.c25])
    (by simp [f0.c2f, f1.c2f, f2.c2f, f3.c2f, f4.c2f, f5.c2f, f6.c2f, f7.c2f])]
  simp only [C22.parseV6Int, C22.v6Parts, splitOn_append_sep, splitOn_no_sep, splitOn_sep_cons, splitOn_nil,
    f0.c3a, f1.c3a, f2.c3a, f3.c3a, f4.c3a, f5.c3a, f6.c3a, f7.c3a, not_false_eq_true, List.not_mem_nil]
  simp [f0.c2e, f1.c2e, f2.c2e, f3.c2e, f4.c2e, f5.c2e, f6.c2e, f7.c2e, f0.ne, f1.ne, f2.ne, f3.ne, f4.ne, f5.ne, f6.ne, f7.ne]
  simp [C22.assembleV6, C22.interiorEmpty, List.range_succ, C22.Part.isEmpty,
    f0.ne, f1.ne, f2.ne, f3.ne, f4.ne, f5.ne, f6.ne, f7.ne]
  simp [C22.assembleSkip, C22.foldParts, C22.Part.val, f0.ph, f1.ph, f2.ph, f3.ph, f4.ph, f5.ph, f6.ph, f7.ph, fw, -Nat.reducePow]

theorem read_1_7 (l4 : Bytes) :
    C22.parseIp (asciiBytes (emitV6 (some ⟨1, 7⟩) w5 l4 [w0, 0, 0, 0, 0, 0, 0, 0] 0 ++ [':'])) =
      some (.v6 (fw (fw 0 [w0] * 65536 ^ 7) []) none) := by
  simp only [emitV6, asciiBytes_append, asciiBytes_cons, asciiBytes_nil, H_def, List.nil_append, List.append_nil,
    Nat.reduceAdd, Nat.reduceLeDiff, Nat.reduceLT, Nat.reduceEqDiff, Nat.zero_le, Nat.le_refl, Nat.lt_irrefl,
    ne_eq, not_true_eq_false, not_false_eq_true, if_true, if_false, List.cons_append, colon_byte,
    true_and, and_true, false_and, and_false, Nat.not_lt_zero, Nat.zero_lt_succ, Nat.lt_add_one, Nat.not_succ_le_self,
    reduceCtorEq, or_false, false_or, and_self, List.append_assoc, and_self]
  rw [parseIp_of_v6 _ (by simp [f0.c2e, f1.c2e, f2.c2e, f3.c2e, f4.c2e, f5.c2e, f6.c2e, f7.c2e])
    (by simp [f0.c25, f1.c25, f2.c25, f3.c25, f4.c25, f5.c25, f6.c25, f7.c25])
    (by simp [f0.c2f, f1.c2f, f2.c2f, f3.c2f, f4.c2f, f5.c2f, f6.c2f, f7.c2f])]
  simp only [C22.parseV6Int, C22.v6Parts, splitOn_append_sep, splitOn_no_sep, splitOn_sep_cons, splitOn_nil,
    f0.c3a, f1.c3a, f2.c3a, f3.c3a, f4.c3a, f5.c3a, f6.c3a, f7.c3a, not_false_eq_true, List.not_mem_nil]
  simp [f0.c2e, f1.c2e, f2.c2e, f3.c2e, f4.c2e, f5.c2e, f6.c2e, f7.c2e, f0.ne, f1.ne, f2.ne, f3.ne, f4.ne, f5.ne, f6.ne, f7.ne]
  simp [C22.assembleV6, C22.interiorEmpty, List.range_succ, C22.Part.isEmpty,
    f0.ne, f1.ne, f2.ne, f3.ne, f4.ne, f5.ne, f6.ne, f7.ne]
  simp [C22.assembleSkip, C22.foldParts, C22.Part.val, f0.ph, f1.ph, f2.ph, f3.ph, f4.ph, f5.ph, f6.ph, f7.ph, fw, -Nat.reducePow]

end
end MitmVerif.C21
