/-
  C21 — reading the IPv6 text back, third part of the generated case lemmas (compressed run starting at word 4..6).
-/
import MitmVerif.Lemmas.C21V6Read
set_option linter.unusedSimpArgs false
set_option linter.unusedVariables false
set_option linter.unusedSectionVars false
namespace MitmVerif.C21
open MitmVerif

section
variable (w0 w1 w2 w3 w4 w5 w6 w7 : Nat)
  (f0 : WF w0) (f1 : WF w1) (f2 : WF w2) (f3 : WF w3) (f4 : WF w4) (f5 : WF w5) (f6 : WF w6) (f7 : WF w7)
include f0 f1 f2 f3 f4 f5 f6 f7

theorem read_4_2 (l4 : Bytes) :
    C22.parseIp (asciiBytes (emitV6 (some ⟨4, 2⟩) w5 l4 [w0, w1, w2, w3, 0, 0, w6, w7] 0 ++ [])) =
      some (.v6 (fw (fw 0 [w0, w1, w2, w3] * 65536 ^ 2) [w6, w7]) none) := by
  simp only [emitV6, asciiBytes_append, asciiBytes_cons, asciiBytes_nil, H_def, List.nil_append, List.append_nil,
    Nat.reduceAdd, Nat.reduceLeDiff, Nat.reduceLT, Nat.reduceEqDiff, Nat.zero_le, Nat.le_refl, Nat.lt_irrefl,
    ne_eq, not_true_eq_false, not_false_eq_true, if_true, if_false, List.cons_append, colon_byte,
    true_and, and_true, false_and, and_false, Nat.not_lt_zero, Nat.zero_lt_succ, Nat.lt_add_one, Nat.not_succ_le_self,
    reduceCtorEq, or_false, false_or, and_self, List.append_assoc, and_self]
  rw [parseIp_of_v6 _ (by simp [f0.c2e, f1.c2e, f2.c2e, f3.c2e, f4.c2e, f5.c2e, f6.c2e, f7.c2e])
    (by simp [f0.c25, f1.c25, f2.c25, f3.c25, f4.c25, f5.c25, f6.c25, f7.c25])
    (by simp [f0.c2f, f1.c2f, f2.c2f, f3.c2f, f4.c2f, f5.c2f, f6.c2f, f7.c2f])]
  simp only [C22.parseV6Int, C22.v6Parts, splitOn_append_sep, splitOn_no_sep, splitOn_sep_cons, splitOn_nil,
    f0.c3a, f1.c3a, f2.c3a, f3.c3a, f4.c3a, f5.c3a, f6.c3a, f7.c3a, not_false_eq_true, List.not_mem_nil]
  simp [f0.c2e, f1.c2e, f2.c2e, f3.c2e, f4.c2e, f5.c2e, f6.c2e, f7.c2e, f0.ne, f1.ne, f2.ne, f3.ne, f4.ne, f5.ne, f6.ne, f7.ne, -Nat.reducePow]
  simp [C22.assembleV6, C22.interiorEmpty, List.range_succ, C22.Part.isEmpty,
    f0.ne, f1.ne, f2.ne, f3.ne, f4.ne, f5.ne, f6.ne, f7.ne, -Nat.reducePow]
  simp [C22.assembleSkip, C22.foldParts, C22.Part.val, f0.ph, f1.ph, f2.ph, f3.ph, f4.ph, f5.ph, f6.ph, f7.ph, fw, -Nat.reducePow]

theorem read_4_3 (l4 : Bytes) :
    C22.parseIp (asciiBytes (emitV6 (some ⟨4, 3⟩) w5 l4 [w0, w1, w2, w3, 0, 0, 0, w7] 0 ++ [])) =
      some (.v6 (fw (fw 0 [w0, w1, w2, w3] * 65536 ^ 3) [w7]) none) := by
  simp only [emitV6, asciiBytes_append, asciiBytes_cons, asciiBytes_nil, H_def, List.nil_append, List.append_nil,
    Nat.reduceAdd, Nat.reduceLeDiff, Nat.reduceLT, Nat.reduceEqDiff, Nat.zero_le, Nat.le_refl, Nat.lt_irrefl,
    ne_eq, not_true_eq_false, not_false_eq_true, if_true, if_false, List.cons_append, colon_byte,
    true_and, and_true, false_and, and_false, Nat.not_lt_zero, Nat.zero_lt_succ, Nat.lt_add_one, Nat.not_succ_le_self,
    reduceCtorEq, or_false, false_or, and_self, List.append_assoc, and_self]
  rw [parseIp_of_v6 _ (by simp [f0.c2e, f1.c2e, f2.c2e, f3.c2e, f4.c2e, f5.c2e, f6.c2e, f7.c2e])
    (by simp [f0.c25, f1.c25, f2.c25, f3.c25, f4.c25, f5.c25, f6.c25, f7.c25])
    (by simp [f0.c2f, f1.c2f, f2.c2f, f3.c2f, f4.c2f, f5.c2f, f6.c2f, f7.c2f])]
  simp only [C22.parseV6Int, C22.v6Parts, splitOn_append_sep, splitOn_no_sep, splitOn_sep_cons, splitOn_nil,
    f0.c3a, f1.c3a, f2.c3a, f3.c3a, f4.c3a, f5.c3a, f6.c3a, f7.c3a, not_false_eq_true, List.not_mem_nil]
  simp [f0.c2e, f1.c2e, f2.c2e, f3.c2e, f4.c2e, f5.c2e, f6.c2e, f7.c2e, f0.ne, f1.ne, f2.ne, f3.ne, f4.ne, f5.ne, f6.ne, f7.ne, -Nat.reducePow]
  simp [C22.assembleV6, C22.interiorEmpty, List.range_succ, C22.Part.isEmpty,
    f0.ne, f1.ne, f2.ne, f3.ne, f4.ne, f5.ne, f6.ne, f7.ne, -Nat.reducePow]
  simp [C22.assembleSkip, C22.foldParts, C22.Part.val, f0.ph, f1.ph, f2.ph, f3.ph, f4.ph, f5.ph, f6.ph, f7.ph, fw, -Nat.reducePow]

theorem read_4_4 (l4 : Bytes) :
    C22.parseIp (asciiBytes (emitV6 (some ⟨4, 4⟩) w5 l4 [w0, w1, w2, w3, 0, 0, 0, 0] 0 ++ [':'])) =
      some (.v6 (fw (fw 0 [w0, w1, w2, w3] * 65536 ^ 4) []) none) := by
  simp only [emitV6, asciiBytes_append, asciiBytes_cons, asciiBytes_nil, H_def, List.nil_append, List.append_nil,
    Nat.reduceAdd, Nat.reduceLeDiff, Nat.reduceLT, Nat.reduceEqDiff, Nat.zero_le, Nat.le_refl, Nat.lt_irrefl,
    ne_eq, not_true_eq_false, not_false_eq_true, if_true, if_false, List.cons_append, colon_byte,
    true_and, and_true, false_and, and_false, Nat.not_lt_zero, Nat.zero_lt_succ, Nat.lt_add_one, Nat.not_succ_le_self,
    reduceCtorEq, or_false, false_or, and_self, List.append_assoc, and_self]
  rw [parseIp_of_v6 _ (by simp [f0.c2e, f1.c2e, f2.c2e, f3.c2e, f4.c2e, f5.c2e, f6.c2e, f7.c2e])
    (by simp [f0.c25, f1.c25, f2.c25, f3.c25, f4.c25, f5.c25, f6.c25, f7.c25])
    (by simp [f0.c2f, f1.c2f, f2.c2f, f3.c2f, f4.c2f, f5.c2f, f6.c2f, f7.c2f])]
  simp only [C22.parseV6Int, C22.v6Parts, splitOn_append_sep, splitOn_no_sep, splitOn_sep_cons, splitOn_nil,
    f0.c3a, f1.c3a, f2.c3a, f3.c3a, f4.c3a, f5.c3a, f6.c3a, f7.c3a, not_false_eq_true, List.not_mem_nil]
  simp [f0.c2e, f1.c2e, f2.c2e, f3.c2e, f4.c2e, f5.c2e, f6.c2e, f7.c2e, f0.ne, f1.ne, f2.ne, f3.ne, f4.ne, f5.ne, f6.ne, f7.ne, -Nat.reducePow]
  simp [C22.assembleV6, C22.interiorEmpty, List.range_succ, C22.Part.isEmpty,
    f0.ne, f1.ne, f2.ne, f3.ne, f4.ne, f5.ne, f6.ne, f7.ne, -Nat.reducePow]
  simp [C22.assembleSkip, C22.foldParts, C22.Part.val, f0.ph, f1.ph, f2.ph, f3.ph, f4.ph, f5.ph, f6.ph, f7.ph, fw, -Nat.reducePow]

theorem read_5_2 (l4 : Bytes) :
    C22.parseIp (asciiBytes (emitV6 (some ⟨5, 2⟩) w5 l4 [w0, w1, w2, w3, w4, 0, 0, w7] 0 ++ [])) =
      some (.v6 (fw (fw 0 [w0, w1, w2, w3, w4] * 65536 ^ 2) [w7]) none) := by
  simp only [emitV6, asciiBytes_append, asciiBytes_cons, asciiBytes_nil, H_def, List.nil_append, List.append_nil,
    Nat.reduceAdd, Nat.reduceLeDiff, Nat.reduceLT, Nat.reduceEqDiff, Nat.zero_le, Nat.le_refl, Nat.lt_irrefl,
    ne_eq, not_true_eq_false, not_false_eq_true, if_true, if_false, List.cons_append, colon_byte,
    true_and, and_true, false_and, and_false, Nat.not_lt_zero, Nat.zero_lt_succ, Nat.lt_add_one, Nat.not_succ_le_self,
    reduceCtorEq, or_false, false_or, and_self, List.append_assoc, and_self]
  rw [parseIp_of_v6 _ (by simp [f0.c2e, f1.c2e, f2.c2e, f3.c2e, f4.c2e, f5.c2e, f6.c2e, f7.c2e])
    (by simp [f0.c25, f1.c25, f2.c25, f3.c25, f4.c25, f5.c25, f6.c25, f7.c25])
    (by simp [f0.c2f, f1.c2f, f2.c2f, f3.c2f, f4.c2f, f5.c2f, f6.c2f, f7.c2f])]
  simp only [C22.parseV6Int, C22.v6Parts, splitOn_append_sep, splitOn_no_sep, splitOn_sep_cons, splitOn_nil,
    f0.c3a, f1.c3a, f2.c3a, f3.c3a, f4.c3a, f5.c3a, f6.c3a, f7.c3a, not_false_eq_true, List.not_mem_nil]
  simp [f0.c2e, f1.c2e, f2.c2e, f3.c2e, f4.c2e, f5.c2e, f6.c2e, f7.c2e, f0.ne, f1.ne, f2.ne, f3.ne, f4.ne, f5.ne, f6.ne, f7.ne, -Nat.reducePow]
  simp [C22.assembleV6, C22.interiorEmpty, List.range_succ, C22.Part.isEmpty,
    f0.ne, f1.ne, f2.ne, f3.ne, f4.ne, f5.ne, f6.ne, f7.ne, -Nat.reducePow]
  simp [C22.assembleSkip, C22.foldParts, C22.Part.val, f0.ph, f1.ph, f2.ph, f3.ph, f4.ph, f5.ph, f6.ph, f7.ph, fw, -Nat.reducePow]

theorem read_5_3 (l4 : Bytes) :
    C22.parseIp (asciiBytes (emitV6 (some ⟨5, 3⟩) w5 l4 [w0, w1, w2, w3, w4, 0, 0, 0] 0 ++ [':'])) =
      some (.v6 (fw (fw 0 [w0, w1, w2, w3, w4] * 65536 ^ 3) []) none) := by
  simp only [emitV6, asciiBytes_append, asciiBytes_cons, asciiBytes_nil, H_def, List.nil_append, List.append_nil,
    Nat.reduceAdd, Nat.reduceLeDiff, Nat.reduceLT, Nat.reduceEqDiff, Nat.zero_le, Nat.le_refl, Nat.lt_irrefl,
    ne_eq, not_true_eq_false, not_false_eq_true, if_true, if_false, List.cons_append, colon_byte,
    true_and, and_true, false_and, and_false, Nat.not_lt_zero, Nat.zero_lt_succ, Nat.lt_add_one, Nat.not_succ_le_self,
    reduceCtorEq, or_false, false_or, and_self, List.append_assoc, and_self]
  rw [parseIp_of_v6 _ (by simp [f0.c2e, f1.c2e, f2.c2e, f3.c2e, f4.c2e, f5.c2e, f6.c2e, f7.c2e])
    (by simp [f0.c25, f1.c25, f2.c25, f3.c25, f4.c25, f5.c25, f6.c25, f7.c25])
    (by simp [f0.c2f, f1.c2f, f2.c2f, f3.c2f, f4.c2f, f5.c2f, f6.c2f, f7.c2f])]
  simp only [C22.parseV6Int, C22.v6Parts, splitOn_append_sep, splitOn_no_sep, splitOn_sep_cons, splitOn_nil,
    f0.c3a, f1.c3a, f2.c3a, f3.c3a, f4.c3a, f5.c3a, f6.c3a, f7.c3a, not_false_eq_true, List.not_mem_nil]
  simp [f0.c2e, f1.c2e, f2.c2e, f3.c2e, f4.c2e, f5.c2e, f6.c2e, f7.c2e, f0.ne, f1.ne, f2.ne, f3.ne, f4.ne, f5.ne, f6.ne, f7.ne, -Nat.reducePow]
  simp [C22.assembleV6, C22.interiorEmpty, List.range_succ, C22.Part.isEmpty,
    f0.ne, f1.ne, f2.ne, f3.ne, f4.ne, f5.ne, f6.ne, f7.ne, -Nat.reducePow]
  simp [C22.assembleSkip, C22.foldParts, C22.Part.val, f0.ph, f1.ph, f2.ph, f3.ph, f4.ph, f5.ph, f6.ph, f7.ph, fw, -Nat.reducePow]

theorem read_6_2 (l4 : Bytes) :
    C22.parseIp (asciiBytes (emitV6 (some ⟨6, 2⟩) w5 l4 [w0, w1, w2, w3, w4, w5, 0, 0] 0 ++ [':'])) =
      some (.v6 (fw (fw 0 [w0, w1, w2, w3, w4, w5] * 65536 ^ 2) []) none) := by
  simp only [emitV6, asciiBytes_append, asciiBytes_cons, asciiBytes_nil, H_def, List.nil_append, List.append_nil,
    Nat.reduceAdd, Nat.reduceLeDiff, Nat.reduceLT, Nat.reduceEqDiff, Nat.zero_le, Nat.le_refl, Nat.lt_irrefl,
    ne_eq, not_true_eq_false, not_false_eq_true, if_true, if_false, List.cons_append, colon_byte,
    true_and, and_true, false_and, and_false, Nat.not_lt_zero, Nat.zero_lt_succ, Nat.lt_add_one, Nat.not_succ_le_self,
    reduceCtorEq, or_false, false_or, and_self, List.append_assoc, and_self]
  rw [parseIp_of_v6 _ (by simp [f0.c2e, f1.c2e, f2.c2e, f3.c2e, f4.c2e, f5.c2e, f6.c2e, f7.c2e])
    (by simp [f0.c25, f1.c25, f2.c25, f3.c25, f4.c25, f5.c25, f6.c25, f7.c25])
    (by simp [f0.c2f, f1.c2f, f2.c2f, f3.c2f, f4.c2f, f5.c2f, f6.c2f, f7.c2f])]
  simp only [C22.parseV6Int, C22.v6Parts, splitOn_append_sep, splitOn_no_sep, splitOn_sep_cons, splitOn_nil,
    f0.c3a, f1.c3a, f2.c3a, f3.c3a, f4.c3a, f5.c3a, f6.c3a, f7.c3a, not_false_eq_true, List.not_mem_nil]
  simp [f0.c2e, f1.c2e, f2.c2e, f3.c2e, f4.c2e, f5.c2e, f6.c2e, f7.c2e, f0.ne, f1.ne, f2.ne, f3.ne, f4.ne, f5.ne, f6.ne, f7.ne, -Nat.reducePow]
  simp [C22.assembleV6, C22.interiorEmpty, List.range_succ, C22.Part.isEmpty,
    f0.ne, f1.ne, f2.ne, f3.ne, f4.ne, f5.ne, f6.ne, f7.ne, -Nat.reducePow]
  simp [C22.assembleSkip, C22.foldParts, C22.Part.val, f0.ph, f1.ph, f2.ph, f3.ph, f4.ph, f5.ph, f6.ph, f7.ph, fw, -Nat.reducePow]
end
end MitmVerif.C21
-- 
