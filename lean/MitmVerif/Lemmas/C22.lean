/-
  C22 — the interval lemma: a fact checked on the finitely many table rows that an address range can
  hit holds for every address of the range.
-/
import MitmVerif.Model.C22
namespace MitmVerif.Lemmas.C22
open MitmVerif MitmVerif.C22 MitmVerif.Gen.C22

/-- `p` holds on every row of `tbl` that some `n ∈ [lo, hi]` can select -/
def allIn (p : Cls → Bool) : List (Nat × Cls) → Nat → Nat → Bool
  | [], _, _ => p ⟨false, false, false⟩
  | (h, c) :: rest, lo, hi =>
    if lo ≤ h then p c && (Nat.ble hi h || allIn p rest (h + 1) hi)
    else allIn p rest lo hi

theorem allIn_sound (p : Cls → Bool) :
    ∀ (tbl : List (Nat × Cls)) (lo hi n : Nat),
      allIn p tbl lo hi = true → lo ≤ n → n ≤ hi → p (lookup tbl n) = true
  | [], _, _, _, h, _, _ => by simpa [allIn, lookup] using h
  | (h, c) :: rest, lo, hi, n, hall, hlo, hhi => by
    unfold allIn at hall
    unfold lookup
    by_cases h1 : lo ≤ h
    · simp only [h1, if_true, Bool.and_eq_true, Bool.or_eq_true, Nat.ble_eq] at hall
      obtain ⟨hc, hrest⟩ := hall
      by_cases h2 : n ≤ h
      · simp [h2, hc]
      · simp only [h2, if_false]
        rcases hrest with h3 | h3
        · omega
        · exact allIn_sound p rest (h + 1) hi n h3 (by omega) hhi
    · simp only [h1, if_false] at hall
      have h2 : ¬ n ≤ h := by omega
      simp only [h2, if_false]
      exact allIn_sound p rest lo hi n hall hlo hhi

/-- whole-table facts: `p` on every row (and on the fall-through) gives `p` for every address -/
theorem all_rows (p : Cls → Bool) (tbl : List (Nat × Cls)) (hi : Nat)
    (h : allIn p tbl 0 hi = true) (n : Nat) (hn : n ≤ hi) : p (lookup tbl n) = true :=
  allIn_sound p tbl 0 hi n h (Nat.zero_le _) hn

end MitmVerif.Lemmas.C22
