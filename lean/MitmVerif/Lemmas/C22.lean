/-
  C22 — the interval lemma: a fact checked on the finitely many table rows that an address range can
  hit holds for every address of the range.
-/
import MitmVerif.Model.C22
namespace MitmVerif.Lemmas.C22
open MitmVerif MitmVerif.C22 MitmVerif.Gen.C22

/-- `p` holds on every row of `tbl` that some `n ∈ [lo, hi]` can select -/
def allIn (p : Cls → Bool) : List (Nat × Cls) → Nat → Nat → Bool
  | [], _, _ => p ⟨false, false, false⟩
  | (h, c) :: rest, lo, hi =>
    if lo ≤ h then p c && (Nat.ble hi h || allIn p rest (h + 1) hi)
    else allIn p rest lo hi

theorem allIn_sound (p : Cls → Bool) :
    ∀ (tbl : List (Nat × Cls)) (lo hi n : Nat),
      allIn p tbl lo hi = true → lo ≤ n → n ≤ hi → p (lookup tbl n) = true
  | [], _, _, _, h, _, _ => by simpa [allIn, lookup] using h
  | (h, c) :: rest, lo, hi, n, hall, hlo, hhi => by
    unfold allIn at hall
    unfold lookup
    by_cases h1 : lo ≤ h
    · simp only [h1, if_true, Bool.and_eq_true, Bool.or_eq_true, Nat.ble_eq] at hall
      obtain ⟨hc, hrest⟩ := hall
      by_cases h2 : n ≤ h
      · simp [h2, hc]
      · simp only [h2, if_false]
        rcases hrest with h3 | h3
        · omega
        · exact allIn_sound p rest (h + 1) hi n h3 (by omega) hhi
    · simp only [h1, if_false] at hall
      have h2 : ¬ n ≤ h := by omega
      simp only [h2, if_false]
      exact allIn_sound p rest lo hi n hall hlo hhi

/-- whole-table facts: `p` on every row (and on the fall-through) gives `p` for every address -/
theorem all_rows (p : Cls → Bool) (tbl : List (Nat × Cls)) (hi : Nat)
    (h : allIn p tbl 0 hi = true) (n : Nat) (hn : n ≤ hi) : p (lookup tbl n) = true :=
  allIn_sound p tbl 0 hi n h (Nat.zero_le _) hn

/-! ### prefix membership is an interval; interval tables equal membership -/

/-- the network address has no host bits -/
def aligned (bits : Nat) (net : Nat × Nat) : Bool := net.1 % 2 ^ (bits - net.2) == 0

/-- **prefix membership lemma.** For an aligned network, `addr & netmask == network_address` holds
    exactly for the `2^(bits-prefixlen)` addresses starting at the network address. -/
theorem inNet_iff (bits : Nat) (net : Nat × Nat) (n : Nat) (ha : aligned bits net = true) :
    inNet bits net n = true ↔ (net.1 ≤ n ∧ n < net.1 + 2 ^ (bits - net.2)) := by
  simp only [inNet, aligned, beq_iff_eq] at *
  generalize hk : 2 ^ (bits - net.2) = k at *
  have hkpos : 0 < k := by rw [← hk]; exact Nat.two_pow_pos _
  have hb := Nat.div_add_mod net.1 k
  rw [ha] at hb
  constructor
  · intro h
    have h1 := Nat.div_mul_le_self n k
    have h2 := Nat.div_add_mod n k
    have h3 := Nat.mod_lt n hkpos
    rw [Nat.mul_comm] at h2
    omega
  · intro ⟨h1, h2⟩
    have hq : n / k = net.1 / k := by
      apply Nat.div_eq_of_lt_le
      · rw [Nat.mul_comm]; omega
      · rw [Nat.add_mul, Nat.mul_comm]; omega
    rw [hq, Nat.mul_comm]; omega

/-- the network is disjoint from `[a, b]` or contains it -/
def netUniform (bits : Nat) (a b : Nat) (net : Nat × Nat) : Bool :=
  Nat.ble (net.1 + 2 ^ (bits - net.2)) a || Nat.blt b net.1 ||
    (Nat.ble net.1 a && Nat.blt b (net.1 + 2 ^ (bits - net.2)))

theorem inNet_const (bits : Nat) (net : Nat × Nat) (a b n : Nat) (ha : aligned bits net = true)
    (hu : netUniform bits a b net = true) (h1 : a ≤ n) (h2 : n ≤ b) :
    inNet bits net n = inNet bits net a := by
  have e1 := inNet_iff bits net n ha
  have e2 := inNet_iff bits net a ha
  simp only [netUniform, Bool.or_eq_true, Bool.and_eq_true, Nat.ble_eq, Nat.blt_eq] at hu
  generalize 2 ^ (bits - net.2) = k at *
  cases hn : inNet bits net n <;> cases hx : inNet bits net a <;> simp_all <;> omega

theorem inAny_const (bits : Nat) (nets : List (Nat × Nat)) (a b n : Nat)
    (ha : nets.all (aligned bits) = true) (hu : nets.all (netUniform bits a b) = true)
    (h1 : a ≤ n) (h2 : n ≤ b) : inAny bits nets n = inAny bits nets a := by
  induction nets with
  | nil => rfl
  | cons x xs ih =>
    simp only [List.all_cons, Bool.and_eq_true] at ha hu
    simp only [inAny, List.any_cons] at ih ⊢
    rw [inNet_const bits x a b n ha.1 hu.1 h1 h2, ih ha.2 hu.2]

/-- every row of `tbl` that `[lo, hi]` meets is a stretch on which `uni` holds and whose class is
    `spec` at its first address; `[lo, hi]` is covered by the table -/
def rowsMatch (spec : Nat → Cls) (uni : Nat → Nat → Bool) : List (Nat × Cls) → Nat → Nat → Bool
  | [], _, _ => false
  | (h, c) :: rest, lo, hi =>
    if lo ≤ h then
      uni lo (if hi ≤ h then hi else h) && (spec lo == c) &&
        (Nat.ble hi h || rowsMatch spec uni rest (h + 1) hi)
    else rowsMatch spec uni rest lo hi

theorem rowsMatch_sound (spec : Nat → Cls) (uni : Nat → Nat → Bool)
    (huni : ∀ a b n, uni a b = true → a ≤ n → n ≤ b → spec n = spec a) :
    ∀ (tbl : List (Nat × Cls)) (lo hi n : Nat),
      rowsMatch spec uni tbl lo hi = true → lo ≤ n → n ≤ hi → lookup tbl n = spec n
  | [], _, _, _, h, _, _ => by simp [rowsMatch] at h
  | (h, c) :: rest, lo, hi, n, hall, hlo, hhi => by
    unfold rowsMatch at hall
    unfold lookup
    by_cases h1 : lo ≤ h
    · simp only [h1, if_true, Bool.and_eq_true, Bool.or_eq_true, Nat.ble_eq, beq_iff_eq] at hall
      obtain ⟨⟨hu, hc⟩, hrest⟩ := hall
      by_cases h2 : n ≤ h
      · simp only [h2, if_true]
        rw [← hc]
        refine (huni lo _ n hu hlo ?_).symm
        split <;> omega
      · simp only [h2, if_false]
        rcases hrest with h3 | h3
        · omega
        · exact rowsMatch_sound spec uni huni rest (h + 1) hi n h3 (by omega) hhi
    · simp only [h1, if_false] at hall
      have h2 : ¬ n ≤ h := by omega
      simp only [h2, if_false]
      exact rowsMatch_sound spec uni huni rest lo hi n hall hlo hhi

def uniform4 (a b : Nat) : Bool :=
  private4.all (netUniform 32 a b) && public4.all (netUniform 32 a b) && loopback4.all (netUniform 32 a b)

def uniform6 (a b : Nat) : Bool :=
  private6.all (netUniform 128 a b) && loopback6.all (netUniform 128 a b)

theorem memberCls4_const
    (hal : (private4.all (aligned 32) && public4.all (aligned 32) && loopback4.all (aligned 32)) = true)
    (a b n : Nat) (hu : uniform4 a b = true) (h1 : a ≤ n) (h2 : n ≤ b) : memberCls4 n = memberCls4 a := by
  simp only [uniform4, Bool.and_eq_true] at hu hal
  simp only [memberCls4,
    inAny_const 32 private4 a b n hal.1.1 hu.1.1 h1 h2,
    inAny_const 32 public4 a b n hal.1.2 hu.1.2 h1 h2,
    inAny_const 32 loopback4 a b n hal.2 hu.2 h1 h2]

theorem memberCls6_const
    (hal : (private6.all (aligned 128) && loopback6.all (aligned 128)) = true)
    (a b n : Nat) (hu : uniform6 a b = true) (h1 : a ≤ n) (h2 : n ≤ b) : memberCls6 n = memberCls6 a := by
  simp only [uniform6, Bool.and_eq_true] at hu hal
  simp only [memberCls6,
    inAny_const 128 private6 a b n hal.1 hu.1 h1 h2,
    inAny_const 128 loopback6 a b n hal.2 hu.2 h1 h2]

end MitmVerif.Lemmas.C22
