/-
  C22 — value bounds of the `ipaddress` parser model: an IPv4 text yields a value below 2^32 (in Props),
  an IPv6 text a value below 2^128 (here): every hextet is below 65536 and at most eight of them are
  shifted together.
-/
import MitmVerif.Model.C22
namespace MitmVerif.Lemmas.C22
open MitmVerif MitmVerif.C22

theorem hexVal_getD_lt (c : UInt8) : (hexVal c).getD 0 < 16 := by
  unfold hexVal
  simp only
  split
  · simp only [Option.getD_some]; omega
  · split
    · simp only [Option.getD_some]; omega
    · split
      · simp only [Option.getD_some]; omega
      · simp

theorem fold16_lt (s : Text) : ∀ acc : Nat,
    s.foldl (fun a c => a * 16 + (hexVal c).getD 0) acc < (acc + 1) * 16 ^ s.length := by
  induction s with
  | nil => intro acc; simp
  | cons c cs ih =>
    intro acc
    simp only [List.foldl_cons, List.length_cons]
    have hd := hexVal_getD_lt c
    have h1 := ih (acc * 16 + (hexVal c).getD 0)
    have h2 : (acc * 16 + (hexVal c).getD 0 + 1) * 16 ^ cs.length ≤ ((acc + 1) * 16) * 16 ^ cs.length :=
      Nat.mul_le_mul_right _ (by omega)
    have h3 : ((acc + 1) * 16) * 16 ^ cs.length = (acc + 1) * 16 ^ (cs.length + 1) := by
      rw [Nat.pow_succ, Nat.mul_assoc, Nat.mul_comm 16]
    omega

theorem parseHextet_lt (s : Text) (v : Nat) (h : parseHextet s = some v) : v < 65536 := by
  unfold parseHextet at h
  split at h; · cases h
  split at h; · cases h
  split at h; · cases h
  rename_i _ hlen _
  injection h with h
  have hb := fold16_lt s 0
  have hp : 16 ^ s.length ≤ 16 ^ 4 := Nat.pow_le_pow_right (by decide) (by omega)
  have : (16 : Nat) ^ 4 = 65536 := by decide
  omega

/-- a part whose value, if it has one, is a hextet -/
def PartOk (p : Part) : Prop := ∀ v, p.val = some v → v < 65536

theorem partOk_txt (t : Text) : PartOk (Part.txt t) := fun v h => parseHextet_lt t v h

theorem partOk_num (n : Nat) (h : n < 65536) : PartOk (Part.num n) := by
  intro v hv; simp only [Part.val, Option.some.injEq] at hv; omega

theorem foldParts_lt (ps : List Part) : ∀ (acc r : Nat), (∀ p ∈ ps, PartOk p) →
    foldParts ps acc = some r → r < (acc + 1) * 65536 ^ ps.length := by
  induction ps with
  | nil => intro acc r _ h; simp only [foldParts, Option.some.injEq] at h; subst h; simp
  | cons p ps ih =>
    intro acc r hok h
    simp only [foldParts] at h
    cases hv : p.val with
    | none => simp [hv] at h
    | some v =>
      simp only [hv] at h
      have hvlt := hok p (List.mem_cons_self) v hv
      have h1 := ih (acc * 65536 + v) r (fun q hq => hok q (List.mem_cons_of_mem _ hq)) h
      have h2 : (acc * 65536 + v + 1) * 65536 ^ ps.length ≤ ((acc + 1) * 65536) * 65536 ^ ps.length :=
        Nat.mul_le_mul_right _ (by omega)
      have h3 : ((acc + 1) * 65536) * 65536 ^ ps.length = (acc + 1) * 65536 ^ (ps.length + 1) := by
        rw [Nat.pow_succ, Nat.mul_assoc, Nat.mul_comm 65536]
      simp only [List.length_cons]
      omega

private theorem pow8 : (65536 : Nat) ^ 8 = 340282366920938463463374607431768211456 := by decide

theorem assembleSkip_lt (parts : List Part) (hi lo n : Nat) (hok : ∀ p ∈ parts, PartOk p)
    (h : assembleSkip parts hi lo = some n) : n < 340282366920938463463374607431768211456 := by
  unfold assembleSkip at h
  split at h; · cases h
  rename_i hsum
  have hs : hi + lo < 8 := by omega
  cases ha : foldParts (List.take hi parts) 0 with
  | none => simp [ha] at h
  | some a =>
    simp only [ha] at h
    have h1 := foldParts_lt (List.take hi parts) 0 a
      (fun p hp => hok p (List.mem_of_mem_take hp)) ha
    have h2 := foldParts_lt (List.drop (parts.length - lo) parts) _ n
      (fun p hp => hok p (List.mem_of_mem_drop hp)) h
    have hlen1 : (List.take hi parts).length ≤ hi := by simp only [List.length_take]; omega
    have hlen2 : (List.drop (parts.length - lo) parts).length ≤ lo := by simp only [List.length_drop]; omega
    generalize (List.take hi parts).length = l1 at h1 hlen1
    generalize (List.drop (parts.length - lo) parts).length = l2 at h2 hlen2
    have hX : 0 < 65536 ^ (8 - (hi + lo)) := Nat.pow_pos (by decide)
    have e1 : a * 65536 ^ (8 - (hi + lo)) + 1 ≤ (a + 1) * 65536 ^ (8 - (hi + lo)) := by
      rw [Nat.add_mul]; omega
    have e2 : (a + 1) * 65536 ^ (8 - (hi + lo)) ≤ 65536 ^ l1 * 65536 ^ (8 - (hi + lo)) :=
      Nat.mul_le_mul_right _ (by omega)
    have e3 : (a * 65536 ^ (8 - (hi + lo)) + 1) * 65536 ^ l2 ≤
        (65536 ^ l1 * 65536 ^ (8 - (hi + lo))) * 65536 ^ l2 :=
      Nat.mul_le_mul_right _ (Nat.le_trans e1 e2)
    have e4 : (65536 ^ l1 * 65536 ^ (8 - (hi + lo))) * 65536 ^ l2 = 65536 ^ (l1 + (8 - (hi + lo)) + l2) := by
      rw [Nat.pow_add, Nat.pow_add]
    have e5 : 65536 ^ (l1 + (8 - (hi + lo)) + l2) ≤ 65536 ^ 8 :=
      Nat.pow_le_pow_right (by decide) (by omega)
    rw [pow8] at e5
    omega

/-- the assembled value of at most eight hextets is below 2^128 -/
theorem assembleV6_lt (parts : List Part) (n : Nat) (hok : ∀ p ∈ parts, PartOk p)
    (h : assembleV6 parts = some n) : n < 340282366920938463463374607431768211456 := by
  unfold assembleV6 at h
  simp only at h
  split at h; · cases h
  split at h
  · -- no `::`
    split at h; · cases h
    rename_i hlen
    split at h; · cases h
    split at h; · cases h
    have hl : parts.length = 8 := by simpa using hlen
    have := foldParts_lt parts 0 n hok h
    rw [hl, pow8] at this
    omega
  · -- one `::`
    split at h; · cases h
    split at h; · cases h
    exact assembleSkip_lt _ _ _ _ hok h
  · cases h

end MitmVerif.Lemmas.C22
