/-
  C22 — the parser model reads back the canonical text forms the operating system produces for a peer
  (inet_ntop): dotted-quad IPv4 and the `::ffff:a.b.c.d` form of an IPv4-mapped IPv6 address.
-/
import MitmVerif.Model.C22
namespace MitmVerif.Lemmas.C22
open MitmVerif MitmVerif.C22

/-- decimal rendering of an octet without leading zeros -/
def renderOctet (v : Nat) : Text :=
  if v < 10 then [UInt8.ofNat (48 + v)]
  else if v < 100 then [UInt8.ofNat (48 + v / 10), UInt8.ofNat (48 + v % 10)]
  else [UInt8.ofNat (48 + v / 100), UInt8.ofNat (48 + v / 10 % 10), UInt8.ofNat (48 + v % 10)]

/-- `a.b.c.d` -/
def dotted (a b c d : Nat) : Text :=
  renderOctet a ++ 0x2e :: (renderOctet b ++ 0x2e :: (renderOctet c ++ 0x2e :: renderOctet d))

/-- `::ffff:a.b.c.d` -/
def mappedText (a b c d : Nat) : Text := [0x3a, 0x3a, 0x66, 0x66, 0x66, 0x66, 0x3a] ++ dotted a b c d

theorem parseOctet_render : ∀ v : Fin 256, parseOctet (renderOctet v.val) = some v.val := by decide +kernel

theorem renderOctet_digits : ∀ v : Fin 256, ∀ c ∈ renderOctet v.val, isDigit c = true := by decide +kernel

theorem renderOctet_ne_nil : ∀ v : Fin 256, renderOctet v.val ≠ [] := by decide +kernel

theorem digit_not_sep (c : UInt8) (h : isDigit c = true) :
    c ≠ 0x2e ∧ c ≠ 0x2f ∧ c ≠ 0x3a ∧ c ≠ 0x25 := by
  simp only [isDigit, Bool.and_eq_true, decide_eq_true_eq] at h
  refine ⟨?_, ?_, ?_, ?_⟩ <;> (intro e; subst e; revert h; decide)

theorem splitOn_ne_nil (sep : UInt8) (s : Text) : splitOn sep s ≠ [] := by
  induction s with
  | nil => simp [splitOn]
  | cons c cs ih =>
    simp only [splitOn]
    split
    · simp
    · split <;> simp

theorem splitOn_nosep (sep : UInt8) (p : Text) (hp : sep ∉ p) : splitOn sep p = [p] := by
  induction p with
  | nil => simp [splitOn]
  | cons c cs ih =>
    simp only [List.mem_cons, not_or] at hp
    have hc : c ≠ sep := fun e => hp.1 e.symm
    simp [splitOn, ih hp.2, hc]

theorem splitOn_append (sep : UInt8) (p rest : Text) (hp : sep ∉ p) :
    splitOn sep (p ++ sep :: rest) = p :: splitOn sep rest := by
  induction p with
  | nil =>
    simp only [List.nil_append, splitOn]
    cases h : splitOn sep rest with
    | nil => exact absurd h (splitOn_ne_nil sep rest)
    | cons q qs => simp
  | cons c cs ih =>
    simp only [List.mem_cons, not_or] at hp
    have hc : c ≠ sep := fun e => hp.1 e.symm
    simp [splitOn, ih hp.2, hc]

private theorem sep_not_in_octet (v : Nat) (hv : v < 256) (sep : UInt8)
    (hs : sep = 0x2e ∨ sep = 0x2f ∨ sep = 0x3a ∨ sep = 0x25) : sep ∉ renderOctet v := by
  intro hmem
  have hd := renderOctet_digits ⟨v, hv⟩ sep hmem
  have := digit_not_sep sep hd
  rcases hs with h | h | h | h <;> simp_all

/-- none of `/`, `:`, `%` occurs in a dotted quad -/
theorem dotted_no (a b c d : Nat) (ha : a < 256) (hb : b < 256) (hc : c < 256) (hd : d < 256) (sep : UInt8)
    (hs : sep = 0x2f ∨ sep = 0x3a ∨ sep = 0x25) : sep ∉ dotted a b c d := by
  have h1 := sep_not_in_octet a ha sep (by rcases hs with h | h | h <;> simp [h])
  have h2 := sep_not_in_octet b hb sep (by rcases hs with h | h | h <;> simp [h])
  have h3 := sep_not_in_octet c hc sep (by rcases hs with h | h | h <;> simp [h])
  have h4 := sep_not_in_octet d hd sep (by rcases hs with h | h | h <;> simp [h])
  have hne : sep ≠ 0x2e := by rcases hs with h | h | h <;> (subst h; decide)
  simp only [dotted, List.mem_append, List.mem_cons, not_or]
  exact ⟨h1, hne, h2, hne, h3, hne, h4⟩

/-- **IPv4 read-back**: the parser model reads `a.b.c.d` back as the address -/
theorem parseV4_dotted (a b c d : Nat) (ha : a < 256) (hb : b < 256) (hc : c < 256) (hd : d < 256) :
    parseV4 (dotted a b c d) = some (((a * 256 + b) * 256 + c) * 256 + d) := by
  have hslash : (dotted a b c d).contains 0x2f = false := by
    simpa using dotted_no a b c d ha hb hc hd 0x2f (Or.inl rfl)
  have hne : (dotted a b c d).isEmpty = false := by
    have := renderOctet_ne_nil ⟨a, ha⟩
    simp only [dotted]
    cases h : renderOctet a with
    | nil => exact absurd h this
    | cons x xs => simp
  have hsplit : splitOn 0x2e (dotted a b c d) = [renderOctet a, renderOctet b, renderOctet c, renderOctet d] := by
    simp only [dotted]
    rw [splitOn_append _ _ _ (sep_not_in_octet a ha _ (Or.inl rfl)),
        splitOn_append _ _ _ (sep_not_in_octet b hb _ (Or.inl rfl)),
        splitOn_append _ _ _ (sep_not_in_octet c hc _ (Or.inl rfl)),
        splitOn_nosep _ _ (sep_not_in_octet d hd _ (Or.inl rfl))]
  simp only [parseV4, hslash, hne, hsplit, parseOctet_render ⟨a, ha⟩, parseOctet_render ⟨b, hb⟩,
    parseOctet_render ⟨c, hc⟩, parseOctet_render ⟨d, hd⟩]
  simp

def ffff : Text := [0x66, 0x66, 0x66, 0x66]

theorem v6Parts_mapped (a b c d : Nat) (ha : a < 256) (hb : b < 256) (hc : c < 256) (hd : d < 256) :
    v6Parts (mappedText a b c d) =
      some [Part.txt [], Part.txt [], Part.txt ffff,
            Part.num ((((a * 256 + b) * 256 + c) * 256 + d) / 65536),
            Part.num ((((a * 256 + b) * 256 + c) * 256 + d) % 65536)] := by
  have hcolon := dotted_no a b c d ha hb hc hd 0x3a (Or.inr (Or.inl rfl))
  have hsplit : splitOn 0x3a (mappedText a b c d) = [[], [], ffff, dotted a b c d] := by
    have e : mappedText a b c d = [] ++ 0x3a :: ([] ++ 0x3a :: (ffff ++ 0x3a :: dotted a b c d)) := rfl
    rw [e, splitOn_append _ _ _ (by simp), splitOn_append _ _ _ (by simp),
        splitOn_append _ _ _ (by decide), splitOn_nosep _ _ hcolon]
  have hdot : (0x2e : UInt8) ∈ dotted a b c d := by
    simp [dotted]
  have hne : (mappedText a b c d).isEmpty = false := rfl
  simp only [v6Parts, hne, hsplit, List.length_cons, List.length_nil]
  simp [hdot, parseV4_dotted a b c d ha hb hc hd]

theorem assembleV6_mapped (x y : Nat) :
    assembleV6 [Part.txt [], Part.txt [], Part.txt ffff, Part.num x, Part.num y] =
      some ((65535 * 65536 + x) * 65536 + y) := by
  simp [assembleV6, interiorEmpty, List.range, List.range.loop, Part.isEmpty, assembleSkip, foldParts, Part.val,
    parseHextet, hexVal, ffff]

private theorem mapped_arith (v : Nat) :
    (65535 * 65536 + v / 65536) * 65536 + v % 65536 = 0xFFFF * 4294967296 + v := by omega

/-- **IPv4-mapped read-back**: the parser model reads `::ffff:a.b.c.d` back as the IPv4-mapped address -/
theorem parseIp_mapped (a b c d : Nat) (ha : a < 256) (hb : b < 256) (hc : c < 256) (hd : d < 256) :
    parseIp (mappedText a b c d) =
      some (Addr.v6 (0xFFFF * 4294967296 + (((a * 256 + b) * 256 + c) * 256 + d)) none) := by
  have hcolon : (0x3a : UInt8) ∈ mappedText a b c d := by simp [mappedText]
  -- not an IPv4 text: it contains ':' , which is neither a digit nor '.'
  have h4 : parseV4 (mappedText a b c d) = none := by
    have hs : splitOn 0x2e (mappedText a b c d) =
        [[0x3a, 0x3a, 0x66, 0x66, 0x66, 0x66, 0x3a] ++ renderOctet a, renderOctet b, renderOctet c, renderOctet d] := by
      have e : mappedText a b c d = ([0x3a, 0x3a, 0x66, 0x66, 0x66, 0x66, 0x3a] ++ renderOctet a) ++ 0x2e ::
          (renderOctet b ++ 0x2e :: (renderOctet c ++ 0x2e :: renderOctet d)) := by
        simp [mappedText, dotted]
      have h1 : (0x2e : UInt8) ∉ ([0x3a, 0x3a, 0x66, 0x66, 0x66, 0x66, 0x3a] : Text) ++ renderOctet a := by
        have := renderOctet_digits ⟨a, ha⟩
        intro hm
        simp only [List.mem_append] at hm
        rcases hm with hm | hm
        · revert hm; decide
        · exact (digit_not_sep _ (this _ hm)).1 rfl
      have hn : ∀ v, v < 256 → (0x2e : UInt8) ∉ renderOctet v := fun v hv hm =>
        (digit_not_sep _ (renderOctet_digits ⟨v, hv⟩ _ hm)).1 rfl
      rw [e, splitOn_append _ _ _ h1, splitOn_append _ _ _ (hn b hb), splitOn_append _ _ _ (hn c hc),
        splitOn_nosep _ _ (hn d hd)]
    have ho : parseOctet (0x3a :: 0x3a :: 0x66 :: 0x66 :: 0x66 :: 0x66 :: 0x3a :: renderOctet a) = none := by
      simp [parseOctet, isDigit]
    unfold parseV4
    split; · rfl
    split; · rfl
    simp only [hs, List.cons_append, List.nil_append, ho]
  have hslash : (0x2f : UInt8) ∉ mappedText a b c d := by
    have := dotted_no a b c d ha hb hc hd 0x2f (Or.inl rfl)
    simp only [mappedText, List.mem_append, not_or]
    exact ⟨by decide, this⟩
  have hpct : partitionPct (mappedText a b c d) = none := by
    have hno := dotted_no a b c d ha hb hc hd 0x25 (Or.inr (Or.inr rfl))
    have gen : ∀ t : Text, (0x25 : UInt8) ∉ t → partitionPct t = none := by
      intro t
      induction t with
      | nil => intro _; rfl
      | cons x xs ih =>
        intro h
        simp only [List.mem_cons, not_or] at h
        have hx : x ≠ 0x25 := fun e => h.1 e.symm
        simp [partitionPct, hx, ih h.2]
    apply gen
    simp only [mappedText, List.mem_append, not_or]
    exact ⟨by decide, hno⟩
  have hint : parseV6Int (mappedText a b c d) =
      some (0xFFFF * 4294967296 + (((a * 256 + b) * 256 + c) * 256 + d)) := by
    unfold parseV6Int
    rw [v6Parts_mapped a b c d ha hb hc hd]
    show assembleV6 _ = _
    rw [assembleV6_mapped, mapped_arith]
  simp [parseIp, h4, parseV6, hslash, hpct, hint]

/-! ### the hexadecimal IPv4-mapped form `::ffff:xxxx:yyyy` (what `str(IPv6Address)` prints) -/

def hexDigitL (n : Nat) : UInt8 := if n < 10 then UInt8.ofNat (48 + n) else UInt8.ofNat (87 + n)

/-- `'%x' % v` for a hextet -/
def renderHextet (v : Nat) : Text :=
  if v < 16 then [hexDigitL v]
  else if v < 256 then [hexDigitL (v / 16), hexDigitL (v % 16)]
  else if v < 4096 then [hexDigitL (v / 256), hexDigitL (v / 16 % 16), hexDigitL (v % 16)]
  else [hexDigitL (v / 4096), hexDigitL (v / 256 % 16), hexDigitL (v / 16 % 16), hexDigitL (v % 16)]

/-- `::ffff:xxxx:yyyy` -/
def mappedHexText (x y : Nat) : Text :=
  [0x3a, 0x3a, 0x66, 0x66, 0x66, 0x66, 0x3a] ++ (renderHextet x ++ 0x3a :: renderHextet y)

theorem hexVal_digit : ∀ n : Fin 16, hexVal (hexDigitL n.val) = some n.val := by decide +kernel

theorem hexDigit_not_sep : ∀ n : Fin 16,
    hexDigitL n.val ≠ 0x3a ∧ hexDigitL n.val ≠ 0x2e ∧ hexDigitL n.val ≠ 0x2f ∧ hexDigitL n.val ≠ 0x25 := by
  decide +kernel

private theorem hv (n : Nat) (h : n < 16) : hexVal (hexDigitL n) = some n := hexVal_digit ⟨n, h⟩

theorem parseHextet_render (v : Nat) (h : v < 65536) : parseHextet (renderHextet v) = some v := by
  unfold renderHextet
  split
  · rename_i h1
    simp [parseHextet, hv v h1]
  · split
    · have a := hv (v / 16) (by omega); have b := hv (v % 16) (by omega)
      simp only [parseHextet, List.all_cons, List.all_nil, a, b, List.foldl_cons, List.foldl_nil]
      simp; omega
    · split
      · have a := hv (v / 256) (by omega); have b := hv (v / 16 % 16) (by omega); have c := hv (v % 16) (by omega)
        simp only [parseHextet, List.all_cons, List.all_nil, a, b, c, List.foldl_cons, List.foldl_nil]
        simp; omega
      · have a := hv (v / 4096) (by omega); have b := hv (v / 256 % 16) (by omega)
        have c := hv (v / 16 % 16) (by omega); have d := hv (v % 16) (by omega)
        simp only [parseHextet, List.all_cons, List.all_nil, a, b, c, d, List.foldl_cons, List.foldl_nil]
        simp; omega

theorem renderHextet_chars (v : Nat) (h : v < 65536) : ∀ c ∈ renderHextet v,
    c ≠ 0x3a ∧ c ≠ 0x2e ∧ c ≠ 0x2f ∧ c ≠ 0x25 := by
  intro c hc
  unfold renderHextet at hc
  split at hc
  · simp only [List.mem_cons, List.not_mem_nil, or_false] at hc; subst hc
    exact hexDigit_not_sep ⟨v, by omega⟩
  · split at hc
    · simp only [List.mem_cons, List.not_mem_nil, or_false] at hc
      rcases hc with rfl | rfl
      · exact hexDigit_not_sep ⟨v / 16, by omega⟩
      · exact hexDigit_not_sep ⟨v % 16, by omega⟩
    · split at hc
      · simp only [List.mem_cons, List.not_mem_nil, or_false] at hc
        rcases hc with rfl | rfl | rfl
        · exact hexDigit_not_sep ⟨v / 256, by omega⟩
        · exact hexDigit_not_sep ⟨v / 16 % 16, by omega⟩
        · exact hexDigit_not_sep ⟨v % 16, by omega⟩
      · simp only [List.mem_cons, List.not_mem_nil, or_false] at hc
        rcases hc with rfl | rfl | rfl | rfl
        · exact hexDigit_not_sep ⟨v / 4096, by omega⟩
        · exact hexDigit_not_sep ⟨v / 256 % 16, by omega⟩
        · exact hexDigit_not_sep ⟨v / 16 % 16, by omega⟩
        · exact hexDigit_not_sep ⟨v % 16, by omega⟩

theorem renderHextet_ne_nil (v : Nat) : renderHextet v ≠ [] := by
  unfold renderHextet; split <;> (try split) <;> (try split) <;> simp

theorem assembleV6_mappedHex (hx hy : Text) (x y : Nat) (h1 : parseHextet hx = some x) (h2 : parseHextet hy = some y)
    (n1 : hx ≠ []) (n2 : hy ≠ []) :
    assembleV6 [Part.txt [], Part.txt [], Part.txt ffff, Part.txt hx, Part.txt hy] =
      some ((65535 * 65536 + x) * 65536 + y) := by
  have e1 : hx.isEmpty = false := by cases hx <;> simp_all
  have e2 : hy.isEmpty = false := by cases hy <;> simp_all
  have hf : parseHextet ffff = some 65535 := by decide
  have ef : ffff.isEmpty = false := rfl
  simp [assembleV6, interiorEmpty, List.range, List.range.loop, Part.isEmpty, assembleSkip, foldParts, Part.val,
    h1, h2, e1, e2, hf, ef]

private theorem mappedHex_arith (x y : Nat) :
    (65535 * 65536 + x) * 65536 + y = 0xFFFF * 4294967296 + (x * 65536 + y) := by omega

/-- **hex IPv4-mapped read-back**: `::ffff:xxxx:yyyy` is read back as the IPv4-mapped address of
    `x * 65536 + y` -/
theorem parseIp_mappedHex (x y : Nat) (hx : x < 65536) (hy : y < 65536) :
    parseIp (mappedHexText x y) = some (Addr.v6 (0xFFFF * 4294967296 + (x * 65536 + y)) none) := by
  have cx := renderHextet_chars x hx
  have cy := renderHextet_chars y hy
  have nocolon_x : (0x3a : UInt8) ∉ renderHextet x := fun hm => (cx _ hm).1 rfl
  have nocolon_y : (0x3a : UInt8) ∉ renderHextet y := fun hm => (cy _ hm).1 rfl
  have hno : ∀ sep : UInt8, sep = 0x2e ∨ sep = 0x2f ∨ sep = 0x25 → sep ∉ mappedHexText x y := by
    intro sep hs hm
    simp only [mappedHexText, List.mem_append, List.mem_cons] at hm
    rcases hm with hm | hm | hm | hm
    · rcases hs with rfl | rfl | rfl <;> revert hm <;> decide
    · have := cx _ hm; rcases hs with rfl | rfl | rfl <;> simp_all
    · rcases hs with rfl | rfl | rfl <;> revert hm <;> decide
    · have := cy _ hm; rcases hs with rfl | rfl | rfl <;> simp_all
  -- not an IPv4 text: no '.', so `split('.')` gives one part
  have h4 : parseV4 (mappedHexText x y) = none := by
    unfold parseV4
    split; · rfl
    split; · rfl
    rw [splitOn_nosep _ _ (hno 0x2e (Or.inl rfl))]
  have hsplit : splitOn 0x3a (mappedHexText x y) = [[], [], ffff, renderHextet x, renderHextet y] := by
    have e : mappedHexText x y = [] ++ 0x3a :: ([] ++ 0x3a :: (ffff ++ 0x3a :: (renderHextet x ++ 0x3a :: renderHextet y))) := rfl
    rw [e, splitOn_append _ _ _ (by simp), splitOn_append _ _ _ (by simp),
        splitOn_append _ _ _ (by decide), splitOn_append _ _ _ nocolon_x, splitOn_nosep _ _ nocolon_y]
  have hnodot : (0x2e : UInt8) ∉ renderHextet y := fun hm => (cy _ hm).2.1 rfl
  have hparts : v6Parts (mappedHexText x y) =
      some [Part.txt [], Part.txt [], Part.txt ffff, Part.txt (renderHextet x), Part.txt (renderHextet y)] := by
    have hne : (mappedHexText x y).isEmpty = false := rfl
    simp only [v6Parts, hne, hsplit, List.length_cons, List.length_nil]
    simp [hnodot]
  have hpct : partitionPct (mappedHexText x y) = none := by
    have gen : ∀ t : Text, (0x25 : UInt8) ∉ t → partitionPct t = none := by
      intro t
      induction t with
      | nil => intro _; rfl
      | cons c cs ih =>
        intro h
        simp only [List.mem_cons, not_or] at h
        have hc : c ≠ 0x25 := fun e => h.1 e.symm
        simp [partitionPct, hc, ih h.2]
    exact gen _ (hno 0x25 (Or.inr (Or.inr rfl)))
  have hint : parseV6Int (mappedHexText x y) = some (0xFFFF * 4294967296 + (x * 65536 + y)) := by
    unfold parseV6Int
    rw [hparts]
    show assembleV6 _ = _
    rw [assembleV6_mappedHex _ _ x y (parseHextet_render x hx) (parseHextet_render y hy)
      (renderHextet_ne_nil x) (renderHextet_ne_nil y), mappedHex_arith]
  have hslash := hno 0x2f (Or.inr (Or.inl rfl))
  simp [parseIp, h4, parseV6, hslash, hpct, hint]

end MitmVerif.Lemmas.C22
