/-
  C22 — the parser model reads back the canonical text forms the operating system produces for a peer
  (inet_ntop): dotted-quad IPv4 and the `::ffff:a.b.c.d` form of an IPv4-mapped IPv6 address.
-/
import MitmVerif.Model.C22
namespace MitmVerif.Lemmas.C22
open MitmVerif MitmVerif.C22

/-- decimal rendering of an octet without leading zeros -/
def renderOctet (v : Nat) : Text :=
  if v < 10 then [UInt8.ofNat (48 + v)]
  else if v < 100 then [UInt8.ofNat (48 + v / 10), UInt8.ofNat (48 + v % 10)]
  else [UInt8.ofNat (48 + v / 100), UInt8.ofNat (48 + v / 10 % 10), UInt8.ofNat (48 + v % 10)]

/-- `a.b.c.d` -/
def dotted (a b c d : Nat) : Text :=
  renderOctet a ++ 0x2e :: (renderOctet b ++ 0x2e :: (renderOctet c ++ 0x2e :: renderOctet d))

/-- `::ffff:a.b.c.d` -/
def mappedText (a b c d : Nat) : Text := [0x3a, 0x3a, 0x66, 0x66, 0x66, 0x66, 0x3a] ++ dotted a b c d

theorem parseOctet_render : ∀ v : Fin 256, parseOctet (renderOctet v.val) = some v.val := by decide +kernel

theorem renderOctet_digits : ∀ v : Fin 256, ∀ c ∈ renderOctet v.val, isDigit c = true := by decide +kernel

theorem renderOctet_ne_nil : ∀ v : Fin 256, renderOctet v.val ≠ [] := by decide +kernel

theorem digit_not_sep (c : UInt8) (h : isDigit c = true) :
    c ≠ 0x2e ∧ c ≠ 0x2f ∧ c ≠ 0x3a ∧ c ≠ 0x25 := by
  simp only [isDigit, Bool.and_eq_true, decide_eq_true_eq] at h
  refine ⟨?_, ?_, ?_, ?_⟩ <;> (intro e; subst e; revert h; decide)

theorem splitOn_ne_nil (sep : UInt8) (s : Text) : splitOn sep s ≠ [] := by
  induction s with
  | nil => simp [splitOn]
  | cons c cs ih =>
    simp only [splitOn]
    split
    · simp
    · split <;> simp

theorem splitOn_nosep (sep : UInt8) (p : Text) (hp : sep ∉ p) : splitOn sep p = [p] := by
  induction p with
  | nil => simp [splitOn]
  | cons c cs ih =>
    simp only [List.mem_cons, not_or] at hp
    have hc : c ≠ sep := fun e => hp.1 e.symm
    simp [splitOn, ih hp.2, hc]

theorem splitOn_append (sep : UInt8) (p rest : Text) (hp : sep ∉ p) :
    splitOn sep (p ++ sep :: rest) = p :: splitOn sep rest := by
  induction p with
  | nil =>
    simp only [List.nil_append, splitOn]
    cases h : splitOn sep rest with
    | nil => exact absurd h (splitOn_ne_nil sep rest)
    | cons q qs => simp
  | cons c cs ih =>
    simp only [List.mem_cons, not_or] at hp
    have hc : c ≠ sep := fun e => hp.1 e.symm
    simp [splitOn, ih hp.2, hc]

private theorem sep_not_in_octet (v : Nat) (hv : v < 256) (sep : UInt8)
    (hs : sep = 0x2e ∨ sep = 0x2f ∨ sep = 0x3a ∨ sep = 0x25) : sep ∉ renderOctet v := by
  intro hmem
  have hd := renderOctet_digits ⟨v, hv⟩ sep hmem
  have := digit_not_sep sep hd
  rcases hs with h | h | h | h <;> simp_all

/-- none of `/`, `:`, `%` occurs in a dotted quad -/
theorem dotted_no (a b c d : Nat) (ha : a < 256) (hb : b < 256) (hc : c < 256) (hd : d < 256) (sep : UInt8)
    (hs : sep = 0x2f ∨ sep = 0x3a ∨ sep = 0x25) : sep ∉ dotted a b c d := by
  have h1 := sep_not_in_octet a ha sep (by rcases hs with h | h | h <;> simp [h])
  have h2 := sep_not_in_octet b hb sep (by rcases hs with h | h | h <;> simp [h])
  have h3 := sep_not_in_octet c hc sep (by rcases hs with h | h | h <;> simp [h])
  have h4 := sep_not_in_octet d hd sep (by rcases hs with h | h | h <;> simp [h])
  have hne : sep ≠ 0x2e := by rcases hs with h | h | h <;> (subst h; decide)
  simp only [dotted, List.mem_append, List.mem_cons, not_or]
  exact ⟨h1, hne, h2, hne, h3, hne, h4⟩

/-- **IPv4 read-back**: the parser model reads `a.b.c.d` back as the address -/
theorem parseV4_dotted (a b c d : Nat) (ha : a < 256) (hb : b < 256) (hc : c < 256) (hd : d < 256) :
    parseV4 (dotted a b c d) = some (((a * 256 + b) * 256 + c) * 256 + d) := by
  have hslash : (dotted a b c d).contains 0x2f = false := by
    simpa using dotted_no a b c d ha hb hc hd 0x2f (Or.inl rfl)
  have hne : (dotted a b c d).isEmpty = false := by
    have := renderOctet_ne_nil ⟨a, ha⟩
    simp only [dotted]
    cases h : renderOctet a with
    | nil => exact absurd h this
    | cons x xs => simp
  have hsplit : splitOn 0x2e (dotted a b c d) = [renderOctet a, renderOctet b, renderOctet c, renderOctet d] := by
    simp only [dotted]
    rw [splitOn_append _ _ _ (sep_not_in_octet a ha _ (Or.inl rfl)),
        splitOn_append _ _ _ (sep_not_in_octet b hb _ (Or.inl rfl)),
        splitOn_append _ _ _ (sep_not_in_octet c hc _ (Or.inl rfl)),
        splitOn_nosep _ _ (sep_not_in_octet d hd _ (Or.inl rfl))]
  simp only [parseV4, hslash, hne, hsplit, parseOctet_render ⟨a, ha⟩, parseOctet_render ⟨b, hb⟩,
    parseOctet_render ⟨c, hc⟩, parseOctet_render ⟨d, hd⟩]
  simp

private def ffff : Text := [0x66, 0x66, 0x66, 0x66]

theorem v6Parts_mapped (a b c d : Nat) (ha : a < 256) (hb : b < 256) (hc : c < 256) (hd : d < 256) :
    v6Parts (mappedText a b c d) =
      some [Part.txt [], Part.txt [], Part.txt ffff,
            Part.num ((((a * 256 + b) * 256 + c) * 256 + d) / 65536),
            Part.num ((((a * 256 + b) * 256 + c) * 256 + d) % 65536)] := by
  have hcolon := dotted_no a b c d ha hb hc hd 0x3a (Or.inr (Or.inl rfl))
  have hsplit : splitOn 0x3a (mappedText a b c d) = [[], [], ffff, dotted a b c d] := by
    have e : mappedText a b c d = [] ++ 0x3a :: ([] ++ 0x3a :: (ffff ++ 0x3a :: dotted a b c d)) := rfl
    rw [e, splitOn_append _ _ _ (by simp), splitOn_append _ _ _ (by simp),
        splitOn_append _ _ _ (by decide), splitOn_nosep _ _ hcolon]
  have hdot : (0x2e : UInt8) ∈ dotted a b c d := by
    simp [dotted]
  have hne : (mappedText a b c d).isEmpty = false := rfl
  simp only [v6Parts, hne, hsplit, List.length_cons, List.length_nil]
  simp [hdot, parseV4_dotted a b c d ha hb hc hd]

theorem assembleV6_mapped (x y : Nat) :
    assembleV6 [Part.txt [], Part.txt [], Part.txt ffff, Part.num x, Part.num y] =
      some ((65535 * 65536 + x) * 65536 + y) := by
  simp [assembleV6, interiorEmpty, List.range, List.range.loop, Part.isEmpty, assembleSkip, foldParts, Part.val,
    parseHextet, hexVal, ffff]

private theorem mapped_arith (v : Nat) :
    (65535 * 65536 + v / 65536) * 65536 + v % 65536 = 0xFFFF * 4294967296 + v := by omega

/-- **IPv4-mapped read-back**: the parser model reads `::ffff:a.b.c.d` back as the IPv4-mapped address -/
theorem parseIp_mapped (a b c d : Nat) (ha : a < 256) (hb : b < 256) (hc : c < 256) (hd : d < 256) :
    parseIp (mappedText a b c d) =
      some (Addr.v6 (0xFFFF * 4294967296 + (((a * 256 + b) * 256 + c) * 256 + d)) none) := by
  have hcolon : (0x3a : UInt8) ∈ mappedText a b c d := by simp [mappedText]
  -- not an IPv4 text: it contains ':' , which is neither a digit nor '.'
  have h4 : parseV4 (mappedText a b c d) = none := by
    have hs : splitOn 0x2e (mappedText a b c d) =
        [[0x3a, 0x3a, 0x66, 0x66, 0x66, 0x66, 0x3a] ++ renderOctet a, renderOctet b, renderOctet c, renderOctet d] := by
      have e : mappedText a b c d = ([0x3a, 0x3a, 0x66, 0x66, 0x66, 0x66, 0x3a] ++ renderOctet a) ++ 0x2e ::
          (renderOctet b ++ 0x2e :: (renderOctet c ++ 0x2e :: renderOctet d)) := by
        simp [mappedText, dotted]
      have h1 : (0x2e : UInt8) ∉ ([0x3a, 0x3a, 0x66, 0x66, 0x66, 0x66, 0x3a] : Text) ++ renderOctet a := by
        have := renderOctet_digits ⟨a, ha⟩
        intro hm
        simp only [List.mem_append] at hm
        rcases hm with hm | hm
        · revert hm; decide
        · exact (digit_not_sep _ (this _ hm)).1 rfl
      have hn : ∀ v, v < 256 → (0x2e : UInt8) ∉ renderOctet v := fun v hv hm =>
        (digit_not_sep _ (renderOctet_digits ⟨v, hv⟩ _ hm)).1 rfl
      rw [e, splitOn_append _ _ _ h1, splitOn_append _ _ _ (hn b hb), splitOn_append _ _ _ (hn c hc),
        splitOn_nosep _ _ (hn d hd)]
    have ho : parseOctet (0x3a :: 0x3a :: 0x66 :: 0x66 :: 0x66 :: 0x66 :: 0x3a :: renderOctet a) = none := by
      simp [parseOctet, isDigit]
    unfold parseV4
    split; · rfl
    split; · rfl
    simp only [hs, List.cons_append, List.nil_append, ho]
  have hslash : (0x2f : UInt8) ∉ mappedText a b c d := by
    have := dotted_no a b c d ha hb hc hd 0x2f (Or.inl rfl)
    simp only [mappedText, List.mem_append, not_or]
    exact ⟨by decide, this⟩
  have hpct : partitionPct (mappedText a b c d) = none := by
    have hno := dotted_no a b c d ha hb hc hd 0x25 (Or.inr (Or.inr rfl))
    have gen : ∀ t : Text, (0x25 : UInt8) ∉ t → partitionPct t = none := by
      intro t
      induction t with
      | nil => intro _; rfl
      | cons x xs ih =>
        intro h
        simp only [List.mem_cons, not_or] at h
        have hx : x ≠ 0x25 := fun e => h.1 e.symm
        simp [partitionPct, hx, ih h.2]
    apply gen
    simp only [mappedText, List.mem_append, not_or]
    exact ⟨by decide, hno⟩
  have hint : parseV6Int (mappedText a b c d) =
      some (0xFFFF * 4294967296 + (((a * 256 + b) * 256 + c) * 256 + d)) := by
    unfold parseV6Int
    rw [v6Parts_mapped a b c d ha hb hc hd]
    show assembleV6 _ = _
    rw [assembleV6_mapped, mapped_arith]
  simp [parseIp, h4, parseV6, hslash, hpct, hint]

end MitmVerif.Lemmas.C22
