/-
  C23 — the per-update listener model (`update`) is the settled view of the per-event model (`lstep`):
  after the events of one complete `Servers.update` the guard sees every listener `update` predicts.
-/
import MitmVerif.Model.C23
namespace MitmVerif.Lemmas.C23
open MitmVerif MitmVerif.C22 MitmVerif.C23

/-- what a new instance for spec `k` binds (no addresses when the start failed) -/
def startOf (start : List (Nat × Server)) (k : Nat) : Server := (lookupKey start k).getD ⟨.tcp, []⟩

/-- the events of one complete update, in the order `Servers.update` produces them: `_instances`
    replaced, the stop tasks of the instances that go away, the gather, the start tasks of the new ones -/
def updateEvents (S : State) (so : Bool) (modes : List Nat) (start : List (Nat × Server)) : List LEv :=
  let target := if so then modes else []
  [LEv.beginUpdate so modes] ++
  ((S.map (·.1)).filter (fun k => !target.contains k)).map LEv.stopped ++
  [LEv.stopsDone] ++
  (target.filter (fun k => (lookupKey S k).isNone)).map (fun k => LEv.started k (startOf start k))

/-- the settled per-event state that corresponds to a per-update state -/
def settled (S : State) : LState := ⟨S.map (·.1), S.map (·.1), S⟩

theorem lookupKey_mem (l : List (Nat × Server)) (k : Nat) (s : Server) (h : lookupKey l k = some s) :
    (k, s) ∈ l := by
  induction l with
  | nil => simp [lookupKey] at h
  | cons e es ih =>
    obtain ⟨k', s'⟩ := e
    simp only [lookupKey] at h
    split at h
    · rename_i hk
      simp only [beq_iff_eq] at hk
      injection h with h; subst h; subst hk
      exact List.mem_cons_self
    · exact List.mem_cons_of_mem _ (ih h)

theorem lookupKey_none_not_mem (l : List (Nat × Server)) (k : Nat) (h : lookupKey l k = none) :
    ∀ e ∈ l, e.1 ≠ k := by
  induction l with
  | nil => intro e he; simp at he
  | cons x xs ih =>
    obtain ⟨k', s'⟩ := x
    simp only [lookupKey] at h
    split at h
    · cases h
    · rename_i hk
      intro e he
      simp only [List.mem_cons] at he
      rcases he with rfl | he
      · simpa using hk
      · exact ih h e he

/-- `stopped` events only remove; they never touch `listed` / `target` -/
theorem after_stops (ks : List Nat) : ∀ st : LState,
    (lstateAfter st (ks.map LEv.stopped)).listed = st.listed ∧
    (lstateAfter st (ks.map LEv.stopped)).target = st.target ∧
    (∀ e, e ∈ (lstateAfter st (ks.map LEv.stopped)).bound ↔ (e ∈ st.bound ∧ e.1 ∉ ks)) := by
  induction ks with
  | nil => intro st; simp [lstateAfter]
  | cons k ks ih =>
    intro st
    simp only [List.map_cons, lstateAfter]
    obtain ⟨h1, h2, h3⟩ := ih (lstep st (LEv.stopped k))
    refine ⟨by simpa [lstep] using h1, by simpa [lstep] using h2, ?_⟩
    intro e
    rw [h3 e]
    simp only [lstep, List.mem_filter, bne_iff_ne, ne_eq, List.mem_cons, not_or]
    constructor
    · intro ⟨⟨a, b⟩, c⟩; exact ⟨a, b, c⟩
    · intro ⟨a, b, c⟩; exact ⟨⟨a, b⟩, c⟩

/-- `started` events for listed keys: every started key is bound to what it was started with, and every
    binding of another key survives -/
theorem after_starts (f : Nat → Server) (ks : List Nat) : ∀ st : LState,
    (∀ k ∈ ks, st.listed.contains k = true) →
    (lstateAfter st (ks.map fun k => LEv.started k (f k))).listed = st.listed ∧
    (∀ k ∈ ks, (k, f k) ∈ (lstateAfter st (ks.map fun k => LEv.started k (f k))).bound) ∧
    (∀ e ∈ st.bound, e.1 ∉ ks → e ∈ (lstateAfter st (ks.map fun k => LEv.started k (f k))).bound) := by
  induction ks with
  | nil => intro st _; simp [lstateAfter]
  | cons k ks ih =>
    intro st hl
    have hk : st.listed.contains k = true := hl k List.mem_cons_self
    have hstep : lstep st (LEv.started k (f k)) =
        { st with bound := (k, f k) :: st.bound.filter fun e => e.1 != k } := by
      simp only [lstep, hk, if_true]
    simp only [List.map_cons, lstateAfter, hstep]
    obtain ⟨h1, h2, h3⟩ := ih { st with bound := (k, f k) :: st.bound.filter fun e => e.1 != k }
      (fun k' hk' => hl k' (List.mem_cons_of_mem _ hk'))
    refine ⟨h1, ?_, ?_⟩
    · intro k' hk'
      simp only [List.mem_cons] at hk'
      by_cases hin : k' ∈ ks
      · exact h2 k' hin
      · rcases hk' with rfl | hk'
        · exact h3 (k', f k') List.mem_cons_self hin
        · exact absurd hk' hin
    · intro e he hne
      simp only [List.mem_cons, not_or] at hne
      apply h3 e _ hne.2
      simp only [List.mem_cons, List.mem_filter, bne_iff_ne, ne_eq]
      exact Or.inr ⟨he, hne.1⟩

theorem lstateAfter_append (a b : List LEv) : ∀ st : LState,
    lstateAfter st (a ++ b) = lstateAfter (lstateAfter st a) b := by
  induction a with
  | nil => intro st; rfl
  | cons e es ih => intro st; simp only [List.cons_append, lstateAfter, ih]

/-- **the per-update model is the settled view of the per-event model.** After the events of one complete
    `Servers.update`, in the order the code produces them, the guard sees every listener the per-update
    model `update` predicts (kept instances with their old sockets, new instances with what they bound). -/
theorem update_refines (S : State) (so : Bool) (modes : List Nat) (start : List (Nat × Server)) (s : Server)
    (hs : s ∈ (update S so modes start).live) :
    s ∈ (lstateAfter (settled S) (updateEvents S so modes start)).guardView := by
  cases so with
  | false => simp [update, State.live] at hs
  | true =>
    simp only [update, if_true, State.live, List.map_map, List.mem_map, Function.comp] at hs
    obtain ⟨k, hk, hsk⟩ := hs
    -- walk through the four groups of events
    simp only [updateEvents, if_true, List.append_assoc, lstateAfter_append,
      lstateAfter, List.cons_append, List.nil_append]
    generalize hst1 : lstep (settled S) (LEv.beginUpdate true modes) = st1
    have h1l : st1.listed = modes ++ (S.map (·.1)).filter (fun k => !modes.contains k) := by
      rw [← hst1]; simp [lstep, settled]
    have h1t : st1.target = modes := by rw [← hst1]; simp [lstep]
    have h1b : st1.bound = S := by rw [← hst1]; simp [lstep, settled]
    obtain ⟨h2l, h2t, h2b⟩ := after_stops ((S.map (·.1)).filter (fun k => !modes.contains k)) st1
    generalize lstateAfter st1 (((S.map (·.1)).filter (fun k => !modes.contains k)).map LEv.stopped) = st2 at h2l h2t h2b
    generalize hst3 : lstep st2 LEv.stopsDone = st3
    have h3l : st3.listed = modes := by rw [← hst3]; simp [lstep, h2t, h1t]
    have h3b : ∀ e, e ∈ st3.bound ↔ (e ∈ st2.bound ∧ modes.contains e.1 = true) := by
      intro e; rw [← hst3]; simp [lstep, h2t, h1t]
    have hpre : ∀ k' ∈ modes.filter (fun k => (lookupKey S k).isNone), st3.listed.contains k' = true := by
      intro k' hk'
      simp only [List.mem_filter] at hk'
      simp [h3l, hk'.1]
    obtain ⟨h4l, h4new, h4old⟩ := after_starts (startOf start) (modes.filter (fun k => (lookupKey S k).isNone)) st3 hpre
    generalize lstateAfter st3 ((modes.filter (fun k => (lookupKey S k).isNone)).map
      fun k => LEv.started k (startOf start k)) = st4 at h4l h4new h4old
    simp only [LState.guardView, List.mem_map, List.mem_filter]
    have hlisted : st4.listed.contains k = true := by simp [h4l, h3l, hk]
    cases hlk : lookupKey S k with
    | some inst =>
      simp only [hlk] at hsk
      subst hsk
      refine ⟨(k, inst), ⟨?_, hlisted⟩, rfl⟩
      apply h4old
      · rw [h3b]
        refine ⟨?_, by simp [hk]⟩
        rw [h2b, h1b]
        refine ⟨lookupKey_mem S k inst hlk, ?_⟩
        simp [hk]
      · simp [hlk]
    | none =>
      simp only [hlk] at hsk
      subst hsk
      refine ⟨(k, startOf start k), ⟨?_, hlisted⟩, rfl⟩
      exact h4new k (by simp [hk, hlk])

/-! ### the other direction: nothing else is listening once the update is through -/

theorem lookupKey_of_mem_nodup (l : List (Nat × Server)) (k : Nat) (s : Server)
    (hm : (k, s) ∈ l) (hn : (l.map (·.1)).Nodup) : lookupKey l k = some s := by
  induction l with
  | nil => simp at hm
  | cons e es ih =>
    obtain ⟨k', s'⟩ := e
    simp only [List.map_cons, List.nodup_cons, List.mem_map] at hn
    simp only [lookupKey]
    by_cases hk : k' = k
    · subst hk
      simp only [beq_self_eq_true, if_true]
      simp only [List.mem_cons, Prod.mk.injEq] at hm
      rcases hm with ⟨_, rfl⟩ | hm
      · rfl
      · exact absurd ⟨(k', s), hm, rfl⟩ hn.1
    · have : (k' == k) = false := by simpa using hk
      simp only [this]
      simp only [List.mem_cons, Prod.mk.injEq] at hm
      rcases hm with ⟨rfl, _⟩ | hm
      · exact absurd rfl hk
      · exact ih hm hn.2

/-- `started` events add nothing but what was started -/
theorem after_starts_upper (f : Nat → Server) (ks : List Nat) : ∀ st : LState,
    ∀ e ∈ (lstateAfter st (ks.map fun k => LEv.started k (f k))).bound,
      (∃ k ∈ ks, e = (k, f k)) ∨ e ∈ st.bound := by
  induction ks with
  | nil => intro st e he; exact Or.inr (by simpa [lstateAfter] using he)
  | cons k ks ih =>
    intro st e he
    simp only [List.map_cons, lstateAfter] at he
    rcases ih _ e he with ⟨k', hk', rfl⟩ | hb
    · exact Or.inl ⟨k', List.mem_cons_of_mem _ hk', rfl⟩
    · simp only [lstep] at hb
      split at hb
      · simp only [List.mem_cons, List.mem_filter] at hb
        rcases hb with rfl | hb
        · exact Or.inl ⟨k, List.mem_cons_self, rfl⟩
        · exact Or.inr hb.1
      · exact Or.inr hb

/-- **nothing else is listening.** With unique keys in `_instances` (it is a dict): once the events of
    a complete update are through, every socket that is listening belongs to an instance the per-update
    model predicts. -/
theorem update_refines_upper (S : State) (so : Bool) (modes : List Nat) (start : List (Nat × Server))
    (hn : (S.map (·.1)).Nodup) (s : Server)
    (hs : s ∈ (lstateAfter (settled S) (updateEvents S so modes start)).listening) :
    s ∈ (update S so modes start).live := by
  simp only [updateEvents, List.append_assoc, lstateAfter_append, lstateAfter, List.cons_append,
    List.nil_append] at hs
  generalize htg : (if so = true then modes else []) = target at hs
  generalize hst1 : lstep (settled S) (LEv.beginUpdate so modes) = st1 at hs
  have h1t : st1.target = target := by rw [← hst1, ← htg]; simp [lstep]
  have h1b : st1.bound = S := by rw [← hst1]; simp [lstep, settled]
  obtain ⟨_, h2t, h2b⟩ := after_stops ((S.map (·.1)).filter (fun k => !target.contains k)) st1
  generalize lstateAfter st1 (((S.map (·.1)).filter (fun k => !target.contains k)).map LEv.stopped) = st2
    at hs h2t h2b
  generalize hst3 : lstep st2 LEv.stopsDone = st3 at hs
  have h3b : ∀ e, e ∈ st3.bound → (e ∈ S ∧ target.contains e.1 = true) := by
    intro e he
    rw [← hst3] at he
    simp only [lstep, List.mem_filter, h2t, h1t] at he
    exact ⟨by have := (h2b e).1 he.1; rw [h1b] at this; exact this.1, he.2⟩
  simp only [LState.listening, List.mem_map] at hs
  obtain ⟨e, he, rfl⟩ := hs
  have hup := after_starts_upper (startOf start) (target.filter (fun k => (lookupKey S k).isNone)) st3 e he
  cases so with
  | false =>
    simp only [Bool.false_eq_true, if_false] at htg
    subst htg
    rcases hup with ⟨k, hk, _⟩ | hb
    · simp at hk
    · have := (h3b e hb).2
      simp at this
  | true =>
    simp only [if_true] at htg
    subst htg
    simp only [update, if_true, State.live, List.map_map, List.mem_map, Function.comp]
    rcases hup with ⟨k, hk, rfl⟩ | hb
    · simp only [List.mem_filter, Option.isNone_iff_eq_none] at hk
      exact ⟨k, hk.1, by simp [hk.2, startOf]⟩
    · obtain ⟨hmem, hc⟩ := h3b e hb
      obtain ⟨k, sv⟩ := e
      have hl := lookupKey_of_mem_nodup S k sv hmem hn
      exact ⟨k, by simpa using hc, by simp [hl]⟩

/-- the keys of the per-update state are exactly the configured modes: unique when the modes are -/
theorem update_keys (S : State) (so : Bool) (modes : List Nat) (start : List (Nat × Server)) :
    (update S so modes start).map (·.1) = if so then modes else [] := by
  cases so with
  | false => simp [update]
  | true =>
    simp only [update, if_true, List.map_map]
    conv => rhs; rw [← List.map_id modes]
    apply List.map_congr_left
    intro k _
    simp only [Function.comp]
    cases lookupKey S k <;> rfl

end MitmVerif.Lemmas.C23
