/-
  C23 — the canonical text forms of IPv4 / IPv4-mapped addresses are fixed points of the host
  normalisation (`lower()`, `removesuffix(".")`) and are read back by the parser model: the parse
  hypotheses of the spelling-class theorems can be discharged for them.
-/
import MitmVerif.Model.C23
import MitmVerif.Lemmas.C22Render
namespace MitmVerif.Lemmas.C23
open MitmVerif MitmVerif.C22 MitmVerif.C23 MitmVerif.Lemmas.C22

theorem renderOctet_last_digit : ∀ v : Fin 256, (renderOctet v.val).getLast?.map isDigit = some true := by
  decide +kernel

private theorem lower_fix (c : UInt8) (h : isDigit c = true ∨ c = 0x2e ∨ c = 0x3a ∨ c = 0x66) :
    asciiLowerB c = c := by
  rcases h with h | h | h | h
  · simp only [isDigit, Bool.and_eq_true, decide_eq_true_eq] at h
    simp only [asciiLowerB]
    split
    · omega
    · rfl
  · subst h; decide
  · subst h; decide
  · subst h; decide

private theorem octet_chars (v : Nat) (hv : v < 256) : ∀ c ∈ renderOctet v, asciiLowerB c = c :=
  fun c hc => lower_fix c (Or.inl (renderOctet_digits ⟨v, hv⟩ c hc))

theorem lower_dotted (a b c d : Nat) (ha : a < 256) (hb : b < 256) (hc : c < 256) (hd : d < 256) :
    (dotted a b c d).map asciiLowerB = dotted a b c d := by
  have h : ∀ x ∈ dotted a b c d, asciiLowerB x = id x := by
    intro x hx
    simp only [dotted, List.mem_append, List.mem_cons] at hx
    rcases hx with hx | rfl | hx | rfl | hx | rfl | hx
    · exact octet_chars a ha x hx
    · decide
    · exact octet_chars b hb x hx
    · decide
    · exact octet_chars c hc x hx
    · decide
    · exact octet_chars d hd x hx
  rw [List.map_congr_left h, List.map_id]

theorem lower_mapped (a b c d : Nat) (ha : a < 256) (hb : b < 256) (hc : c < 256) (hd : d < 256) :
    (mappedText a b c d).map asciiLowerB = mappedText a b c d := by
  simp only [mappedText, List.map_append, lower_dotted a b c d ha hb hc hd]
  rfl

private theorem last_not_dot (x : Text) (d : Nat) (hd : d < 256) :
    (x ++ renderOctet d).getLast? ≠ some 0x2e := by
  rw [List.getLast?_append]
  have h := renderOctet_last_digit ⟨d, hd⟩
  cases hl : (renderOctet d).getLast? with
  | none => simp [hl] at h
  | some y =>
    simp only [hl, Option.map_some, Option.some.injEq] at h
    intro e
    have hy : y = 0x2e := by simpa [Option.or] using e
    subst hy
    revert h; decide

/-- `a.b.c.d` is a fixed point of `lower().removesuffix(".")` -/
theorem normHost_dotted (a b c d : Nat) (ha : a < 256) (hb : b < 256) (hc : c < 256) (hd : d < 256) :
    normHost (dotted a b c d) = dotted a b c d := by
  simp only [normHost, lower_dotted a b c d ha hb hc hd, dropTrailingDot]
  have : dotted a b c d = (renderOctet a ++ 0x2e :: (renderOctet b ++ 0x2e :: (renderOctet c ++ [0x2e]))) ++ renderOctet d := by
    simp [dotted]
  have hl := last_not_dot (renderOctet a ++ 0x2e :: (renderOctet b ++ 0x2e :: (renderOctet c ++ [0x2e]))) d hd
  rw [← this] at hl
  simp [hl]

/-- `::ffff:a.b.c.d` is a fixed point of `lower().removesuffix(".")` -/
theorem normHost_mapped (a b c d : Nat) (ha : a < 256) (hb : b < 256) (hc : c < 256) (hd : d < 256) :
    normHost (mappedText a b c d) = mappedText a b c d := by
  simp only [normHost, lower_mapped a b c d ha hb hc hd, dropTrailingDot]
  have : mappedText a b c d = ([0x3a, 0x3a, 0x66, 0x66, 0x66, 0x66, 0x3a] ++
      (renderOctet a ++ 0x2e :: (renderOctet b ++ 0x2e :: (renderOctet c ++ [0x2e])))) ++ renderOctet d := by
    simp [mappedText, dotted]
  have hl := last_not_dot ([0x3a, 0x3a, 0x66, 0x66, 0x66, 0x66, 0x3a] ++
      (renderOctet a ++ 0x2e :: (renderOctet b ++ 0x2e :: (renderOctet c ++ [0x2e])))) d hd
  rw [← this] at hl
  simp [hl]

end MitmVerif.Lemmas.C23
