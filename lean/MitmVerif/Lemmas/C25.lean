/-
  Lemmas about the C25 codec model that the C25 and C26 theorems share.
-/
import MitmVerif.Model.C25
set_option linter.unusedVariables false
set_option linter.unusedSimpArgs false
namespace MitmVerif.C25

/-! ### split / join -/

theorem splitDot_cons_dot (rest : Text) : splitDot (46 :: rest) = [] :: splitDot rest := by
  rw [splitDot]; simp

theorem splitDot_cons_ne (c : UInt8) (rest : Text) (hc : c ≠ 46) :
    splitDot (c :: rest) = consHead c (splitDot rest) := by
  rw [splitDot]; simp [hc]

theorem joinDot_single (a : Text) : joinDot [a] = a := rfl

theorem splitDot_ne_nil (t : Text) : splitDot t ≠ [] := by
  induction t with
  | nil => simp [splitDot]
  | cons c rest ih =>
    by_cases hc : c = 46
    · subst hc; rw [splitDot_cons_dot]; simp
    · rw [splitDot_cons_ne _ _ hc]
      cases splitDot rest <;> simp [consHead]

theorem splitDot_nodot (t : Text) (h : ¬ (46 : UInt8) ∈ t) : splitDot t = [t] := by
  induction t with
  | nil => simp [splitDot]
  | cons c rest ih =>
    have hc : c ≠ 46 := by intro hc; apply h; simp [hc]
    have hr : ¬ (46 : UInt8) ∈ rest := by intro hr; apply h; simp [hr]
    rw [splitDot_cons_ne _ _ hc, ih hr]; rfl

theorem splitDot_parts_nodot (t : Text) : ∀ p ∈ splitDot t, ¬ (46 : UInt8) ∈ p := by
  induction t with
  | nil => simp [splitDot]
  | cons c rest ih =>
    by_cases hc : c = 46
    · subst hc; rw [splitDot_cons_dot]
      intro p hp
      rcases List.mem_cons.mp hp with rfl | hp
      · simp
      · exact ih p hp
    · rw [splitDot_cons_ne _ _ hc]
      cases hs : splitDot rest with
      | nil => exact absurd hs (splitDot_ne_nil rest)
      | cons h t =>
        intro p hp
        rw [hs] at ih
        simp only [consHead] at hp
        rcases List.mem_cons.mp hp with rfl | hp
        · intro hm
          rcases List.mem_cons.mp hm with h1 | h1
          · exact hc h1.symm
          · exact ih h (by simp) h1
        · exact ih p (by simp [hp])

theorem joinDot_cons_cons (a b : Text) (rest : List Text) :
    joinDot (a :: b :: rest) = a ++ 46 :: joinDot (b :: rest) := rfl

theorem splitDot_append_dot (a : Text) (rest : Text) (ha : ¬ (46 : UInt8) ∈ a) :
    splitDot (a ++ 46 :: rest) = a :: splitDot rest := by
  induction a with
  | nil => simp [splitDot]
  | cons c a ih =>
    have hc : c ≠ 46 := by intro hc; apply ha; simp [hc]
    have hr : ¬ (46 : UInt8) ∈ a := by intro hr; apply ha; simp [hr]
    simp only [List.cons_append]
    rw [splitDot_cons_ne _ _ hc, ih hr]; rfl

theorem splitDot_joinDot (ps : List Text) (hne : ps ≠ []) (hd : ∀ p ∈ ps, ¬ (46 : UInt8) ∈ p) :
    splitDot (joinDot ps) = ps := by
  induction ps with
  | nil => exact absurd rfl hne
  | cons a rest ih =>
    cases rest with
    | nil => simpa [joinDot] using splitDot_nodot a (hd a (by simp))
    | cons b rest =>
      rw [joinDot_cons_cons, splitDot_append_dot _ _ (hd a (by simp))]
      rw [ih (by simp) (fun p hp => hd p (by simp [hp]))]

theorem joinDot_splitDot (t : Text) : joinDot (splitDot t) = t := by
  induction t with
  | nil => simp [splitDot, joinDot]
  | cons c rest ih =>
    by_cases hc : c = 46
    · subst hc; rw [splitDot_cons_dot]
      cases hs : splitDot rest with
      | nil => exact absurd hs (splitDot_ne_nil rest)
      | cons h t => rw [joinDot_cons_cons, ← hs, ih]; simp
    · rw [splitDot_cons_ne _ _ hc]
      cases hs : splitDot rest with
      | nil => exact absurd hs (splitDot_ne_nil rest)
      | cons h t =>
        rw [hs] at ih
        simp only [consHead]
        cases t with
        | nil => simp [joinDot_single] at ih ⊢; exact ih
        | cons b t => rw [joinDot_cons_cons] at ih ⊢; simp [ih]

/-- joining with a non-empty joined tail is joining the concatenation -/
theorem joinDot_append_join (as bs : List Text) (hb : bs ≠ []) :
    joinDot (as ++ [joinDot bs]) = joinDot (as ++ bs) := by
  induction as with
  | nil => simp [joinDot]
  | cons a as ih =>
    cases as with
    | nil =>
      cases bs with
      | nil => exact absurd rfl hb
      | cons b bs => simp [joinDot_cons_cons, joinDot_single]
    | cons a2 as =>
      simp only [List.cons_append] at ih ⊢
      rw [joinDot_cons_cons, joinDot_cons_cons, ih]

/-! ### unfolding the well-founded definitions once -/

theorem scanRaw_nil : scanRaw [] = none := by rw [scanRaw.eq_def]

theorem scanRaw_cons (sz : UInt8) (rest : Bytes) : scanRaw (sz :: rest) =
    if 192 ≤ sz.toNat then
      match rest with
      | [] => none
      | lo :: _ => some ([], 2, some ((sz.toNat - 192) * 256 + lo.toNat))
    else if 64 ≤ sz.toNat then none
    else if sz.toNat = 0 then some ([], 1, none)
    else if rest.length < sz.toNat then none
    else
      match scanRaw (rest.drop sz.toNat) with
      | none => none
      | some (ls, n, p) => some (rest.take sz.toNat :: ls, 1 + sz.toNat + n, p) := by
  rw [scanRaw.eq_def]; rfl

theorem unpackName_hit {I : Idna} {buf : Bytes} {off : Nat} {cache : Cache} {depth : Nat} {r}
    (h : cache.lookup off = some (some r)) : unpackName I buf off cache depth = some (r, cache) := by
  rw [unpackName]; split <;> simp_all

theorem unpackName_loop {I : Idna} {buf : Bytes} {off : Nat} {cache : Cache} {depth : Nat}
    (h : cache.lookup off = some none) : unpackName I buf off cache depth = none := by
  rw [unpackName]; split <;> simp_all

theorem unpackName_fresh {I : Idna} {buf : Bytes} {off : Nat} {cache : Cache} {depth : Nat}
    (h : cache.lookup off = none) : unpackName I buf off cache depth =
    if maxPointerDepth < depth then none
    else
    match scanRaw (buf.drop off) with
    | none => none
    | some (raws, n, ptr) =>
      match mapLabels I raws with
      | none => none
      | some labels =>
        match ptr with
        | none => some ((joinDot labels, n), (off, some (joinDot labels, n)) :: (off, none) :: cache)
        | some t =>
          match unpackName I buf t ((off, none) :: cache) (depth + 1) with
          | none => none
          | some ((label, _), c2) => some ((nameOf labels label, n), (off, some (nameOf labels label, n)) :: c2) := by
  rw [unpackName]
  split
  · simp_all
  · simp_all
  · by_cases hd : maxPointerDepth < depth
    · simp [hd]
    · simp only [hd, if_false]
      split
      · next hs => simp [hs]
      · next raws n ptr hs =>
        simp only [hs]
        split
        · next hm => simp [hm]
        · next labels hm =>
          simp only [hm]
          split
          · rfl
          · rfl

theorem expandName_seen {buf : Bytes} {off : Nat} {seen : List Nat} (h : seen.contains off = true) :
    expandName buf off seen = none := by
  rw [expandName]
  have hm : off ∈ seen := by simpa using h
  simp [hm]

theorem expandName_fresh {buf : Bytes} {off : Nat} {seen : List Nat} (h : seen.contains off = false) :
    expandName buf off seen =
    match scanRaw (buf.drop off) with
    | none => none
    | some (raws, _, none) => some (wire raws ++ [0])
    | some (raws, _, some t) =>
      match expandName buf t (off :: seen) with
      | none => none
      | some e => some (wire raws ++ e) := by
  rw [expandName]
  simp only [h, Bool.false_eq_true, dite_false]
  split
  · next hs => simp [hs]
  · next raws n hs => simp [hs]
  · next raws n t hs => simp only [hs]; rfl

theorem nameField_nil (buf : Bytes) (pos : Nat) : nameField buf [] pos = .stop := by
  rw [nameField.eq_def]

theorem nameField_cons (buf : Bytes) (sz : UInt8) (rest : Bytes) (pos : Nat) : nameField buf (sz :: rest) pos =
    if 192 ≤ sz.toNat then
      if rest = [] then .stop
      else match expandName buf pos [] with
        | none => .fail
        | some e => .done e 2
    else if 64 ≤ sz.toNat ∨ rest.length < sz.toNat then .stop
    else if sz.toNat = 0 then .done [0] 1
    else
      match nameField buf (rest.drop sz.toNat) (pos + 1 + sz.toNat) with
      | .stop => .stop
      | .fail => .fail
      | .done out n => .done (sz :: rest.take sz.toNat ++ out) (1 + sz.toNat + n) := by
  rw [nameField.eq_def]; rfl

theorem plainName_nil : plainName [] = .stop := by rw [plainName.eq_def]

theorem plainName_cons (sz : UInt8) (rest : Bytes) : plainName (sz :: rest) =
    if 192 ≤ sz.toNat then (if rest = [] then .stop else .ptr)
    else if 64 ≤ sz.toNat ∨ rest.length < sz.toNat then .stop
    else if sz.toNat = 0 then .done 1
    else
      match plainName (rest.drop sz.toNat) with
      | .stop => .stop
      | .ptr => .ptr
      | .done n => .done (1 + sz.toNat + n) := by
  rw [plainName.eq_def]; rfl

theorem heur_nil (buf : Bytes) (pos : Nat) : heur buf [] pos = [] := by rw [heur.eq_def]

theorem heur_cons (buf : Bytes) (c : UInt8) (rest : Bytes) (pos : Nat) : heur buf (c :: rest) pos =
    if 192 ≤ c.toNat ∧ rest ≠ [] then
      match expandName buf pos [] with
      | some e => e ++ heur buf (rest.drop 1) (pos + 2)
      | none => c :: heur buf rest (pos + 1)
    else c :: heur buf rest (pos + 1) := by
  rw [heur.eq_def]; rfl

/-! ### labels -/

theorem encText_ascii_nodot (I : Idna) {t : Text} (hne : t ≠ []) (ha : isAscii t = true)
    (hd : ¬ (46 : UInt8) ∈ t) (hl : t.length < 64) : encText I t = some t := by
  unfold encText fastPathOk
  simp [hne, ha, splitDot_nodot t hd, hl]

/-- what a successfully decoded label looks like -/
theorem decLabel_cases {I : Idna} {raw : Bytes} {p : Text} (h : decLabel I raw = some p) :
    ¬ (46 : UInt8) ∈ p ∧ (encText I p = some raw ∨ (p = raw ∧ isAscii raw = true)) := by
  unfold decLabel at h
  split at h
  · cases h
  · next t ht =>
    split at h
    · cases h
    · next e he =>
      by_cases heq : e = raw
      · subst heq
        simp only [if_true] at h
        split at h
        · cases h
        · next hc => cases h; exact ⟨by simpa using hc, Or.inl he⟩
      · simp only [heq, if_false] at h
        by_cases ha : isAscii raw = true
        · simp only [ha, if_true] at h
          split at h
          · cases h
          · next hc => cases h; exact ⟨by simpa using hc, Or.inr ⟨rfl, ha⟩⟩
        · simp [ha] at h

theorem decLabel_encPart {I : Idna} {raw : Bytes} {p : Text} (h : decLabel I raw = some p)
    (hne : raw ≠ []) (hl : raw.length < 64) : encPart I p = some raw := by
  have hlen : raw.length ≠ 0 := by intro h0; exact hne (List.length_eq_zero_iff.mp h0)
  have h0 : ¬ (raw.length = 0 ∨ 64 ≤ raw.length) := by omega
  obtain ⟨hd, hc | ⟨rfl, ha⟩⟩ := decLabel_cases h
  · unfold encPart; rw [hc]; simp only [h0, if_false]
  · unfold encPart; rw [encText_ascii_nodot I hne ha hd hl]; simp only [h0, if_false]

theorem decLabel_ne_nil {I : Idna} {raw : Bytes} {p : Text} (h : decLabel I raw = some p)
    (hne : raw ≠ []) : p ≠ [] := by
  obtain ⟨hd, hc | ⟨rfl, ha⟩⟩ := decLabel_cases h
  · intro hp; subst hp
    simp [encText] at hc; exact hne hc
  · exact hne

theorem encPart_ne_nil {I : Idna} {p : Text} {l : Bytes} (h : encPart I p = some l) : p ≠ [] := by
  intro hp; subst hp
  simp [encPart, encText] at h

theorem encPart_len {I : Idna} {p : Text} {l : Bytes} (h : encPart I p = some l) : l ≠ [] ∧ l.length < 64 := by
  unfold encPart at h
  split at h
  · cases h
  · next l' hl =>
    split at h
    · cases h
    · next hc =>
      cases h
      constructor
      · intro hn; subst hn; simp at hc
      · omega

/-! ### scanning -/

theorem toNat_ofNat_lt {n : Nat} (h : n < 256) : (UInt8.ofNat n).toNat = n := by
  simp [UInt8.toNat_ofNat']; omega

theorem wire_cons (l : Bytes) (ls : List Bytes) : wire (l :: ls) = UInt8.ofNat l.length :: l ++ wire ls := by
  simp [wire]

theorem scanRaw_wire (ls : List Bytes) (rest : Bytes) (h : ∀ l ∈ ls, l ≠ [] ∧ l.length < 64) :
    scanRaw (wire ls ++ 0 :: rest) = some (ls, (wire ls).length + 1, none) := by
  induction ls with
  | nil => simp [wire, scanRaw_cons]
  | cons l ls ih =>
    obtain ⟨hne, hl⟩ := h l (by simp)
    have hpos : 0 < l.length := List.length_pos_iff.mpr hne
    have htn : (UInt8.ofNat l.length).toNat = l.length := toNat_ofNat_lt (by omega)
    rw [wire_cons]
    simp only [List.cons_append, List.append_assoc]
    rw [scanRaw_cons, htn]
    have h1 : ¬ 192 ≤ l.length := by omega
    have h2 : ¬ 64 ≤ l.length := by omega
    have h3 : ¬ l.length = 0 := by omega
    have h4 : ¬ (l ++ (wire ls ++ 0 :: rest)).length < l.length := by simp
    simp only [h1, h2, h3, h4, if_false]
    rw [List.drop_left, List.take_left, ih (fun l' hl' => h l' (by simp [hl']))]
    simp; omega

theorem scanRaw_labels_ok : ∀ (k : Nat) (s : Bytes), s.length ≤ k → ∀ ls n p, scanRaw s = some (ls, n, p) →
    ∀ l ∈ ls, l ≠ [] ∧ l.length < 64 := by
  intro k
  induction k with
  | zero =>
    intro s hs ls n p h
    have : s = [] := List.length_eq_zero_iff.mp (by omega)
    subst this; rw [scanRaw_nil] at h; cases h
  | succ k ih =>
    intro s hs ls n p h
    cases s with
    | nil => rw [scanRaw_nil] at h; cases h
    | cons sz rest =>
      rw [scanRaw_cons] at h
      by_cases h1 : 192 ≤ sz.toNat
      · simp only [h1, if_true] at h
        cases rest with
        | nil => cases h
        | cons lo tl => cases h; simp
      · simp only [h1, if_false] at h
        by_cases h2 : 64 ≤ sz.toNat
        · simp [h2] at h
        · simp only [h2, if_false] at h
          by_cases h3 : sz.toNat = 0
          · simp only [h3, if_true] at h; cases h; simp
          · simp only [h3, if_false] at h
            by_cases h4 : rest.length < sz.toNat
            · simp [h4] at h
            · simp only [h4, if_false] at h
              cases hrec : scanRaw (rest.drop sz.toNat) with
              | none => simp [hrec] at h
              | some r =>
                obtain ⟨ls', n', p'⟩ := r
                simp only [hrec] at h
                cases h
                intro l hl
                rcases List.mem_cons.mp hl with rfl | hl
                · have hlen : (List.take sz.toNat rest).length = sz.toNat := by
                    rw [List.length_take]; omega
                  constructor
                  · intro hn
                    rw [hn] at hlen; simp at hlen; omega
                  · omega
                · exact ih (rest.drop sz.toNat) (by simp at hs ⊢; omega) _ _ _ hrec l hl

/-! ### canonical names: pack then unpack -/

/-- a name text that survives pack/unpack: every part encodes to a label that decodes back to it -/
def CanonName (I : Idna) (name : Text) : Prop :=
  name = [] ∨ ∀ p ∈ splitDot name, ∃ l, encPart I p = some l ∧ decLabel I l = some p

def LabelsOk (ls : List Bytes) : Prop := ∀ l ∈ ls, l ≠ [] ∧ l.length < 64

theorem packParts_canon {I : Idna} : ∀ ps : List Text,
    (∀ p ∈ ps, ∃ l, encPart I p = some l ∧ decLabel I l = some p) →
    ∃ ls, packParts I ps = some (wire ls) ∧ mapLabels I ls = some ps ∧ LabelsOk ls := by
  intro ps
  induction ps with
  | nil => intro _; exact ⟨[], by simp [packParts, wire], by simp [mapLabels], by simp [LabelsOk]⟩
  | cons p ps ih =>
    intro h
    obtain ⟨l, hl, hdl⟩ := h p (by simp)
    obtain ⟨ls, h1, h2, h3⟩ := ih (fun q hq => h q (by simp [hq]))
    refine ⟨l :: ls, ?_, ?_, ?_⟩
    · simp [packParts, hl, h1, wire_cons]
    · simp [mapLabels, hdl, h2]
    · intro x hx
      rcases List.mem_cons.mp hx with rfl | hx
      · exact encPart_len hl
      · exact h3 x hx

theorem packName_canon {I : Idna} {name : Text} (h : CanonName I name) :
    ∃ ls ps, packName I name = some (wire ls ++ [0]) ∧ mapLabels I ls = some ps ∧ joinDot ps = name ∧ LabelsOk ls := by
  by_cases hn : name = []
  · subst hn
    exact ⟨[], [], by simp [packName, wire], by simp [mapLabels], by simp [joinDot], by simp [LabelsOk]⟩
  · rcases h with h | h
    · exact absurd h hn
    · obtain ⟨ls, h1, h2, h3⟩ := packParts_canon (splitDot name) h
      exact ⟨ls, splitDot name, by simp [packName, hn, h1], h2, joinDot_splitDot name, h3⟩

theorem unpackName_wire {I : Idna} {buf : Bytes} {off : Nat} {cache : Cache} {depth : Nat}
    {ls : List Bytes} {ps : List Text} {rest : Bytes}
    (hw : buf.drop off = wire ls ++ 0 :: rest) (hm : mapLabels I ls = some ps) (hok : LabelsOk ls)
    (hc : cache.lookup off = none) (hd : depth ≤ maxPointerDepth) :
    unpackName I buf off cache depth =
      some ((joinDot ps, (wire ls).length + 1),
            (off, some (joinDot ps, (wire ls).length + 1)) :: (off, none) :: cache) := by
  rw [unpackName_fresh hc, hw, scanRaw_wire ls rest hok]
  have : ¬ maxPointerDepth < depth := by omega
  simp [this, hm]

/-! ### record data that holds no pointer is left alone -/

theorem heur_inert (buf : Bytes) : ∀ (rd : Bytes) (pos : Nat), heurInert rd = true → heur buf rd pos = rd := by
  intro rd
  induction rd with
  | nil => intro pos _; exact heur_nil buf pos
  | cons c rest ih =>
    intro pos h
    simp only [heurInert, Bool.and_eq_true, Bool.or_eq_true, decide_eq_true_eq, List.isEmpty_iff] at h
    rw [heur_cons]
    have hc : ¬ (192 ≤ c.toNat ∧ rest ≠ []) := by
      rintro ⟨h1, h2⟩
      rcases h.1 with h3 | h3
      · omega
      · exact h2 h3
    simp only [hc, if_false]
    rw [ih (pos + 1) h.2]

theorem uint8_eq_zero {c : UInt8} (h : c.toNat = 0) : c = 0 := by
  apply UInt8.toNat_inj.mp; simpa using h

theorem nameField_plain (buf : Bytes) : ∀ (k : Nat) (rd : Bytes), rd.length ≤ k → ∀ pos,
    (plainName rd = .stop → nameField buf rd pos = .stop) ∧
    (∀ n, plainName rd = .done n → nameField buf rd pos = .done (rd.take n) n ∧ n ≤ rd.length) := by
  intro k
  induction k with
  | zero =>
    intro rd hk pos
    have : rd = [] := List.length_eq_zero_iff.mp (by omega)
    subst this
    simp [plainName_nil, nameField_nil]
  | succ k ih =>
    intro rd hk pos
    cases rd with
    | nil => simp [plainName_nil, nameField_nil]
    | cons sz rest =>
      rw [plainName_cons, nameField_cons]
      by_cases h1 : 192 ≤ sz.toNat
      · simp only [h1, if_true]
        by_cases hr : rest = []
        · simp [hr]
        · simp [hr]
      · simp only [h1, if_false]
        by_cases h2 : 64 ≤ sz.toNat ∨ rest.length < sz.toNat
        · simp [h2]
        · simp only [h2, if_false]
          by_cases h3 : sz.toNat = 0
          · have : sz = 0 := uint8_eq_zero h3
            subst this
            simp
          · simp only [h3, if_false]
            have hlen : (rest.drop sz.toNat).length ≤ k := by simp at hk ⊢; omega
            obtain ⟨ihs, ihd⟩ := ih (rest.drop sz.toNat) hlen (pos + 1 + sz.toNat)
            cases hp : plainName (rest.drop sz.toNat) with
            | stop => simp [ihs hp]
            | ptr => simp
            | done n' =>
              obtain ⟨hf, hn⟩ := ihd n' hp
              simp only [hf]
              refine ⟨by simp, ?_⟩
              intro n hn'
              cases hn'
              refine ⟨?_, ?_⟩
              · have : 1 + sz.toNat + n' = (sz.toNat + n') + 1 := by omega
                rw [this, List.take_succ_cons, List.take_add]; simp
              · simp at hn ⊢; omega

theorem walk_plain (buf : Bytes) : ∀ (L : List Field) (rd : Bytes) (pos : Nat),
    plainWalk L rd = true → walk buf L rd pos = some rd := by
  intro L
  induction L with
  | nil => intro rd pos _; simp [walk]
  | cons f fs ih =>
    intro rd pos h
    cases f with
    | name =>
      simp only [plainWalk] at h
      simp only [walk]
      obtain ⟨hs, hd⟩ := nameField_plain buf rd.length rd (Nat.le_refl _) pos
      cases hp : plainName rd with
      | stop => rw [hp] at h; simp only [hs hp]; rw [heur_inert buf rd pos h]
      | ptr => rw [hp] at h; simp at h
      | done n =>
        rw [hp] at h
        obtain ⟨hf, hn⟩ := hd n hp
        simp only [hf, ih (rd.drop n) (pos + n) h]
        simp
    | fixed k =>
      simp only [plainWalk] at h
      simp only [walk]
      by_cases hk : rd.length < k
      · simp only [hk, if_true] at h ⊢; rw [heur_inert buf rd pos h]
      · simp only [hk, if_false] at h ⊢
        rw [ih (rd.drop k) (pos + k) h]; simp
    | cstr =>
      cases rd with
      | nil => simp [walk, heur_nil]
      | cons c rest =>
        simp only [plainWalk] at h
        simp only [walk]
        by_cases hk : (c :: rest).length < 1 + c.toNat
        · simp only [hk, if_true] at h ⊢; rw [heur_inert buf _ pos h]
        · simp only [hk, if_false] at h ⊢
          rw [ih _ _ h]; simp

theorem rrData_plain {buf : Bytes} {off ty : Nat} {data : Bytes} (hp : rdataPlain ty data = true)
    (hl : data.length ≤ 65535) (hd : (buf.drop off).take data.length = data) :
    rrData buf off data.length ty = some data := by
  unfold rrData
  unfold rdataPlain at hp
  rw [hd]
  cases hL : layoutOf ty with
  | none => rfl
  | some L =>
    rw [hL] at hp
    simp only [walk_plain buf L data off hp]
    have : ¬ 65535 < data.length := by omega
    simp [this]

/-! ### integers and buffer positions -/

theorem drop_of_drop_append {buf : Bytes} {off : Nat} {a b : Bytes} (h : buf.drop off = a ++ b) :
    buf.drop (off + a.length) = b := by
  have : buf.drop (off + a.length) = (buf.drop off).drop a.length := by rw [List.drop_drop]
  rw [this, h, List.drop_left]

theorem length_of_drop_append {buf : Bytes} {off : Nat} {a b : Bytes} (h : buf.drop off = a ++ b) (ha : a ≠ []) :
    off + a.length + b.length = buf.length := by
  have h1 := congrArg List.length h
  have h2 : 0 < a.length := List.length_pos_iff.mpr ha
  simp [List.length_drop] at h1; omega

theorem putU16_some {n : Nat} {b : Bytes} (h : putU16 n = some b) :
    n < 65536 ∧ b = [UInt8.ofNat (n / 256), UInt8.ofNat (n % 256)] := by
  unfold putU16 at h
  split at h
  · cases h; exact ⟨by assumption, rfl⟩
  · cases h

theorem putU32_some {n : Nat} {b : Bytes} (h : putU32 n = some b) :
    n < 4294967296 ∧ b = [UInt8.ofNat (n / 16777216), UInt8.ofNat (n / 65536 % 256), UInt8.ofNat (n / 256 % 256), UInt8.ofNat (n % 256)] := by
  unfold putU32 at h
  split at h
  · cases h; exact ⟨by assumption, rfl⟩
  · cases h

theorem getU16_put {buf : Bytes} {off n : Nat} {b rest : Bytes} (hp : putU16 n = some b)
    (h : buf.drop off = b ++ rest) : getU16 buf off = some n := by
  obtain ⟨hn, rfl⟩ := putU16_some hp
  unfold getU16; rw [h]
  simp only [List.cons_append, List.nil_append]
  rw [toNat_ofNat_lt (by omega : n / 256 < 256), toNat_ofNat_lt (by omega : n % 256 < 256)]
  congr 1; omega

theorem getU32_put {buf : Bytes} {off n : Nat} {b rest : Bytes} (hp : putU32 n = some b)
    (h : buf.drop off = b ++ rest) : getU32 buf off = some n := by
  obtain ⟨hn, rfl⟩ := putU32_some hp
  unfold getU32; rw [h]
  simp only [List.cons_append, List.nil_append]
  rw [toNat_ofNat_lt (by omega : n / 16777216 < 256), toNat_ofNat_lt (by omega : n / 65536 % 256 < 256),
      toNat_ofNat_lt (by omega : n / 256 % 256 < 256), toNat_ofNat_lt (by omega : n % 256 < 256)]
  congr 1; omega

theorem getU16_lt {buf : Bytes} {off n : Nat} (h : getU16 buf off = some n) : n < 65536 := by
  unfold getU16 at h
  split at h
  · next a b _ _ =>
    cases h
    have := UInt8.toNat_lt a; have := UInt8.toNat_lt b; omega
  · cases h

theorem getU32_lt {buf : Bytes} {off n : Nat} (h : getU32 buf off = some n) : n < 4294967296 := by
  unfold getU32 at h
  split at h
  · next a b c d _ _ =>
    cases h
    have := UInt8.toNat_lt a; have := UInt8.toNat_lt b; have := UInt8.toNat_lt c; have := UInt8.toNat_lt d; omega
  · cases h

/-! ### cache keys stay below the read position while a pointer-free message is read -/

def KeysBelow (c : Cache) (off : Nat) : Prop := ∀ k ∈ keys c, k < off

theorem lookup_none_of_keysBelow {c : Cache} {off : Nat} (h : KeysBelow c off) : c.lookup off = none := by
  induction c with
  | nil => rfl
  | cons e c ih =>
    obtain ⟨a, v⟩ := e
    have ha : a < off := h a (by simp [keys])
    have hne : (off == a) = false := by simp; omega
    simp only [List.lookup, hne]
    exact ih (fun k hk => h k (by simp [keys] at hk ⊢; exact Or.inr hk))

theorem KeysBelow.mono {c : Cache} {a b : Nat} (h : KeysBelow c a) (hab : a ≤ b) : KeysBelow c b :=
  fun k hk => Nat.lt_of_lt_of_le (h k hk) hab

end MitmVerif.C25
