/-
  Lemmas about the C25 codec model that the C25 and C26 theorems share.
-/
import MitmVerif.Model.C25
set_option linter.unusedVariables false
set_option linter.unusedSimpArgs false
namespace MitmVerif.C25

/-! ### split / join -/

theorem splitDot_cons_dot (rest : Text) : splitDot (46 :: rest) = [] :: splitDot rest := by
  rw [splitDot]; simp

theorem splitDot_cons_ne (c : UInt8) (rest : Text) (hc : c ≠ 46) :
    splitDot (c :: rest) = consHead c (splitDot rest) := by
  rw [splitDot]; simp [hc]

theorem joinDot_single (a : Text) : joinDot [a] = a := rfl

theorem splitDot_ne_nil (t : Text) : splitDot t ≠ [] := by
  induction t with
  | nil => simp [splitDot]
  | cons c rest ih =>
    by_cases hc : c = 46
    · subst hc; rw [splitDot_cons_dot]; simp
    · rw [splitDot_cons_ne _ _ hc]
      cases splitDot rest <;> simp [consHead]

theorem splitDot_nodot (t : Text) (h : ¬ (46 : UInt8) ∈ t) : splitDot t = [t] := by
  induction t with
  | nil => simp [splitDot]
  | cons c rest ih =>
    have hc : c ≠ 46 := by intro hc; apply h; simp [hc]
    have hr : ¬ (46 : UInt8) ∈ rest := by intro hr; apply h; simp [hr]
    rw [splitDot_cons_ne _ _ hc, ih hr]; rfl

theorem splitDot_parts_nodot (t : Text) : ∀ p ∈ splitDot t, ¬ (46 : UInt8) ∈ p := by
  induction t with
  | nil => simp [splitDot]
  | cons c rest ih =>
    by_cases hc : c = 46
    · subst hc; rw [splitDot_cons_dot]
      intro p hp
      rcases List.mem_cons.mp hp with rfl | hp
      · simp
      · exact ih p hp
    · rw [splitDot_cons_ne _ _ hc]
      cases hs : splitDot rest with
      | nil => exact absurd hs (splitDot_ne_nil rest)
      | cons h t =>
        intro p hp
        rw [hs] at ih
        simp only [consHead] at hp
        rcases List.mem_cons.mp hp with rfl | hp
        · intro hm
          rcases List.mem_cons.mp hm with h1 | h1
          · exact hc h1.symm
          · exact ih h (by simp) h1
        · exact ih p (by simp [hp])

theorem joinDot_cons_cons (a b : Text) (rest : List Text) :
    joinDot (a :: b :: rest) = a ++ 46 :: joinDot (b :: rest) := rfl

theorem splitDot_append_dot (a : Text) (rest : Text) (ha : ¬ (46 : UInt8) ∈ a) :
    splitDot (a ++ 46 :: rest) = a :: splitDot rest := by
  induction a with
  | nil => simp [splitDot]
  | cons c a ih =>
    have hc : c ≠ 46 := by intro hc; apply ha; simp [hc]
    have hr : ¬ (46 : UInt8) ∈ a := by intro hr; apply ha; simp [hr]
    simp only [List.cons_append]
    rw [splitDot_cons_ne _ _ hc, ih hr]; rfl

theorem splitDot_joinDot (ps : List Text) (hne : ps ≠ []) (hd : ∀ p ∈ ps, ¬ (46 : UInt8) ∈ p) :
    splitDot (joinDot ps) = ps := by
  induction ps with
  | nil => exact absurd rfl hne
  | cons a rest ih =>
    cases rest with
    | nil => simpa [joinDot] using splitDot_nodot a (hd a (by simp))
    | cons b rest =>
      rw [joinDot_cons_cons, splitDot_append_dot _ _ (hd a (by simp))]
      rw [ih (by simp) (fun p hp => hd p (by simp [hp]))]

theorem joinDot_splitDot (t : Text) : joinDot (splitDot t) = t := by
  induction t with
  | nil => simp [splitDot, joinDot]
  | cons c rest ih =>
    by_cases hc : c = 46
    · subst hc; rw [splitDot_cons_dot]
      cases hs : splitDot rest with
      | nil => exact absurd hs (splitDot_ne_nil rest)
      | cons h t => rw [joinDot_cons_cons, ← hs, ih]; simp
    · rw [splitDot_cons_ne _ _ hc]
      cases hs : splitDot rest with
      | nil => exact absurd hs (splitDot_ne_nil rest)
      | cons h t =>
        rw [hs] at ih
        simp only [consHead]
        cases t with
        | nil => simp [joinDot_single] at ih ⊢; exact ih
        | cons b t => rw [joinDot_cons_cons] at ih ⊢; simp [ih]

/-- joining with a non-empty joined tail is joining the concatenation -/
theorem joinDot_append_join (as bs : List Text) (hb : bs ≠ []) :
    joinDot (as ++ [joinDot bs]) = joinDot (as ++ bs) := by
  induction as with
  | nil => simp [joinDot]
  | cons a as ih =>
    cases as with
    | nil =>
      cases bs with
      | nil => exact absurd rfl hb
      | cons b bs => simp [joinDot_cons_cons, joinDot_single]
    | cons a2 as =>
      simp only [List.cons_append] at ih ⊢
      rw [joinDot_cons_cons, joinDot_cons_cons, ih]

end MitmVerif.C25
