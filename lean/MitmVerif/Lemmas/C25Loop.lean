/-
  C25: every compression-pointer cycle is rejected — for every byte string, both pointer-chasing loops.
-/
import MitmVerif.Lemmas.C25
set_option linter.unusedVariables false
set_option linter.unusedSimpArgs false
namespace MitmVerif.C25

/-- the labels at `a` end in a compression pointer to `b` -/
def PtrStep (buf : Bytes) (a b : Nat) : Prop := ∃ ls n, scanRaw (buf.drop a) = some (ls, n, some b)

/-- following one or more pointers leads from `a` to `b` -/
inductive Reaches (buf : Bytes) : Nat → Nat → Prop
  | one {a b : Nat} : PtrStep buf a b → Reaches buf a b
  | step {a b c : Nat} : PtrStep buf a b → Reaches buf b c → Reaches buf a c

/-- the pointer chain that starts at `a` ends in a terminated name -/
inductive Term (buf : Bytes) : Nat → Prop
  | stop {a : Nat} {ls : List Bytes} {n : Nat} : scanRaw (buf.drop a) = some (ls, n, none) → Term buf a
  | ptr {a b : Nat} {ls : List Bytes} {n : Nat} : scanRaw (buf.drop a) = some (ls, n, some b) → Term buf b → Term buf a

theorem Reaches.snoc {buf : Bytes} {a b c : Nat} (h : Reaches buf a b) (s : PtrStep buf b c) : Reaches buf a c := by
  induction h with
  | one s1 => exact .step s1 (.one s)
  | step s1 _ ih => exact .step s1 (ih s)

theorem PtrStep.det {buf : Bytes} {a b c : Nat} (h1 : PtrStep buf a b) (h2 : PtrStep buf a c) : b = c := by
  obtain ⟨l1, n1, e1⟩ := h1; obtain ⟨l2, n2, e2⟩ := h2
  rw [e1] at e2; cases e2; rfl

/-- a chain that terminates contains no cycle -/
theorem Term.acyclic {buf : Bytes} {a : Nat} (h : Term buf a) : ¬ Reaches buf a a := by
  induction h with
  | stop hs =>
    intro hr
    cases hr with
    | one s => obtain ⟨l, n, e⟩ := s; rw [hs] at e; cases e
    | step s _ => obtain ⟨l, n, e⟩ := s; rw [hs] at e; cases e
  | @ptr a b ls n hs _ ih =>
    intro hr
    have hab : PtrStep buf a b := ⟨ls, n, hs⟩
    cases hr with
    | one s => have := PtrStep.det hab s; subst this; exact ih (.one s)
    | step s r => have := PtrStep.det hab s; subst this; exact ih (r.snoc hab)

/-- every finished cache entry belongs to a terminating chain -/
def CacheTerm (buf : Bytes) (c : Cache) : Prop := ∀ k r, c.lookup k = some (some r) → Term buf k

theorem CacheTerm.nil (buf : Bytes) : CacheTerm buf [] := by intro k r h; simp at h

theorem CacheTerm.cons_none {buf : Bytes} {c : Cache} (h : CacheTerm buf c) (off : Nat) : CacheTerm buf ((off, none) :: c) := by
  intro k r hk
  simp only [List.lookup] at hk
  by_cases hko : k = off
  · subst hko; simp at hk
  · have : (k == off) = false := by simpa using hko
    simp only [this] at hk; exact h k r hk

theorem CacheTerm.cons_some {buf : Bytes} {c : Cache} (h : CacheTerm buf c) (off : Nat) (r : Text × Nat)
    (ht : Term buf off) : CacheTerm buf ((off, some r) :: c) := by
  intro k r' hk
  simp only [List.lookup] at hk
  by_cases hko : k = off
  · subst hko; exact ht
  · have : (k == off) = false := by simpa using hko
    simp only [this] at hk; exact h k r' hk

/-- whenever the cache-based decoder returns a name, the pointer chain from that offset terminates -/
theorem unpackName_term (I : Idna) (buf : Bytes) : ∀ (μ : Nat) (off : Nat) (cache : Cache) (depth : Nat),
    countFree buf.length (keys cache) ≤ μ → CacheTerm buf cache →
    ∀ r c', unpackName I buf off cache depth = some (r, c') → Term buf off ∧ CacheTerm buf c' := by
  intro μ
  induction μ with
  | zero =>
    intro off cache depth hμ hct r c' h
    cases hl : cache.lookup off with
    | some v =>
      cases v with
      | none => rw [unpackName_loop hl] at h; cases h
      | some r0 => rw [unpackName_hit hl] at h; cases h; exact ⟨hct off r hl, hct⟩
    | none =>
      rw [unpackName_fresh hl] at h
      split at h
      · cases h
      · cases hs : scanRaw (buf.drop off) with
        | none => simp [hs] at h
        | some x =>
          obtain ⟨raws, n0, ptr⟩ := x
          simp only [hs] at h
          cases hm : mapLabels I raws with
          | none => simp [hm] at h
          | some labels =>
            simp only [hm] at h
            cases ptr with
            | none =>
              simp at h
              obtain ⟨rfl, rfl⟩ := h
              have ht : Term buf off := .stop hs
              exact ⟨ht, (hct.cons_none off).cons_some off _ ht⟩
            | some tgt =>
              exfalso
              have h1 : off < buf.length := lt_length_of_drop_ne_nil (scanRaw_some_ne_nil hs)
              have := countFree_lt _ _ _ h1 (lookup_none_keys hl)
              omega
  | succ μ ih =>
    intro off cache depth hμ hct r c' h
    cases hl : cache.lookup off with
    | some v =>
      cases v with
      | none => rw [unpackName_loop hl] at h; cases h
      | some r0 => rw [unpackName_hit hl] at h; cases h; exact ⟨hct off r hl, hct⟩
    | none =>
      rw [unpackName_fresh hl] at h
      split at h
      · cases h
      · cases hs : scanRaw (buf.drop off) with
        | none => simp [hs] at h
        | some x =>
          obtain ⟨raws, n0, ptr⟩ := x
          simp only [hs] at h
          cases hm : mapLabels I raws with
          | none => simp [hm] at h
          | some labels =>
            simp only [hm] at h
            cases ptr with
            | none =>
              simp at h
              obtain ⟨rfl, rfl⟩ := h
              have ht : Term buf off := .stop hs
              exact ⟨ht, (hct.cons_none off).cons_some off _ ht⟩
            | some tgt =>
              simp only at h
              have h1 : off < buf.length := lt_length_of_drop_ne_nil (scanRaw_some_ne_nil hs)
              have hlt := countFree_lt _ _ _ h1 (lookup_none_keys hl)
              cases hrec : unpackName I buf tgt ((off, none) :: cache) (depth + 1) with
              | none => simp [hrec] at h
              | some x =>
                obtain ⟨⟨label, n2⟩, c2⟩ := x
                simp only [hrec] at h
                simp at h
                obtain ⟨rfl, rfl⟩ := h
                obtain ⟨ht2, hc2⟩ := ih tgt ((off, none) :: cache) (depth + 1)
                  (by simp only [keys, List.map_cons] at hlt hμ ⊢; omega) (hct.cons_none off) _ c2 hrec
                have ht : Term buf off := .ptr hs ht2
                exact ⟨ht, hc2.cons_some off _ ht⟩

/-- the same for `_expand_name` -/
theorem expandName_term (buf : Bytes) : ∀ (μ : Nat) (off : Nat) (seen : List Nat), countFree buf.length seen ≤ μ →
    ∀ e, expandName buf off seen = some e → Term buf off := by
  intro μ
  induction μ with
  | zero =>
    intro off seen hμ e h
    cases hc : seen.contains off with
    | true => rw [expandName_seen hc] at h; cases h
    | false =>
      rw [expandName_fresh hc] at h
      cases hs : scanRaw (buf.drop off) with
      | none => simp [hs] at h
      | some x =>
        obtain ⟨raws, n0, ptr⟩ := x
        cases ptr with
        | none => exact .stop hs
        | some t =>
          exfalso
          have h1 : off < buf.length := lt_length_of_drop_ne_nil (scanRaw_some_ne_nil hs)
          have := countFree_lt _ _ _ h1 hc
          omega
  | succ μ ih =>
    intro off seen hμ e h
    cases hc : seen.contains off with
    | true => rw [expandName_seen hc] at h; cases h
    | false =>
      rw [expandName_fresh hc] at h
      cases hs : scanRaw (buf.drop off) with
      | none => simp [hs] at h
      | some x =>
        obtain ⟨raws, n0, ptr⟩ := x
        cases ptr with
        | none => exact .stop hs
        | some t =>
          simp only [hs] at h
          have h1 : off < buf.length := lt_length_of_drop_ne_nil (scanRaw_some_ne_nil hs)
          have hlt := countFree_lt _ _ _ h1 hc
          cases hrec : expandName buf t (off :: seen) with
          | none => simp [hrec] at h
          | some e2 => exact .ptr hs (ih t (off :: seen) (by omega) e2 hrec)

end MitmVerif.C25
