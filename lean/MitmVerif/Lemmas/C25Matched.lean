/-
  C25: record data that matched the layout of its type comes out of `expand_record_data` in plain (pointer-free) form,
  so a message all of whose records matched re-encodes stably.
-/
import MitmVerif.Lemmas.C25Msg
set_option linter.unusedVariables false
set_option linter.unusedSimpArgs false
namespace MitmVerif.C25

theorem wire_append' (a b : List Bytes) : wire (a ++ b) = wire a ++ wire b := by
  simp [wire, List.flatMap_append]

/-- what `_expand_name` returns is an uncompressed name -/
theorem expandName_wire (buf : Bytes) : ∀ (μ : Nat) (off : Nat) (seen : List Nat), countFree buf.length seen ≤ μ →
    ∀ e, expandName buf off seen = some e → ∃ ls, LabelsOk ls ∧ e = wire ls ++ [0] := by
  intro μ
  induction μ with
  | zero =>
    intro off seen hμ e h
    cases hc : seen.contains off with
    | true => rw [expandName_seen hc] at h; cases h
    | false =>
      rw [expandName_fresh hc] at h
      cases hs : scanRaw (buf.drop off) with
      | none => simp [hs] at h
      | some x =>
        obtain ⟨raws, n0, ptr⟩ := x
        have hok := scanRaw_labels_ok _ _ (Nat.le_refl _) _ _ _ hs
        cases ptr with
        | none => simp [hs] at h; exact ⟨raws, hok, h.symm⟩
        | some t =>
          exfalso
          have h1 : off < buf.length := lt_length_of_drop_ne_nil (scanRaw_some_ne_nil hs)
          have := countFree_lt _ _ _ h1 hc
          omega
  | succ μ ih =>
    intro off seen hμ e h
    cases hc : seen.contains off with
    | true => rw [expandName_seen hc] at h; cases h
    | false =>
      rw [expandName_fresh hc] at h
      cases hs : scanRaw (buf.drop off) with
      | none => simp [hs] at h
      | some x =>
        obtain ⟨raws, n0, ptr⟩ := x
        have hok := scanRaw_labels_ok _ _ (Nat.le_refl _) _ _ _ hs
        cases ptr with
        | none => simp [hs] at h; exact ⟨raws, hok, h.symm⟩
        | some t =>
          simp only [hs] at h
          have h1 : off < buf.length := lt_length_of_drop_ne_nil (scanRaw_some_ne_nil hs)
          have hlt := countFree_lt _ _ _ h1 hc
          cases hrec : expandName buf t (off :: seen) with
          | none => simp [hrec] at h
          | some e2 =>
            simp [hrec] at h
            obtain ⟨ls2, hok2, rfl⟩ := ih t (off :: seen) (by omega) e2 hrec
            refine ⟨raws ++ ls2, ?_, ?_⟩
            · intro l hl
              rcases List.mem_append.mp hl with hl | hl
              · exact hok l hl
              · exact hok2 l hl
            · rw [← h, wire_append']; simp

/-- what `_expand_name_field` returns is an uncompressed name, and it consumed bytes of the record data -/
theorem nameField_done_wire (buf : Bytes) : ∀ (k : Nat) (rd : Bytes), rd.length ≤ k → ∀ (pos : Nat) (e : Bytes) (n : Nat),
    nameField buf rd pos = .done e n → ∃ ls, LabelsOk ls ∧ e = wire ls ++ [0] := by
  intro k
  induction k with
  | zero =>
    intro rd hk pos e n h
    have : rd = [] := List.length_eq_zero_iff.mp (by omega)
    subst this; rw [nameField_nil] at h; cases h
  | succ k ih =>
    intro rd hk pos e n h
    cases rd with
    | nil => rw [nameField_nil] at h; cases h
    | cons sz rest =>
      rw [nameField_cons] at h
      by_cases h1 : 192 ≤ sz.toNat
      · simp only [h1, if_true] at h
        by_cases hr : rest = []
        · simp [hr] at h
        · simp only [hr, if_false] at h
          cases he : expandName buf pos [] with
          | none => simp [he] at h
          | some e2 =>
            simp [he] at h
            obtain ⟨rfl, _⟩ := h
            exact expandName_wire buf _ pos [] (Nat.le_refl _) e2 he
      · simp only [h1, if_false] at h
        by_cases h2 : 64 ≤ sz.toNat ∨ rest.length < sz.toNat
        · simp [h2] at h
        · simp only [h2, if_false] at h
          by_cases h3 : sz.toNat = 0
          · simp only [h3, if_true] at h
            simp at h
            exact ⟨[], by simp [LabelsOk], by simp [wire, h.1.symm]⟩
          · simp only [h3, if_false] at h
            cases hrec : nameField buf (rest.drop sz.toNat) (pos + 1 + sz.toNat) with
            | stop => simp [hrec] at h
            | fail => simp [hrec] at h
            | done out n' =>
              simp [hrec] at h
              obtain ⟨rfl, _⟩ := h
              obtain ⟨ls', hok', rfl⟩ := ih (rest.drop sz.toNat) (by simp at hk ⊢; omega) _ out n' hrec
              have hlen : (rest.take sz.toNat).length = sz.toNat := by rw [List.length_take]; omega
              refine ⟨rest.take sz.toNat :: ls', ?_, ?_⟩
              · intro l hl
                rcases List.mem_cons.mp hl with rfl | hl
                · exact ⟨by intro hn; rw [hn] at hlen; simp at hlen; omega, by omega⟩
                · exact hok' l hl
              · rw [wire_cons, hlen]; simp

theorem plainName_wire_c25 (ls : List Bytes) (rest : Bytes) (hok : LabelsOk ls) :
    plainName (wire ls ++ 0 :: rest) = .done ((wire ls).length + 1) := by
  induction ls with
  | nil => simp [wire, plainName_cons]
  | cons l ls ih =>
    obtain ⟨hne, hl⟩ := hok l (by simp)
    have hpos : 0 < l.length := List.length_pos_iff.mpr hne
    have htn : (UInt8.ofNat l.length).toNat = l.length := toNat_ofNat_lt (by omega)
    rw [wire_cons]
    simp only [List.cons_append, List.append_assoc]
    rw [plainName_cons, htn]
    have h1 : ¬ 192 ≤ l.length := by omega
    have h2 : ¬ (64 ≤ l.length ∨ (l ++ (wire ls ++ 0 :: rest)).length < l.length) := by simp; omega
    have h3 : ¬ l.length = 0 := by omega
    simp only [h1, h2, h3, if_false]
    rw [List.drop_left, ih (fun x hx => hok x (by simp [hx]))]
    simp; omega

theorem drop_append_len {α} {a b : List α} {k : Nat} (h : a.length = k) : (a ++ b).drop k = b := by
  subst h; exact List.drop_left

/-- record data that matched its layout comes out in plain form -/
theorem walk_matched_plain (buf : Bytes) : ∀ (L : List Field) (rd : Bytes) (pos : Nat) (d : Bytes),
    layoutMatches buf L rd pos = true → walk buf L rd pos = some d → plainWalk L d = true := by
  intro L
  induction L with
  | nil => intro rd pos d _ _; simp [plainWalk]
  | cons f fs ih =>
    intro rd pos d hm hw
    cases f with
    | name =>
      simp only [layoutMatches] at hm
      simp only [walk] at hw
      cases hf : nameField buf rd pos with
      | stop => simp [hf] at hm
      | fail => simp [hf] at hw
      | done e n =>
        simp only [hf] at hm hw
        cases hrest : walk buf fs (rd.drop n) (pos + n) with
        | none => simp [hrest] at hw
        | some d' =>
          simp [hrest] at hw
          subst hw
          obtain ⟨ls, hok, rfl⟩ := nameField_done_wire buf _ rd (Nat.le_refl _) pos e n hf
          simp only [plainWalk]
          have e1 : wire ls ++ [0] ++ d' = wire ls ++ 0 :: d' := by simp
          rw [e1, plainName_wire_c25 ls d' hok]
          simp only
          have hdrop : (wire ls ++ 0 :: d').drop ((wire ls).length + 1) = d' := by
            rw [← e1]; exact drop_append_len (by simp)
          rw [hdrop]
          exact ih _ _ d' hm hrest
    | fixed k =>
      simp only [layoutMatches] at hm
      simp only [walk] at hw
      by_cases hk : rd.length < k
      · simp [hk] at hm
      · simp only [hk, if_false] at hm hw
        cases hrest : walk buf fs (rd.drop k) (pos + k) with
        | none => simp [hrest] at hw
        | some d' =>
          simp [hrest] at hw
          subst hw
          have hcl : (rd.take k).length = k := by rw [List.length_take]; omega
          simp only [plainWalk]
          have hlen : ¬ (rd.take k ++ d').length < k := by simp [hcl]
          simp only [hlen, if_false, drop_append_len hcl]
          exact ih _ _ d' hm hrest
    | cstr =>
      cases rd with
      | nil => simp [layoutMatches] at hm
      | cons c tl =>
        simp only [layoutMatches] at hm
        simp only [walk] at hw
        by_cases hk : (c :: tl).length < 1 + c.toNat
        · exfalso; simp [hk] at hm; simp at hk; omega
        · simp only [hk, if_false] at hm hw
          cases hrest : walk buf fs ((c :: tl).drop (1 + c.toNat)) (pos + (1 + c.toNat)) with
          | none => simp [hrest] at hw
          | some d' =>
            simp [hrest] at hw
            subst hw
            have hchunk : (c :: tl).take (1 + c.toNat) = c :: tl.take c.toNat := by rw [Nat.add_comm]; rfl
            have hcl : (c :: tl.take c.toNat).length = 1 + c.toNat := by
              rw [← hchunk, List.length_take]; omega
            rw [hchunk]
            simp only [List.cons_append, plainWalk]
            have hlen : ¬ (c :: (tl.take c.toNat ++ d')).length < 1 + c.toNat := by
              have : (c :: (tl.take c.toNat ++ d')).length = (c :: tl.take c.toNat).length + d'.length := by simp; omega
              rw [this, hcl]; omega
            simp only [hlen, if_false]
            have : (c :: (tl.take c.toNat ++ d')).drop (1 + c.toNat) = d' := by
              have e : c :: (tl.take c.toNat ++ d') = (c :: tl.take c.toNat) ++ d' := rfl
              rw [e]; exact drop_append_len hcl
            rw [this]
            exact ih _ _ d' hm hrest

theorem rrData_matched_plain {buf : Bytes} {off len ty : Nat} {d : Bytes} (hm : rrMatched buf off len ty = true)
    (h : rrData buf off len ty = some d) : rdataPlain ty d = true := by
  unfold rrMatched at hm
  unfold rrData at h
  unfold rdataPlain
  cases hL : layoutOf ty with
  | none => rfl
  | some L =>
    simp only [hL] at hm h ⊢
    cases hw : walk buf L ((buf.drop off).take len) off with
    | none => simp [hw] at h
    | some d' =>
      simp only [hw] at h
      split at h
      · cases h
      · cases h; exact walk_matched_plain buf L _ off d hm hw

/-- erasing the flag gives `unpackRRs`; a true flag means every record's data is plain -/
theorem unpackRRsT_spec {I : Idna} {buf : Bytes} : ∀ (k off : Nat) (c : Cache) (rs : List RR) (o : Nat) (c' : Cache) (ok : Bool),
    unpackRRsT I buf k off c = some (rs, o, c', ok) →
    unpackRRs I buf k off c = some (rs, o, c') ∧ (ok = true → ∀ r ∈ rs, rdataPlain r.type r.data = true) := by
  intro k
  induction k with
  | zero =>
    intro off c rs o c' ok h
    simp [unpackRRsT] at h; obtain ⟨rfl, rfl, rfl, rfl⟩ := h
    exact ⟨by simp [unpackRRs], by simp⟩
  | succ k ih =>
    intro off c rs o c' ok h
    simp only [unpackRRsT] at h
    cases hu : unpackName I buf off c 0 with
    | none => simp [hu] at h
    | some x =>
      obtain ⟨⟨name, n⟩, c1⟩ := x
      simp only [hu] at h
      cases ht : getU16 buf (off + n) with
      | none => simp [ht] at h
      | some ty =>
        cases hc : getU16 buf (off + n + 2) with
        | none => simp [ht, hc] at h
        | some cl =>
          cases httl : getU32 buf (off + n + 4) with
          | none => simp [ht, hc, httl] at h
          | some ttl =>
            cases hl : getU16 buf (off + n + 8) with
            | none => simp [ht, hc, httl, hl] at h
            | some len =>
              simp only [ht, hc, httl, hl] at h
              by_cases hlen : buf.length < off + n + 10 + len
              · simp [hlen] at h
              · simp only [hlen, if_false] at h
                cases hd : rrData buf (off + n + 10) len ty with
                | none => simp [hd] at h
                | some data =>
                  simp only [hd] at h
                  cases hrec : unpackRRsT I buf k (off + n + 10 + len) c1 with
                  | none => simp [hrec] at h
                  | some y =>
                    obtain ⟨rs2, o2, c2, ok2⟩ := y
                    simp [hrec] at h
                    obtain ⟨rfl, rfl, rfl, rfl⟩ := h
                    obtain ⟨he, hp⟩ := ih _ _ _ _ _ _ hrec
                    refine ⟨by simp [unpackRRs, hu, ht, hc, httl, hl, hlen, hd, he], ?_⟩
                    intro hok r hr
                    simp only [Bool.and_eq_true] at hok
                    rcases List.mem_cons.mp hr with rfl | hr
                    · exact rrData_matched_plain hok.1 hd
                    · exact hp hok.2 r hr

/-- erasing the flag gives `unpack`; a true flag means every record's data is plain -/
theorem unpackT_spec {I : Idna} {b : Bytes} {m : Msg} {ok : Bool} (h : unpackT I b = some (m, ok)) :
    unpack I b = some m ∧ (ok = true → ∀ r ∈ m.answers ++ m.authorities ++ m.additionals, rdataPlain r.type r.data = true) := by
  unfold unpackT at h
  split at h
  · next id flags nq nan nns nar h1 h2 h3 h4 h5 h6 =>
    cases hq : unpackQuestions I b nq 12 [] with
    | none => simp [hq] at h
    | some x1 =>
      obtain ⟨qs, o1, c1⟩ := x1
      simp only [hq] at h
      cases ha : unpackRRsT I b nan o1 c1 with
      | none => simp [ha] at h
      | some x2 =>
        obtain ⟨an, o2, c2, k1⟩ := x2
        simp only [ha] at h
        cases hn : unpackRRsT I b nns o2 c2 with
        | none => simp [hn] at h
        | some x3 =>
          obtain ⟨ns, o3, c3, k2⟩ := x3
          simp only [hn] at h
          cases hr : unpackRRsT I b nar o3 c3 with
          | none => simp [hr] at h
          | some x4 =>
            obtain ⟨ar, o4, c4, k3⟩ := x4
            simp only [hr] at h
            by_cases hlen : o4 = b.length
            · simp only [hlen, if_true] at h
              simp at h
              obtain ⟨rfl, rfl⟩ := h
              obtain ⟨e1, p1⟩ := unpackRRsT_spec _ _ _ _ _ _ _ ha
              obtain ⟨e2, p2⟩ := unpackRRsT_spec _ _ _ _ _ _ _ hn
              obtain ⟨e3, p3⟩ := unpackRRsT_spec _ _ _ _ _ _ _ hr
              refine ⟨by simp [unpack, unpackFrom, h1, h2, h3, h4, h5, h6, hq, e1, e2, e3, hlen], ?_⟩
              intro hok r hr'
              simp only [Bool.and_eq_true] at hok
              simp only at hr'
              rcases List.mem_append.mp hr' with hr' | hr'
              · rcases List.mem_append.mp hr' with hr' | hr'
                · exact p1 hok.1.1 r hr'
                · exact p2 hok.1.2 r hr'
              · exact p3 hok.2 r hr'
            · simp [hlen] at h
  · cases h

end MitmVerif.C25
