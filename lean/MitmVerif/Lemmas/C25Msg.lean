/-
  C25: decoding what `pack` produced (message level), and well-formedness of what `unpack` produces.
-/
import MitmVerif.Lemmas.C25
set_option linter.unusedVariables false
set_option linter.unusedSimpArgs false
namespace MitmVerif.C25

def WFQuestion (I : Idna) (q : Question) : Prop :=
  CanonName I q.name ∧ q.type < 65536 ∧ q.cls < 65536

def WFRR (I : Idna) (r : RR) : Prop :=
  CanonName I r.name ∧ r.type < 65536 ∧ r.cls < 65536 ∧ r.ttl < 4294967296 ∧ r.data.length < 65536 ∧
    rdataPlain r.type r.data = true

/-- a well-formed message: every field in its wire range, IDNA-canonical names, and record data that holds no
    compression pointer where the layout of its type has a domain name (arbitrary bytes otherwise) -/
def WellFormed (I : Idna) (m : Msg) : Prop :=
  m.id < 65536 ∧ m.opCode < 16 ∧ m.reserved < 8 ∧ m.rcode < 16 ∧
  m.questions.length < 65536 ∧ m.answers.length < 65536 ∧ m.authorities.length < 65536 ∧ m.additionals.length < 65536 ∧
  (∀ q ∈ m.questions, WFQuestion I q) ∧
  (∀ r ∈ m.answers, WFRR I r) ∧ (∀ r ∈ m.authorities, WFRR I r) ∧ (∀ r ∈ m.additionals, WFRR I r)

theorem packList_cons_some {α} {f : α → Option Bytes} {x : α} {xs : List α} {w : Bytes}
    (h : packList f (x :: xs) = some w) : ∃ a b, f x = some a ∧ packList f xs = some b ∧ w = a ++ b := by
  simp only [packList] at h
  cases hx : f x with
  | none => simp [hx] at h
  | some a =>
    cases hxs : packList f xs with
    | none => simp [hx, hxs] at h
    | some b => simp [hx, hxs] at h; exact ⟨a, b, rfl, rfl, h.symm⟩

theorem packList_append {α} {f : α → Option Bytes} : ∀ (xs ys : List α) (a b : Bytes),
    packList f xs = some a → packList f ys = some b → packList f (xs ++ ys) = some (a ++ b) := by
  intro xs
  induction xs with
  | nil => intro ys a b ha hb; simp [packList] at ha; subst ha; simpa using hb
  | cons x xs ih =>
    intro ys a b ha hb
    obtain ⟨a1, a2, h1, h2, rfl⟩ := packList_cons_some ha
    simp [packList, h1, ih ys a2 b h2 hb]

theorem packList_append_some {α} {f : α → Option Bytes} : ∀ (xs ys : List α) (w : Bytes),
    packList f (xs ++ ys) = some w → ∃ a b, packList f xs = some a ∧ packList f ys = some b ∧ w = a ++ b := by
  intro xs
  induction xs with
  | nil => intro ys w h; exact ⟨[], w, rfl, by simpa using h, rfl⟩
  | cons x xs ih =>
    intro ys w h
    obtain ⟨a1, r, h1, h2, rfl⟩ := packList_cons_some (by simpa using h)
    obtain ⟨a2, b, h3, h4, rfl⟩ := ih ys r h2
    exact ⟨a1 ++ a2, b, by simp [packList, h1, h3], h4, by simp⟩

theorem packQuestion_some {I : Idna} {q : Question} {w : Bytes} (h : packQuestion I q = some w) :
    ∃ n t c, packName I q.name = some n ∧ putU16 q.type = some t ∧ putU16 q.cls = some c ∧ w = n ++ t ++ c := by
  unfold packQuestion at h
  split at h
  · next n t c h1 h2 h3 => cases h; exact ⟨n, t, c, h1, h2, h3, rfl⟩
  · cases h

theorem packRR_some {I : Idna} {r : RR} {w : Bytes} (h : packRR I r = some w) :
    ∃ n t c l dl, packName I r.name = some n ∧ putU16 r.type = some t ∧ putU16 r.cls = some c ∧ putU32 r.ttl = some l ∧
      putU16 r.data.length = some dl ∧ w = n ++ t ++ c ++ l ++ dl ++ r.data := by
  unfold packRR at h
  split at h
  · next n t c l dl h1 h2 h3 h4 h5 => cases h; exact ⟨n, t, c, l, dl, h1, h2, h3, h4, h5, rfl⟩
  · cases h

theorem putU16_len {n : Nat} {b : Bytes} (h : putU16 n = some b) : b.length = 2 := by
  obtain ⟨_, rfl⟩ := putU16_some h; rfl

theorem putU32_len {n : Nat} {b : Bytes} (h : putU32 n = some b) : b.length = 4 := by
  obtain ⟨_, rfl⟩ := putU32_some h; rfl

/-- reading a name that `packName` wrote, at a position no cache key has reached -/
theorem unpackName_packed {I : Idna} {buf : Bytes} {off : Nat} {cache : Cache} {name : Text} {nb rest : Bytes}
    (hc : CanonName I name) (hp : packName I name = some nb) (hb : buf.drop off = nb ++ rest)
    (hk : KeysBelow cache off) :
    ∃ c', unpackName I buf off cache 0 = some ((name, nb.length), c') ∧ KeysBelow c' (off + nb.length) ∧ 0 < nb.length := by
  obtain ⟨ls, ps, h1, h2, h3, h4⟩ := packName_canon hc
  rw [h1] at hp; cases hp
  have hb' : buf.drop off = wire ls ++ 0 :: rest := by simpa using hb
  have hu := unpackName_wire hb' h2 h4 (lookup_none_of_keysBelow hk) (by simp [maxPointerDepth] : 0 ≤ maxPointerDepth)
  have hlen : (wire ls ++ [0]).length = (wire ls).length + 1 := by simp
  rw [h3, ← hlen] at hu
  refine ⟨_, hu, ?_, by simp⟩
  intro k hk'
  simp only [keys, List.map_cons, List.mem_cons] at hk'
  rcases hk' with rfl | rfl | hk'
  · simp
  · simp
  · have := hk k (by simpa [keys] using hk'); omega

theorem unpackQuestions_packed {I : Idna} {buf : Bytes} : ∀ (qs : List Question) (off : Nat) (cache : Cache) (w rest : Bytes),
    packList (packQuestion I) qs = some w → (∀ q ∈ qs, WFQuestion I q) → buf.drop off = w ++ rest →
    KeysBelow cache off →
    ∃ c', unpackQuestions I buf qs.length off cache = some (qs, off + w.length, c') ∧ KeysBelow c' (off + w.length) := by
  intro qs
  induction qs with
  | nil =>
    intro off cache w rest hp _ _ hk
    simp [packList] at hp; subst hp
    exact ⟨cache, by simp [unpackQuestions], by simpa using hk⟩
  | cons q qs ih =>
    intro off cache w rest hp hwf hb hk
    obtain ⟨wq, ws, hq, hqs, rfl⟩ := packList_cons_some hp
    obtain ⟨nb, tb, cb, hn, ht, hcl, rfl⟩ := packQuestion_some hq
    obtain ⟨hcan, hty, hcls⟩ := hwf q (by simp)
    have hb1 : buf.drop off = nb ++ (tb ++ cb ++ ws ++ rest) := by simpa using hb
    obtain ⟨c1, hu, hk1, hpos⟩ := unpackName_packed hcan hn hb1 hk
    have hb2 : buf.drop (off + nb.length) = tb ++ (cb ++ ws ++ rest) := by
      simpa using drop_of_drop_append hb1
    have hb3 : buf.drop (off + nb.length + 2) = cb ++ (ws ++ rest) := by
      have := drop_of_drop_append hb2; rw [putU16_len ht] at this; simpa using this
    have hb4 : buf.drop (off + nb.length + 4) = ws ++ rest := by
      have := drop_of_drop_append hb3; rw [putU16_len hcl] at this
      simpa [Nat.add_assoc] using this
    obtain ⟨c', hrec, hk'⟩ := ih (off + nb.length + 4) c1 ws rest hqs (fun q' hq' => hwf q' (by simp [hq'])) hb4
      (hk1.mono (by omega))
    refine ⟨c', ?_, ?_⟩
    · simp only [List.length_cons, unpackQuestions, hu, getU16_put ht hb2, getU16_put hcl hb3, hrec]
      simp [putU16_len ht, putU16_len hcl]; omega
    · have : off + (nb ++ tb ++ cb ++ ws).length = off + nb.length + 4 + ws.length := by
        simp [putU16_len ht, putU16_len hcl]; omega
      rw [this]; exact hk'

theorem unpackRRs_packed {I : Idna} {buf : Bytes} : ∀ (rs : List RR) (off : Nat) (cache : Cache) (w rest : Bytes),
    packList (packRR I) rs = some w → (∀ r ∈ rs, WFRR I r) → buf.drop off = w ++ rest →
    KeysBelow cache off →
    ∃ c', unpackRRs I buf rs.length off cache = some (rs, off + w.length, c') ∧ KeysBelow c' (off + w.length) := by
  intro rs
  induction rs with
  | nil =>
    intro off cache w rest hp _ _ hk
    simp [packList] at hp; subst hp
    exact ⟨cache, by simp [unpackRRs], by simpa using hk⟩
  | cons r rs ih =>
    intro off cache w rest hp hwf hb hk
    obtain ⟨wr, ws, hr, hrs, rfl⟩ := packList_cons_some hp
    obtain ⟨nb, tb, cb, lb, dlb, hn, ht, hcl, httl, hdl, rfl⟩ := packRR_some hr
    obtain ⟨hcan, hty, hcls, httlr, hdlen, hplain⟩ := hwf r (by simp)
    have hb1 : buf.drop off = nb ++ (tb ++ cb ++ lb ++ dlb ++ r.data ++ ws ++ rest) := by simpa using hb
    obtain ⟨c1, hu, hk1, hpos⟩ := unpackName_packed hcan hn hb1 hk
    have hb2 : buf.drop (off + nb.length) = tb ++ (cb ++ lb ++ dlb ++ r.data ++ ws ++ rest) := by
      simpa using drop_of_drop_append hb1
    have hb3 : buf.drop (off + nb.length + 2) = cb ++ (lb ++ dlb ++ r.data ++ ws ++ rest) := by
      have := drop_of_drop_append hb2; rw [putU16_len ht] at this; simpa using this
    have hb4 : buf.drop (off + nb.length + 4) = lb ++ (dlb ++ r.data ++ ws ++ rest) := by
      have := drop_of_drop_append hb3; rw [putU16_len hcl] at this
      simpa [Nat.add_assoc] using this
    have hb5 : buf.drop (off + nb.length + 8) = dlb ++ (r.data ++ ws ++ rest) := by
      have := drop_of_drop_append hb4; rw [putU32_len httl] at this
      simpa [Nat.add_assoc] using this
    have hb6 : buf.drop (off + nb.length + 10) = r.data ++ (ws ++ rest) := by
      have := drop_of_drop_append hb5; rw [putU16_len hdl] at this
      simpa [Nat.add_assoc] using this
    have hb7 : buf.drop (off + nb.length + 10 + r.data.length) = ws ++ rest := drop_of_drop_append hb6
    have hlen : ¬ buf.length < off + nb.length + 10 + r.data.length := by
      have hne : dlb ≠ [] := by intro h; have := putU16_len hdl; rw [h] at this; simp at this
      have := length_of_drop_append hb5 hne
      rw [putU16_len hdl] at this; simp at this; omega
    have hdata : rrData buf (off + nb.length + 10) r.data.length r.type = some r.data := by
      apply rrData_plain hplain (by omega)
      rw [hb6, List.take_left]
    obtain ⟨c', hrec, hk'⟩ := ih (off + nb.length + 10 + r.data.length) c1 ws rest hrs
      (fun r' hr' => hwf r' (by simp [hr'])) hb7 (hk1.mono (by omega))
    refine ⟨c', ?_, ?_⟩
    · simp only [List.length_cons, unpackRRs, hu, getU16_put ht hb2, getU16_put hcl hb3, getU32_put httl hb4,
        getU16_put hdl hb5, hlen, if_false, hdata, hrec]
      simp [putU16_len ht, putU16_len hcl, putU32_len httl, putU16_len hdl]; omega
    · have : off + (nb ++ tb ++ cb ++ lb ++ dlb ++ r.data ++ ws).length = off + nb.length + 10 + r.data.length + ws.length := by
        simp [putU16_len ht, putU16_len hcl, putU32_len httl, putU16_len hdl]; omega
      rw [this]; exact hk'

/-! ### what `unpack` produces is well-formed (names canonical, fields in range) -/

def GoodPart (I : Idna) (p : Text) : Prop :=
  ¬ (46 : UInt8) ∈ p ∧ ∃ l, encPart I p = some l ∧ decLabel I l = some p

theorem mapLabels_good {I : Idna} : ∀ (raws : List Bytes) (labels : List Text), mapLabels I raws = some labels →
    LabelsOk raws → ∀ p ∈ labels, GoodPart I p := by
  intro raws
  induction raws with
  | nil => intro labels h _; simp [mapLabels] at h; subst h; simp
  | cons r rs ih =>
    intro labels h hok
    simp only [mapLabels] at h
    cases hd : decLabel I r with
    | none => simp [hd] at h
    | some t =>
      cases hm : mapLabels I rs with
      | none => simp [hd, hm] at h
      | some ts =>
        simp [hd, hm] at h; subst h
        obtain ⟨hne, hl⟩ := hok r (by simp)
        intro p hp
        rcases List.mem_cons.mp hp with rfl | hp
        · exact ⟨(decLabel_cases hd).1, r, decLabel_encPart hd hne hl, hd⟩
        · exact ih ts hm (fun l hl' => hok l (by simp [hl'])) p hp

theorem canon_of_parts {I : Idna} (ps : List Text) (h : ∀ p ∈ ps, GoodPart I p) : CanonName I (joinDot ps) := by
  cases ps with
  | nil => left; rfl
  | cons a rest =>
    right
    rw [splitDot_joinDot (a :: rest) (by simp) (fun p hp => (h p hp).1)]
    exact fun p hp => (h p hp).2

theorem canon_parts {I : Idna} {t : Text} (hc : CanonName I t) (hne : t ≠ []) : ∀ p ∈ splitDot t, GoodPart I p := by
  rcases hc with h | h
  · exact absurd h hne
  · exact fun p hp => ⟨splitDot_parts_nodot t p hp, h p hp⟩

theorem canon_nameOf {I : Idna} (labels : List Text) (label : Text) (h : ∀ p ∈ labels, GoodPart I p)
    (hc : CanonName I label) : CanonName I (nameOf labels label) := by
  unfold nameOf
  by_cases hl : label = []
  · simp only [hl, if_true, List.append_nil]; exact canon_of_parts labels h
  · simp only [hl, if_false]
    have hj : joinDot (labels ++ [label]) = joinDot (labels ++ splitDot label) := by
      conv => lhs; rw [← joinDot_splitDot label]
      exact joinDot_append_join labels (splitDot label) (splitDot_ne_nil label)
    rw [hj]
    apply canon_of_parts
    intro p hp
    rcases List.mem_append.mp hp with hp | hp
    · exact h p hp
    · exact canon_parts hc hl p hp

def CacheCanon (I : Idna) (c : Cache) : Prop := ∀ k t n, c.lookup k = some (some (t, n)) → CanonName I t

theorem CacheCanon.cons_none {I : Idna} {c : Cache} (h : CacheCanon I c) (off : Nat) : CacheCanon I ((off, none) :: c) := by
  intro k t n hk
  simp only [List.lookup] at hk
  by_cases hko : k = off
  · subst hko; simp at hk
  · have : (k == off) = false := by simpa using hko
    simp only [this] at hk; exact h k t n hk

theorem CacheCanon.cons_some {I : Idna} {c : Cache} (h : CacheCanon I c) (off : Nat) {t : Text} (n : Nat)
    (ht : CanonName I t) : CacheCanon I ((off, some (t, n)) :: c) := by
  intro k t' n' hk
  simp only [List.lookup] at hk
  by_cases hko : k = off
  · subst hko; simp at hk; rw [← hk.1]; exact ht
  · have : (k == off) = false := by simpa using hko
    simp only [this] at hk; exact h k t' n' hk

theorem unpackName_canon (I : Idna) (buf : Bytes) : ∀ (μ : Nat) (off : Nat) (cache : Cache) (depth : Nat),
    countFree buf.length (keys cache) ≤ μ → CacheCanon I cache →
    ∀ t n c', unpackName I buf off cache depth = some ((t, n), c') → CanonName I t ∧ CacheCanon I c' := by
  intro μ
  induction μ with
  | zero =>
    intro off cache depth hμ hcc t n c' h
    cases hl : cache.lookup off with
    | some v =>
      cases v with
      | none => rw [unpackName_loop hl] at h; cases h
      | some r => rw [unpackName_hit hl] at h; cases h; exact ⟨hcc off t n hl, hcc⟩
    | none =>
      rw [unpackName_fresh hl] at h
      split at h
      · cases h
      · cases hs : scanRaw (buf.drop off) with
        | none => simp [hs] at h
        | some r =>
          obtain ⟨raws, n0, ptr⟩ := r
          simp only [hs] at h
          cases hm : mapLabels I raws with
          | none => simp [hm] at h
          | some labels =>
            simp only [hm] at h
            have hgood := mapLabels_good raws labels hm (scanRaw_labels_ok _ _ (Nat.le_refl _) _ _ _ hs)
            cases ptr with
            | none =>
              simp at h
              obtain ⟨⟨rfl, rfl⟩, rfl⟩ := h
              have hcn := canon_of_parts labels hgood
              exact ⟨hcn, (hcc.cons_none off).cons_some off _ hcn⟩
            | some tgt =>
              exfalso
              have h1 : off < buf.length := lt_length_of_drop_ne_nil (scanRaw_some_ne_nil hs)
              have := countFree_lt _ _ _ h1 (lookup_none_keys hl)
              omega
  | succ μ ih =>
    intro off cache depth hμ hcc t n c' h
    cases hl : cache.lookup off with
    | some v =>
      cases v with
      | none => rw [unpackName_loop hl] at h; cases h
      | some r => rw [unpackName_hit hl] at h; cases h; exact ⟨hcc off t n hl, hcc⟩
    | none =>
      rw [unpackName_fresh hl] at h
      split at h
      · cases h
      · cases hs : scanRaw (buf.drop off) with
        | none => simp [hs] at h
        | some r =>
          obtain ⟨raws, n0, ptr⟩ := r
          simp only [hs] at h
          cases hm : mapLabels I raws with
          | none => simp [hm] at h
          | some labels =>
            simp only [hm] at h
            have hgood := mapLabels_good raws labels hm (scanRaw_labels_ok _ _ (Nat.le_refl _) _ _ _ hs)
            cases ptr with
            | none =>
              simp at h
              obtain ⟨⟨rfl, rfl⟩, rfl⟩ := h
              have hcn := canon_of_parts labels hgood
              exact ⟨hcn, (hcc.cons_none off).cons_some off _ hcn⟩
            | some tgt =>
              simp only at h
              have h1 : off < buf.length := lt_length_of_drop_ne_nil (scanRaw_some_ne_nil hs)
              have hlt := countFree_lt _ _ _ h1 (lookup_none_keys hl)
              cases hrec : unpackName I buf tgt ((off, none) :: cache) (depth + 1) with
              | none => simp [hrec] at h
              | some r =>
                obtain ⟨⟨label, n2⟩, c2⟩ := r
                simp only [hrec] at h
                simp at h
                obtain ⟨⟨rfl, rfl⟩, rfl⟩ := h
                obtain ⟨hlab, hc2⟩ := ih tgt ((off, none) :: cache) (depth + 1)
                  (by simp only [keys, List.map_cons] at hlt hμ ⊢; omega) (hcc.cons_none off) label n2 c2 hrec
                have hcn := canon_nameOf labels label hgood hlab
                exact ⟨hcn, hc2.cons_some off _ hcn⟩

theorem unpackName_canon' {I : Idna} {buf : Bytes} {off : Nat} {cache : Cache} {depth : Nat} {t : Text} {n : Nat} {c' : Cache}
    (hcc : CacheCanon I cache) (h : unpackName I buf off cache depth = some ((t, n), c')) :
    CanonName I t ∧ CacheCanon I c' :=
  unpackName_canon I buf _ off cache depth (Nat.le_refl _) hcc t n c' h

theorem rrData_len {buf : Bytes} {off len ty : Nat} {d : Bytes} (h : rrData buf off len ty = some d) (hl : len < 65536) :
    d.length < 65536 := by
  unfold rrData at h
  simp only at h
  cases hL : layoutOf ty with
  | none => rw [hL] at h; simp at h; subst h; simp [List.length_take]; omega
  | some L =>
    rw [hL] at h
    simp only at h
    cases hw : walk buf L (List.take len (List.drop off buf)) off with
    | none => simp [hw] at h
    | some d' =>
      simp only [hw] at h
      split at h
      · cases h
      · cases h; omega

/-- the record-independent part of `WFRR` -/
def WFRR0 (I : Idna) (r : RR) : Prop :=
  CanonName I r.name ∧ r.type < 65536 ∧ r.cls < 65536 ∧ r.ttl < 4294967296 ∧ r.data.length < 65536

theorem unpackQuestions_wf {I : Idna} {buf : Bytes} : ∀ (k off : Nat) (cache : Cache) (qs : List Question) (off' : Nat) (c' : Cache),
    CacheCanon I cache → unpackQuestions I buf k off cache = some (qs, off', c') →
    qs.length = k ∧ (∀ q ∈ qs, WFQuestion I q) ∧ CacheCanon I c' := by
  intro k
  induction k with
  | zero => intro off cache qs off' c' hcc h; simp [unpackQuestions] at h; obtain ⟨rfl, _, rfl⟩ := h; simp [hcc]
  | succ k ih =>
    intro off cache qs off' c' hcc h
    simp only [unpackQuestions] at h
    cases hu : unpackName I buf off cache 0 with
    | none => simp [hu] at h
    | some r =>
      obtain ⟨⟨name, n⟩, c1⟩ := r
      simp only [hu] at h
      obtain ⟨hcn, hc1⟩ := unpackName_canon' hcc hu
      cases ht : getU16 buf (off + n) with
      | none => simp [ht] at h
      | some ty =>
        cases hc : getU16 buf (off + n + 2) with
        | none => simp [ht, hc] at h
        | some cl =>
          simp only [ht, hc] at h
          cases hrec : unpackQuestions I buf k (off + n + 4) c1 with
          | none => simp [hrec] at h
          | some r2 =>
            obtain ⟨qs2, o2, c2⟩ := r2
            simp only [hrec] at h
            simp at h
            obtain ⟨rfl, rfl, rfl⟩ := h
            obtain ⟨hlen, hwf, hcc2⟩ := ih _ _ _ _ _ hc1 hrec
            refine ⟨by simp [hlen], ?_, hcc2⟩
            intro q hq
            rcases List.mem_cons.mp hq with rfl | hq
            · exact ⟨hcn, getU16_lt ht, getU16_lt hc⟩
            · exact hwf q hq

theorem unpackRRs_wf {I : Idna} {buf : Bytes} : ∀ (k off : Nat) (cache : Cache) (rs : List RR) (off' : Nat) (c' : Cache),
    CacheCanon I cache → unpackRRs I buf k off cache = some (rs, off', c') →
    rs.length = k ∧ (∀ r ∈ rs, WFRR0 I r) ∧ CacheCanon I c' := by
  intro k
  induction k with
  | zero => intro off cache rs off' c' hcc h; simp [unpackRRs] at h; obtain ⟨rfl, _, rfl⟩ := h; simp [hcc]
  | succ k ih =>
    intro off cache rs off' c' hcc h
    simp only [unpackRRs] at h
    cases hu : unpackName I buf off cache 0 with
    | none => simp [hu] at h
    | some r =>
      obtain ⟨⟨name, n⟩, c1⟩ := r
      simp only [hu] at h
      obtain ⟨hcn, hc1⟩ := unpackName_canon' hcc hu
      cases ht : getU16 buf (off + n) with
      | none => simp [ht] at h
      | some ty =>
        cases hc : getU16 buf (off + n + 2) with
        | none => simp [ht, hc] at h
        | some cl =>
          cases httl : getU32 buf (off + n + 4) with
          | none => simp [ht, hc, httl] at h
          | some ttl =>
            cases hl : getU16 buf (off + n + 8) with
            | none => simp [ht, hc, httl, hl] at h
            | some len =>
              simp only [ht, hc, httl, hl] at h
              split at h
              · cases h
              · cases hd : rrData buf (off + n + 10) len ty with
                | none => simp [hd] at h
                | some data =>
                  simp only [hd] at h
                  cases hrec : unpackRRs I buf k (off + n + 10 + len) c1 with
                  | none => simp [hrec] at h
                  | some r2 =>
                    obtain ⟨rs2, o2, c2⟩ := r2
                    simp only [hrec] at h
                    simp at h
                    obtain ⟨rfl, rfl, rfl⟩ := h
                    obtain ⟨hlen, hwf, hcc2⟩ := ih _ _ _ _ _ hc1 hrec
                    refine ⟨by simp [hlen], ?_, hcc2⟩
                    intro r hr
                    rcases List.mem_cons.mp hr with rfl | hr
                    · exact ⟨hcn, getU16_lt ht, getU16_lt hc, getU32_lt httl, rrData_len hd (getU16_lt hl)⟩
                    · exact hwf r hr

/-- `WellFormed` without the condition on record data -/
def WellFormed0 (I : Idna) (m : Msg) : Prop :=
  m.id < 65536 ∧ m.opCode < 16 ∧ m.reserved < 8 ∧ m.rcode < 16 ∧
  m.questions.length < 65536 ∧ m.answers.length < 65536 ∧ m.authorities.length < 65536 ∧ m.additionals.length < 65536 ∧
  (∀ q ∈ m.questions, WFQuestion I q) ∧
  (∀ r ∈ m.answers, WFRR0 I r) ∧ (∀ r ∈ m.authorities, WFRR0 I r) ∧ (∀ r ∈ m.additionals, WFRR0 I r)

/-- everything `unpack` returns has canonical names and fields in range -/
theorem unpack_wellFormed0 {I : Idna} {b : Bytes} {m : Msg} (h : unpack I b = some m) : WellFormed0 I m := by
  unfold unpack at h
  cases hf : unpackFrom I b with
  | none => simp [hf] at h
  | some r =>
    obtain ⟨n, m'⟩ := r
    simp only [hf] at h
    split at h
    · cases h
      unfold unpackFrom at hf
      split at hf
      · next id flags nq nan nns nar h1 h2 h3 h4 h5 h6 =>
        cases hq : unpackQuestions I b nq 12 [] with
        | none => simp [hq] at hf
        | some r1 =>
          obtain ⟨qs, o1, c1⟩ := r1
          simp only [hq] at hf
          cases ha : unpackRRs I b nan o1 c1 with
          | none => simp [ha] at hf
          | some r2 =>
            obtain ⟨an, o2, c2⟩ := r2
            simp only [ha] at hf
            cases hn : unpackRRs I b nns o2 c2 with
            | none => simp [hn] at hf
            | some r3 =>
              obtain ⟨ns, o3, c3⟩ := r3
              simp only [hn] at hf
              cases hr : unpackRRs I b nar o3 c3 with
              | none => simp [hr] at hf
              | some r4 =>
                obtain ⟨ar, o4, c4⟩ := r4
                simp only [hr] at hf
                simp at hf
                obtain ⟨rfl, rfl⟩ := hf
                have hcc0 : CacheCanon I [] := by intro k t n hk; simp at hk
                obtain ⟨l1, w1, cc1⟩ := unpackQuestions_wf _ _ _ _ _ _ hcc0 hq
                obtain ⟨l2, w2, cc2⟩ := unpackRRs_wf _ _ _ _ _ _ cc1 ha
                obtain ⟨l3, w3, cc3⟩ := unpackRRs_wf _ _ _ _ _ _ cc2 hn
                obtain ⟨l4, w4, cc4⟩ := unpackRRs_wf _ _ _ _ _ _ cc3 hr
                have g1 := getU16_lt h1; have g2 := getU16_lt h2; have g3 := getU16_lt h3
                have g4 := getU16_lt h4; have g5 := getU16_lt h5; have g6 := getU16_lt h6
                exact ⟨g1, by simp; omega, by simp; omega, by simp; omega, by simp; omega, by simp; omega, by simp; omega,
                  by simp; omega, w1, w2, w3, w4⟩
      · cases hf
    · cases h

theorem WellFormed0.plain {I : Idna} {m : Msg} (h : WellFormed0 I m)
    (hp : ∀ r ∈ m.answers ++ m.authorities ++ m.additionals, rdataPlain r.type r.data = true) : WellFormed I m := by
  obtain ⟨a1, a2, a3, a4, a5, a6, a7, a8, a9, w2, w3, w4⟩ := h
  refine ⟨a1, a2, a3, a4, a5, a6, a7, a8, a9, ?_, ?_, ?_⟩
  · intro r hr'
    obtain ⟨b1, b2, b3, b4, b5⟩ := w2 r hr'
    exact ⟨b1, b2, b3, b4, b5, hp r (by simp [hr'])⟩
  · intro r hr'
    obtain ⟨b1, b2, b3, b4, b5⟩ := w3 r hr'
    exact ⟨b1, b2, b3, b4, b5, hp r (by simp [hr'])⟩
  · intro r hr'
    obtain ⟨b1, b2, b3, b4, b5⟩ := w4 r hr'
    exact ⟨b1, b2, b3, b4, b5, hp r (by simp [hr'])⟩

/-- everything `unpack` returns is well-formed, provided its record data is `rdataPlain` -/
theorem unpack_wellFormed {I : Idna} {b : Bytes} {m : Msg} (h : unpack I b = some m)
    (hp : ∀ r ∈ m.answers ++ m.authorities ++ m.additionals, rdataPlain r.type r.data = true) : WellFormed I m :=
  (unpack_wellFormed0 h).plain hp

theorem packList_ok {α} {f : α → Option Bytes} : ∀ xs : List α, (∀ x ∈ xs, ∃ w, f x = some w) →
    ∃ w, packList f xs = some w := by
  intro xs
  induction xs with
  | nil => intro _; exact ⟨[], rfl⟩
  | cons x xs ih =>
    intro h
    obtain ⟨a, ha⟩ := h x (by simp)
    obtain ⟨b, hb⟩ := ih (fun y hy => h y (by simp [hy]))
    exact ⟨a ++ b, by simp [packList, ha, hb]⟩

theorem packQuestion_ok {I : Idna} {q : Question} (h : WFQuestion I q) : ∃ w, packQuestion I q = some w := by
  obtain ⟨hc, ht, hcl⟩ := h
  obtain ⟨ls, ps, hp, _⟩ := packName_canon hc
  simp [packQuestion, hp, putU16, ht, hcl]

theorem packRR_ok {I : Idna} {r : RR} (h : WFRR0 I r) : ∃ w, packRR I r = some w := by
  obtain ⟨hc, ht, hcl, httl, hdl⟩ := h
  obtain ⟨ls, ps, hp, _⟩ := packName_canon hc
  simp [packRR, hp, putU16, putU32, ht, hcl, httl, hdl]

theorem flagsOf_lt (m : Msg) (h1 : m.opCode < 16) (h2 : m.reserved < 8) (h3 : m.rcode < 16) : flagsOf m < 65536 := by
  unfold flagsOf b2n
  cases m.query <;> cases m.aa <;> cases m.tc <;> cases m.rd <;> cases m.ra <;> simp <;> omega

/-- a message with canonical names and fields in range encodes -/
theorem pack_ok {I : Idna} {m : Msg} (h : WellFormed0 I m) : ∃ b, pack I m = some b := by
  obtain ⟨hid, hop, hres, hrc, hnq, hnan, hnns, hnar, hq, han, hns, har⟩ := h
  obtain ⟨qsb, hqs⟩ := packList_ok m.questions (fun q hq' => packQuestion_ok (hq q hq'))
  obtain ⟨rsb, hrs⟩ := packList_ok (m.answers ++ m.authorities ++ m.additionals) (fun r hr => by
    rcases List.mem_append.mp hr with hr | hr
    · rcases List.mem_append.mp hr with hr | hr
      · exact packRR_ok (han r hr)
      · exact packRR_ok (hns r hr)
    · exact packRR_ok (har r hr))
  have hfl := flagsOf_lt m hop hres hrc
  have hguard : ¬ (65535 < m.id ∨ 15 < m.opCode ∨ 7 < m.reserved ∨ 15 < m.rcode) := by omega
  have hrs' := hrs
  simp only [List.append_assoc] at hrs'
  simp [pack, hguard, putU16, hid, hfl, hnq, hnan, hnns, hnar, hqs, hrs']

end MitmVerif.C25
