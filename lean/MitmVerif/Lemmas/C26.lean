/-
  C26: the codec model and the specification decoder DnsRef agree on every message DnsRef reads.
-/
import MitmVerif.Model.C26
import MitmVerif.Lemmas.C25Msg
set_option linter.unusedVariables false
set_option linter.unusedSimpArgs false
namespace MitmVerif.C26
open MitmVerif MitmVerif.C25

/-! ### the specification's name decoder -/

theorem nameF_unfold (fuel : Nat) (buf : Bytes) (off : Nat) : DnsRef.nameF fuel buf off =
    match scanRaw (buf.drop off) with
    | none => none
    | some (ls, n, none) => some (ls, n)
    | some (ls, n, some t) =>
      if t < off then
        match fuel with
        | 0 => none
        | f + 1 =>
          match DnsRef.nameF f buf t with
          | none => none
          | some (ls2, _) => some (ls ++ ls2, n)
      else none := by
  rw [DnsRef.nameF.eq_def]; rfl

/-- the fuel never runs out: pointer targets strictly decrease -/
theorem nameF_fuel (buf : Bytes) : ∀ (off f1 f2 : Nat), off ≤ f1 → off ≤ f2 →
    DnsRef.nameF f1 buf off = DnsRef.nameF f2 buf off := by
  intro off
  induction off using Nat.strongRecOn with
  | _ off ih =>
    intro f1 f2 h1 h2
    rw [nameF_unfold f1, nameF_unfold f2]
    cases hs : scanRaw (buf.drop off) with
    | none => rfl
    | some r =>
      obtain ⟨ls, n, p⟩ := r
      cases p with
      | none => rfl
      | some t =>
        simp only
        by_cases ht : t < off
        · simp only [ht, if_true]
          cases f1 with
          | zero => omega
          | succ g1 =>
            cases f2 with
            | zero => omega
            | succ g2 =>
              simp only
              rw [ih t ht g1 g2 (by omega) (by omega)]
        · simp [ht]

theorem name_unfold (buf : Bytes) (off : Nat) : DnsRef.name buf off =
    match scanRaw (buf.drop off) with
    | none => none
    | some (ls, n, none) => some (ls, n)
    | some (ls, n, some t) =>
      if t < off then
        match DnsRef.name buf t with
        | none => none
        | some (ls2, _) => some (ls ++ ls2, n)
      else none := by
  unfold DnsRef.name
  rw [nameF_unfold]
  cases hs : scanRaw (buf.drop off) with
  | none => rfl
  | some r =>
    obtain ⟨ls, n, p⟩ := r
    cases p with
    | none => rfl
    | some t =>
      simp only
      by_cases ht : t < off
      · simp only [ht, if_true]
        cases off with
        | zero => omega
        | succ k =>
          simp only
          rw [nameF_fuel buf t k t (by omega) (Nat.le_refl _)]
      · simp [ht]

theorem name_labels_ok (buf : Bytes) : ∀ (off : Nat) (ls : List Bytes) (n : Nat),
    DnsRef.name buf off = some (ls, n) → LabelsOk ls := by
  intro off
  induction off using Nat.strongRecOn with
  | _ off ih =>
    intro ls n h
    rw [name_unfold] at h
    cases hs : scanRaw (buf.drop off) with
    | none => simp [hs] at h
    | some r =>
      obtain ⟨raws, n0, p⟩ := r
      have hok := scanRaw_labels_ok _ _ (Nat.le_refl _) _ _ _ hs
      simp only [hs] at h
      cases p with
      | none => simp at h; obtain ⟨rfl, rfl⟩ := h; exact hok
      | some t =>
        simp only at h
        by_cases ht : t < off
        · simp only [ht, if_true] at h
          cases hn : DnsRef.name buf t with
          | none => simp [hn] at h
          | some r2 =>
            obtain ⟨ls2, n2⟩ := r2
            simp [hn] at h
            obtain ⟨rfl, rfl⟩ := h
            intro l hl
            rcases List.mem_append.mp hl with hl | hl
            · exact hok l hl
            · exact ih t ht ls2 n2 hn l hl
        · simp [ht] at h

/-! ### a decoded name text and the labels it stands for -/

/-- text `t` is what the decoder makes of the labels `ls` -/
def NameRel (I : Idna) (t : Text) (ls : List Bytes) : Prop :=
  LabelsOk ls ∧ ∃ ps, mapLabels I ls = some ps ∧ joinDot ps = t

theorem mapLabels_append {I : Idna} : ∀ (a b : List Bytes) (pa pb : List Text), mapLabels I a = some pa →
    mapLabels I b = some pb → mapLabels I (a ++ b) = some (pa ++ pb) := by
  intro a
  induction a with
  | nil => intro b pa pb ha hb; simp [mapLabels] at ha; subst ha; simpa using hb
  | cons x a ih =>
    intro b pa pb ha hb
    simp only [mapLabels] at ha
    cases hd : decLabel I x with
    | none => simp [hd] at ha
    | some t =>
      cases hm : mapLabels I a with
      | none => simp [hd, hm] at ha
      | some ts =>
        simp [hd, hm] at ha; subst ha
        simp [mapLabels, hd, ih b ts pb hm hb]

theorem packParts_of_mapLabels {I : Idna} : ∀ (ls : List Bytes) (ps : List Text), mapLabels I ls = some ps →
    LabelsOk ls → packParts I ps = some (wire ls) := by
  intro ls
  induction ls with
  | nil => intro ps h _; simp [mapLabels] at h; subst h; simp [packParts, wire]
  | cons l ls ih =>
    intro ps h hok
    simp only [mapLabels] at h
    cases hd : decLabel I l with
    | none => simp [hd] at h
    | some t =>
      cases hm : mapLabels I ls with
      | none => simp [hd, hm] at h
      | some ts =>
        simp [hd, hm] at h; subst h
        obtain ⟨hne, hl⟩ := hok l (by simp)
        simp [packParts, decLabel_encPart hd hne hl, ih ts hm (fun x hx => hok x (by simp [hx])), wire_cons]

theorem joinDot_ne_nil (ps : List Text) (hne : ps ≠ []) (hp : ∀ p ∈ ps, p ≠ []) : joinDot ps ≠ [] := by
  cases ps with
  | nil => exact absurd rfl hne
  | cons a rest =>
    have ha : a ≠ [] := hp a (by simp)
    cases rest with
    | nil => simpa [joinDot_single] using ha
    | cons b rest => rw [joinDot_cons_cons]; simp [ha]

theorem mapLabels_length {I : Idna} : ∀ (ls : List Bytes) (ps : List Text), mapLabels I ls = some ps → ps.length = ls.length := by
  intro ls
  induction ls with
  | nil => intro ps h; simp [mapLabels] at h; subst h; rfl
  | cons l ls ih =>
    intro ps h
    simp only [mapLabels] at h
    cases hd : decLabel I l with
    | none => simp [hd] at h
    | some t =>
      cases hm : mapLabels I ls with
      | none => simp [hd, hm] at h
      | some ts => simp [hd, hm] at h; subst h; simp [ih ts hm]

theorem goodPart_ne_nil {I : Idna} {p : Text} (h : GoodPart I p) : p ≠ [] := by
  obtain ⟨_, l, hl, _⟩ := h; exact encPart_ne_nil hl

/-- the text packs to exactly the labels it was decoded from -/
theorem NameRel.packName {I : Idna} {t : Text} {ls : List Bytes} (h : NameRel I t ls) :
    packName I t = some (wire ls ++ [0]) := by
  obtain ⟨hok, ps, hm, rfl⟩ := h
  have hgood := mapLabels_good ls ps hm hok
  cases hps : ps with
  | nil =>
    subst hps
    have : ls = [] := by
      have := mapLabels_length ls [] hm
      exact List.length_eq_zero_iff.mp (by simpa using this.symm)
    subst this
    simp [C25.packName, joinDot, wire]
  | cons a rest =>
    have hne : joinDot ps ≠ [] := joinDot_ne_nil ps (by simp [hps]) (fun p hp => goodPart_ne_nil (hgood p hp))
    rw [← hps]
    unfold C25.packName
    simp only [hne, if_false]
    rw [splitDot_joinDot ps (by simp [hps]) (fun p hp => (hgood p hp).1), packParts_of_mapLabels ls ps hm hok]
    rfl

theorem NameRel.canon {I : Idna} {t : Text} {ls : List Bytes} (h : NameRel I t ls) : CanonName I t := by
  obtain ⟨hok, ps, hm, rfl⟩ := h
  exact canon_of_parts ps (mapLabels_good ls ps hm hok)

theorem NameRel.nameOf {I : Idna} {raws ls2 : List Bytes} {labels : List Text} {label : Text}
    (hok : LabelsOk raws) (hm : mapLabels I raws = some labels) (h2 : NameRel I label ls2) :
    NameRel I (nameOf labels label) (raws ++ ls2) := by
  obtain ⟨hok2, ps2, hm2, rfl⟩ := h2
  refine ⟨?_, labels ++ ps2, mapLabels_append _ _ _ _ hm hm2, ?_⟩
  · intro l hl
    rcases List.mem_append.mp hl with hl | hl
    · exact hok l hl
    · exact hok2 l hl
  · unfold C25.nameOf
    cases hps : ps2 with
    | nil => simp [joinDot]
    | cons a rest =>
      have hgood := mapLabels_good ls2 ps2 hm2 hok2
      have hne : joinDot ps2 ≠ [] := joinDot_ne_nil ps2 (by simp [hps]) (fun p hp => goodPart_ne_nil (hgood p hp))
      rw [← hps]
      simp only [hne, if_false]
      exact (joinDot_append_join labels ps2 (by simp [hps])).symm

/-! ### (A1) the cache-based decoder agrees with the specification on names -/

def CacheAgree (I : Idna) (buf : Bytes) (c : Cache) : Prop :=
  ∀ k t n, c.lookup k = some (some (t, n)) → ∃ ls, DnsRef.name buf k = some (ls, n) ∧ NameRel I t ls

theorem CacheAgree.cons_none {I : Idna} {buf : Bytes} {c : Cache} (h : CacheAgree I buf c) (off : Nat) :
    CacheAgree I buf ((off, none) :: c) := by
  intro k t n hk
  simp only [List.lookup] at hk
  by_cases hko : k = off
  · subst hko; simp at hk
  · have : (k == off) = false := by simpa using hko
    simp only [this] at hk; exact h k t n hk

theorem CacheAgree.cons_some {I : Idna} {buf : Bytes} {c : Cache} (h : CacheAgree I buf c) (off : Nat) {t : Text} {n : Nat}
    {ls : List Bytes} (hn : DnsRef.name buf off = some (ls, n)) (hr : NameRel I t ls) :
    CacheAgree I buf ((off, some (t, n)) :: c) := by
  intro k t' n' hk
  simp only [List.lookup] at hk
  by_cases hko : k = off
  · subst hko; simp at hk; obtain ⟨rfl, rfl⟩ := hk; exact ⟨ls, hn, hr⟩
  · have : (k == off) = false := by simpa using hko
    simp only [this] at hk; exact h k t' n' hk

theorem unpackName_agrees (I : Idna) (buf : Bytes) : ∀ (off : Nat) (ls : List Bytes) (n : Nat),
    DnsRef.name buf off = some (ls, n) → ∀ (cache : Cache) (depth : Nat) (t : Text) (n' : Nat) (c' : Cache),
    CacheAgree I buf cache → unpackName I buf off cache depth = some ((t, n'), c') →
    n' = n ∧ NameRel I t ls ∧ CacheAgree I buf c' := by
  intro off
  induction off using Nat.strongRecOn with
  | _ off ih =>
    intro ls n hname cache depth t n' c' hca h
    cases hl : cache.lookup off with
    | some v =>
      cases v with
      | none => rw [unpackName_loop hl] at h; cases h
      | some r =>
        rw [unpackName_hit hl] at h; cases h
        obtain ⟨ls', hn', hr'⟩ := hca off t n' hl
        rw [hname] at hn'; cases hn'
        exact ⟨rfl, hr', hca⟩
    | none =>
      rw [unpackName_fresh hl] at h
      rw [name_unfold] at hname
      split at h
      · cases h
      · cases hs : scanRaw (buf.drop off) with
        | none => simp [hs] at h
        | some r =>
          obtain ⟨raws, n0, ptr⟩ := r
          simp only [hs] at h hname
          have hok := scanRaw_labels_ok _ _ (Nat.le_refl _) _ _ _ hs
          cases hm : mapLabels I raws with
          | none => simp [hm] at h
          | some labels =>
            simp only [hm] at h
            cases ptr with
            | none =>
              simp at h hname
              obtain ⟨⟨rfl, rfl⟩, rfl⟩ := h
              obtain ⟨rfl, rfl⟩ := hname
              have hrel : NameRel I (joinDot labels) raws := ⟨hok, labels, hm, rfl⟩
              have hname' : DnsRef.name buf off = some (raws, n0) := by rw [name_unfold, hs]
              exact ⟨rfl, hrel, (hca.cons_none off).cons_some off hname' hrel⟩
            | some tgt =>
              simp only at h hname
              by_cases ht : tgt < off
              · simp only [ht, if_true] at hname
                cases hn2 : DnsRef.name buf tgt with
                | none => simp [hn2] at hname
                | some r2 =>
                  obtain ⟨ls2, m2⟩ := r2
                  simp [hn2] at hname
                  obtain ⟨rfl, rfl⟩ := hname
                  cases hrec : unpackName I buf tgt ((off, none) :: cache) (depth + 1) with
                  | none => simp [hrec] at h
                  | some r3 =>
                    obtain ⟨⟨label, n3⟩, c2⟩ := r3
                    simp [hrec] at h
                    obtain ⟨⟨rfl, rfl⟩, rfl⟩ := h
                    obtain ⟨_, hrel2, hca2⟩ := ih tgt ht ls2 m2 hn2 _ _ _ _ _ (hca.cons_none off) hrec
                    have hrel : NameRel I (C25.nameOf labels label) (raws ++ ls2) := NameRel.nameOf hok hm hrel2
                    have hname' : DnsRef.name buf off = some (raws ++ ls2, n0) := by
                      rw [name_unfold, hs]; simp [ht, hn2]
                    exact ⟨rfl, hrel, hca2.cons_some off hname' hrel⟩
              · simp [ht] at hname

/-! ### (A2) record data: `expand_record_data` agrees with the specification's canonical RDATA -/

theorem wire_append (a b : List Bytes) : wire (a ++ b) = wire a ++ wire b := by
  simp [wire, List.flatMap_append]

theorem expandName_agrees (buf : Bytes) : ∀ (off : Nat) (ls : List Bytes) (n : Nat),
    DnsRef.name buf off = some (ls, n) → ∀ seen : List Nat, (∀ k ∈ seen, off < k) →
    expandName buf off seen = some (wire ls ++ [0]) := by
  intro off
  induction off using Nat.strongRecOn with
  | _ off ih =>
    intro ls n hname seen hseen
    have hns : seen.contains off = false := by
      cases hc : seen.contains off with
      | false => rfl
      | true => have := hseen off (by simpa using hc); omega
    rw [expandName_fresh hns]
    rw [name_unfold] at hname
    cases hs : scanRaw (buf.drop off) with
    | none => simp [hs] at hname
    | some r =>
      obtain ⟨raws, n0, ptr⟩ := r
      simp only [hs] at hname ⊢
      cases ptr with
      | none => simp at hname; obtain ⟨rfl, rfl⟩ := hname; rfl
      | some t =>
        simp only at hname ⊢
        by_cases ht : t < off
        · simp only [ht, if_true] at hname
          cases hn2 : DnsRef.name buf t with
          | none => simp [hn2] at hname
          | some r2 =>
            obtain ⟨ls2, m2⟩ := r2
            simp [hn2] at hname
            obtain ⟨rfl, rfl⟩ := hname
            rw [ih t ht ls2 m2 hn2 (off :: seen) (by
              intro k hk
              rcases List.mem_cons.mp hk with rfl | hk
              · exact ht
              · have := hseen k hk; omega)]
            simp [wire_append]
        · simp [ht] at hname

/-- where the pointer of a scanned name sits -/
theorem scanRaw_ptr_pos : ∀ (k : Nat) (s : Bytes), s.length ≤ k → ∀ raws n t, scanRaw s = some (raws, n, some t) →
    2 ≤ n ∧ scanRaw (s.drop (n - 2)) = some ([], 2, some t) := by
  intro k
  induction k with
  | zero =>
    intro s hs raws n t h
    have : s = [] := List.length_eq_zero_iff.mp (by omega)
    subst this; rw [scanRaw_nil] at h; cases h
  | succ k ih =>
    intro s hs raws n t h
    cases s with
    | nil => rw [scanRaw_nil] at h; cases h
    | cons sz rest =>
      have h0 := h
      rw [scanRaw_cons] at h
      by_cases h1 : 192 ≤ sz.toNat
      · simp only [h1, if_true] at h
        cases rest with
        | nil => cases h
        | cons lo tl =>
          simp at h
          obtain ⟨rfl, rfl, rfl⟩ := h
          exact ⟨by omega, by simpa using h0⟩
      · simp only [h1, if_false] at h
        by_cases h2 : 64 ≤ sz.toNat
        · simp [h2] at h
        · simp only [h2, if_false] at h
          by_cases h3 : sz.toNat = 0
          · simp [h3] at h
          · simp only [h3, if_false] at h
            by_cases h4 : rest.length < sz.toNat
            · simp [h4] at h
            · simp only [h4, if_false] at h
              cases hrec : scanRaw (rest.drop sz.toNat) with
              | none => simp [hrec] at h
              | some r =>
                obtain ⟨ls', n', p'⟩ := r
                simp only [hrec] at h
                simp at h
                obtain ⟨rfl, rfl, rfl⟩ := h
                obtain ⟨hn2, hsc⟩ := ih (rest.drop sz.toNat) (by simp at hs ⊢; omega) ls' n' t hrec
                refine ⟨by omega, ?_⟩
                have : 1 + sz.toNat + n' - 2 = (sz.toNat + (n' - 2)) + 1 := by omega
                rw [this, List.drop_succ_cons, ← List.drop_drop]
                exact hsc

theorem take_cons_succ {α} (a : α) (l : List α) (n : Nat) : (a :: l).take (n + 1) = a :: l.take n := rfl

/-- (A4) the in-place walk over a name field sees what `scanRaw` sees, as long as the name fits -/
theorem nameField_scan (buf : Bytes) : ∀ (k : Nat) (s : Bytes), s.length ≤ k → ∀ (rem pos : Nat) raws n ptr,
    scanRaw s = some (raws, n, ptr) → n ≤ rem →
    nameField buf (s.take rem) pos =
      match ptr with
      | none => .done (wire raws ++ [0]) n
      | some _ => match expandName buf (pos + n - 2) [] with
        | none => .fail
        | some e => .done (wire raws ++ e) n := by
  intro k
  induction k with
  | zero =>
    intro s hs rem pos raws n ptr h
    have : s = [] := List.length_eq_zero_iff.mp (by omega)
    subst this; rw [scanRaw_nil] at h; cases h
  | succ k ih =>
    intro s hs rem pos raws n ptr h hrem
    cases s with
    | nil => rw [scanRaw_nil] at h; cases h
    | cons sz rest =>
      rw [scanRaw_cons] at h
      by_cases h1 : 192 ≤ sz.toNat
      · simp only [h1, if_true] at h
        cases rest with
        | nil => cases h
        | cons lo tl =>
          simp at h
          obtain ⟨rfl, rfl, rfl⟩ := h
          obtain ⟨r2, rfl⟩ : ∃ r2, rem = r2 + 2 := ⟨rem - 2, by omega⟩
          simp only [take_cons_succ]
          rw [nameField_cons]
          simp only [h1, if_true]
          have hp2 : pos + 2 - 2 = pos := by omega
          rw [hp2]
          cases expandName buf pos [] <;> simp [wire]
      · simp only [h1, if_false] at h
        by_cases h2 : 64 ≤ sz.toNat
        · simp [h2] at h
        · simp only [h2, if_false] at h
          by_cases h3 : sz.toNat = 0
          · simp only [h3, if_true] at h
            simp at h
            obtain ⟨rfl, rfl, rfl⟩ := h
            obtain ⟨r2, rfl⟩ : ∃ r2, rem = r2 + 1 := ⟨rem - 1, by omega⟩
            simp only [take_cons_succ]
            rw [nameField_cons]
            simp [h1, h2, h3, wire]
          · simp only [h3, if_false] at h
            by_cases h4 : rest.length < sz.toNat
            · simp [h4] at h
            · simp only [h4, if_false] at h
              cases hrec : scanRaw (rest.drop sz.toNat) with
              | none => simp [hrec] at h
              | some r =>
                obtain ⟨ls', n', p'⟩ := r
                simp only [hrec] at h
                simp at h
                obtain ⟨rfl, rfl, rfl⟩ := h
                obtain ⟨r2, rfl⟩ : ∃ r2, rem = r2 + 1 := ⟨rem - 1, by omega⟩
                simp only [take_cons_succ]
                rw [nameField_cons]
                have hlen : (rest.take r2).length = min r2 rest.length := List.length_take
                have h5 : ¬ (64 ≤ sz.toNat ∨ (rest.take r2).length < sz.toNat) := by
                  rw [hlen]; omega
                simp only [h1, h5, h3, if_false]
                have hdrop : (rest.take r2).drop sz.toNat = (rest.drop sz.toNat).take (r2 - sz.toNat) := by
                  rw [List.drop_take]
                have htake : (rest.take r2).take sz.toNat = rest.take sz.toNat := by
                  rw [List.take_take]; congr 1; omega
                rw [hdrop, htake]
                have hih := ih (rest.drop sz.toNat) (by simp at hs ⊢; omega) (r2 - sz.toNat) (pos + 1 + sz.toNat) ls' n' p' hrec (by omega)
                rw [hih]
                have hmin : min sz.toNat rest.length = sz.toNat := Nat.min_eq_left (by omega)
                cases p' with
                | none => simp [wire_cons, hmin]
                | some t =>
                  simp only
                  have hpos : pos + 1 + sz.toNat + n' - 2 = pos + (1 + sz.toNat + n') - 2 := by omega
                  rw [hpos]
                  cases expandName buf (pos + (1 + sz.toNat + n') - 2) [] with
                  | none => simp
                  | some e => simp [wire_cons, hmin]

/-- the code's layout table (generated from `_RDATA_LAYOUT`) is the RFC table of the specification -/
theorem layout_agrees (ty : Nat) : layoutOf ty = DnsRef.layout ty := by
  by_cases h : ty < 36
  · exact (by decide : ∀ t : Fin 36, layoutOf t.val = DnsRef.layout t.val) ⟨ty, h⟩
  · have e1 : layoutOf ty = none := by
      unfold layoutOf layoutTable
      have hk : ∀ k, k < 36 → (ty == k) = false := by intro k hk; simp; omega
      simp [List.lookup, hk]
    have e2 : DnsRef.layout ty = none := by
      unfold DnsRef.layout
      have : ∀ k, k < 36 → ¬ ty = k := by intro k hk; omega
      simp [this]
    rw [e1, e2]

theorem take_length_of_le {buf : Bytes} {pos rem : Nat} (h : pos + rem ≤ buf.length) :
    ((buf.drop pos).take rem).length = rem := by
  rw [List.length_take, List.length_drop]; omega

theorem walk_agrees (buf : Bytes) : ∀ (L : List Field) (pos rem : Nat) (d : Bytes),
    DnsRef.rdataF buf L pos rem = some d → pos + rem ≤ buf.length →
    walk buf L ((buf.drop pos).take rem) pos = some d := by
  intro L
  induction L with
  | nil => intro pos rem d h _; simp [DnsRef.rdataF] at h; subst h; simp [walk]
  | cons f fs ih =>
    intro pos rem d h hle
    have hrd : ((buf.drop pos).take rem).length = rem := take_length_of_le hle
    cases f with
    | name =>
      simp only [DnsRef.rdataF] at h
      cases hn : DnsRef.name buf pos with
      | none => simp [hn] at h
      | some r =>
        obtain ⟨ls, n⟩ := r
        simp only [hn] at h
        by_cases hrem : rem < n
        · simp [hrem] at h
        · simp only [hrem, if_false] at h
          cases hrest : DnsRef.rdataF buf fs (pos + n) (rem - n) with
          | none => simp [hrest] at h
          | some d' =>
            simp [hrest] at h
            subst h
            -- the name field
            have hfield : nameField buf ((buf.drop pos).take rem) pos = .done (wire ls ++ [0]) n := by
              rw [name_unfold] at hn
              cases hs : scanRaw (buf.drop pos) with
              | none => simp [hs] at hn
              | some r =>
                obtain ⟨raws, n0, ptr⟩ := r
                simp only [hs] at hn
                cases ptr with
                | none =>
                  simp at hn; obtain ⟨rfl, rfl⟩ := hn
                  exact nameField_scan buf _ _ (Nat.le_refl _) rem pos _ _ _ hs (by omega)
                | some t =>
                  simp only at hn
                  by_cases ht : t < pos
                  · simp only [ht, if_true] at hn
                    cases hn2 : DnsRef.name buf t with
                    | none => simp [hn2] at hn
                    | some r2 =>
                      obtain ⟨ls2, m2⟩ := r2
                      simp [hn2] at hn
                      obtain ⟨rfl, rfl⟩ := hn
                      rw [nameField_scan buf _ _ (Nat.le_refl _) rem pos _ _ _ hs (by omega)]
                      simp only
                      obtain ⟨h2, hsc⟩ := scanRaw_ptr_pos _ _ (Nat.le_refl _) _ _ _ hs
                      have hq : buf.drop (pos + n0 - 2) = (buf.drop pos).drop (n0 - 2) := by
                        rw [List.drop_drop]; congr 1; omega
                      have hex : expandName buf (pos + n0 - 2) [] = some (wire ls2 ++ [0]) := by
                        rw [expandName_fresh (by simp), hq, hsc]
                        simp only
                        rw [expandName_agrees buf t ls2 m2 hn2 [pos + n0 - 2] (by intro k hk; simp at hk; omega)]
                        simp [wire]
                      rw [hex]; simp [wire_append]
                  · simp [ht] at hn
            simp only [walk, hfield]
            have hdrop : ((buf.drop pos).take rem).drop n = (buf.drop (pos + n)).take (rem - n) := by
              rw [List.drop_take, List.drop_drop]
            rw [hdrop, ih (pos + n) (rem - n) d' hrest (by omega)]
            simp
    | fixed k =>
      simp only [DnsRef.rdataF] at h
      by_cases hk : rem < k
      · simp [hk] at h
      · simp only [hk, if_false] at h
        cases hrest : DnsRef.rdataF buf fs (pos + k) (rem - k) with
        | none => simp [hrest] at h
        | some d' =>
          simp [hrest] at h
          subst h
          simp only [walk, hrd, hk, if_false]
          have hdrop : ((buf.drop pos).take rem).drop k = (buf.drop (pos + k)).take (rem - k) := by
            rw [List.drop_take, List.drop_drop]
          have htake : ((buf.drop pos).take rem).take k = (buf.drop pos).take k := by
            rw [List.take_take]; congr 1; omega
          rw [hdrop, htake, ih (pos + k) (rem - k) d' hrest (by omega)]
          simp
    | cstr =>
      simp only [DnsRef.rdataF] at h
      cases hb : buf.drop pos with
      | nil => simp [hb] at h
      | cons c tl =>
        simp only [hb] at h
        by_cases hk : rem < 1 + c.toNat
        · simp [hk] at h
        · simp only [hk, if_false] at h
          cases hrest : DnsRef.rdataF buf fs (pos + (1 + c.toNat)) (rem - (1 + c.toNat)) with
          | none => simp [hrest] at h
          | some d' =>
            simp [hrest] at h
            subst h
            obtain ⟨r2, rfl⟩ : ∃ r2, rem = r2 + 1 := ⟨rem - 1, by omega⟩
            have hrd' : ((c :: tl).take (r2 + 1)).length = r2 + 1 := by rw [← hb]; exact hrd
            simp only [take_cons_succ] at hrd' ⊢
            simp only [walk]
            have hk' : ¬ (c :: tl.take r2).length < 1 + c.toNat := by rw [hrd']; exact hk
            simp only [hk', if_false]
            have hdrop : (c :: tl.take r2).drop (1 + c.toNat) = (buf.drop (pos + (1 + c.toNat))).take (r2 + 1 - (1 + c.toNat)) := by
              have e1 : (c :: tl.take r2) = (c :: tl).take (r2 + 1) := rfl
              rw [e1, List.drop_take, ← hb, List.drop_drop]
            have htake : (c :: tl.take r2).take (1 + c.toNat) = (c :: tl).take (1 + c.toNat) := by
              rw [← take_cons_succ, List.take_take]; congr 1; omega
            rw [hdrop, htake, ih _ _ d' hrest (by omega)]
            simp

/-- (A2) on every record the specification reads, the decoder computes the specification's canonical RDATA -/
theorem rrData_agrees {buf : Bytes} {pos len ty : Nat} {d d' : Bytes} (h : DnsRef.rdata buf pos len ty = some d)
    (hle : pos + len ≤ buf.length) (h' : rrData buf pos len ty = some d') : d' = d := by
  unfold DnsRef.rdata at h
  unfold rrData at h'
  rw [layout_agrees] at h'
  cases hL : DnsRef.layout ty with
  | none => simp [hL] at h h'; rw [← h, ← h']
  | some L =>
    simp only [hL] at h h'
    rw [walk_agrees buf L pos len d h hle] at h'
    simp only at h'
    split at h'
    · cases h'
    · cases h'; rfl

/-! ### canonical RDATA reads back as itself -/

/-- wherever these bytes are placed as the RDATA of a record of type `ty`, the specification reads them unchanged -/
def CanonRdata (ty : Nat) (d : Bytes) : Prop :=
  ∀ (buf2 : Bytes) (pos2 : Nat) (rest : Bytes), buf2.drop pos2 = d ++ rest → DnsRef.rdata buf2 pos2 d.length ty = some d

theorem refName_wire {buf : Bytes} {off : Nat} {ls : List Bytes} {rest : Bytes}
    (h : buf.drop off = wire ls ++ 0 :: rest) (hok : LabelsOk ls) :
    DnsRef.name buf off = some (ls, (wire ls).length + 1) := by
  rw [name_unfold, h, scanRaw_wire ls rest hok]

theorem take_append_of_length {α} {a b : List α} {k : Nat} (h : a.length = k) : (a ++ b).take k = a := by
  subst h; exact List.take_left

theorem rdataF_canon (buf : Bytes) : ∀ (L : List Field) (pos rem : Nat) (d : Bytes),
    DnsRef.rdataF buf L pos rem = some d → pos + rem ≤ buf.length →
    ∀ (buf2 : Bytes) (pos2 : Nat) (rest : Bytes), buf2.drop pos2 = d ++ rest →
    DnsRef.rdataF buf2 L pos2 d.length = some d := by
  intro L
  induction L with
  | nil =>
    intro pos rem d h _ buf2 pos2 rest hb
    simp [DnsRef.rdataF] at h ⊢
    rw [hb, List.take_left]
  | cons f fs ih =>
    intro pos rem d h hle buf2 pos2 rest hb
    cases f with
    | name =>
      simp only [DnsRef.rdataF] at h
      cases hn : DnsRef.name buf pos with
      | none => simp [hn] at h
      | some r =>
        obtain ⟨ls, n⟩ := r
        simp only [hn] at h
        by_cases hrem : rem < n
        · simp [hrem] at h
        · simp only [hrem, if_false] at h
          cases hrest : DnsRef.rdataF buf fs (pos + n) (rem - n) with
          | none => simp [hrest] at h
          | some d' =>
            simp [hrest] at h
            subst h
            have hok := name_labels_ok buf pos ls n hn
            have hb' : buf2.drop pos2 = wire ls ++ 0 :: (d' ++ rest) := by simpa using hb
            have hnext : buf2.drop (pos2 + ((wire ls).length + 1)) = d' ++ rest := by
              have := drop_of_drop_append (a := wire ls ++ [0]) (b := d' ++ rest) (by simpa using hb)
              simpa using this
            simp only [DnsRef.rdataF, refName_wire hb' hok]
            have hlen : ¬ (wire ls ++ (0 :: d')).length < (wire ls).length + 1 := by simp
            have hsub : (wire ls ++ (0 :: d')).length - ((wire ls).length + 1) = d'.length := by simp; omega
            simp only [List.append_assoc, List.singleton_append, hlen, if_false, hsub]
            rw [ih (pos + n) (rem - n) d' hrest (by omega) buf2 _ rest hnext]
            simp
    | fixed k =>
      simp only [DnsRef.rdataF] at h
      by_cases hk : rem < k
      · simp [hk] at h
      · simp only [hk, if_false] at h
        cases hrest : DnsRef.rdataF buf fs (pos + k) (rem - k) with
        | none => simp [hrest] at h
        | some d' =>
          simp [hrest] at h
          subst h
          have hcl : ((buf.drop pos).take k).length = k := take_length_of_le (by omega)
          have hb' : buf2.drop pos2 = (buf.drop pos).take k ++ (d' ++ rest) := by simpa using hb
          have hnext : buf2.drop (pos2 + k) = d' ++ rest := by
            have := drop_of_drop_append hb'; rwa [hcl] at this
          simp only [DnsRef.rdataF]
          have hlen : ¬ ((buf.drop pos).take k ++ d').length < k := by simp [hcl]
          have hsub : ((buf.drop pos).take k ++ d').length - k = d'.length := by simp [hcl]
          simp only [hlen, if_false, hsub]
          rw [ih (pos + k) (rem - k) d' hrest (by omega) buf2 _ rest hnext]
          have : (buf2.drop pos2).take k = (buf.drop pos).take k := by
            rw [hb']; exact take_append_of_length hcl
          simp [this]
    | cstr =>
      simp only [DnsRef.rdataF] at h
      cases hbp : buf.drop pos with
      | nil => simp [hbp] at h
      | cons c tl =>
        simp only [hbp] at h
        by_cases hk : rem < 1 + c.toNat
        · simp [hk] at h
        · simp only [hk, if_false] at h
          cases hrest : DnsRef.rdataF buf fs (pos + (1 + c.toNat)) (rem - (1 + c.toNat)) with
          | none => simp [hrest] at h
          | some d' =>
            simp [hrest] at h
            subst h
            have hcl : ((c :: tl).take (1 + c.toNat)).length = 1 + c.toNat := by
              rw [← hbp]; exact take_length_of_le (by omega)
            have hchunk : (c :: tl).take (1 + c.toNat) = c :: tl.take c.toNat := by
              rw [Nat.add_comm]; rfl
            have hb' : buf2.drop pos2 = (c :: tl).take (1 + c.toNat) ++ (d' ++ rest) := by simpa using hb
            have hnext : buf2.drop (pos2 + (1 + c.toNat)) = d' ++ rest := by
              have := drop_of_drop_append hb'; rwa [hcl] at this
            have hb2 : buf2.drop pos2 = c :: (tl.take c.toNat ++ (d' ++ rest)) := by
              rw [hb', hchunk]; rfl
            simp only [DnsRef.rdataF, hb2]
            have hlen : ¬ ((c :: tl).take (1 + c.toNat) ++ d').length < 1 + c.toNat := by
              rw [List.length_append, hcl]; omega
            have hsub : ((c :: tl).take (1 + c.toNat) ++ d').length - (1 + c.toNat) = d'.length := by
              rw [List.length_append, hcl]; omega
            simp only [hlen, if_false, hsub]
            rw [ih _ _ d' hrest (by omega) buf2 _ rest hnext]
            have : (c :: (tl.take c.toNat ++ (d' ++ rest))).take (1 + c.toNat) = (c :: tl).take (1 + c.toNat) := by
              rw [← hb2, hb']; exact take_append_of_length hcl
            simp [this]

theorem rdata_canon {buf : Bytes} {pos len ty : Nat} {d : Bytes} (h : DnsRef.rdata buf pos len ty = some d)
    (hle : pos + len ≤ buf.length) : CanonRdata ty d := by
  intro buf2 pos2 rest hb
  unfold DnsRef.rdata at h ⊢
  cases hL : DnsRef.layout ty with
  | none => simp [hL] at h ⊢; rw [hb, List.take_left]
  | some L =>
    simp only [hL] at h ⊢
    exact rdataF_canon buf L pos len d h hle buf2 pos2 rest hb

end MitmVerif.C26
