/-
  C26: what the reference compressing encoder writes for a name is read back by the specification decoder.
-/
import MitmVerif.Lemmas.C26Live
set_option linter.unusedVariables false
set_option linter.unusedSimpArgs false
namespace MitmVerif.C26
open MitmVerif MitmVerif.C25

theorem or192' : ∀ x : Fin 64, 192 ||| x.val = 192 + x.val := by decide

theorem scanRaw_wire_ptr' (ls : List Bytes) (t : Nat) (rest : Bytes) (hok : LabelsOk ls) (ht : t < 16384) :
    scanRaw (wire ls ++ ptrBytes t ++ rest) = some (ls, (wire ls).length + 2, some t) := by
  induction ls with
  | nil =>
    have hor : 192 ||| (t / 256) = 192 + t / 256 := or192' ⟨t / 256, by omega⟩
    have h1 : (UInt8.ofNat (192 + t / 256)).toNat = 192 + t / 256 := toNat_ofNat_lt (by omega)
    have h2 : (UInt8.ofNat (t % 256)).toNat = t % 256 := toNat_ofNat_lt (by omega)
    simp only [wire, List.flatMap_nil, List.nil_append, ptrBytes, List.cons_append, List.length_nil, hor]
    rw [scanRaw_cons, h1]
    have : 192 ≤ 192 + t / 256 := by omega
    simp only [this, if_true]
    congr 3
    rw [h2]; congr 1; omega
  | cons l ls ih =>
    obtain ⟨hne, hl⟩ := hok l (by simp)
    have hpos : 0 < l.length := List.length_pos_iff.mpr hne
    have htn : (UInt8.ofNat l.length).toNat = l.length := toNat_ofNat_lt (by omega)
    rw [wire_cons]
    simp only [List.cons_append, List.append_assoc]
    rw [scanRaw_cons, htn]
    have h1 : ¬ 192 ≤ l.length := by omega
    have h2 : ¬ 64 ≤ l.length := by omega
    have h3 : ¬ l.length = 0 := by omega
    have h4 : ¬ (l ++ (wire ls ++ (ptrBytes t ++ rest))).length < l.length := by simp
    simp only [h1, h2, h3, h4, if_false]
    have := ih (fun l' hl' => hok l' (by simp [hl']))
    simp only [List.append_assoc] at this
    rw [List.drop_left, List.take_left, this]
    simp; omega

theorem lookup_append_ne {α β} [BEq α] [LawfulBEq α] (l : List (α × β)) (k k' : α) (v : β) (h : k ≠ k') :
    (l ++ [(k', v)]).lookup k = l.lookup k := by
  induction l with
  | nil =>
    have : (k == k') = false := by simpa using h
    simp [List.lookup, this]
  | cons e l ih =>
    obtain ⟨a, b⟩ := e
    simp only [List.cons_append, List.lookup]
    split <;> simp_all

/-- what `cname` writes: the labels up to the first suffix found in the table, then a pointer to it — or all labels and
    the terminator -/
theorem cname_shape : ∀ (ls : List Bytes) (tbl : CTable) (pos : Nat),
    ∃ ls1 ls2, ls = ls1 ++ ls2 ∧
      ((ls2 = [] ∧ (cname tbl pos ls).1 = wire ls1 ++ [0]) ∨
       (ls2 ≠ [] ∧ ∃ t, tbl.lookup ls2 = some t ∧ (cname tbl pos ls).1 = wire ls1 ++ ptrBytes t)) := by
  intro ls
  induction ls with
  | nil => intro tbl pos; exact ⟨[], [], rfl, Or.inl ⟨rfl, by simp [cname, wire]⟩⟩
  | cons l ls ih =>
    intro tbl pos
    cases hl : tbl.lookup (l :: ls) with
    | some t => exact ⟨[], l :: ls, rfl, Or.inr ⟨by simp, t, hl, by simp [cname, hl, wire]⟩⟩
    | none =>
      obtain ⟨ls1, ls2, hsplit, hcase⟩ := ih (if pos < 16384 then tbl ++ [(l :: ls, pos)] else tbl) (pos + 1 + l.length)
      refine ⟨l :: ls1, ls2, by simp [hsplit], ?_⟩
      rcases hcase with ⟨h2, hout⟩ | ⟨h2, t, hlook, hout⟩
      · exact Or.inl ⟨h2, by simp [cname, hl, hout, wire_cons]⟩
      · refine Or.inr ⟨h2, t, ?_, by simp [cname, hl, hout, wire_cons]⟩
        have hne : ls2 ≠ l :: ls := by
          intro he
          have := congrArg List.length hsplit
          rw [he] at this; simp at this; omega
        by_cases hp : pos < 16384
        · simp only [hp, if_true] at hlook
          rwa [lookup_append_ne _ _ _ _ hne] at hlook
        · simpa [hp] using hlook

/-- **the specification reads what the reference encoder wrote.** -/
theorem cname_read (buf : Bytes) (tbl : CTable) (pos : Nat) (ls : List Bytes) (rest : Bytes)
    (hb : buf.drop pos = (cname tbl pos ls).1 ++ rest) (hok : LabelsOk ls)
    (htbl : ∀ s t, tbl.lookup s = some t → t < 16384 ∧ t < pos ∧ ∃ n, DnsRef.name buf t = some (s, n)) :
    DnsRef.name buf pos = some (ls, (cname tbl pos ls).1.length) := by
  obtain ⟨ls1, ls2, hsplit, hcase⟩ := cname_shape ls tbl pos
  have hok1 : LabelsOk ls1 := fun l hl => hok l (by rw [hsplit]; simp [hl])
  rcases hcase with ⟨h2, hout⟩ | ⟨h2, t, hlook, hout⟩
  · subst h2
    simp only [List.append_nil] at hsplit
    subst hsplit
    rw [hout] at hb ⊢
    have hb' : buf.drop pos = wire ls ++ 0 :: rest := by simpa using hb
    rw [refName_wire hb' hok]; simp
  · obtain ⟨ht, htp, n2, hn2⟩ := htbl ls2 t hlook
    rw [hout] at hb ⊢
    rw [name_unfold, hb, scanRaw_wire_ptr' ls1 t rest hok1 ht]
    simp [htp, hn2, hsplit, ptrBytes]

end MitmVerif.C26
