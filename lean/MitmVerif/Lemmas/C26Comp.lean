/-
  C26: what the reference compressing encoder writes for a name is read back by the specification decoder.
-/
import MitmVerif.Lemmas.C26Live
set_option linter.unusedVariables false
set_option linter.unusedSimpArgs false
namespace MitmVerif.C26
open MitmVerif MitmVerif.C25

theorem or192' : ∀ x : Fin 64, 192 ||| x.val = 192 + x.val := by decide

theorem scanRaw_wire_ptr' (ls : List Bytes) (t : Nat) (rest : Bytes) (hok : LabelsOk ls) (ht : t < 16384) :
    scanRaw (wire ls ++ ptrBytes t ++ rest) = some (ls, (wire ls).length + 2, some t) := by
  induction ls with
  | nil =>
    have hor : 192 ||| (t / 256) = 192 + t / 256 := or192' ⟨t / 256, by omega⟩
    have h1 : (UInt8.ofNat (192 + t / 256)).toNat = 192 + t / 256 := toNat_ofNat_lt (by omega)
    have h2 : (UInt8.ofNat (t % 256)).toNat = t % 256 := toNat_ofNat_lt (by omega)
    simp only [wire, List.flatMap_nil, List.nil_append, ptrBytes, List.cons_append, List.length_nil, hor]
    rw [scanRaw_cons, h1]
    have : 192 ≤ 192 + t / 256 := by omega
    simp only [this, if_true]
    congr 3
    rw [h2]; congr 1; omega
  | cons l ls ih =>
    obtain ⟨hne, hl⟩ := hok l (by simp)
    have hpos : 0 < l.length := List.length_pos_iff.mpr hne
    have htn : (UInt8.ofNat l.length).toNat = l.length := toNat_ofNat_lt (by omega)
    rw [wire_cons]
    simp only [List.cons_append, List.append_assoc]
    rw [scanRaw_cons, htn]
    have h1 : ¬ 192 ≤ l.length := by omega
    have h2 : ¬ 64 ≤ l.length := by omega
    have h3 : ¬ l.length = 0 := by omega
    have h4 : ¬ (l ++ (wire ls ++ (ptrBytes t ++ rest))).length < l.length := by simp
    simp only [h1, h2, h3, h4, if_false]
    have := ih (fun l' hl' => hok l' (by simp [hl']))
    simp only [List.append_assoc] at this
    rw [List.drop_left, List.take_left, this]
    simp; omega

theorem lookup_append_ne {α β} [BEq α] [LawfulBEq α] (l : List (α × β)) (k k' : α) (v : β) (h : k ≠ k') :
    (l ++ [(k', v)]).lookup k = l.lookup k := by
  induction l with
  | nil =>
    have : (k == k') = false := by simpa using h
    simp [List.lookup, this]
  | cons e l ih =>
    obtain ⟨a, b⟩ := e
    simp only [List.cons_append, List.lookup]
    split <;> simp_all

/-- what `cname` writes: the labels up to the first suffix found in the table, then a pointer to it — or all labels and
    the terminator -/
theorem cname_shape : ∀ (ls : List Bytes) (tbl : CTable) (pos : Nat),
    ∃ ls1 ls2, ls = ls1 ++ ls2 ∧
      ((ls2 = [] ∧ (cname tbl pos ls).1 = wire ls1 ++ [0]) ∨
       (ls2 ≠ [] ∧ ∃ t, tbl.lookup ls2 = some t ∧ (cname tbl pos ls).1 = wire ls1 ++ ptrBytes t)) := by
  intro ls
  induction ls with
  | nil => intro tbl pos; exact ⟨[], [], rfl, Or.inl ⟨rfl, by simp [cname, wire]⟩⟩
  | cons l ls ih =>
    intro tbl pos
    cases hl : tbl.lookup (l :: ls) with
    | some t => exact ⟨[], l :: ls, rfl, Or.inr ⟨by simp, t, hl, by simp [cname, hl, wire]⟩⟩
    | none =>
      obtain ⟨ls1, ls2, hsplit, hcase⟩ := ih (if pos < 16384 then tbl ++ [(l :: ls, pos)] else tbl) (pos + 1 + l.length)
      refine ⟨l :: ls1, ls2, by simp [hsplit], ?_⟩
      rcases hcase with ⟨h2, hout⟩ | ⟨h2, t, hlook, hout⟩
      · exact Or.inl ⟨h2, by simp [cname, hl, hout, wire_cons]⟩
      · refine Or.inr ⟨h2, t, ?_, by simp [cname, hl, hout, wire_cons]⟩
        have hne : ls2 ≠ l :: ls := by
          intro he
          have := congrArg List.length hsplit
          rw [he] at this; simp at this; omega
        by_cases hp : pos < 16384
        · simp only [hp, if_true] at hlook
          rwa [lookup_append_ne _ _ _ _ hne] at hlook
        · simpa [hp] using hlook

/-- **the specification reads what the reference encoder wrote.** -/
theorem cname_read (buf : Bytes) (tbl : CTable) (pos : Nat) (ls : List Bytes) (rest : Bytes)
    (hb : buf.drop pos = (cname tbl pos ls).1 ++ rest) (hok : LabelsOk ls)
    (htbl : ∀ s t, tbl.lookup s = some t → t < 16384 ∧ t < pos ∧ ∃ n, DnsRef.name buf t = some (s, n)) :
    DnsRef.name buf pos = some (ls, (cname tbl pos ls).1.length) := by
  obtain ⟨ls1, ls2, hsplit, hcase⟩ := cname_shape ls tbl pos
  have hok1 : LabelsOk ls1 := fun l hl => hok l (by rw [hsplit]; simp [hl])
  rcases hcase with ⟨h2, hout⟩ | ⟨h2, t, hlook, hout⟩
  · subst h2
    simp only [List.append_nil] at hsplit
    subst hsplit
    rw [hout] at hb ⊢
    have hb' : buf.drop pos = wire ls ++ 0 :: rest := by simpa using hb
    rw [refName_wire hb' hok]; simp
  · obtain ⟨ht, htp, n2, hn2⟩ := htbl ls2 t hlook
    rw [hout] at hb ⊢
    rw [name_unfold, hb, scanRaw_wire_ptr' ls1 t rest hok1 ht]
    simp [htp, hn2, hsplit, ptrBytes]

/-! ### a whole sequence of names written by the reference encoder -/

theorem lookup_append_eq {α β} [BEq α] [LawfulBEq α] (l : List (α × β)) (k : α) (v : β) (h : l.lookup k = none) :
    (l ++ [(k, v)]).lookup k = some v := by
  induction l with
  | nil => simp only [List.nil_append, List.lookup, beq_self_eq_true]
  | cons e l ih =>
    obtain ⟨a, b⟩ := e
    simp only [List.lookup] at h
    simp only [List.cons_append, List.lookup]
    cases hka : (k == a) with
    | true => simp [hka] at h
    | false => simp only [hka] at h ⊢; exact ih h

/-- what a scan from `t` sees when `t` is a place where the encoder registered the suffix `s` of a name that started
    at `start` -/
def SuffixRead (buf : Bytes) (start : Nat) (s : List Bytes) (t : Nat) : Prop :=
  ∃ raws n ptr, scanRaw (buf.drop t) = some (raws, n, ptr) ∧
    (match ptr with
     | none => raws = s
     | some t' => t' < start ∧ ∃ ls2 n2, DnsRef.name buf t' = some (ls2, n2) ∧ s = raws ++ ls2)

theorem SuffixRead.name {buf : Bytes} {start t : Nat} {s : List Bytes} (h : SuffixRead buf start s t) (hst : start ≤ t) :
    ∃ n, DnsRef.name buf t = some (s, n) := by
  obtain ⟨raws, n, ptr, hs, hm⟩ := h
  cases ptr with
  | none => simp only at hm; subst hm; exact ⟨n, by rw [name_unfold, hs]⟩
  | some t' =>
    obtain ⟨ht, ls2, n2, hn2, rfl⟩ := hm
    exact ⟨n, by rw [name_unfold, hs]; simp [show t' < t by omega, hn2]⟩

theorem cname_scan (buf : Bytes) : ∀ (ls : List Bytes) (tbl : CTable) (pos start : Nat) (rest : Bytes), start ≤ pos →
    buf.drop pos = (cname tbl pos ls).1 ++ rest → LabelsOk ls →
    (∀ s t, tbl.lookup s = some t → s.length ≤ ls.length → t < 16384 ∧ t < start ∧ ∃ n, DnsRef.name buf t = some (s, n)) →
    SuffixRead buf start ls pos ∧
    (∀ s t, (cname tbl pos ls).2.lookup s = some t → tbl.lookup s = some t ∨
      (t < 16384 ∧ pos ≤ t ∧ t < pos + (cname tbl pos ls).1.length ∧ SuffixRead buf start s t)) := by
  intro ls
  induction ls with
  | nil =>
    intro tbl pos start rest _ hb _ _
    refine ⟨⟨[], 1, none, ?_, rfl⟩, fun s t h => Or.inl h⟩
    simp only [cname, List.cons_append, List.nil_append] at hb
    rw [hb, scanRaw_cons]; simp
  | cons l ls ih =>
    intro tbl pos start rest hsp hb hok hH
    cases hl : tbl.lookup (l :: ls) with
    | some t =>
      obtain ⟨ht, hts, n2, hn2⟩ := hH (l :: ls) t hl (Nat.le_refl _)
      simp only [cname, hl] at hb ⊢
      refine ⟨⟨[], 2, some t, ?_, hts, l :: ls, n2, hn2, by simp⟩, fun s t' h => Or.inl h⟩
      have := scanRaw_wire_ptr' [] t rest (by simp [LabelsOk]) ht
      simpa [wire, hb] using this
    | none =>
      obtain ⟨hne, hlen⟩ := hok l (by simp)
      have hpos : 0 < l.length := List.length_pos_iff.mpr hne
      have htn : (UInt8.ofNat l.length).toNat = l.length := toNat_ofNat_lt (by omega)
      -- the recursive call
      let tbl1 : CTable := if pos < 16384 then tbl ++ [(l :: ls, pos)] else tbl
      have hout : (cname tbl pos (l :: ls)).1 = UInt8.ofNat l.length :: l ++ (cname tbl1 (pos + 1 + l.length) ls).1 := by
        simp [cname, hl, tbl1]
      have htab : (cname tbl pos (l :: ls)).2 = (cname tbl1 (pos + 1 + l.length) ls).2 := by
        simp [cname, hl, tbl1]
      rw [hout] at hb
      have hb1 : buf.drop pos = (UInt8.ofNat l.length :: l) ++ ((cname tbl1 (pos + 1 + l.length) ls).1 ++ rest) := by
        simpa using hb
      have hb2 : buf.drop (pos + 1 + l.length) = (cname tbl1 (pos + 1 + l.length) ls).1 ++ rest := by
        have := drop_of_drop_append hb1
        have e : pos + (UInt8.ofNat l.length :: l).length = pos + 1 + l.length := by simp; omega
        rw [e] at this; exact this
      have hlk1 : ∀ s t, tbl1.lookup s = some t → s ≠ l :: ls → tbl.lookup s = some t := by
        intro s t h hne'
        simp only [tbl1] at h
        split at h
        · rwa [lookup_append_ne _ _ _ _ hne'] at h
        · exact h
      have hH1 : ∀ s t, tbl1.lookup s = some t → s.length ≤ ls.length →
          t < 16384 ∧ t < start ∧ ∃ n, DnsRef.name buf t = some (s, n) := by
        intro s t h hle
        have hne' : s ≠ l :: ls := by
          intro he; rw [he] at hle; simp only [List.length_cons] at hle; omega
        exact hH s t (hlk1 s t h hne') (by simp; omega)
      obtain ⟨⟨raws, n, ptr, hs, hm⟩, htbl⟩ := ih tbl1 (pos + 1 + l.length) start rest (by omega) hb2
        (fun x hx => hok x (by simp [hx])) hH1
      -- the scan from `pos`
      have hscan : scanRaw (buf.drop pos) = some (l :: raws, 1 + l.length + n, ptr) := by
        rw [hb1]
        simp only [List.cons_append]
        rw [scanRaw_cons, htn]
        have h1 : ¬ 192 ≤ l.length := by omega
        have h2 : ¬ 64 ≤ l.length := by omega
        have h3 : ¬ l.length = 0 := by omega
        have h4 : ¬ (l ++ ((cname tbl1 (pos + 1 + l.length) ls).1 ++ rest)).length < l.length := by simp
        rw [if_neg h1, if_neg h2, if_neg h3, if_neg h4, List.drop_left, List.take_left, ← hb2, hs]
      have hread : SuffixRead buf start (l :: ls) pos := by
        refine ⟨l :: raws, _, ptr, hscan, ?_⟩
        cases ptr with
        | none => simp only at hm ⊢; rw [hm]
        | some t' =>
          obtain ⟨ht', ls2, n2, hn2, rfl⟩ := hm
          exact ⟨ht', ls2, n2, hn2, by simp⟩
      refine ⟨hread, ?_⟩
      intro s t h
      rw [htab] at h
      rw [hout]
      have hlen' : (UInt8.ofNat l.length :: l ++ (cname tbl1 (pos + 1 + l.length) ls).1).length =
          1 + l.length + (cname tbl1 (pos + 1 + l.length) ls).1.length := by simp; omega
      rcases htbl s t h with h1 | ⟨h1, h2, h3, h4⟩
      · by_cases hse : s = l :: ls
        · subst hse
          by_cases hp : pos < 16384
          · have : tbl1.lookup (l :: ls) = some pos := by
              simp only [tbl1, hp, if_true]; exact lookup_append_eq _ _ _ hl
            rw [this] at h1; cases h1
            exact Or.inr ⟨hp, Nat.le_refl _, by rw [hlen']; omega, hread⟩
          · have : tbl1 = tbl := by simp [tbl1, hp]
            rw [this, hl] at h1; cases h1
        · exact Or.inl (hlk1 s t h1 hse)
      · exact Or.inr ⟨h1, by omega, by rw [hlen']; omega, h4⟩

/-- every registered suffix is where the table says, below the write position -/
def TblInv (buf : Bytes) (tbl : CTable) (pos : Nat) : Prop :=
  ∀ s t, tbl.lookup s = some t → t < 16384 ∧ t < pos ∧ ∃ n, DnsRef.name buf t = some (s, n)

/-- offsets at which `cnames` writes its names -/
def cnameOffsets (tbl : CTable) (pos : Nat) : List (List Bytes) → List Nat
  | [] => []
  | n :: ns => let r := cname tbl pos n; pos :: cnameOffsets r.2 (pos + r.1.length) ns

theorem cname_out_pos (tbl : CTable) (pos : Nat) (ls : List Bytes) : 0 < (cname tbl pos ls).1.length := by
  cases ls with
  | nil => simp [cname]
  | cons l ls =>
    simp only [cname]
    split <;> simp [ptrBytes]

theorem cnames_read (buf : Bytes) : ∀ (names : List (List Bytes)) (tbl : CTable) (pos : Nat) (rest : Bytes),
    buf.drop pos = cnames tbl pos names ++ rest → (∀ n ∈ names, LabelsOk n) → TblInv buf tbl pos →
    Rel2 (fun off n => ∃ k, DnsRef.name buf off = some (n, k)) (cnameOffsets tbl pos names) names := by
  intro names
  induction names with
  | nil => intro tbl pos rest _ _ _; exact Rel2.nil
  | cons nm names ih =>
    intro tbl pos rest hb hok hinv
    simp only [cnames, List.append_assoc] at hb
    obtain ⟨hread, htbl⟩ := cname_scan buf nm tbl pos pos _ (Nat.le_refl _) hb (hok nm (by simp))
      (fun s t h _ => hinv s t h)
    have hb2 := drop_of_drop_append hb
    have hinv2 : TblInv buf (cname tbl pos nm).2 (pos + (cname tbl pos nm).1.length) := by
      intro s t h
      rcases htbl s t h with h1 | ⟨h1, h2, h3, h4⟩
      · obtain ⟨a, b, c⟩ := hinv s t h1
        exact ⟨a, by have := cname_out_pos tbl pos nm; omega, c⟩
      · exact ⟨h1, h3, h4.name h2⟩
    simp only [cnameOffsets]
    exact Rel2.cons (hread.name (Nat.le_refl _)) (ih _ _ rest hb2 (fun n hn => hok n (by simp [hn])) hinv2)

end MitmVerif.C26
