/-
  C26 at the level of whole connections: on top of the C27 model of `DNSLayer` (all events of a client/server
  connection pair, ids, pending flows, TCP buffers), every message the layer sends when no addon interferes is the
  re-encoding of a message it received from the other side (or the SERVFAIL of a received query).
-/
import MitmVerif.Model.C27
import MitmVerif.Lemmas.C27
import MitmVerif.Lemmas.C26Msg
set_option linter.unusedVariables false
set_option linter.unusedSimpArgs false
namespace MitmVerif.C26
open MitmVerif MitmVerif.C25 MitmVerif.C27

/-! ### the byte frames behind the messages the framing extracts -/

/-- the frames `C27.parse` decodes, as the bytes that were received -/
def parseB (I : Idna) (buf : Bytes) : List Bytes :=
  match buf with
  | a :: b :: rest =>
    if a.toNat * 256 + b.toNat = 0 then []
    else if rest.length < a.toNat * 256 + b.toNat then []
    else
      match unpack I (rest.take (a.toNat * 256 + b.toNat)) with
      | none => []
      | some _ => rest.take (a.toNat * 256 + b.toNat) :: parseB I (rest.drop (a.toNat * 256 + b.toNat))
  | _ => []
termination_by buf.length
decreasing_by simp only [List.length_drop, List.length_cons]; omega

theorem parseB_cons2 (I : Idna) (a b : UInt8) (rest : Bytes) :
    parseB I (a :: b :: rest) =
      if a.toNat * 256 + b.toNat = 0 then []
      else if rest.length < a.toNat * 256 + b.toNat then []
      else
        match unpack I (rest.take (a.toNat * 256 + b.toNat)) with
        | none => []
        | some _ => rest.take (a.toNat * 256 + b.toNat) :: parseB I (rest.drop (a.toNat * 256 + b.toNat)) := by
  rw [parseB]

theorem parseB_nil (I : Idna) : parseB I [] = [] := by rw [parseB.eq_def]

theorem parseB_one (I : Idna) (a : UInt8) : parseB I [a] = [] := by rw [parseB.eq_def]

/-- message `i` of `parse` is the decoding of frame `i` of `parseB` -/
theorem parse_frames (I : Idna) : ∀ (n : Nat) (buf : Bytes), buf.length ≤ n →
    Rel2 (fun b m => unpack I b = some m) (parseB I buf) (parse I buf).1 := by
  intro n
  induction n with
  | zero =>
    intro buf h
    have : buf = [] := List.length_eq_zero_iff.mp (by omega)
    subst this; rw [parse_nil, parseB_nil]; exact Rel2.nil
  | succ n ih =>
    intro buf h
    cases buf with
    | nil => rw [parse_nil, parseB_nil]; exact Rel2.nil
    | cons a t =>
      cases t with
      | nil => rw [parse_one, parseB_one]; exact Rel2.nil
      | cons b rest =>
        rw [parse_cons2, parseB_cons2]
        by_cases h0 : a.toNat * 256 + b.toNat = 0
        · simp only [h0, if_true]; exact Rel2.nil
        · simp only [h0, if_false]
          by_cases h1 : rest.length < a.toNat * 256 + b.toNat
          · simp only [h1, if_true]; exact Rel2.nil
          · simp only [h1, if_false]
            cases hu : unpack I (rest.take (a.toNat * 256 + b.toNat)) with
            | none => exact Rel2.nil
            | some m =>
              simp only
              exact Rel2.cons hu (ih _ (by simp at h ⊢; omega))

/-- the frames behind `C27.extract` -/
def extractB (I : Idna) (tcp : Bool) (buf data : Bytes) : List Bytes :=
  if tcp then parseB I (buf ++ data)
  else match unpack I data with
    | none => []
    | some _ => [data]

theorem extract_frames (I : Idna) (tcp : Bool) (buf data : Bytes) :
    Rel2 (fun b m => unpack I b = some m) (extractB I tcp buf data) (extract I tcp buf data).1 := by
  unfold extractB extract
  cases tcp with
  | true => simpa using parse_frames I _ _ (Nat.le_refl _)
  | false =>
    simp only [Bool.false_eq_true, if_false]
    cases hu : unpack I data with
    | none => exact Rel2.nil
    | some m => exact Rel2.cons hu Rel2.nil

theorem Rel2.mem_right {α β : Type} {R : α → β → Prop} {as : List α} {bs : List β} (h : Rel2 R as bs) :
    ∀ b ∈ bs, ∃ a ∈ as, R a b := by
  induction h with
  | nil => intro b hb; cases hb
  | cons hab _ ih =>
    intro b hb
    rcases List.mem_cons.mp hb with rfl | hb
    · exact ⟨_, by simp, hab⟩
    · obtain ⟨a, ha, hr⟩ := ih b hb; exact ⟨a, by simp [ha], hr⟩

/-! ### what is sent when no addon interferes -/

/-- `o` is justified by the messages received so far: client messages `cm`, server messages `sm` -/
def OutFrom (c : Cfg) (cm sm : List Msg) : Out → Prop
  | .toServer m w => m ∈ cm ∧ ∃ b, pack c.I m = some b ∧ wireOf? c.tcp b = some w
  | .toClient m w => (m ∈ sm ∨ ∃ q ∈ cm, m = servfail q) ∧ ∃ b, pack c.I m = some b ∧ wireOf? c.tcp b = some w
  | _ => True

theorem OutFrom.mono {c : Cfg} {cm sm cm' sm' : List Msg} (h1 : ∀ m ∈ cm, m ∈ cm') (h2 : ∀ m ∈ sm, m ∈ sm') {o : Out}
    (h : OutFrom c cm sm o) : OutFrom c cm' sm' o := by
  cases o with
  | toServer m w => exact ⟨h1 m h.1, h.2⟩
  | toClient m w =>
    refine ⟨?_, h.2⟩
    rcases h.1 with h | ⟨q, hq, e⟩
    · exact Or.inl (h2 m h)
    · exact Or.inr ⟨q, h1 q hq, e⟩
  | _ => trivial

def Just (cm sm : List Msg) (m : Msg) : Prop := m ∈ sm ∨ ∃ q ∈ cm, m = servfail q

theorem consFrom {c : Cfg} {cm sm : List Msg} {l : List Out} {o : Out} (ho : OutFrom c cm sm o)
    (hl : ∀ x ∈ l, OutFrom c cm sm x) : ∀ x ∈ o :: l, OutFrom c cm sm x := by
  intro x hx
  rcases List.mem_cons.mp hx with rfl | hx
  · exact ho
  · exact hl x hx

theorem sendServer_acts (c : Cfg) (σ : Core) (m : Msg) : (sendServer c σ m).1.acts = σ.acts := by
  unfold sendServer
  cases hp : pack c.I m with
  | none => simp [crashed]
  | some b => cases hw : wireOf? c.tcp b <;> simp [crashed, hw]

theorem sendServer_outs (c : Cfg) (σ : Core) (m : Msg) (cm sm : List Msg) (hm : m ∈ cm) :
    ∀ o ∈ (sendServer c σ m).2, OutFrom c cm sm o := by
  unfold sendServer
  cases hp : pack c.I m with
  | none => simp [OutFrom]
  | some b =>
    cases hw : wireOf? c.tcp b with
    | none => simp only [hw]; simp [OutFrom]
    | some w => simp only [hw]; simp [OutFrom, hm, hp, hw]

theorem sendClient_acts (c : Cfg) (σ : Core) (m : Msg) : (sendClient c σ m).1.acts = σ.acts := by
  unfold sendClient
  cases hp : pack c.I m with
  | none => simp [crashed]
  | some b => cases hw : wireOf? c.tcp b <;> simp [crashed, hw]

theorem sendClient_outs (c : Cfg) (σ : Core) (m : Msg) (cm sm : List Msg) (hm : Just cm sm m) :
    ∀ o ∈ (sendClient c σ m).2, OutFrom c cm sm o := by
  unfold sendClient
  cases hp : pack c.I m with
  | none => simp [OutFrom]
  | some b =>
    cases hw : wireOf? c.tcp b with
    | none => simp only [hw]; simp [OutFrom]
    | some w =>
      simp only [hw, List.mem_singleton, forall_eq, OutFrom]
      exact ⟨hm, b, hp, hw⟩

theorem popAct_nil (σ : Core) (h : σ.acts = []) : popAct σ = (.pass, σ) := by
  unfold popAct; rw [h]

theorem handleError_acts (c : Cfg) (σ : Core) (k : Nat) (f : Flow) (h : σ.acts = []) :
    (handleError c σ k f).1.acts = [] := by
  unfold handleError
  simp only [popAct_nil σ h, applyAct]
  cases f.request with
  | none => simpa [crashed, setFlow] using h
  | some q => simp only; rw [sendClient_acts]; simpa [setFlow] using h

theorem handleError_outs (c : Cfg) (σ : Core) (k : Nat) (f : Flow) (cm sm : List Msg) (h : σ.acts = [])
    (hf : ∀ q, f.request = some q → q ∈ cm) : ∀ o ∈ (handleError c σ k f).2, OutFrom c cm sm o := by
  unfold handleError
  simp only [popAct_nil σ h, applyAct]
  cases hq : f.request with
  | none => simp [OutFrom]
  | some q =>
    simp only
    exact consFrom trivial (sendClient_outs c _ _ cm sm (Or.inr ⟨q, hf q hq, rfl⟩))

theorem handleResponse_acts (c : Cfg) (σ : Core) (k : Nat) (f : Flow) (m : Msg) (h : σ.acts = []) :
    (handleResponse c σ k f m).1.acts = [] := by
  unfold handleResponse
  simp only [popAct_nil σ h, applyAct]
  rw [sendClient_acts]; simpa [setFlow] using h

theorem handleResponse_outs (c : Cfg) (σ : Core) (k : Nat) (f : Flow) (m : Msg) (cm sm : List Msg) (h : σ.acts = [])
    (hm : m ∈ sm) : ∀ o ∈ (handleResponse c σ k f m).2, OutFrom c cm sm o := by
  unfold handleResponse
  simp only [popAct_nil σ h, applyAct]
  exact consFrom trivial (sendClient_outs c _ _ cm sm (Or.inl hm))

theorem popConn_acts (σ : Core) : (popConn σ).2.acts = σ.acts := by
  unfold popConn; split <;> rfl

theorem handleRequest_from (c : Cfg) (σ : Core) (k : Nat) (f : Flow) (q : Msg) (cm sm : List Msg) (h : σ.acts = [])
    (hq : q ∈ cm) (hf : f.response = none) :
    (handleRequest c σ k f q).1.acts = [] ∧ ∀ o ∈ (handleRequest c σ k f q).2, OutFrom c cm sm o := by
  unfold handleRequest
  simp only [popAct_nil σ h, applyAct, hf]
  have hreq : ∀ (F : Flow), F.request = some q → ∀ q', F.request = some q' → q' ∈ cm := by
    intro F hF q' e; rw [hF] at e; cases e; exact hq
  split
  · exact ⟨handleError_acts c _ _ _ (by simp [setFlow, h]),
      consFrom trivial (handleError_outs c _ _ _ cm sm (by simp [setFlow, h]) (hreq _ rfl))⟩
  · split
    · exact ⟨by rw [sendServer_acts]; simp [setFlow, h], consFrom trivial (sendServer_outs c _ _ cm sm hq)⟩
    · split
      · exact ⟨handleError_acts c _ _ _ (by simp [setFlow, h]),
          consFrom trivial (consFrom trivial (handleError_outs c _ _ _ cm sm (by simp [setFlow, h]) (hreq _ rfl)))⟩
      · split
        · exact ⟨by rw [sendServer_acts]; simp [setFlow, popConn_acts, h],
            consFrom trivial (consFrom trivial (sendServer_outs c _ _ cm sm hq))⟩
        · exact ⟨handleError_acts c _ _ _ (by simp [setFlow, popConn_acts, h]),
            consFrom trivial (consFrom trivial (handleError_outs c _ _ _ cm sm (by simp [setFlow, popConn_acts, h]) (hreq _ rfl)))⟩

theorem clientMsg_from (c : Cfg) (σ : Core) (q : Msg) (cm sm : List Msg) (h : σ.acts = []) (hq : q ∈ cm) :
    (clientMsg c σ q).1.acts = [] ∧ ∀ o ∈ (clientMsg c σ q).2, OutFrom c cm sm o := by
  unfold clientMsg
  exact handleRequest_from c _ _ _ q cm sm h hq (flowFor_response σ q.id)

theorem serverMsg_from (c : Cfg) (σ : Core) (m : Msg) (cm sm : List Msg) (h : σ.acts = []) (hm : m ∈ sm) :
    (serverMsg c σ m).1.acts = [] ∧ ∀ o ∈ (serverMsg c σ m).2, OutFrom c cm sm o := by
  unfold serverMsg
  split
  · exact ⟨h, by simp⟩
  · split
    · exact ⟨by simpa [crashed] using h, by simp [OutFrom]⟩
    · split
      · exact ⟨handleResponse_acts c σ _ _ m h, handleResponse_outs c σ _ _ m cm sm h hm⟩
      · exact ⟨h, by simp⟩

theorem handleMsgs_from (c : Cfg) (fc : Bool) (cm sm : List Msg) : ∀ (ms : List Msg) (σ : Core), σ.acts = [] →
    (∀ m ∈ ms, if fc then m ∈ cm else m ∈ sm) →
    (handleMsgs c fc σ ms).1.acts = [] ∧ ∀ o ∈ (handleMsgs c fc σ ms).2, OutFrom c cm sm o := by
  intro ms
  induction ms with
  | nil => intro σ h _; simp [handleMsgs, h]
  | cons m ms ih =>
    intro σ h hms
    simp only [handleMsgs]
    split
    · exact ⟨h, by simp⟩
    · have hm := hms m (by simp)
      have h1 : ((if fc then clientMsg c σ m else serverMsg c σ m).1.acts = [] ∧
          ∀ o ∈ (if fc then clientMsg c σ m else serverMsg c σ m).2, OutFrom c cm sm o) := by
        cases fc with
        | true => simpa using clientMsg_from c σ m cm sm h (by simpa using hm)
        | false => simpa using serverMsg_from c σ m cm sm h (by simpa using hm)
      obtain ⟨h2, ho2⟩ := ih _ h1.1 (fun x hx => hms x (by simp [hx]))
      refine ⟨h2, ?_⟩
      intro o ho
      rcases List.mem_append.mp ho with ho | ho
      · exact h1.2 o ho
      · exact ho2 o ho

/-! ### whole runs -/

/-- the frames one event delivers: (from the client, from the server); nothing once the layer has left `state_query` -/
def recvStep (c : Cfg) (σ : State) (ev : Ev) : List Bytes × List Bytes :=
  if σ.core.phase ≠ .query then ([], [])
  else
    match ev with
    | .clientData d => (extractB c.I c.tcp σ.reqBuf d, [])
    | .serverData d => if σ.core.serverOpen then ([], extractB c.I c.tcp σ.respBuf d) else ([], [])
    | _ => ([], [])

/-- all frames a schedule delivers, in order -/
def recvRun (c : Cfg) : State → List Ev → List Bytes × List Bytes
  | _, [] => ([], [])
  | σ, ev :: evs => ((recvStep c σ ev).1 ++ (recvRun c (step c σ ev).1 evs).1, (recvStep c σ ev).2 ++ (recvRun c (step c σ ev).1 evs).2)

/-- what the property demands of one output, given the frames received from the client (`fc`) and the server (`fs`) -/
def SentOk (c : Cfg) (fc fs : List Bytes) : Out → Prop
  | .toServer m w => ∃ b ∈ fc, unpack c.I b = some m ∧ ∃ b', pack c.I m = some b' ∧ wireOf? c.tcp b' = some w ∧
      ∀ d, DnsRef.decode b = some d → DnsRef.decode b' = some d
  | .toClient m w =>
      (∃ b ∈ fs, unpack c.I b = some m ∧ ∃ b', pack c.I m = some b' ∧ wireOf? c.tcp b' = some w ∧
        ∀ d, DnsRef.decode b = some d → DnsRef.decode b' = some d) ∨
      (∃ b ∈ fc, ∃ q, unpack c.I b = some q ∧ m = servfail q ∧ ∃ b', pack c.I m = some b' ∧ wireOf? c.tcp b' = some w)
  | _ => True

theorem SentOk.mono {c : Cfg} {fc fs fc' fs' : List Bytes} (h1 : ∀ b ∈ fc, b ∈ fc') (h2 : ∀ b ∈ fs, b ∈ fs') {o : Out}
    (h : SentOk c fc fs o) : SentOk c fc' fs' o := by
  cases o with
  | toServer m w => obtain ⟨b, hb, r⟩ := h; exact ⟨b, h1 b hb, r⟩
  | toClient m w =>
    rcases h with ⟨b, hb, r⟩ | ⟨b, hb, r⟩
    · exact Or.inl ⟨b, h2 b hb, r⟩
    · exact Or.inr ⟨b, h1 b hb, r⟩
  | _ => trivial

/-- from "justified by the messages" to "justified by the frames" -/
theorem SentOk_of_OutFrom {c : Cfg} {fc fs : List Bytes} {cm sm : List Msg}
    (hc : Rel2 (fun b m => unpack c.I b = some m) fc cm) (hs : Rel2 (fun b m => unpack c.I b = some m) fs sm)
    {o : Out} (h : OutFrom c cm sm o) : SentOk c fc fs o := by
  cases o with
  | toServer m w =>
    obtain ⟨hm, b', hp, hw⟩ := h
    obtain ⟨b, hb, hu⟩ := hc.mem_right m hm
    exact ⟨b, hb, hu, b', hp, hw, fun d hd => decode_packed (decode_agree hd hu) hp⟩
  | toClient m w =>
    obtain ⟨hm, b', hp, hw⟩ := h
    rcases hm with hm | ⟨q, hq, rfl⟩
    · obtain ⟨b, hb, hu⟩ := hs.mem_right m hm
      exact Or.inl ⟨b, hb, hu, b', hp, hw, fun d hd => decode_packed (decode_agree hd hu) hp⟩
    · obtain ⟨b, hb, hu⟩ := hc.mem_right q hq
      exact Or.inr ⟨b, hb, q, hu, rfl, b', hp, hw⟩
  | _ => trivial

theorem stepClient_sent (c : Cfg) (σ : State) (d : Bytes) (h : σ.core.acts = []) :
    (stepClient c σ d).1.core.acts = [] ∧ ∀ o ∈ (stepClient c σ d).2, SentOk c (extractB c.I c.tcp σ.reqBuf d) [] o := by
  have hf := extract_frames c.I c.tcp σ.reqBuf d
  obtain ⟨ha, ho⟩ := handleMsgs_from c true (extract c.I c.tcp σ.reqBuf d).1 [] (extract c.I c.tcp σ.reqBuf d).1 σ.core h
    (by intro m hm; simpa using hm)
  have hso : ∀ o ∈ (handleMsgs c true σ.core (extract c.I c.tcp σ.reqBuf d).1).2,
      SentOk c (extractB c.I c.tcp σ.reqBuf d) [] o := fun o hmem => SentOk_of_OutFrom hf Rel2.nil (ho o hmem)
  unfold stepClient
  simp only
  split
  · exact ⟨by simpa [ended] using ha, hso⟩
  · split
    · refine ⟨by simpa [ended] using ha, ?_⟩
      intro o hmem
      rcases List.mem_append.mp hmem with hmem | hmem
      · exact hso o hmem
      · simp at hmem; subst hmem; trivial
    · exact ⟨ha, hso⟩

theorem stepServer_sent (c : Cfg) (σ : State) (d : Bytes) (h : σ.core.acts = []) :
    (stepServer c σ d).1.core.acts = [] ∧ ∀ o ∈ (stepServer c σ d).2, SentOk c [] (extractB c.I c.tcp σ.respBuf d) o := by
  have hf := extract_frames c.I c.tcp σ.respBuf d
  obtain ⟨ha, ho⟩ := handleMsgs_from c false [] (extract c.I c.tcp σ.respBuf d).1 (extract c.I c.tcp σ.respBuf d).1 σ.core h
    (by intro m hm; simpa using hm)
  have hso : ∀ o ∈ (handleMsgs c false σ.core (extract c.I c.tcp σ.respBuf d).1).2,
      SentOk c [] (extractB c.I c.tcp σ.respBuf d) o := fun o hmem => SentOk_of_OutFrom Rel2.nil hf (ho o hmem)
  unfold stepServer
  simp only
  split
  · exact ⟨by simpa [ended] using ha, hso⟩
  · split
    · refine ⟨by simpa [ended] using ha, ?_⟩
      intro o hmem
      rcases List.mem_append.mp hmem with hmem | hmem
      · exact hso o hmem
      · simp at hmem; subst hmem; trivial
    · exact ⟨ha, hso⟩

theorem step_sent (c : Cfg) (σ : State) (ev : Ev) (h : σ.core.acts = []) :
    (step c σ ev).1.core.acts = [] ∧ ∀ o ∈ (step c σ ev).2, SentOk c (recvStep c σ ev).1 (recvStep c σ ev).2 o := by
  by_cases hq : σ.core.phase = .query
  · cases ev with
    | clientData d =>
      have e1 : step c σ (.clientData d) = stepClient c σ d := by simp [step, hq]
      have e2 : recvStep c σ (.clientData d) = (extractB c.I c.tcp σ.reqBuf d, []) := by simp [recvStep, hq]
      rw [e1, e2]; exact stepClient_sent c σ d h
    | serverData d =>
      by_cases hopen : σ.core.serverOpen = true
      · have e1 : step c σ (.serverData d) = stepServer c σ d := by simp [step, hq, hopen]
        have e2 : recvStep c σ (.serverData d) = ([], extractB c.I c.tcp σ.respBuf d) := by simp [recvStep, hq, hopen]
        rw [e1, e2]; exact stepServer_sent c σ d h
      · have e1 : step c σ (.serverData d) = (σ, []) := by simp [step, hq, hopen]
        rw [e1]; exact ⟨h, by simp⟩
    | clientClose =>
      have e1 : step c σ .clientClose = (ended { σ.core with phase := .done }, if σ.core.serverOpen then [.closeServer] else []) := by
        simp [step, hq]
      rw [e1]
      refine ⟨by simpa [ended] using h, ?_⟩
      intro o hmem
      split at hmem
      · simp at hmem; subst hmem; trivial
      · cases hmem
    | serverClose =>
      by_cases hopen : σ.core.serverOpen = true
      · have e1 : step c σ .serverClose = (ended { σ.core with phase := .done, serverOpen := false }, [.closeClient]) := by
          simp [step, hq, hopen]
        rw [e1]
        refine ⟨by simpa [ended] using h, ?_⟩
        intro o hmem; simp at hmem; subst hmem; trivial
      · have e1 : step c σ .serverClose = (σ, []) := by simp [step, hq, hopen]
        rw [e1]; exact ⟨h, by simp⟩
  · have e1 : step c σ ev = (σ, []) := by simp [step, hq]
    rw [e1]; exact ⟨h, by simp⟩

theorem run_sent (c : Cfg) : ∀ (evs : List Ev) (σ : State), σ.core.acts = [] →
    ∀ o ∈ (run c σ evs).2, SentOk c (recvRun c σ evs).1 (recvRun c σ evs).2 o := by
  intro evs
  induction evs with
  | nil => intro σ _ o ho; simp [run] at ho
  | cons ev evs ih =>
    intro σ h o ho
    obtain ⟨h1, hs⟩ := step_sent c σ ev h
    simp only [run] at ho
    simp only [recvRun]
    rcases List.mem_append.mp ho with ho | ho
    · exact (hs o ho).mono (fun b hb => by simp [hb]) (fun b hb => by simp [hb])
    · exact (ih _ h1 o ho).mono (fun b hb => by simp [hb]) (fun b hb => by simp [hb])

end MitmVerif.C26
