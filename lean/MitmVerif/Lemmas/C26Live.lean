/-
  C26, liveness: a message the specification decoder reads, whose owner/question labels are plain ASCII (no `xn--`, no
  dot), whose pointer chains are at most 127 hops deep and whose expanded record data fits 16 bits, IS decoded by the
  proxy's codec — so the layer forwards it.
-/
import MitmVerif.Lemmas.C26Msg
set_option linter.unusedVariables false
set_option linter.unusedSimpArgs false
namespace MitmVerif.C26
open MitmVerif MitmVerif.C25

/-- a label the codec model decodes without consulting the idna parameter -/
def plainLabel (l : Bytes) : Bool := isAscii l && !hasAce l && !l.contains 46

def plainLabels (ls : List Bytes) : Bool := ls.all plainLabel

theorem decLabel_plain (I : Idna) (l : Bytes) (hp : plainLabel l = true) (hne : l ≠ []) (hl : l.length < 64) :
    decLabel I l = some l := by
  simp only [plainLabel, Bool.and_eq_true, Bool.not_eq_true'] at hp
  obtain ⟨⟨ha, hace⟩, hdot⟩ := hp
  have hd : ¬ (46 : UInt8) ∈ l := by simpa using hdot
  have henc := encText_ascii_nodot I hne ha hd hl
  simp only [decLabel, decText, hace, Bool.false_eq_true, if_false, ha, if_true, henc, hdot]

theorem mapLabels_plain (I : Idna) : ∀ (ls : List Bytes), plainLabels ls = true → LabelsOk ls → mapLabels I ls = some ls := by
  intro ls
  induction ls with
  | nil => intro _ _; rfl
  | cons l ls ih =>
    intro hp hok
    simp only [plainLabels, List.all_cons, Bool.and_eq_true] at hp
    obtain ⟨hne, hl⟩ := hok l (by simp)
    simp [mapLabels, decLabel_plain I l hp.1 hne hl, ih (by simpa [plainLabels] using hp.2) (fun x hx => hok x (by simp [hx]))]

/-- the chain from `off` reaches a terminated name after `h` backward hops and every label on the way is plain -/
inductive NameOk (buf : Bytes) : Nat → Nat → Prop
  | stop {off : Nat} {ls : List Bytes} {n : Nat} : scanRaw (buf.drop off) = some (ls, n, none) → plainLabels ls = true →
      NameOk buf off 0
  | ptr {off t h : Nat} {ls : List Bytes} {n : Nat} : scanRaw (buf.drop off) = some (ls, n, some t) → plainLabels ls = true →
      t < off → NameOk buf t h → NameOk buf off (h + 1)

/-- no name is being unpacked below `off`: what holds between two top-level calls (no entry at all) and, inside a
    chain of backward pointers, for every target -/
def NoVisitingBelow (c : Cache) (off : Nat) : Prop := ∀ k, c.lookup k = some none → off < k

def NoVisiting (c : Cache) : Prop := ∀ k, c.lookup k ≠ some none

theorem unpackName_live (I : Idna) (buf : Bytes) : ∀ (off h : Nat), NameOk buf off h → ∀ (cache : Cache) (depth : Nat),
    depth + h ≤ maxPointerDepth → NoVisitingBelow cache off →
    ∃ r c', unpackName I buf off cache depth = some (r, c') ∧ ∀ k, c'.lookup k = some none → cache.lookup k = some none := by
  intro off h hok
  induction hok with
  | @stop off ls n hs hp =>
    intro cache depth hd hv
    cases hl : cache.lookup off with
    | some v =>
      cases v with
      | none => exact absurd (hv off hl) (Nat.lt_irrefl _)
      | some r => exact ⟨r, cache, unpackName_hit hl, fun k hk => hk⟩
    | none =>
      have hok := scanRaw_labels_ok _ _ (Nat.le_refl _) _ _ _ hs
      refine ⟨(joinDot ls, n), (off, some (joinDot ls, n)) :: (off, none) :: cache, ?_, ?_⟩
      · rw [unpackName_fresh hl, hs]; simp [show ¬ maxPointerDepth < depth by omega, mapLabels_plain I ls hp hok]
      · intro k hk
        simp only [List.lookup] at hk
        by_cases hko : k = off
        · subst hko; simp at hk
        · have : (k == off) = false := by simpa using hko
          simpa [this] using hk
  | @ptr off t h ls n hs hp ht _ ih =>
    intro cache depth hd hv
    cases hl : cache.lookup off with
    | some v =>
      cases v with
      | none => exact absurd (hv off hl) (Nat.lt_irrefl _)
      | some r => exact ⟨r, cache, unpackName_hit hl, fun k hk => hk⟩
    | none =>
      have hok := scanRaw_labels_ok _ _ (Nat.le_refl _) _ _ _ hs
      have hv1 : NoVisitingBelow ((off, none) :: cache) t := by
        intro k hk
        simp only [List.lookup] at hk
        by_cases hko : k = off
        · subst hko; exact ht
        · have : (k == off) = false := by simpa using hko
          simp only [this] at hk
          have := hv k hk; omega
      obtain ⟨⟨label, n2⟩, c2, hrec, hpost⟩ := ih ((off, none) :: cache) (depth + 1) (by omega) hv1
      refine ⟨(C25.nameOf ls label, n), (off, some (C25.nameOf ls label, n)) :: c2, ?_, ?_⟩
      · rw [unpackName_fresh hl, hs]; simp [show ¬ maxPointerDepth < depth by omega, mapLabels_plain I ls hp hok, hrec]
      · intro k hk
        simp only [List.lookup] at hk
        by_cases hko : k = off
        · subst hko; simp at hk
        · have hne : (k == off) = false := by simpa using hko
          simp only [hne] at hk
          have := hpost k hk
          simpa [List.lookup, hne] using this

/-! ### how deep the specification's pointer chain is -/

/-- number of pointer hops the specification decoder takes from `off` (same walk as `DnsRef.nameF`) -/
def hopsF : Nat → Bytes → Nat → Nat
  | fuel, buf, off =>
    match scanRaw (buf.drop off) with
    | some (_, _, some t) =>
      if t < off then
        match fuel with
        | 0 => 0
        | f + 1 => 1 + hopsF f buf t
      else 0
    | _ => 0

def hops (buf : Bytes) (off : Nat) : Nat := hopsF off buf off

theorem hopsF_unfold (fuel : Nat) (buf : Bytes) (off : Nat) : hopsF fuel buf off =
    match scanRaw (buf.drop off) with
    | some (_, _, some t) =>
      if t < off then
        match fuel with
        | 0 => 0
        | f + 1 => 1 + hopsF f buf t
      else 0
    | _ => 0 := by
  rw [hopsF.eq_def]

theorem hopsF_fuel (buf : Bytes) : ∀ (off f1 f2 : Nat), off ≤ f1 → off ≤ f2 → hopsF f1 buf off = hopsF f2 buf off := by
  intro off
  induction off using Nat.strongRecOn with
  | _ off ih =>
    intro f1 f2 h1 h2
    rw [hopsF_unfold f1, hopsF_unfold f2]
    cases hs : scanRaw (buf.drop off) with
    | none => rfl
    | some r =>
      obtain ⟨ls, n, p⟩ := r
      cases p with
      | none => rfl
      | some t =>
        simp only
        by_cases ht : t < off
        · simp only [ht, if_true]
          cases f1 with
          | zero => omega
          | succ g1 =>
            cases f2 with
            | zero => omega
            | succ g2 => simp only; rw [ih t ht g1 g2 (by omega) (by omega)]
        · simp [ht]

theorem hops_ptr {buf : Bytes} {off t n : Nat} {ls : List Bytes} (hs : scanRaw (buf.drop off) = some (ls, n, some t))
    (ht : t < off) : hops buf off = 1 + hops buf t := by
  unfold hops
  rw [hopsF_unfold, hs]
  simp only [ht, if_true]
  cases off with
  | zero => omega
  | succ k => simp only; rw [hopsF_fuel buf t k t (by omega) (Nat.le_refl _)]

theorem plainLabels_append (a b : List Bytes) : plainLabels (a ++ b) = (plainLabels a && plainLabels b) := by
  simp [plainLabels, List.all_append]

/-- a name the specification reads, with plain labels, is `NameOk` at its hop count -/
theorem nameOk_of_name (buf : Bytes) : ∀ (off : Nat) (ls : List Bytes) (n : Nat), DnsRef.name buf off = some (ls, n) →
    plainLabels ls = true → NameOk buf off (hops buf off) := by
  intro off
  induction off using Nat.strongRecOn with
  | _ off ih =>
    intro ls n hname hp
    rw [name_unfold] at hname
    cases hs : scanRaw (buf.drop off) with
    | none => simp [hs] at hname
    | some r =>
      obtain ⟨raws, n0, ptr⟩ := r
      simp only [hs] at hname
      cases ptr with
      | none =>
        simp at hname; obtain ⟨rfl, rfl⟩ := hname
        have h0 : hops buf off = 0 := by unfold hops; rw [hopsF_unfold, hs]
        rw [h0]; exact .stop hs hp
      | some t =>
        simp only at hname
        by_cases ht : t < off
        · simp only [ht, if_true] at hname
          cases hn2 : DnsRef.name buf t with
          | none => simp [hn2] at hname
          | some r2 =>
            obtain ⟨ls2, m2⟩ := r2
            simp [hn2] at hname
            obtain ⟨rfl, rfl⟩ := hname
            rw [plainLabels_append, Bool.and_eq_true] at hp
            rw [hops_ptr hs ht, Nat.add_comm]
            exact .ptr hs hp.1 ht (ih t ht ls2 m2 hn2 hp.2)
        · simp [ht] at hname

/-! ### whole messages -/

/-- no pointer chain of the buffer is deeper than the decoder's nesting limit -/
def Shallow (buf : Bytes) : Prop := ∀ off, hops buf off ≤ maxPointerDepth

theorem NoVisiting.below {c : Cache} (h : NoVisiting c) (off : Nat) : NoVisitingBelow c off :=
  fun k hk => absurd hk (h k)

theorem name_live (I : Idna) (buf : Bytes) (hsh : Shallow buf) (pos : Nat) (ls : List Bytes) (n : Nat) (cache : Cache)
    (hn : DnsRef.name buf pos = some (ls, n)) (hp : plainLabels ls = true) (hca : CacheAgree I buf cache) (hnv : NoVisiting cache) :
    ∃ t c', unpackName I buf pos cache 0 = some ((t, n), c') ∧ NameRel I t ls ∧ CacheAgree I buf c' ∧ NoVisiting c' := by
  obtain ⟨⟨t, n'⟩, c', hu, hpost⟩ := unpackName_live I buf pos _ (nameOk_of_name buf pos ls n hn hp) cache 0
    (by simpa using hsh pos) (hnv.below pos)
  obtain ⟨rfl, hrel, hca'⟩ := unpackName_agrees I buf pos ls n hn cache 0 t n' c' hca hu
  exact ⟨t, c', hu, hrel, hca', fun k hk => hnv k (hpost k hk)⟩

theorem questions_live (I : Idna) (buf : Bytes) (hsh : Shallow buf) : ∀ (k pos : Nat) (cache : Cache) (rqs : List DnsRef.RQ) (p : Nat),
    DnsRef.questions buf k pos = some (rqs, p) → (∀ rq ∈ rqs, plainLabels rq.labels = true) →
    CacheAgree I buf cache → NoVisiting cache →
    ∃ qs c', unpackQuestions I buf k pos cache = some (qs, p, c') ∧ CacheAgree I buf c' ∧ NoVisiting c' := by
  intro k
  induction k with
  | zero =>
    intro pos cache rqs p hr _ hca hnv
    simp [DnsRef.questions] at hr; obtain ⟨rfl, rfl⟩ := hr
    exact ⟨[], cache, by simp [unpackQuestions], hca, hnv⟩
  | succ k ih =>
    intro pos cache rqs p hr hpl hca hnv
    simp only [DnsRef.questions] at hr
    cases hn : DnsRef.name buf pos with
    | none => simp [hn] at hr
    | some rn =>
      obtain ⟨ls, n⟩ := rn
      simp only [hn] at hr
      cases ht : getU16 buf (pos + n) with
      | none => simp [ht] at hr
      | some ty =>
        cases hc : getU16 buf (pos + n + 2) with
        | none => simp [ht, hc] at hr
        | some cl =>
          simp only [ht, hc] at hr
          cases hrq : DnsRef.questions buf k (pos + n + 4) with
          | none => simp [hrq] at hr
          | some rr =>
            obtain ⟨rqs2, p2⟩ := rr
            simp [hrq] at hr
            obtain ⟨rfl, rfl⟩ := hr
            obtain ⟨t, c1, hu, _, hca1, hnv1⟩ := name_live I buf hsh pos ls n cache hn (hpl ⟨ls, ty, cl⟩ (by simp)) hca hnv
            obtain ⟨qs2, c2, hu2, hca2, hnv2⟩ := ih _ c1 rqs2 _ hrq (fun rq hrq' => hpl rq (by simp [hrq'])) hca1 hnv1
            exact ⟨⟨t, ty, cl⟩ :: qs2, c2, by simp [unpackQuestions, hu, ht, hc, hu2], hca2, hnv2⟩

theorem rrData_of_ref {buf : Bytes} {pos len ty : Nat} {d : Bytes} (h : DnsRef.rdata buf pos len ty = some d)
    (hle : pos + len ≤ buf.length) (hd : d.length ≤ 65535) : rrData buf pos len ty = some d := by
  unfold DnsRef.rdata at h
  unfold rrData
  rw [layout_agrees]
  cases hL : DnsRef.layout ty with
  | none => simp [hL] at h ⊢; exact h
  | some L =>
    simp only [hL] at h ⊢
    rw [walk_agrees buf L pos len d h hle]
    have : ¬ 65535 < d.length := by omega
    simp [this]

theorem records_live (I : Idna) (buf : Bytes) (hsh : Shallow buf) : ∀ (k pos : Nat) (cache : Cache) (rrs : List DnsRef.RRec) (p : Nat),
    DnsRef.records buf k pos = some (rrs, p) → (∀ rr ∈ rrs, plainLabels rr.labels = true ∧ rr.rdata.length ≤ 65535) →
    CacheAgree I buf cache → NoVisiting cache →
    ∃ rs c', unpackRRs I buf k pos cache = some (rs, p, c') ∧ CacheAgree I buf c' ∧ NoVisiting c' := by
  intro k
  induction k with
  | zero =>
    intro pos cache rrs p hr _ hca hnv
    simp [DnsRef.records] at hr; obtain ⟨rfl, rfl⟩ := hr
    exact ⟨[], cache, by simp [unpackRRs], hca, hnv⟩
  | succ k ih =>
    intro pos cache rrs p hr hpl hca hnv
    simp only [DnsRef.records] at hr
    cases hn : DnsRef.name buf pos with
    | none => simp [hn] at hr
    | some rn =>
      obtain ⟨ls, n⟩ := rn
      simp only [hn] at hr
      cases ht : getU16 buf (pos + n) with
      | none => simp [ht] at hr
      | some ty =>
        cases hc : getU16 buf (pos + n + 2) with
        | none => simp [ht, hc] at hr
        | some cl =>
          cases httl : getU32 buf (pos + n + 4) with
          | none => simp [ht, hc, httl] at hr
          | some ttl =>
            cases hl : getU16 buf (pos + n + 8) with
            | none => simp [ht, hc, httl, hl] at hr
            | some len =>
              simp only [ht, hc, httl, hl] at hr
              by_cases hlen : buf.length < pos + n + 10 + len
              · simp [hlen] at hr
              · simp only [hlen, if_false] at hr
                cases hrd : DnsRef.rdata buf (pos + n + 10) len ty with
                | none => simp [hrd] at hr
                | some d =>
                  simp only [hrd] at hr
                  cases hrq : DnsRef.records buf k (pos + n + 10 + len) with
                  | none => simp [hrq] at hr
                  | some rr =>
                    obtain ⟨rrs2, p2⟩ := rr
                    simp [hrq] at hr
                    obtain ⟨rfl, rfl⟩ := hr
                    obtain ⟨hpl1, hsz⟩ := hpl ⟨ls, ty, cl, ttl, d⟩ (by simp)
                    obtain ⟨t, c1, hu, _, hca1, hnv1⟩ := name_live I buf hsh pos ls n cache hn hpl1 hca hnv
                    have hdata := rrData_of_ref hrd (by omega) hsz
                    obtain ⟨rs2, c2, hu2, hca2, hnv2⟩ := ih _ c1 rrs2 _ hrq (fun rr hrr => hpl rr (by simp [hrr])) hca1 hnv1
                    exact ⟨⟨t, ty, cl, ttl, d⟩ :: rs2, c2, by simp [unpackRRs, hu, ht, hc, httl, hl, hlen, hdata, hu2], hca2, hnv2⟩

/-- a specification message whose owner and question names are made of plain labels and whose canonical record data
    fits the 16-bit length field -/
def Plain (d : DnsRef.RMsg) : Prop :=
  (∀ q ∈ d.questions, plainLabels q.labels = true) ∧
  (∀ r ∈ d.answers ++ d.authorities ++ d.additionals, plainLabels r.labels = true ∧ r.rdata.length ≤ 65535)

/-- the codec decodes every such message -/
theorem unpack_live (I : Idna) (b : Bytes) (d : DnsRef.RMsg) (hd : DnsRef.decode b = some d) (hp : Plain d) (hsh : Shallow b) :
    ∃ m, unpack I b = some m := by
  unfold DnsRef.decode at hd
  split at hd
  · next id flags nq nan nns nar h1 h2 h3 h4 h5 h6 =>
    cases hq : DnsRef.questions b nq 12 with
    | none => simp [hq] at hd
    | some x1 =>
      obtain ⟨rqs, p1⟩ := x1
      simp only [hq] at hd
      cases ha : DnsRef.records b nan p1 with
      | none => simp [ha] at hd
      | some x2 =>
        obtain ⟨ran, p2⟩ := x2
        simp only [ha] at hd
        cases hn : DnsRef.records b nns p2 with
        | none => simp [hn] at hd
        | some x3 =>
          obtain ⟨rns, p3⟩ := x3
          simp only [hn] at hd
          cases hr : DnsRef.records b nar p3 with
          | none => simp [hr] at hd
          | some x4 =>
            obtain ⟨rar, p4⟩ := x4
            simp only [hr] at hd
            by_cases hlen : p4 = b.length
            · simp only [hlen, if_true] at hd
              cases hd
              obtain ⟨hpq, hpr⟩ := hp
              simp only at hpq hpr
              have hca0 : CacheAgree I b [] := by intro k t n hk; simp at hk
              have hnv0 : NoVisiting [] := by intro k hk; simp at hk
              obtain ⟨qs, c1, u1, a1, v1⟩ := questions_live I b hsh _ _ _ _ _ hq hpq hca0 hnv0
              obtain ⟨an, c2, u2, a2, v2⟩ := records_live I b hsh _ _ _ _ _ ha (fun r hr' => hpr r (by simp [hr'])) a1 v1
              obtain ⟨ns, c3, u3, a3, v3⟩ := records_live I b hsh _ _ _ _ _ hn (fun r hr' => hpr r (by simp [hr'])) a2 v2
              obtain ⟨ar, c4, u4, a4, v4⟩ := records_live I b hsh _ _ _ _ _ hr (fun r hr' => hpr r (by simp [hr'])) a3 v3
              simp [unpack, unpackFrom, h1, h2, h3, h4, h5, h6, u1, u2, u3, u4, hlen]
            · simp [hlen] at hd
  · cases hd

/-! ### the specification's canonical RDATA is `rdataPlain` -/

theorem plainName_wire (ls : List Bytes) (rest : Bytes) (hok : LabelsOk ls) :
    plainName (wire ls ++ 0 :: rest) = .done ((wire ls).length + 1) := by
  induction ls with
  | nil => simp [wire, plainName_cons]
  | cons l ls ih =>
    obtain ⟨hne, hl⟩ := hok l (by simp)
    have hpos : 0 < l.length := List.length_pos_iff.mpr hne
    have htn : (UInt8.ofNat l.length).toNat = l.length := toNat_ofNat_lt (by omega)
    rw [wire_cons]
    simp only [List.cons_append, List.append_assoc]
    rw [plainName_cons, htn]
    have h1 : ¬ 192 ≤ l.length := by omega
    have h2 : ¬ (64 ≤ l.length ∨ (l ++ (wire ls ++ 0 :: rest)).length < l.length) := by simp; omega
    have h3 : ¬ l.length = 0 := by omega
    simp only [h1, h2, h3, if_false]
    rw [List.drop_left, ih (fun x hx => hok x (by simp [hx]))]
    simp; omega

theorem drop_append_of_length {α} {a b : List α} {k : Nat} (h : a.length = k) : (a ++ b).drop k = b := by
  subst h; exact List.drop_left

theorem rdataF_plain (buf : Bytes) : ∀ (L : List Field) (pos rem : Nat) (d : Bytes),
    DnsRef.rdataF buf L pos rem = some d → pos + rem ≤ buf.length → plainWalk L d = true := by
  intro L
  induction L with
  | nil => intro pos rem d _ _; simp [plainWalk]
  | cons f fs ih =>
    intro pos rem d h hle
    cases f with
    | name =>
      simp only [DnsRef.rdataF] at h
      cases hn : DnsRef.name buf pos with
      | none => simp [hn] at h
      | some r =>
        obtain ⟨ls, n⟩ := r
        simp only [hn] at h
        by_cases hrem : rem < n
        · simp [hrem] at h
        · simp only [hrem, if_false] at h
          cases hrest : DnsRef.rdataF buf fs (pos + n) (rem - n) with
          | none => simp [hrest] at h
          | some d' =>
            simp [hrest] at h
            subst h
            have hok := name_labels_ok buf pos ls n hn
            simp only [plainWalk]
            have : wire ls ++ (0 :: d') = wire ls ++ 0 :: d' := rfl
            rw [plainName_wire ls d' hok]
            simp only
            have hdrop : (wire ls ++ 0 :: d').drop ((wire ls).length + 1) = d' := by
              have : wire ls ++ 0 :: d' = (wire ls ++ [0]) ++ d' := by simp
              rw [this]
              have hl : (wire ls ++ [0]).length = (wire ls).length + 1 := by simp
              rw [← hl, List.drop_left]
            rw [hdrop]
            exact ih (pos + n) (rem - n) d' hrest (by omega)
    | fixed k =>
      simp only [DnsRef.rdataF] at h
      by_cases hk : rem < k
      · simp [hk] at h
      · simp only [hk, if_false] at h
        cases hrest : DnsRef.rdataF buf fs (pos + k) (rem - k) with
        | none => simp [hrest] at h
        | some d' =>
          simp [hrest] at h
          subst h
          have hcl : ((buf.drop pos).take k).length = k := take_length_of_le (by omega)
          simp only [plainWalk]
          have hlen : ¬ ((buf.drop pos).take k ++ d').length < k := by simp [hcl]
          simp only [hlen, if_false]
          have : ((buf.drop pos).take k ++ d').drop k = d' := drop_append_of_length hcl
          rw [this]
          exact ih (pos + k) (rem - k) d' hrest (by omega)
    | cstr =>
      simp only [DnsRef.rdataF] at h
      cases hbp : buf.drop pos with
      | nil => simp [hbp] at h
      | cons c tl =>
        simp only [hbp] at h
        by_cases hk : rem < 1 + c.toNat
        · simp [hk] at h
        · simp only [hk, if_false] at h
          cases hrest : DnsRef.rdataF buf fs (pos + (1 + c.toNat)) (rem - (1 + c.toNat)) with
          | none => simp [hrest] at h
          | some d' =>
            simp [hrest] at h
            subst h
            have hcl : ((c :: tl).take (1 + c.toNat)).length = 1 + c.toNat := by
              rw [← hbp]; exact take_length_of_le (by omega)
            have hchunk : (c :: tl).take (1 + c.toNat) = c :: tl.take c.toNat := by rw [Nat.add_comm]; rfl
            rw [hchunk] at hcl ⊢
            simp only [List.cons_append, plainWalk]
            have hlen : ¬ (c :: (tl.take c.toNat ++ d')).length < 1 + c.toNat := by
              have : (c :: (tl.take c.toNat ++ d')).length = (c :: tl.take c.toNat).length + d'.length := by simp; omega
              rw [this, hcl]; omega
            simp only [hlen, if_false]
            have : (c :: (tl.take c.toNat ++ d')).drop (1 + c.toNat) = d' := by
              have e : c :: (tl.take c.toNat ++ d') = (c :: tl.take c.toNat) ++ d' := rfl
              rw [e]; exact drop_append_of_length hcl
            rw [this]
            exact ih _ _ d' hrest (by omega)

theorem rdata_plain {buf : Bytes} {pos len ty : Nat} {d : Bytes} (h : DnsRef.rdata buf pos len ty = some d)
    (hle : pos + len ≤ buf.length) : rdataPlain ty d = true := by
  unfold DnsRef.rdata at h
  unfold rdataPlain
  rw [layout_agrees]
  cases hL : DnsRef.layout ty with
  | none => rfl
  | some L => simp only [hL] at h ⊢; exact rdataF_plain buf L pos len d h hle

/-! ### the precondition of delivery as a computation (tied to its Python twin by driver op `live`) -/

def plainMsg (d : DnsRef.RMsg) : Bool :=
  d.questions.all (fun q => plainLabels q.labels) &&
  (d.answers ++ d.authorities ++ d.additionals).all (fun r => plainLabels r.labels && decide (r.rdata.length ≤ 65535))

def shallowBuf (b : Bytes) : Bool := (List.range b.length).all (fun off => decide (hops b off ≤ maxPointerDepth))

def liveCheck (b : Bytes) : Bool :=
  match DnsRef.decode b with
  | none => false
  | some d => plainMsg d && shallowBuf b

theorem hops_out_of_range (b : Bytes) (off : Nat) (h : b.length ≤ off) : hops b off = 0 := by
  unfold hops; rw [hopsF_unfold, List.drop_eq_nil_of_le h, scanRaw_nil]

theorem shallow_of_check (b : Bytes) (h : shallowBuf b = true) : Shallow b := by
  intro off
  by_cases ho : off < b.length
  · simp only [shallowBuf, List.all_eq_true, List.mem_range, decide_eq_true_eq] at h
    exact h off ho
  · rw [hops_out_of_range b off (by omega)]; exact Nat.zero_le _

theorem plain_of_check (d : DnsRef.RMsg) (h : plainMsg d = true) : Plain d := by
  simp only [plainMsg, Bool.and_eq_true, List.all_eq_true, decide_eq_true_eq] at h
  exact ⟨h.1, fun r hr => h.2 r hr⟩

end MitmVerif.C26
