/-
  C26, message level: (A) what `unpack` returns is related to what the specification decoder reads from the same bytes;
  (B) the specification decoder reads `pack` of a related message as the same specification message.
-/
import MitmVerif.Lemmas.C26
set_option linter.unusedVariables false
set_option linter.unusedSimpArgs false
namespace MitmVerif.C26
open MitmVerif MitmVerif.C25

/-- element-wise relation between two lists -/
inductive Rel2 {α β : Type} (R : α → β → Prop) : List α → List β → Prop
  | nil : Rel2 R [] []
  | cons {a : α} {b : β} {as : List α} {bs : List β} : R a b → Rel2 R as bs → Rel2 R (a :: as) (b :: bs)

theorem Rel2.length_eq {α β : Type} {R : α → β → Prop} {as : List α} {bs : List β} (h : Rel2 R as bs) :
    as.length = bs.length := by
  induction h with
  | nil => rfl
  | cons _ _ ih => simp [ih]

structure QRel (I : Idna) (q : Question) (rq : DnsRef.RQ) : Prop where
  name : NameRel I q.name rq.labels
  type : q.type = rq.type
  cls : q.cls = rq.cls
  tlt : q.type < 65536
  clt : q.cls < 65536

structure RRel (I : Idna) (r : RR) (rr : DnsRef.RRec) : Prop where
  name : NameRel I r.name rr.labels
  type : r.type = rr.type
  cls : r.cls = rr.cls
  ttl : r.ttl = rr.ttl
  data : r.data = rr.rdata
  canon : CanonRdata rr.type rr.rdata
  tlt : r.type < 65536
  clt : r.cls < 65536
  ttllt : r.ttl < 4294967296
  dlen : r.data.length < 65536

/-! ### (A) -/

theorem questions_agree (I : Idna) (buf : Bytes) : ∀ (k pos : Nat) (cache : Cache) (rqs : List DnsRef.RQ) (p : Nat)
    (qs : List Question) (off' : Nat) (c' : Cache),
    DnsRef.questions buf k pos = some (rqs, p) → CacheAgree I buf cache →
    unpackQuestions I buf k pos cache = some (qs, off', c') →
    off' = p ∧ Rel2 (QRel I) qs rqs ∧ CacheAgree I buf c' := by
  intro k
  induction k with
  | zero =>
    intro pos cache rqs p qs off' c' hr hca hu
    simp [DnsRef.questions] at hr; simp [unpackQuestions] at hu
    obtain ⟨rfl, rfl⟩ := hr; obtain ⟨rfl, rfl, rfl⟩ := hu
    exact ⟨rfl, Rel2.nil, hca⟩
  | succ k ih =>
    intro pos cache rqs p qs off' c' hr hca hu
    simp only [DnsRef.questions] at hr
    simp only [unpackQuestions] at hu
    cases hn : DnsRef.name buf pos with
    | none => simp [hn] at hr
    | some rn =>
      obtain ⟨ls, n⟩ := rn
      simp only [hn] at hr
      cases hun : unpackName I buf pos cache 0 with
      | none => simp [hun] at hu
      | some ru =>
        obtain ⟨⟨name, n'⟩, c1⟩ := ru
        simp only [hun] at hu
        obtain ⟨rfl, hrel, hca1⟩ := unpackName_agrees I buf pos ls n hn cache 0 name n' c1 hca hun
        cases ht : getU16 buf (pos + n') with
        | none => simp [ht] at hu
        | some ty =>
          cases hc : getU16 buf (pos + n' + 2) with
          | none => simp [ht, hc] at hu
          | some cl =>
            simp only [ht, hc] at hu hr
            cases hrq : DnsRef.questions buf k (pos + n' + 4) with
            | none => simp [hrq] at hr
            | some rr =>
              obtain ⟨rqs2, p2⟩ := rr
              simp [hrq] at hr
              obtain ⟨rfl, rfl⟩ := hr
              cases huq : unpackQuestions I buf k (pos + n' + 4) c1 with
              | none => simp [huq] at hu
              | some ruq =>
                obtain ⟨qs2, o2, c2⟩ := ruq
                simp [huq] at hu
                obtain ⟨rfl, rfl, rfl⟩ := hu
                obtain ⟨rfl, hf, hca2⟩ := ih _ _ _ _ _ _ _ hrq hca1 huq
                exact ⟨rfl, Rel2.cons ⟨hrel, rfl, rfl, getU16_lt ht, getU16_lt hc⟩ hf, hca2⟩

theorem records_agree (I : Idna) (buf : Bytes) : ∀ (k pos : Nat) (cache : Cache) (rrs : List DnsRef.RRec) (p : Nat)
    (rs : List RR) (off' : Nat) (c' : Cache),
    DnsRef.records buf k pos = some (rrs, p) → CacheAgree I buf cache →
    unpackRRs I buf k pos cache = some (rs, off', c') →
    off' = p ∧ Rel2 (RRel I) rs rrs ∧ CacheAgree I buf c' := by
  intro k
  induction k with
  | zero =>
    intro pos cache rrs p rs off' c' hr hca hu
    simp [DnsRef.records] at hr; simp [unpackRRs] at hu
    obtain ⟨rfl, rfl⟩ := hr; obtain ⟨rfl, rfl, rfl⟩ := hu
    exact ⟨rfl, Rel2.nil, hca⟩
  | succ k ih =>
    intro pos cache rrs p rs off' c' hr hca hu
    simp only [DnsRef.records] at hr
    simp only [unpackRRs] at hu
    cases hn : DnsRef.name buf pos with
    | none => simp [hn] at hr
    | some rn =>
      obtain ⟨ls, n⟩ := rn
      simp only [hn] at hr
      cases hun : unpackName I buf pos cache 0 with
      | none => simp [hun] at hu
      | some ru =>
        obtain ⟨⟨name, n'⟩, c1⟩ := ru
        simp only [hun] at hu
        obtain ⟨rfl, hrel, hca1⟩ := unpackName_agrees I buf pos ls n hn cache 0 name n' c1 hca hun
        cases ht : getU16 buf (pos + n') with
        | none => simp [ht] at hu
        | some ty =>
          cases hc : getU16 buf (pos + n' + 2) with
          | none => simp [ht, hc] at hu
          | some cl =>
            cases httl : getU32 buf (pos + n' + 4) with
            | none => simp [ht, hc, httl] at hu
            | some ttl =>
              cases hl : getU16 buf (pos + n' + 8) with
              | none => simp [ht, hc, httl, hl] at hu
              | some len =>
                simp only [ht, hc, httl, hl] at hu hr
                by_cases hlen : buf.length < pos + n' + 10 + len
                · simp [hlen] at hu
                · simp only [hlen, if_false] at hu hr
                  cases hrd : DnsRef.rdata buf (pos + n' + 10) len ty with
                  | none => simp [hrd] at hr
                  | some d =>
                    simp only [hrd] at hr
                    cases hud : rrData buf (pos + n' + 10) len ty with
                    | none => simp [hud] at hu
                    | some d' =>
                      simp only [hud] at hu
                      have hdd : d' = d := rrData_agrees hrd (by omega) hud
                      subst hdd
                      cases hrq : DnsRef.records buf k (pos + n' + 10 + len) with
                      | none => simp [hrq] at hr
                      | some rr =>
                        obtain ⟨rrs2, p2⟩ := rr
                        simp [hrq] at hr
                        obtain ⟨rfl, rfl⟩ := hr
                        cases huq : unpackRRs I buf k (pos + n' + 10 + len) c1 with
                        | none => simp [huq] at hu
                        | some ruq =>
                          obtain ⟨rs2, o2, c2⟩ := ruq
                          simp [huq] at hu
                          obtain ⟨rfl, rfl, rfl⟩ := hu
                          obtain ⟨rfl, hf, hca2⟩ := ih _ _ _ _ _ _ _ hrq hca1 huq
                          exact ⟨rfl, Rel2.cons
                            ⟨hrel, rfl, rfl, rfl, rfl, rdata_canon hrd (by omega), getU16_lt ht, getU16_lt hc, getU32_lt httl,
                              rrData_len hud (getU16_lt hl)⟩ hf, hca2⟩

structure MsgRel (I : Idna) (m : Msg) (d : DnsRef.RMsg) : Prop where
  id : m.id = d.id
  idlt : m.id < 65536
  op : m.opCode < 16
  res : m.reserved < 8
  rc : m.rcode < 16
  flags : flagsOf m = d.flags
  qs : Rel2 (QRel I) m.questions d.questions
  an : Rel2 (RRel I) m.answers d.answers
  ns : Rel2 (RRel I) m.authorities d.authorities
  ar : Rel2 (RRel I) m.additionals d.additionals
  nq : m.questions.length < 65536
  nan : m.answers.length < 65536
  nns : m.authorities.length < 65536
  nar : m.additionals.length < 65536

theorem flags_recompose (fl : Nat) (h : fl < 65536) :
    (if decide (fl / 32768 % 2 = 0) = true then 0 else 32768) + fl / 2048 % 16 * 2048 + b2n (decide (fl / 1024 % 2 = 1)) * 1024 +
      b2n (decide (fl / 512 % 2 = 1)) * 512 + b2n (decide (fl / 256 % 2 = 1)) * 256 + b2n (decide (fl / 128 % 2 = 1)) * 128 +
      fl / 16 % 8 * 16 + fl % 16 = fl := by
  unfold b2n
  by_cases h1 : fl / 32768 % 2 = 0 <;> by_cases h2 : fl / 1024 % 2 = 1 <;> by_cases h3 : fl / 512 % 2 = 1 <;>
    by_cases h4 : fl / 256 % 2 = 1 <;> by_cases h5 : fl / 128 % 2 = 1 <;> simp [h1, h2, h3, h4, h5] <;> omega

theorem unpackQuestions_length {I : Idna} {buf : Bytes} : ∀ (k off : Nat) (c : Cache) (qs : List Question) (o : Nat) (c' : Cache),
    unpackQuestions I buf k off c = some (qs, o, c') → qs.length = k := by
  intro k
  induction k with
  | zero => intro off c qs o c' h; simp [unpackQuestions] at h; simp [h.1]
  | succ k ih =>
    intro off c qs o c' h
    simp only [unpackQuestions] at h
    split at h
    · cases h
    · split at h
      · split at h
        · cases h
        · next hrec => simp at h; obtain ⟨rfl, _, _⟩ := h; simp [ih _ _ _ _ _ hrec]
      · cases h

theorem unpackRRs_length {I : Idna} {buf : Bytes} : ∀ (k off : Nat) (c : Cache) (rs : List RR) (o : Nat) (c' : Cache),
    unpackRRs I buf k off c = some (rs, o, c') → rs.length = k := by
  intro k
  induction k with
  | zero => intro off c rs o c' h; simp [unpackRRs] at h; simp [h.1]
  | succ k ih =>
    intro off c rs o c' h
    simp only [unpackRRs] at h
    split at h
    · cases h
    · split at h
      · split at h
        · cases h
        · split at h
          · cases h
          · split at h
            · cases h
            · next hrec => simp at h; obtain ⟨rfl, _, _⟩ := h; simp [ih _ _ _ _ _ hrec]
      · cases h

/-- (A) on the same bytes, the decoder's message is related to the specification's message -/
theorem decode_agree {I : Idna} {b : Bytes} {m : Msg} {d : DnsRef.RMsg} (hd : DnsRef.decode b = some d)
    (hu : unpack I b = some m) : MsgRel I m d := by
  unfold unpack at hu
  cases hf : unpackFrom I b with
  | none => simp [hf] at hu
  | some r =>
    obtain ⟨n, m'⟩ := r
    simp only [hf] at hu
    split at hu
    · cases hu
      unfold unpackFrom at hf
      unfold DnsRef.decode at hd
      split at hf
      · next id flags nq nan nns nar h1 h2 h3 h4 h5 h6 =>
        simp only [h1, h2, h3, h4, h5, h6] at hd
        cases hq : unpackQuestions I b nq 12 [] with
        | none => simp [hq] at hf
        | some r1 =>
          obtain ⟨qs, o1, c1⟩ := r1
          simp only [hq] at hf
          cases ha : unpackRRs I b nan o1 c1 with
          | none => simp [ha] at hf
          | some r2 =>
            obtain ⟨an, o2, c2⟩ := r2
            simp only [ha] at hf
            cases hn : unpackRRs I b nns o2 c2 with
            | none => simp [hn] at hf
            | some r3 =>
              obtain ⟨ns, o3, c3⟩ := r3
              simp only [hn] at hf
              cases hr : unpackRRs I b nar o3 c3 with
              | none => simp [hr] at hf
              | some r4 =>
                obtain ⟨ar, o4, c4⟩ := r4
                simp only [hr] at hf
                simp at hf
                obtain ⟨rfl, rfl⟩ := hf
                cases hrq : DnsRef.questions b nq 12 with
                | none => simp [hrq] at hd
                | some q1 =>
                  obtain ⟨rqs, p1⟩ := q1
                  simp only [hrq] at hd
                  have hca0 : CacheAgree I b [] := by intro k t n hk; simp at hk
                  obtain ⟨rfl, fq, ca1⟩ := questions_agree I b _ _ _ _ _ _ _ _ hrq hca0 hq
                  cases hra : DnsRef.records b nan o1 with
                  | none => simp [hra] at hd
                  | some q2 =>
                    obtain ⟨ran, p2⟩ := q2
                    simp only [hra] at hd
                    obtain ⟨rfl, fa, ca2⟩ := records_agree I b _ _ _ _ _ _ _ _ hra ca1 ha
                    cases hrn : DnsRef.records b nns o2 with
                    | none => simp [hrn] at hd
                    | some q3 =>
                      obtain ⟨rns, p3⟩ := q3
                      simp only [hrn] at hd
                      obtain ⟨rfl, fn, ca3⟩ := records_agree I b _ _ _ _ _ _ _ _ hrn ca2 hn
                      cases hrr : DnsRef.records b nar o3 with
                      | none => simp [hrr] at hd
                      | some q4 =>
                        obtain ⟨rar, p4⟩ := q4
                        simp only [hrr] at hd
                        obtain ⟨rfl, fr, ca4⟩ := records_agree I b _ _ _ _ _ _ _ _ hrr ca3 hr
                        rename_i hlen
                        simp only [hlen, if_true] at hd
                        cases hd
                        have g1 := getU16_lt h1; have g2 := getU16_lt h2; have g3 := getU16_lt h3
                        have g4 := getU16_lt h4; have g5 := getU16_lt h5; have g6 := getU16_lt h6
                        have l1 := unpackQuestions_length _ _ _ _ _ _ hq
                        have l2 := unpackRRs_length _ _ _ _ _ _ ha
                        have l3 := unpackRRs_length _ _ _ _ _ _ hn
                        have l4 := unpackRRs_length _ _ _ _ _ _ hr
                        exact { id := rfl, idlt := g1, op := by simp; omega, res := by simp; omega, rc := by simp; omega,
                                flags := by simp only [flagsOf]; exact flags_recompose flags g2,
                                qs := fq, an := fa, ns := fn, ar := fr,
                                nq := by simp; omega, nan := by simp; omega, nns := by simp; omega, nar := by simp; omega }
      · cases hf
    · cases hu

/-! ### (B) the specification reads `pack` of a related message as the same specification message -/

theorem refQuestions_packed {I : Idna} {buf : Bytes} : ∀ (qs : List Question) (rqs : List DnsRef.RQ) (pos : Nat) (w rest : Bytes),
    Rel2 (QRel I) qs rqs → packList (packQuestion I) qs = some w → buf.drop pos = w ++ rest →
    DnsRef.questions buf qs.length pos = some (rqs, pos + w.length) := by
  intro qs rqs pos w rest hrel
  induction hrel generalizing pos w with
  | nil => intro hp _; simp [packList] at hp; subst hp; simp [DnsRef.questions]
  | @cons q rq qs rqs hq _ ih =>
    intro hp hb
    obtain ⟨wq, ws, hpq, hpqs, rfl⟩ := packList_cons_some hp
    obtain ⟨nb, tb, cb, hn, ht, hcl, rfl⟩ := packQuestion_some hpq
    have hnb := hq.name.packName
    rw [hnb] at hn; cases hn
    have hb1 : buf.drop pos = wire rq.labels ++ 0 :: (tb ++ cb ++ ws ++ rest) := by simpa using hb
    have hname := refName_wire hb1 hq.name.1
    have hb1' : buf.drop pos = (wire rq.labels ++ [0]) ++ (tb ++ cb ++ ws ++ rest) := by simpa using hb
    have hb2 : buf.drop (pos + ((wire rq.labels).length + 1)) = tb ++ (cb ++ ws ++ rest) := by
      have := drop_of_drop_append hb1'; simpa using this
    have hb3 : buf.drop (pos + ((wire rq.labels).length + 1) + 2) = cb ++ (ws ++ rest) := by
      have := drop_of_drop_append hb2; rw [putU16_len ht] at this; simpa using this
    have hb4 : buf.drop (pos + ((wire rq.labels).length + 1) + 4) = ws ++ rest := by
      have := drop_of_drop_append hb3; rw [putU16_len hcl] at this
      simpa [Nat.add_assoc] using this
    have hrec := ih (pos + ((wire rq.labels).length + 1) + 4) ws hpqs hb4
    simp only [List.length_cons, DnsRef.questions, hname, getU16_put ht hb2, getU16_put hcl hb3, hrec]
    have e1 : rq = ⟨rq.labels, q.type, q.cls⟩ := by
      cases rq; simp [hq.type, hq.cls]
    rw [← e1]
    simp [putU16_len ht, putU16_len hcl]; omega

theorem refRecords_packed {I : Idna} {buf : Bytes} : ∀ (rs : List RR) (rrs : List DnsRef.RRec) (pos : Nat) (w rest : Bytes),
    Rel2 (RRel I) rs rrs → packList (packRR I) rs = some w → buf.drop pos = w ++ rest →
    DnsRef.records buf rs.length pos = some (rrs, pos + w.length) := by
  intro rs rrs pos w rest hrel
  induction hrel generalizing pos w with
  | nil => intro hp _; simp [packList] at hp; subst hp; simp [DnsRef.records]
  | @cons r rr rs rrs hr _ ih =>
    intro hp hb
    obtain ⟨wr, ws, hpr, hprs, rfl⟩ := packList_cons_some hp
    obtain ⟨nb, tb, cb, lb, dlb, hn, ht, hcl, httl, hdl, rfl⟩ := packRR_some hpr
    have hnb := hr.name.packName
    rw [hnb] at hn; cases hn
    have hb1 : buf.drop pos = wire rr.labels ++ 0 :: (tb ++ cb ++ lb ++ dlb ++ r.data ++ ws ++ rest) := by simpa using hb
    have hname := refName_wire hb1 hr.name.1
    have hb1' : buf.drop pos = (wire rr.labels ++ [0]) ++ (tb ++ cb ++ lb ++ dlb ++ r.data ++ ws ++ rest) := by simpa using hb
    have hb2 : buf.drop (pos + ((wire rr.labels).length + 1)) = tb ++ (cb ++ lb ++ dlb ++ r.data ++ ws ++ rest) := by
      have := drop_of_drop_append hb1'; simpa using this
    have hb3 : buf.drop (pos + ((wire rr.labels).length + 1) + 2) = cb ++ (lb ++ dlb ++ r.data ++ ws ++ rest) := by
      have := drop_of_drop_append hb2; rw [putU16_len ht] at this; simpa using this
    have hb4 : buf.drop (pos + ((wire rr.labels).length + 1) + 4) = lb ++ (dlb ++ r.data ++ ws ++ rest) := by
      have := drop_of_drop_append hb3; rw [putU16_len hcl] at this
      simpa [Nat.add_assoc] using this
    have hb5 : buf.drop (pos + ((wire rr.labels).length + 1) + 8) = dlb ++ (r.data ++ ws ++ rest) := by
      have := drop_of_drop_append hb4; rw [putU32_len httl] at this
      simpa [Nat.add_assoc] using this
    have hb6 : buf.drop (pos + ((wire rr.labels).length + 1) + 10) = r.data ++ (ws ++ rest) := by
      have := drop_of_drop_append hb5; rw [putU16_len hdl] at this
      simpa [Nat.add_assoc] using this
    have hb7 : buf.drop (pos + ((wire rr.labels).length + 1) + 10 + r.data.length) = ws ++ rest := drop_of_drop_append hb6
    have hlen : ¬ buf.length < pos + ((wire rr.labels).length + 1) + 10 + r.data.length := by
      have hne : dlb ≠ [] := by intro h; have := putU16_len hdl; rw [h] at this; simp at this
      have := length_of_drop_append hb5 hne
      rw [putU16_len hdl] at this; simp at this; omega
    have hdata : DnsRef.rdata buf (pos + ((wire rr.labels).length + 1) + 10) r.data.length r.type = some rr.rdata := by
      have := hr.canon buf (pos + ((wire rr.labels).length + 1) + 10) (ws ++ rest) (by rw [← hr.data]; exact hb6)
      rw [← hr.data, ← hr.type] at this
      rw [this, hr.data]
    have hrec := ih (pos + ((wire rr.labels).length + 1) + 10 + r.data.length) ws hprs hb7
    simp only [List.length_cons, DnsRef.records, hname, getU16_put ht hb2, getU16_put hcl hb3, getU32_put httl hb4,
      getU16_put hdl hb5, hlen, if_false, hdata, hrec]
    have e1 : rr = ⟨rr.labels, r.type, r.cls, r.ttl, rr.rdata⟩ := by
      cases rr; simp [hr.type, hr.cls, hr.ttl]
    rw [← e1]
    simp [putU16_len ht, putU16_len hcl, putU32_len httl, putU16_len hdl]; omega

theorem Rel2.append {α β : Type} {R : α → β → Prop} {a1 a2 : List α} {b1 b2 : List β} (h1 : Rel2 R a1 b1) (h2 : Rel2 R a2 b2) :
    Rel2 R (a1 ++ a2) (b1 ++ b2) := by
  induction h1 with
  | nil => simpa using h2
  | cons h _ ih => exact Rel2.cons h ih

/-- (B) -/
theorem decode_packed {I : Idna} {m : Msg} {d : DnsRef.RMsg} {b' : Bytes} (hrel : MsgRel I m d)
    (hp : pack I m = some b') : DnsRef.decode b' = some d := by
  unfold pack at hp
  have hguard : ¬ (65535 < m.id ∨ 15 < m.opCode ∨ 7 < m.reserved ∨ 15 < m.rcode) := by
    have := hrel.idlt; have := hrel.op; have := hrel.res; have := hrel.rc; omega
  simp only [hguard, if_false] at hp
  split at hp
  · next a b c dd e f qsb rsb ha hb hc hdd he hf hqs hrs =>
    cases hp
    obtain ⟨anrs, arb, hanrs, harb, rfl⟩ := packList_append_some _ _ _ hrs
    obtain ⟨anb, nsb, hanb, hnsb, rfl⟩ := packList_append_some _ _ _ hanrs
    let buf := a ++ b ++ c ++ dd ++ e ++ f ++ qsb ++ (anb ++ nsb ++ arb)
    have h0 : buf.drop 0 = a ++ (b ++ c ++ dd ++ e ++ f ++ qsb ++ (anb ++ nsb ++ arb)) := by simp [buf]
    have h2 : buf.drop 2 = b ++ (c ++ dd ++ e ++ f ++ qsb ++ (anb ++ nsb ++ arb)) := by
      have := drop_of_drop_append h0; rw [putU16_len ha] at this; simpa using this
    have h4 : buf.drop 4 = c ++ (dd ++ e ++ f ++ qsb ++ (anb ++ nsb ++ arb)) := by
      have := drop_of_drop_append h2; rw [putU16_len hb] at this; simpa using this
    have h6 : buf.drop 6 = dd ++ (e ++ f ++ qsb ++ (anb ++ nsb ++ arb)) := by
      have := drop_of_drop_append h4; rw [putU16_len hc] at this; simpa using this
    have h8 : buf.drop 8 = e ++ (f ++ qsb ++ (anb ++ nsb ++ arb)) := by
      have := drop_of_drop_append h6; rw [putU16_len hdd] at this; simpa using this
    have h10 : buf.drop 10 = f ++ (qsb ++ (anb ++ nsb ++ arb)) := by
      have := drop_of_drop_append h8; rw [putU16_len he] at this; simpa using this
    have h12 : buf.drop 12 = qsb ++ (anb ++ nsb ++ arb) := by
      have := drop_of_drop_append h10; rw [putU16_len hf] at this; simpa using this
    have hu1 := refQuestions_packed (buf := buf) m.questions d.questions 12 qsb (anb ++ nsb ++ arb) hrel.qs hqs h12
    have h12a : buf.drop (12 + qsb.length) = anb ++ (nsb ++ arb) := by
      have := drop_of_drop_append h12; simpa using this
    have hu2 := refRecords_packed (buf := buf) m.answers d.answers (12 + qsb.length) anb (nsb ++ arb) hrel.an hanb h12a
    have h12b : buf.drop (12 + qsb.length + anb.length) = nsb ++ arb := drop_of_drop_append h12a
    have hu3 := refRecords_packed (buf := buf) m.authorities d.authorities _ nsb arb hrel.ns hnsb h12b
    have h12c : buf.drop (12 + qsb.length + anb.length + nsb.length) = arb ++ [] := by
      have := drop_of_drop_append h12b; simpa using this
    have hu4 := refRecords_packed (buf := buf) m.additionals d.additionals _ arb [] hrel.ar harb h12c
    have hlen : 12 + qsb.length + anb.length + nsb.length + arb.length = buf.length := by
      simp [buf, putU16_len ha, putU16_len hb, putU16_len hc, putU16_len hdd, putU16_len he, putU16_len hf]; omega
    show DnsRef.decode buf = some d
    simp only [DnsRef.decode, getU16_put ha h0, getU16_put hb h2, getU16_put hc h4, getU16_put hdd h6,
      getU16_put he h8, getU16_put hf h10, hu1, hu2, hu3, hu4, hlen, if_true]
    cases d
    simp [hrel.id, hrel.flags] at *
  · cases hp

end MitmVerif.C26
