/-
  C27: lemmas about the TCP framing (`parse`) and the message loop of the DNS layer model.
-/
import MitmVerif.Model.C27
set_option linter.unusedVariables false
set_option linter.unusedSimpArgs false
namespace MitmVerif.C27
open MitmVerif MitmVerif.C25

/-! ### framing -/

theorem parse_nil (I : Idna) : parse I [] = ([], [], false) := by rw [parse]; simp

theorem parse_one (I : Idna) (a : UInt8) : parse I [a] = ([], [a], false) := by rw [parse]; simp

theorem parse_cons2 (I : Idna) (a b : UInt8) (rest : Bytes) :
    parse I (a :: b :: rest) =
      if a.toNat * 256 + b.toNat = 0 then ([], [], true)
      else if rest.length < a.toNat * 256 + b.toNat then ([], a :: b :: rest, false)
      else
        match unpack I (rest.take (a.toNat * 256 + b.toNat)) with
        | none => ([], [], true)
        | some m =>
          (m :: (parse I (rest.drop (a.toNat * 256 + b.toNat))).1, (parse I (rest.drop (a.toNat * 256 + b.toNat))).2.1,
            (parse I (rest.drop (a.toNat * 256 + b.toNat))).2.2) := by
  rw [parse]; rfl

/-- feeding `x ++ y` = feeding `x`, then (unless that ended with an error) the rest of `x` followed by `y` -/
theorem parse_append (I : Idna) : ∀ (n : Nat) (x y : Bytes), x.length ≤ n →
    parse I (x ++ y) =
      if (parse I x).2.2 then parse I x
      else ((parse I x).1 ++ (parse I ((parse I x).2.1 ++ y)).1, (parse I ((parse I x).2.1 ++ y)).2.1,
            (parse I ((parse I x).2.1 ++ y)).2.2) := by
  intro n
  induction n with
  | zero =>
    intro x y hx
    have : x = [] := by cases x <;> simp_all
    subst this
    simp [parse_nil]
  | succ n ih =>
    intro x y hx
    match x with
    | [] => simp [parse_nil]
    | [a] => simp [parse_one]
    | a :: b :: rest =>
      by_cases h0 : a.toNat * 256 + b.toNat = 0
      · have e1 : (a :: b :: rest) ++ y = a :: b :: (rest ++ y) := by simp
        rw [e1, parse_cons2, parse_cons2, if_pos h0, if_pos h0]; simp
      · by_cases hl : rest.length < a.toNat * 256 + b.toNat
        · rw [parse_cons2 I a b rest, if_neg h0, if_pos hl]; simp
        · have hle : a.toNat * 256 + b.toNat ≤ rest.length := by omega
          have e1 : (a :: b :: rest) ++ y = a :: b :: (rest ++ y) := by simp
          have hl2 : ¬ (rest ++ y).length < a.toNat * 256 + b.toNat := by simp; omega
          rw [e1, parse_cons2, parse_cons2, if_neg h0, if_neg h0, if_neg hl, if_neg hl2,
            List.take_append_of_le_length hle, List.drop_append_of_le_length hle]
          cases hu : unpack I (rest.take (a.toNat * 256 + b.toNat)) with
          | none => simp
          | some m =>
            have hlen : (rest.drop (a.toNat * 256 + b.toNat)).length ≤ n := by
              simp only [List.length_drop, List.length_cons] at *; omega
            rw [ih _ y hlen]
            by_cases hd : (parse I (rest.drop (a.toNat * 256 + b.toNat))).2.2 = true
            · simp [hd]
            · simp [hd]

/-- what `parse` leaves in the buffer holds no complete frame -/
theorem parse_rest_stable (I : Idna) : ∀ (n : Nat) (x : Bytes), x.length ≤ n →
    parse I (parse I x).2.1 = ([], (parse I x).2.1, false) := by
  intro n
  induction n with
  | zero =>
    intro x hx
    have : x = [] := by cases x <;> simp_all
    subst this
    simp [parse_nil]
  | succ n ih =>
    intro x hx
    match x with
    | [] => simp [parse_nil]
    | [a] => simp [parse_one]
    | a :: b :: rest =>
      by_cases h0 : a.toNat * 256 + b.toNat = 0
      · rw [parse_cons2, if_pos h0]; simp [parse_nil]
      · by_cases hl : rest.length < a.toNat * 256 + b.toNat
        · rw [parse_cons2, if_neg h0, if_pos hl]
          show parse I (a :: b :: rest) = _
          rw [parse_cons2, if_neg h0, if_pos hl]
        · cases hu : unpack I (rest.take (a.toNat * 256 + b.toNat)) with
          | none => rw [parse_cons2, if_neg h0, if_neg hl, hu]; simp [parse_nil]
          | some m =>
            have hlen : (rest.drop (a.toNat * 256 + b.toNat)).length ≤ n := by
              simp only [List.length_drop, List.length_cons] at *; omega
            have := ih _ hlen
            rw [parse_cons2, if_neg h0, if_neg hl, hu]
            simpa using this

/-! ### the handlers keep the flow invariant and only emit justified output -/

/-- the messages the addon script puts into flows -/
def addonMsgs : List Act → List Msg
  | [] => []
  | .respond m :: r => m :: addonMsgs r
  | .pass :: r => addonMsgs r
  | .clear :: r => addonMsgs r
  | .err :: r => addonMsgs r

/-- `r` is a legitimate response for the query `q`: an addon made it, or it has the query's id and question section -/
def Answers (A : List Msg) (q r : Msg) : Prop := r ∈ A ∨ (r.id = q.id ∧ r.questions = q.questions)

/-- a stored flow carries a query of the client with the id it is stored under; its response answers that query -/
def FlowOk (A S : List Msg) (k : Nat) (f : Flow) : Prop :=
  ∃ q, f.request = some q ∧ q.id = k ∧ q ∈ S ∧ ∀ r, f.response = some r → Answers A q r

def Inv (A : List Msg) (σ : Core) : Prop :=
  (∀ k f, (k, f) ∈ σ.flows → FlowOk A σ.seen k f) ∧ (∀ m ∈ addonMsgs σ.acts, m ∈ A)

/-- what the property demands of one observable output, `S` = the client's queries so far -/
def OutOk (A S : List Msg) : Out → Prop
  | .hook h f => ∃ q, f.request = some q ∧ q ∈ S ∧ (h = .response → ∃ r, f.response = some r ∧ Answers A q r)
  | .toClient m _ => m ∈ A ∨ ∃ q ∈ S, q.id = m.id ∧ q.questions = m.questions
  | _ => True

theorem mem_of_lookup {l : List (Nat × Flow)} {k : Nat} {f : Flow} (h : l.lookup k = some f) : (k, f) ∈ l := by
  induction l with
  | nil => simp at h
  | cons x xs ih =>
    obtain ⟨a, b⟩ := x
    simp only [List.lookup_cons] at h
    by_cases hk : k == a
    · simp only [hk] at h
      have : k = a := by simpa using hk
      cases h; subst this; simp
    · simp only [hk] at h
      exact List.mem_cons_of_mem _ (ih h)

theorem popAct_spec (A : List Msg) (σ : Core) (h : ∀ m ∈ addonMsgs σ.acts, m ∈ A) :
    (∀ m ∈ addonMsgs (popAct σ).2.acts, m ∈ A) ∧ (∀ m, (popAct σ).1 = .respond m → m ∈ A) ∧
    (popAct σ).2.flows = σ.flows ∧ (popAct σ).2.seen = σ.seen ∧ (popAct σ).2.phase = σ.phase := by
  unfold popAct
  cases ha : σ.acts with
  | nil => simp [ha] at h ⊢; simp [ha, addonMsgs]
  | cons a r =>
    cases a <;> simp_all [addonMsgs]

theorem sendClient_spec (c : Cfg) (σ : Core) (m : Msg) :
    ((sendClient c σ m).1 = σ ∨ (sendClient c σ m).1 = crashed σ) ∧
    (∀ o ∈ (sendClient c σ m).2, o = .crash ∨ ∃ w, o = .toClient m w) := by
  unfold sendClient
  cases pack c.I m with
  | none => simp
  | some b => cases hw : wireOf? c.tcp b <;> simp [hw]

theorem sendServer_spec (c : Cfg) (σ : Core) (m : Msg) :
    ((sendServer c σ m).1 = σ ∨ (sendServer c σ m).1 = crashed σ) ∧
    (∀ o ∈ (sendServer c σ m).2, o = .crash ∨ ∃ w, o = .toServer m w) := by
  unfold sendServer
  cases pack c.I m with
  | none => simp
  | some b => cases hw : wireOf? c.tcp b <;> simp [hw]

theorem Inv_crashed {A : List Msg} {σ : Core} (h : Inv A σ) : Inv A (crashed σ) := h

/-- result of a handler: invariant kept, `seen` unchanged, outputs justified -/
def Good (A : List Msg) (σ : Core) (r : Core × List Out) : Prop :=
  Inv A r.1 ∧ r.1.seen = σ.seen ∧ ∀ o ∈ r.2, OutOk A σ.seen o

theorem applyAct_request (a : Act) (f : Flow) : (applyAct a f).request = f.request := by
  cases a <;> rfl

theorem handleResponse_good (c : Cfg) (A : List Msg) (σ : Core) (k : Nat) (f : Flow) (q m : Msg)
    (hinv : Inv A σ) (hreq : f.request = some q) (hk : q.id = k) (hq : q ∈ σ.seen) (hm : Answers A q m) :
    Good A σ (handleResponse c σ k f m) := by
  obtain ⟨hacts, hresp, hfl, hseen, _⟩ := popAct_spec A σ hinv.2
  have hf2 : ∀ r, (applyAct (popAct σ).1 { f with response := some m }).response = some r → Answers A q r := by
    intro r hr
    cases ha : (popAct σ).1 with
    | pass => rw [ha] at hr; simp [applyAct] at hr; subst hr; exact hm
    | respond m' => rw [ha] at hr; simp [applyAct] at hr; subst hr; exact Or.inl (hresp _ ha)
    | clear => rw [ha] at hr; simp [applyAct] at hr
    | err => rw [ha] at hr; simp [applyAct] at hr; subst hr; exact hm
  have hinv2 : Inv A (setFlow (popAct σ).2 k (applyAct (popAct σ).1 { f with response := some m })) := by
    refine ⟨?_, hacts⟩
    intro k' f' hmem
    simp only [setFlow, List.mem_cons, hfl] at hmem
    rcases hmem with h | h
    · cases h
      exact ⟨q, by rw [applyAct_request]; exact hreq, hk, by simpa [setFlow, hseen] using hq, hf2⟩
    · simpa [setFlow, hseen] using hinv.1 k' f' h
  have hhook : OutOk A σ.seen (.hook .response { f with response := some m }) :=
    ⟨q, hreq, hq, fun _ => ⟨m, rfl, hm⟩⟩
  unfold handleResponse
  cases hr : (applyAct (popAct σ).1 { f with response := some m }).response with
  | none =>
    simp only [hr]
    exact ⟨hinv2, by simp [setFlow, hseen], by simpa using hhook⟩
  | some r =>
    simp only [hr]
    obtain ⟨hs1, hs2⟩ := sendClient_spec c (setFlow (popAct σ).2 k (applyAct (popAct σ).1 { f with response := some m })) r
    refine ⟨?_, ?_, ?_⟩
    · rcases hs1 with h | h <;> rw [h]
      · exact hinv2
      · exact Inv_crashed hinv2
    · rcases hs1 with h | h <;> rw [h] <;> simp [setFlow, crashed, hseen]
    · intro o ho
      simp only [List.mem_cons] at ho
      rcases ho with h | h
      · rw [h]; exact hhook
      · rcases hs2 o h with h' | ⟨w, h'⟩
        · rw [h']; trivial
        · rw [h']
          rcases hf2 r hr with ha | ⟨h1, h2⟩
          · exact Or.inl ha
          · exact Or.inr ⟨q, hq, h1.symm, h2.symm⟩

theorem handleError_good (c : Cfg) (A : List Msg) (σ : Core) (k : Nat) (f : Flow) (q : Msg)
    (hinv : Inv A σ) (hreq : f.request = some q) (hk : q.id = k) (hq : q ∈ σ.seen)
    (hresp0 : ∀ r, f.response = some r → Answers A q r) :
    Good A σ (handleError c σ k f) := by
  obtain ⟨hacts, hresp, hfl, hseen, _⟩ := popAct_spec A σ hinv.2
  have hf2 : ∀ r, (applyAct (popAct σ).1 { f with error := true }).response = some r → Answers A q r := by
    intro r hr
    cases ha : (popAct σ).1 with
    | pass => rw [ha] at hr; simp [applyAct] at hr; exact hresp0 r hr
    | respond m' => rw [ha] at hr; simp [applyAct] at hr; subst hr; exact Or.inl (hresp _ ha)
    | clear => rw [ha] at hr; simp [applyAct] at hr
    | err => rw [ha] at hr; simp [applyAct] at hr; exact hresp0 r hr
  have hreq2 : (applyAct (popAct σ).1 { f with error := true }).request = some q := by
    rw [applyAct_request]; exact hreq
  have hinv2 : Inv A (setFlow (popAct σ).2 k (applyAct (popAct σ).1 { f with error := true })) := by
    refine ⟨?_, hacts⟩
    intro k' f' hmem
    simp only [setFlow, List.mem_cons, hfl] at hmem
    rcases hmem with h | h
    · cases h
      exact ⟨q, hreq2, hk, by simpa [setFlow, hseen] using hq, hf2⟩
    · simpa [setFlow, hseen] using hinv.1 k' f' h
  have hhook : OutOk A σ.seen (.hook .error { f with error := true }) :=
    ⟨q, hreq, hq, fun h => by cases h⟩
  unfold handleError
  simp only [hreq2]
  obtain ⟨hs1, hs2⟩ := sendClient_spec c (setFlow (popAct σ).2 k (applyAct (popAct σ).1 { f with error := true })) (servfail q)
  refine ⟨?_, ?_, ?_⟩
  · rcases hs1 with h | h <;> rw [h]
    · exact hinv2
    · exact Inv_crashed hinv2
  · rcases hs1 with h | h <;> rw [h] <;> simp [setFlow, crashed, hseen]
  · intro o ho
    simp only [List.mem_cons] at ho
    rcases ho with h | h
    · rw [h]; exact hhook
    · rcases hs2 o h with h' | ⟨w, h'⟩
      · rw [h']; trivial
      · rw [h']; exact Or.inr ⟨q, hq, rfl, rfl⟩

theorem popConn_spec (σ : Core) :
    (popConn σ).2.flows = σ.flows ∧ (popConn σ).2.seen = σ.seen ∧ (popConn σ).2.acts = σ.acts := by
  unfold popConn
  cases σ.conns <;> simp

theorem Good_cons {A : List Msg} {σ : Core} {r : Core × List Out} (o : Out) (h : Good A σ r) (ho : OutOk A σ.seen o) :
    Good A σ (r.1, o :: r.2) := by
  refine ⟨h.1, h.2.1, ?_⟩
  intro o' ho'
  simp only [List.mem_cons] at ho'
  rcases ho' with h' | h'
  · rw [h']; exact ho
  · exact h.2.2 o' h'

theorem handleRequest_good (c : Cfg) (A : List Msg) (σ : Core) (k : Nat) (f : Flow) (q : Msg)
    (hinv : Inv A σ) (hk : q.id = k) (hq : q ∈ σ.seen) (hresp0 : f.response = none) :
    Good A σ (handleRequest c σ k f q) := by
  obtain ⟨hacts, hresp, hfl, hseen, _⟩ := popAct_spec A σ hinv.2
  have hreq2 : (applyAct (popAct σ).1 { f with request := some q }).request = some q := by
    rw [applyAct_request]
  have hf2 : ∀ r, (applyAct (popAct σ).1 { f with request := some q }).response = some r → Answers A q r := by
    intro r hr
    cases ha : (popAct σ).1 with
    | pass => rw [ha] at hr; simp [applyAct, hresp0] at hr
    | respond m' => rw [ha] at hr; simp [applyAct] at hr; subst hr; exact Or.inl (hresp _ ha)
    | clear => rw [ha] at hr; simp [applyAct] at hr
    | err => rw [ha] at hr; simp [applyAct, hresp0] at hr
  have hinv2 : Inv A (setFlow (popAct σ).2 k (applyAct (popAct σ).1 { f with request := some q })) := by
    refine ⟨?_, hacts⟩
    intro k' f' hmem
    simp only [setFlow, List.mem_cons, hfl] at hmem
    rcases hmem with h | h
    · cases h
      exact ⟨q, hreq2, hk, by simpa [setFlow, hseen] using hq, hf2⟩
    · simpa [setFlow, hseen] using hinv.1 k' f' h
  have hseen2 : (setFlow (popAct σ).2 k (applyAct (popAct σ).1 { f with request := some q })).seen = σ.seen := by
    simp [setFlow, hseen]
  have hhook : OutOk A σ.seen (.hook .request { f with request := some q }) :=
    ⟨q, rfl, hq, fun h => by cases h⟩
  -- transport a `Good` about the intermediate state to one about `σ`
  have lift : ∀ (σ' : Core) (r : Core × List Out), σ'.seen = σ.seen → Good A σ' r → Good A σ r := by
    intro σ' r hs hg
    exact ⟨hg.1, by rw [hg.2.1, hs], by rw [← hs]; exact hg.2.2⟩
  have sendS : ∀ σ' : Core, Inv A σ' → σ'.seen = σ.seen → Good A σ (sendServer c σ' q) := by
    intro σ' hi hs
    obtain ⟨hs1, hs2⟩ := sendServer_spec c σ' q
    refine ⟨?_, ?_, ?_⟩
    · rcases hs1 with h | h <;> rw [h]
      · exact hi
      · exact Inv_crashed hi
    · rcases hs1 with h | h <;> rw [h] <;> simp [crashed, hs]
    · intro o ho
      rcases hs2 o ho with h' | ⟨w, h'⟩ <;> rw [h'] <;> trivial
  unfold handleRequest
  cases hr : (applyAct (popAct σ).1 { f with request := some q }).response with
  | some r =>
    simp only [hr]
    exact Good_cons _ (lift _ _ hseen2 (handleResponse_good c A _ k _ q r hinv2 hreq2 hk (by rw [hseen2]; exact hq) (hf2 r hr))) hhook
  | none =>
    simp only [hr]
    have herr : Good A σ (handleError c (setFlow (popAct σ).2 k (applyAct (popAct σ).1 { f with request := some q })) k
        (applyAct (popAct σ).1 { f with request := some q })) :=
      lift _ _ hseen2 (handleError_good c A _ k _ q hinv2 hreq2 hk (by rw [hseen2]; exact hq) hf2)
    split
    · exact Good_cons _ herr hhook
    · split
      · exact Good_cons _ (sendS _ hinv2 hseen2) hhook
      · split
        · exact Good_cons _ (Good_cons (.opened .killed) herr trivial) hhook
        · obtain ⟨pf, ps, pa⟩ := popConn_spec (setFlow (popAct σ).2 k (applyAct (popAct σ).1 { f with request := some q }))
          split
          · refine Good_cons _ (Good_cons (.opened .ok) (sendS _ ?_ ?_) trivial) hhook
            · refine ⟨?_, ?_⟩
              · intro k' f' hm
                have := hinv2.1 k' f' (by simpa [pf] using hm)
                simpa [ps] using this
              · simpa [pa] using hinv2.2
            · simp [ps, hseen2]
          · refine Good_cons _ (Good_cons (.opened .fail) (lift _ _ ?_ (handleError_good c A _ k _ q ?_ hreq2 hk ?_ hf2)) trivial) hhook
            · simp [ps, hseen2]
            · refine ⟨?_, ?_⟩
              · intro k' f' hm
                have := hinv2.1 k' f' (by simpa [pf] using hm)
                simpa [ps] using this
              · simpa [pa] using hinv2.2
            · simp [ps, hseen2]; exact hq

theorem flowFor_response (σ : Core) (id : Nat) : (flowFor σ id).response = none := by
  unfold flowFor
  cases h : σ.flows.lookup id with
  | none => rfl
  | some f =>
    simp only
    split
    · rfl
    · rename_i hn
      cases hr : f.response with
      | none => rfl
      | some r => simp [hr] at hn

/-- result of handling one message: invariant kept, `seen` only grows, outputs justified by the new `seen` -/
def Good' (A : List Msg) (σ : Core) (r : Core × List Out) : Prop :=
  Inv A r.1 ∧ (∀ m ∈ σ.seen, m ∈ r.1.seen) ∧ ∀ o ∈ r.2, OutOk A r.1.seen o

theorem OutOk_mono {A S S' : List Msg} (h : ∀ m ∈ S, m ∈ S') {o : Out} (ho : OutOk A S o) : OutOk A S' o := by
  cases o with
  | hook hk f => obtain ⟨q, h1, h2, h3⟩ := ho; exact ⟨q, h1, h _ h2, h3⟩
  | toClient m w =>
    rcases ho with h1 | ⟨q, h1, h2⟩
    · exact Or.inl h1
    · exact Or.inr ⟨q, h _ h1, h2⟩
  | _ => trivial

theorem clientMsg_good (c : Cfg) (A : List Msg) (σ : Core) (q : Msg) (hinv : Inv A σ) :
    Good' A σ (clientMsg c σ q) ∧ (clientMsg c σ q).1.seen = q :: σ.seen := by
  have hinv0 : Inv A { σ with seen := q :: σ.seen } := by
    refine ⟨?_, hinv.2⟩
    intro k f hm
    obtain ⟨q', h1, h2, h3, h4⟩ := hinv.1 k f hm
    exact ⟨q', h1, h2, List.mem_cons_of_mem _ h3, h4⟩
  have hg := handleRequest_good c A { σ with seen := q :: σ.seen } q.id (flowFor σ q.id) q hinv0 rfl (by simp)
    (flowFor_response σ q.id)
  unfold clientMsg
  refine ⟨⟨hg.1, ?_, ?_⟩, hg.2.1⟩
  · intro m hm; rw [hg.2.1]; exact List.mem_cons_of_mem _ hm
  · rw [hg.2.1]; exact hg.2.2

theorem serverMsg_good (c : Cfg) (A : List Msg) (σ : Core) (m : Msg) (hinv : Inv A σ) :
    Good' A σ (serverMsg c σ m) ∧ (serverMsg c σ m).1.seen = σ.seen := by
  have triv : Good' A σ (σ, []) := ⟨hinv, fun _ h => h, by simp⟩
  unfold serverMsg
  cases hl : σ.flows.lookup m.id with
  | none => exact ⟨triv, rfl⟩
  | some f =>
    obtain ⟨q, h1, h2, h3, h4⟩ := hinv.1 _ _ (mem_of_lookup hl)
    simp only [h1]
    split
    · rename_i hqs
      have hg := handleResponse_good c A σ m.id f q m hinv h1 h2 h3 (Or.inr ⟨h2.symm, hqs⟩)
      exact ⟨⟨hg.1, by intro x hx; rw [hg.2.1]; exact hx, by rw [hg.2.1]; exact hg.2.2⟩, hg.2.1⟩
    · exact ⟨triv, rfl⟩

theorem handleMsgs_good (c : Cfg) (A : List Msg) (fc : Bool) : ∀ (ms : List Msg) (σ : Core), Inv A σ →
    Good' A σ (handleMsgs c fc σ ms) := by
  intro ms
  induction ms with
  | nil => intro σ h; exact ⟨h, fun _ h => h, by simp [handleMsgs]⟩
  | cons m ms ih =>
    intro σ hinv
    unfold handleMsgs
    split
    · exact ⟨hinv, fun _ h => h, by simp⟩
    · have h1 : Good' A σ (if fc = true then clientMsg c σ m else serverMsg c σ m) := by
        cases fc
        · exact (serverMsg_good c A σ m hinv).1
        · exact (clientMsg_good c A σ m hinv).1
      have h2 := ih _ h1.1
      refine ⟨h2.1, fun x hx => h2.2.1 _ (h1.2.1 _ hx), ?_⟩
      intro o ho
      simp only [List.mem_append] at ho
      rcases ho with h | h
      · exact OutOk_mono h2.2.1 (h1.2.2 o h)
      · exact h2.2.2 o h

/-! ### traces: every output is justified by the queries that arrived *before* it -/

/-- the client query a `dns_request` hook announces -/
def reqOf : Out → List Msg
  | .hook .request f => f.request.toList
  | _ => []

/-- the client queries announced in a trace, in order of arrival -/
def queriesOf (tr : List Out) : List Msg := tr.flatMap reqOf

/-- every output of the trace satisfies `OutOk` with respect to `S` (newest first) extended by the queries announced
    up to and including that output -/
def TraceOk (A : List Msg) : List Msg → List Out → Prop
  | _, [] => True
  | S, o :: tr => OutOk A (reqOf o ++ S) o ∧ TraceOk A (reqOf o ++ S) tr

def Plain (tr : List Out) : Prop := ∀ o ∈ tr, reqOf o = []

theorem Plain_nil : Plain [] := by simp [Plain]
theorem Plain_cons {o : Out} {tr : List Out} : Plain (o :: tr) ↔ reqOf o = [] ∧ Plain tr := by simp [Plain]
theorem Plain_append {a b : List Out} : Plain (a ++ b) ↔ Plain a ∧ Plain b := by
  simp only [Plain, List.mem_append]
  exact ⟨fun h => ⟨fun o ho => h o (Or.inl ho), fun o ho => h o (Or.inr ho)⟩, fun h o ho => ho.elim (h.1 o) (h.2 o)⟩

theorem queriesOf_plain {tr : List Out} (h : Plain tr) : queriesOf tr = [] := by
  induction tr with
  | nil => rfl
  | cons o tr ih =>
    rw [Plain_cons] at h
    simp [queriesOf, h.1] at ih ⊢
    exact ih h.2

theorem queriesOf_append (a b : List Out) : queriesOf (a ++ b) = queriesOf a ++ queriesOf b := by
  simp [queriesOf]

theorem TraceOk_plain {A S : List Msg} {tr : List Out} (hp : Plain tr) (h : ∀ o ∈ tr, OutOk A S o) : TraceOk A S tr := by
  induction tr with
  | nil => trivial
  | cons o tr ih =>
    rw [Plain_cons] at hp
    simp only [TraceOk, hp.1, List.nil_append]
    exact ⟨h o (by simp), ih hp.2 (fun o' ho' => h o' (by simp [ho']))⟩

theorem TraceOk_append {A : List Msg} : ∀ (t1 t2 : List Out) (S : List Msg),
    TraceOk A S (t1 ++ t2) ↔ TraceOk A S t1 ∧ TraceOk A ((queriesOf t1).reverse ++ S) t2 := by
  intro t1
  induction t1 with
  | nil => intro t2 S; simp [TraceOk, queriesOf]
  | cons o t1 ih =>
    intro t2 S
    simp only [List.cons_append, TraceOk, ih]
    have : (queriesOf (o :: t1)).reverse ++ S = (queriesOf t1).reverse ++ (reqOf o ++ S) := by
      cases o with
      | hook h f =>
        cases h <;> cases hr : f.request <;> simp [queriesOf, reqOf, hr]
      | _ => simp [queriesOf, reqOf]
    rw [this]
    exact and_assoc.symm

theorem sendClient_plain (c : Cfg) (σ : Core) (m : Msg) : Plain (sendClient c σ m).2 := by
  unfold sendClient
  cases pack c.I m with
  | none => simp [Plain, reqOf]
  | some b => cases hw : wireOf? c.tcp b <;> simp [Plain, reqOf, hw]

theorem sendServer_plain (c : Cfg) (σ : Core) (m : Msg) : Plain (sendServer c σ m).2 := by
  unfold sendServer
  cases pack c.I m with
  | none => simp [Plain, reqOf]
  | some b => cases hw : wireOf? c.tcp b <;> simp [Plain, reqOf, hw]

theorem handleResponse_plain (c : Cfg) (σ : Core) (k : Nat) (f : Flow) (m : Msg) : Plain (handleResponse c σ k f m).2 := by
  unfold handleResponse
  dsimp only
  split
  · simp [Plain, reqOf]
  · rw [Plain_cons]; exact ⟨rfl, sendClient_plain _ _ _⟩

theorem handleError_plain (c : Cfg) (σ : Core) (k : Nat) (f : Flow) : Plain (handleError c σ k f).2 := by
  unfold handleError
  dsimp only
  split
  · simp [Plain, reqOf]
  · rw [Plain_cons]; exact ⟨rfl, sendClient_plain _ _ _⟩

/-- `handle_request` announces its query first; nothing else in its output is a `dns_request` hook -/
theorem handleRequest_out (c : Cfg) (σ : Core) (k : Nat) (f : Flow) (q : Msg) :
    ∃ rest, (handleRequest c σ k f q).2 = .hook .request { f with request := some q } :: rest ∧ Plain rest := by
  unfold handleRequest
  dsimp only
  split
  · exact ⟨_, rfl, handleResponse_plain _ _ _ _ _⟩
  · split
    · exact ⟨_, rfl, handleError_plain _ _ _ _⟩
    · split
      · exact ⟨_, rfl, sendServer_plain _ _ _⟩
      · split
        · exact ⟨_, rfl, by rw [Plain_cons]; exact ⟨rfl, handleError_plain _ _ _ _⟩⟩
        · split
          · exact ⟨_, rfl, by rw [Plain_cons]; exact ⟨rfl, sendServer_plain _ _ _⟩⟩
          · exact ⟨_, rfl, by rw [Plain_cons]; exact ⟨rfl, handleError_plain _ _ _ _⟩⟩

theorem serverMsg_plain (c : Cfg) (σ : Core) (m : Msg) : Plain (serverMsg c σ m).2 := by
  unfold serverMsg
  split
  · exact Plain_nil
  · split
    · simp [Plain, reqOf]
    · split
      · exact handleResponse_plain _ _ _ _ _
      · exact Plain_nil

/-- result of handling messages: invariant kept; the trace is justified in temporal order; `seen` = the announced queries -/
def GoodT (A : List Msg) (σ : Core) (r : Core × List Out) : Prop :=
  Inv A r.1 ∧ r.1.seen = (queriesOf r.2).reverse ++ σ.seen ∧ TraceOk A σ.seen r.2

theorem clientMsg_goodT (c : Cfg) (A : List Msg) (σ : Core) (q : Msg) (hinv : Inv A σ) :
    GoodT A σ (clientMsg c σ q) ∧ queriesOf (clientMsg c σ q).2 = [q] := by
  obtain ⟨⟨h1, _, h3⟩, h4⟩ := clientMsg_good c A σ q hinv
  obtain ⟨rest, he, hp⟩ := handleRequest_out c { σ with seen := q :: σ.seen } q.id (flowFor σ q.id) q
  have he' : (clientMsg c σ q).2 = .hook .request { flowFor σ q.id with request := some q } :: rest := he
  have hq : queriesOf (clientMsg c σ q).2 = [q] := by
    rw [he']
    have : queriesOf (Out.hook .request { flowFor σ q.id with request := some q } :: rest) = [q] ++ queriesOf rest := by
      simp [queriesOf, reqOf]
    rw [this, queriesOf_plain hp]; rfl
  refine ⟨⟨h1, by rw [h4, hq]; rfl, ?_⟩, hq⟩
  rw [h4] at h3
  rw [he'] at h3 ⊢
  simp only [TraceOk, reqOf, Option.toList, List.singleton_append]
  exact ⟨h3 _ (by simp), TraceOk_plain hp (fun o ho => h3 o (by simp [ho]))⟩

theorem serverMsg_goodT (c : Cfg) (A : List Msg) (σ : Core) (m : Msg) (hinv : Inv A σ) :
    GoodT A σ (serverMsg c σ m) := by
  obtain ⟨⟨h1, _, h3⟩, h4⟩ := serverMsg_good c A σ m hinv
  have hp := serverMsg_plain c σ m
  refine ⟨h1, by rw [h4, queriesOf_plain hp]; rfl, TraceOk_plain hp ?_⟩
  rw [h4] at h3; exact h3

theorem handleMsgs_goodT (c : Cfg) (A : List Msg) (fc : Bool) : ∀ (ms : List Msg) (σ : Core), Inv A σ →
    GoodT A σ (handleMsgs c fc σ ms) := by
  intro ms
  induction ms with
  | nil => intro σ h; exact ⟨h, by simp [handleMsgs, queriesOf], by simp [handleMsgs, TraceOk]⟩
  | cons m ms ih =>
    intro σ hinv
    unfold handleMsgs
    split
    · exact ⟨hinv, by simp [queriesOf], by simp [TraceOk]⟩
    · have h1 : GoodT A σ (if fc = true then clientMsg c σ m else serverMsg c σ m) := by
        cases fc
        · exact serverMsg_goodT c A σ m hinv
        · exact (clientMsg_goodT c A σ m hinv).1
      have h2 := ih _ h1.1
      refine ⟨h2.1, ?_, ?_⟩
      · simp only [queriesOf_append, List.reverse_append, List.append_assoc]
        rw [h2.2.1, h1.2.1]
      · rw [TraceOk_append]
        refine ⟨h1.2.2, ?_⟩
        rw [← h1.2.1]; exact h2.2.2

end MitmVerif.C27
