/-
  C27: phases, the message loop over concatenated lists, the segmentation law of the layer, runs.
-/
import MitmVerif.Lemmas.C27
set_option linter.unusedVariables false
set_option linter.unusedSimpArgs false
namespace MitmVerif.C27
open MitmVerif MitmVerif.C25

/-! ### the phase only ever changes to `crashed` inside the handlers -/

def PM (σ σ' : Core) : Prop := σ'.phase = σ.phase ∨ σ'.phase = .crashed

theorem PM.refl (σ : Core) : PM σ σ := Or.inl rfl

theorem PM.trans {a b d : Core} (h1 : PM a b) (h2 : PM b d) : PM a d := by
  rcases h2 with h | h
  · rcases h1 with h' | h'
    · exact Or.inl (h.trans h')
    · exact Or.inr (h.trans h')
  · exact Or.inr h

theorem PM.of_phase {a b d : Core} (h : b.phase = a.phase) (h2 : PM b d) : PM a d := by
  rcases h2 with h' | h'
  · exact Or.inl (h'.trans h)
  · exact Or.inr h'

theorem popAct_phase (σ : Core) : (popAct σ).2.phase = σ.phase := by
  unfold popAct; cases σ.acts <;> rfl

theorem popConn_phase (σ : Core) : (popConn σ).2.phase = σ.phase := by
  unfold popConn; cases σ.conns <;> rfl

theorem sendClient_pm (c : Cfg) (σ : Core) (m : Msg) : PM σ (sendClient c σ m).1 := by
  rcases (sendClient_spec c σ m).1 with h | h <;> rw [h]
  · exact Or.inl rfl
  · exact Or.inr rfl

theorem sendServer_pm (c : Cfg) (σ : Core) (m : Msg) : PM σ (sendServer c σ m).1 := by
  rcases (sendServer_spec c σ m).1 with h | h <;> rw [h]
  · exact Or.inl rfl
  · exact Or.inr rfl

theorem handleResponse_pm (c : Cfg) (σ : Core) (k : Nat) (f : Flow) (m : Msg) : PM σ (handleResponse c σ k f m).1 := by
  unfold handleResponse
  dsimp only
  split
  · exact Or.inl (by simp [setFlow, popAct_phase])
  · exact PM.of_phase (by simp [setFlow, popAct_phase]) (sendClient_pm _ _ _)

theorem handleError_pm (c : Cfg) (σ : Core) (k : Nat) (f : Flow) : PM σ (handleError c σ k f).1 := by
  unfold handleError
  dsimp only
  split
  · exact Or.inr rfl
  · exact PM.of_phase (by simp [setFlow, popAct_phase]) (sendClient_pm _ _ _)

theorem handleRequest_pm (c : Cfg) (σ : Core) (k : Nat) (f : Flow) (q : Msg) : PM σ (handleRequest c σ k f q).1 := by
  have h0 : ∀ f', (setFlow (popAct σ).2 k f').phase = σ.phase := by intro f'; simp [setFlow, popAct_phase]
  unfold handleRequest
  dsimp only
  split
  · exact PM.of_phase (h0 _) (handleResponse_pm _ _ _ _ _)
  · split
    · exact PM.of_phase (h0 _) (handleError_pm _ _ _ _)
    · split
      · exact PM.of_phase (h0 _) (sendServer_pm _ _ _)
      · split
        · exact PM.of_phase (h0 _) (handleError_pm _ _ _ _)
        · split
          · exact PM.of_phase (by simp [popConn_phase, h0]) (sendServer_pm _ _ _)
          · exact PM.of_phase (by simp [popConn_phase, h0]) (handleError_pm _ _ _ _)

theorem clientMsg_pm (c : Cfg) (σ : Core) (q : Msg) : PM σ (clientMsg c σ q).1 := by
  unfold clientMsg
  exact PM.of_phase rfl (handleRequest_pm _ _ _ _ _)

theorem serverMsg_pm (c : Cfg) (σ : Core) (m : Msg) : PM σ (serverMsg c σ m).1 := by
  unfold serverMsg
  split
  · exact PM.refl _
  · split
    · exact Or.inr rfl
    · split
      · exact handleResponse_pm _ _ _ _ _
      · exact PM.refl _

theorem handleMsgs_crashed (c : Cfg) (fc : Bool) (σ : Core) (ms : List Msg) (h : σ.phase = .crashed) :
    handleMsgs c fc σ ms = (σ, []) := by
  cases ms with
  | nil => rfl
  | cons m ms => simp [handleMsgs, h]

theorem handleMsgs_pm (c : Cfg) (fc : Bool) : ∀ (ms : List Msg) (σ : Core), PM σ (handleMsgs c fc σ ms).1 := by
  intro ms
  induction ms with
  | nil => intro σ; exact PM.refl _
  | cons m ms ih =>
    intro σ
    unfold handleMsgs
    split
    · exact PM.refl _
    · dsimp only
      refine PM.trans ?_ (ih _)
      cases fc
      · exact serverMsg_pm _ _ _
      · exact clientMsg_pm _ _ _

theorem handleMsgs_append (c : Cfg) (fc : Bool) : ∀ (l1 l2 : List Msg) (σ : Core),
    handleMsgs c fc σ (l1 ++ l2) =
      ((handleMsgs c fc (handleMsgs c fc σ l1).1 l2).1, (handleMsgs c fc σ l1).2 ++ (handleMsgs c fc (handleMsgs c fc σ l1).1 l2).2) := by
  intro l1
  induction l1 with
  | nil => intro l2 σ; simp [handleMsgs]
  | cons m l1 ih =>
    intro l2 σ
    by_cases hc : σ.phase = .crashed
    · simp [handleMsgs, hc, handleMsgs_crashed]
    · simp only [List.cons_append, handleMsgs, hc, if_false]
      rw [ih]
      simp [List.append_assoc]

/-! ### the layer: feeding `a ++ b` = feeding `a`, then `b` (TCP, data from the client) -/

theorem step_not_query (c : Cfg) (σ : State) (ev : Ev) (h : σ.core.phase ≠ .query) : step c σ ev = (σ, []) := by
  simp [step, h]

theorem client_seg_law (c : Cfg) (htcp : c.tcp = true) (σ : State) (a b : Bytes) :
    step c σ (.clientData (a ++ b)) =
      ((step c (step c σ (.clientData a)).1 (.clientData b)).1,
       (step c σ (.clientData a)).2 ++ (step c (step c σ (.clientData a)).1 (.clientData b)).2) := by
  by_cases hq : σ.core.phase = .query
  · have hstep : ∀ d, step c σ (.clientData d) = stepClient c σ d := by intro d; simp [step, hq]
    rw [hstep, hstep]
    have hx : ∀ d, extract c.I c.tcp σ.reqBuf d = parse c.I (σ.reqBuf ++ d) := by intro d; simp [extract, htcp]
    have happ := parse_append c.I (σ.reqBuf ++ a).length (σ.reqBuf ++ a) b (Nat.le_refl _)
    rw [List.append_assoc] at happ
    by_cases hbad : (parse c.I (σ.reqBuf ++ a)).2.2 = true
    · -- the first segment already ends the connection
      rw [if_pos hbad] at happ
      have e1 : stepClient c σ (a ++ b) = stepClient c σ a := by
        simp only [stepClient, hx, happ]
      rw [e1]
      have hne : (stepClient c σ a).1.core.phase ≠ .query := by
        simp only [stepClient, hx, hbad]
        split
        · rename_i h; simp [ended, h]
        · simp [ended]
      rw [step_not_query c _ _ hne]; simp
    · rw [if_neg hbad] at happ
      have hbad' : (parse c.I (σ.reqBuf ++ a)).2.2 = false := by simpa using hbad
      by_cases hcr : (handleMsgs c true σ.core (parse c.I (σ.reqBuf ++ a)).1).1.phase = .crashed
      · -- an exception while handling the messages of the first segment
        have e2 : stepClient c σ a = (ended (handleMsgs c true σ.core (parse c.I (σ.reqBuf ++ a)).1).1,
            (handleMsgs c true σ.core (parse c.I (σ.reqBuf ++ a)).1).2) := by
          simp only [stepClient, hx, hcr, if_true]
        have e1 : stepClient c σ (a ++ b) = stepClient c σ a := by
          rw [e2]
          simp only [stepClient, hx, happ, handleMsgs_append, handleMsgs_crashed _ _ _ _ hcr, hcr, if_true, List.append_nil]
        rw [e1, e2]
        rw [step_not_query c _ _ (by simp [ended, hcr])]; simp
      · have e2 : stepClient c σ a = (State.mk (handleMsgs c true σ.core (parse c.I (σ.reqBuf ++ a)).1).1
            (parse c.I (σ.reqBuf ++ a)).2.1 σ.respBuf, (handleMsgs c true σ.core (parse c.I (σ.reqBuf ++ a)).1).2) := by
          simp only [stepClient, hx, hcr, hbad', if_false, Bool.false_eq_true]
        have hq2 : (handleMsgs c true σ.core (parse c.I (σ.reqBuf ++ a)).1).1.phase = .query := by
          rcases handleMsgs_pm c true (parse c.I (σ.reqBuf ++ a)).1 σ.core with h | h
          · rw [h, hq]
          · exact absurd h hcr
        rw [e2]
        have hstep2 : ∀ τ : State, τ.core.phase = .query → step c τ (.clientData b) = stepClient c τ b := by
          intro τ hτ; simp [step, hτ]
        rw [hstep2 _ hq2]
        simp only [stepClient, hx, extract, htcp, if_true, happ, handleMsgs_append]
        split
        · simp
        · split <;> simp
  · rw [step_not_query c σ _ hq, step_not_query c σ _ hq, step_not_query c σ _ hq]; simp

/-- the request buffer holds no complete frame -/
def StableC (c : Cfg) (σ : State) : Prop := parse c.I σ.reqBuf = ([], σ.reqBuf, false)

theorem step_client_nil (c : Cfg) (htcp : c.tcp = true) (σ : State) (h : StableC c σ) : step c σ (.clientData []) = (σ, []) := by
  by_cases hq : σ.core.phase = .query
  · have hne : σ.core.phase ≠ .crashed := by rw [hq]; simp
    unfold StableC at h
    simp [step, hq, stepClient, extract, htcp, h, handleMsgs, hne]
  · exact step_not_query c σ _ hq

theorem step_client_stable (c : Cfg) (htcp : c.tcp = true) (σ : State) (d : Bytes) :
    StableC c (step c σ (.clientData d)).1 ∨ (step c σ (.clientData d)).1 = σ := by
  by_cases hq : σ.core.phase = .query
  · left
    simp only [step, hq, ne_eq, not_true_eq_false, if_false, stepClient, extract, htcp, if_true]
    split
    · simp [StableC, ended, parse_nil]
    · split
      · simp [StableC, ended, parse_nil]
      · exact parse_rest_stable c.I _ _ (Nat.le_refl _)
  · right; rw [step_not_query c σ _ hq]

/-! ### steps and runs keep the invariant; their traces are justified in temporal order -/

theorem GoodT_nil {A : List Msg} {σ : Core} (h : Inv A σ) : GoodT A σ (σ, []) :=
  ⟨h, by simp [queriesOf], by simp [TraceOk]⟩

theorem GoodT_close {A : List Msg} {σ : Core} {r : Core × List Out} (h : GoodT A σ r) (σ' : Core) (o : Out)
    (hfl : σ'.flows = r.1.flows) (hacts : σ'.acts = r.1.acts) (hseen : σ'.seen = r.1.seen) (ho : reqOf o = [])
    (hok : ∀ S, OutOk A S o) : GoodT A σ (σ', r.2 ++ [o]) := by
  refine ⟨⟨?_, ?_⟩, ?_, ?_⟩
  · intro k f hm; rw [hseen]; exact h.1.1 k f (by rw [← hfl]; exact hm)
  · rw [hacts]; exact h.1.2
  · simp only [queriesOf_append, hseen, h.2.1]
    simp [queriesOf, ho]
  · rw [TraceOk_append]
    refine ⟨h.2.2, ?_⟩
    simp only [TraceOk, ho, List.nil_append, and_true]
    exact hok _

theorem step_goodT (c : Cfg) (A : List Msg) (σ : State) (ev : Ev) (hinv : Inv A σ.core) :
    GoodT A σ.core ((step c σ ev).1.core, (step c σ ev).2) := by
  by_cases hq : σ.core.phase = .query
  · cases ev with
    | clientData d =>
      have hg := handleMsgs_goodT c A true (extract c.I c.tcp σ.reqBuf d).1 σ.core hinv
      simp only [step, hq, ne_eq, not_true_eq_false, if_false, stepClient]
      split
      · exact hg
      · split
        · exact GoodT_close hg _ .closeClient rfl rfl rfl rfl (fun _ => trivial)
        · exact hg
    | serverData d =>
      have hg := handleMsgs_goodT c A false (extract c.I c.tcp σ.respBuf d).1 σ.core hinv
      simp only [step, hq, ne_eq, not_true_eq_false, if_false, stepServer]
      split
      · split
        · exact hg
        · split
          · exact GoodT_close hg _ .closeServer rfl rfl rfl rfl (fun _ => trivial)
          · exact hg
      · exact GoodT_nil hinv
    | clientClose =>
      simp only [step, hq, ne_eq, not_true_eq_false, if_false]
      split
      · exact GoodT_close (GoodT_nil hinv) _ .closeServer rfl rfl rfl rfl (fun _ => trivial)
      · exact GoodT_nil hinv
    | serverClose =>
      simp only [step, hq, ne_eq, not_true_eq_false, if_false]
      split
      · exact GoodT_close (GoodT_nil hinv) _ .closeClient rfl rfl rfl rfl (fun _ => trivial)
      · exact GoodT_nil hinv
  · rw [step_not_query c σ ev hq]; exact GoodT_nil hinv

theorem run_goodT (c : Cfg) (A : List Msg) : ∀ (evs : List Ev) (σ : State), Inv A σ.core →
    GoodT A σ.core ((run c σ evs).1.core, (run c σ evs).2) := by
  intro evs
  induction evs with
  | nil => intro σ h; exact GoodT_nil h
  | cons ev evs ih =>
    intro σ hinv
    have h1 := step_goodT c A σ ev hinv
    have h2 := ih _ h1.1
    simp only [run]
    refine ⟨h2.1, ?_, ?_⟩
    · simp only [queriesOf_append, List.reverse_append, List.append_assoc]
      rw [h2.2.1, h1.2.1]
    · rw [TraceOk_append]
      refine ⟨h1.2.2, ?_⟩
      rw [← h1.2.1]; exact h2.2.2

theorem Inv_init (acts : List Act) (conns : List Bool) : Inv (addonMsgs acts) (init acts conns).core :=
  ⟨by intro k f h; simp [init] at h, by intro m h; exact h⟩

/-- unfolding `TraceOk`: the output at any position is justified by the queries announced up to that position -/
theorem TraceOk_at {A : List Msg} : ∀ (pre : List Out) (S : List Msg) (o : Out) (post : List Out),
    TraceOk A S (pre ++ o :: post) → OutOk A ((queriesOf (pre ++ [o])).reverse ++ S) o := by
  intro pre S o post h
  rw [TraceOk_append] at h
  have h2 := h.2
  simp only [TraceOk] at h2
  have : (queriesOf (pre ++ [o])).reverse ++ S = reqOf o ++ ((queriesOf pre).reverse ++ S) := by
    cases o with
    | hook hk f => cases hk <;> cases hr : f.request <;> simp [queriesOf, reqOf, hr]
    | _ => simp [queriesOf, reqOf]
  rw [this]; exact h2.1

/-! ### which queries a step announces -/

theorem handleMsgs_server_plain (c : Cfg) : ∀ (ms : List Msg) (σ : Core), Plain (handleMsgs c false σ ms).2 := by
  intro ms
  induction ms with
  | nil => intro σ; exact Plain_nil
  | cons m ms ih =>
    intro σ
    unfold handleMsgs
    split
    · exact Plain_nil
    · dsimp only
      rw [Plain_append]
      exact ⟨serverMsg_plain _ _ _, ih _⟩

/-- the loop announces the client's messages in order; all of them unless an exception ended it -/
theorem handleMsgs_client_queries (c : Cfg) (A : List Msg) : ∀ (ms : List Msg) (σ : Core), Inv A σ →
    queriesOf (handleMsgs c true σ ms).2 <+: ms ∧
    ((handleMsgs c true σ ms).1.phase ≠ .crashed → queriesOf (handleMsgs c true σ ms).2 = ms) := by
  intro ms
  induction ms with
  | nil => intro σ _; simp [handleMsgs, queriesOf]
  | cons m ms ih =>
    intro σ hinv
    by_cases hc : σ.phase = .crashed
    · simp [handleMsgs, hc, queriesOf]
    · obtain ⟨hg, hq⟩ := clientMsg_goodT c A σ m hinv
      obtain ⟨i1, i2⟩ := ih _ hg.1
      simp only [handleMsgs, hc, if_false, if_true, queriesOf_append, hq]
      refine ⟨?_, ?_⟩
      · simpa using (List.prefix_append_right_inj [m]).mpr i1
      · intro hne
        rw [i2 hne]; rfl

end MitmVerif.C27
