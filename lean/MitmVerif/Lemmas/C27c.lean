/-
  C27: the segmentation law of the layer for the upstream server's stream; where `crashed` comes from.
-/
import MitmVerif.Lemmas.C27b
set_option linter.unusedVariables false
set_option linter.unusedSimpArgs false
namespace MitmVerif.C27
open MitmVerif MitmVerif.C25

/-! ### handling server messages never touches `serverOpen` -/

theorem popAct_serverOpen (σ : Core) : (popAct σ).2.serverOpen = σ.serverOpen := by
  unfold popAct; cases σ.acts <;> rfl

theorem sendClient_serverOpen (c : Cfg) (σ : Core) (m : Msg) : (sendClient c σ m).1.serverOpen = σ.serverOpen := by
  rcases (sendClient_spec c σ m).1 with h | h <;> rw [h] <;> rfl

theorem handleResponse_serverOpen (c : Cfg) (σ : Core) (k : Nat) (f : Flow) (m : Msg) :
    (handleResponse c σ k f m).1.serverOpen = σ.serverOpen := by
  unfold handleResponse
  dsimp only
  split
  · simp [setFlow, popAct_serverOpen]
  · rw [sendClient_serverOpen]; simp [setFlow, popAct_serverOpen]

theorem serverMsg_serverOpen (c : Cfg) (σ : Core) (m : Msg) : (serverMsg c σ m).1.serverOpen = σ.serverOpen := by
  unfold serverMsg
  split
  · rfl
  · split
    · rfl
    · split
      · exact handleResponse_serverOpen _ _ _ _ _
      · rfl

theorem handleMsgs_server_serverOpen (c : Cfg) : ∀ (ms : List Msg) (σ : Core),
    (handleMsgs c false σ ms).1.serverOpen = σ.serverOpen := by
  intro ms
  induction ms with
  | nil => intro σ; rfl
  | cons m ms ih =>
    intro σ
    unfold handleMsgs
    split
    · rfl
    · dsimp only
      rw [ih]
      simp [serverMsg_serverOpen]

/-! ### the layer: feeding `a ++ b` = feeding `a`, then `b` (TCP, data from the server) -/

theorem server_seg_law (c : Cfg) (htcp : c.tcp = true) (σ : State) (a b : Bytes) :
    step c σ (.serverData (a ++ b)) =
      ((step c (step c σ (.serverData a)).1 (.serverData b)).1,
       (step c σ (.serverData a)).2 ++ (step c (step c σ (.serverData a)).1 (.serverData b)).2) := by
  by_cases hq : σ.core.phase = .query
  · by_cases ho : σ.core.serverOpen = true
    · have hstep : ∀ d, step c σ (.serverData d) = stepServer c σ d := by intro d; simp [step, hq, ho]
      rw [hstep, hstep]
      have hx : ∀ d, extract c.I c.tcp σ.respBuf d = parse c.I (σ.respBuf ++ d) := by intro d; simp [extract, htcp]
      have happ := parse_append c.I (σ.respBuf ++ a).length (σ.respBuf ++ a) b (Nat.le_refl _)
      rw [List.append_assoc] at happ
      by_cases hbad : (parse c.I (σ.respBuf ++ a)).2.2 = true
      · rw [if_pos hbad] at happ
        have e1 : stepServer c σ (a ++ b) = stepServer c σ a := by
          simp only [stepServer, hx, happ]
        rw [e1]
        have hne : (stepServer c σ a).1.core.phase ≠ .query := by
          simp only [stepServer, hx, hbad]
          split
          · rename_i h; simp [ended, h]
          · simp [ended]
        rw [step_not_query c _ _ hne]; simp
      · rw [if_neg hbad] at happ
        have hbad' : (parse c.I (σ.respBuf ++ a)).2.2 = false := by simpa using hbad
        by_cases hcr : (handleMsgs c false σ.core (parse c.I (σ.respBuf ++ a)).1).1.phase = .crashed
        · have e2 : stepServer c σ a = (ended (handleMsgs c false σ.core (parse c.I (σ.respBuf ++ a)).1).1,
              (handleMsgs c false σ.core (parse c.I (σ.respBuf ++ a)).1).2) := by
            simp only [stepServer, hx, hcr, if_true]
          have e1 : stepServer c σ (a ++ b) = stepServer c σ a := by
            rw [e2]
            simp only [stepServer, hx, happ, handleMsgs_append, handleMsgs_crashed _ _ _ _ hcr, hcr, if_true, List.append_nil]
          rw [e1, e2]
          rw [step_not_query c _ _ (by simp [ended, hcr])]; simp
        · have e2 : stepServer c σ a = (State.mk (handleMsgs c false σ.core (parse c.I (σ.respBuf ++ a)).1).1
              σ.reqBuf (parse c.I (σ.respBuf ++ a)).2.1, (handleMsgs c false σ.core (parse c.I (σ.respBuf ++ a)).1).2) := by
            simp only [stepServer, hx, hcr, hbad', if_false, Bool.false_eq_true]
          have hq2 : (handleMsgs c false σ.core (parse c.I (σ.respBuf ++ a)).1).1.phase = .query := by
            rcases handleMsgs_pm c false (parse c.I (σ.respBuf ++ a)).1 σ.core with h | h
            · rw [h, hq]
            · exact absurd h hcr
          have ho2 : (handleMsgs c false σ.core (parse c.I (σ.respBuf ++ a)).1).1.serverOpen = true := by
            rw [handleMsgs_server_serverOpen]; exact ho
          rw [e2]
          have hstep2 : ∀ τ : State, τ.core.phase = .query → τ.core.serverOpen = true →
              step c τ (.serverData b) = stepServer c τ b := by
            intro τ hτ hτo; simp [step, hτ, hτo]
          rw [hstep2 _ hq2 ho2]
          simp only [stepServer, hx, extract, htcp, if_true, happ, handleMsgs_append]
          split
          · simp
          · split <;> simp
    · have hno : ∀ d, step c σ (.serverData d) = (σ, []) := by intro d; simp [step, hq, ho]
      rw [hno, hno, hno]; simp
  · rw [step_not_query c σ _ hq, step_not_query c σ _ hq, step_not_query c σ _ hq]; simp

/-- the response buffer holds no complete frame -/
def StableR (c : Cfg) (σ : State) : Prop := parse c.I σ.respBuf = ([], σ.respBuf, false)

theorem step_server_nil (c : Cfg) (htcp : c.tcp = true) (σ : State) (h : StableR c σ) : step c σ (.serverData []) = (σ, []) := by
  by_cases hq : σ.core.phase = .query
  · have hne : σ.core.phase ≠ .crashed := by rw [hq]; simp
    unfold StableR at h
    by_cases ho : σ.core.serverOpen = true
    · simp [step, hq, ho, stepServer, extract, htcp, h, handleMsgs, hne]
    · simp [step, hq, ho]
  · exact step_not_query c σ _ hq

theorem step_server_stable (c : Cfg) (htcp : c.tcp = true) (σ : State) (d : Bytes) :
    StableR c (step c σ (.serverData d)).1 ∨ (step c σ (.serverData d)).1 = σ := by
  by_cases hq : σ.core.phase = .query
  · by_cases ho : σ.core.serverOpen = true
    · left
      simp only [step, hq, ne_eq, not_true_eq_false, if_false, ho, if_true, stepServer, extract, htcp]
      split
      · simp [StableR, ended, parse_nil]
      · split
        · simp [StableR, ended, parse_nil]
        · exact parse_rest_stable c.I _ _ (Nat.le_refl _)
    · right; simp [step, hq, ho]
  · right; rw [step_not_query c σ _ hq]

/-! ### the phase `crashed` is only entered together with a `crash` output -/

theorem sendClient_crash (c : Cfg) (τ : Core) (m : Msg) (a1 : τ.phase ≠ .crashed)
    (a2 : (sendClient c τ m).1.phase = .crashed) : Out.crash ∈ (sendClient c τ m).2 := by
  unfold sendClient at a2 ⊢
  cases hp : pack c.I m with
  | none => simp
  | some b =>
    cases hw : wireOf? c.tcp b with
    | none => simp [hw]
    | some w => simp [hp, hw] at a2; exact absurd a2 a1

theorem handleResponse_crash (c : Cfg) (τ : Core) (k : Nat) (f : Flow) (m : Msg) (a1 : τ.phase ≠ .crashed)
    (a2 : (handleResponse c τ k f m).1.phase = .crashed) : Out.crash ∈ (handleResponse c τ k f m).2 := by
  unfold handleResponse at a2 ⊢
  dsimp only at a2 ⊢
  split at a2
  · simp [setFlow, popAct_phase] at a2; exact absurd a2 a1
  · rename_i r hrr
    simp only [hrr]
    exact List.mem_cons_of_mem _ (sendClient_crash _ _ _ (by simp [setFlow, popAct_phase]; exact a1) a2)

theorem serverMsg_crash (c : Cfg) (τ : Core) (m : Msg) (a1 : τ.phase ≠ .crashed)
    (a2 : (serverMsg c τ m).1.phase = .crashed) : Out.crash ∈ (serverMsg c τ m).2 := by
  unfold serverMsg at a2 ⊢
  split
  · rename_i hl; simp only [hl] at a2; exact absurd a2 a1
  · rename_i f hl
    simp only [hl] at a2
    split
    · simp
    · rename_i q hq
      simp only [hq] at a2
      split
      · rename_i hqs
        simp only [hqs, if_true] at a2
        exact handleResponse_crash _ _ _ _ _ a1 a2
      · rename_i hqs
        simp only [hqs, if_false] at a2
        exact absurd a2 a1

theorem handleMsgs_server_crash (c : Cfg) : ∀ (ms : List Msg) (τ : Core), τ.phase ≠ .crashed →
    (handleMsgs c false τ ms).1.phase = .crashed → Out.crash ∈ (handleMsgs c false τ ms).2 := by
  intro ms
  induction ms with
  | nil => intro τ h1 h2; simp [handleMsgs] at h2; exact absurd h2 h1
  | cons m ms ih =>
    intro τ h1 h2
    simp only [handleMsgs, h1, if_false, Bool.false_eq_true] at h2 ⊢
    by_cases h3 : (serverMsg c τ m).1.phase = .crashed
    · exact List.mem_append_left _ (serverMsg_crash _ _ _ h1 h3)
    · exact List.mem_append_right _ (ih _ h3 h2)

/-! ### handling client messages never closes an open upstream connection -/

theorem popConn_serverOpen (σ : Core) : (popConn σ).2.serverOpen = σ.serverOpen := by
  unfold popConn; cases σ.conns <;> rfl

theorem sendServer_serverOpen (c : Cfg) (σ : Core) (m : Msg) : (sendServer c σ m).1.serverOpen = σ.serverOpen := by
  rcases (sendServer_spec c σ m).1 with h | h <;> rw [h] <;> rfl

theorem handleError_serverOpen (c : Cfg) (σ : Core) (k : Nat) (f : Flow) :
    (handleError c σ k f).1.serverOpen = σ.serverOpen := by
  unfold handleError
  dsimp only
  split
  · simp [crashed, setFlow, popAct_serverOpen]
  · rw [sendClient_serverOpen]; simp [setFlow, popAct_serverOpen]

theorem handleRequest_serverOpen (c : Cfg) (σ : Core) (k : Nat) (f : Flow) (q : Msg) (h : σ.serverOpen = true) :
    (handleRequest c σ k f q).1.serverOpen = true := by
  have h0 : ∀ f', (setFlow (popAct σ).2 k f').serverOpen = true := by intro f'; simp [setFlow, popAct_serverOpen, h]
  unfold handleRequest
  dsimp only
  split
  · rw [handleResponse_serverOpen]; exact h0 _
  · split
    · rw [handleError_serverOpen]; exact h0 _
    · split
      · rw [sendServer_serverOpen]; exact h0 _
      · split
        · rw [handleError_serverOpen]; exact h0 _
        · split
          · rw [sendServer_serverOpen]
          · rw [handleError_serverOpen]; simp [popConn_serverOpen, h0]

theorem handleMsgs_client_serverOpen (c : Cfg) : ∀ (ms : List Msg) (σ : Core), σ.serverOpen = true →
    (handleMsgs c true σ ms).1.serverOpen = true := by
  intro ms
  induction ms with
  | nil => intro σ h; exact h
  | cons m ms ih =>
    intro σ h
    unfold handleMsgs
    split
    · exact h
    · dsimp only
      exact ih _ (by simp only [if_true]; unfold clientMsg; exact handleRequest_serverOpen _ _ _ _ _ h)

/-! ### replies nobody is waiting for -/

/-- the reply `m` answers the query the flow table holds for its id -/
def Solicited (σ : Core) (m : Msg) : Prop :=
  ∃ f q, σ.flows.lookup m.id = some f ∧ f.request = some q ∧ m.questions = q.questions

theorem serverMsg_unsolicited (c : Cfg) (A : List Msg) (σ : Core) (m : Msg) (hinv : Inv A σ) (h : ¬ Solicited σ m) :
    serverMsg c σ m = (σ, []) := by
  unfold serverMsg
  cases hl : σ.flows.lookup m.id with
  | none => rfl
  | some f =>
    obtain ⟨q, h1, _, _, _⟩ := hinv.1 _ _ (mem_of_lookup hl)
    simp only [h1]
    split
    · rename_i hqs; exact absurd ⟨f, q, hl, h1, hqs⟩ h
    · rfl

theorem serverMsg_solicited (c : Cfg) (σ : Core) (m : Msg) (f : Flow) (q : Msg)
    (hl : σ.flows.lookup m.id = some f) (hr : f.request = some q) (hq : m.questions = q.questions) :
    serverMsg c σ m = handleResponse c σ m.id f m := by
  unfold serverMsg
  simp [hl, hr, hq]

theorem handleMsgs_unsolicited (c : Cfg) (A : List Msg) : ∀ (ms : List Msg) (σ : Core), Inv A σ →
    (∀ m ∈ ms, ¬ Solicited σ m) → handleMsgs c false σ ms = (σ, []) := by
  intro ms
  induction ms with
  | nil => intro σ _ _; rfl
  | cons m ms ih =>
    intro σ hinv h
    unfold handleMsgs
    split
    · rfl
    · have h1 := serverMsg_unsolicited c A σ m hinv (h m (by simp))
      simp only [Bool.false_eq_true, if_false, h1]
      rw [ih σ hinv (fun m' hm' => h m' (by simp [hm']))]
      rfl

/-- a solicited reply answers a query that was handled: same id, same question section -/
theorem Solicited_seen {A : List Msg} {σ : Core} {m : Msg} (hinv : Inv A σ) (h : Solicited σ m) :
    ∃ q ∈ σ.seen, q.id = m.id ∧ q.questions = m.questions := by
  obtain ⟨f, q, hl, hr, hq⟩ := h
  obtain ⟨q', h1, h2, h3, _⟩ := hinv.1 _ _ (mem_of_lookup hl)
  rw [hr] at h1; cases h1
  exact ⟨q, h3, h2, hq.symm⟩

/-! ### a server segment that completes no frame commutes with data from the client -/

theorem buffered_server_commutes (c : Cfg) (htcp : c.tcp = true) (σ : State) (s x : Bytes)
    (hq : σ.core.phase = .query) (ho : σ.core.serverOpen = true)
    (hnone : (parse c.I (σ.respBuf ++ s)).1 = []) (hok : (parse c.I (σ.respBuf ++ s)).2.2 = false) :
    run c σ [.serverData s, .clientData x] = run c σ [.clientData x, .serverData s] := by
  have hne : σ.core.phase ≠ .crashed := by rw [hq]; simp
  have hs : ∀ τ : State, τ.core.phase = .query → τ.core.serverOpen = true → τ.respBuf = σ.respBuf →
      step c τ (.serverData s) = (State.mk τ.core τ.reqBuf (parse c.I (σ.respBuf ++ s)).2.1, []) := by
    intro τ h1 h2 h3
    have hne' : τ.core.phase ≠ .crashed := by rw [h1]; simp
    simp [step, h1, h2, stepServer, extract, htcp, h3, hnone, hok, handleMsgs, hne']
  have hc : ∀ τ : State, τ.core.phase = .query → step c τ (.clientData x) = stepClient c τ x := by
    intro τ h1; simp [step, h1]
  simp only [run, List.append_nil, List.nil_append]
  rw [hs σ hq ho rfl, hc σ hq]
  dsimp only
  rw [hc (State.mk σ.core σ.reqBuf (parse c.I (σ.respBuf ++ s)).2.1) hq]
  -- the three outcomes of the client's data
  by_cases hcr : (handleMsgs c true σ.core (extract c.I c.tcp σ.reqBuf x).1).1.phase = .crashed
  · have e1 : ∀ τ : State, τ.core = σ.core → τ.reqBuf = σ.reqBuf → stepClient c τ x =
        (ended (handleMsgs c true σ.core (extract c.I c.tcp σ.reqBuf x).1).1, (handleMsgs c true σ.core (extract c.I c.tcp σ.reqBuf x).1).2) := by
      intro τ h1 h2; simp only [stepClient, h1, h2, hcr, if_true]
    rw [e1 σ rfl rfl, e1 (State.mk σ.core σ.reqBuf (parse c.I (σ.respBuf ++ s)).2.1) rfl rfl]
    rw [step_not_query c _ _ (by simp [ended, hcr])]
    simp
  · by_cases hbad : (extract c.I c.tcp σ.reqBuf x).2.2 = true
    · have e1 : ∀ τ : State, τ.core = σ.core → τ.reqBuf = σ.reqBuf → stepClient c τ x =
          (ended { (handleMsgs c true σ.core (extract c.I c.tcp σ.reqBuf x).1).1 with phase := .done },
           (handleMsgs c true σ.core (extract c.I c.tcp σ.reqBuf x).1).2 ++ [.closeClient]) := by
        intro τ h1 h2; simp only [stepClient, h1, h2, hcr, hbad, if_true, if_false]
      rw [e1 σ rfl rfl, e1 (State.mk σ.core σ.reqBuf (parse c.I (σ.respBuf ++ s)).2.1) rfl rfl]
      rw [step_not_query c _ _ (by simp [ended])]
      simp
    · have e1 : ∀ τ : State, τ.core = σ.core → τ.reqBuf = σ.reqBuf → stepClient c τ x =
          (State.mk (handleMsgs c true σ.core (extract c.I c.tcp σ.reqBuf x).1).1 (extract c.I c.tcp σ.reqBuf x).2.1 τ.respBuf,
           (handleMsgs c true σ.core (extract c.I c.tcp σ.reqBuf x).1).2) := by
        intro τ h1 h2; simp [stepClient, h1, h2, hcr, hbad]
      rw [e1 σ rfl rfl, e1 (State.mk σ.core σ.reqBuf (parse c.I (σ.respBuf ++ s)).2.1) rfl rfl]
      have hq2 : (handleMsgs c true σ.core (extract c.I c.tcp σ.reqBuf x).1).1.phase = .query := by
        rcases handleMsgs_pm c true (extract c.I c.tcp σ.reqBuf x).1 σ.core with h | h
        · rw [h, hq]
        · exact absurd h hcr
      have ho2 := handleMsgs_client_serverOpen c (extract c.I c.tcp σ.reqBuf x).1 σ.core ho
      dsimp only
      rw [hs (State.mk (handleMsgs c true σ.core (extract c.I c.tcp σ.reqBuf x).1).1 (extract c.I c.tcp σ.reqBuf x).2.1 σ.respBuf)
        hq2 ho2 rfl]
      simp

end MitmVerif.C27
