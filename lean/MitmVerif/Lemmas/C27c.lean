/-
  C27: the segmentation law of the layer for the upstream server's stream; where `crashed` comes from.
-/
import MitmVerif.Lemmas.C27b
set_option linter.unusedVariables false
set_option linter.unusedSimpArgs false
namespace MitmVerif.C27
open MitmVerif MitmVerif.C25

/-! ### handling server messages never touches `serverOpen` -/

theorem popAct_serverOpen (σ : Core) : (popAct σ).2.serverOpen = σ.serverOpen := by
  unfold popAct; cases σ.acts <;> rfl

theorem sendClient_serverOpen (c : Cfg) (σ : Core) (m : Msg) : (sendClient c σ m).1.serverOpen = σ.serverOpen := by
  rcases (sendClient_spec c σ m).1 with h | h <;> rw [h] <;> rfl

theorem handleResponse_serverOpen (c : Cfg) (σ : Core) (k : Nat) (f : Flow) (m : Msg) :
    (handleResponse c σ k f m).1.serverOpen = σ.serverOpen := by
  unfold handleResponse
  dsimp only
  split
  · simp [setFlow, popAct_serverOpen]
  · rw [sendClient_serverOpen]; simp [setFlow, popAct_serverOpen]

theorem serverMsg_serverOpen (c : Cfg) (σ : Core) (m : Msg) : (serverMsg c σ m).1.serverOpen = σ.serverOpen := by
  unfold serverMsg
  split
  · rfl
  · split
    · rfl
    · split
      · exact handleResponse_serverOpen _ _ _ _ _
      · rfl

theorem handleMsgs_server_serverOpen (c : Cfg) : ∀ (ms : List Msg) (σ : Core),
    (handleMsgs c false σ ms).1.serverOpen = σ.serverOpen := by
  intro ms
  induction ms with
  | nil => intro σ; rfl
  | cons m ms ih =>
    intro σ
    unfold handleMsgs
    split
    · rfl
    · dsimp only
      rw [ih]
      simp [serverMsg_serverOpen]

/-! ### the layer: feeding `a ++ b` = feeding `a`, then `b` (TCP, data from the server) -/

theorem server_seg_law (c : Cfg) (htcp : c.tcp = true) (σ : State) (a b : Bytes) :
    step c σ (.serverData (a ++ b)) =
      ((step c (step c σ (.serverData a)).1 (.serverData b)).1,
       (step c σ (.serverData a)).2 ++ (step c (step c σ (.serverData a)).1 (.serverData b)).2) := by
  by_cases hq : σ.core.phase = .query
  · by_cases ho : σ.core.serverOpen = true
    · have hstep : ∀ d, step c σ (.serverData d) = stepServer c σ d := by intro d; simp [step, hq, ho]
      rw [hstep, hstep]
      have hx : ∀ d, extract c.I c.tcp σ.respBuf d = parse c.I (σ.respBuf ++ d) := by intro d; simp [extract, htcp]
      have happ := parse_append c.I (σ.respBuf ++ a).length (σ.respBuf ++ a) b (Nat.le_refl _)
      rw [List.append_assoc] at happ
      by_cases hbad : (parse c.I (σ.respBuf ++ a)).2.2 = true
      · rw [if_pos hbad] at happ
        have e1 : stepServer c σ (a ++ b) = stepServer c σ a := by
          simp only [stepServer, hx, happ]
        rw [e1]
        have hne : (stepServer c σ a).1.core.phase ≠ .query := by
          simp only [stepServer, hx, hbad]
          split
          · rename_i h; simp [ended, h]
          · simp [ended]
        rw [step_not_query c _ _ hne]; simp
      · rw [if_neg hbad] at happ
        have hbad' : (parse c.I (σ.respBuf ++ a)).2.2 = false := by simpa using hbad
        by_cases hcr : (handleMsgs c false σ.core (parse c.I (σ.respBuf ++ a)).1).1.phase = .crashed
        · have e2 : stepServer c σ a = (ended (handleMsgs c false σ.core (parse c.I (σ.respBuf ++ a)).1).1,
              (handleMsgs c false σ.core (parse c.I (σ.respBuf ++ a)).1).2) := by
            simp only [stepServer, hx, hcr, if_true]
          have e1 : stepServer c σ (a ++ b) = stepServer c σ a := by
            rw [e2]
            simp only [stepServer, hx, happ, handleMsgs_append, handleMsgs_crashed _ _ _ _ hcr, hcr, if_true, List.append_nil]
          rw [e1, e2]
          rw [step_not_query c _ _ (by simp [ended, hcr])]; simp
        · have e2 : stepServer c σ a = (State.mk (handleMsgs c false σ.core (parse c.I (σ.respBuf ++ a)).1).1
              σ.reqBuf (parse c.I (σ.respBuf ++ a)).2.1, (handleMsgs c false σ.core (parse c.I (σ.respBuf ++ a)).1).2) := by
            simp only [stepServer, hx, hcr, hbad', if_false, Bool.false_eq_true]
          have hq2 : (handleMsgs c false σ.core (parse c.I (σ.respBuf ++ a)).1).1.phase = .query := by
            rcases handleMsgs_pm c false (parse c.I (σ.respBuf ++ a)).1 σ.core with h | h
            · rw [h, hq]
            · exact absurd h hcr
          have ho2 : (handleMsgs c false σ.core (parse c.I (σ.respBuf ++ a)).1).1.serverOpen = true := by
            rw [handleMsgs_server_serverOpen]; exact ho
          rw [e2]
          have hstep2 : ∀ τ : State, τ.core.phase = .query → τ.core.serverOpen = true →
              step c τ (.serverData b) = stepServer c τ b := by
            intro τ hτ hτo; simp [step, hτ, hτo]
          rw [hstep2 _ hq2 ho2]
          simp only [stepServer, hx, extract, htcp, if_true, happ, handleMsgs_append]
          split
          · simp
          · split <;> simp
    · have hno : ∀ d, step c σ (.serverData d) = (σ, []) := by intro d; simp [step, hq, ho]
      rw [hno, hno, hno]; simp
  · rw [step_not_query c σ _ hq, step_not_query c σ _ hq, step_not_query c σ _ hq]; simp

/-- the response buffer holds no complete frame -/
def StableR (c : Cfg) (σ : State) : Prop := parse c.I σ.respBuf = ([], σ.respBuf, false)

theorem step_server_nil (c : Cfg) (htcp : c.tcp = true) (σ : State) (h : StableR c σ) : step c σ (.serverData []) = (σ, []) := by
  by_cases hq : σ.core.phase = .query
  · have hne : σ.core.phase ≠ .crashed := by rw [hq]; simp
    unfold StableR at h
    by_cases ho : σ.core.serverOpen = true
    · simp [step, hq, ho, stepServer, extract, htcp, h, handleMsgs, hne]
    · simp [step, hq, ho]
  · exact step_not_query c σ _ hq

theorem step_server_stable (c : Cfg) (htcp : c.tcp = true) (σ : State) (d : Bytes) :
    StableR c (step c σ (.serverData d)).1 ∨ (step c σ (.serverData d)).1 = σ := by
  by_cases hq : σ.core.phase = .query
  · by_cases ho : σ.core.serverOpen = true
    · left
      simp only [step, hq, ne_eq, not_true_eq_false, if_false, ho, if_true, stepServer, extract, htcp]
      split
      · simp [StableR, ended, parse_nil]
      · split
        · simp [StableR, ended, parse_nil]
        · exact parse_rest_stable c.I _ _ (Nat.le_refl _)
    · right; simp [step, hq, ho]
  · right; rw [step_not_query c σ _ hq]

/-! ### the phase `crashed` is only entered together with a `crash` output -/

theorem sendClient_crash (c : Cfg) (τ : Core) (m : Msg) (a1 : τ.phase ≠ .crashed)
    (a2 : (sendClient c τ m).1.phase = .crashed) : Out.crash ∈ (sendClient c τ m).2 := by
  unfold sendClient at a2 ⊢
  cases hp : pack c.I m with
  | none => simp
  | some b => simp [hp] at a2; exact absurd a2 a1

theorem handleResponse_crash (c : Cfg) (τ : Core) (k : Nat) (f : Flow) (m : Msg) (a1 : τ.phase ≠ .crashed)
    (a2 : (handleResponse c τ k f m).1.phase = .crashed) : Out.crash ∈ (handleResponse c τ k f m).2 := by
  unfold handleResponse at a2 ⊢
  dsimp only at a2 ⊢
  split at a2
  · simp [setFlow, popAct_phase] at a2; exact absurd a2 a1
  · rename_i r hrr
    simp only [hrr]
    exact List.mem_cons_of_mem _ (sendClient_crash _ _ _ (by simp [setFlow, popAct_phase]; exact a1) a2)

theorem serverMsg_crash (c : Cfg) (τ : Core) (m : Msg) (a1 : τ.phase ≠ .crashed)
    (a2 : (serverMsg c τ m).1.phase = .crashed) : Out.crash ∈ (serverMsg c τ m).2 := by
  unfold serverMsg at a2 ⊢
  split
  · rename_i hl; simp only [hl] at a2; exact absurd a2 a1
  · rename_i f hl
    simp only [hl] at a2
    split
    · simp
    · rename_i q hq
      simp only [hq] at a2
      split
      · rename_i hqs
        simp only [hqs, if_true] at a2
        exact handleResponse_crash _ _ _ _ _ a1 a2
      · rename_i hqs
        simp only [hqs, if_false] at a2
        exact absurd a2 a1

theorem handleMsgs_server_crash (c : Cfg) : ∀ (ms : List Msg) (τ : Core), τ.phase ≠ .crashed →
    (handleMsgs c false τ ms).1.phase = .crashed → Out.crash ∈ (handleMsgs c false τ ms).2 := by
  intro ms
  induction ms with
  | nil => intro τ h1 h2; simp [handleMsgs] at h2; exact absurd h2 h1
  | cons m ms ih =>
    intro τ h1 h2
    simp only [handleMsgs, h1, if_false, Bool.false_eq_true] at h2 ⊢
    by_cases h3 : (serverMsg c τ m).1.phase = .crashed
    · exact List.mem_append_left _ (serverMsg_crash _ _ _ h1 h3)
    · exact List.mem_append_right _ (ih _ h3 h2)

end MitmVerif.C27
