/-
  C27: whole-history shape of traces — what follows a `dns_error` hook and a failed connect, and where exceptions can come from.
  `K` = "an exception may leave the layer" (`True`: unconditional shape; `False`: under the hypothesis that the addons'
  responses can be encoded, no exception at all).
-/
import MitmVerif.Lemmas.C27c
import MitmVerif.Lemmas.C25Msg
set_option linter.unusedVariables false
set_option linter.unusedSimpArgs false
namespace MitmVerif.C27
open MitmVerif MitmVerif.C25

def Decoded (I : Idna) (m : Msg) : Prop := ∃ b, unpack I b = some m
def Packable (I : Idna) (m : Msg) : Prop := ∃ b, pack I m = some b

/-- `pack_message(m, transport)` succeeds: the message encodes, and over TCP its encoding fits the 16-bit length prefix -/
def Fits (c : Cfg) (m : Msg) : Prop := ∃ b w, pack c.I m = some b ∧ wireOf? c.tcp b = some w

theorem Fits_udp {c : Cfg} {m : Msg} (hudp : c.tcp = false) (h : Packable c.I m) : Fits c m := by
  obtain ⟨b, hb⟩ := h
  exact ⟨b, wireOf c.tcp b, hb, by simp [wireOf?, hudp]⟩

theorem Decoded.packable {I : Idna} {m : Msg} (h : Decoded I m) : Packable I m := by
  obtain ⟨b, hb⟩ := h
  exact pack_ok (unpack_wellFormed0 hb)

theorem Decoded.servfail_packable {I : Idna} {q : Msg} (h : Decoded I q) : Packable I (servfail q) := by
  obtain ⟨b, hb⟩ := h
  obtain ⟨a1, a2, _, _, a5, _, _, _, a9, _, _, _⟩ := unpack_wellFormed0 hb
  exact pack_ok ⟨a1, a2, by simp [servfail, fail], by simp [servfail, fail, SERVFAIL], a5, by simp [servfail, fail],
    by simp [servfail, fail], by simp [servfail, fail], a9, by simp [servfail, fail], by simp [servfail, fail],
    by simp [servfail, fail]⟩

theorem parse_decoded (I : Idna) : ∀ (n : Nat) (x : Bytes), x.length ≤ n → ∀ m ∈ (parse I x).1, Decoded I m := by
  intro n
  induction n with
  | zero =>
    intro x hx m hm
    have : x = [] := by cases x <;> simp_all
    subst this; simp [parse_nil] at hm
  | succ n ih =>
    intro x hx m hm
    match x with
    | [] => simp [parse_nil] at hm
    | [a] => simp [parse_one] at hm
    | a :: b :: rest =>
      rw [parse_cons2] at hm
      by_cases h0 : a.toNat * 256 + b.toNat = 0
      · rw [if_pos h0] at hm; simp at hm
      · rw [if_neg h0] at hm
        by_cases hl : rest.length < a.toNat * 256 + b.toNat
        · rw [if_pos hl] at hm; simp at hm
        · rw [if_neg hl] at hm
          cases hu : unpack I (rest.take (a.toNat * 256 + b.toNat)) with
          | none => rw [hu] at hm; simp at hm
          | some m' =>
            rw [hu] at hm
            simp only [List.mem_cons] at hm
            rcases hm with h | h
            · rw [h]; exact ⟨_, hu⟩
            · exact ih _ (by simp only [List.length_drop, List.length_cons] at *; omega) m h

theorem extract_decoded (I : Idna) (tcp : Bool) (buf d : Bytes) : ∀ m ∈ (extract I tcp buf d).1, Decoded I m := by
  intro m hm
  unfold extract at hm
  split at hm
  · exact parse_decoded I _ _ (Nat.le_refl _) m hm
  · split at hm
    · simp at hm
    · rename_i m' hu
      simp at hm; rw [hm]; exact ⟨_, hu⟩

/-! ### the shape of traces -/

/-- what must directly follow an output (`nxt` = the next output of the trace, if any) -/
def Follows (K : Prop) (c : Cfg) : Out → Option Out → Prop
  | .crash, _ => K
  | .hook .error f, nxt => ∃ q, f.request = some q ∧ Decoded c.I q ∧
      ((∃ b w, pack c.I (servfail q) = some b ∧ wireOf? c.tcp b = some w ∧ nxt = some (.toClient (servfail q) w)) ∨
       (K ∧ ¬ Fits c (servfail q) ∧ nxt = some .crash))
  | .opened .fail, nxt => ∃ f, nxt = some (.hook .error f)
  | .opened .killed, nxt => ∃ f, nxt = some (.hook .error f)
  | _, _ => True

def Shape (K : Prop) (c : Cfg) : List Out → Prop
  | [] => True
  | o :: rest => Follows K c o rest.head? ∧ Shape K c rest

theorem Follows_none {K : Prop} {c : Cfg} {o : Out} (h : Follows K c o none) (x : Option Out) : Follows K c o x := by
  cases o with
  | hook hk f => cases hk <;> simp_all [Follows]
  | opened r => cases r <;> simp_all [Follows]
  | crash => exact h
  | _ => trivial

theorem Shape_append {K : Prop} {c : Cfg} : ∀ (a b : List Out), Shape K c a → Shape K c b → Shape K c (a ++ b) := by
  intro a
  induction a with
  | nil => intro b _ hb; exact hb
  | cons o rest ih =>
    intro b ha hb
    refine ⟨?_, ih b ha.2 hb⟩
    cases rest with
    | nil => exact Follows_none ha.1 _
    | cons o2 r2 => exact ha.1

/-- requests are decoded queries; responses can be encoded (or exceptions are allowed) -/
def DInv (K : Prop) (c : Cfg) (σ : Core) : Prop :=
  (∀ k f, (k, f) ∈ σ.flows → (∃ q, f.request = some q ∧ Decoded c.I q) ∧ (∀ r, f.response = some r → K ∨ Fits c r)) ∧
  (∀ m ∈ addonMsgs σ.acts, K ∨ Fits c m)

def GoodS (K : Prop) (c : Cfg) (r : Core × List Out) : Prop := DInv K c r.1 ∧ Shape K c r.2

/-- every decoded message (client query, upstream reply) and the SERVFAIL of every decoded query can be sent — or
    exceptions are allowed.  Always true over UDP; over TCP it is the bound "re-encoding ≤ 65535 bytes". -/
def DFits (K : Prop) (c : Cfg) : Prop := ∀ m, Decoded c.I m → (K ∨ Fits c m) ∧ (K ∨ Fits c (servfail m))

theorem DInv_crashed {K : Prop} {c : Cfg} {σ : Core} (h : DInv K c σ) : DInv K c (crashed σ) := h

theorem sendClient_goodS (K : Prop) (c : Cfg) (σ : Core) (m : Msg) (hinv : DInv K c σ) (hm : K ∨ Fits c m) :
    GoodS K c (sendClient c σ m) := by
  unfold sendClient
  cases hp : pack c.I m with
  | none =>
    rcases hm with hk | ⟨b, w, hb, _⟩
    · exact ⟨DInv_crashed hinv, ⟨hk, trivial⟩⟩
    · rw [hp] at hb; cases hb
  | some b =>
    dsimp only
    cases hw : wireOf? c.tcp b with
    | none =>
      rcases hm with hk | ⟨b', w, hb, hw'⟩
      · exact ⟨DInv_crashed hinv, ⟨hk, trivial⟩⟩
      · rw [hp] at hb; cases hb; rw [hw] at hw'; cases hw'
    | some w => exact ⟨hinv, ⟨trivial, trivial⟩⟩

theorem sendServer_goodS (K : Prop) (c : Cfg) (σ : Core) (m : Msg) (hinv : DInv K c σ) (hm : K ∨ Fits c m) :
    GoodS K c (sendServer c σ m) := by
  unfold sendServer
  cases hp : pack c.I m with
  | none =>
    rcases hm with hk | ⟨b, w, hb, _⟩
    · exact ⟨DInv_crashed hinv, ⟨hk, trivial⟩⟩
    · rw [hp] at hb; cases hb
  | some b =>
    dsimp only
    cases hw : wireOf? c.tcp b with
    | none =>
      rcases hm with hk | ⟨b', w, hb, hw'⟩
      · exact ⟨DInv_crashed hinv, ⟨hk, trivial⟩⟩
      · rw [hp] at hb; cases hb; rw [hw] at hw'; cases hw'
    | some w => exact ⟨hinv, ⟨trivial, trivial⟩⟩

theorem popAct_dinv (K : Prop) (c : Cfg) (σ : Core) (h : ∀ m ∈ addonMsgs σ.acts, K ∨ Fits c m) :
    (∀ m ∈ addonMsgs (popAct σ).2.acts, K ∨ Fits c m) ∧ (∀ m, (popAct σ).1 = .respond m → K ∨ Fits c m) ∧
    (popAct σ).2.flows = σ.flows := by
  unfold popAct
  cases ha : σ.acts with
  | nil => simp [ha] at h ⊢; simp [ha, addonMsgs]
  | cons a r => cases a <;> simp_all [addonMsgs]

theorem setFlow_dinv {K : Prop} {c : Cfg} {σ σ1 : Core} (hinv : DInv K c σ) (hfl : σ1.flows = σ.flows)
    (hacts : ∀ m ∈ addonMsgs σ1.acts, K ∨ Fits c m) (k : Nat) (f : Flow) (q : Msg)
    (hreq : f.request = some q) (hq : Decoded c.I q) (hresp : ∀ r, f.response = some r → K ∨ Fits c r) :
    DInv K c (setFlow σ1 k f) := by
  refine ⟨?_, hacts⟩
  intro k' f' hm
  simp only [setFlow, List.mem_cons, hfl] at hm
  rcases hm with h | h
  · cases h; exact ⟨⟨q, hreq, hq⟩, hresp⟩
  · exact hinv.1 k' f' h

theorem handleResponse_goodS (K : Prop) (c : Cfg) (σ : Core) (k : Nat) (f : Flow) (q m : Msg)
    (hinv : DInv K c σ) (hreq : f.request = some q) (hq : Decoded c.I q) (hm : K ∨ Fits c m) :
    GoodS K c (handleResponse c σ k f m) := by
  obtain ⟨hacts, hresp, hfl⟩ := popAct_dinv K c σ hinv.2
  have hf2 : ∀ r, (applyAct (popAct σ).1 { f with response := some m }).response = some r → K ∨ Fits c r := by
    intro r hr
    cases ha : (popAct σ).1 with
    | pass => rw [ha] at hr; simp [applyAct] at hr; subst hr; exact hm
    | respond m' => rw [ha] at hr; simp [applyAct] at hr; subst hr; exact hresp _ ha
    | clear => rw [ha] at hr; simp [applyAct] at hr
    | err => rw [ha] at hr; simp [applyAct] at hr; subst hr; exact hm
  have hinv2 := setFlow_dinv hinv hfl hacts k (applyAct (popAct σ).1 { f with response := some m }) q
    (by rw [applyAct_request]; exact hreq) hq hf2
  unfold handleResponse
  dsimp only
  split
  · exact ⟨hinv2, ⟨trivial, trivial⟩⟩
  · rename_i r hr
    have hs := sendClient_goodS K c _ r hinv2 (hf2 r hr)
    exact ⟨hs.1, ⟨trivial, hs.2⟩⟩

theorem handleError_goodS (K : Prop) (c : Cfg) (σ : Core) (k : Nat) (f : Flow) (q : Msg)
    (hinv : DInv K c σ) (hreq : f.request = some q) (hq : Decoded c.I q) (hsf : K ∨ Fits c (servfail q))
    (hresp0 : ∀ r, f.response = some r → K ∨ Fits c r) :
    GoodS K c (handleError c σ k f) ∧ ∃ f' rest, (handleError c σ k f).2 = .hook .error f' :: rest := by
  obtain ⟨hacts, hresp, hfl⟩ := popAct_dinv K c σ hinv.2
  have hf2 : ∀ r, (applyAct (popAct σ).1 { f with error := true }).response = some r → K ∨ Fits c r := by
    intro r hr
    cases ha : (popAct σ).1 with
    | pass => rw [ha] at hr; simp [applyAct] at hr; exact hresp0 r hr
    | respond m' => rw [ha] at hr; simp [applyAct] at hr; subst hr; exact hresp _ ha
    | clear => rw [ha] at hr; simp [applyAct] at hr
    | err => rw [ha] at hr; simp [applyAct] at hr; exact hresp0 r hr
  have hreq2 : (applyAct (popAct σ).1 { f with error := true }).request = some q := by rw [applyAct_request]; exact hreq
  have hinv2 := setFlow_dinv hinv hfl hacts k (applyAct (popAct σ).1 { f with error := true }) q hreq2 hq hf2
  have hs := sendClient_goodS K c _ (servfail q) hinv2 hsf
  obtain ⟨b, hb⟩ := hq.servfail_packable
  have hfol : Follows K c (.hook .error { f with error := true })
      (sendClient c (setFlow (popAct σ).2 k (applyAct (popAct σ).1 { f with error := true })) (servfail q)).2.head? := by
    refine ⟨q, hreq, hq, ?_⟩
    unfold sendClient
    simp only [hb]
    cases hw : wireOf? c.tcp b with
    | none =>
      refine Or.inr ⟨?_, ?_, rfl⟩
      · rcases hsf with hk | ⟨b', w, hb', hw'⟩
        · exact hk
        · rw [hb] at hb'; cases hb'; rw [hw] at hw'; cases hw'
      · intro ⟨b', w, hb', hw'⟩
        rw [hb] at hb'; cases hb'; rw [hw] at hw'; cases hw'
    | some w => exact Or.inl ⟨b, w, rfl, hw, rfl⟩
  unfold handleError
  simp only [hreq2]
  exact ⟨⟨hs.1, ⟨hfol, hs.2⟩⟩, _, _, rfl⟩

theorem handleRequest_goodS (K : Prop) (c : Cfg) (σ : Core) (k : Nat) (f : Flow) (q : Msg)
    (hinv : DInv K c σ) (hq : Decoded c.I q) (hqf : (K ∨ Fits c q) ∧ (K ∨ Fits c (servfail q))) (hresp0 : f.response = none) :
    GoodS K c (handleRequest c σ k f q) := by
  obtain ⟨hacts, hresp, hfl⟩ := popAct_dinv K c σ hinv.2
  have hreq2 : (applyAct (popAct σ).1 { f with request := some q }).request = some q := by rw [applyAct_request]
  have hf2 : ∀ r, (applyAct (popAct σ).1 { f with request := some q }).response = some r → K ∨ Fits c r := by
    intro r hr
    cases ha : (popAct σ).1 with
    | pass => rw [ha] at hr; simp [applyAct, hresp0] at hr
    | respond m' => rw [ha] at hr; simp [applyAct] at hr; subst hr; exact hresp _ ha
    | clear => rw [ha] at hr; simp [applyAct] at hr
    | err => rw [ha] at hr; simp [applyAct, hresp0] at hr
  have hinv2 := setFlow_dinv hinv hfl hacts k (applyAct (popAct σ).1 { f with request := some q }) q hreq2 hq hf2
  have pc : ∀ τ : Core, DInv K c τ → ∀ τ' : Core, τ'.flows = (popConn τ).2.flows → τ'.acts = (popConn τ).2.acts → DInv K c τ' := by
    intro τ hτ τ' h1 h2
    obtain ⟨pf, _, pa⟩ := popConn_spec τ
    exact ⟨by intro k' f' hm; exact hτ.1 k' f' (by rw [← pf, ← h1]; exact hm), by rw [h2, pa]; exact hτ.2⟩
  have consS : ∀ (o : Out) (r : Core × List Out), GoodS K c r → Follows K c o r.2.head? → GoodS K c (r.1, o :: r.2) :=
    fun o r h ho => ⟨h.1, ⟨ho, h.2⟩⟩
  unfold handleRequest
  dsimp only
  split
  · rename_i r hr
    exact consS _ _ (handleResponse_goodS K c _ k _ q r hinv2 hreq2 hq (hf2 r hr)) trivial
  · have herr := fun τ (hτ : DInv K c τ) => handleError_goodS K c τ k (applyAct (popAct σ).1 { f with request := some q }) q hτ hreq2 hq hqf.2 hf2
    split
    · exact consS _ _ (herr _ hinv2).1 trivial
    · split
      · exact consS _ _ (sendServer_goodS K c _ q hinv2 hqf.1) trivial
      · split
        · obtain ⟨hg, f', rest, he⟩ := herr _ hinv2
          exact consS _ _ (consS (.opened .killed) _ hg ⟨f', by rw [he]; rfl⟩) trivial
        · split
          · have hs := sendServer_goodS K c
              { (popConn (setFlow (popAct σ).2 k (applyAct (popAct σ).1 { f with request := some q }))).2 with serverOpen := true } q
              (pc _ hinv2 _ rfl rfl) hqf.1
            exact ⟨hs.1, ⟨trivial, ⟨trivial, hs.2⟩⟩⟩
          · obtain ⟨hg, f', rest, he⟩ := herr _ (pc _ hinv2 { (popConn (setFlow (popAct σ).2 k (applyAct (popAct σ).1 { f with request := some q }))).2 with serverFailed := true } rfl rfl)
            exact consS _ _ (consS (.opened .fail) _ hg ⟨f', by rw [he]; rfl⟩) trivial

theorem clientMsg_goodS (K : Prop) (c : Cfg) (σ : Core) (q : Msg) (hinv : DInv K c σ) (hq : Decoded c.I q)
    (hqf : (K ∨ Fits c q) ∧ (K ∨ Fits c (servfail q))) : GoodS K c (clientMsg c σ q) := by
  unfold clientMsg
  exact handleRequest_goodS K c { σ with seen := q :: σ.seen } q.id (flowFor σ q.id) q hinv hq hqf (flowFor_response σ q.id)

theorem serverMsg_goodS (K : Prop) (c : Cfg) (σ : Core) (m : Msg) (hinv : DInv K c σ) (hm : K ∨ Fits c m) :
    GoodS K c (serverMsg c σ m) := by
  unfold serverMsg
  cases hl : σ.flows.lookup m.id with
  | none => exact ⟨hinv, trivial⟩
  | some f =>
    obtain ⟨⟨q, h1, h2⟩, _⟩ := hinv.1 _ _ (mem_of_lookup hl)
    simp only [h1]
    split
    · exact handleResponse_goodS K c σ m.id f q m hinv h1 h2 hm
    · exact ⟨hinv, trivial⟩

theorem handleMsgs_goodS (K : Prop) (c : Cfg) (hD : DFits K c) (fc : Bool) : ∀ (ms : List Msg) (σ : Core), DInv K c σ →
    (∀ m ∈ ms, Decoded c.I m) → GoodS K c (handleMsgs c fc σ ms) := by
  intro ms
  induction ms with
  | nil => intro σ h _; exact ⟨h, trivial⟩
  | cons m ms ih =>
    intro σ hinv hd
    unfold handleMsgs
    split
    · exact ⟨hinv, trivial⟩
    · have h1 : GoodS K c (if fc = true then clientMsg c σ m else serverMsg c σ m) := by
        cases fc
        · exact serverMsg_goodS K c σ m hinv (hD m (hd m (by simp))).1
        · exact clientMsg_goodS K c σ m hinv (hd m (by simp)) (hD m (hd m (by simp)))
      have h2 := ih _ h1.1 (fun m' hm' => hd m' (by simp [hm']))
      exact ⟨h2.1, Shape_append _ _ h1.2 h2.2⟩

theorem GoodS_close {K : Prop} {c : Cfg} {r : Core × List Out} (h : GoodS K c r) (σ' : Core) (o : Out)
    (hfl : σ'.flows = r.1.flows) (hacts : σ'.acts = r.1.acts) (ho : ∀ x, Follows K c o x) : GoodS K c (σ', r.2 ++ [o]) :=
  ⟨⟨by intro k f hm; exact h.1.1 k f (by rw [← hfl]; exact hm), by rw [hacts]; exact h.1.2⟩,
   Shape_append _ _ h.2 ⟨ho _, trivial⟩⟩

theorem step_goodS (K : Prop) (c : Cfg) (hD : DFits K c) (σ : State) (ev : Ev) (hinv : DInv K c σ.core) :
    GoodS K c ((step c σ ev).1.core, (step c σ ev).2) := by
  have nil : GoodS K c (σ.core, []) := ⟨hinv, trivial⟩
  by_cases hq : σ.core.phase = .query
  · cases ev with
    | clientData d =>
      have hg := handleMsgs_goodS K c hD true _ σ.core hinv (extract_decoded c.I c.tcp σ.reqBuf d)
      simp only [step, hq, ne_eq, not_true_eq_false, if_false, stepClient]
      split
      · exact hg
      · split
        · exact GoodS_close hg _ .closeClient rfl rfl (fun _ => trivial)
        · exact hg
    | serverData d =>
      have hg := handleMsgs_goodS K c hD false _ σ.core hinv (extract_decoded c.I c.tcp σ.respBuf d)
      simp only [step, hq, ne_eq, not_true_eq_false, if_false, stepServer]
      split
      · split
        · exact hg
        · split
          · exact GoodS_close hg _ .closeServer rfl rfl (fun _ => trivial)
          · exact hg
      · exact nil
    | clientClose =>
      simp only [step, hq, ne_eq, not_true_eq_false, if_false]
      split
      · exact GoodS_close nil _ .closeServer rfl rfl (fun _ => trivial)
      · exact nil
    | serverClose =>
      simp only [step, hq, ne_eq, not_true_eq_false, if_false]
      split
      · exact GoodS_close nil _ .closeClient rfl rfl (fun _ => trivial)
      · exact nil
  · rw [step_not_query c σ ev hq]; exact nil

theorem run_goodS (K : Prop) (c : Cfg) (hD : DFits K c) : ∀ (evs : List Ev) (σ : State), DInv K c σ.core →
    GoodS K c ((run c σ evs).1.core, (run c σ evs).2) := by
  intro evs
  induction evs with
  | nil => intro σ h; exact ⟨h, trivial⟩
  | cons ev evs ih =>
    intro σ hinv
    have h1 := step_goodS K c hD σ ev hinv
    have h2 := ih _ h1.1
    exact ⟨h2.1, Shape_append _ _ h1.2 h2.2⟩

/-- unfolding `Shape` at a position -/
theorem Shape_at {K : Prop} {c : Cfg} : ∀ (pre : List Out) (o : Out) (post : List Out),
    Shape K c (pre ++ o :: post) → Follows K c o post.head? := by
  intro pre
  induction pre with
  | nil => intro o post h; exact h.1
  | cons p pre ih => intro o post h; exact ih o post h.2

/-! ### without upstream: what follows a `dns_request` hook -/

def isRespOrErrHook : Option Out → Prop
  | some (.hook .response _) => True
  | some (.hook .error _) => True
  | _ => False

def Follows2 : Out → Option Out → Prop
  | .hook .request f, nxt => f.request = none ∨ isRespOrErrHook nxt
  | _, _ => True

def Shape2 : List Out → Prop
  | [] => True
  | o :: rest => Follows2 o rest.head? ∧ Shape2 rest

theorem Shape2_plain : ∀ (tr : List Out), Plain tr → Shape2 tr := by
  intro tr
  induction tr with
  | nil => intro _; trivial
  | cons o tr ih =>
    intro h
    rw [Plain_cons] at h
    refine ⟨?_, ih h.2⟩
    cases o with
    | hook hk f => cases hk <;> first | trivial | (cases hf : f.request <;> simp [reqOf, hf] at h <;> exact Or.inl hf)
    | _ => trivial

theorem Follows2_none {o : Out} (h : Follows2 o none) (x : Option Out) : Follows2 o x := by
  cases o with
  | hook hk f => cases hk <;> first | trivial | (rcases h with h | h <;> first | exact Or.inl h | exact absurd h (by simp [isRespOrErrHook]))
  | _ => trivial

theorem Shape2_append : ∀ (a b : List Out), Shape2 a → Shape2 b → Shape2 (a ++ b) := by
  intro a
  induction a with
  | nil => intro b _ hb; exact hb
  | cons o rest ih =>
    intro b ha hb
    refine ⟨?_, ih b ha.2 hb⟩
    cases rest with
    | nil => exact Follows2_none ha.1 _
    | cons o2 r2 => exact ha.1

theorem handleResponse_head (c : Cfg) (σ : Core) (k : Nat) (f : Flow) (m : Msg) :
    isRespOrErrHook (handleResponse c σ k f m).2.head? := by
  unfold handleResponse; dsimp only; split <;> trivial

theorem handleError_head (c : Cfg) (σ : Core) (k : Nat) (f : Flow) : isRespOrErrHook (handleError c σ k f).2.head? := by
  unfold handleError; dsimp only; split <;> trivial

theorem handleRequest_shape2 (c : Cfg) (hup : c.upstream = false) (σ : Core) (k : Nat) (f : Flow) (q : Msg) :
    Shape2 (handleRequest c σ k f q).2 := by
  unfold handleRequest
  dsimp only
  split
  · exact ⟨Or.inr (handleResponse_head _ _ _ _ _), Shape2_plain _ (handleResponse_plain _ _ _ _ _)⟩
  · split
    · exact ⟨Or.inr (handleError_head _ _ _ _), Shape2_plain _ (handleError_plain _ _ _ _)⟩
    · rename_i h; exact absurd (Or.inr (by simp [hup])) h

theorem handleMsgs_shape2 (c : Cfg) (hup : c.upstream = false) (fc : Bool) : ∀ (ms : List Msg) (σ : Core),
    Shape2 (handleMsgs c fc σ ms).2 := by
  intro ms
  induction ms with
  | nil => intro σ; trivial
  | cons m ms ih =>
    intro σ
    unfold handleMsgs
    split
    · trivial
    · dsimp only
      refine Shape2_append _ _ ?_ (ih _)
      cases fc
      · exact Shape2_plain _ (serverMsg_plain _ _ _)
      · simp only [if_true]; unfold clientMsg; exact handleRequest_shape2 c hup _ _ _ _

theorem step_shape2 (c : Cfg) (hup : c.upstream = false) (σ : State) (ev : Ev) : Shape2 (step c σ ev).2 := by
  have cl : ∀ (tr : List Out) (o : Out), Shape2 tr → (∀ x, Follows2 o x) → Shape2 (tr ++ [o]) :=
    fun tr o h ho => Shape2_append _ _ h ⟨ho _, trivial⟩
  unfold step
  split
  · trivial
  · cases ev with
    | clientData d =>
      simp only [stepClient]
      split
      · exact handleMsgs_shape2 c hup _ _ _
      · split
        · exact cl _ _ (handleMsgs_shape2 c hup _ _ _) (fun _ => trivial)
        · exact handleMsgs_shape2 c hup _ _ _
    | serverData d =>
      simp only
      split
      · simp only [stepServer]
        split
        · exact handleMsgs_shape2 c hup _ _ _
        · split
          · exact cl _ _ (handleMsgs_shape2 c hup _ _ _) (fun _ => trivial)
          · exact handleMsgs_shape2 c hup _ _ _
      · trivial
    | clientClose => simp only; split <;> simp [Shape2, Follows2]
    | serverClose => simp only; split <;> simp [Shape2, Follows2]

theorem run_shape2 (c : Cfg) (hup : c.upstream = false) : ∀ (evs : List Ev) (σ : State), Shape2 (run c σ evs).2 := by
  intro evs
  induction evs with
  | nil => intro σ; trivial
  | cons ev evs ih => intro σ; exact Shape2_append _ _ (step_shape2 c hup σ ev) (ih _)

theorem Shape2_at : ∀ (pre : List Out) (o : Out) (post : List Out), Shape2 (pre ++ o :: post) → Follows2 o post.head? := by
  intro pre
  induction pre with
  | nil => intro o post h; exact h.1
  | cons p pre ih => intro o post h; exact ih o post h.2

theorem run_snoc (c : Cfg) : ∀ (evs : List Ev) (σ : State) (ev : Ev),
    run c σ (evs ++ [ev]) = ((step c (run c σ evs).1 ev).1, (run c σ evs).2 ++ (step c (run c σ evs).1 ev).2) := by
  intro evs
  induction evs with
  | nil => intro σ ev; simp [run]
  | cons e evs ih => intro σ ev; simp [run, ih, List.append_assoc]

end MitmVerif.C27
