/-
  C27: the pause-and-queue mechanism of `Layer.handle_event` emits, in every schedule, exactly what handling the events one
  after the other emits.
-/
import MitmVerif.Model.C27_Async
import MitmVerif.Lemmas.C27d
set_option linter.unusedVariables false
set_option linter.unusedSimpArgs false
namespace MitmVerif.C27
open MitmVerif

theorem chunks_ne (l : List Out) : chunks l ≠ [] := by
  cases l with
  | nil => simp [chunks]
  | cons o rest =>
    simp only [chunks]
    cases chunks rest with
    | nil => simp
    | cons ch cs => by_cases h : isHook o = true <;> simp [h]

theorem chunks_flatten (l : List Out) : (chunks l).flatten = l := by
  induction l with
  | nil => simp [chunks]
  | cons o rest ih =>
    simp only [chunks]
    cases hc : chunks rest with
    | nil => exact absurd hc (chunks_ne rest)
    | cons ch cs =>
      rw [hc] at ih
      simp only
      split <;> simp_all

theorem run_append (c : Cfg) : ∀ (l1 l2 : List Ev) (σ : State),
    run c σ (l1 ++ l2) = ((run c (run c σ l1).1 l2).1, (run c σ l1).2 ++ (run c (run c σ l1).1 l2).2) := by
  intro l1
  induction l1 with
  | nil => intro l2 σ; simp [run]
  | cons e l1 ih => intro l2 σ; simp [run, ih, List.append_assoc]

theorem startEv_spec (c : Cfg) (a : AState) (ev : Ev) :
    (startEv c a ev).2 ++ ((startEv c a ev).1.paused.getD []).flatten = (step c a.σ ev).2 ∧
    (startEv c a ev).1.σ = (step c a.σ ev).1 ∧ (startEv c a ev).1.queue = a.queue := by
  have hf := chunks_flatten (step c a.σ ev).2
  unfold startEv
  cases hc : chunks (step c a.σ ev).2 with
  | nil => exact absurd hc (chunks_ne _)
  | cons ch rest =>
    rw [hc] at hf
    cases rest with
    | nil => simp at hf ⊢; exact hf
    | cons c2 r2 => simp at hf ⊢; exact hf

theorem drain_spec (c : Cfg) : ∀ (q : List Ev) (a : AState), a.paused = none →
    (drain c q a).2 ++ owed c (drain c q a).1 = (run c a.σ q).2 ∧ settled c (drain c q a).1 = (run c a.σ q).1 ∧
    ((drain c q a).1.paused = none → (drain c q a).1.queue = []) := by
  intro q
  induction q with
  | nil => intro a h; simp [drain, owed, settled, run, h]
  | cons ev q ih =>
    intro a h
    obtain ⟨s1, s2, s3⟩ := startEv_spec c a ev
    simp only [drain, h, Option.isSome_none, Bool.false_eq_true, if_false]
    cases hp : (startEv c a ev).1.paused with
    | none =>
      obtain ⟨i1, i2, i3⟩ := ih _ hp
      rw [hp] at s1
      simp only [Option.getD_none, List.flatten_nil, List.append_nil] at s1
      refine ⟨?_, ?_, i3⟩
      · rw [List.append_assoc, i1, s2, s1]; simp [run]
      · rw [i2, s2]; simp [run]
    | some rest =>
      rw [hp] at s1
      have hd : drain c q (startEv c a ev).1 = ({ (startEv c a ev).1 with queue := q }, []) := by
        cases q with
        | nil => simp [drain]
        | cons e2 q2 => simp [drain, hp]
      rw [hd]
      simp only [owed, settled, hp, Option.getD_some, List.append_nil, s2]
      refine ⟨?_, ?_, ?_⟩
      · simp only [Option.getD_some] at s1; rw [← List.append_assoc, s1]; simp [run]
      · simp [run]
      · intro h'; cases h'

/-- between events: when nothing is suspended the queue is empty -/
def AWf (a : AState) : Prop := a.paused = none → a.queue = []

theorem astep_arrive_spec (c : Cfg) (a : AState) (ev : Ev) (hw : AWf a) :
    (astep c a (.arrive ev)).2 ++ owed c (astep c a (.arrive ev)).1 = owed c a ++ (step c (settled c a) ev).2 ∧
    settled c (astep c a (.arrive ev)).1 = (step c (settled c a) ev).1 ∧ AWf (astep c a (.arrive ev)).1 := by
  cases hp : a.paused with
  | some rest =>
    simp only [astep, hp, owed, settled, Option.getD_some, List.nil_append]
    rw [run_append]
    refine ⟨by simp [run, List.append_assoc], by simp [run], ?_⟩
    intro h; simp [hp] at h
  | none =>
    have hq := hw hp
    obtain ⟨s1, s2, s3⟩ := startEv_spec c a ev
    simp only [astep, hp, owed, settled, hq, run, Option.getD_none, List.flatten_nil, List.nil_append, List.append_nil]
    rw [s3, hq, s2]
    refine ⟨by simp only [run, List.append_nil]; exact s1, by simp [run], ?_⟩
    intro _; rw [s3]; exact hq

theorem astep_complete_spec (c : Cfg) (a : AState) (hw : AWf a) :
    (astep c a .complete).2 ++ owed c (astep c a .complete).1 = owed c a ∧
    settled c (astep c a .complete).1 = settled c a ∧ AWf (astep c a .complete).1 := by
  cases hp : a.paused with
  | none => simp [astep, hp]; exact hw
  | some rest =>
    cases rest with
    | nil =>
      obtain ⟨d1, d2, d3⟩ := drain_spec c a.queue { a with paused := none } rfl
      simp only [astep, hp, owed, settled, Option.getD_some, List.flatten_nil, List.nil_append]
      exact ⟨d1, d2, d3⟩
    | cons ch r2 =>
      cases r2 with
      | nil =>
        obtain ⟨d1, d2, d3⟩ := drain_spec c a.queue { a with paused := none } rfl
        simp only [astep, hp, Option.getD_some]
        refine ⟨?_, d2, d3⟩
        rw [List.append_assoc, d1]; simp [owed, hp]
      | cons c3 r3 =>
        simp only [astep, hp]
        refine ⟨by simp [owed, hp, List.append_assoc], by simp [settled], ?_⟩
        intro h; cases h

theorem arun_spec (c : Cfg) : ∀ (sch : List AEv) (a : AState), AWf a →
    (arun c a sch).2 ++ owed c (arun c a sch).1 = owed c a ++ (run c (settled c a) (arrivals sch)).2 ∧
    settled c (arun c a sch).1 = (run c (settled c a) (arrivals sch)).1 ∧ AWf (arun c a sch).1 := by
  intro sch
  induction sch with
  | nil => intro a hw; simp [arun, arrivals, run]; exact hw
  | cons e es ih =>
    intro a hw
    cases e with
    | arrive ev =>
      obtain ⟨s1, s2, s3⟩ := astep_arrive_spec c a ev hw
      obtain ⟨i1, i2, i3⟩ := ih _ s3
      simp only [arun, arrivals, run]
      refine ⟨?_, ?_, i3⟩
      · rw [List.append_assoc, i1, ← List.append_assoc, s1, s2, List.append_assoc]
      · rw [i2, s2]
    | complete =>
      obtain ⟨s1, s2, s3⟩ := astep_complete_spec c a hw
      obtain ⟨i1, i2, i3⟩ := ih _ s3
      simp only [arun, arrivals]
      refine ⟨?_, ?_, i3⟩
      · rw [List.append_assoc, i1, ← List.append_assoc, s1, s2]
      · rw [i2, s2]

end MitmVerif.C27
