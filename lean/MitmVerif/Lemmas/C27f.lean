/-
  C27: provenance of every message sent to the client — which message was being handled, and which addon actions were
  consumed at the hooks of that very handling (round 6, after the cross-audit).
-/
import MitmVerif.Lemmas.C27e
set_option linter.unusedVariables false
set_option linter.unusedSimpArgs false
namespace MitmVerif.C27
open MitmVerif MitmVerif.C25

/-- the response a flow holds after the addon action `a` ran in a hook that saw the response `r` -/
def resolve : Act → Msg → Option Msg
  | .respond m', _ => some m'
  | .clear, _ => none
  | .pass, r => some r
  | .err, r => some r

theorem applyAct_set_response (a : Act) (f : Flow) (r : Msg) :
    (applyAct a { f with response := some r }).response = resolve a r := by cases a <;> rfl

theorem popAct_setFlow (σ : Core) (k : Nat) (f : Flow) : (popAct (setFlow σ k f)).1 = (popAct σ).1 := by
  unfold popAct setFlow; cases σ.acts <;> rfl

theorem popAct_seen (σ : Core) (l : List Msg) :
    (popAct { σ with seen := l }).1 = (popAct σ).1 ∧
    (popAct (popAct { σ with seen := l }).2).1 = (popAct (popAct σ).2).1 := by
  unfold popAct
  cases h : σ.acts with
  | nil => simp [h]
  | cons a r => cases r <;> simp [h]

theorem sendClient_toClient (c : Cfg) (σ : Core) (m m' : Msg) (w : Bytes)
    (h : Out.toClient m' w ∈ (sendClient c σ m).2) : m' = m := by
  rcases (sendClient_spec c σ m).2 _ h with h' | ⟨w', h'⟩
  · cases h'
  · cases h'; rfl

theorem sendServer_no_toClient (c : Cfg) (σ : Core) (q m : Msg) (w : Bytes) :
    Out.toClient m w ∉ (sendServer c σ q).2 := by
  intro h
  rcases (sendServer_spec c σ q).2 _ h with h' | ⟨w', h'⟩ <;> cases h'

theorem handleResponse_toClient (c : Cfg) (σ : Core) (k : Nat) (f : Flow) (m0 m : Msg) (w : Bytes)
    (h : Out.toClient m w ∈ (handleResponse c σ k f m0).2) : resolve (popAct σ).1 m0 = some m := by
  unfold handleResponse at h
  dsimp only at h
  rw [applyAct_set_response] at h
  cases hr : resolve (popAct σ).1 m0 with
  | none => rw [hr] at h; simp at h
  | some r =>
    rw [hr] at h
    simp only [List.mem_cons] at h
    rcases h with h | h
    · cases h
    · rw [sendClient_toClient c _ r m w h]

theorem handleError_toClient (c : Cfg) (σ : Core) (k : Nat) (f : Flow) (m : Msg) (w : Bytes)
    (h : Out.toClient m w ∈ (handleError c σ k f).2) : ∃ q, f.request = some q ∧ m = servfail q := by
  unfold handleError at h
  dsimp only at h
  rw [applyAct_request] at h
  cases hq : f.request with
  | none => rw [hq] at h; simp at h
  | some q =>
    rw [hq] at h
    simp only [List.mem_cons] at h
    rcases h with h | h
    · cases h
    · exact ⟨q, rfl, sendClient_toClient c _ _ m w h⟩

theorem handleRequest_toClient (c : Cfg) (σ : Core) (k : Nat) (f : Flow) (q m : Msg) (w : Bytes)
    (hresp0 : f.response = none) (h : Out.toClient m w ∈ (handleRequest c σ k f q).2) :
    m = servfail q ∨ ∃ m1, (popAct σ).1 = .respond m1 ∧ resolve (popAct (popAct σ).2).1 m1 = some m := by
  have herr : ∀ (τ : Core), Out.toClient m w ∈ (handleError c τ k (applyAct (popAct σ).1 { f with request := some q })).2 →
      m = servfail q := by
    intro τ hτ
    obtain ⟨q', h1, h2⟩ := handleError_toClient c τ k _ m w hτ
    rw [applyAct_request] at h1
    cases h1; exact h2
  unfold handleRequest at h
  dsimp only at h
  split at h
  · rename_i r hr
    simp only [List.mem_cons] at h
    rcases h with h | h
    · cases h
    · right
      have hres := handleResponse_toClient c _ k _ r m w h
      rw [popAct_setFlow] at hres
      -- the response can only come from a `.respond` at the request hook
      cases ha : (popAct σ).1 with
      | respond m1 =>
        rw [ha] at hr; simp [applyAct] at hr; subst hr
        exact ⟨m1, rfl, hres⟩
      | pass => rw [ha] at hr; simp [applyAct, hresp0] at hr
      | clear => rw [ha] at hr; simp [applyAct] at hr
      | err => rw [ha] at hr; simp [applyAct, hresp0] at hr
  · split at h
    · simp only [List.mem_cons] at h
      rcases h with h | h
      · cases h
      · exact Or.inl (herr _ h)
    · split at h
      · simp only [List.mem_cons] at h
        rcases h with h | h
        · cases h
        · exact absurd h (sendServer_no_toClient c _ q m w)
      · split at h
        · simp only [List.mem_cons] at h
          rcases h with h | h | h
          · cases h
          · cases h
          · exact Or.inl (herr _ h)
        · split at h
          · simp only [List.mem_cons] at h
            rcases h with h | h | h
            · cases h
            · cases h
            · exact absurd h (sendServer_no_toClient c _ q m w)
          · simp only [List.mem_cons] at h
            rcases h with h | h | h
            · cases h
            · cases h
            · exact Or.inl (herr _ h)

/-- a reply sent while the client query `q` is handled in state `σ`: its SERVFAIL, or the response set by the action
    consumed at this query's `dns_request` hook (as changed by the action consumed at its `dns_response` hook) -/
theorem clientMsg_toClient (c : Cfg) (σ : Core) (q m : Msg) (w : Bytes)
    (h : Out.toClient m w ∈ (clientMsg c σ q).2) :
    m = servfail q ∨ ∃ m1, (popAct σ).1 = .respond m1 ∧ resolve (popAct (popAct σ).2).1 m1 = some m := by
  unfold clientMsg at h
  have := handleRequest_toClient c _ q.id (flowFor σ q.id) q m w (flowFor_response σ q.id) h
  obtain ⟨p1, p2⟩ := popAct_seen σ (q :: σ.seen)
  rw [p1, p2] at this
  exact this

/-- a reply sent while the upstream message `m0` is handled in state `σ`: `m0` answers the query stored under its id, and
    what is sent is `m0` as changed by the action consumed at this message's `dns_response` hook -/
theorem serverMsg_toClient (c : Cfg) (σ : Core) (m0 m : Msg) (w : Bytes)
    (h : Out.toClient m w ∈ (serverMsg c σ m0).2) :
    ∃ f q, σ.flows.lookup m0.id = some f ∧ f.request = some q ∧ m0.questions = q.questions ∧
      resolve (popAct σ).1 m0 = some m := by
  unfold serverMsg at h
  cases hl : σ.flows.lookup m0.id with
  | none => simp [hl] at h
  | some f =>
    simp only [hl] at h
    cases hr : f.request with
    | none => simp [hr] at h
    | some q =>
      simp only [hr] at h
      split at h
      · rename_i hq
        exact ⟨f, q, rfl, hr, hq, handleResponse_toClient c σ m0.id f m0 m w h⟩
      · simp at h

/-- every output of the message loop is emitted while ONE message is handled, in a state that satisfies the invariant -/
theorem mem_handleMsgs (c : Cfg) (A : List Msg) (fc : Bool) (o : Out) : ∀ (ms : List Msg) (σ : Core), Inv A σ →
    o ∈ (handleMsgs c fc σ ms).2 →
    ∃ σ' x, Inv A σ' ∧ (∀ s ∈ σ.seen, s ∈ σ'.seen) ∧ o ∈ (if fc = true then clientMsg c σ' x else serverMsg c σ' x).2 := by
  intro ms
  induction ms with
  | nil => intro σ _ h; simp [handleMsgs] at h
  | cons x ms ih =>
    intro σ hinv h
    unfold handleMsgs at h
    split at h
    · simp at h
    · dsimp only at h
      simp only [List.mem_append] at h
      rcases h with h | h
      · exact ⟨σ, x, hinv, fun _ hs => hs, h⟩
      · have hg : Good' A σ (if fc = true then clientMsg c σ x else serverMsg c σ x) := by
          cases fc
          · exact (serverMsg_good c A σ x hinv).1
          · exact (clientMsg_good c A σ x hinv).1
        obtain ⟨σ', x', h1, h2, h3⟩ := ih _ hg.1 h
        exact ⟨σ', x', h1, fun s hs => h2 s (hg.2.1 s hs), h3⟩

theorem mem_step_toClient (c : Cfg) (A : List Msg) (σ : State) (ev : Ev) (hinv : Inv A σ.core) (m : Msg) (w : Bytes)
    (h : Out.toClient m w ∈ (step c σ ev).2) :
    ∃ σ' x fc, Inv A σ' ∧ Out.toClient m w ∈ (if fc = true then clientMsg c σ' x else serverMsg c σ' x).2 := by
  unfold step at h
  split at h
  · simp at h
  · cases ev with
    | clientData d =>
      simp only [stepClient] at h
      have key : Out.toClient m w ∈ (handleMsgs c true σ.core (extract c.I c.tcp σ.reqBuf d).1).2 := by
        split at h
        · exact h
        · split at h
          · simp only [List.mem_append, List.mem_singleton] at h
            rcases h with h | h
            · exact h
            · cases h
          · exact h
      obtain ⟨σ', x, h1, _, h3⟩ := mem_handleMsgs c A true _ _ σ.core hinv key
      exact ⟨σ', x, true, h1, h3⟩
    | serverData d =>
      simp only at h
      split at h
      · simp only [stepServer] at h
        have key : Out.toClient m w ∈ (handleMsgs c false σ.core (extract c.I c.tcp σ.respBuf d).1).2 := by
          split at h
          · exact h
          · split at h
            · simp only [List.mem_append, List.mem_singleton] at h
              rcases h with h | h
              · exact h
              · cases h
            · exact h
        obtain ⟨σ', x, h1, _, h3⟩ := mem_handleMsgs c A false _ _ σ.core hinv key
        exact ⟨σ', x, false, h1, h3⟩
      · simp at h
    | clientClose => simp only at h; split at h <;> simp at h
    | serverClose => simp only at h; split at h <;> simp at h

theorem mem_run_toClient (c : Cfg) (A : List Msg) (m : Msg) (w : Bytes) : ∀ (evs : List Ev) (σ : State), Inv A σ.core →
    Out.toClient m w ∈ (run c σ evs).2 →
    ∃ σ' x fc, Inv A σ' ∧ Out.toClient m w ∈ (if fc = true then clientMsg c σ' x else serverMsg c σ' x).2 := by
  intro evs
  induction evs with
  | nil => intro σ _ h; simp [run] at h
  | cons ev evs ih =>
    intro σ hinv h
    simp only [run, List.mem_append] at h
    rcases h with h | h
    · exact mem_step_toClient c A σ ev hinv m w h
    · exact ih _ (step_goodT c A σ ev hinv).1 h

end MitmVerif.C27
