/-
  C28 — helper lemmas (UTF-8 replace automaton, Fragmentizer slices).
-/
import MitmVerif.Model.C28
namespace MitmVerif.C28

/-! ### the UTF-8 replace automaton at a character boundary -/

theorem secondOk_cont (b0 x : UInt8) (h : secondOk b0 x = true) : isCont x = true := by
  simp only [secondOk] at h
  simp only [isCont, Bool.and_eq_true, decide_eq_true_eq]
  repeat' (split at h)
  all_goals (simp only [Bool.and_eq_true, decide_eq_true_eq] at h; omega)

theorem accepts_cont (p : Bytes) (x : UInt8) (h : accepts p x = true) : isCont x = true := by
  unfold accepts at h
  split at h
  · simp at h
  · exact secondOk_cont _ _ h
  · exact h

/-- a byte that is not a continuation byte ends whatever is pending (as end of input would) and
    is then processed from the initial state -/
theorem go_boundary (p : Bytes) (x : UInt8) (xs : Bytes) (hx : isCont x = false) :
    go p (x :: xs) = flush p ++ go [] (x :: xs) := by
  cases p with
  | nil => simp [flush]
  | cons b0 rest =>
    have hacc : accepts (b0 :: rest) x = false := by
      cases h : accepts (b0 :: rest) x with
      | false => rfl
      | true => have := accepts_cont _ _ h; simp [hx] at this
    simp [go, stepB, hacc, flush, List.append_assoc]

/-- output and final pending sequence after feeding `a` -/
def goSt (p : Bytes) : Bytes → Bytes × Bytes
  | [] => ([], p)
  | x :: xs => ((stepB p x).1 ++ (goSt (stepB p x).2 xs).1, (goSt (stepB p x).2 xs).2)

theorem go_append (p a b : Bytes) : go p (a ++ b) = (goSt p a).1 ++ go (goSt p a).2 b := by
  induction a generalizing p with
  | nil => simp [goSt]
  | cons x xs ih => simp [go, goSt, ih, List.append_assoc]

theorem go_eq_goSt (p a : Bytes) : go p a = (goSt p a).1 ++ flush (goSt p a).2 := by
  have := go_append p a []
  simpa [go] using this

/-- **boundary lemma**: splitting before a non-continuation byte commutes with decode-replace -/
theorem san_append_boundary (a b : Bytes) (hb : b = [] ∨ ∃ x xs, b = x :: xs ∧ isCont x = false) :
    san (a ++ b) = san a ++ san b := by
  unfold san
  rcases hb with rfl | ⟨x, xs, rfl, hx⟩
  · simp [go, flush]
  · rw [go_append, go_boundary _ _ _ hx, go_eq_goSt [] a, List.append_assoc]



theorem san_nil : san [] = [] := by simp [san, go, flush]

/-! ### `Fragmentizer.cut` -/

theorem back_le (c : Bytes) (p : Nat) : back c p ≤ p := by
  induction p with
  | zero => simp [back]
  | succ p ih => unfold back; split <;> omega

theorem back_mono (c : Bytes) {p q : Nat} (h : p ≤ q) : back c p ≤ back c q := by
  induction q with
  | zero => have : p = 0 := by omega
            subst this; exact Nat.le_refl _
  | succ q ih =>
    by_cases hpq : p = q + 1
    · subst hpq; exact Nat.le_refl _
    · have hp : p ≤ q := by omega
      have := ih hp
      have hle := back_le c p
      conv => rhs; unfold back
      split <;> omega

/-- the adjusted cut is the start of the content, at/after its end, or in front of a byte that
    does not continue a character -/
theorem back_boundary (c : Bytes) (p : Nat) :
    back c p = 0 ∨ c.length ≤ back c p ∨ isCont (c.getD (back c p) 0) = false := by
  induction p with
  | zero => simp [back]
  | succ p ih =>
    unfold back
    split
    · exact ih
    · rename_i h
      by_cases h1 : p + 1 < c.length
      · right; right
        cases hc : isCont (c.getD (p + 1) 0) with
        | false => rfl
        | true => exact absurd ⟨h1, hc⟩ h
      · right; left; omega

theorem back_fix (c : Bytes) (p : Nat)
    (h : p = 0 ∨ c.length ≤ p ∨ isCont (c.getD p 0) = false) : back c p = p := by
  cases p with
  | zero => simp [back]
  | succ p =>
    unfold back
    rw [if_neg]
    intro ⟨h1, h2⟩
    rcases h with h | h | h
    · omega
    · omega
    · rw [h] at h2; exact Bool.noConfusion h2

theorem cut_le (t : Bool) (c : Bytes) (p : Nat) : cut t c p ≤ p := by
  unfold cut; split
  · exact back_le c p
  · exact Nat.le_refl _

theorem cut_mono (t : Bool) (c : Bytes) {p q : Nat} (h : p ≤ q) : cut t c p ≤ cut t c q := by
  unfold cut; split
  · exact back_mono c h
  · exact h

/-! ### running sums -/

theorem prefixSums_ge (acc : Nat) (l : List Nat) : ∀ x ∈ prefixSums acc l, acc ≤ x := by
  induction l generalizing acc with
  | nil => simp [prefixSums]
  | cons a l ih =>
    intro x hx
    simp only [prefixSums, List.mem_cons] at hx
    rcases hx with rfl | hx
    · omega
    · have := ih _ x hx; omega

theorem prefixSums_sorted (acc : Nat) (l : List Nat) : (prefixSums acc l).Pairwise (· ≤ ·) := by
  induction l generalizing acc with
  | nil => simp [prefixSums]
  | cons a l ih =>
    simp only [prefixSums, List.pairwise_cons]
    exact ⟨fun x hx => prefixSums_ge _ _ x hx, ih _⟩

/-! ### the slices -/

theorem drop_split (c : Bytes) {start e : Nat} (h : start ≤ e) :
    (c.drop start).take (e - start) ++ c.drop e = c.drop start := by
  have : c.drop e = (c.drop start).drop (e - start) := by
    rw [List.drop_drop]; congr 1; omega
  rw [this, List.take_append_drop]

theorem pieces_flatten (t : Bool) (c : Bytes) (cuts : List Nat) (start : Nat)
    (h1 : ∀ p ∈ cuts, start ≤ cut t c p) (h2 : cuts.Pairwise (· ≤ ·)) :
    ((pieces t c start cuts).map (·.1)).flatten = c.drop start := by
  induction cuts generalizing start with
  | nil => simp [pieces]
  | cons p ps ih =>
    have hs : start ≤ cut t c p := h1 p (by simp)
    have h2' := List.pairwise_cons.mp h2
    simp only [pieces, List.map_cons, List.flatten_cons]
    rw [ih (cut t c p) (fun q hq => cut_mono t c (h2'.1 q hq)) h2'.2]
    exact drop_split c hs

/-- what remains after an adjusted text cut is empty or starts with a non-continuation byte -/
theorem drop_back_boundary (c : Bytes) (p : Nat) (h0 : back c p ≠ 0) :
    c.drop (back c p) = [] ∨ ∃ x xs, c.drop (back c p) = x :: xs ∧ isCont x = false := by
  rcases back_boundary c p with h | h | h
  · exact absurd h h0
  · left; exact List.drop_eq_nil_of_le h
  · by_cases hl : back c p < c.length
    · right
      refine ⟨c[back c p], c.drop (back c p + 1), ?_, ?_⟩
      · exact List.drop_eq_getElem_cons hl
      · have : c.getD (back c p) 0 = c[back c p] := by simp [List.getD, hl]
        rw [this] at h; exact h
    · left; exact List.drop_eq_nil_of_le (by omega)

theorem pieces_san (c : Bytes) (cuts : List Nat) (start : Nat)
    (h1 : ∀ p ∈ cuts, start ≤ cut true c p) (h2 : cuts.Pairwise (· ≤ ·)) :
    ((pieces true c start cuts).map (fun pf => san pf.1)).flatten = san (c.drop start) := by
  induction cuts generalizing start with
  | nil => simp [pieces]
  | cons p ps ih =>
    have hs : start ≤ cut true c p := h1 p (by simp)
    have h2' := List.pairwise_cons.mp h2
    simp only [pieces, List.map_cons, List.flatten_cons]
    rw [ih (cut true c p) (fun q hq => cut_mono true c (h2'.1 q hq)) h2'.2]
    by_cases he : cut true c p = start
    · rw [he]; simp [san_nil]
    · have hb : back c p ≠ 0 := by
        have : cut true c p = back c p := by simp [cut]
        omega
      have hcut : cut true c p = back c p := by simp [cut]
      have hsplit := drop_split c hs
      rw [hcut] at hsplit ⊢
      rw [← san_append_boundary _ _ (drop_back_boundary c p hb), hsplit]

/-- flags: every slice but the last is unfinished -/
theorem pieces_wellFramed (t : Bool) (c : Bytes) (cuts : List Nat) (start : Nat) :
    wellFramed (pieces t c start cuts) = true := by
  induction cuts generalizing start with
  | nil => simp [pieces, wellFramed]
  | cons p ps ih =>
    have := ih (cut t c p)
    cases hps : pieces t c (cut t c p) ps with
    | nil => rw [hps] at this; simp [wellFramed] at this
    | cons q qs => simp only [pieces, hps, wellFramed]; rw [hps] at this; simpa using this

theorem wellFramed_map (f : Bytes → Bytes) (l : List (Bytes × Bool)) :
    wellFramed (l.map (fun pf => (f pf.1, pf.2))) = wellFramed l := by
  induction l with
  | nil => rfl
  | cons a l ih =>
    cases l with
    | nil => simp [wellFramed]
    | cons b l => simp only [List.map_cons, wellFramed] at ih ⊢; rw [ih]

theorem nominalCuts_ok (fs : Nat) (lens : List Nat) (n : Nat) (t : Bool) (c : Bytes) :
    (∀ p ∈ nominalCuts fs lens n, 0 ≤ cut t c p) ∧ (nominalCuts fs lens n).Pairwise (· ≤ ·) :=
  ⟨fun _ _ => Nat.zero_le _, prefixSums_sorted _ _⟩

/-! ### Fragmentizer as a whole -/

theorem fragmentize_wellFramed (fs : Nat) (lens : List Nat) (t : Bool) (c : Bytes) :
    wellFramed (fragmentize fs lens t c) = true := by
  unfold fragmentize
  rw [wellFramed_map (payload t)]
  exact pieces_wellFramed _ _ _ _

theorem fragmentize_binary (fs : Nat) (lens : List Nat) (c : Bytes) :
    ((fragmentize fs lens false c).map (·.1)).flatten = c := by
  have h := nominalCuts_ok fs lens c.length false c
  have := pieces_flatten false c (nominalCuts fs lens c.length) 0 h.1 h.2
  simp only [fragmentize, List.map_map]
  simpa [payload, Function.comp_def] using this

theorem fragmentize_text (fs : Nat) (lens : List Nat) (c : Bytes) :
    ((fragmentize fs lens true c).map (·.1)).flatten = san c := by
  have h := nominalCuts_ok fs lens c.length true c
  have := pieces_san c (nominalCuts fs lens c.length) 0 h.1 h.2
  simp only [fragmentize, List.map_map]
  simpa [payload, Function.comp_def] using this

theorem fragmentize_wire (fs : Nat) (lens : List Nat) (t : Bool) (c : Bytes) :
    ((fragmentize fs lens t c).map (·.1)).flatten = payload t c := by
  cases t
  · simpa [payload] using fragmentize_binary fs lens c
  · simpa [payload] using fragmentize_text fs lens c

/-! ### unmodified messages -/

theorem isCont_seqLen (x : UInt8) (h : isCont x = true) : seqLen x = 0 := by
  simp only [isCont, Bool.and_eq_true, decide_eq_true_eq] at h
  simp only [seqLen]
  repeat' split
  all_goals omega

theorem san_fix_head (x : UInt8) (xs : Bytes) (h : san (x :: xs) = x :: xs) : isCont x = false := by
  cases hc : isCont x with
  | false => rfl
  | true =>
    have hl := isCont_seqLen x hc
    have : san (x :: xs) = FFFD ++ go [] xs := by
      simp [san, go, stepB, start, hl]
    rw [this] at h
    have hx : x = 0xEF := by
      simp [FFFD] at h; exact h.1.symm
    subst hx
    simp [isCont] at hc

theorem flatten_head (frags : List Bytes)
    (h : ∀ g ∈ frags, ∀ x xs, g = x :: xs → isCont x = false) :
    ∀ x xs, frags.flatten = x :: xs → isCont x = false := by
  induction frags with
  | nil => intro x xs hx; simp at hx
  | cons g rest ih =>
    intro x xs hx
    cases g with
    | nil =>
      simp only [List.flatten_cons, List.nil_append] at hx
      exact ih (fun g' hg' => h g' (List.mem_cons_of_mem _ hg')) x xs hx
    | cons y ys =>
      simp only [List.flatten_cons, List.cons_append, List.cons.injEq] at hx
      have := h (y :: ys) (by simp) y ys rfl
      rw [← hx.1]; exact this

theorem pieces_unmodified (t : Bool) (rest : List Bytes) :
    ∀ (pre f : Bytes), (t = true → ∀ g ∈ rest, ∀ x xs, g = x :: xs → isCont x = false) →
    pieces t (pre ++ (f :: rest).flatten) pre.length
      (prefixSums pre.length (((f :: rest).map List.length).dropLast)) = flagged (f :: rest) := by
  induction rest with
  | nil =>
    intro pre f _
    simp [prefixSums, pieces, flagged]
  | cons g rest ih =>
    intro pre f hh
    have hdl : ((f :: g :: rest).map List.length).dropLast
        = f.length :: ((g :: rest).map List.length).dropLast := by
      simp [List.dropLast]
    rw [hdl]
    simp only [prefixSums, pieces, flagged]
    have hc : pre ++ (f :: g :: rest).flatten = (pre ++ f) ++ (g :: rest).flatten := by
      simp [List.append_assoc]
    -- the nominal cut is already a boundary
    have hcut : cut t (pre ++ (f :: g :: rest).flatten) (pre.length + f.length) = pre.length + f.length := by
      unfold cut
      split
      · rename_i ht
        apply back_fix
        rw [hc]
        cases hfl : (g :: rest).flatten with
        | nil => right; left; simp
        | cons x xs =>
          right; right
          have hx := flatten_head (g :: rest) (hh ht) x xs hfl
          have : ((pre ++ f) ++ x :: xs).getD (pre.length + f.length) 0 = x := by
            have hl : (pre ++ f).length = pre.length + f.length := by simp
            rw [← hl]
            simp [List.getD]
          rw [this]; exact hx
      · rfl
    rw [hcut]
    have hpiece : (List.drop pre.length (pre ++ (f :: g :: rest).flatten)).take (pre.length + f.length - pre.length) = f := by
      simp [List.append_assoc]
    rw [hpiece]
    have hlen : pre.length + f.length = (pre ++ f).length := by simp
    rw [hc, hlen]
    have := ih (pre ++ f) g (fun ht g' hg' => hh ht g' (List.mem_cons_of_mem _ hg'))
    rw [this]

theorem flagged_map (f : Bytes → Bytes) (l : List Bytes) :
    (flagged l).map (fun pf => (f pf.1, pf.2)) = flagged (l.map f) := by
  induction l with
  | nil => rfl
  | cons a l ih =>
    cases l with
    | nil => rfl
    | cons b l => simp only [flagged, List.map_cons] at ih ⊢; rw [ih]

/-- `Fragmentizer(fragments, is_text)(b"".join(fragments))` returns the fragments themselves -/
theorem fragmentize_unmodified (fs : Nat) (t : Bool) (frags : List Bytes) (hne : frags ≠ [])
    (hv : t = true → ∀ f ∈ frags, san f = f) :
    fragmentize fs (frags.map List.length) t frags.flatten = flagged frags := by
  cases frags with
  | nil => exact absurd rfl hne
  | cons f rest =>
    have hcuts : nominalCuts fs ((f :: rest).map List.length) (f :: rest).flatten.length
        = prefixSums 0 (((f :: rest).map List.length).dropLast) := by
      unfold nominalCuts stepLens
      rw [if_pos]
      simp [List.length_flatten]
    unfold fragmentize
    rw [hcuts]
    have hhead : t = true → ∀ g ∈ rest, ∀ x xs, g = x :: xs → isCont x = false := by
      intro ht g hg x xs hgx
      have := hv ht g (List.mem_cons_of_mem _ hg)
      rw [hgx] at this
      exact san_fix_head x xs this
    have := pieces_unmodified t rest [] f hhead
    simp only [List.nil_append, List.length_nil] at this
    rw [this, flagged_map]
    have hid : (f :: rest).map (payload t) = f :: rest := by
      have : ∀ a ∈ f :: rest, payload t a = id a := by
        intro a ha
        cases t with
        | false => simp [payload]
        | true => simpa [payload] using hv rfl a ha
      rw [List.map_congr_left this, List.map_id]
    rw [hid]

/-! ### well-formed UTF-8 is a fixed point of `san` -/

theorem secondOk_of_cont2 (a b : UInt8) (h1 : 0xC2 ≤ a.toNat) (h2 : a.toNat ≤ 0xDF) (hb : isCont b = true) :
    secondOk a b = true := by
  have e1 : a ≠ 0xE0 := by intro h; subst h; simp at h2
  have e2 : a ≠ 0xED := by intro h; subst h; simp at h2
  have e3 : a ≠ 0xF0 := by intro h; subst h; simp at h2
  have e4 : a ≠ 0xF4 := by intro h; subst h; simp at h2
  simp only [secondOk, e1, e2, e3, e4, if_false]
  simpa [isCont] using hb

theorem go_wfChar (ch rest : Bytes) (h : wfChar ch = true) : go [] (ch ++ rest) = ch ++ go [] rest := by
  unfold wfChar at h
  split at h
  · rename_i a
    simp only [decide_eq_true_eq] at h
    have : seqLen a = 1 := by simp [seqLen, h]
    simp [go, stepB, start, this]
  · rename_i a b
    simp only [Bool.and_eq_true, decide_eq_true_eq] at h
    obtain ⟨⟨h1, h2⟩, hb⟩ := h
    have hl : seqLen a = 2 := by
      simp only [seqLen]; rw [if_neg (by omega), if_pos ⟨h1, h2⟩]
    have hs := secondOk_of_cont2 a b h1 h2 hb
    simp [go, stepB, start, hl, accepts, hs]
  · rename_i a b c
    simp only [Bool.and_eq_true, decide_eq_true_eq] at h
    obtain ⟨⟨⟨h1, h2⟩, hb⟩, hc⟩ := h
    have hl : seqLen a = 3 := by
      simp only [seqLen]; rw [if_neg (by omega), if_neg (by omega), if_pos ⟨h1, h2⟩]
    simp [go, stepB, start, hl, accepts, hb, hc]
  · rename_i a b c d
    simp only [Bool.and_eq_true, decide_eq_true_eq] at h
    obtain ⟨⟨⟨⟨h1, h2⟩, hb⟩, hc⟩, hd⟩ := h
    have hl : seqLen a = 4 := by
      simp only [seqLen]; rw [if_neg (by omega), if_neg (by omega), if_neg (by omega), if_pos ⟨h1, h2⟩]
    simp [go, stepB, start, hl, accepts, hb, hc, hd]
  · simp at h

/-- every concatenation of well-formed characters — i.e. every UTF-8 string — is left unchanged
    by decode-with-replacement -/
theorem san_wf (chars : List Bytes) (h : ∀ ch ∈ chars, wfChar ch = true) : san chars.flatten = chars.flatten := by
  induction chars with
  | nil => exact san_nil
  | cons ch rest ih =>
    have := ih (fun c hc => h c (List.mem_cons_of_mem _ hc))
    simp only [List.flatten_cons, san] at this ⊢
    rw [go_wfChar ch _ (h ch (by simp)), this]


/-! ### the strict incremental decoder -/

theorem stepS_conserves (p : Bytes) (x : UInt8) (r : Bytes × Bytes) (h : stepS p x = some r) :
    p ++ [x] = r.1 ++ r.2 := by
  unfold stepS at h
  split at h
  · split at h
    · simp at h; subst h; simp
    · split at h
      · simp at h
      · simp at h; subst h; simp
  · split at h
    · split at h <;> (simp at h; subst h; simp)
    · simp at h

theorem stepS_stepB (p : Bytes) (x : UInt8) (r : Bytes × Bytes) (h : stepS p x = some r) : stepB p x = r := by
  unfold stepS at h
  unfold stepB
  split at h
  · simp only [start]
    split at h
    · simp at h; subst h; simp [*]
    · split at h
      · simp at h
      · simp at h; subst h; simp [*]
  · rename_i b0 rest
    split at h
    · rename_i hacc
      simp only [hacc, if_true]
      split at h <;> (simp at h; subst h; simp_all)
    · simp at h

theorem goS_conserves (a : Bytes) : ∀ (p : Bytes) (r : Bytes × Bytes), goS p a = some r → p ++ a = r.1 ++ r.2 := by
  induction a with
  | nil => intro p r h; simp [goS] at h; subst h; simp
  | cons x xs ih =>
    intro p r h
    simp only [goS] at h
    cases hs : stepS p x with
    | none => rw [hs] at h; simp at h
    | some r1 =>
      rw [hs] at h
      simp only at h
      cases hg : goS r1.2 xs with
      | none => rw [hg] at h; simp at h
      | some r2 =>
        rw [hg] at h; simp at h; subst h
        have h1 := stepS_conserves p x r1 hs
        have h2 := ih r1.2 r2 hg
        calc p ++ x :: xs = (p ++ [x]) ++ xs := by simp
          _ = r1.1 ++ (r1.2 ++ xs) := by rw [h1, List.append_assoc]
          _ = r1.1 ++ (r2.1 ++ r2.2) := by rw [h2]
          _ = _ := by simp [List.append_assoc]

theorem goS_goSt (a : Bytes) : ∀ (p : Bytes) (r : Bytes × Bytes), goS p a = some r → goSt p a = r := by
  induction a with
  | nil => intro p r h; simp [goS] at h; subst h; rfl
  | cons x xs ih =>
    intro p r h
    simp only [goS] at h
    cases hs : stepS p x with
    | none => rw [hs] at h; simp at h
    | some r1 =>
      rw [hs] at h
      simp only at h
      cases hg : goS r1.2 xs with
      | none => rw [hg] at h; simp at h
      | some r2 =>
        rw [hg] at h; simp at h; subst h
        simp only [goSt, stepS_stepB p x r1 hs, ih r1.2 r2 hg]

theorem goS_append (a b : Bytes) : ∀ p : Bytes, goS p (a ++ b) =
    match goS p a with
    | none => none
    | some r => (goS r.2 b).map (fun r2 => (r.1 ++ r2.1, r2.2)) := by
  induction a with
  | nil => intro p; simp [goS]
  | cons x xs ih =>
    intro p
    simp only [List.cons_append, goS]
    cases hs : stepS p x with
    | none => simp
    | some r1 =>
      simp only [ih r1.2]
      cases hg : goS r1.2 xs with
      | none => simp
      | some r2 =>
        simp only [Option.map_some]
        cases goS r2.2 b with
        | none => simp
        | some r3 => simp [List.append_assoc]

/-- a text the strict decoder accepts completely is a fixed point of decode-with-replacement, and
    the decoder hands over exactly its bytes -/
theorem strict_valid (a o : Bytes) (h : goS [] a = some (o, [])) : o = a ∧ san a = a := by
  have hc := goS_conserves a [] (o, []) h
  simp at hc
  refine ⟨hc.symm, ?_⟩
  have hg := goS_goSt a [] (o, []) h
  rw [san, go_eq_goSt, hg]
  simp [flush, hc]

theorem incDecode_goS (p c : Bytes) (final : Bool) (r : Bytes × Bytes) (h : incDecode p c final = some r) :
    goS p c = some r ∧ (final = true → r.2 = []) := by
  unfold incDecode at h
  cases hg : goS p c with
  | none => rw [hg] at h; simp at h
  | some r' =>
    rw [hg] at h
    simp only at h
    split at h
    · simp at h
    · rename_i hf
      simp at h; subst h
      refine ⟨rfl, fun hfin => ?_⟩
      simp [hfin] at hf
      exact hf

/-- all frames of one text message: the event data concatenate to what the whole-message decoder
    yields, and nothing is held back at the end -/
theorem decodeChunks_goS (cs : List Bytes) : ∀ (p : Bytes) (outs : List Bytes) (p' : Bytes),
    decodeChunks p cs = some (outs, p') →
    goS p cs.flatten = some (outs.flatten, p') ∧ (cs ≠ [] → p' = []) := by
  induction cs with
  | nil => intro p outs p' h; simp [decodeChunks] at h; obtain ⟨rfl, rfl⟩ := h; simp [goS]
  | cons c rest ih =>
    intro p outs p' h
    cases rest with
    | nil =>
      simp only [decodeChunks] at h
      cases hi : incDecode p c true with
      | none => rw [hi] at h; simp at h
      | some r =>
        rw [hi] at h; simp at h; obtain ⟨rfl, rfl⟩ := h
        obtain ⟨hg, hf⟩ := incDecode_goS p c true r hi
        have := hf rfl
        obtain ⟨r1, r2⟩ := r
        simp at this; subst this
        simp [hg]
    | cons c2 rest' =>
      simp only [decodeChunks] at h
      cases hi : incDecode p c false with
      | none => rw [hi] at h; simp at h
      | some r =>
        rw [hi] at h
        simp only at h
        cases hd : decodeChunks r.2 (c2 :: rest') with
        | none => rw [hd] at h; simp at h
        | some r2 =>
          rw [hd] at h; simp at h; obtain ⟨rfl, rfl⟩ := h
          obtain ⟨hg, _⟩ := incDecode_goS p c false r hi
          obtain ⟨hg2, hf2⟩ := ih r.2 r2.1 r2.2 hd
          refine ⟨?_, fun _ => hf2 (by simp)⟩
          rw [List.flatten_cons, goS_append, hg]
          simp only
          rw [hg2]; simp

theorem seqLen_cases (a : UInt8) :
    (seqLen a = 1 ∧ a.toNat < 0x80) ∨ (seqLen a = 2 ∧ 0xC2 ≤ a.toNat ∧ a.toNat ≤ 0xDF) ∨
    (seqLen a = 3 ∧ 0xE0 ≤ a.toNat ∧ a.toNat ≤ 0xEF) ∨ (seqLen a = 4 ∧ 0xF0 ≤ a.toNat ∧ a.toNat ≤ 0xF4) ∨ seqLen a = 0 := by
  simp only [seqLen]
  repeat' split
  all_goals simp_all
  all_goals omega

theorem stepS_wf (p : Bytes) (x : UInt8) (o p' : Bytes) (hp : pendOk p = true) (h : stepS p x = some (o, p')) :
    pendOk p' = true ∧ (o = [] ∨ wfChar o = true) := by
  match p, hp with
  | [], _ =>
    simp only [stepS] at h
    split at h
    · rename_i h1
      simp at h; obtain ⟨rfl, rfl⟩ := h
      refine ⟨rfl, Or.inr ?_⟩
      rcases seqLen_cases x with c | c | c | c | c <;> simp_all [wfChar]
    · split at h
      · simp at h
      · rename_i h1 h0
        simp at h; obtain ⟨rfl, rfl⟩ := h
        refine ⟨?_, Or.inl rfl⟩
        rcases seqLen_cases x with c | c | c | c | c <;> simp_all [pendOk]
  | [b0], hp =>
    simp only [pendOk, decide_eq_true_eq] at hp
    simp only [stepS] at h
    by_cases hacc : accepts [b0] x = true
    · rw [if_pos hacc] at h
      have hso : secondOk b0 x = true := by simpa [accepts] using hacc
      by_cases hl : [b0].length + 1 = seqLen b0
      · rw [if_pos hl] at h
        simp at h; obtain ⟨rfl, rfl⟩ := h
        refine ⟨rfl, Or.inr ?_⟩
        have hc := secondOk_cont b0 x hso
        rcases seqLen_cases b0 with c | c | c | c | c <;> simp_all [wfChar]
      · rw [if_neg hl] at h
        simp at h; obtain ⟨rfl, rfl⟩ := h
        refine ⟨?_, Or.inl rfl⟩
        rcases seqLen_cases b0 with c | c | c | c | c <;> simp_all [pendOk]
    · rw [if_neg hacc] at h; simp at h
  | [b0, b1], hp =>
    simp only [pendOk, Bool.and_eq_true, decide_eq_true_eq] at hp
    simp only [stepS] at h
    by_cases hacc' : accepts [b0, b1] x = true
    · rw [if_pos hacc'] at h
      have hacc : isCont x = true := by simpa [accepts] using hacc'
      by_cases hl : [b0, b1].length + 1 = seqLen b0
      · rw [if_pos hl] at h
        simp at h; obtain ⟨rfl, rfl⟩ := h
        refine ⟨rfl, Or.inr ?_⟩
        skip
        rcases seqLen_cases b0 with c | c | c | c | c <;> simp_all [wfChar]
      · rw [if_neg hl] at h
        simp at h; obtain ⟨rfl, rfl⟩ := h
        refine ⟨?_, Or.inl rfl⟩
        rcases seqLen_cases b0 with c | c | c | c | c <;> simp_all [pendOk]
    · rw [if_neg hacc'] at h; simp at h
  | [b0, b1, b2], hp =>
    simp only [pendOk, Bool.and_eq_true, decide_eq_true_eq] at hp
    simp only [stepS] at h
    by_cases hacc' : accepts [b0, b1, b2] x = true
    · rw [if_pos hacc'] at h
      have hacc : isCont x = true := by simpa [accepts] using hacc'
      by_cases hl : [b0, b1, b2].length + 1 = seqLen b0
      · rw [if_pos hl] at h
        simp at h; obtain ⟨rfl, rfl⟩ := h
        refine ⟨rfl, Or.inr ?_⟩
        skip
        rcases seqLen_cases b0 with c | c | c | c | c <;> simp_all [wfChar]
      · rw [if_neg hl] at h
        simp at h; obtain ⟨rfl, rfl⟩ := h
        simp_all
    · rw [if_neg hacc'] at h; simp at h
  | _ :: _ :: _ :: _ :: _, hp => simp [pendOk] at hp

theorem goS_wf (a : Bytes) : ∀ (p o p' : Bytes), pendOk p = true → goS p a = some (o, p') →
    pendOk p' = true ∧ ∃ chars : List Bytes, (∀ c ∈ chars, wfChar c = true) ∧ o = chars.flatten := by
  induction a with
  | nil => intro p o p' hp h; simp [goS] at h; obtain ⟨rfl, rfl⟩ := h; exact ⟨hp, [], by simp, rfl⟩
  | cons x xs ih =>
    intro p o p' hp h
    simp only [goS] at h
    cases hs : stepS p x with
    | none => rw [hs] at h; simp at h
    | some r1 =>
      rw [hs] at h; simp only at h
      cases hg : goS r1.2 xs with
      | none => rw [hg] at h; simp at h
      | some r2 =>
        rw [hg] at h; simp at h; obtain ⟨rfl, rfl⟩ := h
        obtain ⟨hp1, ho1⟩ := stepS_wf p x r1.1 r1.2 hp (by simpa using hs)
        obtain ⟨hp2, chars, hch, ho2⟩ := ih r1.2 r2.1 r2.2 hp1 (by simpa using hg)
        refine ⟨hp2, ?_⟩
        rcases ho1 with h0 | h0
        · exact ⟨chars, hch, by rw [h0, ho2]; simp⟩
        · refine ⟨r1.1 :: chars, ?_, by rw [ho2]; simp⟩
          intro c hc
          simp only [List.mem_cons] at hc
          rcases hc with rfl | hc
          · exact h0
          · exact hch c hc

/-- every piece the strict incremental decoder hands over is itself UTF-8 — whatever was held
    back from the previous frame -/
theorem goS_out_valid (a p o p' : Bytes) (hp : pendOk p = true) (h : goS p a = some (o, p')) :
    pendOk p' = true ∧ san o = o := by
  obtain ⟨hp', chars, hch, rfl⟩ := goS_wf a p o p' hp h
  exact ⟨hp', san_wf chars hch⟩

theorem decodeChunks_valid (cs : List Bytes) : ∀ (p : Bytes) (outs : List Bytes) (p' : Bytes),
    pendOk p = true → decodeChunks p cs = some (outs, p') → ∀ o ∈ outs, san o = o := by
  induction cs with
  | nil => intro p outs p' _ h; simp [decodeChunks] at h; obtain ⟨rfl, _⟩ := h; simp
  | cons c rest ih =>
    intro p outs p' hp h
    cases rest with
    | nil =>
      simp only [decodeChunks] at h
      cases hi : incDecode p c true with
      | none => rw [hi] at h; simp at h
      | some r =>
        rw [hi] at h; simp at h; obtain ⟨rfl, _⟩ := h
        obtain ⟨hg, _⟩ := incDecode_goS p c true r hi
        intro o ho; simp at ho; subst ho
        exact (goS_out_valid c p r.1 r.2 hp (by simpa using hg)).2
    | cons c2 rest' =>
      simp only [decodeChunks] at h
      cases hi : incDecode p c false with
      | none => rw [hi] at h; simp at h
      | some r =>
        rw [hi] at h; simp only at h
        cases hd : decodeChunks r.2 (c2 :: rest') with
        | none => rw [hd] at h; simp at h
        | some r2 =>
          rw [hd] at h; simp at h; obtain ⟨rfl, _⟩ := h
          obtain ⟨hg, _⟩ := incDecode_goS p c false r hi
          obtain ⟨hp1, hv⟩ := goS_out_valid c p r.1 r.2 hp (by simpa using hg)
          intro o ho
          simp only [List.mem_cons] at ho
          rcases ho with rfl | ho
          · exact hv
          · exact ih r.2 r2.1 r2.2 hp1 hd o ho

/-! ### what the relay sends as text is accepted by the strict decoder -/

/-- a byte string the strict decoder accepts completely, handing over exactly its bytes -/
def StrictOk (x : Bytes) : Prop := goS [] x = some (x, [])

theorem strictOk_nil : StrictOk [] := rfl

theorem goS_wfChar (ch rest : Bytes) (h : wfChar ch = true) :
    goS [] (ch ++ rest) = (goS [] rest).map (fun r => (ch ++ r.1, r.2)) := by
  unfold wfChar at h
  split at h
  · rename_i a
    simp only [decide_eq_true_eq] at h
    have : seqLen a = 1 := by simp [seqLen, h]
    simp [goS, stepS, this]
  · rename_i a b
    simp only [Bool.and_eq_true, decide_eq_true_eq] at h
    obtain ⟨⟨h1, h2⟩, hb⟩ := h
    have hl : seqLen a = 2 := by
      simp only [seqLen]; rw [if_neg (by omega), if_pos ⟨h1, h2⟩]
    have hs := secondOk_of_cont2 a b h1 h2 hb
    simp [goS, stepS, hl, accepts, hs]
    cases goS [] rest <;> rfl
  · rename_i a b c
    simp only [Bool.and_eq_true, decide_eq_true_eq] at h
    obtain ⟨⟨⟨h1, h2⟩, hb⟩, hc⟩ := h
    have hl : seqLen a = 3 := by
      simp only [seqLen]; rw [if_neg (by omega), if_neg (by omega), if_pos ⟨h1, h2⟩]
    simp [goS, stepS, hl, accepts, hb, hc]
    cases goS [] rest <;> rfl
  · rename_i a b c d
    simp only [Bool.and_eq_true, decide_eq_true_eq] at h
    obtain ⟨⟨⟨⟨h1, h2⟩, hb⟩, hc⟩, hd⟩ := h
    have hl : seqLen a = 4 := by
      simp only [seqLen]; rw [if_neg (by omega), if_neg (by omega), if_neg (by omega), if_pos ⟨h1, h2⟩]
    simp [goS, stepS, hl, accepts, hb, hc, hd]
    cases goS [] rest <;> rfl
  · simp at h

theorem strictOk_wf (chars : List Bytes) (h : ∀ ch ∈ chars, wfChar ch = true) : StrictOk chars.flatten := by
  induction chars with
  | nil => exact strictOk_nil
  | cons ch rest ih =>
    have := ih (fun c hc => h c (List.mem_cons_of_mem _ hc))
    unfold StrictOk at this ⊢
    rw [List.flatten_cons, goS_wfChar ch _ (h ch (by simp)), this]
    simp

theorem wfChar_FFFD : wfChar FFFD = true := by decide

/-- the replace automaton only ever emits whole well-formed characters -/
theorem stepB_wf (p : Bytes) (x : UInt8) (hp : pendOk p = true) :
    pendOk (stepB p x).2 = true ∧ ∃ chars : List Bytes, (∀ c ∈ chars, wfChar c = true) ∧ (stepB p x).1 = chars.flatten := by
  have hstart : pendOk (start x).2 = true ∧ ∃ chars : List Bytes, (∀ c ∈ chars, wfChar c = true) ∧ (start x).1 = chars.flatten := by
    unfold start
    rcases seqLen_cases x with c | c | c | c | c
    · simp only [c.1, if_true]
      exact ⟨rfl, [[x]], by simp [wfChar, c.2], by simp⟩
    · simp only [c.1]; exact ⟨by simp [pendOk, c.1], [], by simp, by simp⟩
    · simp only [c.1]; exact ⟨by simp [pendOk, c.1], [], by simp, by simp⟩
    · simp only [c.1]; exact ⟨by simp [pendOk, c.1], [], by simp, by simp⟩
    · simp only [c]; exact ⟨rfl, [FFFD], by simp [wfChar_FFFD], by simp⟩
  cases hs : stepS p x with
  | some r =>
    obtain ⟨o, p'⟩ := r
    have hb := stepS_stepB p x (o, p') hs
    obtain ⟨h1, h2⟩ := stepS_wf p x o p' hp hs
    rw [hb]
    refine ⟨h1, ?_⟩
    rcases h2 with h0 | h0
    · exact ⟨[], by simp, by simp [h0]⟩
    · exact ⟨[o], by simp [h0], by simp⟩
  | none =>
    -- the strict decoder fails: the replace automaton emits U+FFFD (unless nothing is pending) and restarts on x
    match p, hp with
    | [], _ => simpa [stepB] using hstart
    | b0 :: rest, _ =>
      have hacc : accepts (b0 :: rest) x = false := by
        cases ha : accepts (b0 :: rest) x with
        | false => rfl
        | true => simp [stepS, ha] at hs; split at hs <;> simp at hs
      obtain ⟨hp', chars, hch, ho⟩ := hstart
      simp only [stepB, hacc, Bool.false_eq_true, if_false]
      exact ⟨hp', FFFD :: chars, by intro c hc; simp at hc; rcases hc with rfl | hc; exact wfChar_FFFD; exact hch c hc,
        by simp [ho]⟩

theorem go_wf (a : Bytes) : ∀ p, pendOk p = true →
    ∃ chars : List Bytes, (∀ c ∈ chars, wfChar c = true) ∧ go p a = chars.flatten := by
  induction a with
  | nil =>
    intro p _
    unfold go flush
    split
    · exact ⟨[], by simp, by simp⟩
    · exact ⟨[FFFD], by simp [wfChar_FFFD], by simp⟩
  | cons x xs ih =>
    intro p hp
    obtain ⟨hp1, c1, hc1, ho1⟩ := stepB_wf p x hp
    obtain ⟨c2, hc2, ho2⟩ := ih _ hp1
    refine ⟨c1 ++ c2, ?_, by simp [go, ho1, ho2]⟩
    intro c hc
    rcases List.mem_append.mp hc with h | h
    · exact hc1 c h
    · exact hc2 c h

/-- what `Fragmentizer.msg` + wsproto put on the wire for a text fragment is always accepted by the receiving
    endpoint's strict decoder, completely and unchanged -/
theorem strictOk_san (x : Bytes) : StrictOk (san x) := by
  obtain ⟨chars, hch, ho⟩ := go_wf x [] rfl
  unfold san; rw [ho]
  exact strictOk_wf chars hch

theorem incDecode_strictOk (x : Bytes) (fin : Bool) (h : StrictOk x) : incDecode [] x fin = some (x, []) := by
  unfold incDecode; rw [h]; simp

end MitmVerif.C28
