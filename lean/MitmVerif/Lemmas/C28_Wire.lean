/-
  C28 — lemmas about the wire format (frame codec round trip, streams, message ⇄ frames).
-/
import MitmVerif.Model.C28_Wire
import MitmVerif.Lemmas.C28
namespace MitmVerif.C28.Wire
open MitmVerif MitmVerif.C28

theorem byte_toNat {n : Nat} (h : n < 256) : (byte n).toNat = n := by
  simp [byte, UInt8.toNat_ofNat']; omega

theorem xor_cancel (x k : UInt8) : (x ^^^ k) ^^^ k = x := by
  rw [UInt8.xor_assoc, UInt8.xor_self, UInt8.xor_zero]

theorem maskGo_length (key : Bytes) (p : Bytes) : ∀ i, (maskGo key i p).length = p.length := by
  induction p with
  | nil => intro i; rfl
  | cons x xs ih => intro i; simp [maskGo, ih]

theorem maskGo_invol (key : Bytes) (p : Bytes) : ∀ i, maskGo key i (maskGo key i p) = p := by
  induction p with
  | nil => intro i; rfl
  | cons x xs ih => intro i; simp [maskGo, ih, xor_cancel]

theorem mask_length (key p : Bytes) : (mask key p).length = p.length := maskGo_length key p 0
theorem mask_invol (key p : Bytes) : mask key (mask key p) = p := maskGo_invol key p 0

theorem beVal_be16 (n : Nat) (h : n < 65536) (rest : Bytes) : beVal ((be16 n ++ rest).take 2) = n := by
  have h1 : n / 256 < 256 := by omega
  have h2 : n % 256 < 256 := by omega
  simp [be16, beVal, byte_toNat h1, byte_toNat h2]; omega

theorem beVal_be64 (n : Nat) (h : n < 18446744073709551616) (rest : Bytes) : beVal ((be64 n ++ rest).take 8) = n := by
  simp only [be64, beVal, List.cons_append, List.nil_append, List.take_succ_cons, List.take_zero, List.foldl_cons, List.foldl_nil]
  rw [byte_toNat (by omega), byte_toNat (by omega), byte_toNat (by omega), byte_toNat (by omega),
      byte_toNat (by omega), byte_toNat (by omega), byte_toNat (by omega), byte_toNat (by omega)]
  omega

/-- the length bytes `_serialize_frame` writes, read back by `parse_extended_payload_length` -/
def lenBytes (m n : Nat) : Bytes :=
  if n ≤ 125 then [byte (m + n)]
  else if n ≤ 65535 then byte (m + 126) :: be16 n
  else byte (m + 127) :: be64 n

theorem takePayload_masked (fin : Bool) (rsv op : Nat) (k p rest : Bytes) (hk : k.length = 4) :
    takePayload fin rsv op true p.length (k ++ mask k p ++ rest) =
      .ok { fin := fin, rsv := rsv, opcode := op, key := some k, payload := p } rest := by
  have h4 : (k ++ mask k p ++ rest).take 4 = k := by
    rw [List.append_assoc, List.take_left' hk]
  have hd : (k ++ mask k p ++ rest).drop 4 = mask k p ++ rest := by
    rw [List.append_assoc, List.drop_left' hk]
  have hml := mask_length k p
  unfold takePayload
  simp only [if_true, h4, hd]
  rw [if_neg (by simp [hk]), if_neg (by simp [hml])]
  rw [List.take_left' hml, List.drop_left' hml, mask_invol]

theorem takePayload_plain (fin : Bool) (rsv op : Nat) (p rest : Bytes) :
    takePayload fin rsv op false p.length (p ++ rest) =
      .ok { fin := fin, rsv := rsv, opcode := op, key := none, payload := p } rest := by
  unfold takePayload
  simp

theorem decode_header (client : Bool) (rsvOk : Nat → Nat → Bool) (fin : Bool) (rsv op : Nat) (masked : Bool)
    (n : Nat) (t : Bytes)
    (hrsv : rsv < 8) (hop : validOpcode op = true)
    (hctl : isControl op = true → fin = true ∧ n ≤ 125) (hn : n < 9223372036854775808)
    (hok : rsvOk op rsv = true) (hrole : masked = !client) :
    decodeFrame client rsvOk
      (byte ((if fin then 128 else 0) + rsv * 16 + op) :: (lenBytes (if masked then 128 else 0) n ++ t)) =
    takePayload fin rsv op masked n t := by
  have hop16 : op < 16 := by
    simp [validOpcode] at hop; omega
  have hb0 : (byte ((if fin then 128 else 0) + rsv * 16 + op)).toNat = (if fin then 128 else 0) + rsv * 16 + op := by
    apply byte_toNat; cases fin <;> simp <;> omega
  have hfin : decide (128 ≤ (if fin then 128 else 0) + rsv * 16 + op) = fin := by
    cases fin <;> simp <;> omega
  have hrsv' : ((if fin then 128 else 0) + rsv * 16 + op) / 16 % 8 = rsv := by
    cases fin <;> simp <;> omega
  have hop' : ((if fin then 128 else 0) + rsv * 16 + op) % 16 = op := by
    cases fin <;> simp <;> omega
  have hctl1 : (isControl op && !fin) = false := by
    cases hc : isControl op with
    | false => simp
    | true => simp [(hctl hc).1]
  have hrole1 : (masked && client) = false := by subst hrole; cases client <;> rfl
  have hrole2 : (!masked && !client) = false := by subst hrole; cases client <;> rfl
  by_cases h1 : n ≤ 125
  · -- 7-bit length
    have hb1 : (byte ((if masked then 128 else 0) + n)).toNat = (if masked then 128 else 0) + n := by
      apply byte_toNat; cases masked <;> simp <;> omega
    have hm : decide (128 ≤ (if masked then 128 else 0) + n) = masked := by
      cases masked <;> simp <;> omega
    have hl : ((if masked then 128 else 0) + n) % 128 = n := by
      cases masked <;> simp <;> omega
    have hc2 : (isControl op && decide (125 < n)) = false := by
      have : decide (125 < n) = false := by simp; omega
      simp [this]
    have hpl : parseLen n t = .ok n t := by
      unfold parseLen; rw [if_neg (by omega), if_neg (by omega)]
    simp only [lenBytes, if_pos h1, List.cons_append, List.nil_append, decodeFrame, hb0, hfin, hrsv', hop', hop,
      hctl1, hb1, hm, hl, hc2, hpl, hok, hrole1, hrole2, Bool.not_true, Bool.false_eq_true, if_false]
  · by_cases h2 : n ≤ 65535
    · have hb1 : (byte ((if masked then 128 else 0) + 126)).toNat = (if masked then 128 else 0) + 126 := by
        apply byte_toNat; cases masked <;> simp
      have hm : decide (128 ≤ (if masked then 128 else 0) + 126) = masked := by cases masked <;> simp
      have hl : ((if masked then 128 else 0) + 126) % 128 = 126 := by cases masked <;> simp
      have hnc : isControl op = false := by
        cases hc : isControl op with
        | false => rfl
        | true => have := (hctl hc).2; omega
      have hpl : parseLen 126 (be16 n ++ t) = .ok n t := by
        unfold parseLen
        rw [if_pos rfl, if_neg (by simp [be16]), beVal_be16 n (by omega) t, if_neg (by omega)]
        simp [be16]
      simp only [lenBytes, if_neg h1, if_pos h2, List.cons_append, decodeFrame, hb0, hfin, hrsv', hop', hop,
        hctl1, hb1, hm, hl, hnc, hpl, hok, hrole1, hrole2, Bool.not_true, Bool.false_eq_true, if_false, Bool.false_and]
    · have hb1 : (byte ((if masked then 128 else 0) + 127)).toNat = (if masked then 128 else 0) + 127 := by
        apply byte_toNat; cases masked <;> simp
      have hm : decide (128 ≤ (if masked then 128 else 0) + 127) = masked := by cases masked <;> simp
      have hl : ((if masked then 128 else 0) + 127) % 128 = 127 := by cases masked <;> simp
      have hnc : isControl op = false := by
        cases hc : isControl op with
        | false => rfl
        | true => have := (hctl hc).2; omega
      have hpl : parseLen 127 (be64 n ++ t) = .ok n t := by
        unfold parseLen
        rw [if_neg (by omega), if_pos rfl, if_neg (by simp [be64]), beVal_be64 n (by omega) t,
            if_neg (by omega), if_neg (by omega)]
        simp [be64]
      simp only [lenBytes, if_neg h1, if_neg h2, List.cons_append, decodeFrame, hb0, hfin, hrsv', hop', hop,
        hctl1, hb1, hm, hl, hnc, hpl, hok, hrole1, hrole2, Bool.not_true, Bool.false_eq_true, if_false, Bool.false_and]

theorem encodeFrame_eq (f : Frame) (rest : Bytes) :
    encodeFrame f ++ rest =
      byte ((if f.fin then 128 else 0) + f.rsv * 16 + f.opcode) ::
        (lenBytes (if f.key.isSome then 128 else 0) f.payload.length ++
          (match f.key with | some k => k ++ mask k f.payload ++ rest | none => f.payload ++ rest)) := by
  unfold encodeFrame lenBytes
  cases hk : f.key <;> simp [List.append_assoc]

/-- **wire round trip**: what one endpoint serialises, the other endpoint's decoder reads back —
    flags, reserved bits, opcode, 7/16/64-bit length, masking key and payload -/
theorem frame_roundtrip' (client : Bool) (rsvOk : Nat → Nat → Bool) (f : Frame) (rest : Bytes)
    (hwf : f.wf client) (hok : rsvOk f.opcode f.rsv = true) :
    decodeFrame client rsvOk (encodeFrame f ++ rest) = .ok f rest := by
  obtain ⟨h1, h2, h3, h4, h5⟩ := hwf
  rw [encodeFrame_eq]
  cases hk : f.key with
  | some k =>
    rw [hk] at h5
    have := decode_header client rsvOk f.fin f.rsv f.opcode true f.payload.length (k ++ mask k f.payload ++ rest)
      h1 h2 h3 h4 hok (by simp [h5.2])
    simp only [Option.isSome_some, if_true] at this ⊢
    rw [this, takePayload_masked _ _ _ _ _ _ h5.1]
    cases f; simp_all
  | none =>
    rw [hk] at h5
    have := decode_header client rsvOk f.fin f.rsv f.opcode false f.payload.length (f.payload ++ rest)
      h1 h2 h3 h4 hok (by simp [h5])
    simp only [Option.isSome_none, Bool.false_eq_true, if_false] at this ⊢
    rw [this, takePayload_plain]
    cases f; simp_all

def FramesOk (client : Bool) (rsvOk : Nat → Nat → Bool) (frames : List Frame) : Prop :=
  ∀ f ∈ frames, f.wf client ∧ rsvOk f.opcode f.rsv = true

theorem stream_roundtrip' (client : Bool) (rsvOk : Nat → Nat → Bool) (frames : List Frame)
    (h : FramesOk client rsvOk frames) :
    ∀ fuel, frames.length < fuel → decodeStream client rsvOk fuel (frames.flatMap encodeFrame) = (frames, [], false) := by
  induction frames with
  | nil => intro fuel hf; cases fuel with
    | zero => omega
    | succ n => simp [decodeStream, decodeFrame]
  | cons f fs ih =>
    intro fuel hf
    cases fuel with
    | zero => omega
    | succ n =>
      have hf1 := h f (by simp)
      simp only [List.flatMap_cons, decodeStream]
      rw [frame_roundtrip' client rsvOk f _ hf1.1 hf1.2]
      simp only
      rw [ih (fun g hg => h g (List.mem_cons_of_mem _ hg)) n (by simp at hf; omega)]

theorem streamEvents_encode (client : Bool) (rsvOk : Nat → Nat → Bool) (frames : List Frame)
    (h : FramesOk client rsvOk frames) :
    ∀ fuel ms, frames.length < fuel →
      streamEvents client rsvOk fuel ms (frames.flatMap encodeFrame) = (framesEvents ms frames).map (·.2) := by
  induction frames with
  | nil => intro fuel ms hf; cases fuel with
    | zero => omega
    | succ n => simp [streamEvents, decodeFrame, framesEvents]
  | cons f fs ih =>
    intro fuel ms hf
    cases fuel with
    | zero => omega
    | succ n =>
      have hf1 := h f (by simp)
      simp only [List.flatMap_cons, streamEvents, framesEvents]
      rw [frame_roundtrip' client rsvOk f _ hf1.1 hf1.2]
      simp only
      cases hfe : frameEvent ms f with
      | none => simp
      | some r =>
        obtain ⟨ms1, e⟩ := r
        simp only
        by_cases h8 : f.opcode = 8
        · simp [h8]
        · simp only [h8, if_false]
          rw [ih (fun g hg => h g (List.mem_cons_of_mem _ hg)) n ms1 (by simp at hf; omega)]
          cases framesEvents ms1 fs with
          | none => simp
          | some r2 => simp

/-- the events of the data frames of one message are its fragments, in order, with their flags -/
theorem dataFrames_events (text : Bool) (keys : Nat → Option Bytes) (fr : List (Bytes × Bool)) :
    wellFramed fr = true → ∀ (start : Nat) (first : Bool),
    framesEvents (if first then none else some (if text then 1 else 2)) (dataFrames text keys start first fr) =
      some (none, fr.map (fun pf => WsEv.msg text pf.1 true pf.2)) := by
  induction fr with
  | nil => intro h; simp [wellFramed] at h
  | cons pf rest ih =>
    obtain ⟨p, fin⟩ := pf
    intro h start first
    cases rest with
    | nil =>
      simp only [wellFramed] at h; subst h
      cases first <;> cases text <;> simp [dataFrames, framesEvents, frameEvent]
    | cons q rest' =>
      simp only [wellFramed, Bool.and_eq_true, Bool.not_eq_true'] at h
      obtain ⟨hfin, hwf⟩ := h
      subst hfin
      have := ih hwf (start + 1) false
      simp only [Bool.false_eq_true, if_false] at this
      have hd : dataFrames text keys start first ((p, false) :: q :: rest') =
          { fin := false, rsv := 0, opcode := (if first then (if text then 1 else 2) else 0), key := keys start, payload := p }
            :: dataFrames text keys (start + 1) false (q :: rest') := rfl
      rw [hd]
      have hfe : frameEvent (if first then none else some (if text then 1 else 2))
          { fin := false, rsv := 0, opcode := (if first then (if text then 1 else 2) else 0), key := keys start, payload := p }
          = some (some (if text then 1 else 2), WsEv.msg text p true false) := by
        cases first <;> cases text <;> simp [frameEvent]
      have hop8 : ¬ ((if first then (if text then 1 else 2) else 0) = 8) := by
        cases first <;> cases text <;> simp
      rw [framesEvents, hfe]
      simp only [hop8, if_false]
      rw [this]
      simp

theorem reassemble_burst (t : Bool) (fr : List (Bytes × Bool)) :
    wellFramed fr = true → ∀ acc : Option (Bool × Bytes),
    reassemble acc (fr.map (fun pf => WsEv.msg t pf.1 true pf.2)) =
      [match acc with
       | some (t0, c) => (t0, c ++ (fr.map (·.1)).flatten)
       | none => (t, (fr.map (·.1)).flatten)] := by
  induction fr with
  | nil => intro h; simp [wellFramed] at h
  | cons pf rest ih =>
    obtain ⟨p, fin⟩ := pf
    intro h acc
    cases rest with
    | nil =>
      simp only [wellFramed] at h; subst h
      cases acc with
      | none => simp [reassemble]
      | some a => obtain ⟨t0, c⟩ := a; simp [reassemble]
    | cons q rest' =>
      simp only [wellFramed, Bool.and_eq_true, Bool.not_eq_true'] at h
      obtain ⟨hfin, hwf⟩ := h
      subst hfin
      have hm : ((p, false) :: q :: rest').map (fun pf => WsEv.msg t pf.1 true pf.2)
          = WsEv.msg t p true false :: (q :: rest').map (fun pf => WsEv.msg t pf.1 true pf.2) := rfl
      rw [hm]
      cases acc with
      | none =>
        rw [reassemble]
        simp only [Bool.false_eq_true, if_false]
        rw [ih hwf (some (t, p))]; simp
      | some a =>
        obtain ⟨t0, c⟩ := a
        rw [reassemble]
        simp only [Bool.false_eq_true, if_false]
        rw [ih hwf (some (t0, c ++ p))]; simp [List.append_assoc]

theorem dataFrames_length (text : Bool) (keys : Nat → Option Bytes) (fr : List (Bytes × Bool)) :
    ∀ start first, (dataFrames text keys start first fr).length = fr.length := by
  induction fr with
  | nil => intro _ _; rfl
  | cons pf rest ih => intro s f; obtain ⟨p, fin⟩ := pf; simp [dataFrames, ih]

/-- the keys fit the sender's role (a client masks every frame with a 4-byte key, a server never) -/
def KeysOk (client : Bool) (keys : Nat → Option Bytes) : Prop :=
  ∀ i, match keys i with | some k => k.length = 4 ∧ client = false | none => client = true

theorem dataFrames_ok (client : Bool) (text : Bool) (keys : Nat → Option Bytes) (fr : List (Bytes × Bool))
    (hk : KeysOk client keys) (hsz : ∀ pf ∈ fr, pf.1.length < 9223372036854775808) :
    ∀ start first, FramesOk client noExt (dataFrames text keys start first fr) := by
  induction fr with
  | nil => intro _ _ f hf; simp [dataFrames] at hf
  | cons pf rest ih =>
    obtain ⟨p, fin⟩ := pf
    intro start first f hf
    simp only [dataFrames, List.mem_cons] at hf
    rcases hf with rfl | hf
    · refine ⟨⟨by simp, ?_, ?_, hsz (p, fin) (by simp), hk start⟩, by simp [noExt]⟩
      · cases first <;> cases text <;> simp [validOpcode]
      · cases first <;> cases text <;> simp [isControl]
    · exact ih (fun q hq => hsz q (List.mem_cons_of_mem _ hq)) (start + 1) false f hf

/-- **wire, one message**: the frames `send_data` produces for the fragments of one message —
    any fragmentation, any masking keys, 7/16/64-bit lengths — are decoded by the receiving
    endpoint into exactly the fragment events, and reassembled into exactly one message of the
    same type whose content is the concatenation of the fragments -/
theorem message_wire_roundtrip (client : Bool) (t : Bool) (keys : Nat → Option Bytes) (fr : List (Bytes × Bool))
    (hwf : wellFramed fr = true) (hk : KeysOk client keys) (hsz : ∀ pf ∈ fr, pf.1.length < 9223372036854775808)
    (fuel : Nat) (hfuel : fr.length < fuel) :
    streamEvents client noExt fuel none ((dataFrames t keys 0 true fr).flatMap encodeFrame)
      = some (fr.map (fun pf => WsEv.msg t pf.1 true pf.2)) ∧
    reassemble none (fr.map (fun pf => WsEv.msg t pf.1 true pf.2)) = [(t, (fr.map (·.1)).flatten)] := by
  constructor
  · rw [streamEvents_encode client noExt _ (dataFrames_ok client t keys fr hk hsz 0 true) fuel none
        (by rw [dataFrames_length]; exact hfuel)]
    have := dataFrames_events t keys fr hwf 0 true
    simp only [if_true] at this
    rw [this]; rfl
  · exact reassemble_burst t fr hwf none

/-! ### text frames through the incremental decoder -/

theorem streamEventsU_encode (client : Bool) (rsvOk : Nat → Nat → Bool) (frames : List Frame)
    (h : FramesOk client rsvOk frames) :
    ∀ fuel ms pend, frames.length < fuel →
      streamEventsU client rsvOk fuel ms pend (frames.flatMap encodeFrame) = (framesEventsU ms pend frames).map (·.2.2) := by
  induction frames with
  | nil => intro fuel ms pend hf; cases fuel with
    | zero => omega
    | succ n => simp [streamEventsU, decodeFrame, framesEventsU]
  | cons f fs ih =>
    intro fuel ms pend hf
    cases fuel with
    | zero => omega
    | succ n =>
      have hf1 := h f (by simp)
      simp only [List.flatMap_cons, streamEventsU, framesEventsU]
      rw [frame_roundtrip' client rsvOk f _ hf1.1 hf1.2]
      simp only
      cases hfe : frameEventU ms pend f with
      | none => simp
      | some r =>
        obtain ⟨ms1, p1, e⟩ := r
        simp only
        by_cases h8 : f.opcode = 8
        · simp [h8]
        · simp only [h8, if_false]
          rw [ih (fun g hg => h g (List.mem_cons_of_mem _ hg)) n ms1 p1 (by simp at hf; omega)]
          cases framesEventsU ms1 p1 fs with
          | none => simp
          | some r2 => simp

theorem flagged_map_fst (l : List Bytes) : (flagged l).map (·.1) = l := by
  induction l with
  | nil => rfl
  | cons a l ih =>
    cases l with
    | nil => rfl
    | cons b l => simp only [flagged, List.map_cons] at ih ⊢; rw [ih]

theorem flagged_wellFramed (l : List Bytes) (h : l ≠ []) : wellFramed (flagged l) = true := by
  induction l with
  | nil => exact absurd rfl h
  | cons a l ih =>
    cases l with
    | nil => rfl
    | cons b l =>
      have := ih (by simp)
      cases hfl : flagged (b :: l) with
      | nil => rw [hfl] at this; simp [wellFramed] at this
      | cons q qs => simp only [flagged, hfl, wellFramed]; rw [hfl] at this; simpa using this

theorem decodeChunks_length (cs : List Bytes) : ∀ (p : Bytes) (r : List Bytes × Bytes),
    decodeChunks p cs = some r → r.1.length = cs.length := by
  induction cs with
  | nil => intro p r h; simp [decodeChunks] at h; subst h; rfl
  | cons c rest ih =>
    intro p r h
    cases rest with
    | nil =>
      simp only [decodeChunks] at h
      cases hi : incDecode p c true with
      | none => rw [hi] at h; simp at h
      | some r1 => rw [hi] at h; simp at h; subst h; rfl
    | cons c2 rest' =>
      simp only [decodeChunks] at h
      cases hi : incDecode p c false with
      | none => rw [hi] at h; simp at h
      | some r1 =>
        rw [hi] at h; simp only at h
        cases hd : decodeChunks r1.2 (c2 :: rest') with
        | none => rw [hd] at h; simp at h
        | some r2 =>
          rw [hd] at h; simp at h; subst h
          simp [ih r1.2 r2 hd]

/-- the data frames of a text message whose payloads are cut anywhere, through the decoder -/
theorem dataFrames_eventsU (keys : Nat → Option Bytes) (cs : List Bytes) :
    cs ≠ [] → ∀ (start : Nat) (first : Bool) (pend : Bytes),
    framesEventsU (if first then none else some 1) pend (dataFrames true keys start first (flagged cs)) =
      match decodeChunks (if first then [] else pend) cs with
      | none => none
      | some r => some (none, r.2, (flagged r.1).map (fun pf => WsEv.msg true pf.1 true pf.2)) := by
  induction cs with
  | nil => intro h; exact absurd rfl h
  | cons c rest ih =>
    intro _ start first pend
    cases rest with
    | nil =>
      have hd : dataFrames true keys start first (flagged [c]) =
          [{ fin := true, rsv := 0, opcode := (if first then 1 else 0), key := keys start, payload := c }] := by
        simp [flagged, dataFrames]
      rw [hd]
      simp only [framesEventsU, decodeChunks]
      cases first
      · simp only [Bool.false_eq_true, if_false, frameEventU, frameEvent]
        simp only [show ((0:Nat) = 9) = False by simp, show ((0:Nat) = 10) = False by simp, show ((0:Nat) = 8) = False by simp,
          if_false, ne_eq, not_true_eq_false, if_true, Option.isNone_some, Bool.false_eq_true, decide_true]
        cases incDecode pend c true with
        | none => simp
        | some r => simp [flagged]
      · simp only [if_true, frameEventU, frameEvent]
        simp only [show ((1:Nat) = 9) = False by simp, show ((1:Nat) = 10) = False by simp, show ((1:Nat) = 8) = False by simp,
          show ((1:Nat) = 0) = False by simp, if_false, if_true, Option.isNone_none, decide_true]
        cases incDecode [] c true with
        | none => simp
        | some r => simp [flagged]
    | cons c2 rest' =>
      have hd : dataFrames true keys start first (flagged (c :: c2 :: rest')) =
          { fin := false, rsv := 0, opcode := (if first then 1 else 0), key := keys start, payload := c }
            :: dataFrames true keys (start + 1) false (flagged (c2 :: rest')) := by
        simp [flagged, dataFrames]
      rw [hd]
      have hih := fun p => ih (by simp) (start + 1) false p
      simp only [Bool.false_eq_true, if_false] at hih
      simp only [framesEventsU, decodeChunks]
      cases first
      · simp only [Bool.false_eq_true, if_false, frameEventU, frameEvent]
        simp only [show ((0:Nat) = 9) = False by simp, show ((0:Nat) = 10) = False by simp, show ((0:Nat) = 8) = False by simp,
          if_false, ne_eq, not_true_eq_false, if_true, Option.isNone_some, Bool.false_eq_true, decide_true]
        cases hi : incDecode pend c false with
        | none => simp
        | some r =>
          simp only [Bool.false_eq_true, if_false]
          rw [hih r.2]
          cases hd2 : decodeChunks r.2 (c2 :: rest') with
          | none => simp
          | some r2 =>
            have hl := decodeChunks_length (c2 :: rest') r.2 r2 hd2
            obtain ⟨o2, p2⟩ := r2
            cases o2 with
            | nil => simp at hl
            | cons y ys => simp [flagged]
      · simp only [if_true, frameEventU, frameEvent]
        simp only [show ((1:Nat) = 9) = False by simp, show ((1:Nat) = 10) = False by simp, show ((1:Nat) = 8) = False by simp,
          show ((1:Nat) = 0) = False by simp, if_false, if_true, Option.isNone_none, decide_true]
        cases hi : incDecode [] c false with
        | none => simp
        | some r =>
          simp only [Bool.false_eq_true, if_false]
          rw [hih r.2]
          cases hd2 : decodeChunks r.2 (c2 :: rest') with
          | none => simp
          | some r2 =>
            have hl := decodeChunks_length (c2 :: rest') r.2 r2 hd2
            obtain ⟨o2, p2⟩ := r2
            cases o2 with
            | nil => simp at hl
            | cons y ys => simp [flagged]

/-- frames whose text payloads are complete UTF-8 each: the decoder-aware events are the plain fragment events and
    nothing is held back between frames -/
theorem dataFrames_eventsU_strict (text : Bool) (keys : Nat → Option Bytes) (fr : List (Bytes × Bool))
    (hv : text = true → ∀ pf ∈ fr, StrictOk pf.1) :
    wellFramed fr = true → ∀ (start : Nat) (first : Bool),
    framesEventsU (if first then none else some (if text then 1 else 2)) [] (dataFrames text keys start first fr) =
      some (none, [], fr.map (fun pf => WsEv.msg text pf.1 true pf.2)) := by
  induction fr with
  | nil => intro h; simp [wellFramed] at h
  | cons pf rest ih =>
    obtain ⟨p, fin⟩ := pf
    intro h start first
    have hp : text = true → incDecode [] p fin = some (p, []) := fun ht =>
      incDecode_strictOk p fin (hv ht (p, fin) (by simp))
    have hfeU : frameEventU (if first then none else some (if text then 1 else 2)) []
        { fin := fin, rsv := 0, opcode := (if first then (if text then 1 else 2) else 0), key := keys start, payload := p }
        = some (if fin then none else some (if text then 1 else 2), [], WsEv.msg text p true fin) := by
      cases text
      · cases first <;> simp [frameEventU, frameEvent]
      · have := hp rfl
        cases first <;> simp [frameEventU, frameEvent, this]
    have hop8 : ¬ ((if first then (if text then 1 else 2) else 0) = 8) := by
      cases first <;> cases text <;> simp
    cases rest with
    | nil =>
      simp only [wellFramed] at h; subst h
      have hd : dataFrames text keys start first [(p, true)] =
          [{ fin := true, rsv := 0, opcode := (if first then (if text then 1 else 2) else 0), key := keys start, payload := p }] := rfl
      rw [hd, framesEventsU, hfeU]
      simp [hop8, framesEventsU]
    | cons q rest' =>
      simp only [wellFramed, Bool.and_eq_true, Bool.not_eq_true'] at h
      obtain ⟨hfin, hwf⟩ := h
      subst hfin
      have hih := ih (fun ht pf hpf => hv ht pf (List.mem_cons_of_mem _ hpf)) hwf (start + 1) false
      simp only [Bool.false_eq_true, if_false] at hih
      have hd : dataFrames text keys start first ((p, false) :: q :: rest') =
          { fin := false, rsv := 0, opcode := (if first then (if text then 1 else 2) else 0), key := keys start, payload := p }
            :: dataFrames text keys (start + 1) false (q :: rest') := rfl
      rw [hd, framesEventsU, hfeU]
      simp only [hop8, if_false, Bool.false_eq_true]
      rw [hih]
      simp

/-- `message_wire_roundtrip` over the decoder the driver runs (`streamEventsU`) -/
theorem message_wire_roundtripU (client : Bool) (t : Bool) (keys : Nat → Option Bytes) (fr : List (Bytes × Bool))
    (hwf : wellFramed fr = true) (hk : KeysOk client keys) (hsz : ∀ pf ∈ fr, pf.1.length < 9223372036854775808)
    (hv : t = true → ∀ pf ∈ fr, StrictOk pf.1)
    (fuel : Nat) (hfuel : fr.length < fuel) :
    streamEventsU client noExt fuel none [] ((dataFrames t keys 0 true fr).flatMap encodeFrame)
      = some (fr.map (fun pf => WsEv.msg t pf.1 true pf.2)) ∧
    reassemble none (fr.map (fun pf => WsEv.msg t pf.1 true pf.2)) = [(t, (fr.map (·.1)).flatten)] := by
  constructor
  · rw [streamEventsU_encode client noExt _ (dataFrames_ok client t keys fr hk hsz 0 true) fuel none []
        (by rw [dataFrames_length]; exact hfuel)]
    have := dataFrames_eventsU_strict t keys fr hv hwf 0 true
    simp only [if_true] at this
    rw [this]; rfl
  · exact reassemble_burst t fr hwf none

/-- every fragment the relay sends (`fragmentize`) is complete UTF-8 when the message is text -/
theorem fragmentize_strictOk (fs : Nat) (lens : List Nat) (c : Bytes) :
    ∀ pf ∈ fragmentize fs lens true c, StrictOk pf.1 := by
  intro pf hpf
  unfold fragmentize at hpf
  obtain ⟨q, _, rfl⟩ := List.mem_map.mp hpf
  simp only [payload, if_true]
  exact strictOk_san q.1

end MitmVerif.C28.Wire
