/-
  C29 — invariants of the TCP/UDP relay model and their preservation by every step.
  `Full st` holds in every state reachable from `init`; the property theorems in Props/C29.lean are read off it.
-/
import MitmVerif.Model.C29
set_option linter.unusedSimpArgs false
set_option linter.unusedVariables false
namespace MitmVerif.C29.Lemmas
open MitmVerif MitmVerif.C29

def cnt (tr : List Output) : Nat := tr.countP isEndOrError
def quiet (o : Output) : Bool := !isSend o && !isHook o
def scan : Bool → List Output → Bool
  | _, [] => true
  | e, o :: t => (if e then quiet o else true) && scan (e || isEndOrError o) t

theorem scan_append (e : Bool) (a b : List Output) :
    scan e (a ++ b) = (scan e a && scan (e || a.any isEndOrError) b) := by
  induction a generalizing e with
  | nil => simp [scan]
  | cons o t ih => simp [scan, ih, Bool.and_assoc, Bool.or_assoc]

def isFull : Output → Bool
  | .close _ false => true
  | _ => false
def hasFull (tr : List Output) : Bool := tr.any isFull

theorem any_end_iff_cnt (tr : List Output) : tr.any isEndOrError = decide (0 < cnt tr) := by
  simp [cnt, List.countP_pos_iff, List.any_eq]

def TrInv (st : State) : Prop :=
  (st.flow = true → ∀ s, sentTo s st.trace = recorded s st.msgs) ∧
  (∀ to m, st.pending = .msgHook to m → m.fromClient = (to == .server) ∧ st.flow = true ∧ st.phase = .relay) ∧
  (cnt st.trace = if st.flow = true ∧ (st.phase = .done ∨ st.pending = .errorHook) then 1 else 0) ∧
  (scan false st.trace = true) ∧
  (st.pending = .startHook → st.phase = .start ∧ st.flow = true) ∧
  (st.pending = .connect → st.phase = .start ∧ st.connected = false) ∧
  (st.pending = .errorHook → st.phase = .start ∧ st.flow = true ∧ st.connected = false) ∧
  (st.pending = .endHook → st.phase = .done ∧ st.flow = true) ∧
  (st.phase = .start → st.pending ≠ .none) ∧
  (st.phase = .idle → st.pending = .none ∧ st.trace = [] ∧ st.msgs = []) ∧
  (st.phase = .relay → st.connected = true) ∧
  (hasFull st.trace = true → st.phase = .done) ∧
  (st.proto = .tcp → st.phase = .done → st.connected = false ∨ (st.client.canRead = false ∧ st.server.canRead = false))

@[simp] theorem emit_trace (st : State) (o : Output) : (emit st o).trace = st.trace ++ [o] := by
  cases o <;> simp [emit]
@[simp] theorem emit_phase (st : State) (o : Output) : (emit st o).phase = st.phase := by
  cases o <;> simp [emit, State.setConn] <;> split <;> rfl
@[simp] theorem emit_pending (st : State) (o : Output) : (emit st o).pending = st.pending := by
  cases o <;> simp [emit, State.setConn] <;> split <;> rfl
@[simp] theorem emit_flow (st : State) (o : Output) : (emit st o).flow = st.flow := by
  cases o <;> simp [emit, State.setConn] <;> split <;> rfl
@[simp] theorem emit_msgs (st : State) (o : Output) : (emit st o).msgs = st.msgs := by
  cases o <;> simp [emit, State.setConn] <;> split <;> rfl
@[simp] theorem emit_connected (st : State) (o : Output) : (emit st o).connected = st.connected := by
  cases o <;> simp [emit, State.setConn] <;> split <;> rfl
@[simp] theorem emit_proto (st : State) (o : Output) : (emit st o).proto = st.proto := by
  cases o <;> simp [emit, State.setConn] <;> split <;> rfl

@[simp] theorem applyClose_full (c : Conn) (f : Bool) : applyClose c false f = Conn.shut := rfl
@[simp] theorem applyClose_half_read (c : Conn) (f : Bool) :
    (applyClose c true f).canRead = (!(f && c.canWrite) && c.canRead) := by
  cases f <;> cases hw : c.canWrite <;> simp [applyClose, hw, Conn.shut]
@[simp] theorem applyClose_half_write (c : Conn) (f : Bool) : (applyClose c true f).canWrite = false := by
  cases f <;> cases hw : c.canWrite <;> simp [applyClose, hw, Conn.shut]
@[simp] theorem emit_cEof (st : State) (o : Output) : (emit st o).cEofFail = st.cEofFail := by
  cases o <;> simp [emit, State.setConn] <;> split <;> rfl
@[simp] theorem emit_sEof (st : State) (o : Output) : (emit st o).sEofFail = st.sEofFail := by
  cases o <;> simp [emit, State.setConn] <;> split <;> rfl
@[simp] theorem applyKill_fields (st : State) :
    (applyKill st).flow = st.flow ∧ (applyKill st).trace = st.trace ∧ (applyKill st).msgs = st.msgs ∧
    (applyKill st).pending = st.pending ∧ (applyKill st).phase = st.phase ∧ (applyKill st).queue = st.queue ∧
    (applyKill st).connected = st.connected ∧ (applyKill st).proto = st.proto ∧
    (applyKill st).connectAs = st.connectAs ∧ (applyKill st).client = st.client ∧ (applyKill st).server = st.server ∧
    (applyKill st).cEofFail = st.cEofFail ∧ (applyKill st).sEofFail = st.sEofFail := by
  unfold applyKill; split <;> simp
@[simp] theorem shut_read : Conn.shut.canRead = false := rfl
@[simp] theorem shut_write : Conn.shut.canWrite = false := rfl
@[simp] theorem emit_client (st : State) (o : Output) : (emit st o).client =
    (match o with | .close .client half => applyClose st.client half st.cEofFail | _ => st.client) := by
  cases o <;> simp [emit, State.setConn, State.conn, State.eofFail]
  rename_i c h; cases c <;> simp
@[simp] theorem emit_server (st : State) (o : Output) : (emit st o).server =
    (match o with | .close .server half => applyClose st.server half st.sEofFail | _ => st.server) := by
  cases o <;> simp [emit, State.setConn, State.conn, State.eofFail]
  rename_i c h; cases c <;> simp
@[simp] theorem emit_connectAs (st : State) (o : Output) : (emit st o).connectAs = st.connectAs := by
  cases o <;> simp [emit, State.setConn] <;> split <;> rfl
@[simp] theorem recorded_nil (s : Side) : recorded s [] = [] := rfl
theorem recorded_snoc (s : Side) (ms : List Msg) (m : Msg) :
    recorded s (ms ++ [m]) = recorded s ms ++ (if m.fromClient = (s == .server) then [m.content] else []) := by
  simp [recorded, List.filter_append, List.filter_cons]
  split <;> simp_all
@[simp] theorem editMsg_fromClient (m : Msg) (e : Option Bytes) : (editMsg m e).fromClient = m.fromClient := by
  cases e <;> rfl
@[simp] theorem side_flip (src : Side) : (src == Side.client) = (src.other == Side.server) := by
  cases src <;> rfl
@[simp] theorem sentTo_nil (s : Side) : sentTo s [] = [] := rfl
@[simp] theorem sentTo_cons (s : Side) (o : Output) (t : List Output) :
    sentTo s (o :: t) = (match o with | .send to d => if to = s then [d] else [] | _ => []) ++ sentTo s t := by
  cases o <;> simp [sentTo, List.filterMap_cons]
  split <;> simp_all
@[simp] theorem sentTo_append (s : Side) (a b : List Output) : sentTo s (a ++ b) = sentTo s a ++ sentTo s b := by
  simp [sentTo, List.filterMap_append]
@[simp] theorem cnt_nil : cnt [] = 0 := rfl
@[simp] theorem cnt_cons (o : Output) (t : List Output) : cnt (o :: t) = (if isEndOrError o then 1 else 0) + cnt t := by
  simp [cnt, List.countP_cons]; omega
@[simp] theorem cnt_append (a b : List Output) : cnt (a ++ b) = cnt a + cnt b := by
  simp [cnt, List.countP_append]
@[simp] theorem hasFull_nil : hasFull [] = false := rfl
@[simp] theorem hasFull_cons (o : Output) (t : List Output) : hasFull (o :: t) = (isFull o || hasFull t) := by
  simp [hasFull]
@[simp] theorem hasFull_append (a b : List Output) : hasFull (a ++ b) = (hasFull a || hasFull b) := by
  simp [hasFull]
theorem scan_app (tr b : List Output) :
    scan false (tr ++ b) = (scan false tr && scan (decide (0 < cnt tr)) b) := by
  rw [scan_append]; simp [any_end_iff_cnt]

theorem inv_handle {st : State} {e : Ev} (h : TrInv st) (hp : st.pending = .none) :
    TrInv (handle st e) := by
  unfold TrInv at *
  unfold handle
  split
  · cases e with
    | data src d =>
      simp only [handleData]
      split
      · simp_all [scan_app, scan, isEndOrError, quiet, isSend, isHook, isFull]
      · simp_all [scan_app, scan, isEndOrError, quiet, isSend, isHook, isFull]
    | closed s =>
      simp only [handleClosed, finish]
      split
      · split
        · split <;> split <;> split <;> simp_all [scan_app, scan, isEndOrError, quiet, isSend, isHook, isFull]
        · simp_all [scan_app, scan, isEndOrError, quiet, isSend, isHook, isFull]
      · split <;> simp_all [scan_app, scan, isEndOrError, quiet, isSend, isHook, isFull]
  · exact h

def KInv (q : List Ev) (st : State) : Prop :=
  st.connectAs.canRead = true ∧
  (st.phase = .idle → st.client.canRead = true ∧ (st.connected = true → st.server.canRead = true)) ∧
  (st.phase = .start → (st.client.canRead = true ∨ Ev.closed .client ∈ q) ∧
      (st.connected = true → st.server.canRead = true ∨ Ev.closed .server ∈ q)) ∧
  (st.phase = .relay → st.proto = .tcp → st.cEofFail = false → st.sEofFail = false →
      st.client.canRead = true ∨ st.server.canRead = true ∨ Ev.closed .client ∈ q ∨ Ev.closed .server ∈ q) ∧
  (st.phase = .relay → st.proto = .udp →
      (st.client.canRead = true ∨ Ev.closed .client ∈ q) ∧ (st.server.canRead = true ∨ Ev.closed .server ∈ q))

theorem kinv_handle {q : List Ev} {st : State} {e : Ev} (h : TrInv st) (hk : KInv (e :: q) st)
    (hp : st.pending = .none) : KInv q (handle st e) := by
  unfold TrInv at h
  unfold KInv at *
  unfold handle
  split
  · cases e with
    | data src d =>
      simp only [handleData]
      split <;> simp_all
    | closed s =>
      simp only [handleClosed, finish]
      split
      · split
        · split <;> split <;> split <;> simp_all
        · cases s <;> simp_all [Side.other] <;> (cases hc : st.client.canRead <;> simp_all)
      · split <;> simp_all
  · simp_all

def QInv (st : State) : Prop := st.pending = .none → st.queue = []

/-- `TrInv`/`KInv` never look at the `queue` field -/
theorem inv_setq {st : State} (q : List Ev) : TrInv { st with queue := q } ↔ TrInv st := by
  simp [TrInv]
theorem kinv_setq {st : State} (q q' : List Ev) : KInv q' { st with queue := q } ↔ KInv q' st := by
  simp [KInv]

theorem inv_drain (q : List Ev) (st : State) (h : TrInv st) (hk : KInv q st) :
    TrInv (drain q st) ∧ KInv (drain q st).queue (drain q st) ∧ QInv (drain q st) := by
  induction q generalizing st with
  | nil => simp [drain, inv_setq, kinv_setq, QInv, h, hk]
  | cons e q ih =>
    unfold drain
    split
    · rename_i hp
      exact ih _ (inv_handle h hp) (kinv_handle h hk hp)
    · rename_i hp
      simp [inv_setq, kinv_setq, QInv, h, hk]
      intro h'; exact absurd h' (by simpa using hp)

def Full (st : State) : Prop := TrInv st ∧ KInv st.queue st ∧ QInv st

@[simp] theorem emit_queue (st : State) (o : Output) : (emit st o).queue = st.queue := by
  cases o <;> simp [emit, State.setConn] <;> split <;> rfl

theorem handle_queue (st : State) (e : Ev) : (handle st e).queue = st.queue := by
  unfold handle
  split
  · cases e with
    | data src d => simp only [handleData]; split <;> simp
    | closed s =>
      simp only [handleClosed, finish]
      split
      · split
        · split <;> split <;> split <;> simp
        · simp
      · split <;> simp
  · rfl

theorem kinv_mono {q q' : List Ev} {st : State} (hm : ∀ e, e ∈ q → e ∈ q') (h : KInv q st) : KInv q' st := by
  unfold KInv at *
  obtain ⟨h0, h1, h2, h3, h4⟩ := h
  refine ⟨h0, h1, ?_, ?_, ?_⟩
  · intro hp
    obtain ⟨a, b⟩ := h2 hp
    exact ⟨a.imp id (hm _), fun hc => (b hc).imp id (hm _)⟩
  · intro hp ht hc hs
    rcases h3 hp ht hc hs with a | a | a | a
    · exact Or.inl a
    · exact Or.inr (Or.inl a)
    · exact Or.inr (Or.inr (Or.inl (hm _ a)))
    · exact Or.inr (Or.inr (Or.inr (hm _ a)))
  · intro hp ht
    obtain ⟨a, b⟩ := h4 hp ht
    exact ⟨a.imp id (hm _), b.imp id (hm _)⟩

theorem full_of_drain (st : State) (h : TrInv st) (hk : KInv st.queue st) : Full (drain st.queue st) :=
  inv_drain _ _ h hk

theorem full_deliver (st : State) (ev : Ev) (hI : TrInv st) (hK : KInv (st.queue ++ [ev]) st) (hQ : QInv st) :
    Full (deliver st ev) := by
  unfold deliver
  split
  · rename_i hp
    have hq : st.queue = [] := hQ hp
    rw [hq] at hK
    refine ⟨inv_handle hI hp, ?_, ?_⟩
    · rw [handle_queue, hq]; exact kinv_handle hI hK hp
    · intro _; rw [handle_queue, hq]
  · rename_i hp
    refine ⟨(inv_setq _).2 hI, (kinv_setq _ _).2 hK, ?_⟩
    intro h'; exact absurd h' (by simpa using hp)

@[simp] theorem setConn_fields (st : State) (s : Side) (c : Conn) :
    (st.setConn s c).flow = st.flow ∧ (st.setConn s c).trace = st.trace ∧ (st.setConn s c).msgs = st.msgs ∧
    (st.setConn s c).pending = st.pending ∧ (st.setConn s c).phase = st.phase ∧ (st.setConn s c).queue = st.queue ∧
    (st.setConn s c).connected = st.connected ∧ (st.setConn s c).proto = st.proto ∧
    (st.setConn s c).connectAs = st.connectAs := by
  cases s <;> simp [State.setConn]

theorem inv_setConn {st : State} {s : Side} {c : Conn} (hc : c.canRead = false) (h : TrInv st) :
    TrInv (st.setConn s c) := by
  unfold TrInv at *
  have := setConn_fields st s c
  simp only [this]
  refine ⟨h.1, h.2.1, h.2.2.1, h.2.2.2.1, h.2.2.2.2.1, h.2.2.2.2.2.1, h.2.2.2.2.2.2.1, h.2.2.2.2.2.2.2.1,
    h.2.2.2.2.2.2.2.2.1, h.2.2.2.2.2.2.2.2.2.1, h.2.2.2.2.2.2.2.2.2.2.1, h.2.2.2.2.2.2.2.2.2.2.2.1, ?_⟩
  intro ht hd
  rcases h.2.2.2.2.2.2.2.2.2.2.2.2 ht hd with a | ⟨a, b⟩
  · exact Or.inl a
  · right; cases s <;> simp [State.setConn, hc, a, b]

theorem kinv_closed {st : State} {s : Side} {c : Conn} (hph : st.phase ≠ .idle) (h : KInv st.queue st) :
    KInv (st.queue ++ [Ev.closed s]) (st.setConn s c) := by
  unfold KInv at *
  have := setConn_fields st s c
  simp only [this]
  obtain ⟨h0, h1, h2, h3, h4⟩ := h
  refine ⟨h0, fun hp => absurd hp hph, ?_, ?_, ?_⟩
  · intro hp
    obtain ⟨a, b⟩ := h2 hp
    cases s <;> simp_all [State.setConn] <;> grind
  · intro hp ht
    have := h3 hp ht
    cases s <;> simp_all [State.setConn] <;> grind
  · intro hp ht
    have := h4 hp ht
    cases s <;> simp_all [State.setConn] <;> grind


macro "inv_tac" h:ident k:ident : tactic => `(tactic| (
  unfold TrInv at *
  unfold KInv at *
  obtain ⟨h1, h2, h3, h4, h5, h6, h7, h8, h9, h10, h11, h12, h13⟩ := $h
  obtain ⟨k0, k1, k2, k3, k4⟩ := $k
  simp_all [scan_app, scan, isEndOrError, quiet, isSend, isHook, isFull]))

theorem full_step_aux (st : State) (i : Input) (hi : i ≠ .hookKill) (h : Full st) : Full (step st i) := by
  obtain ⟨hI, hK, hQ⟩ := h
  unfold step
  split
  · -- idle
    rename_i hph
    cases i with
    | start =>
      have hq : st.queue = [] := hQ ((hI.2.2.2.2.2.2.2.2.2.1 hph).1)
      simp only
      split
      · refine ⟨?_, ?_, ?_⟩
        · unfold TrInv at *; simp_all [scan_app, scan, isEndOrError, quiet, isSend, isHook, isFull]
        · unfold KInv at *; simp_all
        · simp [QInv]
      · unfold enterRelayOrConnect
        split
        · refine ⟨?_, ?_, ?_⟩
          · unfold TrInv at *; simp_all [scan_app, scan, isEndOrError, quiet, isSend, isHook, isFull]
          · unfold KInv at *; simp_all
          · simp [QInv, hq]
        · refine ⟨?_, ?_, ?_⟩
          · unfold TrInv at *; simp_all [scan_app, scan, isEndOrError, quiet, isSend, isHook, isFull]
          · unfold KInv at *; simp_all
          · simp [QInv]
    | _ => exact ⟨hI, hK, hQ⟩
  · rename_i hph
    have hph' : st.phase ≠ .idle := by intro h; exact hph h
    cases i with
    | hookKill => exact absurd rfl hi
    | start => exact ⟨hI, hK, hQ⟩
    | data src d =>
      exact full_deliver st _ hI (kinv_mono (fun e he => List.mem_append_left _ he) hK) hQ
    | inject fc d =>
      exact full_deliver st _ hI (kinv_mono (fun e he => List.mem_append_left _ he) hK) hQ
    | closed s full =>
      simp only
      have hc : (if full = true then Conn.shut else { st.conn s with canRead := false }).canRead = false := by
        split <;> rfl
      have h1 := inv_setConn (s := s) hc hI
      have h2 := kinv_closed (s := s) (c := if full = true then Conn.shut else { st.conn s with canRead := false }) hph' hK
      have hq : (st.setConn s (if full = true then Conn.shut else { st.conn s with canRead := false })).queue = st.queue :=
        (setConn_fields _ _ _).2.2.2.2.2.1
      refine full_deliver _ _ h1 (by rw [hq]; exact h2) ?_
      intro hp; rw [hq]; exact hQ (by simpa [(setConn_fields _ _ _).2.2.2.1] using hp)
    | hookDone edit =>
      simp only
      split
      · -- startHook
        rename_i hp
        unfold Full; refine inv_drain _ _ ?_ ?_
        · unfold enterRelayOrConnect; split <;> inv_tac hI hK
        · unfold enterRelayOrConnect; split <;> inv_tac hI hK <;> grind
      · -- errorHook
        rename_i hp
        unfold Full; refine inv_drain _ _ ?_ ?_
        · unfold afterError; inv_tac hI hK
        · unfold afterError; inv_tac hI hK
      · -- msgHook
        rename_i to m hp
        unfold Full; refine inv_drain _ _ ?_ ?_
        · inv_tac hI hK
          intro s
          rw [recorded_snoc]
          cases to <;> cases s <;> simp_all
        · inv_tac hI hK
      · -- endHook
        rename_i hp
        unfold Full; refine inv_drain _ _ ?_ ?_
        · inv_tac hI hK
        · inv_tac hI hK
      · exact ⟨hI, hK, hQ⟩
    | connectDone err =>
      simp only
      split
      · rename_i hp
        split
        · split
          · refine ⟨?_, ?_, ?_⟩
            · inv_tac hI hK
            · inv_tac hI hK
            · simp [QInv]
          · unfold Full; refine inv_drain _ _ ?_ ?_
            · unfold afterError; inv_tac hI hK
            · unfold afterError; inv_tac hI hK
        · unfold Full; refine inv_drain _ _ ?_ ?_
          · inv_tac hI hK
          · inv_tac hI hK
      · exact ⟨hI, hK, hQ⟩

theorem full_applyKill (st : State) (h : Full st) : Full (applyKill st) := by
  obtain ⟨hI, hK, hQ⟩ := h
  have hf := applyKill_fields st
  refine ⟨?_, ?_, ?_⟩
  · unfold TrInv at *; simpa [hf] using hI
  · unfold KInv at *; simpa [hf] using hK
  · unfold QInv at *; simpa [hf] using hQ

/-- configuration is constant, the message list is untouched and the command log only grows -/
def Ext (a b : State) : Prop :=
  b.flow = a.flow ∧ b.proto = a.proto ∧ b.connectAs = a.connectAs ∧ b.msgs = a.msgs ∧
  (∃ r, b.trace = a.trace ++ r) ∧ b.cEofFail = a.cEofFail ∧ b.sEofFail = a.sEofFail

theorem Ext.refl (a : State) : Ext a a := ⟨rfl, rfl, rfl, rfl, ⟨[], by simp⟩, rfl, rfl⟩
theorem Ext.trans {a b c : State} (h1 : Ext a b) (h2 : Ext b c) : Ext a c := by
  obtain ⟨a1, a2, a3, a4, ⟨r1, a5⟩, a6, a7⟩ := h1
  obtain ⟨b1, b2, b3, b4, ⟨r2, b5⟩, b6, b7⟩ := h2
  exact ⟨b1.trans a1, b2.trans a2, b3.trans a3, b4.trans a4, ⟨r1 ++ r2, by rw [b5, a5, List.append_assoc]⟩,
    b6.trans a6, b7.trans a7⟩

theorem handle_ext (st : State) (e : Ev) : Ext st (handle st e) := by
  unfold handle Ext
  split
  · cases e with
    | data src d => simp only [handleData]; split <;> simp
    | closed s =>
      simp only [handleClosed, finish]
      split
      · split
        · split <;> split <;> split <;> simp
        · simp
      · split <;> simp
  · simp

theorem drain_ext (q : List Ev) (st : State) : Ext st (drain q st) := by
  induction q generalizing st with
  | nil => simp [drain, Ext]
  | cons e q ih =>
    unfold drain
    split
    · exact (handle_ext st e).trans (ih _)
    · simp [Ext]

def Cfg (a b : State) : Prop :=
  b.flow = a.flow ∧ b.proto = a.proto ∧ b.connectAs = a.connectAs ∧ b.cEofFail = a.cEofFail ∧ b.sEofFail = a.sEofFail

theorem Ext.cfg {a b : State} (h : Ext a b) : Cfg a b := ⟨h.1, h.2.1, h.2.2.1, h.2.2.2.2.2.1, h.2.2.2.2.2.2⟩
theorem Cfg.trans {a b c : State} (h1 : Cfg a b) (h2 : Cfg b c) : Cfg a c :=
  ⟨h2.1.trans h1.1, h2.2.1.trans h1.2.1, h2.2.2.1.trans h1.2.2.1, h2.2.2.2.1.trans h1.2.2.2.1,
    h2.2.2.2.2.trans h1.2.2.2.2⟩

theorem deliver_cfg (st : State) (ev : Ev) : Cfg st (deliver st ev) := by
  unfold deliver
  split
  · exact (handle_ext st ev).cfg
  · simp [Cfg]

theorem drain_cfg' (q : List Ev) (st st0 : State) (h : Cfg st0 st) : Cfg st0 (drain q st) :=
  h.trans (drain_ext q st).cfg

theorem step_cfg_aux (st : State) (i : Input) (hi : i ≠ .hookKill) : Cfg st (step st i) := by
  unfold step
  split
  · cases i with
    | start =>
      simp only [enterRelayOrConnect]
      split
      · simp [Cfg]
      · split <;> simp [Cfg]
    | _ => simp [Cfg]
  · cases i with
    | hookKill => exact absurd rfl hi
    | start => simp [Cfg]
    | data src d => exact deliver_cfg _ _
    | inject fc d => exact deliver_cfg _ _
    | closed s full =>
      refine Cfg.trans ?_ (deliver_cfg _ _)
      have := setConn_fields st s (if full = true then Conn.shut else { st.conn s with canRead := false })
      exact ⟨this.1, this.2.2.2.2.2.2.2.1, this.2.2.2.2.2.2.2.2, by cases s <;> rfl, by cases s <;> rfl⟩
    | hookDone edit =>
      simp only
      split
      · apply drain_cfg'; unfold enterRelayOrConnect; split <;> simp [Cfg]
      · apply drain_cfg'; simp [afterError, Cfg]
      · apply drain_cfg'; simp [Cfg]
      · apply drain_cfg'; simp [Cfg]
      · simp [Cfg]
    | connectDone err =>
      simp only
      split
      · split
        · split
          · simp [Cfg]
          · apply drain_cfg'; simp [afterError, Cfg]
        · apply drain_cfg'; simp [Cfg]
      · simp [Cfg]

/-- completing a hook in which the addon killed the flow = marking the flow killed, then completing the hook -/
theorem step_hookKill (st : State) :
    step st .hookKill = st ∨ step st .hookKill = step (applyKill st) (.hookDone none) := by
  have hf := applyKill_fields st
  cases hph : st.phase with
  | idle => left; unfold step; simp [hph]
  | _ =>
    cases hp : st.pending with
    | none => left; unfold step; simp [hph, hp]
    | connect => left; unfold step; simp [hph, hp]
    | startHook => right; unfold step; simp [hph, hp, hf]
    | errorHook => right; unfold step; simp [hph, hp, hf]
    | endHook => right; unfold step; simp [hph, hp, hf]
    | msgHook to m => right; unfold step; simp [hph, hp, hf, editMsg]

theorem applyKill_cfg (st : State) : Cfg st (applyKill st) :=
  ⟨(applyKill_fields st).1, (applyKill_fields st).2.2.2.2.2.2.2.1, (applyKill_fields st).2.2.2.2.2.2.2.2.1,
    (applyKill_fields st).2.2.2.2.2.2.2.2.2.2.2.1, (applyKill_fields st).2.2.2.2.2.2.2.2.2.2.2.2⟩

theorem step_cfg (st : State) (i : Input) : Cfg st (step st i) := by
  by_cases hi : i = .hookKill
  · subst hi
    rcases step_hookKill st with h | h
    · rw [h]; simp [Cfg]
    · rw [h]; exact (applyKill_cfg st).trans (step_cfg_aux _ _ (by simp))
  · exact step_cfg_aux st i hi

theorem run_cfg (st : State) (is : List Input) : Cfg st (run st is) := by
  induction is generalizing st with
  | nil => simp [run, Cfg]
  | cons i is ih => exact (step_cfg st i).trans (ih _)

theorem full_init (p : Proto) (f c : Bool) : Full (init p f c) := by
  refine ⟨?_, ?_, ?_⟩
  · simp [TrInv, init, scan]
  · cases c <;> simp [KInv, init, Conn.opened]
  · simp [QInv, init]

theorem full_step (st : State) (i : Input) (h : Full st) : Full (step st i) := by
  by_cases hi : i = .hookKill
  · subst hi
    rcases step_hookKill st with e | e
    · rw [e]; exact h
    · rw [e]; exact full_step_aux _ _ (by simp) (full_applyKill st h)
  · exact full_step_aux st i hi h

theorem full_run (st : State) (is : List Input) (h : Full st) : Full (run st is) := by
  induction is generalizing st with
  | nil => exact h
  | cons i is ih => exact ih _ (full_step st i h)

/-! ### half-close bookkeeping across the pause queue -/

/-- TCP relay: a side that can no longer be read has either its `ConnectionClosed` still waiting in the
    queue or the half-close of the opposite connection already yielded -/
def HInv (q : List Ev) (st : State) : Prop :=
  st.cEofFail = false → st.sEofFail = false → st.proto = .tcp → st.phase = .relay →
    ∀ s, (st.conn s).canRead = false → Ev.closed s ∈ q ∨ Output.close s.other true ∈ st.trace

theorem hinv_setq {st : State} (q q' : List Ev) : HInv q' { st with queue := q } ↔ HInv q' st := by
  simp [HInv, State.conn]

theorem hinv_mono {q q' : List Ev} {st : State} (hm : ∀ e, e ∈ q → e ∈ q') (h : HInv q st) : HInv q' st := by
  intro f1 f2 h1 h2 s hs
  exact (h f1 f2 h1 h2 s hs).imp (hm _) id

theorem hinv_handle {q : List Ev} {st : State} {e : Ev} (hI : TrInv st) (h : HInv (e :: q) st)
    (hp : st.pending = .none) : HInv q (handle st e) := by
  unfold handle
  split
  · rename_i hph
    cases e with
    | data src d =>
      simp only [handleData]
      split
      · intro f1 f2 h1 h2 s hs
        have f1' : st.cEofFail = false := by simpa using f1
        have f2' : st.sEofFail = false := by simpa using f2
        have h1' : st.proto = .tcp := by simpa using h1
        have hs' : (st.conn s).canRead = false := by
          cases s <;> simpa [State.conn] using hs
        rcases h f1' f2' h1' hph s hs' with hm | hm
        · simp at hm; exact Or.inl hm
        · right; simp [hm]
      · intro f1 f2 h1 h2 s hs
        have f1' : st.cEofFail = false := by simpa using f1
        have f2' : st.sEofFail = false := by simpa using f2
        have h1' : st.proto = .tcp := by simpa using h1
        have hs' : (st.conn s).canRead = false := by
          cases s <;> simpa [State.conn] using hs
        rcases h f1' f2' h1' hph s hs' with hm | hm
        · simp at hm; exact Or.inl hm
        · right; simp [hm]
    | closed s0 =>
      simp only [handleClosed]
      split
      · rename_i hpr
        split
        · -- all done: the relay is over
          intro f1 f2 h1 h2
          exfalso
          revert h2
          simp only [finish]
          split <;> split <;> split <;> simp
        · intro f1 f2 h1 h2 s hs
          have f1' : st.cEofFail = false := by simpa using f1
          have f2' : st.sEofFail = false := by simpa using f2
          have hs' : (st.conn s).canRead = false := by
            cases s <;> cases s0 <;> simpa [State.conn, Side.other, f1', f2'] using hs
          rcases h f1' f2' hpr hph s hs' with hm | hm
          · simp at hm
            rcases hm with rfl | hm
            · right; simp
            · exact Or.inl hm
          · right; simp [hm]
      · rename_i hpr
        intro f1 f2 h1
        exfalso
        revert h1
        simp only [finish]
        split <;> simp [hpr]
  · intro f1 f2 h1 h2 s hs
    rename_i hne
    exact absurd h2 (by intro hh; exact hne hh)

theorem hinv_drain (q : List Ev) (st : State) (h : TrInv st) (hk : KInv q st) (hh : HInv q st) :
    HInv (drain q st).queue (drain q st) := by
  induction q generalizing st with
  | nil => simpa [drain, hinv_setq] using hh
  | cons e q ih =>
    unfold drain
    split
    · rename_i hp
      exact ih _ (inv_handle h hp) (kinv_handle h hk hp) (hinv_handle h hh hp)
    · simpa [hinv_setq] using hh

theorem hinv_closed {st : State} {s : Side} {c : Conn} (h : HInv st.queue st) :
    HInv (st.queue ++ [Ev.closed s]) (st.setConn s c) := by
  have hf := setConn_fields st s c
  intro f1 f2 h1 h2 s' hs
  have f1' : st.cEofFail = false := by cases s <;> simpa [State.setConn] using f1
  have f2' : st.sEofFail = false := by cases s <;> simpa [State.setConn] using f2
  rw [hf.2.2.2.2.2.2.2.1] at h1
  rw [hf.2.2.2.2.1] at h2
  rw [hf.2.1]
  by_cases e : s' = s
  · subst e; left; simp
  · have hs' : (st.conn s').canRead = false := by
      cases s' <;> cases s <;> simp_all [State.conn, State.setConn]
    exact (h f1' f2' h1 h2 s' hs').imp (fun hm => List.mem_append_left _ hm) id

theorem hinv_deliver (st : State) (ev : Ev) (hI : TrInv st) (hK : KInv (st.queue ++ [ev]) st)
    (hH : HInv (st.queue ++ [ev]) st) (hQ : QInv st) : HInv (deliver st ev).queue (deliver st ev) := by
  unfold deliver
  split
  · rename_i hp
    have hq : st.queue = [] := hQ hp
    rw [hq] at hH
    rw [handle_queue, hq]
    exact hinv_handle hI hH hp
  · simpa [hinv_setq] using hH

def Full2 (st : State) : Prop := Full st ∧ HInv st.queue st

theorem full2_step_aux (st : State) (i : Input) (hi : i ≠ .hookKill) (h : Full2 st) : Full2 (step st i) := by
  obtain ⟨hF, hH⟩ := h
  refine ⟨full_step st i hF, ?_⟩
  obtain ⟨hI, hK, hQ⟩ := hF
  unfold step
  split
  · rename_i hph
    have hk1 := hK.2.1 hph
    cases i with
    | start =>
      simp only
      split
      · intro f1 f2 h1 h2; simp at h2
      · unfold enterRelayOrConnect
        split
        · intro f1 f2 h1 h2 s hs
          exfalso
          rename_i hc
          cases s <;> simp_all [State.conn]
        · intro f1 f2 h1 h2; simp at h2
    | _ => exact hH
  · rename_i hph
    have hph' : st.phase ≠ .idle := by intro h; exact hph h
    cases i with
    | hookKill => exact absurd rfl hi
    | start => exact hH
    | data src d =>
      exact hinv_deliver st _ hI (kinv_mono (fun e he => List.mem_append_left _ he) hK)
        (hinv_mono (fun e he => List.mem_append_left _ he) hH) hQ
    | inject fc d =>
      exact hinv_deliver st _ hI (kinv_mono (fun e he => List.mem_append_left _ he) hK)
        (hinv_mono (fun e he => List.mem_append_left _ he) hH) hQ
    | closed s full =>
      simp only
      have hc : (if full = true then Conn.shut else { st.conn s with canRead := false }).canRead = false := by
        split <;> rfl
      have h1 := inv_setConn (s := s) hc hI
      have h2 := kinv_closed (s := s) (c := if full = true then Conn.shut else { st.conn s with canRead := false }) hph' hK
      have h3 := hinv_closed (s := s) (c := if full = true then Conn.shut else { st.conn s with canRead := false }) hH
      have hq : (st.setConn s (if full = true then Conn.shut else { st.conn s with canRead := false })).queue = st.queue :=
        (setConn_fields _ _ _).2.2.2.2.2.1
      refine hinv_deliver _ _ h1 (by rw [hq]; exact h2) (by rw [hq]; exact h3) ?_
      intro hp; rw [hq]; exact hQ (by simpa [(setConn_fields _ _ _).2.2.2.1] using hp)
    | hookDone edit =>
      simp only
      split
      · -- startHook
        rename_i hp
        have hks := hK.2.2.1
        refine hinv_drain _ _ ?_ ?_ ?_
        · unfold enterRelayOrConnect; split <;> inv_tac hI hK
        · unfold enterRelayOrConnect; split <;> inv_tac hI hK <;> grind
        · unfold enterRelayOrConnect
          split
          · rename_i hc
            intro f1 f2 h1 h2 s hs
            left
            have hst : st.phase = .start := by
              have := hI; unfold TrInv at this
              obtain ⟨-, -, -, -, h5, -⟩ := this; exact (h5 hp).1
            obtain ⟨k1, k2⟩ := hks hst
            cases s
            · have : st.client.canRead = false := by simpa [State.conn] using hs
              rcases k1 with k1 | k1
              · simp [this] at k1
              · exact k1
            · have : st.server.canRead = false := by simpa [State.conn] using hs
              rcases k2 hc with k2 | k2
              · simp [this] at k2
              · exact k2
          · intro f1 f2 h1 h2
            have hst : st.phase = .start := by
              have := hI; unfold TrInv at this
              obtain ⟨-, -, -, -, h5, -⟩ := this; exact (h5 hp).1
            simp [hst] at h2
      · -- errorHook
        rename_i hp
        refine hinv_drain _ _ ?_ ?_ ?_
        · unfold afterError; inv_tac hI hK
        · unfold afterError; inv_tac hI hK
        · intro f1 f2 h1 h2; simp [afterError] at h2
      · -- msgHook
        rename_i to m hp
        refine hinv_drain _ _ ?_ ?_ ?_
        · inv_tac hI hK
          intro s
          rw [recorded_snoc]
          cases to <;> cases s <;> simp_all
        · inv_tac hI hK
        · intro f1 f2 h1 h2 s hs
          have h1' : st.proto = .tcp := by simpa using h1
          have h2' : st.phase = .relay := by simpa using h2
          have hs' : (st.conn s).canRead = false := by cases s <;> simpa [State.conn] using hs
          rcases hH (by simpa using f1) (by simpa using f2) h1' h2' s hs' with hm | hm
          · exact Or.inl hm
          · right; simp [hm]
      · -- endHook
        rename_i hp
        refine hinv_drain _ _ ?_ ?_ ?_
        · inv_tac hI hK
        · inv_tac hI hK
        · intro f1 f2 h1 h2
          have : st.phase = .done := by
            have := hI; unfold TrInv at this
            obtain ⟨-, -, -, -, -, -, -, h8, -⟩ := this; exact (h8 hp).1
          simp [this] at h2
      · exact hH
    | connectDone err =>
      simp only
      split
      · rename_i hp
        have hst : st.phase = .start := by
          have := hI; unfold TrInv at this
          obtain ⟨-, -, -, -, -, h6, -⟩ := this; exact (h6 hp).1
        split
        · split
          · intro f1 f2 h1 h2; simp [hst] at h2
          · refine hinv_drain _ _ ?_ ?_ ?_
            · unfold afterError; inv_tac hI hK
            · unfold afterError; inv_tac hI hK
            · intro f1 f2 h1 h2; simp [afterError] at h2
        · refine hinv_drain _ _ ?_ ?_ ?_
          · inv_tac hI hK
          · inv_tac hI hK
          · intro f1 f2 h1 h2 s hs
            left
            obtain ⟨k1, -⟩ := hK.2.2.1 hst
            cases s
            · have : st.client.canRead = false := by simpa [State.conn] using hs
              rcases k1 with k1 | k1
              · simp [this] at k1
              · exact k1
            · have hr := hK.1
              have : st.connectAs.canRead = false := by simpa [State.conn] using hs
              simp [this] at hr
      · exact hH

theorem full2_step (st : State) (i : Input) (h : Full2 st) : Full2 (step st i) := by
  by_cases hi : i = .hookKill
  · subst hi
    rcases step_hookKill st with e | e
    · rw [e]; exact h
    · rw [e]
      refine full2_step_aux _ _ (by simp) ⟨full_applyKill st h.1, ?_⟩
      have hf := applyKill_fields st
      have := h.2
      unfold HInv at *
      simpa [hf, State.conn] using this
  · exact full2_step_aux st i hi h

theorem full2_init (p : Proto) (f c : Bool) : Full2 (init p f c) :=
  ⟨full_init p f c, by intro f1 f2 h1 h2; simp [init] at h2⟩

theorem full2_initX (p : Proto) (f c cd sd : Bool) : Full2 (initX p f c cd sd) := by
  refine ⟨⟨?_, ?_, ?_⟩, ?_⟩
  · simp [TrInv, initX, init, scan]
  · cases c <;> simp [KInv, initX, init, Conn.opened]
  · simp [QInv, initX, init]
  · intro f1 f2 h1 h2; simp [initX, init] at h2

theorem full2_run (st : State) (is : List Input) (h : Full2 st) : Full2 (run st is) := by
  induction is generalizing st with
  | nil => exact h
  | cons i is ih => exact ih _ (full2_step st i h)

/-! ### arrival order: what is processed is what arrived, in the order it arrived -/

/-- the message hooks that have fired, in order, with the content the layer put into `flow.messages` -/
def hookMsgs (tr : List Output) : List Msg :=
  tr.filterMap fun o => match o with
    | .hook (.message fc d) => some ⟨fc, d⟩
    | _ => none

/-- data events still waiting in the pause queue -/
def dataOf (q : List Ev) : List Msg :=
  q.filterMap fun e => match e with
    | .data src d => some ⟨src == .client, d⟩
    | .closed _ => none

@[simp] theorem hookMsgs_append (a b : List Output) : hookMsgs (a ++ b) = hookMsgs a ++ hookMsgs b := by
  simp [hookMsgs, List.filterMap_append]
@[simp] theorem hookMsgs_nil : hookMsgs [] = [] := rfl
@[simp] theorem hookMsgs_cons (o : Output) (t : List Output) :
    hookMsgs (o :: t) = (match o with | .hook (.message fc d) => [⟨fc, d⟩] | _ => []) ++ hookMsgs t := by
  cases o with
  | hook h => cases h <;> simp [hookMsgs, List.filterMap_cons]
  | _ => simp [hookMsgs, List.filterMap_cons]
@[simp] theorem dataOf_nil : dataOf [] = [] := rfl
@[simp] theorem dataOf_cons (e : Ev) (q : List Ev) :
    dataOf (e :: q) = (match e with | .data src d => [⟨src == .client, d⟩] | .closed _ => []) ++ dataOf q := by
  cases e <;> simp [dataOf, List.filterMap_cons]
@[simp] theorem dataOf_append (a b : List Ev) : dataOf (a ++ b) = dataOf a ++ dataOf b := by
  simp [dataOf, List.filterMap_append]

/-- arrival-order invariant (flows with hooks): the message hooks fired so far, followed by the data still queued,
    are exactly the data/injected events that have arrived, in arrival order; after the end: a prefix of them -/
def Arr (q : List Ev) (st : State) (A : List Msg) : Prop :=
  (st.phase = .idle → A = [] ∧ hookMsgs st.trace = []) ∧
  (st.phase = .start → hookMsgs st.trace ++ dataOf q = A) ∧
  (st.phase = .relay → hookMsgs st.trace ++ dataOf q = A) ∧
  (st.phase = .done → ∃ r, hookMsgs st.trace ++ r = A)

theorem arr_setq {st : State} (q q' : List Ev) (A : List Msg) : Arr q' { st with queue := q } A ↔ Arr q' st A := by
  simp [Arr]

theorem arr_handle {q : List Ev} {st : State} {e : Ev} {A : List Msg} (hf : st.flow = true)
    (h : Arr (e :: q) st A) (hp : st.pending = .none) (hstart : st.phase ≠ .start) (hidle : st.phase ≠ .idle) :
    Arr q (handle st e) A := by
  obtain ⟨h0, h1, h2, h3⟩ := h
  unfold handle
  split
  · rename_i hph
    have h2' := h2 hph
    cases e with
    | data src d =>
      simp only [handleData, hf, if_true]
      refine ⟨by simp [hph], by simp [hph], ?_, by simp [hph]⟩
      intro _
      simpa [List.append_assoc] using h2'
    | closed s =>
      have h2'' : hookMsgs st.trace ++ dataOf q = A := by simpa using h2'
      have key : ∀ st' : State, hookMsgs st'.trace = hookMsgs st.trace →
          (st'.phase = .relay ∨ st'.phase = .done) → Arr q st' A := by
        intro st' ht hph'
        refine ⟨?_, ?_, ?_, ?_⟩
        · intro h; rcases hph' with h' | h' <;> rw [h] at h' <;> cases h'
        · intro h; rcases hph' with h' | h' <;> rw [h] at h' <;> cases h'
        · intro _; rw [ht]; exact h2''
        · intro _; exact ⟨dataOf q, by rw [ht]; exact h2''⟩
      apply key
      · simp only [handleClosed, finish]
        repeat' split
        all_goals simp_all
      · simp only [handleClosed, finish]
        repeat' split
        all_goals simp_all
  · rename_i hne
    refine ⟨fun h => absurd h hidle, fun h => absurd h hstart, fun h => absurd h hne, ?_⟩
    intro hd
    obtain ⟨r, hr⟩ := h3 hd
    cases e with
    | data src d => exact ⟨r, hr⟩
    | closed s => exact ⟨r, hr⟩

theorem arr_drain (q : List Ev) (st : State) (A : List Msg) (hf : st.flow = true) (hI : TrInv st)
    (h : Arr q st A) (hidle : st.phase ≠ .idle) :
    Arr (drain q st).queue (drain q st) A := by
  induction q generalizing st with
  | nil => simpa [drain, arr_setq] using h
  | cons e q ih =>
    unfold drain
    split
    · rename_i hp
      have hstart : st.phase ≠ .start := by
        intro hs
        have := hI; unfold TrInv at this
        obtain ⟨-, -, -, -, -, -, -, -, h9, -⟩ := this
        exact h9 hs hp
      have hf' : (handle st e).flow = true := by rw [(handle_ext st e).1]; exact hf
      refine ih _ hf' (inv_handle hI hp) (arr_handle hf h hp hstart hidle) ?_
      unfold handle
      split
      · cases e with
        | data src d => simp only [handleData]; split <;> simp_all
        | closed s =>
          simp only [handleClosed, finish]
          repeat' split
          all_goals simp_all
      · exact hidle
    · simpa [arr_setq] using h

/-- what an input contributes to the arrival sequence (nothing before `Start`) -/
def arrOf (st : State) (i : Input) : List Msg :=
  if st.phase = .idle then [] else
  match i with
  | .data src d => [⟨src == .client, d⟩]
  | .inject fc d => [⟨fc, d⟩]
  | _ => []

theorem arr_same {q : List Ev} {st st' : State} {A : List Msg} (h : Arr q st A)
    (ht : hookMsgs st'.trace = hookMsgs st.trace) (hp : st'.phase = st.phase) : Arr q st' A := by
  unfold Arr at *; rw [ht, hp]; exact h

theorem arr_push_data {q : List Ev} {st : State} {A : List Msg} (h : Arr q st A) (hidle : st.phase ≠ .idle)
    (src : Side) (d : Bytes) : Arr (q ++ [.data src d]) st (A ++ [⟨src == .client, d⟩]) := by
  obtain ⟨h0, h1, h2, h3⟩ := h
  refine ⟨fun hh => absurd hh hidle, ?_, ?_, ?_⟩
  · intro hh; simp [← h1 hh, List.append_assoc]
  · intro hh; simp [← h2 hh, List.append_assoc]
  · intro hh; obtain ⟨r, hr⟩ := h3 hh; exact ⟨r ++ [⟨src == .client, d⟩], by rw [← hr, List.append_assoc]⟩

theorem arr_push_closed {q : List Ev} {st : State} {A : List Msg} (h : Arr q st A) (s : Side) :
    Arr (q ++ [.closed s]) st A := by
  obtain ⟨h0, h1, h2, h3⟩ := h
  exact ⟨h0, fun hh => by simpa using h1 hh, fun hh => by simpa using h2 hh, h3⟩

theorem arr_deliver (st : State) (ev : Ev) (A : List Msg) (hf : st.flow = true) (hI : TrInv st) (hQ : QInv st)
    (h : Arr (st.queue ++ [ev]) st A) (hidle : st.phase ≠ .idle) :
    Arr (deliver st ev).queue (deliver st ev) A := by
  unfold deliver
  split
  · rename_i hp
    have hq : st.queue = [] := hQ hp
    rw [hq] at h
    rw [handle_queue, hq]
    have hstart : st.phase ≠ .start := by
      intro hs
      have := hI; unfold TrInv at this
      obtain ⟨-, -, -, -, -, -, -, -, h9, -⟩ := this
      exact h9 hs hp
    exact arr_handle hf h hp hstart hidle
  · simpa [arr_setq] using h

theorem arr_step_aux (st : State) (i : Input) (A : List Msg) (hi : i ≠ .hookKill) (hf : st.flow = true)
    (hF : Full st) (h : Arr st.queue st A) : Arr (step st i).queue (step st i) (A ++ arrOf st i) := by
  obtain ⟨hI, hK, hQ⟩ := hF
  have hI' := hI
  unfold TrInv at hI'
  obtain ⟨-, -, -, -, t5, t6, t7, t8, t9, t10, -, -, -⟩ := hI'
  unfold step
  split
  · rename_i hph
    have hq : st.queue = [] := hQ (t10 hph).1
    obtain ⟨hA, hT⟩ := h.1 hph
    cases i with
    | start =>
      simp only [hf, if_true, arrOf, hph]
      refine ⟨by simp, ?_, by simp, by simp⟩
      intro _; simp [hT, hA, hq]
    | _ => simpa [arrOf, hph] using h
  · rename_i hph
    have hidle : st.phase ≠ .idle := fun hh => hph hh
    cases i with
    | hookKill => exact absurd rfl hi
    | start => simpa [arrOf, hidle] using h
    | data src d =>
      simp only [arrOf, hidle, if_false]
      exact arr_deliver st _ _ hf hI hQ (arr_push_data h hidle src d) hidle
    | inject fc d =>
      simp only [arrOf, hidle, if_false]
      have := arr_push_data h hidle (if fc = true then Side.client else Side.server) d
      have e : ((if fc = true then Side.client else Side.server) == Side.client) = fc := by cases fc <;> rfl
      rw [e] at this
      exact arr_deliver st _ _ hf hI hQ this hidle
    | closed s full =>
      simp only [arrOf, hidle, if_false, List.append_nil]
      have hc : (if full = true then Conn.shut else { st.conn s with canRead := false }).canRead = false := by
        split <;> rfl
      have hfld := setConn_fields st s (if full = true then Conn.shut else { st.conn s with canRead := false })
      have h1 := inv_setConn (s := s) hc hI
      refine arr_deliver _ _ _ (by rw [hfld.1]; exact hf) h1 ?_ ?_ (by rw [hfld.2.2.2.2.1]; exact hidle)
      · intro hp; rw [hfld.2.2.2.2.2.1]; exact hQ (by rw [← hfld.2.2.2.1]; exact hp)
      · rw [hfld.2.2.2.2.2.1]
        exact arr_push_closed (arr_same h (by rw [hfld.2.1]) hfld.2.2.2.2.1) s
    | hookDone edit =>
      simp only [arrOf, hidle, if_false, List.append_nil]
      split
      · -- startHook
        rename_i hp
        have hst := (t5 hp).1
        have hA := h.2.1 hst
        refine arr_drain _ _ _ ?_ ?_ ?_ ?_
        · unfold enterRelayOrConnect; split <;> simp [hf]
        · unfold enterRelayOrConnect; split <;> inv_tac hI hK
        · unfold enterRelayOrConnect
          split
          · exact ⟨by simp, by simp, fun _ => by simpa using hA, by simp⟩
          · exact ⟨by simp [hst], fun _ => by simpa using hA, by simp [hst], by simp [hst]⟩
        · unfold enterRelayOrConnect; split <;> simp [hst]
      · -- errorHook
        rename_i hp
        have hst := (t7 hp).1
        have hA := h.2.1 hst
        refine arr_drain _ _ _ ?_ ?_ ?_ ?_
        · simp [afterError, hf]
        · unfold afterError; inv_tac hI hK
        · exact ⟨by simp [afterError], by simp [afterError], by simp [afterError],
            fun _ => ⟨dataOf st.queue, by simpa [afterError] using hA⟩⟩
        · simp [afterError]
      · -- msgHook
        rename_i to m hp
        have hI2 := hI
        unfold TrInv at hI2
        have hrel := (hI2.2.1 to m hp).2.2
        have hA := h.2.2.1 hrel
        refine arr_drain _ _ _ ?_ ?_ ?_ ?_
        · simp [hf]
        · inv_tac hI hK
          intro s
          rw [recorded_snoc]
          cases to <;> cases s <;> simp_all
        · exact ⟨by simp [hrel], by simp [hrel], fun _ => by simpa using hA, by simp [hrel]⟩
        · simp [hrel]
      · -- endHook
        rename_i hp
        have hd := (t8 hp).1
        have hA := h.2.2.2 hd
        refine arr_drain _ _ _ ?_ ?_ ?_ ?_
        · simp [hf]
        · inv_tac hI hK
        · exact ⟨by simp [hd], by simp [hd], by simp [hd], fun _ => by simpa using hA⟩
        · simp [hd]
      · simpa using h
    | connectDone err =>
      simp only [arrOf, hidle, if_false, List.append_nil]
      split
      · rename_i hp
        have hst := (t6 hp).1
        have hA := h.2.1 hst
        split
        · simp only [hf, if_true]
          exact ⟨by simp [hst], fun _ => by simpa using hA, by simp [hst], by simp [hst]⟩
        · refine arr_drain _ _ _ ?_ ?_ ?_ ?_
          · simp [hf]
          · inv_tac hI hK
          · exact ⟨by simp, by simp, fun _ => by simpa using hA, by simp⟩
          · simp
      · simpa using h

theorem arr_applyKill {q : List Ev} {st : State} {A : List Msg} (h : Arr q st A) : Arr q (applyKill st) A :=
  arr_same h (by rw [(applyKill_fields st).2.1]) (applyKill_fields st).2.2.2.2.1

theorem arrOf_applyKill (st : State) (i : Input) : arrOf (applyKill st) i = arrOf st i := by
  simp [arrOf, (applyKill_fields st).2.2.2.2.1]

theorem arr_step (st : State) (i : Input) (A : List Msg) (hf : st.flow = true)
    (hF : Full st) (h : Arr st.queue st A) : Arr (step st i).queue (step st i) (A ++ arrOf st i) := by
  by_cases hi : i = .hookKill
  · subst hi
    have hz : arrOf st .hookKill = [] := by simp [arrOf]
    rw [hz, List.append_nil]
    rcases step_hookKill st with e | e
    · rw [e]; exact h
    · rw [e]
      have := arr_step_aux (applyKill st) (.hookDone none) A (by simp)
        (by rw [(applyKill_fields st).1]; exact hf) (full_applyKill st hF)
        (by rw [(applyKill_fields st).2.2.2.2.2.1]; exact arr_applyKill h)
      simpa [arrOf] using this
  · exact arr_step_aux st i A hi hf hF h

/-- data / injected messages of a whole schedule, in arrival order (events before `Start` are not accepted) -/
def arrivals : State → List Input → List Msg
  | _, [] => []
  | st, i :: is => arrOf st i ++ arrivals (step st i) is

theorem arr_run (st : State) (is : List Input) (A : List Msg) (hf : st.flow = true) (hF : Full st)
    (h : Arr st.queue st A) : Arr (run st is).queue (run st is) (A ++ arrivals st is) := by
  induction is generalizing st A with
  | nil => simpa [arrivals, run] using h
  | cons i t ih =>
    have := ih (step st i) (A ++ arrOf st i) (by rw [(step_cfg st i).1]; exact hf) (full_step st i hF)
      (arr_step st i A hf hF h)
    simpa [arrivals, run, List.append_assoc] using this

theorem arr_init (p : Proto) (c : Bool) : Arr (init p true c).queue (init p true c) [] := by
  simp [Arr, init]

theorem handle_not_idle (st : State) (e : Ev) (h : st.phase ≠ .idle) : (handle st e).phase ≠ .idle := by
  unfold handle
  split
  · cases e with
    | data src d => simp only [handleData]; split <;> simp_all
    | closed s =>
      simp only [handleClosed, finish]
      repeat' split
      all_goals simp_all
  · exact h

theorem drain_not_idle (q : List Ev) (st : State) (h : st.phase ≠ .idle) : (drain q st).phase ≠ .idle := by
  induction q generalizing st with
  | nil => simpa [drain] using h
  | cons e q ih =>
    unfold drain
    split
    · exact ih _ (handle_not_idle st e h)
    · simpa using h

theorem deliver_not_idle (st : State) (ev : Ev) (h : st.phase ≠ .idle) : (deliver st ev).phase ≠ .idle := by
  unfold deliver
  split
  · exact handle_not_idle _ _ h
  · simpa using h

theorem step_not_idle (st : State) (i : Input) (h : st.phase ≠ .idle) : (step st i).phase ≠ .idle := by
  unfold step
  split
  · rename_i hh; exact absurd hh h
  · cases i with
    | start => exact h
    | data src d => exact deliver_not_idle _ _ h
    | inject fc d => exact deliver_not_idle _ _ h
    | closed s full =>
      have hfld := setConn_fields st s (if full = true then Conn.shut else { st.conn s with canRead := false })
      exact deliver_not_idle _ _ (by rw [hfld.2.2.2.2.1]; exact h)
    | hookDone edit =>
      simp only
      split
      · apply drain_not_idle; unfold enterRelayOrConnect; split <;> simp [h]
      · apply drain_not_idle; simp [afterError]
      · apply drain_not_idle; simpa using h
      · apply drain_not_idle; simpa using h
      · exact h
    | hookKill =>
      have hk := (applyKill_fields st).2.2.2.2.1
      simp only
      split
      · apply drain_not_idle; unfold enterRelayOrConnect; split <;> simp [h, hk]
      · apply drain_not_idle; simp [afterError]
      · apply drain_not_idle; simpa [hk] using h
      · apply drain_not_idle; simpa [hk] using h
      · exact h
    | connectDone err =>
      simp only
      split
      · split
        · split
          · simpa using h
          · apply drain_not_idle; simp [afterError]
        · apply drain_not_idle; simp
      · exact h

/-- data / injected messages a schedule delivers after `Start`, in delivery order -/
def accepted : Bool → List Input → List Msg
  | _, [] => []
  | false, .start :: is => accepted true is
  | false, _ :: is => accepted false is
  | true, .data src d :: is => ⟨src == .client, d⟩ :: accepted true is
  | true, .inject fc d :: is => ⟨fc, d⟩ :: accepted true is
  | true, _ :: is => accepted true is

theorem arrivals_eq_accepted (st : State) (is : List Input) :
    arrivals st is = accepted (decide (st.phase ≠ .idle)) is := by
  induction is generalizing st with
  | nil => cases h : decide (st.phase ≠ .idle) <;> simp [arrivals, accepted]
  | cons i t ih =>
    by_cases hid : st.phase = .idle
    · have e0 : decide (st.phase ≠ .idle) = false := by simp [hid]
      rw [e0]
      simp only [arrivals, arrOf, hid, if_true, List.nil_append]
      rw [ih]
      cases i with
      | start =>
        have : (step st .start).phase ≠ .idle := by
          unfold step; simp only [hid]
          split
          · simp
          · unfold enterRelayOrConnect; split <;> simp
        simp [accepted, this]
      | _ =>
        have e : ∀ j : Input, j ≠ .start → step st j = st := by
          intro j hj
          cases j with
          | start => exact absurd rfl hj
          | _ => unfold step; simp [hid]
        rw [e _ (by simp)]
        simp [accepted, hid]
    · have e1 : decide (st.phase ≠ .idle) = true := by simp [hid]
      have e2 : decide ((step st i).phase ≠ .idle) = true := by simpa using step_not_idle st i hid
      rw [e1]
      simp only [arrivals, arrOf, hid, if_false]
      rw [ih, e2]
      cases i <;> simp [accepted]

end MitmVerif.C29.Lemmas
