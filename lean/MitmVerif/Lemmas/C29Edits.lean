/-
  C29 — addon edits over whole histories: the recorded messages are the hooked messages (= the arrivals, see `Arr`) with the
  edit given at the completion of each message hook applied, one for one, in order.
-/
import MitmVerif.Lemmas.C29
set_option linter.unusedSimpArgs false
set_option linter.unusedVariables false
namespace MitmVerif.C29.Lemmas
open MitmVerif MitmVerif.C29

/-- the message whose hook is pending (it is in `flow.messages`, its hook has fired, it is not yet in `st.msgs`) -/
def inflight (st : State) : List Msg :=
  match st.pending with
  | .msgHook _ m => [m]
  | _ => []

/-- edit bookkeeping: `E` = what the addon did at each completed message hook, in order (`none` = left it alone);
    the recorded messages are the hooked messages with these edits applied, one for one, in order -/
def Ed (st : State) (E : List (Option Bytes)) : Prop :=
  ∃ h : List Msg, h.length = E.length ∧ st.msgs = List.zipWith editMsg h E ∧ hookMsgs st.trace = h ++ inflight st

theorem ed_handle {st : State} {e : Ev} {E : List (Option Bytes)} (h : Ed st E) (hp : st.pending = .none) :
    Ed (handle st e) E := by
  obtain ⟨hl, h1, h2, h3⟩ := h
  have hin : inflight st = [] := by simp [inflight, hp]
  rw [hin, List.append_nil] at h3
  unfold handle
  split
  · cases e with
    | data src d =>
      simp only [handleData]
      split
      · exact ⟨hl, h1, by simpa using h2, by simp [inflight, h3]⟩
      · exact ⟨hl, h1, by simpa using h2, by simp [inflight, hp, h3]⟩
    | closed s =>
      refine ⟨hl, h1, ?_, ?_⟩
      · simp only [handleClosed, finish]
        repeat' split
        all_goals simpa using h2
      · simp only [handleClosed, finish]
        repeat' split
        all_goals simp [inflight, hp, h3]
  · exact ⟨hl, h1, h2, by simp [inflight, hp, h3]⟩

theorem ed_setq {st : State} (q : List Ev) (E : List (Option Bytes)) : Ed { st with queue := q } E ↔ Ed st E := by
  simp [Ed, inflight]

theorem ed_drain (q : List Ev) (st : State) (E : List (Option Bytes)) (h : Ed st E) : Ed (drain q st) E := by
  induction q generalizing st with
  | nil => simpa [drain, ed_setq] using h
  | cons e q ih =>
    unfold drain
    split
    · rename_i hp; exact ih _ (ed_handle h hp)
    · simpa [ed_setq] using h

theorem ed_deliver (st : State) (ev : Ev) (E : List (Option Bytes)) (h : Ed st E) : Ed (deliver st ev) E := by
  unfold deliver
  split
  · rename_i hp; exact ed_handle h hp
  · simpa [ed_setq] using h

/-- same command log (as far as message hooks go), same recorded messages, same pending command -/
theorem ed_same {st st' : State} {E : List (Option Bytes)} (h : Ed st E) (ht : hookMsgs st'.trace = hookMsgs st.trace)
    (hm : st'.msgs = st.msgs) (hp : inflight st' = inflight st) : Ed st' E := by
  obtain ⟨hl, h1, h2, h3⟩ := h
  exact ⟨hl, h1, by rw [hm]; exact h2, by rw [ht, hp]; exact h3⟩

/-- what an input adds to the list of addon decisions: only the completion of a MESSAGE hook counts -/
def editOf (st : State) (i : Input) : List (Option Bytes) :=
  if st.phase = .idle then [] else
  match st.pending, i with
  | .msgHook _ _, .hookDone e => [e]
  | .msgHook _ _, .hookKill => [none]
  | _, _ => []

theorem ed_msg_done {st : State} {E : List (Option Bytes)} {to : Side} {m : Msg} (h : Ed st E)
    (hp : st.pending = .msgHook to m) (e : Option Bytes) (st' : State)
    (ht : hookMsgs st'.trace = hookMsgs st.trace) (hm : st'.msgs = st.msgs ++ [editMsg m e])
    (hp' : st'.pending = .none) : Ed st' (E ++ [e]) := by
  obtain ⟨hl, h1, h2, h3⟩ := h
  have hin : inflight st = [m] := by simp [inflight, hp]
  refine ⟨hl ++ [m], by simp [h1], ?_, ?_⟩
  · rw [hm, h2, List.zipWith_append h1]; rfl
  · rw [ht, h3, hin]; simp [inflight, hp']

theorem inflight_of_not_msg {st : State} (h : ∀ to m, st.pending ≠ .msgHook to m) : inflight st = [] := by
  unfold inflight
  split
  · rename_i to m hp; exact absurd hp (h to m)
  · rfl

theorem ed_step (st : State) (i : Input) (E : List (Option Bytes)) (hI : TrInv st) (h : Ed st E) :
    Ed (step st i) (E ++ editOf st i) := by
  have hI' := hI
  unfold TrInv at hI'
  obtain ⟨-, -, -, -, -, -, -, -, -, t10, -, -, -⟩ := hI'
  -- a resumed generator that is not the message hook: no message hook fired, nothing recorded, then the queue is replayed
  have resume : ∀ (st1 : State), hookMsgs st1.trace = hookMsgs st.trace → st1.msgs = st.msgs →
      st1.pending = .none ∨ st1.pending = .connect ∨ st1.pending = .errorHook →
      (∀ to m, st.pending ≠ .msgHook to m) → Ed st1 E := by
    intro st1 ht hm hp1 hnm
    apply ed_same h ht hm
    rw [inflight_of_not_msg hnm]
    apply inflight_of_not_msg
    intro to m hh
    rcases hp1 with e | e | e <;> rw [e] at hh <;> cases hh
  unfold step
  split
  · rename_i hph
    have hpn : st.pending = .none := (t10 hph).1
    have hnm : ∀ to m, st.pending ≠ .msgHook to m := by intro to m hh; rw [hpn] at hh; cases hh
    cases i with
    | start =>
      simp only [editOf, hph, if_true, List.append_nil]
      split
      · exact ed_same h (by simp) rfl (by simp [inflight, inflight_of_not_msg hnm])
      · unfold enterRelayOrConnect
        split
        · exact ed_same h rfl rfl (by simp [inflight, hpn])
        · exact ed_same h (by simp) rfl (by simp [inflight, inflight_of_not_msg hnm])
    | _ => simpa [editOf, hph] using h
  · rename_i hph
    have hid : st.phase ≠ .idle := fun hh => hph hh
    cases i with
    | start => simpa [editOf, hid] using h
    | data src d => simpa [editOf, hid] using ed_deliver st _ E h
    | inject fc d => simpa [editOf, hid] using ed_deliver st _ E h
    | closed s full =>
      have hf := setConn_fields st s (if full = true then Conn.shut else { st.conn s with canRead := false })
      have := ed_deliver _ (.closed s) E (ed_same (st' := st.setConn s
        (if full = true then Conn.shut else { st.conn s with canRead := false })) h (by rw [hf.2.1]) hf.2.2.1
        (by simp [inflight, hf.2.2.2.1]))
      simpa [editOf, hid] using this
    | connectDone err =>
      have he : editOf st (.connectDone err) = [] := by
        simp only [editOf, hid, if_false]; split <;> simp_all
      rw [he, List.append_nil]
      simp only
      split
      · rename_i hp
        have hnm : ∀ to m, st.pending ≠ .msgHook to m := by intro to m hh; rw [hp] at hh; cases hh
        split
        · split
          · exact resume _ (by simp) rfl (Or.inr (Or.inr rfl)) hnm
          · apply ed_drain; exact resume _ (by simp [afterError]) (by simp [afterError]) (Or.inl (by simp [afterError])) hnm
        · apply ed_drain; exact resume _ rfl rfl (Or.inl rfl) hnm
      · exact h
    | hookDone edit =>
      simp only
      split
      · rename_i hp
        have hnm : ∀ to m, st.pending ≠ .msgHook to m := by intro to m hh; rw [hp] at hh; cases hh
        have he : editOf st (.hookDone edit) = [] := by simp [editOf, hid, hp]
        rw [he, List.append_nil]
        apply ed_drain
        unfold enterRelayOrConnect
        split
        · exact resume _ rfl rfl (Or.inl rfl) hnm
        · exact resume _ (by simp) rfl (Or.inr (Or.inl rfl)) hnm
      · rename_i hp
        have hnm : ∀ to m, st.pending ≠ .msgHook to m := by intro to m hh; rw [hp] at hh; cases hh
        have he : editOf st (.hookDone edit) = [] := by simp [editOf, hid, hp]
        rw [he, List.append_nil]
        apply ed_drain
        exact resume _ (by simp [afterError]) (by simp [afterError]) (Or.inl (by simp [afterError])) hnm
      · rename_i to m hp
        have he : editOf st (.hookDone edit) = [edit] := by simp [editOf, hid, hp]
        rw [he]
        apply ed_drain
        exact ed_msg_done h hp edit _ (by simp) (by simp) (by simp)
      · rename_i hp
        have hnm : ∀ to m, st.pending ≠ .msgHook to m := by intro to m hh; rw [hp] at hh; cases hh
        have he : editOf st (.hookDone edit) = [] := by simp [editOf, hid, hp]
        rw [he, List.append_nil]
        apply ed_drain
        exact resume _ rfl rfl (Or.inl rfl) hnm
      · rename_i _ _ hnot _
        have he : editOf st (.hookDone edit) = [] := by
          cases hp : st.pending with
          | msgHook to m => exact absurd hp (hnot to m)
          | _ => simp [editOf, hid, hp]
        rw [he, List.append_nil]; exact h
    | hookKill =>
      have hk := applyKill_fields st
      simp only
      split
      · rename_i hp
        have hnm : ∀ to m, st.pending ≠ .msgHook to m := by intro to m hh; rw [hp] at hh; cases hh
        have he : editOf st .hookKill = [] := by simp [editOf, hid, hp]
        rw [he, List.append_nil]
        apply ed_drain
        unfold enterRelayOrConnect
        split
        · exact resume _ (by simp [hk]) (by simp [hk]) (Or.inl rfl) hnm
        · exact resume _ (by simp [hk]) (by simp [hk]) (Or.inr (Or.inl rfl)) hnm
      · rename_i hp
        have hnm : ∀ to m, st.pending ≠ .msgHook to m := by intro to m hh; rw [hp] at hh; cases hh
        have he : editOf st .hookKill = [] := by simp [editOf, hid, hp]
        rw [he, List.append_nil]
        apply ed_drain
        exact resume _ (by simp [afterError, hk]) (by simp [afterError, hk]) (Or.inl (by simp [afterError])) hnm
      · rename_i to m hp
        have he : editOf st .hookKill = [none] := by simp [editOf, hid, hp]
        rw [he]
        apply ed_drain
        exact ed_msg_done h hp none _ (by simp [hk]) (by simp [hk, editMsg]) (by simp)
      · rename_i hp
        have hnm : ∀ to m, st.pending ≠ .msgHook to m := by intro to m hh; rw [hp] at hh; cases hh
        have he : editOf st .hookKill = [] := by simp [editOf, hid, hp]
        rw [he, List.append_nil]
        apply ed_drain
        exact resume _ (by simp [hk]) (by simp [hk]) (Or.inl rfl) hnm
      · rename_i _ _ hnot _
        have he : editOf st .hookKill = [] := by
          cases hp : st.pending with
          | msgHook to m => exact absurd hp (hnot to m)
          | _ => simp [editOf, hid, hp]
        rw [he, List.append_nil]; exact h

/-- the addon's decisions of a whole schedule, in order: one entry per completed message hook -/
def edits : State → List Input → List (Option Bytes)
  | _, [] => []
  | st, i :: is => editOf st i ++ edits (step st i) is

theorem ed_run (st : State) (is : List Input) (E : List (Option Bytes)) (hF : Full st) (h : Ed st E) :
    Ed (run st is) (E ++ edits st is) := by
  induction is generalizing st E with
  | nil => simpa [edits, run] using h
  | cons i t ih =>
    have := ih (step st i) (E ++ editOf st i) (full_step st i hF) (ed_step st i E hF.1 h)
    simpa [edits, run, List.append_assoc] using this

theorem ed_init (p : Proto) (f c : Bool) : Ed (init p f c) [] :=
  ⟨[], rfl, by simp [init], by simp [init, inflight]⟩

theorem zipWith_prefix {α β γ : Type} (f : α → β → γ) (h r : List α) (E : List β) (hl : h.length = E.length) :
    List.zipWith f (h ++ r) E = List.zipWith f h E := by
  have := List.zipWith_append (f := f) (l₁' := r) (l₂' := []) hl
  simpa using this

end MitmVerif.C29.Lemmas
