/-
  C29 — arrival order for `ignore=True` layers (no flow object): the SendData commands, followed by the data still in
  the pause queue (the layer only ever pauses for its OpenConnection), are exactly the data events that arrived.
-/
import MitmVerif.Lemmas.C29
set_option linter.unusedSimpArgs false
set_option linter.unusedVariables false
namespace MitmVerif.C29.Lemmas
open MitmVerif MitmVerif.C29

/-- the SendData commands so far, as (direction, payload) -/
def sentMsgs (tr : List Output) : List Msg :=
  tr.filterMap fun o => match o with
    | .send to d => some ⟨to == .server, d⟩
    | _ => none

@[simp] theorem sentMsgs_append (a b : List Output) : sentMsgs (a ++ b) = sentMsgs a ++ sentMsgs b := by
  simp [sentMsgs, List.filterMap_append]
@[simp] theorem sentMsgs_nil : sentMsgs [] = [] := rfl
@[simp] theorem sentMsgs_cons (o : Output) (t : List Output) :
    sentMsgs (o :: t) = (match o with | .send to d => [⟨to == .server, d⟩] | _ => []) ++ sentMsgs t := by
  cases o <;> simp [sentMsgs, List.filterMap_cons]

/-- arrival-order invariant (`ignore=True`: no flow, no hooks; data is forwarded at once): the message hooks fired so far, followed by the data still queued,
    are exactly the data/injected events that have arrived, in arrival order; after the end: a prefix of them -/
def ArrI (q : List Ev) (st : State) (A : List Msg) : Prop :=
  (st.phase = .idle → A = [] ∧ sentMsgs st.trace = []) ∧
  (st.phase = .start → sentMsgs st.trace ++ dataOf q = A) ∧
  (st.phase = .relay → sentMsgs st.trace ++ dataOf q = A) ∧
  (st.phase = .done → ∃ r, sentMsgs st.trace ++ r = A)

theorem arri_setq {st : State} (q q' : List Ev) (A : List Msg) : ArrI q' { st with queue := q } A ↔ ArrI q' st A := by
  simp [ArrI]

theorem arri_handle {q : List Ev} {st : State} {e : Ev} {A : List Msg} (hf : st.flow = false)
    (h : ArrI (e :: q) st A) (hp : st.pending = .none) (hstart : st.phase ≠ .start) (hidle : st.phase ≠ .idle) :
    ArrI q (handle st e) A := by
  obtain ⟨h0, h1, h2, h3⟩ := h
  unfold handle
  split
  · rename_i hph
    have h2' := h2 hph
    cases e with
    | data src d =>
      simp only [handleData, hf, Bool.false_eq_true, if_false]
      refine ⟨by simp [hph], by simp [hph], ?_, by simp [hph]⟩
      intro _
      have e : (src.other == Side.server) = (src == Side.client) := (side_flip src).symm
      rw [← h2']
      simp only [emit_trace, sentMsgs_append, sentMsgs_cons, sentMsgs_nil, dataOf_cons, e, List.append_assoc,
        List.append_nil, List.singleton_append]
    | closed s =>
      have h2'' : sentMsgs st.trace ++ dataOf q = A := by simpa using h2'
      have key : ∀ st' : State, sentMsgs st'.trace = sentMsgs st.trace →
          (st'.phase = .relay ∨ st'.phase = .done) → ArrI q st' A := by
        intro st' ht hph'
        refine ⟨?_, ?_, ?_, ?_⟩
        · intro h; rcases hph' with h' | h' <;> rw [h] at h' <;> cases h'
        · intro h; rcases hph' with h' | h' <;> rw [h] at h' <;> cases h'
        · intro _; rw [ht]; exact h2''
        · intro _; exact ⟨dataOf q, by rw [ht]; exact h2''⟩
      apply key
      · simp only [handleClosed, finish]
        repeat' split
        all_goals simp_all
      · simp only [handleClosed, finish]
        repeat' split
        all_goals simp_all
  · rename_i hne
    refine ⟨fun h => absurd h hidle, fun h => absurd h hstart, fun h => absurd h hne, ?_⟩
    intro hd
    obtain ⟨r, hr⟩ := h3 hd
    cases e with
    | data src d => exact ⟨r, hr⟩
    | closed s => exact ⟨r, hr⟩


theorem arri_drain (q : List Ev) (st : State) (A : List Msg) (hf : st.flow = false) (hI : TrInv st)
    (h : ArrI q st A) (hidle : st.phase ≠ .idle) :
    ArrI (drain q st).queue (drain q st) A := by
  induction q generalizing st with
  | nil => simpa [drain, arri_setq] using h
  | cons e q ih =>
    unfold drain
    split
    · rename_i hp
      have hstart : st.phase ≠ .start := by
        intro hs
        have := hI; unfold TrInv at this
        obtain ⟨-, -, -, -, -, -, -, -, h9, -⟩ := this
        exact h9 hs hp
      have hf' : (handle st e).flow = false := by rw [(handle_ext st e).1]; exact hf
      refine ih _ hf' (inv_handle hI hp) (arri_handle hf h hp hstart hidle) ?_
      unfold handle
      split
      · cases e with
        | data src d => simp only [handleData]; split <;> simp_all
        | closed s =>
          simp only [handleClosed, finish]
          repeat' split
          all_goals simp_all
      · exact hidle
    · simpa [arri_setq] using h


theorem arri_same {q : List Ev} {st st' : State} {A : List Msg} (h : ArrI q st A)
    (ht : sentMsgs st'.trace = sentMsgs st.trace) (hp : st'.phase = st.phase) : ArrI q st' A := by
  unfold ArrI at *; rw [ht, hp]; exact h

theorem arri_push_data {q : List Ev} {st : State} {A : List Msg} (h : ArrI q st A) (hidle : st.phase ≠ .idle)
    (src : Side) (d : Bytes) : ArrI (q ++ [.data src d]) st (A ++ [⟨src == .client, d⟩]) := by
  obtain ⟨h0, h1, h2, h3⟩ := h
  refine ⟨fun hh => absurd hh hidle, ?_, ?_, ?_⟩
  · intro hh; simp [← h1 hh, List.append_assoc]
  · intro hh; simp [← h2 hh, List.append_assoc]
  · intro hh; obtain ⟨r, hr⟩ := h3 hh; exact ⟨r ++ [⟨src == .client, d⟩], by rw [← hr, List.append_assoc]⟩

theorem arri_push_closed {q : List Ev} {st : State} {A : List Msg} (h : ArrI q st A) (s : Side) :
    ArrI (q ++ [.closed s]) st A := by
  obtain ⟨h0, h1, h2, h3⟩ := h
  exact ⟨h0, fun hh => by simpa using h1 hh, fun hh => by simpa using h2 hh, h3⟩

theorem arri_deliver (st : State) (ev : Ev) (A : List Msg) (hf : st.flow = false) (hI : TrInv st) (hQ : QInv st)
    (h : ArrI (st.queue ++ [ev]) st A) (hidle : st.phase ≠ .idle) :
    ArrI (deliver st ev).queue (deliver st ev) A := by
  unfold deliver
  split
  · rename_i hp
    have hq : st.queue = [] := hQ hp
    rw [hq] at h
    rw [handle_queue, hq]
    have hstart : st.phase ≠ .start := by
      intro hs
      have := hI; unfold TrInv at this
      obtain ⟨-, -, -, -, -, -, -, -, h9, -⟩ := this
      exact h9 hs hp
    exact arri_handle hf h hp hstart hidle
  · simpa [arri_setq] using h


theorem arri_step_aux (st : State) (i : Input) (A : List Msg) (hi : i ≠ .hookKill) (hf : st.flow = false)
    (hF : Full st) (h : ArrI st.queue st A) : ArrI (step st i).queue (step st i) (A ++ arrOf st i) := by
  obtain ⟨hI, hK, hQ⟩ := hF
  have hI' := hI
  unfold TrInv at hI'
  obtain ⟨-, -, -, -, t5, t6, t7, t8, t9, t10, -, -, -⟩ := hI'
  unfold step
  split
  · rename_i hph
    have hq : st.queue = [] := hQ (t10 hph).1
    obtain ⟨hA, hT⟩ := h.1 hph
    cases i with
    | start =>
      simp only [hf, Bool.false_eq_true, if_false, arrOf, hph, if_true, List.append_nil]
      unfold enterRelayOrConnect
      split
      · exact ⟨by simp, by simp, fun _ => by simp [hT, hA, hq], by simp⟩
      · exact ⟨by simp, fun _ => by simp [hT, hA, hq], by simp, by simp⟩
    | _ => simpa [arrOf, hph] using h
  · rename_i hph
    have hidle : st.phase ≠ .idle := fun hh => hph hh
    cases i with
    | hookKill => exact absurd rfl hi
    | start => simpa [arrOf, hidle] using h
    | data src d =>
      simp only [arrOf, hidle, if_false]
      exact arri_deliver st _ _ hf hI hQ (arri_push_data h hidle src d) hidle
    | inject fc d =>
      simp only [arrOf, hidle, if_false]
      have := arri_push_data h hidle (if fc = true then Side.client else Side.server) d
      have e : ((if fc = true then Side.client else Side.server) == Side.client) = fc := by cases fc <;> rfl
      rw [e] at this
      exact arri_deliver st _ _ hf hI hQ this hidle
    | closed s full =>
      simp only [arrOf, hidle, if_false, List.append_nil]
      have hc : (if full = true then Conn.shut else { st.conn s with canRead := false }).canRead = false := by
        split <;> rfl
      have hfld := setConn_fields st s (if full = true then Conn.shut else { st.conn s with canRead := false })
      have h1 := inv_setConn (s := s) hc hI
      refine arri_deliver _ _ _ (by rw [hfld.1]; exact hf) h1 ?_ ?_ (by rw [hfld.2.2.2.2.1]; exact hidle)
      · intro hp; rw [hfld.2.2.2.2.2.1]; exact hQ (by rw [← hfld.2.2.2.1]; exact hp)
      · rw [hfld.2.2.2.2.2.1]
        exact arri_push_closed (arri_same h (by rw [hfld.2.1]) hfld.2.2.2.2.1) s
    | hookDone edit =>
      simp only [arrOf, hidle, if_false, List.append_nil]
      have hI2 := hI
      unfold TrInv at hI2
      split
      · rename_i hp; have := (t5 hp).2; rw [hf] at this; cases this
      · rename_i hp; have := (t7 hp).2.1; rw [hf] at this; cases this
      · rename_i to m hp; have := (hI2.2.1 to m hp).2.1; rw [hf] at this; cases this
      · rename_i hp; have := (t8 hp).2; rw [hf] at this; cases this
      · simpa using h
    | connectDone err =>
      simp only [arrOf, hidle, if_false, List.append_nil]
      split
      · rename_i hp
        have hst := (t6 hp).1
        have hA := h.2.1 hst
        split
        · simp only [hf, Bool.false_eq_true, if_false]
          refine arri_drain _ _ _ ?_ ?_ ?_ ?_
          · simp [afterError, hf]
          · unfold afterError; inv_tac hI hK
          · exact ⟨by simp [afterError], by simp [afterError], by simp [afterError],
              fun _ => ⟨dataOf st.queue, by simpa [afterError] using hA⟩⟩
          · simp [afterError]
        · refine arri_drain _ _ _ ?_ ?_ ?_ ?_
          · simp [hf]
          · inv_tac hI hK
          · exact ⟨by simp, by simp, fun _ => by simpa using hA, by simp⟩
          · simp
      · simpa using h

theorem arri_applyKill {q : List Ev} {st : State} {A : List Msg} (h : ArrI q st A) : ArrI q (applyKill st) A :=
  arri_same h (by rw [(applyKill_fields st).2.1]) (applyKill_fields st).2.2.2.2.1

theorem arri_step (st : State) (i : Input) (A : List Msg) (hf : st.flow = false)
    (hF : Full st) (h : ArrI st.queue st A) : ArrI (step st i).queue (step st i) (A ++ arrOf st i) := by
  by_cases hi : i = .hookKill
  · subst hi
    have hz : arrOf st .hookKill = [] := by simp [arrOf]
    rw [hz, List.append_nil]
    rcases step_hookKill st with e | e
    · rw [e]; exact h
    · rw [e]
      have := arri_step_aux (applyKill st) (.hookDone none) A (by simp)
        (by rw [(applyKill_fields st).1]; exact hf) (full_applyKill st hF)
        (by rw [(applyKill_fields st).2.2.2.2.2.1]; exact arri_applyKill h)
      simpa [arrOf] using this
  · exact arri_step_aux st i A hi hf hF h


theorem arri_run (st : State) (is : List Input) (A : List Msg) (hf : st.flow = false) (hF : Full st)
    (h : ArrI st.queue st A) : ArrI (run st is).queue (run st is) (A ++ arrivals st is) := by
  induction is generalizing st A with
  | nil => simpa [arrivals, run] using h
  | cons i t ih =>
    have := ih (step st i) (A ++ arrOf st i) (by rw [(step_cfg st i).1]; exact hf) (full_step st i hF)
      (arri_step st i A hf hF h)
    simpa [arrivals, run, List.append_assoc] using this

theorem arri_init (p : Proto) (c : Bool) : ArrI (init p false c).queue (init p false c) [] := by
  simp [ArrI, init]


end MitmVerif.C29.Lemmas
