/-
  C29 — a layer that never got a server connection (connect refused / failed / still pending) has yielded nothing
  but set-up and error commands: no SendData, no message hook, no end hook — over whole histories.
-/
import MitmVerif.Lemmas.C29
set_option linter.unusedSimpArgs false
set_option linter.unusedVariables false
namespace MitmVerif.C29.Lemmas
open MitmVerif MitmVerif.C29

/-- the only commands a layer yields before (or without ever) having a server connection -/
def setupOnly : Output → Bool
  | .hook .start => true
  | .openServer => true
  | .hook .error => true
  | .close .client false => true
  | _ => false

/-- as long as no server connection was ever established: nothing but set-up / error commands, never relaying -/
def NC (st : State) : Prop :=
  st.connected = false →
    st.trace.all setupOnly = true ∧ st.phase ≠ .relay ∧ st.pending ≠ .endHook ∧ ∀ to m, st.pending ≠ .msgHook to m

theorem handle_connected (st : State) (e : Ev) : (handle st e).connected = st.connected := by
  unfold handle
  split
  · cases e with
    | data src d => simp only [handleData]; split <;> simp
    | closed s =>
      simp only [handleClosed, finish]
      repeat' split
      all_goals simp
  · rfl

theorem nc_handle {st : State} {e : Ev} (h : NC st) : NC (handle st e) := by
  intro hc
  rw [handle_connected] at hc
  obtain ⟨h1, h2, h3, h4⟩ := h hc
  have : handle st e = st := by
    unfold handle
    split
    · rename_i hr; exact absurd hr h2
    · rfl
  rw [this]; exact ⟨h1, h2, h3, h4⟩

theorem nc_setq {st : State} (q : List Ev) : NC { st with queue := q } ↔ NC st := by
  simp [NC]

theorem nc_drain (q : List Ev) (st : State) (h : NC st) : NC (drain q st) := by
  induction q generalizing st with
  | nil => simpa [drain, nc_setq] using h
  | cons e q ih =>
    unfold drain
    split
    · exact ih _ (nc_handle h)
    · simpa [nc_setq] using h

theorem nc_deliver (st : State) (ev : Ev) (h : NC st) : NC (deliver st ev) := by
  unfold deliver
  split
  · exact nc_handle h
  · simpa [nc_setq] using h

theorem nc_step_aux (st : State) (i : Input) (hi : i ≠ .hookKill) (hI : TrInv st) (h : NC st) : NC (step st i) := by
  have hI' := hI
  unfold TrInv at hI'
  obtain ⟨-, t2, -, -, t5, t6, t7, t8, t9, t10, t11, -, -⟩ := hI'
  unfold step
  split
  · rename_i hph
    have htr : st.trace = [] := (t10 hph).2.1
    cases i with
    | start =>
      simp only
      split
      · intro hc; simp [htr, setupOnly]
      · unfold enterRelayOrConnect
        split
        · intro hc; simp_all
        · intro hc; simp [htr, setupOnly]
    | _ => exact h
  · cases i with
    | hookKill => exact absurd rfl hi
    | start => exact h
    | data src d => exact nc_deliver _ _ h
    | inject fc d => exact nc_deliver _ _ h
    | closed s full =>
      apply nc_deliver
      have hf := setConn_fields st s (if full = true then Conn.shut else { st.conn s with canRead := false })
      intro hc
      rw [hf.2.2.2.2.2.2.1] at hc
      obtain ⟨h1, h2, h3, h4⟩ := h hc
      rw [hf.2.1, hf.2.2.2.2.1, hf.2.2.2.1]
      exact ⟨h1, h2, h3, h4⟩
    | hookDone edit =>
      simp only
      split
      · rename_i hp
        apply nc_drain
        unfold enterRelayOrConnect
        split
        · intro hc; simp_all
        · intro hc
          obtain ⟨h1, -, -, -⟩ := h (by simpa using hc)
          simp [h1, setupOnly, (t5 hp).1]
      · rename_i hp
        apply nc_drain
        intro hc
        obtain ⟨h1, -, -, -⟩ := h (by simpa [afterError] using hc)
        simp [afterError, h1, setupOnly]
      · rename_i to m hp
        apply nc_drain
        intro hc
        exact absurd hp ((h (by simpa using hc)).2.2.2 to m)
      · rename_i hp
        apply nc_drain
        intro hc
        exact absurd hp (h (by simpa using hc)).2.2.1
      · exact h
    | connectDone err =>
      simp only
      split
      · rename_i hp
        have hst := (t6 hp).1
        split
        · split
          · intro hc
            obtain ⟨h1, -, -, -⟩ := h (by simpa using hc)
            simp [h1, setupOnly, hst]
          · apply nc_drain
            intro hc
            obtain ⟨h1, -, -, -⟩ := h (by simpa [afterError] using hc)
            simp [afterError, h1, setupOnly]
        · apply nc_drain
          intro hc; simp at hc
      · exact h

theorem nc_applyKill {st : State} (h : NC st) : NC (applyKill st) := by
  have hf := applyKill_fields st
  intro hc
  rw [hf.2.2.2.2.2.2.1] at hc
  obtain ⟨h1, h2, h3, h4⟩ := h hc
  rw [hf.2.1, hf.2.2.2.2.1, hf.2.2.2.1]
  exact ⟨h1, h2, h3, h4⟩

theorem nc_step (st : State) (i : Input) (hF : Full st) (h : NC st) : NC (step st i) := by
  by_cases hi : i = .hookKill
  · subst hi
    rcases step_hookKill st with e | e
    · rw [e]; exact h
    · rw [e]; exact nc_step_aux _ _ (by simp) (full_applyKill st hF).1 (nc_applyKill h)
  · exact nc_step_aux st i hi hF.1 h

theorem nc_run (st : State) (is : List Input) (hF : Full st) (h : NC st) : NC (run st is) := by
  induction is generalizing st with
  | nil => exact h
  | cons i t ih => exact ih _ (full_step st i hF) (nc_step st i hF h)

theorem nc_init (p : Proto) (f c : Bool) : NC (init p f c) := by
  intro _; simp [init]

end MitmVerif.C29.Lemmas
