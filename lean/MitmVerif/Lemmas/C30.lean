/-
  C30 — invariants of the RawQuicLayer stream table (`ListInv`), what one `event_to_child` call may do to the
  stream it works on (`TSInv`), and their preservation by every step, for an arbitrary child layer.
-/
import MitmVerif.Model.C30
set_option linter.unusedSimpArgs false
namespace MitmVerif.C30.Lemmas
open MitmVerif MitmVerif.C30
open MitmVerif.C29 (Side Conn)

variable {σ : Type}

/-- every class of the allocator only ever hands out ids of its own class (`id % 4`) -/
def NextOK (n : Next) : Prop := n.n0 % 4 = 0 ∧ n.n1 % 4 = 1 ∧ n.n2 % 4 = 2 ∧ n.n3 % 4 = 3

theorem get_class {n : Next} (h : NextOK n) {i : Nat} (hi : i < 4) : n.get i % 4 = i := by
  obtain ⟨h0, h1, h2, h3⟩ := h
  unfold Next.get
  have : i = 0 ∨ i = 1 ∨ i = 2 ∨ i = 3 := by omega
  rcases this with rfl | rfl | rfl | rfl <;> simp [*]

theorem bump_get {n : Next} {i j : Nat} (hi : i < 4) (hj : j < 4) :
    (n.bump i).get j = if i = j then n.get j + 4 else n.get j := by
  have hi' : i = 0 ∨ i = 1 ∨ i = 2 ∨ i = 3 := by omega
  have hj' : j = 0 ∨ j = 1 ∨ j = 2 ∨ j = 3 := by omega
  rcases hi' with rfl | rfl | rfl | rfl <;> rcases hj' with rfl | rfl | rfl | rfl <;> simp [Next.bump, Next.get]

theorem bump_ok {n : Next} (h : NextOK n) (i : Nat) : NextOK (n.bump i) := by
  obtain ⟨h0, h1, h2, h3⟩ := h
  unfold Next.bump NextOK
  split
  · simp; omega
  · split
    · simp; omega
    · split
      · simp; omega
      · simp; omega

theorem allocIndex_lt (a b : Bool) : allocIndex a b < 4 := by
  cases a <;> cases b <;> simp [allocIndex]

/-- for a client-initiated id the allocator class used for its server stream is the id's own class -/
theorem allocIndex_client {c : Nat} (h : c % 2 = 0) : allocIndex true (isUni c) = c % 4 := by
  unfold allocIndex isUni
  by_cases h2 : 2 ≤ c % 4 <;> simp [h2] <;> omega

/-- for a server-initiated id the class used for its client-side stream is the id's own class -/
theorem allocIndex_server {c : Nat} (h : c % 2 = 1) : allocIndex false (isUni c) = c % 4 := by
  unfold allocIndex isUni
  by_cases h2 : 2 ≤ c % 4 <;> simp [h2] <;> omega

/-- (connection, stream id) a stream command is addressed to -/
def target : QOut → Option (Bool × Nat)
  | .data tc id _ _ => some (tc, id)
  | .reset tc id _ => some (tc, id)
  | .stop tc id => some (tc, id)
  | _ => none

/-- the command, if it is a stream command, is addressed to one of the two streams of the pair -/
def Good (cid : Nat) (sid : Option Nat) (o : QOut) : Prop :=
  ∀ tc id, target o = some (tc, id) → if tc = true then id = cid else sid = some id

theorem Good.mono {cid : Nat} {sid sid' : Option Nat} {o : QOut} (h : Good cid sid o)
    (hk : ∀ x, sid = some x → sid' = some x) : Good cid sid' o := by
  intro tc id ht
  have := h tc id ht
  cases tc <;> simp_all

/-- what one call of `event_to_child` may do to the bookkeeping of the stream it works on -/
structure TSInv (c0 : Nat) (sid0 : Option Nat) (n0 : Next) (ts : TS σ) : Prop where
  even : sid0 = none → c0 % 2 = 0
  cid : ts.s.cid = c0
  nok : NextOK ts.next
  mono : ∀ i, i < 4 → n0.get i ≤ ts.next.get i
  keep : ∀ x, sid0 = some x → ts.s.sid = some x
  fresh : sid0 = none → ∀ t, ts.s.sid = some t → t % 4 = c0 % 4 ∧ n0.get (t % 4) ≤ t ∧ t < ts.next.get (t % 4)
  good : ∀ o ∈ ts.out, Good ts.s.cid ts.s.sid o

theorem TSInv.congr {c0 : Nat} {sid0 : Option Nat} {n0 : Next} {ts ts' : TS σ} (h : TSInv c0 sid0 n0 ts)
    (h1 : ts'.s.cid = ts.s.cid) (h2 : ts'.s.sid = ts.s.sid) (h3 : ts'.next = ts.next) (h4 : ts'.out = ts.out) :
    TSInv c0 sid0 n0 ts' :=
  ⟨h.even, by rw [h1]; exact h.cid, by rw [h3]; exact h.nok, by rw [h3]; exact h.mono,
   by rw [h2]; exact h.keep, by rw [h2, h3]; exact h.fresh, by rw [h1, h2, h4]; exact h.good⟩

theorem TSInv.push {c0 : Nat} {sid0 : Option Nat} {n0 : Next} {ts : TS σ} (h : TSInv c0 sid0 n0 ts)
    {o : QOut} (ho : Good ts.s.cid ts.s.sid o) : TSInv c0 sid0 n0 (ts.push o) :=
  ⟨h.even, h.cid, h.nok, h.mono, h.keep, h.fresh, by
    intro o' hm
    simp only [TS.push, List.mem_append, List.mem_singleton] at hm
    rcases hm with hm | rfl
    · exact h.good o' hm
    · exact ho⟩

theorem TSInv.fail {c0 : Nat} {sid0 : Option Nat} {n0 : Next} {ts : TS σ} (h : TSInv c0 sid0 n0 ts) :
    TSInv c0 sid0 n0 ts.fail :=
  ⟨h.even, h.cid, h.nok, h.mono, h.keep, h.fresh, by
    intro o' hm
    simp only [TS.fail, List.mem_append, List.mem_singleton] at hm
    rcases hm with hm | rfl
    · exact h.good o' hm
    · intro tc id ht; simp [target] at ht⟩

@[simp] theorem setConn_cid (s : Stream σ) (side : Side) (c : Conn) : (s.setConn side c).cid = s.cid := by
  cases side <;> rfl
@[simp] theorem setConn_sid (s : Stream σ) (side : Side) (c : Conn) : (s.setConn side c).sid = s.sid := by
  cases side <;> rfl
@[simp] theorem setEnded_cid (s : Stream σ) (side : Side) : (s.setEnded side).cid = s.cid := by
  cases side <;> rfl
@[simp] theorem setEnded_sid (s : Stream σ) (side : Side) : (s.setEnded side).sid = s.sid := by
  cases side <;> rfl

section translate
variable (ops : ChildOps σ) {c0 : Nat} {sid0 : Option Nat} {n0 : Next}

theorem closeStreamLayer_inv (rec : TS σ → List C29.Output → TS σ)
    (hrec : ∀ ts outs, TSInv c0 sid0 n0 ts → TSInv c0 sid0 n0 (rec ts outs))
    {ts : TS σ} (h : TSInv c0 sid0 n0 ts) (side : Side) : TSInv c0 sid0 n0 (closeStreamLayer ops rec ts side) := by
  unfold closeStreamLayer
  split
  · exact h
  · simp only
    split
    · exact (h.congr (ts' := { ts with s := ts.s.setConn side _ }) (by simp) (by simp) rfl rfl).fail
    · split
      · exact h.congr (by simp) (by simp) rfl rfl
      · apply hrec
        exact h.congr (by simp) (by simp) rfl rfl

theorem good_of_idOf {ts : TS σ} {to : Side} {id : Nat} (h : ts.s.idOf to = some id) (o : QOut)
    (ho : target o = some (toClient to, id)) : Good ts.s.cid ts.s.sid o := by
  intro tc id' ht
  rw [ho] at ht
  have e1 : (Side.server == Side.client) = false := rfl
  have e2 : (Side.client == Side.client) = true := rfl
  cases to <;> cases tc <;> simp_all [Stream.idOf, toClient]

theorem procOne_inv (rec : TS σ → List C29.Output → TS σ)
    (hrec : ∀ ts outs, TSInv c0 sid0 n0 ts → TSInv c0 sid0 n0 (rec ts outs))
    {ts : TS σ} (h : TSInv c0 sid0 n0 ts) (o : C29.Output) : TSInv c0 sid0 n0 (procOne ops rec ts o) := by
  unfold procOne
  split
  · exact h
  · cases o with
    | hook hk => exact h.push (by intro tc id ht; simp [target] at ht)
    | send to d =>
      simp only
      split
      · exact h.fail
      · rename_i id hid
        split
        · exact h.push (good_of_idOf hid _ rfl)
        · exact h
    | close to half =>
      simp only
      split
      · exact h.fail
      · rename_i id hid
        have h1 : ∃ ts1 : TS σ, ts1 =
            (if (ts.s.conn to).canWrite = true then
              ({ ts with s := ts.s.setConn to { ts.s.conn to with canWrite := false } } : TS σ).push
                (.data (toClient to) id [] true)
            else ts) ∧ TSInv c0 sid0 n0 ts1 ∧ ts1.s.idOf to = some id := by
          refine ⟨_, rfl, ?_, ?_⟩
          · split
            · refine TSInv.push (ts := { ts with s := ts.s.setConn to { ts.s.conn to with canWrite := false } })
                (h.congr (by simp) (by simp) rfl rfl) ?_
              apply good_of_idOf (to := to) (id := id) _ _ rfl
              cases to <;> simpa [Stream.idOf, Stream.setConn] using hid
            · exact h
          · split
            · cases to <;> simpa [Stream.idOf, Stream.setConn, TS.push] using hid
            · exact hid
        obtain ⟨ts1, e1, h1, hid1⟩ := h1
        rw [← e1]
        split
        · exact h1
        · apply closeStreamLayer_inv ops rec hrec
          split
          · exact h1.push (good_of_idOf hid1 _ rfl)
          · exact h1
    | openServer =>
      simp only
      split
      · exact h.fail
      · rename_i hsid
        apply hrec
        have hs0 : sid0 = none := by
          cases hs : sid0 with
          | none => rfl
          | some x => have := h.keep x hs; rw [hsid] at this; cases this
        have hc : ts.s.cid % 2 = 0 := by rw [h.cid]; exact h.even hs0
        have hi := allocIndex_lt true (isUni ts.s.cid)
        have hcls : ts.next.get (allocIndex true (isUni ts.s.cid)) % 4 = ts.s.cid % 4 := by
          rw [get_class h.nok hi, allocIndex_client hc]
        refine ⟨h.even, h.cid, bump_ok h.nok _, ?_, ?_, ?_, ?_⟩
        · intro j hj
          have := h.mono j hj
          simp only [bump_get hi hj]
          split <;> omega
        · intro x hx; rw [hs0] at hx; cases hx
        · intro _ t ht
          simp only [Option.some.injEq] at ht
          subst ht
          refine ⟨by rw [hcls, h.cid], ?_, ?_⟩
          · rw [hcls, ← allocIndex_client hc]; exact h.mono _ hi
          · rw [hcls, ← allocIndex_client hc, bump_get hi hi]; simp
        · intro o ho
          exact (h.good o ho).mono (by intro x hx; simp [hsid] at hx)

theorem translate_inv (fuel : Nat) : ∀ (ts : TS σ) (outs : List C29.Output),
    TSInv c0 sid0 n0 ts → TSInv c0 sid0 n0 (translate ops fuel ts outs) := by
  induction fuel with
  | zero =>
    intro ts outs h
    cases outs with
    | nil => exact h
    | cons o t =>
      simp only [translate]
      split
      · exact h
      · exact h.fail
  | succ n ih =>
    intro ts outs h
    simp only [translate]
    induction outs generalizing ts with
    | nil => exact h
    | cons o t iht => exact iht _ (procOne_inv ops _ ih h o)

theorem eventToChild_inv {ts : TS σ} (h : TSInv c0 sid0 n0 ts) (i : C29.Input) :
    TSInv c0 sid0 n0 (eventToChild ops ts i) := by
  unfold eventToChild
  split
  · exact h
  · exact translate_inv ops _ _ _ (h.congr rfl rfl rfl rfl)

theorem closeLayer_inv {ts : TS σ} (h : TSInv c0 sid0 n0 ts) (side : Side) :
    TSInv c0 sid0 n0 (closeLayer ops ts side) :=
  closeStreamLayer_inv ops _ (translate_inv ops _) h side

end translate
/-! ### the table of stream layers -/

def StreamOK (n : Next) (s : Stream σ) : Prop :=
  (∀ t, s.sid = some t → t % 4 = s.cid % 4) ∧
  (s.sid = none → s.cid % 2 = 0) ∧
  (s.cid % 2 = 1 → s.cid < n.get (s.cid % 4)) ∧
  (∀ t, s.sid = some t → t % 2 = 0 → t < n.get (t % 4))

def cidNe (a b : Stream σ) : Prop := a.cid ≠ b.cid
def sidNe (a b : Stream σ) : Prop := ∀ t, a.sid = some t → b.sid ≠ some t

def ListInv (l : List (Stream σ)) (n : Next) : Prop :=
  NextOK n ∧ (∀ s ∈ l, StreamOK n s) ∧ l.Pairwise cidNe ∧ l.Pairwise sidNe

theorem tsinv_start {s : Stream σ} {n : Next} (hn : NextOK n) (hs : StreamOK n s) :
    TSInv s.cid s.sid n ({ s := s, next := n, out := [], halt := false } : TS σ) :=
  ⟨hs.2.1, rfl, hn, fun _ _ => Nat.le_refl _, fun _ hx => hx,
   fun h t ht => by simp [h] at ht, fun o ho => by simp at ho⟩

theorem StreamOK.mono {n n' : Next} {s : Stream σ} (h : StreamOK n s) (hm : ∀ i, i < 4 → n.get i ≤ n'.get i) :
    StreamOK n' s := by
  obtain ⟨h1, h2, h3, h4⟩ := h
  refine ⟨h1, h2, ?_, ?_⟩
  · intro ho
    exact Nat.lt_of_lt_of_le (h3 ho) (hm _ (Nat.mod_lt _ (by decide)))
  · intro t ht he
    exact Nat.lt_of_lt_of_le (h4 t ht he) (hm _ (Nat.mod_lt _ (by decide)))

theorem streamOK_after {n : Next} {s : Stream σ} {ts : TS σ} (hs : StreamOK n s) (ht : TSInv s.cid s.sid n ts) :
    StreamOK ts.next ts.s := by
  obtain ⟨h1, h2, h3, h4⟩ := hs
  have hc := ht.cid
  cases hsid : s.sid with
  | some x =>
    have hk := ht.keep x hsid
    refine ⟨?_, ?_, ?_, ?_⟩
    · intro t htt; rw [hk] at htt; cases htt; rw [hc]; exact h1 x hsid
    · intro hn; rw [hk] at hn; cases hn
    · intro ho; rw [hc] at ho ⊢
      exact Nat.lt_of_lt_of_le (h3 ho) (ht.mono _ (Nat.mod_lt _ (by decide)))
    · intro t htt he; rw [hk] at htt; cases htt
      exact Nat.lt_of_lt_of_le (h4 x hsid he) (ht.mono _ (Nat.mod_lt _ (by decide)))
  | none =>
    have hf := ht.fresh hsid
    refine ⟨?_, ?_, ?_, ?_⟩
    · intro t htt; rw [hc]; exact (hf t htt).1
    · intro _; rw [hc]; exact h2 hsid
    · intro ho; rw [hc] at ho ⊢
      exact Nat.lt_of_lt_of_le (h3 ho) (ht.mono _ (Nat.mod_lt _ (by decide)))
    · intro t htt _; exact (hf t htt).2.2

theorem sidNe_after {n : Next} {a s : Stream σ} {ts : TS σ} (ha : StreamOK n a) (hs : StreamOK n s)
    (hne : sidNe a s) (ht : TSInv s.cid s.sid n ts) : sidNe a ts.s ∧ sidNe ts.s a := by
  have key : ∀ u, a.sid = some u → ts.s.sid ≠ some u := by
    intro u hu heq
    cases hsid : s.sid with
    | some x =>
      have hk := ht.keep x hsid
      rw [hk] at heq; cases heq
      exact hne u hu hsid
    | none =>
      obtain ⟨f1, f2, f3⟩ := ht.fresh hsid u heq
      have hev : s.cid % 2 = 0 := hs.2.1 hsid
      have hue : u % 2 = 0 := by omega
      have := ha.2.2.2 u hu hue
      omega
  exact ⟨key, fun t h1 h2 => key t h2 h1⟩

theorem inv_replace {pre post : List (Stream σ)} {s : Stream σ} {n : Next} {ts : TS σ}
    (h : ListInv (pre ++ s :: post) n) (ht : TSInv s.cid s.sid n ts) :
    ListInv (pre ++ ts.s :: post) ts.next := by
  obtain ⟨hn, hall, hc, hs⟩ := h
  have hsok : StreamOK n s := hall s (by simp)
  refine ⟨ht.nok, ?_, ?_, ?_⟩
  · intro x hx
    simp only [List.mem_append, List.mem_cons] at hx
    rcases hx with hx | rfl | hx
    · exact (hall x (by simp [hx])).mono ht.mono
    · exact streamOK_after hsok ht
    · exact (hall x (by simp [hx])).mono ht.mono
  · rw [List.pairwise_append, List.pairwise_cons] at hc ⊢
    obtain ⟨c1, ⟨c2, c3⟩, c4⟩ := hc
    refine ⟨c1, ⟨?_, c3⟩, ?_⟩
    · intro b hb; unfold cidNe; rw [ht.cid]; exact c2 b hb
    · intro a ha b hb
      simp only [List.mem_cons] at hb
      rcases hb with rfl | hb
      · unfold cidNe; rw [ht.cid]; exact c4 a ha s (by simp)
      · exact c4 a ha b (by simp [hb])
  · rw [List.pairwise_append, List.pairwise_cons] at hs ⊢
    obtain ⟨s1, ⟨s2, s3⟩, s4⟩ := hs
    refine ⟨s1, ⟨?_, s3⟩, ?_⟩
    · intro b hb
      have hbs : sidNe b s := fun t h1 h2 => s2 b hb t h2 h1
      exact (sidNe_after (hall b (by simp [hb])) hsok hbs ht).2
    · intro a ha b hb
      simp only [List.mem_cons] at hb
      rcases hb with rfl | hb
      · exact (sidNe_after (hall a (by simp [ha])) hsok (s4 a ha s (by simp)) ht).1
      · exact s4 a ha b (by simp [hb])

theorem split_at {α : Type} {l : List α} {i : Nat} {s : α} (h : l[i]? = some s) :
    ∃ pre post, l = pre ++ s :: post ∧ ∀ x, l.set i x = pre ++ x :: post := by
  induction l generalizing i with
  | nil => simp at h
  | cons a t ih =>
    cases i with
    | zero =>
      simp at h; subst h
      exact ⟨[], t, rfl, fun x => rfl⟩
    | succ j =>
      simp at h
      obtain ⟨pre, post, e, hs⟩ := ih h
      exact ⟨a :: pre, post, by rw [e]; rfl, fun x => by simp [List.set, hs x]⟩

/-- rebase: forget the history of the current call -/
theorem TSInv.rebase {c0 : Nat} {sid0 : Option Nat} {n0 : Next} {ts : TS σ} (h : TSInv c0 sid0 n0 ts) :
    TSInv ts.s.cid ts.s.sid ts.next ({ ts with out := [] } : TS σ) := by
  refine ⟨?_, rfl, h.nok, fun _ _ => Nat.le_refl _, fun _ hx => hx, fun hn t ht => ?_, fun o ho => by simp at ho⟩
  · intro hn
    rw [h.cid]
    apply h.even
    cases hs : sid0 with
    | none => rfl
    | some x => have := h.keep x hs; rw [hn] at this; cases this
  · rw [hn] at ht; cases ht

/-- compose two stages of one call; `f` post-processes the commands of the second stage without
    changing where they are addressed -/
theorem TSInv.trans {c0 : Nat} {sid0 : Option Nat} {n0 : Next} {ts ts' : TS σ} (h : TSInv c0 sid0 n0 ts)
    (h' : TSInv ts.s.cid ts.s.sid ts.next ts') (f : QOut → QOut) (hf : ∀ o, target (f o) = target o) :
    TSInv c0 sid0 n0 ({ ts' with out := ts.out ++ ts'.out.map f } : TS σ) := by
  have hkeep : ∀ x, ts.s.sid = some x → ts'.s.sid = some x := h'.keep
  refine ⟨h.even, by simpa [h.cid] using h'.cid, h'.nok, ?_, ?_, ?_, ?_⟩
  · intro i hi; exact Nat.le_trans (h.mono i hi) (h'.mono i hi)
  · intro x hx; exact hkeep x (h.keep x hx)
  · intro hn t ht
    simp only at ht
    cases hs : ts.s.sid with
    | some x =>
      have := hkeep x hs; rw [this] at ht
      have hxt : x = t := by simpa using ht
      subst hxt
      obtain ⟨a, b, c⟩ := h.fresh hn x hs
      exact ⟨a, b, Nat.lt_of_lt_of_le c (h'.mono _ (Nat.mod_lt _ (by decide)))⟩
    | none =>
      obtain ⟨a, b, c⟩ := h'.fresh hs t ht
      refine ⟨by rw [a, h.cid], ?_, c⟩
      exact Nat.le_trans (h.mono _ (Nat.mod_lt _ (by decide))) b
  · intro o ho
    simp only [List.mem_append, List.mem_map] at ho
    rcases ho with ho | ⟨o', ho', rfl⟩
    · have := (h.good o ho).mono hkeep
      simpa [h'.cid] using this
    · have := h'.good o' ho'
      intro tc id ht; rw [hf] at ht; exact this tc id ht

theorem target_resetMap (oid : Option Nat) (code : Nat) (o : QOut) : target (resetMap oid code o) = target o := by
  cases o with
  | data tc id d fin =>
    simp only [resetMap]
    split <;> rfl
  | _ => rfl

def MuxInv (m : Mux σ) : Prop := ListInv m.streams m.next

/-- every registered layer is still registered afterwards, with the same client id and (if it had one) the same server id -/
def Stable (l l' : List (Stream σ)) : Prop :=
  ∀ x ∈ l, ∃ x' ∈ l', x'.cid = x.cid ∧ ∀ t, x.sid = some t → x'.sid = some t

theorem Stable.refl (l : List (Stream σ)) : Stable l l := fun x hx => ⟨x, hx, rfl, fun _ h => h⟩
theorem Stable.trans {a b c : List (Stream σ)} (h1 : Stable a b) (h2 : Stable b c) : Stable a c := by
  intro x hx
  obtain ⟨y, hy, e1, k1⟩ := h1 x hx
  obtain ⟨z, hz, e2, k2⟩ := h2 y hy
  exact ⟨z, hz, e2.trans e1, fun t ht => k2 t (k1 t ht)⟩
theorem Stable.append_right (l : List (Stream σ)) (x : Stream σ) : Stable l (l ++ [x]) :=
  fun y hy => ⟨y, by simp [hy], rfl, fun _ h => h⟩

/-- working on one registered stream layer: the table stays consistent, the layer keeps its client id and
    (once set) its server id, and every stream command produced is addressed to that pair -/
theorem withStream_spec {m : Mux σ} {i : Nat} {s : Stream σ} {body : TS σ → TS σ}
    (hi : m.streams[i]? = some s) (hinv : MuxInv m)
    (hbody : ∀ ts, TSInv s.cid s.sid m.next ts → TSInv s.cid s.sid m.next (body ts)) :
    MuxInv (m.withStream i s body).1 ∧ Stable m.streams (m.withStream i s body).1.streams ∧
    ∃ s' ∈ (m.withStream i s body).1.streams, s'.cid = s.cid ∧ (∀ x, s.sid = some x → s'.sid = some x) ∧
      ∀ o ∈ (m.withStream i s body).2, Good s'.cid s'.sid o := by
  obtain ⟨pre, post, e, hset⟩ := split_at hi
  have hl : ListInv (pre ++ s :: post) m.next := by rw [← e]; exact hinv
  have hs : StreamOK m.next s := hl.2.1 s (by simp)
  have ht := hbody _ (tsinv_start hl.1 hs)
  have := inv_replace hl ht
  unfold Mux.withStream
  simp only [hset]
  refine ⟨this, ?_, _, by simp, ht.cid, ht.keep, ht.good⟩
  intro x hx
  rw [e] at hx
  simp only [List.mem_append, List.mem_cons] at hx
  rcases hx with hx | rfl | hx
  · exact ⟨x, by simp [hx], rfl, fun _ h => h⟩
  · exact ⟨_, by simp, ht.cid, ht.keep⟩
  · exact ⟨x, by simp [hx], rfl, fun _ h => h⟩

theorem bump_mono (n : Next) {i : Nat} (hi : i < 4) : ∀ j, j < 4 → n.get j ≤ (n.bump i).get j := by
  intro j hj; rw [bump_get hi hj]; split <;> omega

theorem isClientInit_true {id : Nat} (h : isClientInit id = true) : id % 2 = 0 := by
  simpa [isClientInit] using h
theorem isClientInit_false {id : Nat} (h : isClientInit id = false) : id % 2 = 1 := by
  have : ¬ id % 2 = 0 := by simpa [isClientInit] using h
  omega

/-- registering a new layer for a stream the client opened -/
theorem inv_append_client {l : List (Stream σ)} {n : Next} {id : Nat} {snew : Stream σ} (hinv : ListInv l n)
    (hfind : ∀ x ∈ l, (x.cid == id) = false) (hpar : id % 2 = 0) (hc : snew.cid = id) (hs : snew.sid = none) :
    ListInv (l ++ [snew]) n := by
  obtain ⟨hn, hall, hcid, hsid⟩ := hinv
  refine ⟨hn, ?_, ?_, ?_⟩
  · intro x hx
    simp only [List.mem_append, List.mem_singleton] at hx
    rcases hx with hx | rfl
    · exact hall x hx
    · refine ⟨?_, ?_, ?_, ?_⟩
      · intro t ht; rw [hs] at ht; cases ht
      · intro _; rw [hc]; exact hpar
      · intro ho; rw [hc] at ho; omega
      · intro t ht; rw [hs] at ht; cases ht
  · rw [List.pairwise_append]
    refine ⟨hcid, List.pairwise_singleton _ _, ?_⟩
    intro a ha b hb
    simp only [List.mem_singleton] at hb; subst hb
    have := hfind a ha
    unfold cidNe; rw [hc]; simpa using this
  · rw [List.pairwise_append]
    refine ⟨hsid, List.pairwise_singleton _ _, ?_⟩
    intro a ha b hb
    simp only [List.mem_singleton] at hb; subst hb
    intro t _; rw [hs]; simp

/-- registering a new layer for a stream the server opened: the client-side id comes from the allocator -/
theorem inv_append_server {l : List (Stream σ)} {n : Next} {id : Nat} {snew : Stream σ} (hinv : ListInv l n)
    (hfind : ∀ x ∈ l, (x.sid == some id) = false) (hpar : id % 2 = 1)
    (hc : snew.cid = n.get (allocIndex false (isUni id))) (hs : snew.sid = some id) :
    ListInv (l ++ [snew]) (n.bump (allocIndex false (isUni id))) := by
  obtain ⟨hn, hall, hcid, hsid⟩ := hinv
  have hidx : allocIndex false (isUni id) = id % 4 := allocIndex_server hpar
  have hlt : id % 4 < 4 := Nat.mod_lt _ (by decide)
  rw [hidx] at hc ⊢
  have hcls : n.get (id % 4) % 4 = id % 4 := get_class hn hlt
  refine ⟨bump_ok hn _, ?_, ?_, ?_⟩
  · intro x hx
    simp only [List.mem_append, List.mem_singleton] at hx
    rcases hx with hx | rfl
    · exact (hall x hx).mono (bump_mono n hlt)
    · refine ⟨?_, ?_, ?_, ?_⟩
      · intro t ht; rw [hs] at ht; cases ht; rw [hc, hcls]
      · intro h; rw [hs] at h; cases h
      · intro _; rw [hc, hcls, bump_get hlt hlt]; simp
      · intro t ht he; rw [hs] at ht; cases ht; omega
  · rw [List.pairwise_append]
    refine ⟨hcid, List.pairwise_singleton _ _, ?_⟩
    intro a ha b hb
    simp only [List.mem_singleton] at hb; subst hb
    unfold cidNe; rw [hc]
    intro heq
    have hao := hall a ha
    have hodd : a.cid % 2 = 1 := by rw [heq]; omega
    have := hao.2.2.1 hodd
    rw [heq, hcls] at this
    omega
  · rw [List.pairwise_append]
    refine ⟨hsid, List.pairwise_singleton _ _, ?_⟩
    intro a ha b hb
    simp only [List.mem_singleton] at hb; subst hb
    intro t ht; rw [hs]
    have := hfind a ha
    rw [ht] at this
    intro h; apply (by simpa using this : ¬ t = id); simpa using h.symm

/-- a body of a stream event may only do what `event_to_child` / `close_stream_layer` do -/
def BodyOK (body : TS σ → TS σ) : Prop :=
  ∀ c0 sid0 n0 ts, TSInv c0 sid0 n0 ts → TSInv c0 sid0 n0 (body ts)

/-- outcome of one stream-level event: either the assertion guarding registration failed (nothing changed), or
    there is a layer registered under the event's id and every stream command is addressed to its pair -/
def Routed (m' : Mux σ) (outs : List QOut) (fromClient : Bool) (id : Nat) : Prop :=
  ∃ s' ∈ m'.streams, (if fromClient = true then s'.cid = id else s'.sid = some id) ∧
    ∀ o ∈ outs, Good s'.cid s'.sid o

/-- the table after a new layer has been registered -/
abbrev _root_.MitmVerif.C30.Mux.reg (m : Mux σ) (snew : Stream σ) (fc : Bool) (id : Nat) : Mux σ :=
  { m with streams := m.streams ++ [snew], next := if fc = true then m.next else m.next.bump (allocIndex false (isUni id)) }

theorem streamEvent_new (ops : ChildOps σ) {m : Mux σ} (fc : Bool) (id : Nat) {body : TS σ → TS σ}
    (snew : Stream σ) (hinv : MuxInv m) (hbody : BodyOK body)
    (hnone : ∀ x ∈ m.streams, (if fc = true then x.cid == id else x.sid == some id) = false)
    (hpar' : isClientInit id = fc)
    (hc : snew.cid = (if fc = true then id else m.next.get (allocIndex false (isUni id))))
    (hs : snew.sid = (if fc = true then none else some id)) :
    MuxInv ((m.reg snew fc id).withStream
        ((m.streams ++ [snew]).length - 1) snew (fun ts => body (eventToChild ops ts .start))).1 ∧
    Stable m.streams ((m.reg snew fc id).withStream
        ((m.streams ++ [snew]).length - 1) snew (fun ts => body (eventToChild ops ts .start))).1.streams ∧
    Routed ((m.reg snew fc id).withStream
        ((m.streams ++ [snew]).length - 1) snew (fun ts => body (eventToChild ops ts .start))).1
      ((m.reg snew fc id).withStream
        ((m.streams ++ [snew]).length - 1) snew (fun ts => body (eventToChild ops ts .start))).2 fc id := by
  have hinv' : MuxInv (m.reg snew fc id) := by
    show ListInv _ _
    cases fc
    · simp at hc hs hnone ⊢
      exact inv_append_server hinv (by intro x hx; simpa using hnone x hx) (isClientInit_false hpar') hc hs
    · simp at hc hs hnone ⊢
      exact inv_append_client hinv (by intro x hx; simpa using hnone x hx) (isClientInit_true hpar') hc hs
  have hget : (m.reg snew fc id).streams[
        (m.streams ++ [snew]).length - 1]? = some snew := by
    simp
  obtain ⟨h1, hst, s', hm, hc', hk, hg⟩ := withStream_spec hget hinv'
    (body := fun ts => body (eventToChild ops ts .start))
    (fun ts h => hbody _ _ _ _ (eventToChild_inv ops h _))
  refine ⟨h1, (Stable.append_right m.streams snew).trans hst, s', hm, ?_, hg⟩
  cases fc
  · simp at hs ⊢; exact hk _ hs
  · simp at hc ⊢; rw [hc', hc]

theorem streamEvent_spec (ops : ChildOps σ) {m : Mux σ} (fc : Bool) (id : Nat) {body : TS σ → TS σ}
    (hinv : MuxInv m) (hbody : BodyOK body) :
    MuxInv (streamEvent ops m fc id body).1 ∧ Stable m.streams (streamEvent ops m fc id body).1.streams ∧
    (((streamEvent ops m fc id body).1.streams = m.streams ∧ (streamEvent ops m fc id body).2 = [.fault]) ∨
      Routed (streamEvent ops m fc id body).1 (streamEvent ops m fc id body).2 fc id) := by
  unfold streamEvent
  split
  · rename_i i hfind
    split
    · rename_i s hs
      obtain ⟨h1, hst, s', hm, hc, hk, hg⟩ := withStream_spec hs hinv (fun ts h => hbody _ _ _ ts h)
      refine ⟨h1, hst, Or.inr ⟨s', hm, ?_, hg⟩⟩
      unfold Mux.find at hfind
      obtain ⟨hlt, hp, -⟩ := List.findIdx?_eq_some_iff_getElem.1 hfind
      have hs' : m.streams[i] = s := by
        have := List.getElem?_eq_some_iff.1 hs
        obtain ⟨_, e⟩ := this; exact e
      rw [hs'] at hp
      cases fc
      · simp at hp ⊢; exact hk _ hp
      · simp at hp ⊢; rw [hc]; exact hp
    · exact ⟨hinv, Stable.refl _, Or.inl ⟨rfl, rfl⟩⟩
  · rename_i hfind
    split
    · exact ⟨hinv, Stable.refl _, Or.inl ⟨rfl, rfl⟩⟩
    · rename_i hpar
      have hpar' : isClientInit id = fc := by
        cases h1 : isClientInit id <;> cases fc <;> simp_all
      unfold Mux.find at hfind
      have hnone := List.findIdx?_eq_none_iff.1 hfind
      have key := fun snew hc hs => streamEvent_new ops fc id (body := body) snew hinv hbody hnone hpar' hc hs
      refine ⟨(key _ ?_ ?_).1, (key _ ?_ ?_).2.1, Or.inr (key _ ?_ ?_).2.2⟩ <;> rfl

theorem fanOut_spec (ops : ChildOps σ) (side : Side) : ∀ (l pre : List (Stream σ)) (n : Next) (halt : Bool),
    ListInv (pre ++ l) n →
    ListInv (pre ++ (fanOut ops side l n halt).1) (fanOut ops side l n halt).2.1 ∧
    Stable l (fanOut ops side l n halt).1 ∧
    ∀ o ∈ (fanOut ops side l n halt).2.2.1, ∃ s' ∈ (fanOut ops side l n halt).1, Good s'.cid s'.sid o := by
  intro l
  induction l with
  | nil => intro pre n halt h; exact ⟨by simpa [fanOut] using h, by simp [fanOut, Stable], by simp [fanOut]⟩
  | cons s rest ih =>
    intro pre n halt h
    unfold fanOut
    split
    · exact ⟨by simpa using h, Stable.refl _, by simp⟩
    · simp only
      have hs : StreamOK n s := h.2.1 s (by simp)
      have h1 : TSInv s.cid s.sid n
          ({ s := s.setConn side { s.conn side with canWrite := false }, next := n, out := [], halt := false } : TS σ) :=
        (tsinv_start h.1 hs).congr (by simp) (by simp) rfl rfl
      have ht := closeLayer_inv ops h1 side
      have hl := inv_replace h ht
      generalize closeLayer ops
        ({ s := s.setConn side { s.conn side with canWrite := false }, next := n, out := [], halt := false } : TS σ)
        side = ts at ht hl ⊢
      have := ih (pre ++ [ts.s]) ts.next ts.halt (by simpa using hl)
      obtain ⟨i1, ist, i2⟩ := this
      refine ⟨by simpa using i1, ?_, ?_⟩
      · intro x hx
        simp only [List.mem_cons] at hx
        rcases hx with rfl | hx
        · exact ⟨ts.s, by simp, ht.cid, ht.keep⟩
        · obtain ⟨x', hx', e, k⟩ := ist x hx
          exact ⟨x', by simp [hx'], e, k⟩
      intro o ho
      simp only [List.mem_append, List.mem_filter] at ho
      rcases ho with ⟨ho, -⟩ | ho
      · exact ⟨ts.s, by simp, ht.good o ho⟩
      · obtain ⟨s', hm, hg⟩ := i2 o ho
        exact ⟨s', by simp [hm], hg⟩

theorem dgramEffect_table (m : Mux σ) (o : C29.Output) :
    (dgramEffect m o).streams = m.streams ∧ (dgramEffect m o).next = m.next := by
  unfold dgramEffect
  split <;> simp

theorem applyDgramEffects_table (m : Mux σ) (outs : List C29.Output) :
    (applyDgramEffects m outs).streams = m.streams ∧ (applyDgramEffects m outs).next = m.next := by
  unfold applyDgramEffects
  induction outs generalizing m with
  | nil => simp
  | cons o t ih =>
    simp only [List.foldl_cons]
    rw [(ih _).1, (ih _).2]
    exact dgramEffect_table m o

theorem dgramEvent_table (ops : ChildOps σ) (m : Mux σ) (i : C29.Input) (drop : C29.Output → Bool) :
    (dgramEvent ops m i drop).1.streams = m.streams ∧ (dgramEvent ops m i drop).1.next = m.next ∧
    ∀ o ∈ (dgramEvent ops m i drop).2, target o = none := by
  unfold dgramEvent
  simp only
  refine ⟨(applyDgramEffects_table _ _).1, (applyDgramEffects_table _ _).2, ?_⟩
  intro o ho
  simp only [List.mem_map] at ho
  obtain ⟨c, -, rfl⟩ := ho
  cases c <;> simp [passDgram, target]

/-- the stream (side, id) an input event is about -/
def eventKey : QIn → Option (Bool × Nat)
  | .streamData fc id _ _ => some (fc, id)
  | .streamReset fc id _ => some (fc, id)
  | .hookDone (some cid) _ => some (true, cid)
  | _ => none

theorem bodyOK_data (ops : ChildOps σ) (fc : Bool) (d : Bytes) (fin : Bool) :
    BodyOK (fun (ts : TS σ) =>
      let ts := if d.isEmpty then ts else eventToChild ops ts (.data (sideOf fc) d)
      if fin then closeLayer ops ts (sideOf fc) else ts) := by
  intro c0 sid0 n0 ts h
  simp only
  have h1 : TSInv c0 sid0 n0 (if d.isEmpty then ts else eventToChild ops ts (.data (sideOf fc) d)) := by
    split
    · exact h
    · exact eventToChild_inv ops h _
  split
  · exact closeLayer_inv ops h1 _
  · exact h1

theorem bodyOK_reset (ops : ChildOps σ) (fc : Bool) (code : Nat) :
    BodyOK (fun (ts : TS σ) =>
      let ts' := closeLayer ops { ts with out := [] } (sideOf fc)
      { ts' with out := ts.out ++ ts'.out.map (resetMap (ts'.s.idOf (sideOf fc).other) code) }) := by
  intro c0 sid0 n0 ts h
  simp only
  have h' := closeLayer_inv ops h.rebase (sideOf fc)
  exact h.trans h' _ (target_resetMap _ _)

theorem bodyOK_hook (ops : ChildOps σ) (e : Option Bytes) :
    BodyOK (fun (ts : TS σ) => eventToChild ops ts (.hookDone e)) :=
  fun _ _ _ _ h => eventToChild_inv ops h _

/-- `Routed` in the shape used by the property theorems -/
theorem Routed.targets {m' : Mux σ} {outs : List QOut} {fc : Bool} {id : Nat} (h : Routed m' outs fc id) :
    ∀ o ∈ outs, ∀ tc id', target o = some (tc, id') →
      ∃ s' ∈ m'.streams, (if tc = true then s'.cid = id' else s'.sid = some id') := by
  obtain ⟨s', hm, -, hg⟩ := h
  intro o ho tc id' ht
  refine ⟨s', hm, ?_⟩
  have := hg o ho tc id' ht
  cases tc <;> simp_all

theorem connClosedPre_table (m : Mux σ) (fc : Bool) (code : Nat) :
    (connClosedPre m fc code).1.streams = m.streams ∧ (connClosedPre m fc code).1.next = m.next ∧
    ∀ o ∈ (connClosedPre m fc code).2, target o = none := by
  unfold connClosedPre
  cases fc <;> simp only [Bool.false_eq_true, if_false, if_true] <;> split <;> simp [target]

theorem connClosed_tail (ops : ChildOps σ) (side : Side) (m2 : Mux σ) (pre : List QOut)
    (hpre : ∀ o ∈ pre, target o = none) (ci : C29.Input) (drop : C29.Output → Bool) (h : MuxInv m2) :
    MuxInv ({ (dgramEvent ops m2 ci drop).1 with
        streams := (fanOut ops side (dgramEvent ops m2 ci drop).1.streams (dgramEvent ops m2 ci drop).1.next false).1,
        next := (fanOut ops side (dgramEvent ops m2 ci drop).1.streams (dgramEvent ops m2 ci drop).1.next false).2.1 } : Mux σ) ∧
    Stable m2.streams (fanOut ops side (dgramEvent ops m2 ci drop).1.streams (dgramEvent ops m2 ci drop).1.next false).1 ∧
    ∀ o ∈ pre ++ (dgramEvent ops m2 ci drop).2 ++
        (fanOut ops side (dgramEvent ops m2 ci drop).1.streams (dgramEvent ops m2 ci drop).1.next false).2.2.1,
      ∀ tc id', target o = some (tc, id') →
      ∃ s' ∈ (fanOut ops side (dgramEvent ops m2 ci drop).1.streams (dgramEvent ops m2 ci drop).1.next false).1,
        (if tc = true then s'.cid = id' else s'.sid = some id') := by
  obtain ⟨e1, e2, e3⟩ := dgramEvent_table ops m2 ci drop
  rw [e1, e2]
  have hl : ListInv ([] ++ m2.streams) m2.next := by simpa [MuxInv] using h
  obtain ⟨f1, fst, f2⟩ := fanOut_spec ops side m2.streams [] m2.next false hl
  refine ⟨by simpa [MuxInv] using f1, fst, ?_⟩
  intro o ho tc id' ht
  simp only [List.mem_append] at ho
  rcases ho with (ho | ho) | ho
  · rw [hpre o ho] at ht; cases ht
  · rw [e3 o ho] at ht; cases ht
  · obtain ⟨s', hm, hg⟩ := f2 o ho
    refine ⟨s', hm, ?_⟩
    have := hg tc id' ht
    cases tc <;> simp_all

theorem step_spec (ops : ChildOps σ) (m : Mux σ) (i : QIn) (h : MuxInv m) :
    MuxInv (step ops m i).1 ∧ Stable m.streams (step ops m i).1.streams ∧
    (∀ o ∈ (step ops m i).2, ∀ tc id', target o = some (tc, id') →
      ∃ s' ∈ (step ops m i).1.streams, (if tc = true then s'.cid = id' else s'.sid = some id')) ∧
    (∀ fc id, eventKey i = some (fc, id) →
      (step ops m i).2 = [] ∨ (step ops m i).2 = [.fault] ∨ Routed (step ops m i).1 (step ops m i).2 fc id) := by
  unfold step
  split
  · exact ⟨h, Stable.refl _, by simp, fun _ _ _ => Or.inl rfl⟩
  · have dg : ∀ (m0 : Mux σ) (ci : C29.Input) (drop : C29.Output → Bool), MuxInv m0 →
        MuxInv (dgramEvent ops m0 ci drop).1 ∧ Stable m0.streams (dgramEvent ops m0 ci drop).1.streams ∧
        (∀ o ∈ (dgramEvent ops m0 ci drop).2, ∀ tc id', target o = some (tc, id') →
          ∃ s' ∈ (dgramEvent ops m0 ci drop).1.streams, (if tc = true then s'.cid = id' else s'.sid = some id')) := by
      intro m0 ci drop h0
      obtain ⟨e1, e2, e3⟩ := dgramEvent_table ops m0 ci drop
      refine ⟨by unfold MuxInv; rw [e1, e2]; exact h0, by rw [e1]; exact Stable.refl _, ?_⟩
      intro o ho tc id' ht; rw [e3 o ho] at ht; cases ht
    have se : ∀ (fc : Bool) (id : Nat) (body : TS σ → TS σ), BodyOK body →
        MuxInv (streamEvent ops m fc id body).1 ∧ Stable m.streams (streamEvent ops m fc id body).1.streams ∧
        (∀ o ∈ (streamEvent ops m fc id body).2, ∀ tc id', target o = some (tc, id') →
          ∃ s' ∈ (streamEvent ops m fc id body).1.streams, (if tc = true then s'.cid = id' else s'.sid = some id')) ∧
        ((streamEvent ops m fc id body).2 = [] ∨ (streamEvent ops m fc id body).2 = [.fault] ∨
          Routed (streamEvent ops m fc id body).1 (streamEvent ops m fc id body).2 fc id) := by
      intro fc id body hb
      obtain ⟨h1, hst, h2⟩ := streamEvent_spec ops fc id h hb
      refine ⟨h1, hst, ?_, ?_⟩
      · rcases h2 with ⟨-, e⟩ | hr
        · intro o ho tc id' ht; rw [e] at ho; simp at ho; subst ho; simp [target] at ht
        · exact hr.targets
      · rcases h2 with ⟨-, e⟩ | hr
        · exact Or.inr (Or.inl e)
        · exact Or.inr (Or.inr hr)
    cases i with
    | start =>
      simp only
      split
      · exact ⟨h, Stable.refl _, by simp, fun _ _ hk => by simp [eventKey] at hk⟩
      · have := dg { m with started := true } .start (fun _ => false) h
        exact ⟨this.1, this.2.1, this.2.2, fun _ _ hk => by simp [eventKey] at hk⟩
    | dgram fc d =>
      have := dg m (.data (sideOf fc) d) (fun _ => false) h
      exact ⟨this.1, this.2.1, this.2.2, fun _ _ hk => by simp [eventKey] at hk⟩
    | hookDone tgt e =>
      cases tgt with
      | none =>
        have := dg m (.hookDone e) (fun _ => false) h
        exact ⟨this.1, this.2.1, this.2.2, fun _ _ hk => by simp [eventKey] at hk⟩
      | some cid =>
        simp only
        split
        · rename_i i hfind
          split
          · rename_i s hs
            obtain ⟨h1, hst, s', hm, hc, hk, hg⟩ := withStream_spec hs h (fun ts ht => bodyOK_hook ops e _ _ _ ts ht)
            unfold Mux.find at hfind
            obtain ⟨hlt, hp, -⟩ := List.findIdx?_eq_some_iff_getElem.1 hfind
            have hs' : m.streams[i] = s := by
              obtain ⟨_, e⟩ := List.getElem?_eq_some_iff.1 hs; exact e
            rw [hs'] at hp
            have hr : Routed (m.withStream i s fun ts => eventToChild ops ts (.hookDone e)).1
                (m.withStream i s fun ts => eventToChild ops ts (.hookDone e)).2 true cid :=
              ⟨s', hm, by simp at hp ⊢; rw [hc]; exact hp, hg⟩
            refine ⟨h1, hst, hr.targets, ?_⟩
            intro fc id hk'
            simp [eventKey] at hk'
            obtain ⟨rfl, rfl⟩ := hk'
            exact Or.inr (Or.inr hr)
          · exact ⟨h, Stable.refl _, by intro o ho tc id' ht; simp at ho; subst ho; simp [target] at ht,
              fun _ _ _ => Or.inr (Or.inl rfl)⟩
        · exact ⟨h, Stable.refl _, by intro o ho tc id' ht; simp at ho; subst ho; simp [target] at ht,
            fun _ _ _ => Or.inr (Or.inl rfl)⟩
    | streamData fc id d fin =>
      obtain ⟨a, st, b, c⟩ := se fc id _ (bodyOK_data ops fc d fin)
      refine ⟨a, st, b, ?_⟩
      intro fc' id' hk; simp [eventKey] at hk; obtain ⟨rfl, rfl⟩ := hk; exact c
    | streamReset fc id code =>
      obtain ⟨a, st, b, c⟩ := se fc id _ (bodyOK_reset ops fc code)
      refine ⟨a, st, b, ?_⟩
      intro fc' id' hk; simp [eventKey] at hk; obtain ⟨rfl, rfl⟩ := hk; exact c
    | connClosed fc code =>
      simp only
      obtain ⟨p1, p2, p3⟩ := connClosedPre_table m fc code
      have hm2 : MuxInv (connClosedPre m fc code).1 := by unfold MuxInv; rw [p1, p2]; exact h
      have := connClosed_tail ops (sideOf fc) _ (connClosedPre m fc code).2 p3 (.closed (sideOf fc) true)
        (fun o => match o with | .close c _ => c == (sideOf fc).other | _ => false) hm2
      exact ⟨this.1, by rw [← p1]; exact this.2.1, this.2.2, fun _ _ hk => by simp [eventKey] at hk⟩

end MitmVerif.C30.Lemmas
