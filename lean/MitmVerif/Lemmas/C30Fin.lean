/-
  C30 — the write side of every stream over the WHOLE command history: after mitmproxy has sent a FIN or a reset on a
  (connection, stream id) it never sends data or a reset on it again.  `WInv` is the bookkeeping of one
  `event_to_child` call, `Hist` what the history says about the table of stream layers; `step_hist` is the induction step.
-/
import MitmVerif.Lemmas.C30
set_option linter.unusedSimpArgs false
set_option linter.unusedVariables false
namespace MitmVerif.C30.Lemmas
open MitmVerif MitmVerif.C30
open MitmVerif.C29 (Side Conn)

variable {σ : Type}

/-- `SendQuicStreamData` / `ResetQuicStream` on the client (`tc = true`) resp. server connection -/
def sendOn (tc : Bool) : QOut → Bool
  | .data tc' _ _ _ => tc' == tc
  | .reset tc' _ _ => tc' == tc
  | _ => false

/-- a FIN (`end_stream`) or a reset: mitmproxy closes its sending direction of that stream -/
def finOn (tc : Bool) : QOut → Bool
  | .data tc' _ _ fin => tc' == tc && fin
  | .reset tc' _ _ => tc' == tc
  | _ => false

theorem finOn_sendOn {tc : Bool} {o : QOut} (h : finOn tc o = true) : sendOn tc o = true := by
  cases o <;> simp_all [finOn, sendOn]

/-- no data/reset after a FIN/reset (for one connection side, within one list) -/
def scanW (tc : Bool) : Bool → List QOut → Bool
  | _, [] => true
  | seen, o :: t => (if seen then !sendOn tc o else true) && scanW tc (seen || finOn tc o) t

theorem scanW_append (tc : Bool) (seen : Bool) (a b : List QOut) :
    scanW tc seen (a ++ b) = (scanW tc seen a && scanW tc (seen || a.any (finOn tc)) b) := by
  induction a generalizing seen with
  | nil => simp [scanW]
  | cons o t ih => simp [scanW, ih, Bool.and_assoc, Bool.or_assoc]

theorem scanW_true_of_no_send (tc : Bool) (seen : Bool) (l : List QOut) (h : ∀ o ∈ l, sendOn tc o = false) :
    scanW tc seen l = true := by
  induction l generalizing seen with
  | nil => rfl
  | cons o t ih =>
    have ho := h o (by simp)
    have ht := ih (seen || finOn tc o) (fun x hx => h x (by simp [hx]))
    simp [scanW, ho, ht]

theorem scanW_weaken (tc : Bool) (l : List QOut) (h : scanW tc true l = true) : scanW tc false l = true := by
  induction l with
  | nil => rfl
  | cons o t ih =>
    simp only [scanW, Bool.true_or, if_true, Bool.and_eq_true] at h
    simp only [scanW, Bool.false_or, Bool.false_eq_true, if_false, Bool.true_and]
    cases hf : finOn tc o
    · exact ih h.2
    · exact h.2

theorem scanW_filter (tc : Bool) (p : QOut → Bool) (seen : Bool) (l : List QOut) (h : scanW tc seen l = true) :
    scanW tc seen (l.filter p) = true := by
  induction l generalizing seen with
  | nil => rfl
  | cons o t ih =>
    simp only [scanW, Bool.and_eq_true] at h
    simp only [List.filter_cons]
    split
    · simp only [scanW, Bool.and_eq_true]
      exact ⟨h.1, ih _ h.2⟩
    · -- `o` dropped: the rest was fine with `seen || finOn o`, so it is fine with `seen`
      have h2 := h.2
      cases hs : seen
      · cases hf : finOn tc o
        · rw [hs, hf] at h2; exact ih _ h2
        · rw [hs, hf] at h2
          have := ih true h2
          exact scanW_weaken tc _ this
      · rw [hs] at h2; simpa using ih true h2

theorem scanW_map (tc : Bool) (f : QOut → QOut) (hs : ∀ o, sendOn tc (f o) = sendOn tc o)
    (hf : ∀ o, finOn tc (f o) = finOn tc o) (seen : Bool) (l : List QOut) :
    scanW tc seen (l.map f) = scanW tc seen l := by
  induction l generalizing seen with
  | nil => rfl
  | cons o t ih => simp [scanW, hs, hf, ih]

theorem resetMap_sendOn (tc : Bool) (oid : Option Nat) (code : Nat) (o : QOut) :
    sendOn tc (resetMap oid code o) = sendOn tc o := by
  cases o with
  | data tc' id d fin => simp only [resetMap]; split <;> rfl
  | _ => rfl

theorem resetMap_finOn (tc : Bool) (oid : Option Nat) (code : Nat) (o : QOut) :
    finOn tc (resetMap oid code o) = finOn tc o := by
  cases o with
  | data tc' id d fin =>
    simp only [resetMap]
    split
    · rename_i h; simp [finOn, h.2.1]
    · rfl
  | _ => rfl

def sideT (tc : Bool) : Side := if tc then .client else .server

@[simp] theorem sideT_toClient (to : Side) : sideT (toClient to) = to := by cases to <;> rfl
@[simp] theorem toClient_sideT (tc : Bool) : toClient (sideT tc) = tc := by cases tc <;> rfl

theorem conn_setConn (s : Stream σ) (to side : Side) (c : Conn) :
    (s.setConn to c).conn side = if side = to then c else s.conn side := by
  cases to <;> cases side <;> simp [Stream.setConn, Stream.conn]

@[simp] theorem conn_setEnded (s : Stream σ) (to side : Side) : (s.setEnded to).conn side = s.conn side := by
  cases to <;> cases side <;> rfl

/-- write-side bookkeeping of one `event_to_child` call: `start tc` = "this call may send on that side at all"
    (the side was writable when the call began, or it is the server side and is only opened during the call) -/
structure WInv (start : Bool → Bool) (ts : TS σ) : Prop where
  scan : ∀ tc, scanW tc false ts.out = true
  fin : ∀ tc, ts.out.any (finOn tc) = true → (ts.s.conn (sideT tc)).canWrite = false
  send : ∀ tc, ts.out.any (sendOn tc) = true → start tc = true
  mono : ∀ tc, (ts.s.conn (sideT tc)).canWrite = true → start tc = true

theorem WInv.same {start : Bool → Bool} {ts ts' : TS σ} (h : WInv start ts) (ho : ts'.out = ts.out)
    (hc : ∀ side, (ts'.s.conn side).canWrite = (ts.s.conn side).canWrite) : WInv start ts' :=
  ⟨by rw [ho]; exact h.scan, by intro tc; rw [ho, hc]; exact h.fin tc, by rw [ho]; exact h.send,
   by intro tc; rw [hc]; exact h.mono tc⟩

theorem WInv.pushQuiet {start : Bool → Bool} {ts : TS σ} (h : WInv start ts) (o : QOut)
    (hq : ∀ tc, sendOn tc o = false) : WInv start (ts.push o) := by
  have hf : ∀ tc, finOn tc o = false := by
    intro tc; cases hfo : finOn tc o
    · rfl
    · have := finOn_sendOn hfo; rw [hq] at this; cases this
  refine ⟨?_, ?_, ?_, h.mono⟩
  · intro tc; simp [TS.push, scanW_append, scanW, h.scan tc, hq tc]
  · intro tc hh; simp only [TS.push, List.any_append, List.any_cons, List.any_nil, hf tc, Bool.or_false] at hh
    exact h.fin tc hh
  · intro tc hh; simp only [TS.push, List.any_append, List.any_cons, List.any_nil, hq tc, Bool.or_false] at hh
    exact h.send tc hh

theorem WInv.fail {start : Bool → Bool} {ts : TS σ} (h : WInv start ts) : WInv start ts.fail := by
  have := h.pushQuiet .fault (by intro tc; rfl)
  exact this.same rfl (fun _ => rfl)

theorem WInv.pushData {start : Bool → Bool} {ts : TS σ} (h : WInv start ts) (to : Side) (id : Nat) (d : Bytes)
    (hg : (ts.s.conn to).canWrite = true) : WInv start (ts.push (.data (toClient to) id d false)) := by
  have hnofin : ts.out.any (finOn (toClient to)) = false := by
    cases hh : ts.out.any (finOn (toClient to))
    · rfl
    · have := h.fin _ hh; rw [sideT_toClient, hg] at this; cases this
  refine ⟨?_, ?_, ?_, h.mono⟩
  · intro tc
    simp only [TS.push, scanW_append, scanW, h.scan tc, Bool.true_and, Bool.false_or, Bool.and_true]
    by_cases e : tc = toClient to
    · subst e; simp [hnofin]
    · have : sendOn tc (QOut.data (toClient to) id d false) = false := by
        simp [sendOn]; exact fun hh => e hh.symm
      simp [this]
  · intro tc hh
    simp only [TS.push, List.any_append, List.any_cons, List.any_nil, finOn, Bool.and_false, Bool.or_false] at hh
    exact h.fin tc hh
  · intro tc hh
    simp only [TS.push, List.any_append, List.any_cons, List.any_nil, Bool.or_false, Bool.or_eq_true] at hh
    rcases hh with hh | hh
    · exact h.send tc hh
    · have e : toClient to = tc := by simpa [sendOn] using hh
      subst e
      exact h.mono _ (by rw [sideT_toClient]; exact hg)

theorem WInv.pushFin {start : Bool → Bool} {ts : TS σ} (h : WInv start ts) (to : Side) (id : Nat)
    (hg : (ts.s.conn to).canWrite = true) :
    WInv start (({ ts with s := ts.s.setConn to { ts.s.conn to with canWrite := false } } : TS σ).push
      (.data (toClient to) id [] true)) := by
  have hnofin : ts.out.any (finOn (toClient to)) = false := by
    cases hh : ts.out.any (finOn (toClient to))
    · rfl
    · have := h.fin _ hh; rw [sideT_toClient, hg] at this; cases this
  refine ⟨?_, ?_, ?_, ?_⟩
  · intro tc
    simp only [TS.push, scanW_append, scanW, h.scan tc, Bool.true_and, Bool.false_or, Bool.and_true]
    by_cases e : tc = toClient to
    · subst e; simp [hnofin]
    · have : sendOn tc (QOut.data (toClient to) id [] true) = false := by
        simp [sendOn]; exact fun hh => e hh.symm
      simp [this]
  · intro tc hh
    simp only [TS.push, conn_setConn]
    by_cases e : sideT tc = to
    · simp [e]
    · simp only [e, if_false]
      simp only [TS.push, List.any_append, List.any_cons, List.any_nil, Bool.or_false, Bool.or_eq_true] at hh
      rcases hh with hh | hh
      · exact h.fin tc hh
      · exfalso
        have e' : toClient to = tc := by simpa [finOn] using hh
        subst e'; simp at e
  · intro tc hh
    simp only [TS.push, List.any_append, List.any_cons, List.any_nil, Bool.or_false, Bool.or_eq_true] at hh
    rcases hh with hh | hh
    · exact h.send tc hh
    · have e : toClient to = tc := by simpa [sendOn] using hh
      subst e
      exact h.mono _ (by rw [sideT_toClient]; exact hg)
  · intro tc hh
    simp only [TS.push, conn_setConn] at hh
    by_cases e : sideT tc = to
    · simp [e] at hh
    · simp only [e, if_false] at hh; exact h.mono tc hh

section translateW
variable (ops : ChildOps σ) {c0 : Nat} {sid0 : Option Nat} {n0 : Next} {start : Bool → Bool}

/-- both invariants of one translation, carried together -/
def TW (c0 : Nat) (sid0 : Option Nat) (n0 : Next) (start : Bool → Bool) (ts : TS σ) : Prop :=
  TSInv c0 sid0 n0 ts ∧ WInv start ts

theorem closeStreamLayer_tw (rec : TS σ → List C29.Output → TS σ)
    (hrec : ∀ ts outs, TW c0 sid0 n0 start ts → TW c0 sid0 n0 start (rec ts outs))
    {ts : TS σ} (h : TW c0 sid0 n0 start ts) (side : Side) :
    TW c0 sid0 n0 start (closeStreamLayer ops rec ts side) := by
  obtain ⟨ht, hw⟩ := h
  unfold closeStreamLayer
  split
  · exact ⟨ht, hw⟩
  · simp only
    have hw1 : WInv start ({ ts with s := ts.s.setConn side { ts.s.conn side with canRead := false } } : TS σ) :=
      hw.same rfl (by intro sd; simp only [conn_setConn]; split <;> simp_all)
    have ht1 : TSInv c0 sid0 n0 ({ ts with s := ts.s.setConn side { ts.s.conn side with canRead := false } } : TS σ) :=
      ht.congr (by simp) (by simp) rfl rfl
    split
    · exact ⟨ht1.fail, hw1.fail⟩
    · split
      · exact ⟨ht1, hw1⟩
      · apply hrec
        exact ⟨ht1.congr (by simp) (by simp) rfl rfl, hw1.same rfl (by intro sd; cases sd <;> cases side <;> rfl)⟩

theorem procOne_tw (rec : TS σ → List C29.Output → TS σ)
    (hstart : sid0 = none → start false = true)
    (hrec : ∀ ts outs, TW c0 sid0 n0 start ts → TW c0 sid0 n0 start (rec ts outs))
    {ts : TS σ} (h : TW c0 sid0 n0 start ts) (o : C29.Output) :
    TW c0 sid0 n0 start (procOne ops rec ts o) := by
  obtain ⟨ht, hw⟩ := h
  unfold procOne
  split
  · exact ⟨ht, hw⟩
  · rename_i hnh
    cases o with
    | hook hk =>
      exact ⟨ht.push (by intro tc id h; simp [target] at h), hw.pushQuiet _ (by intro tc; rfl)⟩
    | send to d =>
      simp only
      split
      · exact ⟨ht.fail, hw.fail⟩
      · rename_i id hid
        split
        · rename_i hg
          exact ⟨ht.push (good_of_idOf hid _ rfl), hw.pushData to id d hg⟩
        · exact ⟨ht, hw⟩
    | close to half =>
      simp only
      split
      · exact ⟨ht.fail, hw.fail⟩
      · rename_i id hid
        have h1 : ∃ ts1 : TS σ, ts1 =
            (if (ts.s.conn to).canWrite = true then
              ({ ts with s := ts.s.setConn to { ts.s.conn to with canWrite := false } } : TS σ).push
                (.data (toClient to) id [] true)
            else ts) ∧ TW c0 sid0 n0 start ts1 ∧ ts1.s.idOf to = some id := by
          refine ⟨_, rfl, ?_, ?_⟩
          · split
            · rename_i hg
              refine ⟨?_, hw.pushFin to id hg⟩
              refine TSInv.push (ts := { ts with s := ts.s.setConn to { ts.s.conn to with canWrite := false } })
                (ht.congr (by simp) (by simp) rfl rfl) ?_
              apply good_of_idOf (to := to) (id := id) _ _ rfl
              cases to <;> simpa [Stream.idOf, Stream.setConn] using hid
            · exact ⟨ht, hw⟩
          · split
            · cases to <;> simpa [Stream.idOf, Stream.setConn, TS.push] using hid
            · exact hid
        obtain ⟨ts1, e1, h1, hid1⟩ := h1
        rw [← e1]
        split
        · exact h1
        · apply closeStreamLayer_tw ops rec hrec
          split
          · exact ⟨h1.1.push (good_of_idOf hid1 _ rfl), h1.2.pushQuiet _ (by intro tc; rfl)⟩
          · exact h1
    | openServer =>
      simp only
      split
      · exact ⟨ht.fail, hw.fail⟩
      · rename_i hsid
        apply hrec
        have hs0 : sid0 = none := by
          cases hs : sid0 with
          | none => rfl
          | some x => have := ht.keep x hs; rw [hsid] at this; cases this
        -- the TSInv half: exactly as in `procOne_inv`
        have hT := procOne_inv ops (fun t _ => t) (fun _ _ h => h) ht .openServer
        have hT' : TSInv c0 sid0 n0 ({ ts with
            s := { ({ ts.s with sid := some (ts.next.get (allocIndex true (isUni ts.s.cid))),
                                 sConn := serverConnFor (ts.next.get (allocIndex true (isUni ts.s.cid))) } : Stream σ) with
                   child := (ops.step ts.s.child ts.s.cConn
                     (serverConnFor (ts.next.get (allocIndex true (isUni ts.s.cid)))) (.connectDone false)).1 },
            next := ts.next.bump (allocIndex true (isUni ts.s.cid)) } : TS σ) := by
          have hh : ts.halt = false := by simpa using hnh
          unfold procOne at hT
          simp only [hh, Bool.false_eq_true, if_false, hsid] at hT
          exact hT.congr rfl rfl rfl rfl
        refine ⟨hT', ?_⟩
        -- no command was ever addressed to the server side before it had an id
        have hnone : ∀ o ∈ ts.out, sendOn false o = false := by
          intro o ho
          have hg := ht.good o ho
          cases o with
          | data tc id d fin =>
            cases tc
            · have := hg false id rfl; simp [hsid] at this
            · rfl
          | reset tc id code =>
            cases tc
            · have := hg false id rfl; simp [hsid] at this
            · rfl
          | _ => rfl
        refine ⟨hw.scan, ?_, hw.send, ?_⟩
        · intro tc hh
          cases tc
          · exfalso
            simp only [List.any_eq_true] at hh
            obtain ⟨o, ho, hf⟩ := hh
            have := finOn_sendOn hf
            rw [hnone o ho] at this; cases this
          · have := hw.fin true hh
            simpa [sideT, Stream.conn] using this
        · intro tc hh
          cases tc
          · exact hstart hs0
          · exact hw.mono true (by simpa [sideT, Stream.conn] using hh)

theorem translate_tw (hstart : sid0 = none → start false = true) (fuel : Nat) :
    ∀ (ts : TS σ) (outs : List C29.Output), TW c0 sid0 n0 start ts → TW c0 sid0 n0 start (translate ops fuel ts outs) := by
  induction fuel with
  | zero =>
    intro ts outs h
    cases outs with
    | nil => exact h
    | cons o t =>
      simp only [translate]
      split
      · exact h
      · exact ⟨h.1.fail, h.2.fail⟩
  | succ n ih =>
    intro ts outs h
    simp only [translate]
    induction outs generalizing ts with
    | nil => exact h
    | cons o t iht => exact iht _ (procOne_tw ops _ hstart ih h o)

theorem eventToChild_tw (hstart : sid0 = none → start false = true) {ts : TS σ} (h : TW c0 sid0 n0 start ts)
    (i : C29.Input) : TW c0 sid0 n0 start (eventToChild ops ts i) := by
  unfold eventToChild
  split
  · exact h
  · apply translate_tw ops hstart
    exact ⟨h.1.congr rfl rfl rfl rfl, h.2.same rfl (fun _ => rfl)⟩

theorem closeLayer_tw (hstart : sid0 = none → start false = true) {ts : TS σ} (h : TW c0 sid0 n0 start ts)
    (side : Side) : TW c0 sid0 n0 start (closeLayer ops ts side) :=
  closeStreamLayer_tw ops _ (translate_tw ops hstart _) h side

end translateW

/-- "may send on that side": it is writable now, or it is the server side that has no stream yet -/
def startOf (s : Stream σ) (tc : Bool) : Bool :=
  (s.conn (sideT tc)).canWrite || (!tc && s.sid.isNone)

theorem startOf_fresh (s : Stream σ) (h : s.sid = none) : startOf s false = true := by
  simp [startOf, h]

theorem winv_start (s : Stream σ) (n : Next) :
    WInv (startOf s) ({ s := s, next := n, out := [], halt := false } : TS σ) :=
  ⟨fun _ => rfl, fun _ h => by simp at h, fun _ h => by simp at h, fun tc h => by simp [startOf, h]⟩

/-- two stages of one call (`ts` then, from its state with an empty command list, `ts'`), the commands of the second
    stage post-processed by `f` which keeps their kind -/
theorem TW.trans {c0 : Nat} {sid0 : Option Nat} {n0 : Next} {start : Bool → Bool} {ts ts' : TS σ}
    (hstart : sid0 = none → start false = true)
    (h : TW c0 sid0 n0 start ts) (h' : TW ts.s.cid ts.s.sid ts.next (startOf ts.s) ts')
    (f : QOut → QOut) (hft : ∀ o, target (f o) = target o)
    (hfs : ∀ tc o, sendOn tc (f o) = sendOn tc o) (hff : ∀ tc o, finOn tc (f o) = finOn tc o) :
    TW c0 sid0 n0 start ({ ts' with out := ts.out ++ ts'.out.map f } : TS σ) := by
  refine ⟨h.1.trans h'.1 f hft, ?_⟩
  obtain ⟨hT, hW⟩ := h
  obtain ⟨hT', hW'⟩ := h'
  have hanyS : ∀ tc, (ts'.out.map f).any (sendOn tc) = ts'.out.any (sendOn tc) := by
    intro tc; simp [List.any_map, Function.comp_def, hfs]
  have hanyF : ∀ tc, (ts'.out.map f).any (finOn tc) = ts'.out.any (finOn tc) := by
    intro tc; simp [List.any_map, Function.comp_def, hff]
  -- a side on which stage 1 already sent a FIN cannot be used by stage 2
  have hclosed : ∀ tc, ts.out.any (finOn tc) = true → startOf ts.s tc = false := by
    intro tc hf
    have hw := hW.fin tc hf
    cases tc
    · -- server side: a command was addressed to it, so it has a stream id
      simp only [List.any_eq_true] at hf
      obtain ⟨o, ho, hfo⟩ := hf
      have hg := hT.good o ho
      have hsome : ts.s.sid ≠ none := by
        intro hn
        cases o with
        | data tc id d fin =>
          cases tc
          · have := hg false id rfl; simp [hn] at this
          · simp [finOn] at hfo
        | reset tc id code =>
          cases tc
          · have := hg false id rfl; simp [hn] at this
          · simp [finOn] at hfo
        | _ => simp [finOn] at hfo
      cases hs : ts.s.sid with
      | none => exact absurd hs hsome
      | some x => simp [startOf, hw, hs]
    · simp [startOf, hw]
  have hstart' : ∀ tc, startOf ts.s tc = true → start tc = true := by
    intro tc hh
    simp only [startOf, Bool.or_eq_true, Bool.and_eq_true, Bool.not_eq_true', Option.isNone_iff_eq_none] at hh
    rcases hh with hh | ⟨htc, hn⟩
    · exact hW.mono tc hh
    · subst htc
      apply hstart
      cases hs : sid0 with
      | none => rfl
      | some x => have := hT.keep x hs; rw [hn] at this; cases this
  refine ⟨?_, ?_, ?_, ?_⟩
  · intro tc
    simp only [scanW_append, hW.scan tc, Bool.true_and, Bool.false_or]
    cases hf : ts.out.any (finOn tc)
    · rw [scanW_map tc f (hfs tc) (hff tc)]; exact hW'.scan tc
    · apply scanW_true_of_no_send
      intro o ho
      cases hs : sendOn tc o
      · rfl
      · have : (ts'.out.map f).any (sendOn tc) = true := List.any_eq_true.2 ⟨o, ho, hs⟩
        rw [hanyS] at this
        have := hW'.send tc this
        rw [hclosed tc hf] at this; cases this
  · intro tc hh
    simp only [List.any_append, Bool.or_eq_true] at hh
    rcases hh with hh | hh
    · have := hclosed tc hh
      cases hc : (ts'.s.conn (sideT tc)).canWrite
      · rfl
      · have := hW'.mono tc hc; simp_all
    · rw [hanyF] at hh; exact hW'.fin tc hh
  · intro tc hh
    simp only [List.any_append, Bool.or_eq_true] at hh
    rcases hh with hh | hh
    · exact hW.send tc hh
    · rw [hanyS] at hh; exact hstart' tc (hW'.send tc hh)
  · intro tc hh; exact hstart' tc (hW'.mono tc hh)

/-- rebase for the second stage -/
theorem TW.rebase {c0 : Nat} {sid0 : Option Nat} {n0 : Next} {start : Bool → Bool} {ts : TS σ}
    (h : TW c0 sid0 n0 start ts) :
    TW ts.s.cid ts.s.sid ts.next (startOf ts.s) ({ ts with out := [] } : TS σ) :=
  ⟨h.1.rebase, ⟨fun _ => rfl, fun _ hh => by simp at hh, fun _ hh => by simp at hh,
    fun tc hh => by simp only [startOf, Bool.or_eq_true]; exact Or.inl hh⟩⟩

/-- what a stream-event body may do, with the write bookkeeping -/
def BodyW (body : TS σ → TS σ) : Prop :=
  ∀ c0 sid0 n0 (start : Bool → Bool) ts, (sid0 = none → start false = true) →
    TW c0 sid0 n0 start ts → TW c0 sid0 n0 start (body ts)

theorem bodyW_data (ops : ChildOps σ) (fc : Bool) (d : Bytes) (fin : Bool) :
    BodyW (fun (ts : TS σ) =>
      let ts := if d.isEmpty then ts else eventToChild ops ts (.data (sideOf fc) d)
      if fin then closeLayer ops ts (sideOf fc) else ts) := by
  intro c0 sid0 n0 start ts hs h
  simp only
  have h1 : TW c0 sid0 n0 start (if d.isEmpty then ts else eventToChild ops ts (.data (sideOf fc) d)) := by
    split
    · exact h
    · exact eventToChild_tw ops hs h _
  split
  · exact closeLayer_tw ops hs h1 _
  · exact h1

theorem bodyW_reset (ops : ChildOps σ) (fc : Bool) (code : Nat) :
    BodyW (fun (ts : TS σ) =>
      let ts' := closeLayer ops { ts with out := [] } (sideOf fc)
      { ts' with out := ts.out ++ ts'.out.map (resetMap (ts'.s.idOf (sideOf fc).other) code) }) := by
  intro c0 sid0 n0 start ts hs h
  simp only
  have h' := closeLayer_tw ops (startOf_fresh ts.s) h.rebase (sideOf fc)
  exact TW.trans hs h h' _ (target_resetMap _ _) (fun tc o => resetMap_sendOn tc _ _ o)
    (fun tc o => resetMap_finOn tc _ _ o)

theorem bodyW_hook (ops : ChildOps σ) (e : Option Bytes) :
    BodyW (fun (ts : TS σ) => eventToChild ops ts (.hookDone e)) :=
  fun _ _ _ _ _ hs h => eventToChild_tw ops hs h _

theorem bodyW_start (ops : ChildOps σ) {body : TS σ → TS σ} (hb : BodyW body) :
    BodyW (fun ts => body (eventToChild ops ts .start)) :=
  fun c0 sid0 n0 start ts hs h => hb _ _ _ _ _ hs (eventToChild_tw ops hs h _)

/-! ### the whole command history -/

/-- data / reset addressed to the stream `t = (connection, stream id)` -/
def sendAt (t : Bool × Nat) (o : QOut) : Bool := sendOn t.1 o && (target o == some t)
def finAt (t : Bool × Nat) (o : QOut) : Bool := finOn t.1 o && (target o == some t)

def scanT (t : Bool × Nat) : Bool → List QOut → Bool
  | _, [] => true
  | seen, o :: r => (if seen then !sendAt t o else true) && scanT t (seen || finAt t o) r

theorem scanT_append (t : Bool × Nat) (seen : Bool) (a b : List QOut) :
    scanT t seen (a ++ b) = (scanT t seen a && scanT t (seen || a.any (finAt t)) b) := by
  induction a generalizing seen with
  | nil => simp [scanT]
  | cons o r ih => simp [scanT, ih, Bool.and_assoc, Bool.or_assoc]

theorem scanT_true_of_no_send (t : Bool × Nat) (seen : Bool) (l : List QOut) (h : ∀ o ∈ l, sendAt t o = false) :
    scanT t seen l = true := by
  induction l generalizing seen with
  | nil => rfl
  | cons o r ih =>
    have ho := h o (by simp)
    have hr := ih (seen || finAt t o) (fun x hx => h x (by simp [hx]))
    simp [scanT, ho, hr]

theorem scanT_eq_scanW (t : Bool × Nat) (seen : Bool) (l : List QOut)
    (h : ∀ o ∈ l, sendAt t o = sendOn t.1 o ∧ finAt t o = finOn t.1 o) : scanT t seen l = scanW t.1 seen l := by
  induction l generalizing seen with
  | nil => rfl
  | cons o r ih =>
    obtain ⟨h1, h2⟩ := h o (by simp)
    simp [scanT, scanW, h1, h2, ih _ (fun x hx => h x (by simp [hx]))]

theorem finAt_sendAt {t : Bool × Nat} {o : QOut} (h : finAt t o = true) : sendAt t o = true := by
  simp only [finAt, sendAt, Bool.and_eq_true] at *
  exact ⟨finOn_sendOn h.1, h.2⟩

theorem good_idOf {s : Stream σ} {o : QOut} (hg : Good s.cid s.sid o) {tc : Bool} {id : Nat}
    (ht : target o = some (tc, id)) : s.idOf (sideT tc) = some id := by
  have := hg tc id ht
  cases tc <;> simp_all [sideT, Stream.idOf]

theorem target_of_sendOn {tc : Bool} {o : QOut} (h : sendOn tc o = true) : ∃ id, target o = some (tc, id) := by
  cases o <;> simp_all [sendOn, target]

/-- commands translated for one stream layer: addressed-to-`t` coincides with addressed-to-that-side iff `t` is its id -/
theorem at_of_owner {s : Stream σ} {outs : List QOut} (hg : ∀ o ∈ outs, Good s.cid s.sid o) (t : Bool × Nat)
    (hid : s.idOf (sideT t.1) = some t.2) : ∀ o ∈ outs, sendAt t o = sendOn t.1 o ∧ finAt t o = finOn t.1 o := by
  intro o ho
  have key : sendOn t.1 o = true → (target o == some t) = true := by
    intro hs
    obtain ⟨id, hti⟩ := target_of_sendOn hs
    have := good_idOf (hg o ho) hti
    rw [hid] at this
    have e : id = t.2 := by simpa using this.symm
    subst e; simp [hti]
  constructor
  · cases hs : sendOn t.1 o
    · simp [sendAt, hs]
    · simp [sendAt, hs, key hs]
  · cases hf : finOn t.1 o
    · simp [finAt, hf]
    · simp [finAt, hf, key (finOn_sendOn hf)]

theorem owner_of_sendAt {s : Stream σ} {o : QOut} (hg : Good s.cid s.sid o) {t : Bool × Nat}
    (h : sendAt t o = true) : s.idOf (sideT t.1) = some t.2 ∧ sendOn t.1 o = true := by
  simp only [sendAt, Bool.and_eq_true, beq_iff_eq] at h
  exact ⟨good_idOf hg (by rw [h.2]), h.1⟩

/-- what the command history says about the table of stream layers -/
structure Hist (l : List (Stream σ)) (hist : List QOut) : Prop where
  g1 : ∀ t, hist.any (finAt t) = true → ∀ s ∈ l, s.idOf (sideT t.1) = some t.2 → (s.conn (sideT t.1)).canWrite = false
  g2 : ∀ t, scanT t false hist = true
  g3 : ∀ o ∈ hist, ∀ t, target o = some t → ∃ s ∈ l, s.idOf (sideT t.1) = some t.2

/-- two different layers of a consistent table never carry the same id on the same side -/
theorem unique_owner {pre post : List (Stream σ)} {x y : Stream σ} {n : Next} (h : ListInv (pre ++ x :: post) n)
    (hy : y ∈ pre ∨ y ∈ post) {side : Side} {id : Nat} (h1 : y.idOf side = some id) (h2 : x.idOf side = some id) :
    False := by
  obtain ⟨-, -, hc, hs⟩ := h
  rw [List.pairwise_append, List.pairwise_cons] at hc hs
  cases side with
  | client =>
    simp only [Stream.idOf, Option.some.injEq] at h1 h2
    rcases hy with hy | hy
    · exact hc.2.2 y hy x (by simp) (by rw [h1, h2])
    · exact hc.2.1.1 y hy (by rw [h1, h2])
  | server =>
    simp only [Stream.idOf] at h1 h2
    rcases hy with hy | hy
    · exact hs.2.2 y hy x (by simp) id h1 h2
    · exact hs.2.1.1 y hy id h2 h1

/-- the commands a step hands on for one layer, possibly filtered / with FINs turned into resets -/
structure Derived (ts : TS σ) (outs : List QOut) : Prop where
  scan : ∀ tc, scanW tc false outs = true
  fin : ∀ tc, outs.any (finOn tc) = true → ts.out.any (finOn tc) = true
  send : ∀ tc, outs.any (sendOn tc) = true → ts.out.any (sendOn tc) = true
  good : ∀ o ∈ outs, Good ts.s.cid ts.s.sid o

theorem Derived.refl {c0 : Nat} {sid0 : Option Nat} {n0 : Next} {start : Bool → Bool} {ts : TS σ}
    (h : TW c0 sid0 n0 start ts) : Derived ts ts.out :=
  ⟨h.2.scan, fun _ hh => hh, fun _ hh => hh, h.1.good⟩

theorem Derived.filter {c0 : Nat} {sid0 : Option Nat} {n0 : Next} {start : Bool → Bool} {ts : TS σ}
    (h : TW c0 sid0 n0 start ts) (p : QOut → Bool) : Derived ts (ts.out.filter p) := by
  refine ⟨fun tc => scanW_filter tc p false _ (h.2.scan tc), ?_, ?_, ?_⟩
  · intro tc hh
    simp only [List.any_eq_true, List.mem_filter] at hh ⊢
    obtain ⟨o, ⟨ho, -⟩, hf⟩ := hh; exact ⟨o, ho, hf⟩
  · intro tc hh
    simp only [List.any_eq_true, List.mem_filter] at hh ⊢
    obtain ⟨o, ⟨ho, -⟩, hf⟩ := hh; exact ⟨o, ho, hf⟩
  · intro o ho
    simp only [List.mem_filter] at ho
    exact h.1.good o ho.1

/-- one layer of the table does one call; everything the history knew stays true and the new commands fit in -/
theorem hist_replace {pre post : List (Stream σ)} {s : Stream σ} {n : Next} {ts : TS σ} {hist outs : List QOut}
    (hl : ListInv (pre ++ s :: post) n) (hH : Hist (pre ++ s :: post) hist)
    (ht : TSInv s.cid s.sid n ts) (hw : WInv (startOf s) ts) (hd : Derived ts outs) :
    Hist (pre ++ ts.s :: post) (hist ++ outs) := by
  have hl' : ListInv (pre ++ ts.s :: post) ts.next := inv_replace hl ht
  -- the layer keeps its ids
  have hkeep : ∀ side id, s.idOf side = some id → ts.s.idOf side = some id := by
    intro side id h
    cases side with
    | client => simpa [Stream.idOf, ht.cid] using h
    | server => exact ht.keep id h
  -- F3: a FIN/reset on `t` in the old history and `t` is this layer's id: the call could not send on that side
  have hF3 : ∀ t, hist.any (finAt t) = true → ts.s.idOf (sideT t.1) = some t.2 → startOf s t.1 = false := by
    intro t hf hid
    obtain ⟨tc, id⟩ := t
    cases tc with
    | true =>
      have hs : s.idOf (sideT true) = some id := by
        simp only [sideT, Stream.idOf, if_true] at hid ⊢; rw [← ht.cid]; exact hid
      have := hH.g1 (true, id) hf s (by simp) hs
      simp [startOf, this]
    | false =>
      cases hsid : s.sid with
      | some x =>
        have hx : ts.s.sid = some x := ht.keep x hsid
        have e : x = id := by
          simp only [sideT, Stream.idOf] at hid; rw [hx] at hid; simpa using hid
        subst e
        have := hH.g1 (false, x) hf s (by simp) (by simpa [sideT, Stream.idOf] using hsid)
        simp [startOf, this, hsid]
      | none =>
        exfalso
        simp only [List.any_eq_true] at hf
        obtain ⟨o, ho, hfo⟩ := hf
        have hto : target o = some (false, id) := by
          have := finAt_sendAt hfo
          simp only [sendAt, Bool.and_eq_true, beq_iff_eq] at this
          exact this.2
        obtain ⟨y, hy, hyid⟩ := hH.g3 o ho (false, id) hto
        simp only [List.mem_append, List.mem_cons] at hy
        rcases hy with hy | rfl | hy
        · exact unique_owner hl' (Or.inl hy) hyid hid
        · simp [sideT, Stream.idOf, hsid] at hyid
        · exact unique_owner hl' (Or.inr hy) hyid hid
  refine ⟨?_, ?_, ?_⟩
  · -- g1
    intro t hf y hy hyid
    simp only [List.any_append, Bool.or_eq_true] at hf
    simp only [List.mem_append, List.mem_cons] at hy
    have hfin_out : outs.any (finAt t) = true → ts.s.idOf (sideT t.1) = some t.2 ∧ outs.any (finOn t.1) = true := by
      intro hh
      simp only [List.any_eq_true] at hh
      obtain ⟨o, ho, hfo⟩ := hh
      have hs := owner_of_sendAt (hd.good o ho) (finAt_sendAt hfo)
      refine ⟨hs.1, List.any_eq_true.2 ⟨o, ho, ?_⟩⟩
      simp only [finAt, Bool.and_eq_true] at hfo; exact hfo.1
    have other : (y ∈ pre ∨ y ∈ post) → (y.conn (sideT t.1)).canWrite = false := by
      intro hyo
      rcases hf with hf | hf
      · exact hH.g1 t hf y (by rcases hyo with h | h <;> simp [h]) hyid
      · exact absurd (hfin_out hf).1 (fun h => unique_owner hl' hyo hyid h)
    rcases hy with hy | rfl | hy
    · exact other (Or.inl hy)
    · rcases hf with hf | hf
      · have := hF3 t hf hyid
        cases hc : (ts.s.conn (sideT t.1)).canWrite
        · rfl
        · have := hw.mono t.1 hc; simp_all
      · exact hw.fin t.1 (hd.fin t.1 (hfin_out hf).2)
    · exact other (Or.inr hy)
  · -- g2
    intro t
    rw [scanT_append, hH.g2 t, Bool.true_and, Bool.false_or]
    by_cases hid : ts.s.idOf (sideT t.1) = some t.2
    · rw [scanT_eq_scanW t _ outs (at_of_owner hd.good t hid)]
      cases hf : hist.any (finAt t)
      · exact hd.scan t.1
      · apply scanW_true_of_no_send
        intro o ho
        cases hs : sendOn t.1 o
        · rfl
        · have := hw.send t.1 (hd.send t.1 (List.any_eq_true.2 ⟨o, ho, hs⟩))
          rw [hF3 t hf hid] at this; cases this
    · apply scanT_true_of_no_send
      intro o ho
      cases hs : sendAt t o
      · rfl
      · exact absurd (owner_of_sendAt (hd.good o ho) hs).1 hid
  · -- g3
    intro o ho t hto
    simp only [List.mem_append] at ho
    rcases ho with ho | ho
    · obtain ⟨y, hy, hyid⟩ := hH.g3 o ho t hto
      simp only [List.mem_append, List.mem_cons] at hy
      rcases hy with hy | rfl | hy
      · exact ⟨y, by simp [hy], hyid⟩
      · exact ⟨ts.s, by simp, hkeep _ _ hyid⟩
      · exact ⟨y, by simp [hy], hyid⟩
    · exact ⟨ts.s, by simp, good_idOf (hd.good o ho) (by rw [hto])⟩

theorem hist_quiet {l : List (Stream σ)} {hist outs : List QOut} (h : Hist l hist)
    (hq : ∀ o ∈ outs, target o = none) : Hist l (hist ++ outs) := by
  have hno : ∀ t, ∀ o ∈ outs, sendAt t o = false := by
    intro t o ho; simp [sendAt, hq o ho]
  have hnf : ∀ t, outs.any (finAt t) = false := by
    intro t
    cases hh : outs.any (finAt t)
    · rfl
    · simp only [List.any_eq_true] at hh
      obtain ⟨o, ho, hf⟩ := hh
      have := finAt_sendAt hf; rw [hno t o ho] at this; cases this
  refine ⟨?_, ?_, ?_⟩
  · intro t hf; simp only [List.any_append, hnf t, Bool.or_false] at hf; exact h.g1 t hf
  · intro t; rw [scanT_append, h.g2 t, Bool.true_and]; exact scanT_true_of_no_send t _ _ (hno t)
  · intro o ho t hto
    simp only [List.mem_append] at ho
    rcases ho with ho | ho
    · exact h.g3 o ho t hto
    · rw [hq o ho] at hto; cases hto

/-- a new layer is registered under ids no command has ever been addressed to -/
theorem hist_append_new {l : List (Stream σ)} {snew : Stream σ} {n' : Next} {hist : List QOut} (h : Hist l hist)
    (hl : ListInv (l ++ [snew]) n') : Hist (l ++ [snew]) hist := by
  refine ⟨?_, h.g2, ?_⟩
  · intro t hf y hy hyid
    simp only [List.mem_append, List.mem_singleton] at hy
    rcases hy with hy | rfl
    · exact h.g1 t hf y hy hyid
    · exfalso
      simp only [List.any_eq_true] at hf
      obtain ⟨o, ho, hfo⟩ := hf
      have hto : target o = some t := by
        have := finAt_sendAt hfo
        simp only [sendAt, Bool.and_eq_true, beq_iff_eq] at this
        exact this.2
      obtain ⟨z, hz, hzid⟩ := h.g3 o ho t hto
      exact unique_owner (pre := l) (post := []) hl (Or.inl hz) hzid hyid
  · intro o ho t hto
    obtain ⟨z, hz, hzid⟩ := h.g3 o ho t hto
    exact ⟨z, by simp [hz], hzid⟩

theorem withStream_hist {m : Mux σ} {i : Nat} {s : Stream σ} {body : TS σ → TS σ} {hist : List QOut}
    (hi : m.streams[i]? = some s) (hinv : MuxInv m) (hH : Hist m.streams hist) (hb : BodyW body) :
    Hist (m.withStream i s body).1.streams (hist ++ (m.withStream i s body).2) := by
  obtain ⟨pre, post, e, hset⟩ := split_at hi
  have hl : ListInv (pre ++ s :: post) m.next := by rw [← e]; exact hinv
  have hs : StreamOK m.next s := hl.2.1 s (by simp)
  have htw := hb s.cid s.sid m.next (startOf s) _ (startOf_fresh s) ⟨tsinv_start hl.1 hs, winv_start s m.next⟩
  unfold Mux.withStream
  simp only [hset]
  exact hist_replace hl (by rw [← e]; exact hH) htw.1 htw.2 (Derived.refl htw)

theorem streamEvent_hist (ops : ChildOps σ) {m : Mux σ} (fc : Bool) (id : Nat) {body : TS σ → TS σ}
    {hist : List QOut} (hinv : MuxInv m) (hH : Hist m.streams hist) (hb : BodyW body) :
    Hist (streamEvent ops m fc id body).1.streams (hist ++ (streamEvent ops m fc id body).2) := by
  unfold streamEvent
  split
  · split
    · rename_i s hs
      exact withStream_hist hs hinv hH hb
    · exact hist_quiet hH (by intro o ho; simp at ho; subst ho; rfl)
  · rename_i hfind
    split
    · exact hist_quiet hH (by intro o ho; simp at ho; subst ho; rfl)
    · rename_i hpar
      have hpar' : isClientInit id = fc := by
        cases h1 : isClientInit id <;> cases fc <;> simp_all
      unfold Mux.find at hfind
      have hnone := List.findIdx?_eq_none_iff.1 hfind
      have key : ∀ (snew : Stream σ),
          snew.cid = (if fc = true then id else m.next.get (allocIndex false (isUni id))) →
          snew.sid = (if fc = true then none else some id) →
          Hist ((m.reg snew fc id).withStream ((m.streams ++ [snew]).length - 1) snew
              (fun ts => body (eventToChild ops ts .start))).1.streams
            (hist ++ ((m.reg snew fc id).withStream ((m.streams ++ [snew]).length - 1) snew
              (fun ts => body (eventToChild ops ts .start))).2) := by
        intro snew hc hs
        have hinv' : MuxInv (m.reg snew fc id) := by
          show ListInv _ _
          cases fc
          · simp at hc hs hnone ⊢
            exact inv_append_server hinv (by intro x hx; simpa using hnone x hx) (isClientInit_false hpar') hc hs
          · simp at hc hs hnone ⊢
            exact inv_append_client hinv (by intro x hx; simpa using hnone x hx) (isClientInit_true hpar') hc hs
        have hget : (m.reg snew fc id).streams[(m.streams ++ [snew]).length - 1]? = some snew := by simp
        exact withStream_hist hget hinv' (hist_append_new hH hinv') (bodyW_start ops hb)
      refine key _ ?_ ?_ <;> rfl

theorem fanOut_hist (ops : ChildOps σ) (side : Side) :
    ∀ (l pre : List (Stream σ)) (n : Next) (halt : Bool) (hist : List QOut),
    ListInv (pre ++ l) n → Hist (pre ++ l) hist →
    Hist (pre ++ (fanOut ops side l n halt).1) (hist ++ (fanOut ops side l n halt).2.2.1) := by
  intro l
  induction l with
  | nil => intro pre n halt hist _ hH; simpa [fanOut] using hH
  | cons s rest ih =>
    intro pre n halt hist h hH
    unfold fanOut
    split
    · simpa using hH
    · simp only
      have hs : StreamOK n s := h.2.1 s (by simp)
      have hT0 : TSInv s.cid s.sid n
          ({ s := s.setConn side { s.conn side with canWrite := false }, next := n, out := [], halt := false } : TS σ) :=
        (tsinv_start h.1 hs).congr (by simp) (by simp) rfl rfl
      have hW0 : WInv (startOf s)
          ({ s := s.setConn side { s.conn side with canWrite := false }, next := n, out := [], halt := false } : TS σ) := by
        refine ⟨fun _ => rfl, fun _ hh => by simp at hh, fun _ hh => by simp at hh, ?_⟩
        intro tc hh
        simp only [conn_setConn] at hh
        by_cases e : sideT tc = side
        · simp [e] at hh
        · simp only [e, if_false] at hh; simp [startOf, hh]
      have htw := closeLayer_tw ops (startOf_fresh s) ⟨hT0, hW0⟩ side
      have hl := inv_replace h htw.1
      have hH' := hist_replace h hH htw.1 htw.2 (Derived.filter htw keepOnConnClose)
      generalize closeLayer ops
        ({ s := s.setConn side { s.conn side with canWrite := false }, next := n, out := [], halt := false } : TS σ)
        side = ts at htw hl hH' ⊢
      have := ih (pre ++ [ts.s]) ts.next ts.halt (hist ++ ts.out.filter keepOnConnClose)
        (by simpa using hl) (by simpa using hH')
      simpa [List.append_assoc] using this

theorem connClosed_hist (ops : ChildOps σ) (side : Side) (m2 : Mux σ) (hist : List QOut) (ci : C29.Input)
    (drop : C29.Output → Bool) (h : MuxInv m2) (hH : Hist m2.streams hist) :
    Hist (fanOut ops side (dgramEvent ops m2 ci drop).1.streams (dgramEvent ops m2 ci drop).1.next false).1
      (hist ++ (dgramEvent ops m2 ci drop).2 ++
        (fanOut ops side (dgramEvent ops m2 ci drop).1.streams (dgramEvent ops m2 ci drop).1.next false).2.2.1) := by
  obtain ⟨e1, e2, e3⟩ := dgramEvent_table ops m2 ci drop
  have hH2 : Hist (dgramEvent ops m2 ci drop).1.streams (hist ++ (dgramEvent ops m2 ci drop).2) := by
    rw [e1]; exact hist_quiet hH e3
  have hl : ListInv ([] ++ (dgramEvent ops m2 ci drop).1.streams) (dgramEvent ops m2 ci drop).1.next := by
    rw [e1, e2]; simpa [MuxInv] using h
  have := fanOut_hist ops side _ [] _ false _ hl (by simpa using hH2)
  simpa using this

theorem step_hist (ops : ChildOps σ) (m : Mux σ) (i : QIn) (hist : List QOut) (h : MuxInv m)
    (hH : Hist m.streams hist) : Hist (step ops m i).1.streams (hist ++ (step ops m i).2) := by
  unfold step
  split
  · simpa using hH
  · have dg : ∀ (m0 : Mux σ) (ci : C29.Input) (drop : C29.Output → Bool) (hist0 : List QOut),
        Hist m0.streams hist0 → Hist (dgramEvent ops m0 ci drop).1.streams (hist0 ++ (dgramEvent ops m0 ci drop).2) := by
      intro m0 ci drop hist0 h0
      obtain ⟨e1, -, e3⟩ := dgramEvent_table ops m0 ci drop
      rw [e1]; exact hist_quiet h0 e3
    cases i with
    | start =>
      simp only
      split
      · simpa using hH
      · exact dg { m with started := true } .start (fun _ => false) hist hH
    | dgram fc d => exact dg m _ _ hist hH
    | hookDone tgt e =>
      cases tgt with
      | none => exact dg m _ _ hist hH
      | some cid =>
        simp only
        split
        · split
          · rename_i s hs
            exact withStream_hist hs h hH (bodyW_hook ops e)
          · exact hist_quiet hH (by intro o ho; simp at ho; subst ho; rfl)
        · exact hist_quiet hH (by intro o ho; simp at ho; subst ho; rfl)
    | streamData fc id d fin => exact streamEvent_hist ops fc id h hH (bodyW_data ops fc d fin)
    | streamReset fc id code => exact streamEvent_hist ops fc id h hH (bodyW_reset ops fc code)
    | connClosed fc code =>
      simp only
      obtain ⟨p1, p2, p3⟩ := connClosedPre_table m fc code
      have hm2 : MuxInv (connClosedPre m fc code).1 := by unfold MuxInv; rw [p1, p2]; exact h
      have hH1 : Hist (connClosedPre m fc code).1.streams (hist ++ (connClosedPre m fc code).2) := by
        rw [p1]; exact hist_quiet hH p3
      have key := fun drop => connClosed_hist ops (sideOf fc) _ _ (.closed (sideOf fc) true) drop hm2 hH1
      simp only [List.append_assoc] at key ⊢
      exact key _

theorem scanT_true_all (t : Bool × Nat) (l : List QOut) (h : scanT t true l = true) : ∀ x ∈ l, sendAt t x = false := by
  induction l with
  | nil => intro x hx; cases hx
  | cons o r ih =>
    simp only [scanT, Bool.true_or, if_true, Bool.and_eq_true, Bool.not_eq_true'] at h
    intro x hx
    rcases List.mem_cons.1 hx with rfl | hx
    · exact h.1
    · exact ih h.2 x hx

theorem hist_nil : Hist ([] : List (Stream σ)) [] :=
  ⟨fun _ h => by simp at h, fun _ => rfl, fun _ h => by cases h⟩

end MitmVerif.C30.Lemmas
