/-
  C30 — the pairing of a NEW client-initiated stream with the C29 relay model as the child (`relayOps`): the first
  event on an unknown client id registers a stream layer whose child has fired its start hook and waits
  (`first_event_registers`); the child answers the completion of that hook with OpenConnection
  (`relay_asks_to_connect`).  Props/C30.lean combines both with `open_connection_pairs_the_stream`.
-/
import MitmVerif.Lemmas.C30
import MitmVerif.Lemmas.C30Fin
set_option linter.unusedSimpArgs false
set_option linter.unusedVariables false
namespace MitmVerif.C30.Lemmas
open MitmVerif MitmVerif.C30
open MitmVerif.C29 (Side Conn)

/-- the TCP child of a stream that has fired its start hook and waits for its completion -/
def Waits (st : C29.State) : Prop :=
  st.phase = .start ∧ st.pending = .startHook ∧ st.connected = false ∧ st.flow = true

theorem c29_start (st : C29.State) (hp : st.phase = .idle) (hf : st.flow = true) :
    C29.step st .start = { C29.emit { st with phase := .start } (.hook .start) with pending := .startHook } := by
  unfold C29.step
  split
  · simp [hf]
  · rename_i h; exact absurd hp h

theorem c29_buffer (st : C29.State) (hp : st.phase = .start) (hq : st.pending = .startHook) (ev : C29.Ev) :
    C29.deliver st ev = { st with queue := st.queue ++ [ev] } := by
  unfold C29.deliver; rw [hq]

theorem c29_data (st : C29.State) (hp : st.phase = .start) (src : Side) (d : Bytes) :
    C29.step st (.data src d) = C29.deliver st (.data src d) := by
  unfold C29.step
  split
  · rename_i h; rw [hp] at h; cases h
  · rfl

theorem c29_closed (st : C29.State) (hp : st.phase = .start) (sd : Side) (f : Bool) :
    C29.step st (.closed sd f) =
      C29.deliver (st.setConn sd (if f then .shut else { st.conn sd with canRead := false })) (.closed sd) := by
  unfold C29.step
  split
  · rename_i h; rw [hp] at h; cases h
  · rfl

theorem c29_starthook (st : C29.State) (hp : st.phase = .start) (hq : st.pending = .startHook) (hc : st.connected = false) :
    C29.step st (.hookDone none) =
      C29.drain st.queue { C29.emit { st with pending := .none } .openServer with pending := .connect } := by
  unfold C29.step
  split
  · rename_i h; rw [hp] at h; cases h
  · simp only [hq, C29.enterRelayOrConnect, hc, Bool.false_eq_true, if_false]
    simp [C29.emit]

theorem c29_drain_paused (q : List C29.Ev) (st : C29.State) (h : st.pending = .connect) :
    C29.drain q st = { st with queue := q } := by
  cases q with
  | nil => simp [C29.drain]
  | cons e t => unfold C29.drain; rw [h]

/-- the child state as `relayOps.step` hands it to the C29 model: the stream's connection states put in, the log emptied -/
def adj (st : C29.State) (c s : Conn) : C29.State := { st with client := c, server := s, connectAs := s, trace := [] }

theorem relay_step_eq (st : C29.State) (c s : Conn) (i : C29.Input) :
    relayOps.step st c s i = ({ C29.step (adj st c s) i with trace := [] }, (C29.step (adj st c s) i).trace) := rfl

theorem relay_start (c s : Conn) :
    (relayOps.step (relayOps.mkStream false) c s .start).2 = [.hook .start] ∧
    Waits (relayOps.step (relayOps.mkStream false) c s .start).1 := by
  rw [relay_step_eq, c29_start (adj (relayOps.mkStream false) c s) rfl rfl]
  simp [C29.emit, adj, relayOps, C29.init, Waits]

theorem relay_buffers (st : C29.State) (h : Waits st) (c s : Conn) (i : C29.Input)
    (hi : (∃ src d, i = .data src d) ∨ (∃ sd f, i = .closed sd f)) :
    (relayOps.step st c s i).2 = [] ∧ Waits (relayOps.step st c s i).1 := by
  obtain ⟨h1, h2, h3, h4⟩ := h
  have a1 : (adj st c s).phase = .start := h1
  have a2 : (adj st c s).pending = .startHook := h2
  rcases hi with ⟨src, d, rfl⟩ | ⟨sd, f, rfl⟩
  · rw [relay_step_eq, c29_data _ a1, c29_buffer _ a1 a2]
    simp [Waits, adj, h1, h2, h3, h4]
  · rw [relay_step_eq, c29_closed _ a1, c29_buffer _ (by cases sd <;> simpa [C29.State.setConn] using a1)
      (by cases sd <;> simpa [C29.State.setConn] using a2)]
    cases sd <;> simp [Waits, adj, C29.State.setConn, h1, h2, h3, h4]

theorem relay_asks_to_connect (st : C29.State) (h : Waits st) (c s : Conn) :
    (relayOps.step st c s (.hookDone none)).2 = [.openServer] := by
  obtain ⟨h1, h2, h3, h4⟩ := h
  have a1 : (adj st c s).phase = .start := h1
  have a2 : (adj st c s).pending = .startHook := h2
  have a3 : (adj st c s).connected = false := h3
  rw [relay_step_eq, c29_starthook _ a1 a2 a3, c29_drain_paused _ _ (by simp [C29.emit])]
  simp [C29.emit, adj]

/-- a freshly registered client-initiated stream whose TCP child waits for its start hook -/
def FreshTS (id : Nat) (n : Next) (ts : TS C29.State) : Prop :=
  ts.s.cid = id ∧ ts.s.sid = none ∧ Waits ts.s.child ∧ ts.next = n ∧ ts.halt = false

theorem translate_nil (ts : TS C29.State) : translate relayOps FUEL ts [] = ts := rfl

theorem fresh_start (id : Nat) (n : Next) (ts : TS C29.State) (h1 : ts.s.cid = id) (h2 : ts.s.sid = none)
    (h3 : ts.s.child = relayOps.mkStream false) (h4 : ts.next = n) (h5 : ts.halt = false) :
    FreshTS id n (eventToChild relayOps ts .start) := by
  unfold eventToChild
  simp only [h5, Bool.false_eq_true, if_false, h3]
  obtain ⟨o, w⟩ := relay_start ts.s.cConn ts.s.sConn
  rw [o]
  simp only [translate, FUEL, List.foldl_cons, List.foldl_nil, procOne, h5, Bool.false_eq_true, if_false]
  exact ⟨h1, h2, w, h4, rfl⟩

theorem fresh_buffer (id : Nat) (n : Next) (ts : TS C29.State) (h : FreshTS id n ts) (i : C29.Input)
    (hi : (∃ src d, i = .data src d) ∨ (∃ sd f, i = .closed sd f)) : FreshTS id n (eventToChild relayOps ts i) := by
  obtain ⟨h1, h2, h3, h4, h5⟩ := h
  unfold eventToChild
  simp only [h5, Bool.false_eq_true, if_false]
  obtain ⟨o, w⟩ := relay_buffers ts.s.child h3 ts.s.cConn ts.s.sConn i hi
  rw [o, translate_nil]
  exact ⟨h1, h2, w, h4, rfl⟩

theorem fresh_close (id : Nat) (n : Next) (ts : TS C29.State) (h : FreshTS id n ts) :
    FreshTS id n (closeLayer relayOps ts .client) := by
  obtain ⟨h1, h2, h3, h4, h5⟩ := h
  unfold closeLayer closeStreamLayer
  simp only [h5, Bool.false_eq_true, if_false]
  have hid : (ts.s.setConn Side.client { ts.s.conn Side.client with canRead := false }).idOf Side.client ≠ none := by
    simp [Stream.idOf, Stream.setConn]
  simp only [hid, if_false]
  split
  · exact ⟨by simpa [Stream.setConn] using h1, by simpa [Stream.setConn] using h2, by simpa [Stream.setConn] using h3, h4, rfl⟩
  · have hw : Waits ((ts.s.setConn Side.client { ts.s.conn Side.client with canRead := false }).setEnded Side.client).child := by
      simpa [Stream.setConn, Stream.setEnded] using h3
    obtain ⟨o, w⟩ := relay_buffers _ hw
      ((ts.s.setConn Side.client { ts.s.conn Side.client with canRead := false }).setEnded Side.client).cConn
      ((ts.s.setConn Side.client { ts.s.conn Side.client with canRead := false }).setEnded Side.client).sConn
      (.closed .client false) (Or.inr ⟨_, _, rfl⟩)
    rw [o, translate_nil]
    exact ⟨by simpa [Stream.setConn, Stream.setEnded] using h1, by simpa [Stream.setConn, Stream.setEnded] using h2, w, h4, rfl⟩

/-- first step: data (with or without FIN) on an unknown client-initiated id registers a layer whose child waits -/
theorem first_event_registers (m : Mux C29.State) (id : Nat) (d : Bytes) (fin : Bool) (hd : m.done = false)
    (hfind : m.find true id = none) (hci : isClientInit id = true) :
    ∃ ts : TS C29.State, FreshTS id m.next ts ∧
      (step relayOps m (.streamData true id d fin)).1.streams = m.streams ++ [ts.s] ∧
      (step relayOps m (.streamData true id d fin)).1.next = m.next ∧
      (step relayOps m (.streamData true id d fin)).1.done = false := by
  unfold step
  simp only [hd, Bool.false_eq_true, if_false]
  unfold streamEvent
  simp only [hfind, hci, bne_self_eq_false, Bool.false_eq_true, if_false, if_true]
  unfold Mux.withStream
  simp only
  -- the body applied to the fresh layer
  have h0 := fresh_start id m.next
    ({ s := { cid := id, sid := none, cConn := clientConnFor id, sConn := Conn.shut, cEnded := false, sEnded := false,
              child := relayOps.mkStream (!true) }, next := m.next, out := [], halt := false } : TS C29.State)
    rfl rfl rfl rfl rfl
  have h1 : FreshTS id m.next
      (if d.isEmpty = true then eventToChild relayOps
          ({ s := { cid := id, sid := none, cConn := clientConnFor id, sConn := Conn.shut, cEnded := false, sEnded := false,
                    child := relayOps.mkStream (!true) }, next := m.next, out := [], halt := false } : TS C29.State) .start
        else eventToChild relayOps (eventToChild relayOps
          ({ s := { cid := id, sid := none, cConn := clientConnFor id, sConn := Conn.shut, cEnded := false, sEnded := false,
                    child := relayOps.mkStream (!true) }, next := m.next, out := [], halt := false } : TS C29.State) .start)
          (.data (sideOf true) d)) := by
    split
    · exact h0
    · exact fresh_buffer id m.next _ h0 _ (Or.inl ⟨_, _, rfl⟩)
  generalize (if d.isEmpty = true then eventToChild relayOps
          ({ s := { cid := id, sid := none, cConn := clientConnFor id, sConn := Conn.shut, cEnded := false, sEnded := false,
                    child := relayOps.mkStream (!true) }, next := m.next, out := [], halt := false } : TS C29.State) .start
        else eventToChild relayOps (eventToChild relayOps
          ({ s := { cid := id, sid := none, cConn := clientConnFor id, sConn := Conn.shut, cEnded := false, sEnded := false,
                    child := relayOps.mkStream (!true) }, next := m.next, out := [], halt := false } : TS C29.State) .start)
          (.data (sideOf true) d)) = ts1 at h1 ⊢
  have h2 : FreshTS id m.next (if fin = true then closeLayer relayOps ts1 (sideOf true) else ts1) := by
    split
    · exact fresh_close id m.next ts1 h1
    · exact h1
  refine ⟨_, h2, ?_, h2.2.2.2.1, hd⟩
  simp [List.set_append_right]

end MitmVerif.C30.Lemmas
