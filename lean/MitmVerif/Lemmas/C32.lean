/-
  C32 — helper lemmas: split / strip / parameter dictionary, and the fact that the header written by the
  UTF-8 fallback of `set_text` parses back to `charset=utf-8`.
-/
import MitmVerif.Model.C32
namespace MitmVerif.C32

/-! ### split1 / splitAll -/

theorem split1_fst_notin (c : Nat) (s : Str) : c ∉ (split1 c s).1 := by
  induction s with
  | nil => simp [split1]
  | cons x r ih =>
    unfold split1
    by_cases h : x = c
    · simp [h]
    · simp only [h, if_false, List.mem_cons, not_or]
      exact ⟨fun e => h e.symm, ih⟩

theorem split1_fst_sub (c : Nat) (s : Str) : ∀ x ∈ (split1 c s).1, x ∈ s := by
  induction s with
  | nil => simp [split1]
  | cons y r ih =>
    unfold split1
    by_cases h : y = c
    · simp [h]
    · simp only [h, if_false, List.mem_cons]
      intro x hx
      rcases hx with rfl | hx
      · exact Or.inl rfl
      · exact Or.inr (ih x hx)

theorem split1_snd_sub (c : Nat) (s : Str) : ∀ r, (split1 c s).2 = some r → ∀ x ∈ r, x ∈ s := by
  induction s with
  | nil => simp [split1]
  | cons y t ih =>
    unfold split1
    by_cases h : y = c
    · simp only [h, if_true]
      intro r hr x hx
      cases hr
      exact List.mem_cons_of_mem _ hx
    · simp only [h, if_false]
      intro r hr x hx
      exact List.mem_cons_of_mem _ (ih r hr x hx)

theorem split1_append (c : Nat) (a r : Str) (h : c ∉ a) : split1 c (a ++ c :: r) = (a, some r) := by
  induction a with
  | nil => simp [split1]
  | cons x a ih =>
    have hx : x ≠ c := fun e => h (by simp [e])
    have ha : c ∉ a := fun e => h (List.mem_cons_of_mem _ e)
    simp [split1, hx, ih ha]

theorem splitAll_ne_nil (c : Nat) (s : Str) : splitAll c s ≠ [] := by
  cases s with
  | nil => simp [splitAll]
  | cons x r => unfold splitAll; split <;> simp

theorem splitAll_pieces (c : Nat) (s : Str) : ∀ p ∈ splitAll c s, c ∉ p := by
  induction s with
  | nil => simp [splitAll]
  | cons x r ih =>
    unfold splitAll
    by_cases h : x = c
    · simp only [h, if_true, List.mem_cons]
      intro p hp
      rcases hp with rfl | hp
      · simp
      · exact ih p hp
    · simp only [h, if_false, List.mem_cons]
      intro p hp
      rcases hp with rfl | hp
      · have hne := splitAll_ne_nil c r
        cases hs : splitAll c r with
        | nil => exact absurd hs hne
        | cons q qs =>
          simp only [List.headD_cons, List.mem_cons, not_or]
          exact ⟨fun e => h e.symm, ih q (by simp [hs])⟩
      · exact ih p (List.mem_of_mem_tail hp)

theorem splitAll_notin (c : Nat) (a : Str) (h : c ∉ a) : splitAll c a = [a] := by
  induction a with
  | nil => simp [splitAll]
  | cons x a ih =>
    have hx : x ≠ c := fun e => h (by simp [e])
    have ha : c ∉ a := fun e => h (List.mem_cons_of_mem _ e)
    simp [splitAll, hx, ih ha]

theorem splitAll_append (c : Nat) (a r : Str) (h : c ∉ a) : splitAll c (a ++ c :: r) = a :: splitAll c r := by
  induction a with
  | nil => simp [splitAll]
  | cons x a ih =>
    have hx : x ≠ c := fun e => h (by simp [e])
    have ha : c ∉ a := fun e => h (List.mem_cons_of_mem _ e)
    simp [splitAll, hx, ih ha]

/-! ### strip -/

theorem dropWhile_sub (p : Nat → Bool) (s : Str) : ∀ x ∈ s.dropWhile p, x ∈ s := by
  induction s with
  | nil => simp
  | cons y r ih =>
    intro x hx
    by_cases h : p y = true
    · rw [List.dropWhile_cons_of_pos h] at hx
      exact List.mem_cons_of_mem _ (ih x hx)
    · rw [List.dropWhile_cons_of_neg h] at hx
      exact hx

theorem length_dropWhile_le' (p : Nat → Bool) (s : Str) : (s.dropWhile p).length ≤ s.length := by
  induction s with
  | nil => simp
  | cons y r ih =>
    by_cases h : p y = true
    · rw [List.dropWhile_cons_of_pos h]; simp; omega
    · rw [List.dropWhile_cons_of_neg h]; simp

theorem dropWhile_idem (p : Nat → Bool) (s : Str) : (s.dropWhile p).dropWhile p = s.dropWhile p := by
  induction s with
  | nil => simp
  | cons y r ih =>
    by_cases h : p y = true
    · rw [List.dropWhile_cons_of_pos h]; exact ih
    · rw [List.dropWhile_cons_of_neg h, List.dropWhile_cons_of_neg h]

theorem strip_sub (s : Str) : ∀ x ∈ strip s, x ∈ s := by
  intro x hx
  unfold strip rstrip lstrip at hx
  have h1 := dropWhile_sub isSpace _ x (List.mem_reverse.mp hx)
  exact dropWhile_sub isSpace _ x (List.mem_reverse.mp h1)

theorem rstrip_idem (s : Str) : rstrip (rstrip s) = rstrip s := by
  unfold rstrip
  rw [List.reverse_reverse, dropWhile_idem]

/-- `rstrip a` is a prefix of `a` -/
theorem rstrip_prefix (a : Str) : ∃ t, a = rstrip a ++ t := by
  refine ⟨(a.reverse.takeWhile isSpace).reverse, ?_⟩
  unfold rstrip
  rw [← List.reverse_append, List.takeWhile_append_dropWhile, List.reverse_reverse]

theorem lstrip_eq_self_iff (a : Str) : lstrip a = a ↔ ∀ h t, a = h :: t → isSpace h = false := by
  cases a with
  | nil => simp [lstrip]
  | cons x r =>
    unfold lstrip
    by_cases h : isSpace x = true
    · rw [List.dropWhile_cons_of_pos h]
      constructor
      · intro e
        have : (List.dropWhile isSpace r).length ≤ r.length := length_dropWhile_le' _ _
        rw [e] at this; simp at this; omega
      · intro e
        have := e x r rfl
        rw [this] at h; cases h
    · rw [List.dropWhile_cons_of_neg h]
      constructor
      · intro _ h' t e
        cases e
        simpa using h
      · intro _; rfl

theorem strip_idem (s : Str) : strip (strip s) = strip s := by
  unfold strip
  have h1 : lstrip (lstrip s) = lstrip s := dropWhile_idem _ _
  have h2 : lstrip (rstrip (lstrip s)) = rstrip (lstrip s) := by
    obtain ⟨t, ht⟩ := rstrip_prefix (lstrip s)
    rw [lstrip_eq_self_iff]
    intro h tl e
    have := (lstrip_eq_self_iff (lstrip s)).mp h1
    rw [e] at ht
    exact this h (tl ++ t) (by rw [ht]; rfl)
  rw [h2, rstrip_idem]

theorem isSpace_32 : isSpace 32 = true := by decide

theorem strip_space_cons (k : Str) : strip (32 :: k) = strip k := by
  unfold strip lstrip
  rw [List.dropWhile_cons_of_pos isSpace_32]

/-! ### the parameter dictionary -/

theorem mem_dictSet (d : Dict) (k v : Str) : ∀ e ∈ dictSet d k v, e ∈ d ∨ e = (k, v) := by
  intro e he
  unfold dictSet at he
  split at he
  · rw [List.mem_map] at he
    obtain ⟨e0, h0, h1⟩ := he
    split at h1
    · exact Or.inr h1.symm
    · exact Or.inl (h1 ▸ h0)
  · rw [List.mem_append] at he
    rcases he with he | he
    · exact Or.inl he
    · exact Or.inr (by simpa using he)

/-- after `d[k] = v` every entry with key `k` carries `v`, and there is one -/
theorem dictSet_key (d : Dict) (k v : Str) : (∀ e ∈ dictSet d k v, e.1 = k → e.2 = v) ∧ (∃ e ∈ dictSet d k v, e.1 = k) := by
  unfold dictSet
  by_cases h : d.any (fun e => e.1 == k) = true
  · simp only [h, if_true]
    constructor
    · intro e he hk
      rw [List.mem_map] at he
      obtain ⟨e0, _, h1⟩ := he
      by_cases hk0 : (e0.1 == k) = true
      · simp only [hk0, if_true] at h1; rw [← h1]
      · simp only [hk0] at h1
        rw [← h1] at hk
        exact absurd (by simpa using hk) hk0
    · rw [List.any_eq_true] at h
      obtain ⟨e0, h0, h1⟩ := h
      exact ⟨(k, v), List.mem_map.mpr ⟨e0, h0, by simp [h1]⟩, rfl⟩
  · simp only [h, Bool.false_eq_true, if_false]
    constructor
    · intro e he hk
      rw [List.mem_append] at he
      rcases he with he | he
      · exfalso; apply h
        rw [List.any_eq_true]
        exact ⟨e, he, by simpa using hk⟩
      · have : e = (k, v) := by simpa using he
        rw [this]
    · exact ⟨(k, v), by simp, rfl⟩

theorem dictSet_has (d : Dict) (k v c : Str) (h : ∃ e ∈ d, e.1 = c) : ∃ e ∈ dictSet d k v, e.1 = c := by
  obtain ⟨e, he, hc⟩ := h
  unfold dictSet
  split
  · by_cases hk : (e.1 == k) = true
    · exact ⟨(k, v), List.mem_map.mpr ⟨e, he, by simp [hk]⟩, by rw [← hc]; exact (by simpa using hk : e.1 = k).symm⟩
    · exact ⟨e, List.mem_map.mpr ⟨e, he, by simp [hk]⟩, hc⟩
  · exact ⟨e, List.mem_append_left _ he, hc⟩

theorem dictGet_of (d : Dict) (c v : Str) (hall : ∀ e ∈ d, e.1 = c → e.2 = v) (hex : ∃ e ∈ d, e.1 = c) :
    dictGet d c = some v := by
  unfold dictGet
  cases hf : d.find? (fun e => e.1 == c) with
  | none =>
    obtain ⟨e, he, hc⟩ := hex
    have := List.find?_eq_none.mp hf e he
    simp [hc] at this
  | some e =>
    have hm := List.mem_of_find?_eq_some hf
    have hp := List.find?_some hf
    simp only [Option.map_some]
    rw [hall e hm (by simpa using hp)]

/-- a well-formed parameter: what `parse_content_type` can produce -/
def WFE (e : Str × Str) : Prop := 59 ∉ e.1 ∧ 61 ∉ e.1 ∧ strip e.1 = e.1 ∧ 59 ∉ e.2

theorem wfe_dictSet (d : Dict) (k v : Str) (hd : ∀ e ∈ d, WFE e) (hkv : WFE (k, v)) : ∀ e ∈ dictSet d k v, WFE e := by
  intro e he
  rcases mem_dictSet d k v e he with h | h
  · exact hd e h
  · rw [h]; exact hkv

theorem wfe_addClause (d : Dict) (i : Str) (hd : ∀ e ∈ d, WFE e) (hi : 59 ∉ i) : ∀ e ∈ addClause d i, WFE e := by
  unfold addClause
  cases h2 : (split1 61 i).2 with
  | none =>
    have : split1 61 i = ((split1 61 i).1, none) := by rw [← h2]
    rw [this]; exact hd
  | some v =>
    have : split1 61 i = ((split1 61 i).1, some v) := by rw [← h2]
    rw [this]
    apply wfe_dictSet d _ _ hd
    refine ⟨?_, ?_, strip_idem _, ?_⟩
    · intro hm; exact hi (split1_fst_sub 61 i _ (strip_sub _ _ hm))
    · intro hm; exact split1_fst_notin 61 i (strip_sub _ _ hm)
    · intro hm; exact hi (split1_snd_sub 61 i v h2 _ (strip_sub _ _ hm))

theorem wfe_foldl (ps : List Str) (d : Dict) (hd : ∀ e ∈ d, WFE e) (hp : ∀ p ∈ ps, 59 ∉ p) :
    ∀ e ∈ ps.foldl addClause d, WFE e := by
  induction ps generalizing d with
  | nil => simpa using hd
  | cons p ps ih =>
    simp only [List.foldl_cons]
    exact ih _ (wfe_addClause d p hd (hp p (by simp))) (fun q hq => hp q (List.mem_cons_of_mem _ hq))

private theorem pyLower_outputs_ge : ∀ e ∈ Gen.C32.pyLower, ∀ y ∈ e.2, 65 ≤ y := by decide +kernel

theorem lowerC_mem (c x : Nat) (hc : c < 65) (h : c ∈ lowerC x) : x = c := by
  unfold lowerC at h
  by_cases hx : x < 128
  · simp only [hx, if_true, List.mem_singleton] at h
    split at h <;> omega
  · simp only [hx, if_false] at h
    cases hf : Gen.C32.pyLower.find? (fun e => e.1 == x) with
    | none => rw [hf] at h; simp only [List.mem_singleton] at h; omega
    | some e =>
      rw [hf] at h
      have := pyLower_outputs_ge e (List.mem_of_find?_eq_some hf) c h
      omega

theorem lower_notin (c : Nat) (s : Str) (hc : c < 65) (h : c ∉ s) : c ∉ lower s := by
  unfold lower
  intro hm
  rw [List.mem_flatMap] at hm
  obtain ⟨x, hx, he⟩ := hm
  exact h (lowerC_mem c x hc he ▸ hx)

/-- what `parse_content_type` returns is well formed -/
theorem parse_wf (c ty sub : Str) (d : Dict) (h : parseContentType c = some (ty, sub, d)) :
    59 ∉ ty ∧ 47 ∉ ty ∧ 59 ∉ sub ∧ ∀ e ∈ d, WFE e := by
  unfold parseContentType at h
  have h59 := split1_fst_notin 59 c
  cases h2 : (split1 47 (split1 59 c).1).2 with
  | none =>
    have : split1 47 (split1 59 c).1 = ((split1 47 (split1 59 c).1).1, none) := by rw [← h2]
    rw [this] at h; cases h
  | some s0 =>
    have e : split1 47 (split1 59 c).1 = ((split1 47 (split1 59 c).1).1, some s0) := by rw [← h2]
    rw [e] at h
    simp only [Option.some.injEq, Prod.mk.injEq] at h
    obtain ⟨h_ty, h_sub, h_d⟩ := h
    refine ⟨?_, ?_, ?_, ?_⟩
    · rw [← h_ty]; exact lower_notin 59 _ (by omega) (fun hm => h59 (split1_fst_sub 47 _ _ hm))
    · rw [← h_ty]; exact lower_notin 47 _ (by omega) (split1_fst_notin 47 _)
    · rw [← h_sub]; exact lower_notin 59 _ (by omega) (fun hm => h59 (split1_snd_sub 47 _ s0 h2 _ hm))
    · rw [← h_d]
      cases h3 : (split1 59 c).2 with
      | none => simp
      | some ps =>
        simp only
        exact wfe_foldl _ [] (by simp) (splitAll_pieces 59 ps)

/-! ### parse ∘ assemble -/

theorem kv_notin59 (e : Str × Str) (h : WFE e) : 59 ∉ (32 :: kv e) := by
  obtain ⟨h1, _, _, h4⟩ := h
  unfold kv
  simp only [List.mem_cons, List.mem_append, not_or]
  exact ⟨by omega, h1, by omega, h4⟩

theorem splitAll_join (d : Dict) (hd : ∀ e ∈ d, WFE e) (hne : d ≠ []) :
    splitAll 59 (32 :: joinParams d) = d.map (fun e => 32 :: kv e) := by
  induction d with
  | nil => exact absurd rfl hne
  | cons e r ih =>
    have he := kv_notin59 e (hd e (by simp))
    cases r with
    | nil => simp only [joinParams, List.map_cons, List.map_nil]; exact splitAll_notin 59 _ he
    | cons e2 r2 =>
      have : (32 :: joinParams (e :: e2 :: r2)) = (32 :: kv e) ++ 59 :: (32 :: joinParams (e2 :: r2)) := by
        simp [joinParams]
      rw [this, splitAll_append 59 _ _ he, ih (fun x hx => hd x (List.mem_cons_of_mem _ hx)) (by simp)]
      simp

theorem addClause_kv (acc : Dict) (e : Str × Str) (h : WFE e) :
    addClause acc (32 :: kv e) = dictSet acc e.1 (strip e.2) := by
  obtain ⟨_, h2, h3, _⟩ := h
  unfold addClause kv
  have : (32 :: (e.1 ++ 61 :: e.2)) = (32 :: e.1) ++ 61 :: e.2 := by simp
  rw [this, split1_append 61 (32 :: e.1) e.2 (by simp only [List.mem_cons, not_or]; exact ⟨by omega, h2⟩)]
  simp only
  rw [strip_space_cons, h3]

/-- re-reading the parameters: if every `c` entry carries `v` (a fixed point of strip) and there is one (already read, or
    still to come), the lookup of `c` gives `v` -/
theorem foldl_reparse (c v : Str) (hv : strip v = v) (es : Dict) (acc : Dict)
    (hes : ∀ e ∈ es, WFE e) (hesv : ∀ e ∈ es, e.1 = c → e.2 = v)
    (hacc : ∀ e ∈ acc, e.1 = c → e.2 = v) (hex : (∃ e ∈ es, e.1 = c) ∨ (∃ e ∈ acc, e.1 = c)) :
    dictGet ((es.map (fun e => 32 :: kv e)).foldl addClause acc) c = some v := by
  induction es generalizing acc with
  | nil =>
    simp only [List.map_nil, List.foldl_nil]
    rcases hex with ⟨e, he, _⟩ | hex
    · simp at he
    · exact dictGet_of acc c v hacc hex
  | cons e r ih =>
    simp only [List.map_cons, List.foldl_cons]
    rw [addClause_kv acc e (hes e (by simp))]
    apply ih
    · exact fun x hx => hes x (List.mem_cons_of_mem _ hx)
    · exact fun x hx => hesv x (List.mem_cons_of_mem _ hx)
    · intro x hx hxc
      rcases mem_dictSet acc e.1 (strip e.2) x hx with h | h
      · exact hacc x h hxc
      · rw [h] at hxc ⊢
        simp only at hxc ⊢
        rw [hesv e (by simp) hxc, hv]
    · rcases hex with ⟨x, hx, hxc⟩ | hex
      · rcases List.mem_cons.mp hx with rfl | hx
        · right
          obtain ⟨_, y, hy, hyk⟩ := dictSet_key acc x.1 (strip x.2)
          exact ⟨y, hy, hyk.trans hxc⟩
        · exact Or.inl ⟨x, hx, hxc⟩
      · exact Or.inr (dictSet_has acc _ _ c hex)

/-- **parse ∘ assemble** for the charset: a header assembled from well-formed parts whose parameters carry
    `charset=utf-8` parses to that charset -/
theorem headerCharset_assemble (ty sub : Str) (d : Dict) (h1 : 59 ∉ ty) (h2 : 47 ∉ ty) (h3 : 59 ∉ sub)
    (hd : ∀ e ∈ d, WFE e) :
    headerCharset (assembleContentType ty sub (dictSet d (S "charset") (S "utf-8"))) = S "utf-8" := by
  have hwf : WFE (S "charset", S "utf-8") := by
    refine ⟨by decide, by decide, by decide, by decide⟩
  have hd' := wfe_dictSet d _ _ hd hwf
  obtain ⟨hall, hex⟩ := dictSet_key d (S "charset") (S "utf-8")
  have hne : dictSet d (S "charset") (S "utf-8") ≠ [] := by
    obtain ⟨e, he, _⟩ := hex
    intro hn; rw [hn] at he; simp at he
  generalize dictSet d (S "charset") (S "utf-8") = d' at *
  unfold headerCharset assembleContentType parseContentType
  have hemp : d'.isEmpty = false := by cases d' <;> simp_all
  simp only [hemp, Bool.false_eq_true, if_false]
  have e1 : ty ++ 47 :: (sub ++ 59 :: 32 :: joinParams d') = (ty ++ 47 :: sub) ++ 59 :: (32 :: joinParams d') := by simp
  have hts : 59 ∉ ty ++ 47 :: sub := by
    simp only [List.mem_append, List.mem_cons, not_or]; exact ⟨h1, by omega, h3⟩
  rw [e1, split1_append 59 _ _ hts]
  simp only
  rw [split1_append 47 ty sub h2]
  simp only
  rw [splitAll_join d' hd' hne]
  rw [foldl_reparse (S "charset") (S "utf-8") (by decide) d' [] hd' hall (by simp) (Or.inl hex)]
  rfl

theorem headerCharset_fallback (ct : Str) : headerCharset (fallbackHeader ct) = S "utf-8" := by
  unfold fallbackHeader
  cases h : parseContentType ct with
  | none =>
    simp only [Option.getD_none]
    exact headerCharset_assemble _ _ [] (by decide) (by decide) (by decide) (by simp)
  | some r =>
    obtain ⟨ty, sub, d⟩ := r
    obtain ⟨a, b, c, e⟩ := parse_wf ct ty sub d h
    simp only [Option.getD_some]
    exact headerCharset_assemble ty sub d a b c e

/-- without a body the inference follows a non-empty header charset (modulo the gb2312/gbk alias) -/
theorem infer_nobody_of_charset (ct : Str) (h : headerCharset ct ≠ []) :
    inferEncoding ct [] = gbFix (headerCharset ct) := by
  have he : (headerCharset ct).isEmpty = false := by
    cases hc : headerCharset ct with
    | nil => exact absurd hc h
    | cons _ _ => rfl
  unfold inferEncoding
  have hb : bomName [] = none := by decide
  simp only [hb, he, Bool.false_and, Bool.false_eq_true, if_false]

theorem infer_fallback (ct : Str) : inferEncoding (fallbackHeader ct) [] = S "utf-8" := by
  rw [infer_nobody_of_charset _ (by rw [headerCharset_fallback]; decide), headerCharset_fallback]
  decide

end MitmVerif.C32
