/-
  C33 — the re-assembly of what follows the netloc (`normRestPy` = urlunparse ∘ urlparse on the path/params/query/fragment part)
  is idempotent and commutes with a leading `/`; hence the path that `url.parse` stores is a fixed point of it.
-/
import MitmVerif.Model.C33
namespace MitmVerif.C33

/-! ### partition -/
theorem partition_fst_notin (c : Nat) (s : Str) : c ∉ (partition c s).1 := by
  induction s with
  | nil => simp [partition]
  | cons x r ih =>
    unfold partition
    by_cases h : x = c
    · simp [h]
    · simp only [h, if_false, List.mem_cons, not_or]
      exact ⟨fun e => h e.symm, ih⟩

theorem partition_fst_sub (c : Nat) (s : Str) : ∀ x ∈ (partition c s).1, x ∈ s := by
  induction s with
  | nil => simp [partition]
  | cons y r ih =>
    unfold partition
    by_cases h : y = c
    · simp [h]
    · simp only [h, if_false, List.mem_cons]
      intro x hx
      rcases hx with rfl | hx
      · exact Or.inl rfl
      · exact Or.inr (ih x hx)

theorem partition_snd_sub (c : Nat) (s : Str) : ∀ x ∈ (partition c s).2.2, x ∈ s := by
  induction s with
  | nil => simp [partition]
  | cons y r ih =>
    unfold partition
    by_cases h : y = c
    · simp only [h, if_true]; intro x hx; exact List.mem_cons_of_mem _ hx
    · simp only [h, if_false]; intro x hx; exact List.mem_cons_of_mem _ (ih x hx)

theorem partition_notin' (c : Nat) (a : Str) (h : c ∉ a) : partition c a = (a, false, []) := by
  induction a with
  | nil => rfl
  | cons x a ih =>
    have hx : x ≠ c := fun e => h (by simp [e])
    have := ih (fun m => h (List.mem_cons_of_mem _ m))
    simp [partition, hx, this]

theorem partition_stop' (c : Nat) (a r : Str) (h : c ∉ a) : partition c (a ++ c :: r) = (a, true, r) := by
  induction a with
  | nil => simp [partition]
  | cons x a ih =>
    have hx : x ≠ c := fun e => h (by simp [e])
    have := ih (fun m => h (List.mem_cons_of_mem _ m))
    simp [partition, hx, this]

/-- a string is its part before the first `c`, the `c` if found, and the part after it -/
theorem partition_spec (c : Nat) (s : Str) :
    s = (partition c s).1 ++ (if (partition c s).2.1 then c :: (partition c s).2.2 else []) ∧
      ((partition c s).2.1 = false → (partition c s).2.2 = []) := by
  induction s with
  | nil => simp [partition]
  | cons x r ih =>
    unfold partition
    by_cases h : x = c
    · simp [h]
    · simp only [h, if_false, List.cons_append]
      exact ⟨by rw [← ih.1], ih.2⟩

/-- re-reading `a ++ sfx c x`: before the first `c` is `a`, after it `x` -/
theorem partition_sfx (c : Nat) (a x : Str) (h : c ∉ a) :
    (partition c (a ++ sfx c x)).1 = a ∧ (partition c (a ++ sfx c x)).2.2 = x := by
  unfold sfx
  by_cases hx : x = []
  · simp [hx, partition_notin' c a h]
  · simp only [hx, if_false]; rw [partition_stop' c a x h]; exact ⟨rfl, rfl⟩

theorem partition_cons_ne (c d : Nat) (s : Str) (h : d ≠ c) :
    partition c (d :: s) = (d :: (partition c s).1, (partition c s).2.1, (partition c s).2.2) := by
  simp [partition, h]

/-! ### the last `/` -/
theorem lastSlash_append (u : Str) : (lastSlash u).1 ++ (lastSlash u).2 = u := by
  induction u with
  | nil => rfl
  | cons c r ih =>
    unfold lastSlash
    by_cases h1 : (lastSlash r).1 = []
    · rw [h1] at ih
      by_cases hc : c = 47
      · simp only [h1, hc, if_true]; simpa using ih
      · simp only [h1, hc, if_true, if_false]; simpa using ih
    · simp only [h1, if_false, List.cons_append, ih]

theorem lastSlash_snd_notin (u : Str) : 47 ∉ (lastSlash u).2 := by
  induction u with
  | nil => simp [lastSlash]
  | cons c r ih =>
    unfold lastSlash
    by_cases h1 : (lastSlash r).1 = []
    · by_cases hc : c = 47
      · simp only [h1, hc, if_true]; exact ih
      · simp only [h1, hc, if_true, if_false, List.mem_cons, not_or]; exact ⟨fun e => hc e.symm, ih⟩
    · simp only [h1, if_false]; exact ih

/-- the first component is empty or ends with `/` -/
theorem lastSlash_fst_ends (u : Str) : (lastSlash u).1 = [] ∨ (lastSlash u).1.getLast? = some 47 := by
  induction u with
  | nil => left; rfl
  | cons c r ih =>
    unfold lastSlash
    by_cases h1 : (lastSlash r).1 = []
    · by_cases hc : c = 47
      · simp [h1, hc]
      · simp [h1, hc]
    · simp only [h1, if_false]
      right
      rcases ih with h | h
      · exact absurd h h1
      · rw [List.getLast?_cons_of_ne_nil h1]; exact h
        
theorem lastSlash_cons47 (u : Str) : lastSlash (47 :: u) = (47 :: (lastSlash u).1, (lastSlash u).2) := by
  conv => lhs; unfold lastSlash
  by_cases h1 : (lastSlash u).1 = []
  · simp [h1]
  · simp [h1]

theorem lastSlash_noslash (a : Str) (h : 47 ∉ a) : lastSlash a = ([], a) := by
  induction a with
  | nil => rfl
  | cons c a ih =>
    have hc : c ≠ 47 := fun e => h (by simp [e])
    have := ih (fun m => h (List.mem_cons_of_mem _ m))
    unfold lastSlash
    simp [this, hc]

theorem lastSlash_of_parts (h a : Str) (hh : h = [] ∨ h.getLast? = some 47) (ha : 47 ∉ a) : lastSlash (h ++ a) = (h, a) := by
  induction h with
  | nil => simpa using lastSlash_noslash a ha
  | cons c h' ih =>
    have hlast : (c :: h').getLast? = some 47 := by
      rcases hh with e | e
      · cases e
      · exact e
    by_cases hn : h' = []
    · subst hn
      have hc : c = 47 := by simpa using hlast
      subst hc
      simp only [List.cons_append, List.nil_append]
      rw [lastSlash_cons47, lastSlash_noslash a ha]
    · have hl' : h'.getLast? = some 47 := by
        rw [List.getLast?_cons_of_ne_nil hn] at hlast; exact hlast
      have := ih (Or.inr hl')
      simp only [List.cons_append]
      unfold lastSlash
      rw [this]
      simp [hn]

/-! ### `;params` -/
theorem splitParams_sub (u : Str) : (∀ x ∈ (splitParams u).1, x ∈ u) ∧ (∀ x ∈ (splitParams u).2, x ∈ u) := by
  unfold splitParams
  have hu := lastSlash_append u
  by_cases hf : (partition 59 (lastSlash u).2).2.1 = true
  · simp only [hf, if_true]
    constructor
    · intro x hx
      rw [← hu]
      rcases List.mem_append.mp hx with h | h
      · exact List.mem_append_left _ h
      · exact List.mem_append_right _ (partition_fst_sub 59 _ x h)
    · intro x hx
      rw [← hu]
      exact List.mem_append_right _ (partition_snd_sub 59 _ x hx)
  · simp only [hf, Bool.false_eq_true, if_false]
    exact ⟨fun x hx => hx, fun x hx => by cases hx⟩

/-- re-reading `path ++ sfx ';' params` gives the same path and params -/
theorem splitParams_rejoin (u : Str) :
    splitParams ((splitParams u).1 ++ sfx 59 (splitParams u).2) = splitParams u := by
  have hu := lastSlash_append u
  have hends := lastSlash_fst_ends u
  have hno := lastSlash_snd_notin u
  have hspec := partition_spec 59 (lastSlash u).2
  by_cases hf : (partition 59 (lastSlash u).2).2.1 = true
  · have hsp : splitParams u = ((lastSlash u).1 ++ (partition 59 (lastSlash u).2).1, (partition 59 (lastSlash u).2).2.2) := by
      unfold splitParams; simp [hf]
    rw [hsp]
    simp only
    by_cases hp : (partition 59 (lastSlash u).2).2.2 = []
    · -- an empty parameter section is dropped; the path then has no `;` after its last `/`
      simp only [hp, sfx, if_true, List.append_nil]
      have ha47 : 47 ∉ (partition 59 (lastSlash u).2).1 := fun m => hno (partition_fst_sub 59 _ _ m)
      have ha59 := partition_fst_notin 59 (lastSlash u).2
      unfold splitParams
      rw [lastSlash_of_parts _ _ hends ha47]
      simp only [partition_notin' 59 _ ha59, Bool.false_eq_true, if_false]
    · have e : (lastSlash u).1 ++ (partition 59 (lastSlash u).2).1 ++ sfx 59 (partition 59 (lastSlash u).2).2.2 = u := by
        simp only [sfx, hp, if_false]
        have := hspec.1
        simp only [hf, if_true] at this
        rw [List.append_assoc, ← this, hu]
      rw [e, hsp]
  · have hf' : (partition 59 (lastSlash u).2).2.1 = false := by simpa using hf
    have hsp : splitParams u = (u, []) := by unfold splitParams; simp [hf']
    rw [hsp]
    simp [sfx, hsp]

theorem splitParams_cons47 (u : Str) : splitParams (47 :: u) = (47 :: (splitParams u).1, (splitParams u).2) := by
  unfold splitParams
  rw [lastSlash_cons47]
  by_cases hf : (partition 59 (lastSlash u).2).2.1 = true
  · simp [hf]
  · simp [hf]

/-! ### normRestPy -/
theorem normRestPy_cons47 (s y : Str) : normRestPy s (47 :: y) = 47 :: normRestPy s y := by
  unfold normRestPy
  rw [partition_cons_ne 35 47 y (by decide)]
  simp only
  rw [partition_cons_ne 63 47 _ (by decide)]
  simp only
  by_cases hu : usesParams s = true
  · simp only [hu, if_true, splitParams_cons47, List.cons_append]
  · simp only [hu, Bool.false_eq_true, if_false, List.cons_append]

/-- **re-assembling twice is re-assembling once** -/
theorem normRestPy_idem (s r : Str) : normRestPy s (normRestPy s r) = normRestPy s r := by
  -- the four components of r
  let f := partition 35 r
  let q := partition 63 f.1
  let ap : Str × Str := if usesParams s then splitParams q.1 else (q.1, [])
  have hN : normRestPy s r = ap.1 ++ sfx 59 ap.2 ++ sfx 63 q.2.2 ++ sfx 35 f.2.2 := rfl
  have hf35 : 35 ∉ f.1 := partition_fst_notin 35 r
  have hq63 : 63 ∉ q.1 := partition_fst_notin 63 f.1
  have hq_sub : ∀ x ∈ q.1, x ∈ f.1 := partition_fst_sub 63 f.1
  have hQ_sub : ∀ x ∈ q.2.2, x ∈ f.1 := partition_snd_sub 63 f.1
  have hap_sub : (∀ x ∈ ap.1, x ∈ q.1) ∧ (∀ x ∈ ap.2, x ∈ q.1) := by
    show (∀ x ∈ (if usesParams s then splitParams q.1 else (q.1, [])).1, x ∈ q.1) ∧
      (∀ x ∈ (if usesParams s then splitParams q.1 else (q.1, [])).2, x ∈ q.1)
    by_cases hu : usesParams s = true
    · simp only [hu, if_true]; exact splitParams_sub q.1
    · simp only [hu, Bool.false_eq_true, if_false]; exact ⟨fun x hx => hx, fun x hx => by cases hx⟩
  have sfx_mem : ∀ (c : Nat) (x : Str) (y : Nat), y ∈ sfx c x → y = c ∨ y ∈ x := by
    intro c x y hy
    unfold sfx at hy
    by_cases hx : x = []
    · simp [hx] at hy
    · simp only [hx, if_false, List.mem_cons] at hy; exact hy
  -- no '#' before the fragment, no '?' before the query
  have h35 : 35 ∉ ap.1 ++ sfx 59 ap.2 ++ sfx 63 q.2.2 := by
    intro m
    simp only [List.mem_append] at m
    rcases m with (m | m) | m
    · exact hf35 (hq_sub _ (hap_sub.1 _ m))
    · rcases sfx_mem 59 _ _ m with e | e
      · cases e
      · exact hf35 (hq_sub _ (hap_sub.2 _ e))
    · rcases sfx_mem 63 _ _ m with e | e
      · cases e
      · exact hf35 (hQ_sub _ e)
  have h63 : 63 ∉ ap.1 ++ sfx 59 ap.2 := by
    intro m
    simp only [List.mem_append] at m
    rcases m with m | m
    · exact hq63 (hap_sub.1 _ m)
    · rcases sfx_mem 59 _ _ m with e | e
      · cases e
      · exact hq63 (hap_sub.2 _ e)
  obtain ⟨p1, p2⟩ := partition_sfx 35 _ f.2.2 h35
  obtain ⟨p3, p4⟩ := partition_sfx 63 _ q.2.2 h63
  have hap : (if usesParams s then splitParams (ap.1 ++ sfx 59 ap.2) else (ap.1 ++ sfx 59 ap.2, [])) = ap := by
    show (if usesParams s then splitParams ((if usesParams s then splitParams q.1 else (q.1, [])).1 ++
        sfx 59 (if usesParams s then splitParams q.1 else (q.1, [])).2) else
        ((if usesParams s then splitParams q.1 else (q.1, [])).1 ++ sfx 59 (if usesParams s then splitParams q.1 else (q.1, [])).2, [])) =
        (if usesParams s then splitParams q.1 else (q.1, []))
    by_cases hu : usesParams s = true
    · simp only [hu, if_true]; exact splitParams_rejoin q.1
    · simp only [hu, Bool.false_eq_true, if_false, sfx, if_true, List.append_nil]
  rw [hN]
  conv => lhs; unfold normRestPy
  simp only [p1, p2, p3, p4, hap]

/-- the path `url.parse` stores — the re-assembled rest, with a `/` put in front if it lacks one — is a fixed point of the re-assembly -/
theorem normRestPy_stored (s r : Str) :
    normRestPy s (if (normRestPy s r).head? = some 47 then normRestPy s r else 47 :: normRestPy s r) =
      (if (normRestPy s r).head? = some 47 then normRestPy s r else 47 :: normRestPy s r) := by
  by_cases h : (normRestPy s r).head? = some 47
  · simp only [h, if_true]; exact normRestPy_idem s r
  · simp only [h, if_false]; rw [normRestPy_cons47, normRestPy_idem]

/-- the re-assembled text consists of characters of the original and the three delimiters -/
theorem normRestPy_sub (s r : Str) : ∀ x ∈ normRestPy s r, x ∈ r ∨ x = 59 ∨ x = 63 ∨ x = 35 := by
  intro x hx
  have sfx_mem : ∀ (c : Nat) (z : Str) (y : Nat), y ∈ sfx c z → y = c ∨ y ∈ z := by
    intro c z y hy
    unfold sfx at hy
    by_cases hz : z = []
    · simp [hz] at hy
    · simp only [hz, if_false, List.mem_cons] at hy; exact hy
  have hf1 := partition_fst_sub 35 r
  have hf2 := partition_snd_sub 35 r
  have hq1 := partition_fst_sub 63 (partition 35 r).1
  have hq2 := partition_snd_sub 63 (partition 35 r).1
  have hap : (∀ y ∈ (if usesParams s then splitParams (partition 63 (partition 35 r).1).1 else ((partition 63 (partition 35 r).1).1, [])).1,
        y ∈ (partition 63 (partition 35 r).1).1) ∧
      (∀ y ∈ (if usesParams s then splitParams (partition 63 (partition 35 r).1).1 else ((partition 63 (partition 35 r).1).1, [])).2,
        y ∈ (partition 63 (partition 35 r).1).1) := by
    by_cases hu : usesParams s = true
    · simp only [hu, if_true]; exact splitParams_sub _
    · simp only [hu, Bool.false_eq_true, if_false]; exact ⟨fun y hy => hy, fun y hy => by cases hy⟩
  unfold normRestPy at hx
  simp only [List.mem_append] at hx
  rcases hx with ((hx | hx) | hx) | hx
  · exact Or.inl (hf1 _ (hq1 _ (hap.1 _ hx)))
  · rcases sfx_mem 59 _ _ hx with e | e
    · exact Or.inr (Or.inl e)
    · exact Or.inl (hf1 _ (hq1 _ (hap.2 _ e)))
  · rcases sfx_mem 63 _ _ hx with e | e
    · exact Or.inr (Or.inr (Or.inl e))
    · exact Or.inl (hf1 _ (hq2 _ e))
  · rcases sfx_mem 35 _ _ hx with e | e
    · exact Or.inr (Or.inr (Or.inr e))
    · exact Or.inl (hf2 _ e)

end MitmVerif.C33
